(* C10 - executable model of the flush / reload / copy machinery of core/state:
   statedb.go (New, Finalise, IntermediateRoot, Commit, Copy, the account
   mutators), state_object.go (newObject, GetState, SetState, finalise,
   updateTrie, updateRoot, CommitTrie, deepCopy, SetCode, UpdateDelegationTo,
   updateDelegations, loadDelegations), statedb_val.go (NewVldReader,
   CreateValidator, UpdateValidator, RemoveValidator, incr/decrValidatorsStat,
   updateValidator, deleteValidator, save/load of index, stat and withdraw
   queue, GetValidatorsForUpdate) and statedb_staking.go (AddStakingRecord,
   AddPendingRelationship, updateStakingTrie, loadPendingRelationship,
   ResetStakingTrie, UpdateDelegator).  No proofs in this file.

   Conventions
   - A trie is its CONTENT: an association list sorted by key (what the root is
     a hash of; that the root of the real trie depends on the content only is
     C13's theorem).  Tries hold typed records; every read decodes the encoding
     of the stored record ([dec (enc x)]), every root is taken over the encoded
     content, so the record codecs (C14) and the hash functions are explicit
     parameters ([World]).
   - The database (trie.Database + cachingDB) is a content-addressed store:
     committed tries by root, storage tries by root, code and delegation blobs
     by hash.  It only grows (garbage collection is outside the model).
   - Addresses, keys, hashes of transactions are N (the harness numbers them so
     that numeric order = byte order); big.Int >= 0 and uint64 are N (the
     validator counters wrap at 2^64 as in the code).
   - Journals are reduced to their [dirties] sets (snapshot/revert is C09).
   - Pure reads do not insert clean objects into the live maps (the code does;
     a clean cached object equals the decoded trie entry).
   - [copy_flags] selects between the copy code before and after the repair of
     the two findings of this property (see Properties.v); the harness reads
     from the source of the working tree which variant it has. *)
From Coq Require Export List NArith Bool.
Export ListNotations.
Open Scope N_scope.

Definition M64 : N := 18446744073709551616.

(* ---- sorted finite maps and sets over N ---------------------------------- *)
Section Maps.
  Context {V : Type}.
  Fixpoint find (m : list (N * V)) (k : N) : option V :=
    match m with
    | [] => None
    | (k', v) :: r => if N.eqb k' k then Some v else find r k
    end.
  Fixpoint ins (m : list (N * V)) (k : N) (v : V) : list (N * V) :=
    match m with
    | [] => [(k, v)]
    | (k', v') :: r =>
      if N.ltb k k' then (k, v) :: m
      else if N.eqb k' k then (k, v) :: r
      else (k', v') :: ins r k v
    end.
  Fixpoint del (m : list (N * V)) (k : N) : list (N * V) :=
    match m with
    | [] => []
    | (k', v') :: r => if N.eqb k' k then r else (k', v') :: del r k
    end.
End Maps.

Fixpoint smem (l : list N) (k : N) : bool :=
  match l with [] => false | x :: r => if N.eqb x k then true else smem r k end.
Fixpoint sins (l : list N) (k : N) : list N :=
  match l with
  | [] => [k]
  | x :: r => if N.ltb k x then k :: l else if N.eqb x k then l else x :: sins r k
  end.
Fixpoint sdel (l : list N) (k : N) : list N :=
  match l with [] => [] | x :: r => if N.eqb x k then r else x :: sdel r k end.

Definition slot (m : list (N * N)) (k : N) : N :=
  match find m k with Some v => v | None => 0 end.

(* ---- records -------------------------------------------------------------- *)

(* state.Account; H = type of hashes *)
Record account (H : Type) := mkAcct {
  a_nonce : N; a_bal : N; a_root : H; a_code : H; a_dbal : N; a_dhash : option H }.
Arguments mkAcct {H}. Arguments a_nonce {H}. Arguments a_bal {H}. Arguments a_root {H}.
Arguments a_code {H}. Arguments a_dbal {H}. Arguments a_dhash {H}.

(* state.Validator: the fields the state layer itself reads, the delegation
   list (delegator, stake, token) and all remaining encoded fields as an opaque
   list (name, operator, coinbase, expelled, ..., ext) *)
Record validator := mkVal {
  v_addr : N; v_role : N; v_status : N; v_token : N; v_stake : N;
  v_dlgs : list (N * N * N); v_rest : list N; v_deleted : bool }.
Definition set_deleted (b : bool) (v : validator) : validator :=
  mkVal (v_addr v) (v_role v) (v_status v) (v_token v) (v_stake v) (v_dlgs v) (v_rest v) b.

(* state.ValKindStat *)
Record kstat := mkKS {
  k_ostake : N; k_otoken : N; k_ocount : N;
  k_fstake : N; k_ftoken : N; k_fcount : N;
  k_residue : N; k_rewards : N }.
Definition new_kstat : kstat := mkKS 0 0 0 0 0 0 0 0.
(* state.ValidatorsStat: [KindValidator; KindChamber; KindHouse; RoleChancellor; RoleSenator; RoleHouse] *)
Definition stat := list kstat.
Definition new_stat : stat := [new_kstat; new_kstat; new_kstat; new_kstat; new_kstat; new_kstat].

Definition wrec := list N.            (* state.WithdrawRecord, opaque fields *)
Definition srec := (N * list N)%type. (* state.Record: FinalValue, TxHashes *)

(* validator trie content: valinfo-||addr, valindex, valstat, valubds *)
Record vtrie := mkVT {
  vt_info : list (N * validator); vt_index : option (list N);
  vt_stat : option stat; vt_queue : option (list wrec) }.
Definition vt_empty : vtrie := mkVT [] None None None.
(* staking trie content: biAddress -> record, pendingr *)
Record strie := mkST { st_recs : list (N * srec); st_prel : option (list N) }.
Definition st_empty : strie := mkST [] None.

(* ---- the external functions ---------------------------------------------- *)
Class World := {
  hash : Type; heqb : hash -> hash -> bool;      (* hashes of blobs and storage tries *)
  rhash : Type; rheqb : rhash -> rhash -> bool;  (* roots of the three top-level tries *)
  blob : Type;                                   (* RLP byte strings *)
  h_code : list N -> hash;                       (* Keccak256(code) *)
  h_dlgs : list N -> hash;                       (* Keccak256(rlp(SortedAddresses)) *)
  root_stor : list (N * N) -> hash;              (* storage trie root of the non-zero slots *)
  enc_acct : account hash -> blob;  dec_acct : blob -> option (account hash);
  enc_val : validator -> blob;      dec_val : blob -> option validator;
  enc_idx : list N -> blob;         dec_idx : blob -> option (list N);
  enc_stat : stat -> blob;          dec_stat : blob -> option stat;
  enc_queue : list wrec -> blob;    dec_queue : blob -> option (list wrec);
  enc_rec : srec -> blob;           dec_rec : blob -> option srec;
  enc_prel : list N -> blob;        dec_prel : blob -> option (list N);
  root_acct : list (N * blob) -> rhash;
  root_val : list (N * blob) -> option blob -> option blob -> option blob -> rhash;
  root_stk : list (N * blob) -> option blob -> rhash
}.

Section Model.
Context {W : World}.

Definition acct := account hash.

Definition menc {A} (e : A -> blob) (m : list (N * A)) : list (N * blob) :=
  map (fun kv => (fst kv, e (snd kv))) m.
(* roots of the three tries = hash of the encoded content *)
Definition aroot (t : list (N * acct)) : rhash := root_acct (menc enc_acct t).
Definition vroot (t : vtrie) : rhash :=
  root_val (menc enc_val (vt_info t)) (option_map enc_idx (vt_index t))
           (option_map enc_stat (vt_stat t)) (option_map enc_queue (vt_queue t)).
Definition sroot (t : strie) : rhash :=
  root_stk (menc enc_rec (st_recs t)) (option_map enc_prel (st_prel t)).

(* ---- database -------------------------------------------------------------- *)
Fixpoint hfind {A} (l : list (hash * A)) (h : hash) : option A :=
  match l with [] => None | (h', x) :: r => if heqb h' h then Some x else hfind r h end.
Fixpoint rfind {A} (l : list (rhash * A)) (h : rhash) : option A :=
  match l with [] => None | (h', x) :: r => if rheqb h' h then Some x else rfind r h end.

Record database := mkDb {
  d_acct : list (rhash * list (N * acct));
  d_val : list (rhash * vtrie);
  d_stk : list (rhash * strie);
  d_stor : list (hash * list (N * N));
  d_code : list (hash * list N);
  d_dlgs : list (hash * list N) }.
Definition db_empty : database := mkDb [] [] [] [] [] [].
Definition db_add_acct r t d := mkDb ((r, t) :: d_acct d) (d_val d) (d_stk d) (d_stor d) (d_code d) (d_dlgs d).
Definition db_add_val r t d := mkDb (d_acct d) ((r, t) :: d_val d) (d_stk d) (d_stor d) (d_code d) (d_dlgs d).
Definition db_add_stk r t d := mkDb (d_acct d) (d_val d) ((r, t) :: d_stk d) (d_stor d) (d_code d) (d_dlgs d).
Definition db_add_stor h t d := mkDb (d_acct d) (d_val d) (d_stk d) ((h, t) :: d_stor d) (d_code d) (d_dlgs d).
Definition db_add_code h c d := mkDb (d_acct d) (d_val d) (d_stk d) (d_stor d) ((h, c) :: d_code d) (d_dlgs d).
Definition db_add_dlgs h l d := mkDb (d_acct d) (d_val d) (d_stk d) (d_stor d) (d_code d) ((h, l) :: d_dlgs d).

(* Database.OpenTrie / OpenStorageTrie: the empty root needs no node *)
Definition open_acct (d : database) (r : rhash) : option (list (N * acct)) :=
  if rheqb r (aroot []) then Some [] else rfind (d_acct d) r.
Definition open_val (d : database) (r : rhash) : option vtrie :=
  if rheqb r (vroot vt_empty) then Some vt_empty else rfind (d_val d) r.
Definition open_stk (d : database) (r : rhash) : option strie :=
  if rheqb r (sroot st_empty) then Some st_empty else rfind (d_stk d) r.
Definition open_stor (d : database) (h : hash) : option (list (N * N)) :=
  if heqb h (root_stor []) then Some [] else hfind (d_stor d) h.

(* ---- stateObject ----------------------------------------------------------- *)
Record sobj := mkObj {
  o_data : acct;
  o_codec : option (list N);     (* code (nil = not loaded) *)
  o_dirtyCode : bool;
  o_origin : list (N * N);       (* originStorage *)
  o_pending : list (N * N);      (* pendingStorage *)
  o_dirty : list (N * N);        (* dirtyStorage *)
  o_trie : option (list (N * N));(* storage trie, nil until first access *)
  o_suicided : bool; o_deleted : bool;
  o_dlgs : option (list N);      (* delegations (nil = not loaded) *)
  o_dirtyDlgs : bool }.

Definition set_data x o := mkObj x (o_codec o) (o_dirtyCode o) (o_origin o) (o_pending o) (o_dirty o) (o_trie o) (o_suicided o) (o_deleted o) (o_dlgs o) (o_dirtyDlgs o).
Definition set_code c dc o := mkObj (o_data o) c dc (o_origin o) (o_pending o) (o_dirty o) (o_trie o) (o_suicided o) (o_deleted o) (o_dlgs o) (o_dirtyDlgs o).
Definition set_stor og pe di tr o := mkObj (o_data o) (o_codec o) (o_dirtyCode o) og pe di tr (o_suicided o) (o_deleted o) (o_dlgs o) (o_dirtyDlgs o).
Definition set_flags su de o := mkObj (o_data o) (o_codec o) (o_dirtyCode o) (o_origin o) (o_pending o) (o_dirty o) (o_trie o) su de (o_dlgs o) (o_dirtyDlgs o).
Definition set_dlgs l dd o := mkObj (o_data o) (o_codec o) (o_dirtyCode o) (o_origin o) (o_pending o) (o_dirty o) (o_trie o) (o_suicided o) (o_deleted o) l dd.

Definition with_nonce x (a : acct) : acct := mkAcct x (a_bal a) (a_root a) (a_code a) (a_dbal a) (a_dhash a).
Definition with_bal x (a : acct) : acct := mkAcct (a_nonce a) x (a_root a) (a_code a) (a_dbal a) (a_dhash a).
Definition with_root x (a : acct) : acct := mkAcct (a_nonce a) (a_bal a) x (a_code a) (a_dbal a) (a_dhash a).
Definition with_codeh x (a : acct) : acct := mkAcct (a_nonce a) (a_bal a) (a_root a) x (a_dbal a) (a_dhash a).
Definition with_dbal x (a : acct) : acct := mkAcct (a_nonce a) (a_bal a) (a_root a) (a_code a) x (a_dhash a).
Definition with_dhash x (a : acct) : acct := mkAcct (a_nonce a) (a_bal a) (a_root a) (a_code a) (a_dbal a) x.

(* Account{} after newObject's defaults: zero root opens the empty trie *)
Definition empty_acct : acct := mkAcct 0 0 (root_stor []) (h_code []) 0 None.
(* newObject *)
Definition new_object (data : acct) : sobj :=
  mkObj data None false [] [] [] None false false None false.

(* stateObject.empty *)
Definition obj_empty (o : sobj) : bool :=
  N.eqb (a_nonce (o_data o)) 0 && N.eqb (a_bal (o_data o)) 0 && heqb (a_code (o_data o)) (h_code []).

(* stateObject.getTrie (read part): a missing root opens the empty trie and memoizes an error *)
Definition get_trie (d : database) (o : sobj) : list (N * N) :=
  match o_trie o with
  | Some t => t
  | None => match open_stor d (a_root (o_data o)) with Some t => t | None => [] end
  end.
(* stateObject.GetCommittedState / GetState *)
Definition get_committed (d : database) (o : sobj) (k : N) : N :=
  match find (o_pending o) k with
  | Some v => v
  | None => match find (o_origin o) k with
            | Some v => v
            | None => slot (get_trie d o) k
            end
  end.
Definition get_state (d : database) (o : sobj) (k : N) : N :=
  match find (o_dirty o) k with Some v => v | None => get_committed d o k end.
(* the caching side of GetCommittedState: originStorage[key] = value, trie opened *)
Definition cache_origin (d : database) (o : sobj) (k : N) : sobj :=
  match find (o_pending o) k with
  | Some _ => o
  | None => match find (o_origin o) k with
            | Some _ => o
            | None => let t := get_trie d o in
                      set_stor (ins (o_origin o) k (slot t k)) (o_pending o) (o_dirty o) (Some t) o
            end
  end.
(* stateObject.SetState (journal entry = dirties, added by the caller) *)
Definition obj_set_state (d : database) (o : sobj) (k v : N) : sobj * bool :=
  let prev := get_state d o k in
  let o1 := match find (o_dirty o) k with Some _ => o | None => cache_origin d o k end in
  if N.eqb prev v then (o1, false)
  else (set_stor (o_origin o1) (o_pending o1) (ins (o_dirty o1) k v) (o_trie o1) o1, true).

Definition merge (base upd : list (N * N)) : list (N * N) :=
  fold_left (fun m kv => ins m (fst kv) (snd kv)) upd base.
(* stateObject.finalise *)
Definition obj_finalise (o : sobj) : sobj :=
  set_stor (o_origin o) (merge (o_pending o) (o_dirty o)) [] (o_trie o) o.
(* stateObject.updateTrie *)
Definition upd_slot (acc : list (N * N) * list (N * N)) (kv : N * N) :=
  let '(og, t) := acc in
  let '(k, v) := kv in
  if N.eqb v (slot og k) then (og, t)
  else (ins og k v, if N.eqb v 0 then del t k else ins t k v).
Definition obj_update_trie (d : database) (o : sobj) : sobj :=
  let o1 := obj_finalise o in
  let t := get_trie d o1 in
  let '(og, t') := fold_left upd_slot (o_pending o1) (o_origin o1, t) in
  set_stor og [] [] (Some t') o1.
(* stateObject.updateRoot *)
Definition obj_update_root (d : database) (o : sobj) : sobj :=
  let o1 := obj_update_trie d o in
  set_data (with_root (root_stor (get_trie d o1)) (o_data o1)) o1.

(* stateObject.Code *)
Definition obj_code (d : database) (o : sobj) : list N :=
  match o_codec o with
  | Some c => c
  | None => if heqb (a_code (o_data o)) (h_code []) then []
            else match hfind (d_code d) (a_code (o_data o)) with Some c => c | None => [] end
  end.
(* stateObject.SetCode *)
Definition obj_set_code (c : list N) (o : sobj) : sobj :=
  set_code (Some c) true (set_data (with_codeh (h_code c) (o_data o)) o).

(* stateObject.Delegations / loadDelegations: None = panic (blob missing) *)
Definition obj_delegations (d : database) (o : sobj) : option (list N) :=
  match o_dlgs o with
  | Some l => Some l
  | None => match a_dhash (o_data o) with
            | None => Some []
            | Some h => hfind (d_dlgs d) h
            end
  end.
(* stateObject.updateDelegations *)
Definition obj_update_dlgs (l : list N) (o : sobj) : sobj :=
  set_dlgs (Some l) true
    (set_data (with_dhash (match l with [] => None | _ => Some (h_dlgs l) end) (o_data o)) o).
(* stateObject.UpdateDelegationTo; None = panic in loadDelegations *)
Definition obj_update_delegation_to (d : database) (v : N) (delete : bool) (o : sobj) : option sobj :=
  match obj_delegations d o with
  | None => None
  | Some l =>
    let o1 := set_dlgs (Some l) (o_dirtyDlgs o) o in   (* loadDelegations caches *)
    if smem l v then (if delete then Some (obj_update_dlgs (sdel l v) o1) else Some o1)
    else (if delete then Some o1 else Some (obj_update_dlgs (sins l v) o1))
  end.

(* the two code variants of the copy functions (findings of this property) *)
Record copy_flags := mkCF {
  cf_keep_dlgs : bool;     (* deepCopy carries delegations and dirtyDlgs *)
  cf_dirty_always : bool   (* Copy marks every copied dirty object dirty *) }.

(* stateObject.deepCopy *)
Definition obj_deep_copy (f : copy_flags) (o : sobj) : sobj :=
  mkObj (o_data o) (o_codec o) (o_dirtyCode o) (o_origin o) (o_pending o) (o_dirty o) (o_trie o)
        (o_suicided o) (o_deleted o)
        (if cf_keep_dlgs f then o_dlgs o else None)
        (if cf_keep_dlgs f then o_dirtyDlgs o else false).

(* ---- StateDB, account part --------------------------------------------------- *)
Record accs := mkAccs {
  ac_trie : list (N * acct);     (* trie (content, uncommitted writes included) *)
  ac_objs : list (N * sobj);     (* stateObjects *)
  ac_pending : list N;           (* stateObjectsPending *)
  ac_dirty : list N;             (* stateObjectsDirty *)
  ac_jd : list N                 (* journal.dirties *) }.
Definition ac_set_obj a o (s : accs) := mkAccs (ac_trie s) (ins (ac_objs s) a o) (ac_pending s) (ac_dirty s) (ac_jd s).
Definition ac_journal a (s : accs) := mkAccs (ac_trie s) (ac_objs s) (ac_pending s) (ac_dirty s) (sins (ac_jd s) a).

(* getDeletedStateObject / getStateObject (pure) *)
Definition get_obj_raw (s : accs) (a : N) : option sobj :=
  match find (ac_objs s) a with
  | Some o => Some o
  | None => match find (ac_trie s) a with
            | Some x => match dec_acct (enc_acct x) with
                        | Some data => Some (new_object data)
                        | None => None
                        end
            | None => None
            end
  end.
Definition get_obj (s : accs) (a : N) : option sobj :=
  match get_obj_raw s a with
  | Some o => if o_deleted o then None else Some o
  | None => None
  end.
(* createObject: createObjectChange dirties the address, resetObjectChange does not *)
Definition create_object (s : accs) (a : N) : accs * sobj * option sobj :=
  let prev := get_obj_raw s a in
  let o := new_object empty_acct in
  let s1 := ac_set_obj a o s in
  (match prev with None => ac_journal a s1 | Some _ => s1 end, o, prev).
(* GetOrNewStateObject *)
Definition get_or_new (s : accs) (a : N) : accs * sobj :=
  match get_obj s a with
  | Some o => (s, o)
  | None => let '(s1, o, _) := create_object s a in (s1, o)
  end.
(* a journalled write of object [o] at [a] *)
Definition put_j (s : accs) (a : N) (o : sobj) : accs := ac_journal a (ac_set_obj a o s).

(* StateDB.SetBalance / stateObject.SetBalance *)
Definition set_balance (a v : N) (s : accs) : accs :=
  let '(s1, o) := get_or_new s a in put_j s1 a (set_data (with_bal v (o_data o)) o).
(* StateDB.AddBalance / stateObject.AddBalance (touch when amount = 0 and empty) *)
Definition add_balance (a v : N) (s : accs) : accs :=
  let '(s1, o) := get_or_new s a in
  if N.eqb v 0 then (if obj_empty o then ac_journal a (ac_set_obj a o s1) else ac_set_obj a o s1)
  else put_j s1 a (set_data (with_bal (a_bal (o_data o) + v) (o_data o)) o).
Definition set_nonce (a n : N) (s : accs) : accs :=
  let '(s1, o) := get_or_new s a in put_j s1 a (set_data (with_nonce n (o_data o)) o).
Definition set_code_op (d : database) (a : N) (c : list N) (s : accs) : accs :=
  let '(s1, o) := get_or_new s a in
  (* SetCode first reads the previous code (cached by Code) *)
  let o1 := match o_codec o with
            | Some _ => o
            | None => if heqb (a_code (o_data o)) (h_code []) then o
                      else set_code (hfind (d_code d) (a_code (o_data o))) (o_dirtyCode o) o
            end in
  put_j s1 a (obj_set_code c o1).
Definition set_state_op (d : database) (a k v : N) (s : accs) : accs :=
  let '(s1, o) := get_or_new s a in
  let '(o1, changed) := obj_set_state d o k v in
  if changed then put_j s1 a o1 else ac_set_obj a o1 s1.
(* StateDB.Suicide *)
Definition suicide (a : N) (s : accs) : accs :=
  match get_obj s a with
  | None => s
  | Some o => put_j s a (set_flags true (o_deleted o) (set_data (with_bal 0 (o_data o)) o))
  end.
(* StateDB.CreateAccount *)
Definition create_account (a : N) (s : accs) : accs :=
  let '(s1, o, prev) := create_object s a in
  match prev with
  | Some p => ac_set_obj a (set_data (with_bal (a_bal (o_data p)) (o_data o)) o) s1
  | None => s1
  end.
(* StateDB.UpdateDelegator: None = panic in loadDelegations *)
Definition update_delegator (d : database) (a v : N) (neg : bool) (amt : N) (delete : bool) (s : accs) : option accs :=
  match get_obj s a with
  | None => Some s
  | Some o =>
    match obj_update_delegation_to d v delete o with
    | None => None
    | Some o1 =>
      let nb := if neg then a_dbal (o_data o1) - amt else a_dbal (o_data o1) + amt in
      Some (put_j s a (set_data (with_dbal nb (o_data o1)) o1))
    end
  end.

(* Finalise, account loop *)
Definition fin_acct (del : bool) (s : accs) (a : N) : accs :=
  match find (ac_objs s) a with
  | None => s
  | Some o =>
    let o1 := if o_suicided o || (del && obj_empty o)
              then set_flags (o_suicided o) true o else obj_finalise o in
    mkAccs (ac_trie s) (ins (ac_objs s) a o1) (sins (ac_pending s) a) (sins (ac_dirty s) a) (ac_jd s)
  end.
Definition ac_finalise (del : bool) (s : accs) : accs :=
  let s1 := fold_left (fin_acct del) (ac_jd s) s in
  mkAccs (ac_trie s1) (ac_objs s1) (ac_pending s1) (ac_dirty s1) [].
(* IntermediateRoot, account loop (updateStateObject / deleteStateObject) *)
Definition flush_acct (d : database) (s : accs) (a : N) : accs :=
  match find (ac_objs s) a with
  | None => s
  | Some o =>
    if o_deleted o then mkAccs (del (ac_trie s) a) (ac_objs s) (ac_pending s) (ac_dirty s) (ac_jd s)
    else let o1 := obj_update_root d o in
         mkAccs (ins (ac_trie s) a (o_data o1)) (ins (ac_objs s) a o1) (ac_pending s) (ac_dirty s) (ac_jd s)
  end.
Definition ac_iroot (d : database) (del : bool) (s : accs) : accs :=
  let s1 := ac_finalise del s in
  let s2 := fold_left (flush_acct d) (ac_pending s1) s1 in
  mkAccs (ac_trie s2) (ac_objs s2) [] (ac_dirty s2) (ac_jd s2).
(* Commit, account loop: code blob, delegation blob, storage trie *)
Definition commit_acct (ds : database * accs) (a : N) : database * accs :=
  let '(d, s) := ds in
  match find (ac_objs s) a with
  | None => ds
  | Some o =>
    if o_deleted o then ds else
    let '(d1, o1) := match o_codec o with
                     | Some c => if o_dirtyCode o then (db_add_code (a_code (o_data o)) c d, set_code (Some c) false o) else (d, o)
                     | None => (d, o)
                     end in
    let '(d2, o2) := if o_dirtyDlgs o1 then
                       match obj_delegations d1 o1 with
                       | Some (x :: r) => (match a_dhash (o_data o1) with
                                           | Some h => db_add_dlgs h (x :: r) d1
                                           | None => d1 end,
                                           set_dlgs (Some (x :: r)) false o1)
                       | Some [] => (d1, set_dlgs (Some []) false o1)
                       | None => (d1, o1)   (* unreachable: dirtyDlgs implies loaded *)
                       end
                     else (d1, o1) in
    let o3 := obj_update_trie d2 o2 in
    let t := get_trie d2 o3 in
    let o4 := set_data (with_root (root_stor t) (o_data o3)) o3 in
    (db_add_stor (root_stor t) t d2, ac_set_obj a o4 s)
  end.
Definition ac_commit (d : database) (s : accs) : database * accs :=
  let '(d1, s1) := fold_left commit_acct (ac_dirty s) (d, s) in
  (db_add_acct (aroot (ac_trie s1)) (ac_trie s1) d1,
   mkAccs (ac_trie s1) (ac_objs s1) (ac_pending s1) [] (ac_jd s1)).
(* Copy, account part *)
Definition copy_obj (f : copy_flags) (src : accs) (acc : list (N * sobj)) (a : N) : list (N * sobj) :=
  match find acc a with
  | Some _ => acc
  | None => match find (ac_objs src) a with
            | Some o => ins acc a (obj_deep_copy f o)
            | None => acc
            end
  end.
Definition ac_copy (f : copy_flags) (s : accs) : accs :=
  let jd_live := filter (fun a => match find (ac_objs s) a with Some _ => true | None => false end) (ac_jd s) in
  let objs1 := fold_left (copy_obj f s) jd_live [] in
  let objs2 := fold_left (copy_obj f s) (ac_pending s) objs1 in
  let objs3 := fold_left (copy_obj f s) (ac_dirty s) objs2 in
  let pend := fold_left sins (ac_pending s) (fold_left sins jd_live []) in
  let dirty_new := filter (fun a => match find objs2 a with Some _ => cf_dirty_always f | None => true end) (ac_dirty s) in
  let dirt := fold_left sins dirty_new (fold_left sins jd_live []) in
  mkAccs (ac_trie s) objs3 pend dirt [].

(* ---- StateDB, validator part -------------------------------------------------- *)
Record vals := mkVals {
  vl_trie : vtrie;
  vl_objs : list (N * validator);  (* validatorObjects *)
  vl_dirty : list N;               (* validatorObjectsDirty *)
  vl_jd : list N;                  (* validatorJournal.dirties *)
  vl_index : list N;               (* validatorIndex *)
  vl_stat : stat;                  (* validatorsStat (loaded by New) *)
  vl_mod : bool;                   (* validatorsStatModified *)
  vl_wq : option (list wrec)       (* withdrawQueue (nil until first access) *) }.

Fixpoint upd_nth {A} (i : nat) (f : A -> A) (l : list A) : list A :=
  match l, i with
  | [], _ => []
  | x :: r, O => f x :: r
  | x :: r, S j => x :: upd_nth j f r
  end.
Definition kind_of_role (r : N) : N := if N.eqb r 1 || N.eqb r 2 then 1 else if N.eqb r 3 then 2 else 0.
(* ValKindStat.AddVal / SubVal (clamped subtraction, wrapping counters) *)
Definition ks_add (v : validator) (k : kstat) : kstat :=
  if N.eqb (v_status v) 1
  then mkKS (k_ostake k + v_stake v) (k_otoken k + v_token v) ((k_ocount k + 1) mod M64)
            (k_fstake k) (k_ftoken k) (k_fcount k) (k_residue k) (k_rewards k)
  else mkKS (k_ostake k) (k_otoken k) (k_ocount k)
            (k_fstake k + v_stake v) (k_ftoken k + v_token v) ((k_fcount k + 1) mod M64) (k_residue k) (k_rewards k).
Definition csub (a b : N) : N := if N.leb b a then a - b else a.
Definition ks_sub (v : validator) (k : kstat) : kstat :=
  if N.eqb (v_status v) 1
  then mkKS (csub (k_ostake k) (v_stake v)) (csub (k_otoken k) (v_token v)) ((k_ocount k + M64 - 1) mod M64)
            (k_fstake k) (k_ftoken k) (k_fcount k) (k_residue k) (k_rewards k)
  else mkKS (k_ostake k) (k_otoken k) (k_ocount k)
            (csub (k_fstake k) (v_stake v)) (csub (k_ftoken k) (v_token v)) ((k_fcount k + M64 - 1) mod M64) (k_residue k) (k_rewards k).
(* incrValidatorsStat / decrValidatorsStat: role, kind of role, KindValidator *)
Definition stat_apply (f : validator -> kstat -> kstat) (v : validator) (st : stat) : stat :=
  upd_nth 0 (f v) (upd_nth (N.to_nat (kind_of_role (v_role v))) (f v)
    (upd_nth (N.to_nat (2 + v_role v)) (f v) st)).
Definition vl_incr (v : validator) (s : vals) : vals :=
  mkVals (vl_trie s) (vl_objs s) (vl_dirty s) (vl_jd s) (vl_index s) (stat_apply ks_add v (vl_stat s)) true (vl_wq s).
Definition vl_decr (v : validator) (s : vals) : vals :=
  mkVals (vl_trie s) (vl_objs s) (vl_dirty s) (vl_jd s) (vl_index s) (stat_apply ks_sub v (vl_stat s)) true (vl_wq s).

(* getValidator (pure): live object first (nil if deleted), else the trie *)
Definition load_validator (s : vals) (a : N) : option validator :=
  match find (vt_info (vl_trie s)) a with
  | Some x => dec_val (enc_val x)
  | None => None
  end.
Definition get_validator (s : vals) (a : N) : option validator :=
  match find (vl_objs s) a with
  | Some v => if v_deleted v then None else Some v
  | None => load_validator s a
  end.
(* setValidator *)
Definition set_validator (v : validator) (s : vals) : vals :=
  mkVals (vl_trie s) (ins (vl_objs s) (v_addr v) v) (vl_dirty s) (vl_jd s) (sins (vl_index s) (v_addr v)) (vl_stat s) (vl_mod s) (vl_wq s).
Definition vl_journal (a : N) (s : vals) : vals :=
  mkVals (vl_trie s) (vl_objs s) (vl_dirty s) (sins (vl_jd s) a) (vl_index s) (vl_stat s) (vl_mod s) (vl_wq s).
(* CreateValidator (the record is NewValidator's result) *)
Definition create_validator (v : validator) (s : vals) : vals :=
  match get_validator s (v_addr v) with
  | Some _ => s
  | None => vl_incr v (set_validator v (vl_journal (v_addr v) s))
  end.
Definition stake_equal (a b : validator) : bool :=
  N.eqb (v_role a) (v_role b) && N.eqb (v_stake a) (v_stake b) && N.eqb (v_token a) (v_token b) && N.eqb (v_status a) (v_status b).
(* UpdateValidator(newVal, oldVal) with oldVal = the current record *)
Definition update_validator (nv : validator) (s : vals) : vals :=
  match get_validator s (v_addr nv) with
  | None => s
  | Some old =>
    let s1 := vl_journal (v_addr nv) (set_validator nv s) in
    if stake_equal nv old then s1 else vl_incr nv (vl_decr old s1)
  end.
(* GetValidatorByMainAddr; RemoveValidator: nothing for an object already removed;
   otherwise flag it, take it out of the index and out of the statistics once *)
Definition mark_removed (v : validator) (s : vals) : vals :=
  vl_decr v (mkVals (vl_trie s) (ins (vl_objs s) (v_addr v) (set_deleted true v)) (vl_dirty s) (sins (vl_jd s) (v_addr v))
                    (sdel (vl_index s) (v_addr v)) (vl_stat s) (vl_mod s) (vl_wq s)).
Definition remove_validator (a : N) (s : vals) : vals :=
  match find (vl_objs s) a with
  | Some v => if v_deleted v then s else mark_removed v s
  | None => match load_validator s a with
            | Some v => mark_removed v (set_validator v s)
            | None => s
            end
  end.
(* direct mutation of the statistics object returned by GetValidatorsStat (AddRewards / SetRewardsResidue) *)
Definition stat_add_rewards (ix amt : N) (s : vals) : vals :=
  mkVals (vl_trie s) (vl_objs s) (vl_dirty s) (vl_jd s) (vl_index s)
    (upd_nth (N.to_nat ix) (fun k => mkKS (k_ostake k) (k_otoken k) (k_ocount k) (k_fstake k) (k_ftoken k) (k_fcount k) (k_residue k) (k_rewards k + amt)) (vl_stat s))
    (vl_mod s) (vl_wq s).
Definition stat_set_residue (ix amt : N) (s : vals) : vals :=
  mkVals (vl_trie s) (vl_objs s) (vl_dirty s) (vl_jd s) (vl_index s)
    (upd_nth (N.to_nat ix) (fun k => mkKS (k_ostake k) (k_otoken k) (k_ocount k) (k_fstake k) (k_ftoken k) (k_fcount k) amt (k_rewards k)) (vl_stat s))
    (vl_mod s) (vl_wq s).
(* getWithdrawQueue (pure) *)
Definition get_wq (s : vals) : list wrec :=
  match vl_wq s with
  | Some q => q
  | None => match vt_queue (vl_trie s) with
            | Some x => match dec_queue (enc_queue x) with Some q => q | None => [] end
            | None => []
            end
  end.
Definition set_wq (q : list wrec) (s : vals) : vals :=
  mkVals (vl_trie s) (vl_objs s) (vl_dirty s) (vl_jd s) (vl_index s) (vl_stat s) (vl_mod s) (Some q).
Definition add_withdraw (r : wrec) (s : vals) : vals := set_wq (get_wq s ++ [r]) s.
(* WithdrawQueue.RemoveRecords (valid, distinct indexes) *)
Fixpoint remove_idx (i : N) (idx : list N) (q : list wrec) : list wrec :=
  match q with
  | [] => []
  | r :: t => if smem idx i then remove_idx (i + 1) idx t else r :: remove_idx (i + 1) idx t
  end.
Definition remove_withdraws (idx : list N) (s : vals) : vals := set_wq (remove_idx 0 idx (get_wq s)) s.
(* an in-place edit of record i of the queue GetWithdrawQueue() hands out (the staking module
   sets Finished and lowers FinalBalance this way, with no Add / Remove call): field f := v *)
Fixpoint set_nth_n {A} (i : N) (f : A -> A) (l : list A) : list A :=
  match l with
  | [] => []
  | x :: r => if N.eqb i 0 then f x :: r else x :: set_nth_n (i - 1) f r
  end.
Definition edit_withdraw (i f v : N) (s : vals) : vals :=
  set_wq (set_nth_n i (set_nth_n f (fun _ => v)) (get_wq s)) s.
(* GetValidatorsForUpdate: an empty index is re-read from the trie; result = addresses listed *)
Definition list_validators (s : vals) : vals * list N :=
  let s1 := match vl_index s with
            | _ :: _ => s
            | [] => match vt_index (vl_trie s) with
                    | Some l => match dec_idx (enc_idx l) with
                                | Some l' => mkVals (vl_trie s) (vl_objs s) (vl_dirty s) (vl_jd s) (fold_left sins l' []) (vl_stat s) (vl_mod s) (vl_wq s)
                                | None => s
                                end
                    | None => s
                    end
            end in
  (s1, vl_index s1).

Definition is_invalid (v : validator) : bool := N.eqb (v_token v) 0 && N.eqb (v_stake v) 0.
(* Finalise, validator loop *)
Definition vl_finalise (s : vals) : vals :=
  let live := filter (fun a => match find (vl_objs s) a with Some _ => true | None => false end) (vl_jd s) in
  mkVals (vl_trie s) (vl_objs s) (fold_left sins live (vl_dirty s)) [] (vl_index s) (vl_stat s) (vl_mod s) (vl_wq s).
(* updateValidator / deleteValidator *)
Definition flush_val (de : bool) (s : vals) (a : N) : vals :=
  match find (vl_objs s) a with
  | None => s
  | Some v =>
    let t := vl_trie s in
    if v_deleted v || (de && is_invalid v) then
      (* deleteValidator: a validator RemoveValidator flagged has left the statistics already *)
      let s1 := mkVals (mkVT (del (vt_info t) a) (vt_index t) (vt_stat t) (vt_queue t))
                       (ins (vl_objs s) a (set_deleted true v)) (vl_dirty s) (vl_jd s)
                       (sdel (vl_index s) a) (vl_stat s) (vl_mod s) (vl_wq s) in
      if v_deleted v then s1 else vl_decr v s1
    else
      mkVals (mkVT (ins (vt_info t) a v) (vt_index t) (vt_stat t) (vt_queue t))
             (vl_objs s) (vl_dirty s) (vl_jd s) (sins (vl_index s) a) (vl_stat s) (vl_mod s) (vl_wq s)
  end.
(* IntermediateRoot, validator part: dirty validators, then index, stat, queue *)
Definition vl_iroot (del : bool) (s : vals) : vals :=
  let s1 := vl_finalise s in
  let s2 := fold_left (flush_val del) (vl_dirty s1) s1 in
  let q := get_wq s2 in
  mkVals (mkVT (vt_info (vl_trie s2)) (Some (vl_index s2)) (Some (vl_stat s2)) (Some q))
         (vl_objs s2) [] (vl_jd s2) (vl_index s2) (vl_stat s2) (vl_mod s2) (Some q).
Definition vl_commit (d : database) (s : vals) : database :=
  db_add_val (vroot (vl_trie s)) (vl_trie s) d.
(* Copy, validator part *)
Definition copy_val (src : vals) (acc : list (N * validator)) (a : N) : list (N * validator) :=
  match find acc a with
  | Some _ => acc
  | None => match find (vl_objs src) a with Some v => ins acc a v | None => acc end
  end.
Definition vl_copy (s : vals) : vals * vals :=
  let jd_live := filter (fun a => match find (vl_objs s) a with Some _ => true | None => false end) (vl_jd s) in
  let objs1 := fold_left (copy_val s) jd_live [] in
  let extra := filter (fun a => match find objs1 a with Some _ => false | None => true end) (vl_dirty s) in
  let objs2 := fold_left (copy_val s) extra objs1 in
  let q := get_wq s in
  (set_wq q s,
   mkVals (vl_trie s) objs2 (fold_left sins extra (fold_left sins jd_live []))
          [] (fold_left sins extra (vl_index s)) (vl_stat s) (vl_mod s) (Some q)).

(* ---- StateDB, staking part ---------------------------------------------------- *)
Record stks := mkStks {
  sk_trie : strie;
  sk_recs : list (N * srec);   (* stakingRecords *)
  sk_dirty : list N;           (* stakingRecordsDirty *)
  sk_prel : list N;            (* pendingRelats.r (sorted biAddresses) *)
  sk_preld : bool              (* pendingRelatsDirty *) }.
(* biAddress d||v as a number: byte order = numeric order *)
Definition bi (d v : N) : N := d * 1461501637330902918203684832716283019655932542976 + v.
(* getStakingRecord (pure) *)
Definition get_srec (s : stks) (k : N) : option srec :=
  match find (sk_recs s) k with
  | Some r => Some r
  | None => match find (st_recs (sk_trie s)) k with
            | Some x => dec_rec (enc_rec x)
            | None => None
            end
  end.
(* AddStakingRecord: tx = 0 is the zero hash, nf = nil keeps the value *)
Definition add_srec (d v tx : N) (nf : option N) (s : stks) : stks :=
  let k := bi d v in
  let r := match get_srec s k with Some r => r | None => (0, []) end in
  let r1 := match nf with Some x => (x, snd r) | None => r end in
  let r2 := if N.eqb tx 0 then r1 else (fst r1, snd r1 ++ [tx]) in
  mkStks (sk_trie s) (ins (sk_recs s) k r2) (sins (sk_dirty s) k) (sk_prel s) (sk_preld s).
(* AddPendingRelationship *)
Definition add_prel (d v : N) (s : stks) : stks :=
  if smem (sk_prel s) (bi d v) then s
  else mkStks (sk_trie s) (sk_recs s) (sk_dirty s) (sins (sk_prel s) (bi d v)) true.
(* ResetStakingTrie *)
Definition reset_stk (s : stks) : stks := mkStks st_empty [] [] [] false.
(* updateStakingTrie *)
Definition flush_rec (s : stks) (k : N) : stks :=
  match find (sk_recs s) k with
  | None => s
  | Some r => mkStks (mkST (ins (st_recs (sk_trie s)) k r) (st_prel (sk_trie s))) (sk_recs s) (sk_dirty s) (sk_prel s) (sk_preld s)
  end.
Definition sk_iroot (s : stks) : stks :=
  let s1 := fold_left flush_rec (sk_dirty s) s in
  if sk_preld s1
  then mkStks (mkST (st_recs (sk_trie s1)) (Some (sk_prel s1))) (sk_recs s1) [] (sk_prel s1) false
  else mkStks (sk_trie s1) (sk_recs s1) [] (sk_prel s1) (sk_preld s1).
Definition sk_commit (d : database) (s : stks) : database :=
  db_add_stk (sroot (sk_trie s)) (sk_trie s) d.
(* Copy, staking part: every cached record, the dirty set, the relationship list *)
Definition sk_copy (s : stks) : stks := s.

(* ---- StateDB -------------------------------------------------------------------- *)
Record statedb := mkSt { s_acc : accs; s_val : vals; s_stk : stks }.

(* state.New: open the three tries, load index, statistics, pending relationships *)
Definition new_state (d : database) (ra rv rs : rhash) : option statedb :=
  match open_acct d ra, open_val d rv, open_stk d rs with
  | Some ta, Some tv, Some ts =>
    match (match vt_index tv with Some l => dec_idx (enc_idx l) | None => Some [] end),
          (match vt_stat tv with Some x => dec_stat (enc_stat x) | None => Some new_stat end),
          (match st_prel ts with Some l => dec_prel (enc_prel l) | None => Some [] end) with
    | Some ix, Some st, Some pr =>
      Some (mkSt (mkAccs ta [] [] [] [])
                 (mkVals tv [] [] [] (fold_left sins ix []) st false None)
                 (mkStks ts [] [] pr false))
    | _, _, _ => None
    end
  | _, _, _ => None
  end.
(* NewVldReader: validator trie only *)
Definition new_reader (d : database) (rv : rhash) : option vals :=
  match open_val d rv with
  | Some tv =>
    match (match vt_index tv with Some l => dec_idx (enc_idx l) | None => Some [] end),
          (match vt_stat tv with Some x => dec_stat (enc_stat x) | None => Some new_stat end) with
    | Some ix, Some st => Some (mkVals tv [] [] [] (fold_left sins ix []) st false None)
    | _, _ => None
    end
  | None => None
  end.

Definition finalise (de : bool) (s : statedb) : statedb :=
  mkSt (ac_finalise de (s_acc s)) (vl_finalise (s_val s)) (s_stk s).
Definition iroot (d : database) (de : bool) (s : statedb) : statedb :=
  mkSt (ac_iroot d de (s_acc s)) (vl_iroot de (s_val s)) (sk_iroot (s_stk s)).
Definition roots (s : statedb) : rhash * rhash * rhash :=
  (aroot (ac_trie (s_acc s)), vroot (vl_trie (s_val s)), sroot (sk_trie (s_stk s))).
Definition commit (d : database) (de : bool) (s : statedb) : database * statedb :=
  let s1 := iroot d de s in
  let '(d1, a1) := ac_commit d (s_acc s1) in
  let d2 := vl_commit d1 (s_val s1) in
  let d3 := sk_commit d2 (s_stk s1) in
  (d3, mkSt a1 (s_val s1) (s_stk s1)).
(* Copy: (original after the call, copy) *)
Definition copy (f : copy_flags) (s : statedb) : statedb * statedb :=
  let '(v0, v1) := vl_copy (s_val s) in
  (mkSt (s_acc s) v0 (s_stk s), mkSt (ac_copy f (s_acc s)) v1 (sk_copy (s_stk s))).

(* ---- operations -------------------------------------------------------------------- *)
(* The alphabet follows the EVM's / staking module's usage of the API: SSTORE only
   on an existing account, CreateAccount always followed by SetNonce(1) and the
   value transfer (evm.create). *)
Inductive sop :=
| OSetBalance (a v : N) | OAddBalance (a v : N) | OSetNonce (a n : N)
| OSetCode (a : N) (c : list N) | OSetState (a k v : N) | OSuicide (a : N)
| OCreate (a v : N)
| OUpdDelegator (a v : N) (neg : bool) (amt : N) (delete : bool)
| OCreateVal (v : validator) | OUpdateVal (v : validator) | ORemoveVal (a : N)
| OAddRewards (ix amt : N) | OSetResidue (ix amt : N)
| OAddWithdraw (r : wrec) | ORemoveWithdraws (idx : list N) | OEditWithdraw (i f v : N)
| OListVals
| OAddSRec (d v tx : N) (nf : option N) | OAddPRel (d v : N) | OResetStk
| OFinalise (de : bool) | OIRoot (de : bool).

Inductive obs := ON (n : N) | OL (l : list obs).
Definition onums (l : list N) : obs := OL (map ON l).
Definition obool (b : bool) : obs := ON (if b then 1 else 0).

Definition with_acc (s : statedb) (a : accs) : statedb := mkSt a (s_val s) (s_stk s).
Definition with_val (s : statedb) (v : vals) : statedb := mkSt (s_acc s) v (s_stk s).
Definition with_stk (s : statedb) (k : stks) : statedb := mkSt (s_acc s) (s_val s) k.

(* one call on one StateDB; the second component is what the call shows
   (OL [] = nothing, OL [ON 0] = panic) *)
Definition step (d : database) (s : statedb) (o : sop) : statedb * obs :=
  match o with
  | OSetBalance a v => (with_acc s (set_balance a v (s_acc s)), OL [])
  | OAddBalance a v => (with_acc s (add_balance a v (s_acc s)), OL [])
  | OSetNonce a n => (with_acc s (set_nonce a n (s_acc s)), OL [])
  | OSetCode a c => (with_acc s (set_code_op d a c (s_acc s)), OL [])
  | OSetState a k v =>
    match get_obj (s_acc s) a with
    | None => (s, OL [])
    | Some _ => (with_acc s (set_state_op d a k v (s_acc s)), OL [])
    end
  | OSuicide a => (with_acc s (suicide a (s_acc s)), OL [])
  | OCreate a v => (with_acc s (add_balance a v (set_nonce a 1 (create_account a (s_acc s)))), OL [])
  | OUpdDelegator a v neg amt delete =>
    match update_delegator d a v neg amt delete (s_acc s) with
    | Some s1 => (with_acc s s1, OL [])
    | None => (s, OL [ON 0])
    end
  | OCreateVal v => (with_val s (create_validator v (s_val s)), OL [])
  | OUpdateVal v => (with_val s (update_validator v (s_val s)), OL [])
  | ORemoveVal a => (with_val s (remove_validator a (s_val s)), OL [])
  | OAddRewards ix amt => (with_val s (stat_add_rewards ix amt (s_val s)), OL [])
  | OSetResidue ix amt => (with_val s (stat_set_residue ix amt (s_val s)), OL [])
  | OAddWithdraw r => (with_val s (add_withdraw r (s_val s)), OL [])
  | ORemoveWithdraws idx => (with_val s (remove_withdraws idx (s_val s)), OL [])
  | OEditWithdraw i f v => (with_val s (edit_withdraw i f v (s_val s)), OL [])
  | OListVals => let '(v1, l) := list_validators (s_val s) in (with_val s v1, onums l)
  | OAddSRec dd v tx nf => (with_stk s (add_srec dd v tx nf (s_stk s)), OL [])
  | OAddPRel dd v => (with_stk s (add_prel dd v (s_stk s)), OL [])
  | OResetStk => (with_stk s (reset_stk (s_stk s)), OL [])
  | OFinalise de => (finalise de s, OL [])
  | OIRoot de => (iroot d de s, OL [])
  end.
Definition run (d : database) (s : statedb) (l : list sop) : statedb :=
  fold_left (fun s o => fst (step d s o)) l s.

(* histories of one StateDB with Commit at arbitrary points *)
Inductive cop := CStep (o : sop) | CCommit (de : bool).
Definition cstep (ds : database * statedb) (c : cop) : database * statedb :=
  match c with
  | CStep o => (fst ds, fst (step (fst ds) (snd ds) o))
  | CCommit de => commit (fst ds) de (snd ds)
  end.
Definition crun (ds : database * statedb) (l : list cop) : database * statedb := fold_left cstep l ds.

(* state.New(common.Hash{}, common.Hash{}, common.Hash{}, db) *)
Definition genesis : statedb :=
  mkSt (mkAccs [] [] [] [] []) (mkVals vt_empty [] [] [] [] new_stat false None) (mkStks st_empty [] [] [] false).

(* ---- observations ------------------------------------------------------------------- *)
Record universe := mkU { u_accts : list N; u_keys : list N; u_vals : list N; u_pairs : list (N * N) }.

Definition acct_obs (d : database) (u : universe) (s : accs) (a : N) : obs :=
  match get_obj s a with
  | None => OL []
  | Some o =>
    OL [ON (a_nonce (o_data o)); ON (a_bal (o_data o)); onums (obj_code d o);
        onums (map (get_state d o) (u_keys u)); ON (a_dbal (o_data o));
        match obj_delegations d o with Some l => OL [onums l] | None => OL [] end]
  end.
Definition val_obs (v : validator) : obs :=
  OL [ON (v_addr v); ON (v_role v); ON (v_status v); ON (v_token v); ON (v_stake v);
      OL (map (fun x => OL [ON (fst (fst x)); ON (snd (fst x)); ON (snd x)]) (v_dlgs v));
      onums (v_rest v)].
Definition kstat_obs (k : kstat) : obs :=
  onums [k_ostake k; k_otoken k; k_ocount k; k_fstake k; k_ftoken k; k_fcount k; k_residue k; k_rewards k].
Definition vals_view (u : universe) (s : vals) : obs :=
  OL [OL (map (fun a => match get_validator s a with Some v => val_obs v | None => OL [] end) (u_vals u));
      onums (vl_index s);
      OL (map kstat_obs (vl_stat s));
      OL (map onums (get_wq s));
      obool (vl_mod s)].
Definition srec_obs (r : option srec) : obs :=
  match r with Some (f, l) => OL [ON f; onums l] | None => OL [] end.
Definition stks_view (u : universe) (s : stks) : obs :=
  OL [OL (map (fun p => srec_obs (get_srec s (bi (fst p) (snd p)))) (u_pairs u));
      onums (sk_prel s)].
(* everything the harness reads from one StateDB *)
Definition view (d : database) (u : universe) (s : statedb) : obs :=
  OL [OL (map (acct_obs d u (s_acc s)) (u_accts u)); vals_view u (s_val s); stks_view u (s_stk s)].
(* what a ValidatorReader shows *)
Definition reader_view (u : universe) (s : vals) : obs :=
  OL [OL (map (fun a => match get_validator s a with Some v => val_obs v | None => OL [] end) (u_vals u));
      OL (map kstat_obs (vl_stat s))].

(* ---- several StateDBs over one database -------------------------------------------------- *)
Inductive mop :=
| MS (h : N) (o : sop)        (* a call on handle h *)
| MCommit (h : N) (de : bool) (* Commit; shows the three roots *)
| MRoots (h : N)              (* trie.Hash of the three tries *)
| MCopy (h h' : N)            (* h' := h.Copy() *)
| MReopen (h h' : N)          (* h' := state.New(roots of h's last Commit) *)
| MReopenAt (h k h' : N)      (* h' := state.New(roots of h's k-th Commit) *)
| MReader (h : N)             (* NewVldReader(valRoot of h's last Commit); shows its view *)
| MView (h : N).

(* cachingDB.pastTries: the last maxPastTries tries handed to cachedTrie.Commit.  An
   entry is the LIVE trie object of the committing StateDB (handle, which of its three
   tries), newest first; OpenTrie returns a copy of the first entry that HASHES to the
   requested root, else reads the trie database. *)
Definition max_past_tries : nat := 12.

Record machine := mkM {
  m_db : database;
  m_hs : list (N * statedb);
  m_last : list (N * (rhash * rhash * rhash));
  m_seen : list rhash * list rhash * list rhash;  (* roots shown so far, for numbering *)
  m_hist : list (N * list (rhash * rhash * rhash)); (* every Commit of a handle, oldest first *)
  m_cache : list (N * N) }.

Fixpoint cache_acct (hs : list (N * statedb)) (c : list (N * N)) (r : rhash) : option (list (N * acct)) :=
  match c with
  | [] => None
  | (h, k) :: rest =>
    match (if N.eqb k 0 then find hs h else None) with
    | Some s => if rheqb (aroot (ac_trie (s_acc s))) r then Some (ac_trie (s_acc s)) else cache_acct hs rest r
    | None => cache_acct hs rest r
    end
  end.
Fixpoint cache_val (hs : list (N * statedb)) (c : list (N * N)) (r : rhash) : option vtrie :=
  match c with
  | [] => None
  | (h, k) :: rest =>
    match (if N.eqb k 1 then find hs h else None) with
    | Some s => if rheqb (vroot (vl_trie (s_val s))) r then Some (vl_trie (s_val s)) else cache_val hs rest r
    | None => cache_val hs rest r
    end
  end.
Fixpoint cache_stk (hs : list (N * statedb)) (c : list (N * N)) (r : rhash) : option strie :=
  match c with
  | [] => None
  | (h, k) :: rest =>
    match (if N.eqb k 2 then find hs h else None) with
    | Some s => if rheqb (sroot (sk_trie (s_stk s))) r then Some (sk_trie (s_stk s)) else cache_stk hs rest r
    | None => cache_stk hs rest r
    end
  end.
(* cachingDB.OpenTrie *)
Definition mopen_acct (m : machine) (r : rhash) :=
  match cache_acct (m_hs m) (m_cache m) r with Some t => Some t | None => open_acct (m_db m) r end.
Definition mopen_val (m : machine) (r : rhash) :=
  match cache_val (m_hs m) (m_cache m) r with Some t => Some t | None => open_val (m_db m) r end.
Definition mopen_stk (m : machine) (r : rhash) :=
  match cache_stk (m_hs m) (m_cache m) r with Some t => Some t | None => open_stk (m_db m) r end.

(* the part of state.New after the three tries are open *)
Definition tries_state (ta : list (N * acct)) (tv : vtrie) (ts : strie) : option statedb :=
  match (match vt_index tv with Some l => dec_idx (enc_idx l) | None => Some [] end),
        (match vt_stat tv with Some x => dec_stat (enc_stat x) | None => Some new_stat end),
        (match st_prel ts with Some l => dec_prel (enc_prel l) | None => Some [] end) with
  | Some ix, Some st, Some pr =>
    Some (mkSt (mkAccs ta [] [] [] [])
               (mkVals tv [] [] [] (fold_left sins ix []) st false None)
               (mkStks ts [] [] pr false))
  | _, _, _ => None
  end.
(* state.New / NewVldReader through the trie cache *)
Definition mnew_state (m : machine) (ra rv rs : rhash) : option statedb :=
  match mopen_acct m ra, mopen_val m rv, mopen_stk m rs with
  | Some ta, Some tv, Some ts => tries_state ta tv ts
  | _, _, _ => None
  end.
Definition mnew_reader (m : machine) (rv : rhash) : option vals :=
  match mopen_val m rv with
  | Some tv => option_map s_val (tries_state [] tv st_empty)
  | None => None
  end.

Fixpoint rindex (l : list rhash) (r : rhash) (i : N) : option N :=
  match l with [] => None | x :: t => if rheqb x r then Some i else rindex t r (i + 1) end.
Definition intern (l : list rhash) (r : rhash) : list rhash * N :=
  match rindex l r 0 with Some i => (l, i) | None => (l ++ [r], N.of_nat (length l)) end.
Definition show_roots (m : machine) (r : rhash * rhash * rhash) : machine * obs :=
  let '(ra, rv, rs) := r in
  let '(sa, sv, ss) := m_seen m in
  let '(sa1, ia) := intern sa ra in
  let '(sv1, iv) := intern sv rv in
  let '(ss1, is_) := intern ss rs in
  (mkM (m_db m) (m_hs m) (m_last m) (sa1, sv1, ss1) (m_hist m) (m_cache m), onums [ia; iv; is_]).
Definition set_h (m : machine) (h : N) (s : statedb) : machine :=
  mkM (m_db m) (ins (m_hs m) h s) (m_last m) (m_seen m) (m_hist m) (m_cache m).
(* pushTrie for the account, validator and staking trie, in the order Commit commits them *)
Definition push_tries (h : N) (c : list (N * N)) : list (N * N) :=
  firstn max_past_tries ((h, 2) :: (h, 1) :: (h, 0) :: c).
Definition reopen_from (m : machine) (r : option (rhash * rhash * rhash)) (h' : N) : machine * obs :=
  match r with
  | None => (m, OL [])
  | Some (ra, rv, rs) =>
    match mnew_state m ra rv rs with
    | Some s => (set_h m h' s, OL [ON 1])
    | None => (m, OL [ON 0])
    end
  end.

Definition mstep (f : copy_flags) (u : universe) (m : machine) (o : mop) : machine * obs :=
  match o with
  | MS h so =>
    match find (m_hs m) h with
    | None => (m, OL [])
    | Some s => let '(s1, out) := step (m_db m) s so in
                let m1 := set_h m h s1 in
                match so with
                | OIRoot _ => show_roots m1 (roots s1)
                | _ => (m1, out)
                end
    end
  | MCommit h de =>
    match find (m_hs m) h with
    | None => (m, OL [])
    | Some s => let '(d1, s1) := commit (m_db m) de s in
                show_roots (mkM d1 (ins (m_hs m) h s1) (ins (m_last m) h (roots s1)) (m_seen m)
                                (ins (m_hist m) h (match find (m_hist m) h with Some l => l | None => [] end ++ [roots s1]))
                                (push_tries h (m_cache m))) (roots s1)
    end
  | MRoots h =>
    match find (m_hs m) h with
    | None => (m, OL [])
    | Some s => show_roots m (roots s)
    end
  | MCopy h h' =>
    match find (m_hs m) h with
    | None => (m, OL [])
    | Some s => let '(s0, s1) := copy f s in (set_h (set_h m h s0) h' s1, OL [])
    end
  | MReopen h h' => reopen_from m (find (m_last m) h) h'
  | MReopenAt h k h' =>
    reopen_from m (match find (m_hist m) h with Some l => nth_error l (N.to_nat k) | None => None end) h'
  | MReader h =>
    match find (m_last m) h with
    | None => (m, OL [])
    | Some (_, rv, _) =>
      match mnew_reader m rv with
      | Some s => (m, reader_view u s)
      | None => (m, OL [ON 0])
      end
    end
  | MView h =>
    match find (m_hs m) h with
    | None => (m, OL [])
    | Some s => (m, view (m_db m) u s)
    end
  end.

Fixpoint mrun (f : copy_flags) (u : universe) (m : machine) (l : list mop) : list obs :=
  match l with
  | [] => []
  | o :: r => let '(m1, out) := mstep f u m o in out :: mrun f u m1 r
  end.
End Model.

(* ---- correspondence runner --------------------------------------------------------------- *)
(* The runner instantiates the external functions with structure-preserving
   ones: a hash IS the hashed value, a blob IS the encoded record. *)
Inductive ihash := HCode (c : list N) | HDlgs (l : list N) | HStor (t : list (N * N)).
Inductive iblob :=
| BAcct (a : account ihash) | BVal (v : validator) | BIdx (l : list N) | BStat (s : stat)
| BQueue (q : list wrec) | BRec (r : srec) | BPrel (l : list N).
Inductive irhash :=
| RAcct (t : list (N * iblob))
| RVal (t : list (N * iblob)) (i s q : option iblob)
| RStk (t : list (N * iblob)) (p : option iblob).

Fixpoint list_eqb {A} (e : A -> A -> bool) (x y : list A) : bool :=
  match x, y with
  | [], [] => true
  | a :: r, b :: t => e a b && list_eqb e r t
  | _, _ => false
  end.
Definition opt_eqb {A} (e : A -> A -> bool) (x y : option A) : bool :=
  match x, y with Some a, Some b => e a b | None, None => true | _, _ => false end.
Definition pair_eqb {A B} (ea : A -> A -> bool) (eb : B -> B -> bool) (x y : A * B) : bool :=
  ea (fst x) (fst y) && eb (snd x) (snd y).
Definition nl_eqb := list_eqb N.eqb.
Definition ihash_eqb (x y : ihash) : bool :=
  match x, y with
  | HCode a, HCode b => nl_eqb a b
  | HDlgs a, HDlgs b => nl_eqb a b
  | HStor a, HStor b => list_eqb (pair_eqb N.eqb N.eqb) a b
  | _, _ => false
  end.
Definition acct_eqb (x y : account ihash) : bool :=
  N.eqb (a_nonce x) (a_nonce y) && N.eqb (a_bal x) (a_bal y) && ihash_eqb (a_root x) (a_root y)
  && ihash_eqb (a_code x) (a_code y) && N.eqb (a_dbal x) (a_dbal y) && opt_eqb ihash_eqb (a_dhash x) (a_dhash y).
Definition val_eqb (x y : validator) : bool :=
  N.eqb (v_addr x) (v_addr y) && N.eqb (v_role x) (v_role y) && N.eqb (v_status x) (v_status y)
  && N.eqb (v_token x) (v_token y) && N.eqb (v_stake x) (v_stake y)
  && list_eqb (pair_eqb (pair_eqb N.eqb N.eqb) N.eqb) (v_dlgs x) (v_dlgs y) && nl_eqb (v_rest x) (v_rest y)
  && Bool.eqb (v_deleted x) (v_deleted y).
Definition kstat_eqb (x y : kstat) : bool :=
  nl_eqb [k_ostake x; k_otoken x; k_ocount x; k_fstake x; k_ftoken x; k_fcount x; k_residue x; k_rewards x]
         [k_ostake y; k_otoken y; k_ocount y; k_fstake y; k_ftoken y; k_fcount y; k_residue y; k_rewards y].
Definition iblob_eqb (x y : iblob) : bool :=
  match x, y with
  | BAcct a, BAcct b => acct_eqb a b
  | BVal a, BVal b => val_eqb a b
  | BIdx a, BIdx b => nl_eqb a b
  | BStat a, BStat b => list_eqb kstat_eqb a b
  | BQueue a, BQueue b => list_eqb nl_eqb a b
  | BRec a, BRec b => pair_eqb N.eqb nl_eqb a b
  | BPrel a, BPrel b => nl_eqb a b
  | _, _ => false
  end.
Definition kvb_eqb := list_eqb (pair_eqb N.eqb iblob_eqb).
Definition irhash_eqb (x y : irhash) : bool :=
  match x, y with
  | RAcct a, RAcct b => kvb_eqb a b
  | RVal a i s q, RVal b j t r => kvb_eqb a b && opt_eqb iblob_eqb i j && opt_eqb iblob_eqb s t && opt_eqb iblob_eqb q r
  | RStk a p, RStk b q => kvb_eqb a b && opt_eqb iblob_eqb p q
  | _, _ => false
  end.

#[export] Instance IdWorld : World := {|
  hash := ihash; heqb := ihash_eqb; rhash := irhash; rheqb := irhash_eqb; blob := iblob;
  h_code := HCode; h_dlgs := HDlgs; root_stor := HStor;
  enc_acct := BAcct; dec_acct := fun b => match b with BAcct a => Some a | _ => None end;
  enc_val := fun v => BVal (set_deleted false v);
  dec_val := fun b => match b with BVal a => Some a | _ => None end;
  enc_idx := BIdx; dec_idx := fun b => match b with BIdx a => Some a | _ => None end;
  enc_stat := BStat; dec_stat := fun b => match b with BStat a => Some a | _ => None end;
  enc_queue := BQueue; dec_queue := fun b => match b with BQueue a => Some a | _ => None end;
  enc_rec := BRec; dec_rec := fun b => match b with BRec a => Some a | _ => None end;
  enc_prel := BPrel; dec_prel := fun b => match b with BPrel a => Some a | _ => None end;
  root_acct := RAcct; root_val := RVal; root_stk := RStk |}.

Fixpoint obs_eqb (x y : obs) {struct x} : bool :=
  match x, y with
  | ON a, ON b => N.eqb a b
  | OL a, OL b =>
    (fix go (a b : list obs) {struct a} : bool :=
       match a, b with
       | [], [] => true
       | p :: r, q :: t => obs_eqb p q && go r t
       | _, _ => false
       end) a b
  | _, _ => false
  end.

Definition init_machine : machine :=
  mkM db_empty
      (match new_state db_empty (aroot []) (vroot vt_empty) (sroot st_empty) with
       | Some s => [(0, s)] | None => [] end)
      [] ([], [], []) [] [].

(* one case: which copy code the tree has, the addresses observed, the calls,
   and what the implementation showed for each call *)
Record case := mkCase {
  c_flags : copy_flags; c_univ : universe; c_ops : list mop; c_out : list obs }.
Definition case_ok (c : case) : bool :=
  list_eqb obs_eqb (mrun (c_flags c) (c_univ c) init_machine (c_ops c)) (c_out c).
Fixpoint mismatches_from (i : N) (l : list case) : list N :=
  match l with
  | [] => []
  | c :: r => if case_ok c then mismatches_from (i + 1) r else i :: mismatches_from (i + 1) r
  end.
Definition mismatches := mismatches_from 0.
