(* C10 - histories with commits, the genesis state, the structure-preserving
   instance of the external functions (non-vacuity), and the witnesses of the
   findings *)
From VF.C10 Require Import Model ProofsMaps ProofsStk ProofsVal ProofsObj ProofsAcc Proofs.
From Coq Require Import Lia ZifyBool ZifyN.
Local Open Scope N_scope.

Section Top.
Context {W : World} {WOK : WorldOk W}.

Lemma dbok_empty : DbOk db_empty.
Proof. constructor; cbn; discriminate. Qed.

Lemma inv_genesis : Inv db_empty genesis.
Proof.
  constructor; cbn [genesis s_acc s_val s_stk].
  - constructor; cbn [ac_trie ac_objs ac_pending ac_dirty ac_jd find smem]; try discriminate; try (constructor; fail).
  - constructor; cbn [vl_trie vl_objs vl_dirty vl_jd vl_index find smem]; try discriminate; try (constructor; fail).
    constructor; cbn; try discriminate; try (constructor; fail); try reflexivity.
  - constructor; cbn [sk_trie sk_recs sk_dirty sk_prel sk_preld st_recs st_prel find smem st_empty];
      try discriminate; try (constructor; fail); try reflexivity.
Qed.

Lemma new_state_genesis : new_state db_empty (aroot []) (vroot vt_empty) (sroot st_empty) = Some genesis.
Proof.
  unfold new_state, open_acct, open_val, open_stk. rewrite !rheqb_refl. reflexivity.
Qed.

(* the invariant along every history with commits *)
Lemma cstep_inv ds c : DbOk (fst ds) -> Inv (fst ds) (snd ds) ->
  DbOk (fst (cstep ds c)) /\ Inv (fst (cstep ds c)) (snd (cstep ds c)).
Proof.
  intros D I. destruct c as [o|de]; cbn [cstep fst snd].
  - split; [exact D|apply step_inv; assumption].
  - destruct (commit_spec (fst ds) de (snd ds) D I) as (D' & _ & I' & _). split; assumption.
Qed.

Lemma crun_inv l : forall ds, DbOk (fst ds) -> Inv (fst ds) (snd ds) ->
  DbOk (fst (crun ds l)) /\ Inv (fst (crun ds l)) (snd (crun ds l)).
Proof.
  unfold crun. induction l as [|c r IH]; intros ds D I; cbn [fold_left]; [split; assumption|].
  destruct (cstep_inv ds c D I) as (D1 & I1). apply IH; assumption.
Qed.

Lemma crun_le l : forall ds, DbOk (fst ds) -> Inv (fst ds) (snd ds) -> db_le (fst ds) (fst (crun ds l)).
Proof.
  unfold crun. induction l as [|c r IH]; intros ds D I; cbn [fold_left]; [apply db_le_refl|].
  destruct (cstep_inv ds c D I) as (D1 & I1). eapply db_le_trans; [|apply IH; assumption].
  destruct c as [o|de]; cbn [cstep fst snd]; [apply db_le_refl|].
  destruct (commit_spec (fst ds) de (snd ds) D I) as (_ & L & _). exact L.
Qed.

(* whatever history another StateDB over the same database goes through (a copy, the
   original of a copy, a reopened state): this one keeps its invariant and shows the same *)
Lemma other_side d s t l : DbOk d -> Inv d s -> Inv d t ->
  let ds := crun (d, s) l in Inv (fst ds) t /\ state_eq (fst ds) t d t.
Proof.
  intros D Is It. cbn zeta. pose proof (crun_le l (d, s) D Is) as L. cbn [fst] in L.
  split; [apply (inv_le_state d _ t L It)|apply views_le; assumption].
Qed.

(* after any history, IntermediateRoot leaves a flushed state, on which a further
   IntermediateRoot changes nothing *)
Lemma iroot_transparent d s l de : DbOk d -> Inv d s ->
  let ds := crun (d, s) l in
  let t := iroot (fst ds) de (snd ds) in
  Inv (fst ds) t /\ Flushed t /\
  forall de', roots (iroot (fst ds) de' t) = roots t /\ state_eq (fst ds) (iroot (fst ds) de' t) (fst ds) t.
Proof.
  intros D I. cbn zeta. destruct (crun_inv l (d, s) D I) as (D1 & I1).
  destruct (iroot_spec _ de _ D1 I1) as (It & Ft). split; [exact It|]. split; [exact Ft|].
  intros de'. destruct (iroot_idempotent (fst (crun (d, s) l)) de' _ Ft) as (R & E & _). auto.
Qed.

(* ---- committed tries stay openable: reopening ANY earlier commit --------------------------------- *)
(* every committed top-level trie is stored under its own root and is well formed *)
Record DbTop (d : database) : Prop := {
  dt_acct : forall r t, rfind (d_acct d) r = Some t -> r = aroot t /\ sorted t;
  dt_val : forall r t, rfind (d_val d) r = Some t -> r = vroot t /\ vnorm t;
  dt_stk : forall r t, rfind (d_stk d) r = Some t -> r = sroot t /\ sorted (st_recs t) }.
(* what could be opened can still be opened, to the same trie *)
Record top_le (d d' : database) : Prop := {
  tl_acct : forall r t, open_acct d r = Some t -> open_acct d' r = Some t;
  tl_val : forall r t, open_val d r = Some t -> open_val d' r = Some t;
  tl_stk : forall r t, open_stk d r = Some t -> open_stk d' r = Some t }.

Lemma top_le_refl d : top_le d d. Proof. constructor; auto. Qed.
Lemma top_le_trans a b c : top_le a b -> top_le b c -> top_le a c.
Proof. intros [A1 A2 A3] [B1 B2 B3]. constructor; auto. Qed.
Lemma dbtop_empty : DbTop db_empty. Proof. constructor; cbn; discriminate. Qed.

Lemma vnorm_empty : vnorm vt_empty. Proof. split; [constructor|intros a v []]. Qed.
Lemma vnorm_of_ok t : TrieOkV t -> vnorm t.
Proof.
  intros [A B _ _]. split; [exact A|]. intros a v Hin. apply (in_find _ _ _ A) in Hin. apply (B a v Hin).
Qed.

Definition same_top (d d' : database) : Prop := d_acct d' = d_acct d /\ d_val d' = d_val d /\ d_stk d' = d_stk d.
Lemma commit_obj_top d o : same_top d (fst (commit_obj d o)).
Proof.
  unfold commit_obj.
  set (p1 := match o_codec o with
             | Some c => if o_dirtyCode o then (db_add_code (a_code (o_data o)) c d, set_code (Some c) false o) else (d, o)
             | None => (d, o) end).
  assert (H1 : same_top d (fst p1)).
  { unfold p1. destruct (o_codec o); [destruct (o_dirtyCode o)|]; repeat split; reflexivity. }
  destruct p1 as [d1 o1]. cbn [fst] in H1.
  set (p2 := if o_dirtyDlgs o1 then _ else (d1, o1)).
  assert (H2 : same_top d1 (fst p2)).
  { unfold p2. destruct (o_dirtyDlgs o1); [|repeat split; reflexivity].
    destruct (obj_delegations d1 o1) as [[|x r]|]; [| |]; try (repeat split; reflexivity).
    destruct (a_dhash (o_data o1)); repeat split; reflexivity. }
  destruct p2 as [d2 o2]. cbn [fst] in *.
  destruct H1 as (A1 & B1 & C1), H2 as (A2 & B2 & C2). unfold same_top. cbn [db_add_stor d_acct d_val d_stk].
  repeat split; congruence.
Qed.
Lemma commit_fold_top l : forall d s, same_top d (fst (fold_left commit_acct l (d, s))).
Proof.
  induction l as [|a r IH]; intros d s; cbn [fold_left]; [repeat split; reflexivity|].
  rewrite commit_acct_eq. destruct (find (ac_objs s) a) as [o|]; [|apply IH]. destruct (o_deleted o); [apply IH|].
  destruct (commit_obj_top d o) as (A & B & C). destruct (IH (fst (commit_obj d o)) (ac_set_obj a (snd (commit_obj d o)) s)) as (A' & B' & C').
  repeat split; congruence.
Qed.

Lemma add_acct_top d t : DbTop d -> sorted t ->
  DbTop (db_add_acct (aroot t) t d) /\ top_le d (db_add_acct (aroot t) t d).
Proof.
  intros [A B C] Hs. split.
  - constructor; cbn [db_add_acct d_acct d_val d_stk]; try assumption.
    intros r t0. cbn [rfind]. destruct (rheqb (aroot t) r) eqn:E; [|apply A].
    apply rheqb_eq in E. intros [= <-]. auto.
  - constructor; unfold open_acct, open_val, open_stk; cbn [db_add_acct d_acct d_val d_stk]; auto.
    intros r t0. destruct (rheqb r (aroot [])); [auto|]. cbn [rfind].
    destruct (rheqb (aroot t) r) eqn:E; [|auto]. apply rheqb_eq in E. subst r. intros H0.
    destruct (A _ _ H0) as (Hr & Hs0). f_equal. apply root_acct_inj; assumption.
Qed.
Lemma add_val_top d t : DbTop d -> vnorm t ->
  DbTop (db_add_val (vroot t) t d) /\ top_le d (db_add_val (vroot t) t d).
Proof.
  intros [A B C] Hs. split.
  - constructor; cbn [db_add_val d_acct d_val d_stk]; try assumption.
    intros r t0. cbn [rfind]. destruct (rheqb (vroot t) r) eqn:E; [|apply B].
    apply rheqb_eq in E. intros [= <-]. auto.
  - constructor; unfold open_acct, open_val, open_stk; cbn [db_add_val d_acct d_val d_stk]; auto.
    intros r t0. destruct (rheqb r (vroot vt_empty)); [auto|]. cbn [rfind].
    destruct (rheqb (vroot t) r) eqn:E; [|auto]. apply rheqb_eq in E. subst r. intros H0.
    destruct (B _ _ H0) as (Hr & Hs0). f_equal. apply root_val_inj; assumption.
Qed.
Lemma add_stk_top d t : DbTop d -> sorted (st_recs t) ->
  DbTop (db_add_stk (sroot t) t d) /\ top_le d (db_add_stk (sroot t) t d).
Proof.
  intros [A B C] Hs. split.
  - constructor; cbn [db_add_stk d_acct d_val d_stk]; try assumption.
    intros r t0. cbn [rfind]. destruct (rheqb (sroot t) r) eqn:E; [|apply C].
    apply rheqb_eq in E. intros [= <-]. auto.
  - constructor; unfold open_acct, open_val, open_stk; cbn [db_add_stk d_acct d_val d_stk]; auto.
    intros r t0. destruct (rheqb r (sroot st_empty)); [auto|]. cbn [rfind].
    destruct (rheqb (sroot t) r) eqn:E; [|auto]. apply rheqb_eq in E. subst r. intros H0.
    destruct (C _ _ H0) as (Hr & Hs0). f_equal. apply root_stk_inj; assumption.
Qed.

Lemma same_top_dbtop d d' : same_top d d' -> DbTop d -> DbTop d' /\ top_le d d'.
Proof.
  intros (A & B & C) [X Y Z]. split.
  - constructor; rewrite ?A, ?B, ?C; assumption.
  - constructor; unfold open_acct, open_val, open_stk; rewrite ?A, ?B, ?C; auto.
Qed.

Lemma commit_top d de s : DbOk d -> DbTop d -> Inv d s ->
  DbTop (fst (commit d de s)) /\ top_le d (fst (commit d de s)).
Proof.
  intros D T I. unfold commit.
  destruct (iroot_spec d de s D I) as ([A B C] & [FA FB FC FD]).
  set (s1 := iroot d de s) in *. unfold ac_commit.
  pose proof (commit_fold_top (ac_dirty (s_acc s1)) d (s_acc s1)) as Hst.
  destruct (commit_acct_fold (ac_dirty (s_acc s1)) d (s_acc s1) (ia_dsorted d _ A) D A FA) as (_ & _ & A1 & _ & T1 & _).
  destruct (fold_left commit_acct (ac_dirty (s_acc s1)) (d, s_acc s1)) as [d1 a1]. cbn [fst snd] in *.
  destruct (same_top_dbtop d d1 Hst T) as (T1' & L1).
  destruct (add_acct_top d1 (ac_trie a1) T1' (ia_sorted d1 a1 A1)) as (T2 & L2).
  unfold vl_commit, sk_commit.
  destruct (add_val_top _ (vl_trie (s_val s1)) T2 (vnorm_of_ok _ (iv_trie _ B))) as (T3 & L3).
  destruct (add_stk_top _ (sk_trie (s_stk s1)) T3 (is_trie _ C)) as (T4 & L4).
  split; [exact T4|]. eapply top_le_trans; [exact L1|]. eapply top_le_trans; [exact L2|]. eapply top_le_trans; eassumption.
Qed.

Lemma crun_top l : forall ds, DbOk (fst ds) -> DbTop (fst ds) -> Inv (fst ds) (snd ds) ->
  DbTop (fst (crun ds l)) /\ top_le (fst ds) (fst (crun ds l)).
Proof.
  unfold crun. induction l as [|c r IH]; intros ds D T I; cbn [fold_left]; [split; [exact T|apply top_le_refl]|].
  destruct (cstep_inv ds c D I) as (D1 & I1).
  assert (H1 : DbTop (fst (cstep ds c)) /\ top_le (fst ds) (fst (cstep ds c))).
  { destruct c as [o|de]; cbn [cstep fst snd]; [split; [exact T|apply top_le_refl]|apply commit_top; assumption]. }
  destruct H1 as (T1 & L1). destruct (IH _ D1 T1 I1) as (T2 & L2). split; [exact T2|eapply top_le_trans; eassumption].
Qed.

Lemma new_state_le d d' ra rv rs n : top_le d d' -> new_state d ra rv rs = Some n -> new_state d' ra rv rs = Some n.
Proof.
  intros [A B C]. unfold new_state.
  destruct (open_acct d ra) as [ta|] eqn:Ea; [|discriminate].
  destruct (open_val d rv) as [tv|] eqn:Ev; [|discriminate].
  destruct (open_stk d rs) as [ts|] eqn:Es; [|discriminate].
  rewrite (A _ _ Ea), (B _ _ Ev), (C _ _ Es). auto.
Qed.
Lemma new_reader_le d d' rv n : top_le d d' -> new_reader d rv = Some n -> new_reader d' rv = Some n.
Proof.
  intros [A B C]. unfold new_reader. destruct (open_val d rv) as [tv|] eqn:Ev; [|discriminate].
  rewrite (B _ _ Ev). auto.
Qed.

Lemma state_eq_trans d1 s1 d2 s2 d3 s3 : state_eq d1 s1 d2 s2 -> state_eq d2 s2 d3 s3 -> state_eq d1 s1 d3 s3.
Proof.
  intros ((A1 & A2) & (B1 & B2 & B3) & (C1 & C2)) ((A1' & A2') & (B1' & B2' & B3') & (C1' & C2')).
  split; [split|split; [split; [|split]|split]]; intros.
  - rewrite A1. apply A1'.
  - rewrite A2. apply A2'.
  - rewrite B1. apply B1'.
  - congruence.
  - congruence.
  - rewrite C1. apply C1'.
  - rewrite C2. apply C2'.
Qed.

(* EVERY commit of a history: the roots it returned reopen, at any later point of the history
   (the same StateDB has gone on writing and committing), to a state that shows what the
   committing state showed at that commit; likewise the validator reader *)
Lemma reopen_any d s l1 de l2 : DbOk d -> DbTop d -> Inv d s ->
  let c := commit (fst (crun (d, s) l1)) de (snd (crun (d, s) l1)) in
  let later := crun c l2 in
  exists n r,
    new_state (fst later) (fst (fst (roots (snd c)))) (snd (fst (roots (snd c)))) (snd (roots (snd c))) = Some n /\
    new_reader (fst later) (snd (fst (roots (snd c)))) = Some r /\
    state_eq (fst later) n (fst c) (snd c) /\ val_eq r (s_val (snd c)) /\ Inv (fst later) n.
Proof.
  intros D T I. cbn zeta.
  destruct (crun_inv l1 (d, s) D I) as (D1 & I1). destruct (crun_top l1 (d, s) D T I) as (T1 & _).
  set (ds1 := crun (d, s) l1) in *.
  destruct (commit_spec (fst ds1) de (snd ds1) D1 I1) as (D2 & _ & I2 & F2 & N & R & In & E).
  destruct (commit_top (fst ds1) de (snd ds1) D1 T1 I1) as (T2 & _).
  set (c := commit (fst ds1) de (snd ds1)) in *.
  destruct (crun_top l2 c D2 T2 I2) as (_ & L). pose proof (crun_le l2 c D2 I2) as Le.
  eexists. eexists. split; [apply (new_state_le _ _ _ _ _ _ L N)|]. split; [apply (new_reader_le _ _ _ _ L R)|].
  split; [|split; [apply new_vals_reads; [apply I2|apply F2]|apply (inv_le_state _ _ _ Le In)]].
  eapply state_eq_trans; [apply (views_le _ _ _ D2 Le In)|exact E].
Qed.

(* every blob named by a committed root is in the database, then and ever after: the storage
   trie, the code and the delegation list of every account of the committed account trie
   (what the per-object dirty flags dirtyCode / dirtyDlgs / the dirty set are there for) *)
Lemma committed_blobs d s l1 de l2 : DbOk d -> Inv d s ->
  let c := commit (fst (crun (d, s) l1)) de (snd (crun (d, s) l1)) in
  forall a x, find (ac_trie (s_acc (snd c))) a = Some x -> Resolved (fst (crun c l2)) x.
Proof.
  intros D I. cbn zeta. destruct (crun_inv l1 (d, s) D I) as (D1 & I1).
  destruct (commit_spec _ de _ D1 I1) as (D2 & _ & I2 & _ & _ & _ & In & _).
  intros a x Hx. eapply resolved_le; [apply (crun_le l2 _ D2 I2)|].
  apply (ia_res_trie _ _ (inv_a _ _ In) a x); [exact Hx|reflexivity].
Qed.

(* ---- the Database's trie cache is transparent ------------------------------------------------------- *)
(* a hit is a live trie that hashes to the requested root ... *)
Lemma cache_acct_sound hs c r t : cache_acct hs c r = Some t ->
  aroot t = r /\ exists h s, find hs h = Some s /\ t = ac_trie (s_acc s).
Proof.
  induction c as [|(h & k) rest IH]; cbn [cache_acct]; [discriminate|].
  destruct (if N.eqb k 0 then find hs h else None) as [s|] eqn:Es; [|exact IH].
  destruct (rheqb (aroot (ac_trie (s_acc s))) r) eqn:E; [|exact IH].
  intros [= <-]. split; [apply rheqb_eq; exact E|]. exists h, s. split; [|reflexivity].
  destruct (N.eqb k 0); [exact Es|discriminate].
Qed.
Lemma cache_val_sound hs c r t : cache_val hs c r = Some t ->
  vroot t = r /\ exists h s, find hs h = Some s /\ t = vl_trie (s_val s).
Proof.
  induction c as [|(h & k) rest IH]; cbn [cache_val]; [discriminate|].
  destruct (if N.eqb k 1 then find hs h else None) as [s|] eqn:Es; [|exact IH].
  destruct (rheqb (vroot (vl_trie (s_val s))) r) eqn:E; [|exact IH].
  intros [= <-]. split; [apply rheqb_eq; exact E|]. exists h, s. split; [|reflexivity].
  destruct (N.eqb k 1); [exact Es|discriminate].
Qed.
Lemma cache_stk_sound hs c r t : cache_stk hs c r = Some t ->
  sroot t = r /\ exists h s, find hs h = Some s /\ t = sk_trie (s_stk s).
Proof.
  induction c as [|(h & k) rest IH]; cbn [cache_stk]; [discriminate|].
  destruct (if N.eqb k 2 then find hs h else None) as [s|] eqn:Es; [|exact IH].
  destruct (rheqb (sroot (sk_trie (s_stk s))) r) eqn:E; [|exact IH].
  intros [= <-]. split; [apply rheqb_eq; exact E|]. exists h, s. split; [|reflexivity].
  destruct (N.eqb k 2); [exact Es|discriminate].
Qed.

(* ... so opening through the cache gives exactly what the trie database gives *)
Record MachineOk (m : machine) : Prop := {
  mo_top : DbTop (m_db m);
  mo_hs : forall h s, find (m_hs m) h = Some s -> Inv (m_db m) s }.

Lemma open_acct_wf d r t : DbTop d -> open_acct d r = Some t -> aroot t = r /\ sorted t.
Proof.
  intros T. unfold open_acct. destruct (rheqb r (aroot [])) eqn:E.
  - apply rheqb_eq in E. intros [= <-]. split; [symmetry; exact E|constructor].
  - intros H0. destruct (dt_acct d T _ _ H0) as (-> & Hs). auto.
Qed.
Lemma open_val_wf d r t : DbTop d -> open_val d r = Some t -> vroot t = r /\ vnorm t.
Proof.
  intros T. unfold open_val. destruct (rheqb r (vroot vt_empty)) eqn:E.
  - apply rheqb_eq in E. intros [= <-]. split; [symmetry; exact E|apply vnorm_empty].
  - intros H0. destruct (dt_val d T _ _ H0) as (-> & Hs). auto.
Qed.
Lemma open_stk_wf d r t : DbTop d -> open_stk d r = Some t -> sroot t = r /\ sorted (st_recs t).
Proof.
  intros T. unfold open_stk. destruct (rheqb r (sroot st_empty)) eqn:E.
  - apply rheqb_eq in E. intros [= <-]. split; [symmetry; exact E|constructor].
  - intros H0. destruct (dt_stk d T _ _ H0) as (-> & Hs). auto.
Qed.

Lemma cache_transparent m ra rv rs n : MachineOk m ->
  new_state (m_db m) ra rv rs = Some n -> mnew_state m ra rv rs = Some n.
Proof.
  intros [T Hs]. unfold new_state, mnew_state, mopen_acct, mopen_val, mopen_stk.
  destruct (open_acct (m_db m) ra) as [ta|] eqn:Ea; [|discriminate].
  destruct (open_val (m_db m) rv) as [tv|] eqn:Ev; [|discriminate].
  destruct (open_stk (m_db m) rs) as [ts|] eqn:Es; [|discriminate].
  destruct (open_acct_wf _ _ _ T Ea) as (Ra & Sa). destruct (open_val_wf _ _ _ T Ev) as (Rv & Sv).
  destruct (open_stk_wf _ _ _ T Es) as (Rs & Ss).
  assert (Ha : match cache_acct (m_hs m) (m_cache m) ra with Some t => Some t | None => Some ta end = Some ta).
  { destruct (cache_acct (m_hs m) (m_cache m) ra) as [t|] eqn:Ec; [|reflexivity].
    destruct (cache_acct_sound _ _ _ _ Ec) as (Rt & h & s & Fh & ->). f_equal.
    apply root_acct_inj; [apply (ia_sorted _ _ (inv_a _ _ (Hs h s Fh)))|exact Sa|congruence]. }
  assert (Hv : match cache_val (m_hs m) (m_cache m) rv with Some t => Some t | None => Some tv end = Some tv).
  { destruct (cache_val (m_hs m) (m_cache m) rv) as [t|] eqn:Ec; [|reflexivity].
    destruct (cache_val_sound _ _ _ _ Ec) as (Rt & h & s & Fh & ->). f_equal.
    apply root_val_inj; [apply vnorm_of_ok, (iv_trie _ (inv_v _ _ (Hs h s Fh)))|exact Sv|congruence]. }
  assert (Hk : match cache_stk (m_hs m) (m_cache m) rs with Some t => Some t | None => Some ts end = Some ts).
  { destruct (cache_stk (m_hs m) (m_cache m) rs) as [t|] eqn:Ec; [|reflexivity].
    destruct (cache_stk_sound _ _ _ _ Ec) as (Rt & h & s & Fh & ->). f_equal.
    apply root_stk_inj; [apply (is_trie _ (inv_s _ _ (Hs h s Fh)))|exact Ss|congruence]. }
  rewrite Ha, Hv, Hk. intros H0. exact H0.
Qed.

(* reachable from the empty database by calls and commits *)
Definition reached (l : list cop) : database * statedb := crun (db_empty, genesis) l.
Lemma reached_ok l : DbOk (fst (reached l)) /\ Inv (fst (reached l)) (snd (reached l)).
Proof. apply crun_inv; [apply dbok_empty|apply inv_genesis]. Qed.

(* ---- the theorems in the form Properties.v states them ------------------------------------------- *)
Lemma reopen_all d s l de : DbOk d -> Inv d s ->
  let ds := crun (d, s) l in
  let d' := fst (commit (fst ds) de (snd ds)) in
  let s' := snd (commit (fst ds) de (snd ds)) in
  exists n r,
    new_state d' (fst (fst (roots s'))) (snd (fst (roots s'))) (snd (roots s')) = Some n /\
    new_reader d' (snd (fst (roots s'))) = Some r /\
    state_eq d' n d' s' /\ val_eq r (s_val s') /\ Inv d' n.
Proof.
  intros D I. cbn zeta. destruct (crun_inv l (d, s) D I) as (D1 & I1).
  destruct (commit_spec _ de _ D1 I1) as (_ & _ & I2 & F2 & N & R & In & E).
  eexists. eexists. split; [exact N|]. split; [exact R|]. split; [exact E|]. split; [|exact In].
  apply new_vals_reads; [apply I2|apply F2].
Qed.

Lemma content_all d1 s1 l1 de1 d2 s2 l2 de2 : DbOk d1 -> Inv d1 s1 -> DbOk d2 -> Inv d2 s2 ->
  let a := crun (d1, s1) l1 in let b := crun (d2, s2) l2 in
  let ta := iroot (fst a) de1 (snd a) in let tb := iroot (fst b) de2 (snd b) in
  state_eq (fst a) ta (fst b) tb -> roots ta = roots tb.
Proof.
  intros D1 I1 D2 I2. cbn zeta. destruct (crun_inv l1 (d1, s1) D1 I1) as (Da & Ia).
  destruct (crun_inv l2 (d2, s2) D2 I2) as (Db & Ib).
  destruct (iroot_spec _ de1 _ Da Ia) as (Ja & Fa). destruct (iroot_spec _ de2 _ Db Ib) as (Jb & Fb).
  apply content_only; assumption.
Qed.

Definition repaired : copy_flags := mkCF true true.
Definition as_is : copy_flags := mkCF false false.

Lemma copy_safe_repaired s : copy_safe repaired s.
Proof. split; left; reflexivity. Qed.

Lemma copy_all d s l f : DbOk d -> Inv d s ->
  let ds := crun (d, s) l in
  copy_safe f (s_acc (snd ds)) ->
  let s0 := fst (copy f (snd ds)) in let c := snd (copy f (snd ds)) in
  Inv (fst ds) s0 /\ Inv (fst ds) c /\ state_eq (fst ds) s0 (fst ds) (snd ds) /\
  state_eq (fst ds) c (fst ds) (snd ds) /\ roots c = roots (snd ds).
Proof.
  intros D I. cbn zeta. intros Hs. destruct (crun_inv l (d, s) D I) as (D1 & I1).
  destruct (copy_spec _ f _ D1 I1 Hs) as (A & B & C & E & F & _). auto.
Qed.
End Top.

(* ---- the structure-preserving instance satisfies the hypotheses ------------------------------------- *)
Lemma list_eqb_spec {A} (e : A -> A -> bool) (He : forall a b, e a b = true <-> a = b) x y :
  list_eqb e x y = true <-> x = y.
Proof.
  revert y. induction x as [|a r IH]; intros [|b t]; cbn; try (split; [discriminate|discriminate]); [tauto|].
  rewrite andb_true_iff, He, IH. split; [intros [-> ->]; reflexivity|intros [= -> ->]; auto].
Qed.
Lemma pair_eqb_spec {A B} (ea : A -> A -> bool) (eb : B -> B -> bool)
  (Ha : forall a b, ea a b = true <-> a = b) (Hb : forall a b, eb a b = true <-> a = b) x y :
  pair_eqb ea eb x y = true <-> x = y.
Proof.
  destruct x, y. unfold pair_eqb; cbn. rewrite andb_true_iff, Ha, Hb.
  split; [intros [-> ->]; reflexivity|intros [= -> ->]; auto].
Qed.
Lemma opt_eqb_spec {A} (e : A -> A -> bool) (He : forall a b, e a b = true <-> a = b) x y :
  opt_eqb e x y = true <-> x = y.
Proof.
  destruct x, y; cbn; try (split; discriminate); [|tauto]. rewrite He. split; [intros ->; reflexivity|intros [= ->]; reflexivity].
Qed.
Lemma neqb_spec a b : N.eqb a b = true <-> a = b. Proof. apply N.eqb_eq. Qed.
Lemma nl_eqb_spec x y : nl_eqb x y = true <-> x = y. Proof. apply list_eqb_spec, neqb_spec. Qed.

Lemma ihash_eqb_spec x y : ihash_eqb x y = true <-> x = y.
Proof.
  destruct x, y; cbn; try (split; discriminate).
  - rewrite nl_eqb_spec. split; [intros ->; reflexivity|intros [= ->]; reflexivity].
  - rewrite nl_eqb_spec. split; [intros ->; reflexivity|intros [= ->]; reflexivity].
  - rewrite (list_eqb_spec _ (pair_eqb_spec _ _ neqb_spec neqb_spec)).
    split; [intros ->; reflexivity|intros [= ->]; reflexivity].
Qed.
Lemma acct_eqb_spec x y : acct_eqb x y = true <-> x = y.
Proof.
  destruct x, y. unfold acct_eqb; cbn. rewrite !andb_true_iff, !neqb_spec, !ihash_eqb_spec, (opt_eqb_spec _ ihash_eqb_spec).
  split; [intros [[[[[-> ->] ->] ->] ->] ->]; reflexivity|intros [= -> -> -> -> -> ->]; auto 10].
Qed.
Lemma val_eqb_spec x y : val_eqb x y = true <-> x = y.
Proof.
  destruct x, y. unfold val_eqb; cbn.
  rewrite !andb_true_iff, !neqb_spec, nl_eqb_spec, eqb_true_iff,
    (list_eqb_spec _ (pair_eqb_spec _ _ (pair_eqb_spec _ _ neqb_spec neqb_spec) neqb_spec)).
  split; [intros [[[[[[[-> ->] ->] ->] ->] ->] ->] ->]; reflexivity|intros [= -> -> -> -> -> -> -> ->]; auto 12].
Qed.
Lemma kstat_eqb_spec x y : kstat_eqb x y = true <-> x = y.
Proof.
  destruct x, y. unfold kstat_eqb. rewrite nl_eqb_spec. cbn.
  split; [intros [= -> -> -> -> -> -> -> ->]; reflexivity|intros [= -> -> -> -> -> -> -> ->]; reflexivity].
Qed.
Lemma iblob_eqb_spec x y : iblob_eqb x y = true <-> x = y.
Proof.
  destruct x, y; cbn; try (split; discriminate).
  - rewrite acct_eqb_spec. split; [intros ->; reflexivity|intros [= ->]; reflexivity].
  - rewrite val_eqb_spec. split; [intros ->; reflexivity|intros [= ->]; reflexivity].
  - rewrite nl_eqb_spec. split; [intros ->; reflexivity|intros [= ->]; reflexivity].
  - rewrite (list_eqb_spec _ kstat_eqb_spec). split; [intros ->; reflexivity|intros [= ->]; reflexivity].
  - rewrite (list_eqb_spec _ nl_eqb_spec). split; [intros ->; reflexivity|intros [= ->]; reflexivity].
  - rewrite (pair_eqb_spec _ _ neqb_spec nl_eqb_spec). split; [intros ->; reflexivity|intros [= ->]; reflexivity].
  - rewrite nl_eqb_spec. split; [intros ->; reflexivity|intros [= ->]; reflexivity].
Qed.
Lemma kvb_eqb_spec x y : kvb_eqb x y = true <-> x = y.
Proof. apply list_eqb_spec, pair_eqb_spec; [apply neqb_spec|apply iblob_eqb_spec]. Qed.
Lemma irhash_eqb_spec x y : irhash_eqb x y = true <-> x = y.
Proof.
  destruct x, y; cbn; try (split; discriminate).
  - rewrite kvb_eqb_spec. split; [intros ->; reflexivity|intros [= ->]; reflexivity].
  - rewrite !andb_true_iff, kvb_eqb_spec, !(opt_eqb_spec _ iblob_eqb_spec).
    split; [intros [[[-> ->] ->] ->]; reflexivity|intros [= -> -> -> ->]; auto].
  - rewrite !andb_true_iff, kvb_eqb_spec, (opt_eqb_spec _ iblob_eqb_spec).
    split; [intros [-> ->]; reflexivity|intros [= -> ->]; auto].
Qed.

#[export] Instance IdWorldOk : WorldOk IdWorld.
Proof.
  constructor; cbn; try reflexivity.
  - apply ihash_eqb_spec.
  - apply irhash_eqb_spec.
  - intros a b [= ->]; reflexivity.
  - intros a b [= ->]; reflexivity.
  - intros a b _ _ _ _ [= ->]; reflexivity.
  - intros t _ E. destruct t as [|[k v] r]; [reflexivity|cbn in E; discriminate E].
  - intros t _ E. destruct (vt_index t); [cbn in E; discriminate E|reflexivity].
  - intros [r p] _ E. destruct r as [|[k v] r]; [|cbn in E; discriminate E].
    destruct p; [cbn in E; discriminate E|reflexivity].
  - intros t1 t2 _ _ E. injection E as E. apply (menc_inj (W := IdWorld) BAcct) in E; [exact E|]. intros x y [= ->]; reflexivity.
  - intros [i1 x1 s1 q1] [i2 x2 s2 q2] [_ N1] [_ N2] E. cbn in *. injection E as Ei Ex Es Eq.
    change (@menc IdWorld validator (fun v => BVal (set_deleted false v)) i1 =
            @menc IdWorld validator (fun v => BVal (set_deleted false v)) i2) in Ei.
    apply (menc_inj_in (W := IdWorld)) in Ei.
    + subst. f_equal.
      * destruct x1, x2; cbn in Ex; try discriminate; [injection Ex as ->|]; reflexivity.
      * destruct s1, s2; cbn in Es; try discriminate; [injection Es as ->|]; reflexivity.
      * destruct q1, q2; cbn in Eq; try discriminate; [injection Eq as ->|]; reflexivity.
    + intros k x y Hx Hy Hxy. pose proof (N1 k x Hx) as D1. pose proof (N2 k y Hy) as D2.
      destruct x, y; cbn in *. subst. injection Hxy as -> -> -> -> -> -> ->. reflexivity.
  - intros [r1 p1] [r2 p2] _ _ E. cbn in *. injection E as Er Ep.
    apply (menc_inj (W := IdWorld) BRec) in Er; [|intros x y [= ->]; reflexivity]. subst. f_equal.
    destruct p1, p2; cbn in Ep; try discriminate; [injection Ep as ->|]; reflexivity.
Qed.

(* ---- witnesses of the findings (computed in the structure-preserving instance) ------------------------- *)
Definition run0 (l : list sop) : statedb := run db_empty genesis l.

(* D1: the copy (code as it is) of a state with an uncommitted delegation list cannot read the list *)
Definition w1_ops : list sop := [OSetBalance 1 100; OUpdDelegator 1 1 false 3 false; OFinalise true].
Lemma w1_refutes :
  acc_view db_empty (s_acc (snd (copy as_is (run0 w1_ops)))) 1 <> acc_view db_empty (s_acc (run0 w1_ops)) 1.
Proof. vm_compute. discriminate. Qed.
Lemma w1_outside : ~ copy_safe as_is (s_acc (run0 w1_ops)).
Proof.
  intros [_ [H|H]]; [discriminate|].
  assert (E : exists o, find (ac_objs (s_acc (run0 w1_ops))) 1 = Some o /\ o_dirtyDlgs o = true)
    by (vm_compute; eexists; split; reflexivity).
  destruct E as (o & Fo & Hd). rewrite (H 1 o Fo) in Hd. discriminate.
Qed.

(* D2: the copy taken after Finalise commits to roots whose code was never stored *)
Definition w2_ops : list sop := [OSetBalance 1 100; OSetCode 1 [1; 2; 3]; OFinalise true].
Definition w2_committed := commit db_empty true (snd (copy as_is (run0 w2_ops))).
Lemma w2_refutes :
  acc_view (fst w2_committed) (s_acc (reopened (snd w2_committed))) 1 <>
  acc_view (fst w2_committed) (s_acc (snd w2_committed)) 1.
Proof. vm_compute. discriminate. Qed.
Lemma w2_outside : ~ copy_safe as_is (s_acc (run0 w2_ops)).
Proof. intros [[H|H] _]; vm_compute in H; discriminate. Qed.

(* a copy taken inside a transaction (repaired code too): the next flush of the copy keeps
   a touched empty account which the original deletes *)
Definition w3_ops : list sop := [OAddBalance 1 0].
Lemma w3_equal_at_copy :
  acc_view db_empty (s_acc (snd (copy repaired (run0 w3_ops)))) 1 = acc_view db_empty (s_acc (run0 w3_ops)) 1.
Proof. vm_compute. reflexivity. Qed.
Lemma w3_diverges :
  roots (iroot db_empty true (snd (copy repaired (run0 w3_ops)))) <> roots (iroot db_empty true (run0 w3_ops)).
Proof. vm_compute. discriminate. Qed.

(* non-vacuity: a reached state with accounts, storage, code, a delegation list, validators, a
   withdraw record, staking records, which commits, reopens with the same content, and copies *)
Definition ex_val : validator := mkVal 2 3 1 5000 5 [(1, 1, 1000)] [1; 1; 0] false.
Definition ex_hist : list cop :=
  [CStep (OSetBalance 1 100); CStep (OSetCode 1 [96; 0]); CStep (OSetState 1 2 7); CStep (OSetState 1 3 9);
   CStep (OCreateVal ex_val); CStep (OUpdDelegator 1 2 false 1000 false); CStep (OAddWithdraw [1; 2; 3]);
   CStep (OAddSRec 0 2 5 (Some 5000)); CStep (OAddPRel 1 2); CStep (OFinalise true); CCommit true;
   CStep (OSetState 1 2 0); CStep (OSetBalance 4 1); CStep (OIRoot true)].
Lemma ex_hist_content :
  let ds := reached ex_hist in
  acc_view (fst ds) (s_acc (snd ds)) 1 = Some (0, 100, [96; 0], 1000, Some [2]) /\
  stor_view (fst ds) (s_acc (snd ds)) 1 3 = 9 /\
  get_validator (s_val (snd ds)) 2 = Some ex_val /\
  get_srec (s_stk (snd ds)) (bi 0 2) = Some (5000, [5]).
Proof. vm_compute. repeat split; reflexivity. Qed.
