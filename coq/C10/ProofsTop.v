(* C10 - histories with commits, the genesis state, the structure-preserving
   instance of the external functions (non-vacuity), and the witnesses of the
   findings *)
From VF.C10 Require Import Model ProofsMaps ProofsStk ProofsVal ProofsObj ProofsAcc Proofs.
From Coq Require Import Lia ZifyBool ZifyN.
Local Open Scope N_scope.

Section Top.
Context {W : World} {WOK : WorldOk W}.

Lemma dbok_empty : DbOk db_empty.
Proof. constructor; cbn; discriminate. Qed.

Lemma inv_genesis : Inv db_empty genesis.
Proof.
  constructor; cbn [genesis s_acc s_val s_stk].
  - constructor; cbn [ac_trie ac_objs ac_pending ac_dirty ac_jd find smem]; try discriminate; try (constructor; fail).
  - constructor; cbn [vl_trie vl_objs vl_dirty vl_jd vl_index find smem]; try discriminate; try (constructor; fail).
    constructor; cbn; try discriminate; try (constructor; fail); try reflexivity.
  - constructor; cbn [sk_trie sk_recs sk_dirty sk_prel sk_preld st_recs st_prel find smem st_empty];
      try discriminate; try (constructor; fail); try reflexivity.
Qed.

Lemma new_state_genesis : new_state db_empty (aroot []) (vroot vt_empty) (sroot st_empty) = Some genesis.
Proof.
  unfold new_state, open_acct, open_val, open_stk. rewrite !rheqb_refl. reflexivity.
Qed.

(* the invariant along every history with commits *)
Lemma cstep_inv ds c : DbOk (fst ds) -> Inv (fst ds) (snd ds) ->
  DbOk (fst (cstep ds c)) /\ Inv (fst (cstep ds c)) (snd (cstep ds c)).
Proof.
  intros D I. destruct c as [o|de]; cbn [cstep fst snd].
  - split; [exact D|apply step_inv; assumption].
  - destruct (commit_spec (fst ds) de (snd ds) D I) as (D' & _ & I' & _). split; assumption.
Qed.

Lemma crun_inv l : forall ds, DbOk (fst ds) -> Inv (fst ds) (snd ds) ->
  DbOk (fst (crun ds l)) /\ Inv (fst (crun ds l)) (snd (crun ds l)).
Proof.
  unfold crun. induction l as [|c r IH]; intros ds D I; cbn [fold_left]; [split; assumption|].
  destruct (cstep_inv ds c D I) as (D1 & I1). apply IH; assumption.
Qed.

Lemma crun_le l : forall ds, DbOk (fst ds) -> Inv (fst ds) (snd ds) -> db_le (fst ds) (fst (crun ds l)).
Proof.
  unfold crun. induction l as [|c r IH]; intros ds D I; cbn [fold_left]; [apply db_le_refl|].
  destruct (cstep_inv ds c D I) as (D1 & I1). eapply db_le_trans; [|apply IH; assumption].
  destruct c as [o|de]; cbn [cstep fst snd]; [apply db_le_refl|].
  destruct (commit_spec (fst ds) de (snd ds) D I) as (_ & L & _). exact L.
Qed.

(* whatever history another StateDB over the same database goes through (a copy, the
   original of a copy, a reopened state): this one keeps its invariant and shows the same *)
Lemma other_side d s t l : DbOk d -> Inv d s -> Inv d t ->
  let ds := crun (d, s) l in Inv (fst ds) t /\ state_eq (fst ds) t d t.
Proof.
  intros D Is It. cbn zeta. pose proof (crun_le l (d, s) D Is) as L. cbn [fst] in L.
  split; [apply (inv_le_state d _ t L It)|apply views_le; assumption].
Qed.

(* reachable from the empty database by calls and commits *)
Definition reached (l : list cop) : database * statedb := crun (db_empty, genesis) l.
Lemma reached_ok l : DbOk (fst (reached l)) /\ Inv (fst (reached l)) (snd (reached l)).
Proof. apply crun_inv; [apply dbok_empty|apply inv_genesis]. Qed.

(* ---- the theorems in the form Properties.v states them ------------------------------------------- *)
Lemma reopen_all d s l de : DbOk d -> Inv d s ->
  let ds := crun (d, s) l in
  let d' := fst (commit (fst ds) de (snd ds)) in
  let s' := snd (commit (fst ds) de (snd ds)) in
  exists n r,
    new_state d' (fst (fst (roots s'))) (snd (fst (roots s'))) (snd (roots s')) = Some n /\
    new_reader d' (snd (fst (roots s'))) = Some r /\
    state_eq d' n d' s' /\ val_eq r (s_val s') /\ Inv d' n.
Proof.
  intros D I. cbn zeta. destruct (crun_inv l (d, s) D I) as (D1 & I1).
  destruct (commit_spec _ de _ D1 I1) as (_ & _ & I2 & F2 & N & R & In & E).
  eexists. eexists. split; [exact N|]. split; [exact R|]. split; [exact E|]. split; [|exact In].
  apply new_vals_reads; [apply I2|apply F2].
Qed.

Lemma content_all d1 s1 l1 de1 d2 s2 l2 de2 : DbOk d1 -> Inv d1 s1 -> DbOk d2 -> Inv d2 s2 ->
  let a := crun (d1, s1) l1 in let b := crun (d2, s2) l2 in
  let ta := iroot (fst a) de1 (snd a) in let tb := iroot (fst b) de2 (snd b) in
  state_eq (fst a) ta (fst b) tb -> roots ta = roots tb.
Proof.
  intros D1 I1 D2 I2. cbn zeta. destruct (crun_inv l1 (d1, s1) D1 I1) as (Da & Ia).
  destruct (crun_inv l2 (d2, s2) D2 I2) as (Db & Ib).
  destruct (iroot_spec _ de1 _ Da Ia) as (Ja & Fa). destruct (iroot_spec _ de2 _ Db Ib) as (Jb & Fb).
  apply content_only; assumption.
Qed.

Definition repaired : copy_flags := mkCF true true.
Definition as_is : copy_flags := mkCF false false.

Lemma copy_safe_repaired s : copy_safe repaired s.
Proof. split; left; reflexivity. Qed.

Lemma copy_all d s l f : DbOk d -> Inv d s ->
  let ds := crun (d, s) l in
  copy_safe f (s_acc (snd ds)) ->
  let s0 := fst (copy f (snd ds)) in let c := snd (copy f (snd ds)) in
  Inv (fst ds) s0 /\ Inv (fst ds) c /\ state_eq (fst ds) s0 (fst ds) (snd ds) /\
  state_eq (fst ds) c (fst ds) (snd ds) /\ roots c = roots (snd ds).
Proof.
  intros D I. cbn zeta. intros Hs. destruct (crun_inv l (d, s) D I) as (D1 & I1).
  destruct (copy_spec _ f _ D1 I1 Hs) as (A & B & C & E & F & _). auto.
Qed.
End Top.

(* ---- the structure-preserving instance satisfies the hypotheses ------------------------------------- *)
Lemma list_eqb_spec {A} (e : A -> A -> bool) (He : forall a b, e a b = true <-> a = b) x y :
  list_eqb e x y = true <-> x = y.
Proof.
  revert y. induction x as [|a r IH]; intros [|b t]; cbn; try (split; [discriminate|discriminate]); [tauto|].
  rewrite andb_true_iff, He, IH. split; [intros [-> ->]; reflexivity|intros [= -> ->]; auto].
Qed.
Lemma pair_eqb_spec {A B} (ea : A -> A -> bool) (eb : B -> B -> bool)
  (Ha : forall a b, ea a b = true <-> a = b) (Hb : forall a b, eb a b = true <-> a = b) x y :
  pair_eqb ea eb x y = true <-> x = y.
Proof.
  destruct x, y. unfold pair_eqb; cbn. rewrite andb_true_iff, Ha, Hb.
  split; [intros [-> ->]; reflexivity|intros [= -> ->]; auto].
Qed.
Lemma opt_eqb_spec {A} (e : A -> A -> bool) (He : forall a b, e a b = true <-> a = b) x y :
  opt_eqb e x y = true <-> x = y.
Proof.
  destruct x, y; cbn; try (split; discriminate); [|tauto]. rewrite He. split; [intros ->; reflexivity|intros [= ->]; reflexivity].
Qed.
Lemma neqb_spec a b : N.eqb a b = true <-> a = b. Proof. apply N.eqb_eq. Qed.
Lemma nl_eqb_spec x y : nl_eqb x y = true <-> x = y. Proof. apply list_eqb_spec, neqb_spec. Qed.

Lemma ihash_eqb_spec x y : ihash_eqb x y = true <-> x = y.
Proof.
  destruct x, y; cbn; try (split; discriminate).
  - rewrite nl_eqb_spec. split; [intros ->; reflexivity|intros [= ->]; reflexivity].
  - rewrite nl_eqb_spec. split; [intros ->; reflexivity|intros [= ->]; reflexivity].
  - rewrite (list_eqb_spec _ (pair_eqb_spec _ _ neqb_spec neqb_spec)).
    split; [intros ->; reflexivity|intros [= ->]; reflexivity].
Qed.
Lemma acct_eqb_spec x y : acct_eqb x y = true <-> x = y.
Proof.
  destruct x, y. unfold acct_eqb; cbn. rewrite !andb_true_iff, !neqb_spec, !ihash_eqb_spec, (opt_eqb_spec _ ihash_eqb_spec).
  split; [intros [[[[[-> ->] ->] ->] ->] ->]; reflexivity|intros [= -> -> -> -> -> ->]; auto 10].
Qed.
Lemma val_eqb_spec x y : val_eqb x y = true <-> x = y.
Proof.
  destruct x, y. unfold val_eqb; cbn.
  rewrite !andb_true_iff, !neqb_spec, nl_eqb_spec, eqb_true_iff,
    (list_eqb_spec _ (pair_eqb_spec _ _ (pair_eqb_spec _ _ neqb_spec neqb_spec) neqb_spec)).
  split; [intros [[[[[[[-> ->] ->] ->] ->] ->] ->] ->]; reflexivity|intros [= -> -> -> -> -> -> -> ->]; auto 12].
Qed.
Lemma kstat_eqb_spec x y : kstat_eqb x y = true <-> x = y.
Proof.
  destruct x, y. unfold kstat_eqb. rewrite nl_eqb_spec. cbn.
  split; [intros [= -> -> -> -> -> -> -> ->]; reflexivity|intros [= -> -> -> -> -> -> -> ->]; reflexivity].
Qed.
Lemma iblob_eqb_spec x y : iblob_eqb x y = true <-> x = y.
Proof.
  destruct x, y; cbn; try (split; discriminate).
  - rewrite acct_eqb_spec. split; [intros ->; reflexivity|intros [= ->]; reflexivity].
  - rewrite val_eqb_spec. split; [intros ->; reflexivity|intros [= ->]; reflexivity].
  - rewrite nl_eqb_spec. split; [intros ->; reflexivity|intros [= ->]; reflexivity].
  - rewrite (list_eqb_spec _ kstat_eqb_spec). split; [intros ->; reflexivity|intros [= ->]; reflexivity].
  - rewrite (list_eqb_spec _ nl_eqb_spec). split; [intros ->; reflexivity|intros [= ->]; reflexivity].
  - rewrite (pair_eqb_spec _ _ neqb_spec nl_eqb_spec). split; [intros ->; reflexivity|intros [= ->]; reflexivity].
  - rewrite nl_eqb_spec. split; [intros ->; reflexivity|intros [= ->]; reflexivity].
Qed.
Lemma kvb_eqb_spec x y : kvb_eqb x y = true <-> x = y.
Proof. apply list_eqb_spec, pair_eqb_spec; [apply neqb_spec|apply iblob_eqb_spec]. Qed.
Lemma irhash_eqb_spec x y : irhash_eqb x y = true <-> x = y.
Proof.
  destruct x, y; cbn; try (split; discriminate).
  - rewrite kvb_eqb_spec. split; [intros ->; reflexivity|intros [= ->]; reflexivity].
  - rewrite !andb_true_iff, kvb_eqb_spec, !(opt_eqb_spec _ iblob_eqb_spec).
    split; [intros [[[-> ->] ->] ->]; reflexivity|intros [= -> -> -> ->]; auto].
  - rewrite !andb_true_iff, kvb_eqb_spec, (opt_eqb_spec _ iblob_eqb_spec).
    split; [intros [-> ->]; reflexivity|intros [= -> ->]; auto].
Qed.

#[export] Instance IdWorldOk : WorldOk IdWorld.
Proof.
  constructor; cbn; try reflexivity.
  - apply ihash_eqb_spec.
  - apply irhash_eqb_spec.
  - intros a b [= ->]; reflexivity.
  - intros a b [= ->]; reflexivity.
  - intros a b _ _ _ _ [= ->]; reflexivity.
  - intros t _ E. destruct t as [|[k v] r]; [reflexivity|cbn in E; discriminate E].
  - intros t _ E. destruct (vt_index t); [cbn in E; discriminate E|reflexivity].
  - intros [r p] _ E. destruct r as [|[k v] r]; [|cbn in E; discriminate E].
    destruct p; [cbn in E; discriminate E|reflexivity].
  - intros t1 t2 _ _ E. injection E as E. apply (menc_inj (W := IdWorld) BAcct) in E; [exact E|]. intros x y [= ->]; reflexivity.
  - intros [i1 x1 s1 q1] [i2 x2 s2 q2] [_ N1] [_ N2] E. cbn in *. injection E as Ei Ex Es Eq.
    change (@menc IdWorld validator (fun v => BVal (set_deleted false v)) i1 =
            @menc IdWorld validator (fun v => BVal (set_deleted false v)) i2) in Ei.
    apply (menc_inj_in (W := IdWorld)) in Ei.
    + subst. f_equal.
      * destruct x1, x2; cbn in Ex; try discriminate; [injection Ex as ->|]; reflexivity.
      * destruct s1, s2; cbn in Es; try discriminate; [injection Es as ->|]; reflexivity.
      * destruct q1, q2; cbn in Eq; try discriminate; [injection Eq as ->|]; reflexivity.
    + intros k x y Hx Hy Hxy. pose proof (N1 k x Hx) as D1. pose proof (N2 k y Hy) as D2.
      destruct x, y; cbn in *. subst. injection Hxy as -> -> -> -> -> -> ->. reflexivity.
  - intros [r1 p1] [r2 p2] _ _ E. cbn in *. injection E as Er Ep.
    apply (menc_inj (W := IdWorld) BRec) in Er; [|intros x y [= ->]; reflexivity]. subst. f_equal.
    destruct p1, p2; cbn in Ep; try discriminate; [injection Ep as ->|]; reflexivity.
Qed.

(* ---- witnesses of the findings (computed in the structure-preserving instance) ------------------------- *)
Definition run0 (l : list sop) : statedb := run db_empty genesis l.

(* D1: the copy (code as it is) of a state with an uncommitted delegation list cannot read the list *)
Definition w1_ops : list sop := [OSetBalance 1 100; OUpdDelegator 1 1 false 3 false; OFinalise true].
Lemma w1_refutes :
  acc_view db_empty (s_acc (snd (copy as_is (run0 w1_ops)))) 1 <> acc_view db_empty (s_acc (run0 w1_ops)) 1.
Proof. vm_compute. discriminate. Qed.
Lemma w1_outside : ~ copy_safe as_is (s_acc (run0 w1_ops)).
Proof.
  intros [_ [H|H]]; [discriminate|].
  assert (E : exists o, find (ac_objs (s_acc (run0 w1_ops))) 1 = Some o /\ o_dirtyDlgs o = true)
    by (vm_compute; eexists; split; reflexivity).
  destruct E as (o & Fo & Hd). rewrite (H 1 o Fo) in Hd. discriminate.
Qed.

(* D2: the copy taken after Finalise commits to roots whose code was never stored *)
Definition w2_ops : list sop := [OSetBalance 1 100; OSetCode 1 [1; 2; 3]; OFinalise true].
Definition w2_committed := commit db_empty true (snd (copy as_is (run0 w2_ops))).
Lemma w2_refutes :
  acc_view (fst w2_committed) (s_acc (reopened (snd w2_committed))) 1 <>
  acc_view (fst w2_committed) (s_acc (snd w2_committed)) 1.
Proof. vm_compute. discriminate. Qed.
Lemma w2_outside : ~ copy_safe as_is (s_acc (run0 w2_ops)).
Proof. intros [[H|H] _]; vm_compute in H; discriminate. Qed.

(* a copy taken inside a transaction (repaired code too): the next flush of the copy keeps
   a touched empty account which the original deletes *)
Definition w3_ops : list sop := [OAddBalance 1 0].
Lemma w3_equal_at_copy :
  acc_view db_empty (s_acc (snd (copy repaired (run0 w3_ops)))) 1 = acc_view db_empty (s_acc (run0 w3_ops)) 1.
Proof. vm_compute. reflexivity. Qed.
Lemma w3_diverges :
  roots (iroot db_empty true (snd (copy repaired (run0 w3_ops)))) <> roots (iroot db_empty true (run0 w3_ops)).
Proof. vm_compute. discriminate. Qed.

(* non-vacuity: a reached state with accounts, storage, code, a delegation list, validators, a
   withdraw record, staking records, which commits, reopens with the same content, and copies *)
Definition ex_val : validator := mkVal 2 3 1 5000 5 [(1, 1, 1000)] [1; 1; 0] false.
Definition ex_hist : list cop :=
  [CStep (OSetBalance 1 100); CStep (OSetCode 1 [96; 0]); CStep (OSetState 1 2 7); CStep (OSetState 1 3 9);
   CStep (OCreateVal ex_val); CStep (OUpdDelegator 1 2 false 1000 false); CStep (OAddWithdraw [1; 2; 3]);
   CStep (OAddSRec 0 2 5 (Some 5000)); CStep (OAddPRel 1 2); CStep (OFinalise true); CCommit true;
   CStep (OSetState 1 2 0); CStep (OSetBalance 4 1); CStep (OIRoot true)].
Lemma ex_hist_content :
  let ds := reached ex_hist in
  acc_view (fst ds) (s_acc (snd ds)) 1 = Some (0, 100, [96; 0], 1000, Some [2]) /\
  stor_view (fst ds) (s_acc (snd ds)) 1 3 = 9 /\
  get_validator (s_val (snd ds)) 2 = Some ex_val /\
  get_srec (s_stk (snd ds)) (bi 0 2) = Some (5000, [5]).
Proof. vm_compute. repeat split; reflexivity. Qed.
