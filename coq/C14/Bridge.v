(* C14 - facts about the schemas regenerated from /repo (coq/gen/C14Schemas.v):
   finite checks by vm_compute, lifted with forallb_forall. *)
From VF.C14 Require Import Rlp RlpProofs Typed TypedProofs Model ModelProofs.
From Coq Require Import String.
From VF.gen Require Import C14Schemas C14CallSites.
Local Open Scope N_scope.

(* every regenerated schema uses only supported, well-formed constructors *)
Lemma real_schemas_wf_b : forallb (fun p => wf_schema (snd p)) all_schemas = true.
Proof. vm_compute. reflexivity. Qed.
Lemma real_schemas_wf ty s : In (ty, s) all_schemas -> wf_schema s = true.
Proof. intros H. exact (proj1 (forallb_forall _ _) real_schemas_wf_b (ty, s) H). Qed.

(* the types whose decoder still has a lenient place: the transaction (rlp:"nil"
   recipient) and what contains it, and EvidenceDoubleSign (entries in any
   order).  Ids are the positions in the harness inventory: 1 Block,
   2 Transaction, 6 Body, 7 Transactions, 36 EvidenceDoubleSign,
   41 MarkedBlockInfo, 47 BlocksData.  (Validator, Validators and
   ValidatorIndex left this list with the fix commits bcc4703 and 8fe8f02.) *)
Definition lenient_types : list N := [1; 2; 6; 7; 36; 41; 47].
Lemma lenient_types_exact :
  map fst (filter (fun p => negb (strict (snd p))) all_schemas) = lenient_types.
Proof. vm_compute. reflexivity. Qed.

Lemma real_strict_b :
  forallb (fun p => strict (snd p) || existsb (N.eqb (fst p)) lenient_types) all_schemas = true.
Proof. vm_compute. reflexivity. Qed.

Lemma real_strict_canonical ty s b v : In (ty, s) all_schemas ->
  existsb (N.eqb ty) lenient_types = false ->
  decode_t s b = Some v -> encode_t s v = Some b.
Proof.
  intros Hin Hty Hd.
  pose proof (proj1 (forallb_forall _ _) real_strict_b (ty, s) Hin) as H. cbn [fst snd] in H.
  rewrite Hty, orb_false_r in H.
  apply accept_canonical_strict; [exact (real_schemas_wf _ _ Hin)|assumption|assumption].
Qed.

(* ---- witnesses (replayed against the implementation by the harness: corpus/C14) ---- *)
(* a contract-creation transaction whose recipient is written as an empty LIST *)
Definition w_tx : bytes := [206; 7; 1; 130; 82; 8; 192; 5; 131; 1; 2; 3; 128; 128; 128].
Definition w_tx_re : bytes := [206; 7; 1; 130; 82; 8; 128; 5; 131; 1; 2; 3; 128; 128; 128].
Lemma w_tx_accepted : exists v, decode_t S_types_Transaction w_tx = Some v /\
  encode_t S_types_Transaction v = Some w_tx_re.
Proof. eexists. split; [vm_compute; reflexivity|]. vm_compute; reflexivity. Qed.

(* ---- regression witnesses: accepted before the fix commits, rejected now -------------- *)
(* ValidatorIndex: two addresses out of order (fixed by 8fe8f02) *)
Definition w_index : bytes :=
  [234; 148; 9;0;0;0;0;0;0;0;0;0;0;0;0;0;0;0;0;0;0;0; 148; 1;0;0;0;0;0;0;0;0;0;0;0;0;0;0;0;0;0;0;0].
Lemma w_index_rejected : decode_t S_state_ValidatorIndex w_index = None.
Proof. vm_compute. reflexivity. Qed.

(* EvidenceDoubleSign with a one-byte "hash" (fixed by 201ba78) *)
Definition w_evidence : bytes := [198; 3; 1; 195; 194; 7; 9].
Lemma w_evidence_rejected : decode_t S_staking_EvidenceDoubleSign w_evidence = None.
Proof. vm_compute. reflexivity. Qed.

(* a Validator record whose Expelled byte is 5 (fixed by bcc4703) *)
Definition w_validator : bytes := [248;66;248;63;110;148;1;0;0;0;0;0;0;0;0;0;0;0;0;0;0;0;0;0;0;0;148;2;0;0;0;0;0;0;0;0;0;0;0;0;0;0;0;0;0;0;0;1;1;128;128;3;4;9;1;9;1;128;128;128;128;128;128;192;194;128;128;5].
Lemma w_validator_rejected : decode_t S_state_Validator w_validator = None.
Proof. vm_compute. reflexivity. Qed.

(* ---- still open: EvidenceDoubleSign with two entries in decreasing hash order ------- *)
Definition w_evidence_unsorted : bytes := [248;74;3;1;248;70;226;160;0;0;0;0;0;0;0;0;0;0;0;0;0;0;0;0;0;0;0;0;0;0;0;0;0;0;0;0;0;0;0;2;9;226;160;0;0;0;0;0;0;0;0;0;0;0;0;0;0;0;0;0;0;0;0;0;0;0;0;0;0;0;0;0;0;0;1;8].
Definition w_evidence_sorted : bytes := [248;74;3;1;248;70;226;160;0;0;0;0;0;0;0;0;0;0;0;0;0;0;0;0;0;0;0;0;0;0;0;0;0;0;0;0;0;0;0;1;8;226;160;0;0;0;0;0;0;0;0;0;0;0;0;0;0;0;0;0;0;0;0;0;0;0;0;0;0;0;0;0;0;0;2;9].
Lemma w_evidence_unsorted_accepted : exists v,
  decode_t S_staking_EvidenceDoubleSign w_evidence_unsorted = Some v /\
  encode_t S_staking_EvidenceDoubleSign v = Some w_evidence_sorted /\
  decode_t S_staking_EvidenceDoubleSign w_evidence_sorted = Some v.
Proof.
  eexists. split; [vm_compute; reflexivity|]. split; vm_compute; reflexivity.
Qed.

Definition canonical_full : Prop :=
  forall ty s b v, In (ty, s) all_schemas -> decode_t s b = Some v -> encode_t s v = Some b.

Lemma canonical_full_refuted : ~ canonical_full.
Proof.
  intros H. destruct w_tx_accepted as (v & Hd & He).
  assert (Hin : In (2, S_types_Transaction) all_schemas).
  { unfold all_schemas. right. right. left. reflexivity. }
  specialize (H _ _ _ _ Hin Hd). rewrite He in H. discriminate.
Qed.

(* ---- the decode call sites of the working tree (coq/gen/C14CallSites.v) -------------------- *)
(* the sites that read ONE value from a stream and tolerate what follows, pinned:
   a site that turns tolerant (e.g. ucon.Decode switching from rlp.DecodeBytes to
   rlp.Decode on a reader) or a new tolerant site breaks this lemma.  The ones
   listed here are the open finding "trailing bytes tolerated". *)
Definition tolerant_sites : list (string * string) :=
  map (fun x => fst x) (filter (fun x => negb (snd x =? 0)) call_sites).
Lemma tolerant_sites_exact : tolerant_sites = [
  ("consensus/ucon/vote_cache.go", "ReadVoteData");
  ("core/genesis.go", "decodePrealloc");
  ("core/genesis.go", "decodeValidators");
  ("core/rawdb/accessors_chain.go", "ReadBody");
  ("core/rawdb/accessors_chain.go", "ReadHeader");
  ("core/state/iterator.go", "NodeIterator.step");
  ("core/state/sync.go", "NewStateSync");
  ("core/tx_journal.go", "txJournal.load");
  ("p2p/message.go", "Msg.Decode");
  ("you/handler.go", "ProtocolManager.handleBlockBodiesMsg");
  ("you/handler.go", "ProtocolManager.handleGetBlockBodiesMsg");
  ("you/handler.go", "ProtocolManager.handleGetBlockMsg");
  ("you/handler.go", "ProtocolManager.handleGetHeadersMsg");
  ("you/handler.go", "ProtocolManager.handleGetNodeDataMsg");
  ("you/handler.go", "ProtocolManager.handleGetReceiptsMsg");
  ("you/handler.go", "ProtocolManager.handleNewBlockHashMsg");
  ("you/handler.go", "ProtocolManager.handleNewBlockMsg");
  ("you/handler.go", "ProtocolManager.handleNewTxMsg");
  ("you/handler.go", "ProtocolManager.handleNodeDataMsg");
  ("you/handler.go", "ProtocolManager.handleReceiptsMsg");
  ("you/handler.go", "ProtocolManager.handleReceiveHeadersMsg");
  ("you/peer.go", "peer.readStatus");
  ("you/ucon_handler.go", "UConProtocolManager.handleMsg")]%string.
Proof. vm_compute. reflexivity. Qed.

(* the entry points of the consensus envelope, its payloads, the header fields and
   the staking transaction data insist on exactly one value *)
Definition strict_site (file fn : string) : bool :=
  existsb (fun x => String.eqb (fst (fst x)) file && String.eqb (snd (fst x)) fn && (snd x =? 0)) call_sites
  && negb (existsb (fun x => String.eqb (fst (fst x)) file && String.eqb (snd (fst x)) fn && negb (snd x =? 0)) call_sites).
Lemma consensus_entry_points_strict :
  forallb (fun p => strict_site (fst p) (snd p))
    [("consensus/ucon/types.go", "Decode"); ("consensus/ucon/types.go", "Message.DecodePayload");
     ("consensus/ucon/block_consensus_data.go", "ExtractConsensusData");
     ("consensus/ucon/ucon_validators.go", "ExtractUconValidators");
     ("staking/tx_converter.go", "TxConverter.ApplyMessage");
     ("staking/slash.go", "Staking.replaySlashing")]%string = true.
Proof. vm_compute. reflexivity. Qed.

(* a valid transaction followed by one zero byte: rejected by rlp.DecodeBytes,
   accepted by a stream-style site with one byte left unread *)
Lemma w_trailing : decode_t S_types_Transaction (w_tx_re ++ [0]) = None /\
  exists v, decode_stream_t S_types_Transaction (w_tx_re ++ [0]) = Some (v, [0]) /\
            decode_t S_types_Transaction w_tx_re = Some v.
Proof. split; [vm_compute; reflexivity|]. eexists. split; vm_compute; reflexivity. Qed.

(* the custom decoders that peek Stream.Kind() (ignoring its error) before
   decoding the same value: they depend on the size-bound error being sticky.
   Pinned, so that a new one is seen and gets the size-field attacks on its
   outer header. *)
Lemma peeking_decoders_exact : peeking_decoders =
  [("core/types/block.go", "Block.DecodeRLP"); ("core/types/transaction.go", "Transaction.DecodeRLP")]%string.
Proof. vm_compute. reflexivity. Qed.

(* what every hand-written RLP coder (and the helpers of its package it calls) does with
   the decoded field data, pinned: a new call, index or slice expression inside a
   DecodeRLP / EncodeRLP - e.g. a helper that converts a decoded byte field by its length -
   breaks this lemma; the harness gives the type of a changed coder a tenfold budget. *)
Definition coder_calls_expected : list (string * string) := [
  ("consensus/ucon:Message.DecodeRLP", "s.Decode");
  ("consensus/ucon:Message.DecodeRLP>Decode", "rlp.DecodeBytes");
  ("consensus/ucon:Message.EncodeRLP", "rlp.Encode");
  ("consensus/ucon:Message.EncodeRLP>Encode", "rlp.EncodeToBytes");
  ("core/state:ValKindStat.DecodeRLP", "s.Decode");
  ("core/state:ValKindStat.EncodeRLP", "rlp.Encode");
  ("core/state:Validator.DecodeRLP", "fmt.Errorf");
  ("core/state:Validator.DecodeRLP", "params.ValidatorRole");
  ("core/state:Validator.DecodeRLP", "s.Decode");
  ("core/state:Validator.EncodeRLP", "AliasValidator");
  ("core/state:Validator.EncodeRLP", "big.NewInt");
  ("core/state:Validator.EncodeRLP", "new");
  ("core/state:Validator.EncodeRLP", "rlp.Encode");
  ("core/state:Validator.EncodeRLP", "uint8");
  ("core/state:ValidatorIndex.DecodeRLP", "fmt.Errorf");
  ("core/state:ValidatorIndex.DecodeRLP", "index.data.Store");
  ("core/state:ValidatorIndex.DecodeRLP", "len");
  ("core/state:ValidatorIndex.DecodeRLP", "list.Less");
  ("core/state:ValidatorIndex.DecodeRLP", "s.Decode");
  ("core/state:ValidatorIndex.DecodeRLP>addressList.Less", "<index>");
  ("core/state:ValidatorIndex.DecodeRLP>addressList.Less", "a[i].Bytes");
  ("core/state:ValidatorIndex.DecodeRLP>addressList.Less", "a[j].Bytes");
  ("core/state:ValidatorIndex.DecodeRLP>addressList.Less", "bytes.Compare");
  ("core/state:ValidatorIndex.EncodeRLP", "append");
  ("core/state:ValidatorIndex.EncodeRLP", "index.data.Range");
  ("core/state:ValidatorIndex.EncodeRLP", "rlp.Encode");
  ("core/state:ValidatorIndex.EncodeRLP", "sort.Sort");
  ("core/state:ValidatorIndex.EncodeRLP>journal.append", "<index>");
  ("core/state:ValidatorIndex.EncodeRLP>journal.append", "append");
  ("core/state:ValidatorIndex.EncodeRLP>journal.append", "entry.dirtied");
  ("core/state:Validators.DecodeRLP", "stream.Decode");
  ("core/state:Validators.EncodeRLP", "rlp.Encode");
  ("core/state:ValidatorsStat.DecodeRLP", "<index>");
  ("core/state:ValidatorsStat.DecodeRLP", "s.Decode");
  ("core/state:ValidatorsStat.EncodeRLP", "<index>");
  ("core/state:ValidatorsStat.EncodeRLP", "rlp.Encode");
  ("core/state:pendingRelationship.DecodeRLP", "<index>");
  ("core/state:pendingRelationship.DecodeRLP", "bi.Split");
  ("core/state:pendingRelationship.DecodeRLP", "s.Decode");
  ("core/state:pendingRelationship.DecodeRLP>biAddress.Split", "<slice>");
  ("core/state:pendingRelationship.DecodeRLP>biAddress.Split", "common.BytesToAddress");
  ("core/state:pendingRelationship.EncodeRLP", "rlp.Encode");
  ("core/state:stakingRecord.EncodeRLP", "rlp.Encode");
  ("core/state:stateObject.EncodeRLP", "rlp.Encode");
  ("core/types:Block.DecodeRLP", "b.size.Store");
  ("core/types:Block.DecodeRLP", "common.StorageSize");
  ("core/types:Block.DecodeRLP", "rlp.ListSize");
  ("core/types:Block.DecodeRLP", "s.Decode");
  ("core/types:Block.DecodeRLP", "s.Kind");
  ("core/types:Block.EncodeRLP", "rlp.Encode");
  ("core/types:Log.DecodeRLP", "s.Decode");
  ("core/types:Log.EncodeRLP", "rlp.Encode");
  ("core/types:LogForStorage.DecodeRLP", "s.Decode");
  ("core/types:LogForStorage.EncodeRLP", "rlp.Encode");
  ("core/types:Receipt.DecodeRLP", "r.setStatus");
  ("core/types:Receipt.DecodeRLP", "s.Decode");
  ("core/types:Receipt.DecodeRLP>Receipt.setStatus", "bytes.Equal");
  ("core/types:Receipt.DecodeRLP>Receipt.setStatus", "fmt.Errorf");
  ("core/types:Receipt.DecodeRLP>Receipt.setStatus", "len");
  ("core/types:Receipt.EncodeRLP", "r.statusEncoding");
  ("core/types:Receipt.EncodeRLP", "rlp.Encode");
  ("core/types:Receipt.EncodeRLP>Receipt.statusEncoding", "len");
  ("core/types:ReceiptForStorage.DecodeRLP", "(*Receipt)(r).setStatus");
  ("core/types:ReceiptForStorage.DecodeRLP", "<conversion>");
  ("core/types:ReceiptForStorage.DecodeRLP", "<index>");
  ("core/types:ReceiptForStorage.DecodeRLP", "len");
  ("core/types:ReceiptForStorage.DecodeRLP", "make");
  ("core/types:ReceiptForStorage.DecodeRLP", "s.Decode");
  ("core/types:ReceiptForStorage.DecodeRLP>Receipt.setStatus", "bytes.Equal");
  ("core/types:ReceiptForStorage.DecodeRLP>Receipt.setStatus", "fmt.Errorf");
  ("core/types:ReceiptForStorage.DecodeRLP>Receipt.setStatus", "len");
  ("core/types:ReceiptForStorage.EncodeRLP", "(*Receipt)(r).statusEncoding");
  ("core/types:ReceiptForStorage.EncodeRLP", "<conversion>");
  ("core/types:ReceiptForStorage.EncodeRLP", "<index>");
  ("core/types:ReceiptForStorage.EncodeRLP", "len");
  ("core/types:ReceiptForStorage.EncodeRLP", "make");
  ("core/types:ReceiptForStorage.EncodeRLP", "rlp.Encode");
  ("core/types:ReceiptForStorage.EncodeRLP>Receipt.statusEncoding", "len");
  ("core/types:Transaction.DecodeRLP", "common.StorageSize");
  ("core/types:Transaction.DecodeRLP", "rlp.ListSize");
  ("core/types:Transaction.DecodeRLP", "s.Decode");
  ("core/types:Transaction.DecodeRLP", "s.Kind");
  ("core/types:Transaction.DecodeRLP", "tx.size.Store");
  ("core/types:Transaction.EncodeRLP", "rlp.Encode");
  ("local:Detail.DecodeRLP", "len");
  ("local:Detail.DecodeRLP", "rlp.DecodeBytes");
  ("local:Detail.DecodeRLP", "s.Decode");
  ("local:Detail.EncodeRLP", "<conversion>");
  ("local:Detail.EncodeRLP", "len");
  ("local:Detail.EncodeRLP", "rlp.Encode");
  ("local:Detail.EncodeRLP", "rlp.EncodeToBytes");
  ("staking:EvidenceDoubleSign.DecodeRLP", "<index>");
  ("staking:EvidenceDoubleSign.DecodeRLP", "c.Decode");
  ("staking:EvidenceDoubleSign.DecodeRLP", "common.BytesToHash");
  ("staking:EvidenceDoubleSign.DecodeRLP", "fmt.Errorf");
  ("staking:EvidenceDoubleSign.DecodeRLP", "len");
  ("staking:EvidenceDoubleSign.DecodeRLP", "make");
  ("staking:EvidenceDoubleSign.EncodeRLP", "<index>");
  ("staking:EvidenceDoubleSign.EncodeRLP", "<slice>");
  ("staking:EvidenceDoubleSign.EncodeRLP", "append");
  ("staking:EvidenceDoubleSign.EncodeRLP", "bytes.Compare");
  ("staking:EvidenceDoubleSign.EncodeRLP", "h.Bytes");
  ("staking:EvidenceDoubleSign.EncodeRLP", "len");
  ("staking:EvidenceDoubleSign.EncodeRLP", "make");
  ("staking:EvidenceDoubleSign.EncodeRLP", "new");
  ("staking:EvidenceDoubleSign.EncodeRLP", "new(big.Int).Set");
  ("staking:EvidenceDoubleSign.EncodeRLP", "rlp.Encode");
  ("staking:EvidenceDoubleSign.EncodeRLP", "sort.Slice");
  ("staking:LogData.DecodeRLP", "s.Decode");
  ("staking:LogData.EncodeRLP", "hexutil.Bytes");
  ("staking:LogData.EncodeRLP", "rlp.Encode");
  ("staking:SlashData.DecodeRLP", "s.Decode");
  ("staking:SlashData.EncodeRLP", "rlp.Encode")]%string.
Lemma coder_calls_exact : coder_calls = coder_calls_expected.
Proof. vm_compute. reflexivity. Qed.
