(* C14 - hand models of the custom EncodeRLP/DecodeRLP pairs of go-youchain and
   the correspondence runner.  No proofs in this file.

   A type with custom coders is [SCustom id wire]: EncodeRLP turns the value
   into a value of the wire type and hands it to rlp.Encode ([cenc]); DecodeRLP
   decodes the wire type with s.Decode and post-processes it ([cdec]).  The
   wire schemas below are written by hand from the anonymous structs / slices
   the Go methods use; the schemas of the named plain types nested in them
   (Header, AliasValidator, WithdrawRecord ...) are regenerated from /repo by
   reflection (harness sub-command "schemas" -> coq/gen/C14Schemas.v) and
   passed in as arguments. *)
From VF.C14 Require Export Typed.
Open Scope N_scope.

(* ---- ids ------------------------------------------------------------------- *)
Definition id_Transaction : N := 1.        (* core/types/transaction.go:126,131 *)
Definition id_Block : N := 2.              (* core/types/block.go:264,276 *)
Definition id_Receipt : N := 3.            (* core/types/receipt.go:104,110 *)
Definition id_ReceiptForStorage : N := 4.  (* core/types/receipt.go:164,182 *)
Definition id_Log : N := 5.                (* core/types/log.go:82,87 *)
Definition id_LogForStorage : N := 6.      (* core/types/log.go:101,115 *)
Definition id_Validator : N := 7.          (* core/state/validator.go:322,352 *)
Definition id_ValKindStat : N := 8.        (* core/state/validator.go:598,611 *)
Definition id_ValidatorsStat : N := 9.     (* core/state/validator.go:694,705 *)
Definition id_Validators : N := 10.        (* core/state/validator.go:824,828 *)
Definition id_ValidatorIndex : N := 11.    (* core/state/validator.go:1016,1026 *)
Definition id_pendingRelationship : N := 12. (* core/state/staking_record.go:144,147 *)
Definition id_Message : N := 13.           (* consensus/ucon/types.go:200,204 *)
Definition id_EvidenceDoubleSign : N := 14. (* staking/evidence.go:82,105 *)
Definition id_LogData : N := 15.           (* staking/logdata.go:51,68 *)
Definition id_SlashData : N := 16.         (* staking/logdata.go:140,161 *)

(* ---- wire schemas ------------------------------------------------------------ *)
Definition s_addr := SArr 20.
Definition s_hash := SArr 32.

(* Transaction: rlp.Encode(w, &tx.data) / s.Decode(&tx.data); txdata is
   regenerated (it is reachable by reflection through the field) *)
Definition custom_Transaction (txdata : schema) := SCustom id_Transaction txdata.
(* Block: extblock{Header *Header; Txs []*Transaction} *)
Definition custom_Block (header tx : schema) :=
  SCustom id_Block (SStruct [SPtr header; SList tx]).
(* Log: rlpLog{Address, Topics []Hash, Data []byte} *)
Definition custom_Log := SCustom id_Log (SStruct [s_addr; SList s_hash; SBytes]).
(* LogForStorage: rlpStorageLog *)
Definition custom_LogForStorage :=
  SCustom id_LogForStorage
    (SStruct [s_addr; SList s_hash; SBytes; SUint 64; s_hash; SUint 64; s_hash; SUint 64]).
(* Receipt: receiptRLP{PostStateOrStatus []byte, CumulativeGasUsed, Bloom, Logs []*Log} *)
Definition custom_Receipt :=
  SCustom id_Receipt (SStruct [SBytes; SUint 64; SArr 256; SList custom_Log]).
(* ReceiptForStorage: receiptStorageRLP *)
Definition custom_ReceiptForStorage :=
  SCustom id_ReceiptForStorage
    (SStruct [SBytes; SUint 64; SArr 256; s_hash; s_addr; SList custom_LogForStorage; SUint 64]).
(* Validator: rlpVal{AliasValidator; Expelled uint8} *)
Definition custom_Validator (alias : schema) :=
  SCustom id_Validator (SStruct [alias; SUint 8]).
(* ValKindStat: 8 fields *)
Definition custom_ValKindStat :=
  SCustom id_ValKindStat (SStruct [SBig; SBig; SUint 64; SBig; SBig; SUint 64; SBig; SBig]).
(* ValidatorsStat: six *ValKindStat *)
Definition custom_ValidatorsStat :=
  SCustom id_ValidatorsStat
    (SStruct [custom_ValKindStat; custom_ValKindStat; custom_ValKindStat;
              custom_ValKindStat; custom_ValKindStat; custom_ValKindStat]).
(* Validators: struct{ValSet []*Validator} *)
Definition custom_Validators (validator : schema) :=
  SCustom id_Validators (SStruct [SList validator]).
(* ValidatorIndex: addressList *)
Definition custom_ValidatorIndex := SCustom id_ValidatorIndex (SList s_addr).
(* pendingRelationship: biAddresses = []*[40]byte *)
Definition custom_pendingRelationship :=
  SCustom id_pendingRelationship (SList (SPtr (SArr 40))).
(* ucon.Message: struct{Code MsgType(uint8); Payload; Signature} *)
Definition custom_Message := SCustom id_Message (SStruct [SUint 8; SBytes; SBytes]).
(* EvidenceDoubleSign: struct{Round *big.Int; RoundIndex uint32; Signs []struct{Hash, Sign []byte}} *)
Definition custom_EvidenceDoubleSign :=
  SCustom id_EvidenceDoubleSign (SStruct [SBig; SUint 32; SList (SStruct [SBytes; SBytes])]).
(* LogData: struct{Topic string; Tags []string; Data hexutil.Bytes} *)
Definition custom_LogData := SCustom id_LogData (SStruct [SBytes; SList SBytes; SBytes]).
(* SlashData: struct{Type uint8; MainAddress; PenaltyAmount *big.Int;
   Records []*SlashWithdrawRecord; Evidence *Evidence} *)
Definition custom_SlashData (record evidence : schema) :=
  SCustom id_SlashData (SStruct [SUint 8; s_addr; SBig; SList (SPtr record); SPtr evidence]).

(* ---- ordered byte strings (bytes.Compare) ------------------------------------ *)
Fixpoint bytes_ltb (a b : bytes) : bool :=
  match a, b with
  | [], [] => false
  | [], _ :: _ => true
  | _ :: _, [] => false
  | x :: a', y :: b' => if x <? y then true else if y <? x then false else bytes_ltb a' b'
  end.

(* keyed association list kept strictly sorted by key; a later insert of an
   existing key replaces the payload (Go map assignment) *)
Fixpoint kv_insert {A} (k : bytes) (x : A) (l : list (bytes * A)) : list (bytes * A) :=
  match l with
  | [] => [(k, x)]
  | (k', y) :: r =>
    if bytes_ltb k k' then (k, x) :: l
    else if bytes_ltb k' k then (k', y) :: kv_insert k x r
    else (k, x) :: r
  end.
Definition kv_of_list {A} (l : list (bytes * A)) : list (bytes * A) :=
  fold_left (fun acc kx => kv_insert (fst kx) (snd kx) acc) l [].

(* strictly increasing byte strings (bytes.Compare(a[i-1], a[i]) < 0) *)
Fixpoint sorted_strict (l : list bytes) : bool :=
  match l with
  | [] => true
  | a :: r => match r with [] => true | b :: _ => bytes_ltb a b end && sorted_strict r
  end.

(* ---- ValidatorIndex: a set of addresses (sync.Map keys), written sorted ------ *)
Definition as_bytes (v : value) : option bytes :=
  match v with VBytes b => Some b | _ => None end.
(* EncodeRLP: the keys of the map, sorted *)
Definition set_norm (l : list value) : option (list value) :=
  match map_opt as_bytes l with
  | Some bs => Some (map (fun kx => VBytes (fst kx)) (kv_of_list (map (fun b => (b, tt)) bs)))
  | None => None
  end.
(* DecodeRLP (since 8fe8f02): the list must be strictly increasing *)
Definition set_dec (l : list value) : option (list value) :=
  match map_opt as_bytes l with
  | Some bs => if sorted_strict bs then Some l else None
  | None => None
  end.

(* ---- EvidenceDoubleSign: map[common.Hash][]byte ------------------------------ *)
(* one entry; since 201ba78 DecodeRLP rejects a hash that is not 32 bytes *)
Definition as_sign (v : value) : option (bytes * bytes) :=
  match v with
  | VList [VBytes h; VBytes s] => if len h =? 32 then Some (h, s) else None
  | _ => None
  end.
Definition sign_value (kx : bytes * bytes) : value := VList [VBytes (fst kx); VBytes (snd kx)].
(* EncodeRLP (since 201ba78): the entries of the map sorted by hash *)
Definition signs_norm (l : list value) : option (list value) :=
  match map_opt as_sign l with
  | Some kvs => Some (map sign_value (kv_of_list kvs))
  | None => None
  end.
(* DecodeRLP: entries go into the map in any order, a repeated hash is rejected *)
Definition signs_dec (l : list value) : option (list value) :=
  match map_opt as_sign l with
  | Some kvs =>
    let m := kv_of_list kvs in
    if len m =? len kvs then Some (map sign_value m) else None
  | None => None
  end.

(* ---- cenc / cdec ---------------------------------------------------------------- *)
(* value of a Receipt: [PostState; Status; CumulativeGasUsed; Bloom; Logs ...];
   statusEncoding(): no post state -> status failed (0) = [] / otherwise [1] *)
Definition status_enc (ps : bytes) (st : N) : bytes :=
  match ps with [] => if st =? 0 then [] else [1] | _ => ps end.
(* setStatus() *)
Definition status_dec (b : bytes) : option (bytes * N) :=
  match b with
  | [1] => Some ([], 1)
  | [] => Some ([], 0)
  | _ => if len b =? 32 then Some (b, 0) else None
  end.

Definition cenc (id : N) (v : value) : option value :=
  if (id =? id_Receipt) || (id =? id_ReceiptForStorage) then
    match v with
    | VList (VBytes ps :: VNum st :: rest) => Some (VList (VBytes (status_enc ps st) :: rest))
    | _ => None
    end
  else if id =? id_Validator then
    match v with
    | VList [a; VBool e] => Some (VList [a; VNum (if e then 1 else 0)])
    | _ => None
    end
  else if id =? id_ValidatorIndex then
    match v with VList l => option_map VList (set_norm l) | _ => None end
  else if id =? id_EvidenceDoubleSign then
    match v with
    | VList [r; i; VList signs] =>
      option_map (fun s => VList [r; i; VList s]) (signs_norm signs)
    | _ => None
    end
  else if (1 <=? id) && (id <=? 16) then Some v
  else None.

Definition cdec (id : N) (w : value) : option value :=
  if (id =? id_Receipt) || (id =? id_ReceiptForStorage) then
    match w with
    | VList (VBytes b :: rest) =>
      match status_dec b with
      | Some (ps, st) => Some (VList (VBytes ps :: VNum st :: rest))
      | None => None
      end
    | _ => None
    end
  else if id =? id_Validator then
    match w with
    | VList [a; VNum e] =>
      if 1 <? e then None                       (* since bcc4703: r.Expelled > 1 is an error *)
      else Some (VList [a; VBool (e =? 1)])     (* if r.Expelled == 1 *)
    | _ => None
    end
  else if id =? id_ValidatorIndex then
    match w with VList l => option_map VList (set_dec l) | _ => None end
  else if id =? id_EvidenceDoubleSign then
    match w with
    | VList [r; i; VList signs] =>
      option_map (fun s => VList [r; i; VList s]) (signs_dec signs)
    | _ => None
    end
  else if (1 <=? id) && (id <=? 16) then Some w
  else None.

Definition encode_t := encode_typed cenc.
Definition decode_t := decode_typed cdec.
(* The verdict class ErrValueTooLarge: Stream.Kind reports it for the value at
   the top level when the declared size exceeds what is left of the (limited)
   input, and willRead reports it when the bytes of a long-form size are not
   there.  The error is sticky (s.kinderr): every decoder starts with Kind, so
   whatever the target type is, an input whose outer header promises more than
   there is fails with this class - also for Transaction/Block, whose DecodeRLP
   peeks Kind() first and ignores its error. *)
Definition too_large (b : bytes) : bool :=
  match b with
  | [] => false
  | h :: t =>
    let long (ll : N) :=
      if len t <? ll then true
      else match firstn (N.to_nat ll) t with
           | [] => false
           | (b0 :: _) as lb =>
             if (b0 =? 0) && negb (ll =? 1) then false          (* ErrCanonSize *)
             else let n := of_be lb in
                  if n <? 56 then false else len t - ll <? n
           end in
    if negb (byte_ok h) then false
    else if h <? 128 then false
    else if h <? 184 then len t <? h - 128
    else if h <? 192 then long (h - 183)
    else if h <? 248 then len t <? h - 192
    else long (h - 247)
  end.

(* what an object decoded from b is hashed over: the encoding of its VALUE, not the
   bytes it was read from *)
Definition hash_preimage (s : schema) (b : bytes) : option bytes :=
  bind (decode_t s b) (encode_t s).
Definition hash_of (H : bytes -> bytes) (s : schema) (b : bytes) : option bytes :=
  option_map H (hash_preimage s b).

(* Stream.Decode on a reader limited to the input: the first value only *)
Definition decode_stream_t (s : schema) (b : bytes) : option (value * bytes) :=
  if negb (bytes_ok b) then None else
  match dec (S (length b)) b with
  | Some (it, rest) => option_map (fun v => (v, rest)) (of_item cdec s it)
  | None => None
  end.

Definition lenient_t := lenient cenc cdec.
Definition good_t := good cenc cdec.

(* schemas on which the decoder is strict: no rlp:"nil" pointer and not the one
   custom decoder that still normalises (EvidenceDoubleSign: entries in any order) *)
Fixpoint strict (s : schema) : bool :=
  match s with
  | SList e | SPtr e => strict e
  | SStruct fs => (fix go (fs : list schema) : bool :=
                     match fs with [] => true | f :: r => strict f && go r end) fs
  | SOpt _ => false
  | SCustom id w =>
    negb (id =? id_EvidenceDoubleSign) && strict w
  | _ => true
  end.

(* ---- correspondence runner ---------------------------------------------------- *)
Definition table := list (N * schema).
Fixpoint lookup (t : table) (k : N) : option schema :=
  match t with [] => None | (k', s) :: r => if k =? k' then Some s else lookup r k end.

Inductive case :=
(* the implementation encoded the value [v] of type [ty] to [b]; [rt] = the
   value has no nil pointers, so decoding must give it back *)
| CEnc (ty : N) (v : value) (rt : bool) (b : bytes)
(* the bytes delivered by the reader of rlp.EncodeToReader (what p2p.Send puts on
   the wire) for the value [v]: one more observation of the same encoding *)
| CEncR (ty : N) (v : value) (b : bytes)
(* rlp.DecodeBytes(b, &T): None = error; Some b' = accepted and the decoded
   object re-encodes to b'.  (The decoded value itself is not compared here:
   the implementation's encoder is tied to [encode_t] by the CEnc cases and
   [encode_t] is injective, so equal re-encodings mean equal values.) *)
| CDec (ty : N) (b : bytes) (r : option bytes)
(* rlp.DecodeBytes(b, &interface{}) and re-encoding *)
| CItem (b : bytes) (r : option bytes)
(* rlp.NewStream(reader(b), len b).Decode(&T) - what p2p Msg.Decode and the
   database readers do: one value is read, trailing bytes are left unread.
   Some (b', n) = accepted, re-encodes to b', n bytes unread *)
| CStream (ty : N) (b : bytes) (r : option (bytes * N))
(* rejected by rlp.DecodeBytes (stream = false) or by a Stream limited to the
   input (stream = true); cls = the error was ErrValueTooLarge ("value size
   exceeds available input length") *)
| CRej (ty : N) (stream : bool) (b : bytes) (cls : bool)
(* the accepted input b of a type whose hash is the digest of its encoding
   (Transaction, SlashData): p = the byte string whose keccak256 the decoded
   object's Hash() is ([] = neither the input nor the re-encoding).  The hash is a
   function of the VALUE: p must be the encoding of the decoded value. *)
| CHash (ty : N) (b : bytes) (p : bytes).

Definition opt_bytes_eqb (a b : option bytes) : bool :=
  match a, b with
  | Some x, Some y => bytes_eqb x y
  | None, None => true
  | _, _ => false
  end.
Definition case_ok (t : table) (c : case) : bool :=
  match c with
  | CEnc ty v rt b =>
    match lookup t ty with
    | None => false
    | Some s =>
      opt_bytes_eqb (encode_t s v) (Some b)
      (* rt = the implementation read the same value back from b *)
      && Bool.eqb rt (opt_value_eqb (decode_t s b) (Some v))
    end
  | CEncR ty v b =>
    match lookup t ty with
    | None => false
    | Some s => opt_bytes_eqb (encode_t s v) (Some b)
    end
  | CDec ty b r =>
    match lookup t ty with
    | None => false
    | Some s =>
      match decode_t s b, r with
      | None, None => true
      | Some v, Some b' => opt_bytes_eqb (encode_t s v) (Some b')
      | _, _ => false
      end
    end
  | CItem b r =>
    match decode b, r with
    | None, None => true
    | Some i, Some b' => bytes_eqb (encode i) b'
    | _, _ => false
    end
  | CStream ty b r =>
    match lookup t ty with
    | None => false
    | Some s =>
      match decode_stream_t s b, r with
      | None, None => true
      | Some (v, rest), Some (b', n) =>
        (len rest =? n) && opt_bytes_eqb (encode_t s v) (Some b')
      | _, _ => false
      end
    end
  | CHash ty b p =>
    match lookup t ty with
    | None => false
    | Some s => opt_bytes_eqb (hash_preimage s b) (Some p)
    end
  | CRej ty stream b cls =>
    match lookup t ty with
    | None => false
    | Some s =>
      (if stream then match decode_stream_t s b with None => true | Some _ => false end
       else match decode_t s b with None => true | Some _ => false end)
      && Bool.eqb (too_large b) cls
    end
  end.

Fixpoint mismatches_from (t : table) (i : N) (l : list case) : list N :=
  match l with
  | [] => []
  | c :: r => if case_ok t c then mismatches_from t (i + 1) r
              else i :: mismatches_from t (i + 1) r
  end.
Definition mismatches (t : table) := mismatches_from t 0.
