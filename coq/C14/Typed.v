(* C14 - typed layer: what rlp/typecache.go + makeDecoder/makeWriter derive
   from a Go type is a [schema]; [to_item]/[of_item] mirror the writer and
   decoder closures function by function.  No proofs in this file.

   Go value            model value
   uintN, MsgType...   VNum n            (n < 2^N)
   *big.Int, big.Int   VNum n            (nil pointer = 0 on the encoder side)
   bool                VBool b
   []byte, string      VBytes b
   [n]byte             VBytes b          (length n)
   []T, [..]struct     VList l
   struct              VList fields      (exported, not rlp:"-", in order)
   *T                  value of T, or VNil for a nil pointer
   *T `rlp:"nil"`      value of T, or VNil
   type with EncodeRLP/DecodeRLP    its own value, see [custom_enc]/[custom_dec]
*)
From VF.C14 Require Export Rlp.
Open Scope N_scope.

Inductive schema :=
| SUint (bits : N)            (* decodeUint / writeUint *)
| SBig                        (* decodeBigInt / writeBigInt *)
| SBool                       (* decodeBool / writeBool *)
| SBytes                      (* decodeByteSlice, decodeString / writeBytes, writeString *)
| SArr (n : N)                (* decodeByteArray / writeByteArray *)
| SList (e : schema)          (* decodeListSlice / makeSliceWriter *)
| SStruct (fs : list schema)  (* makeStructDecoder / makeStructWriter *)
| SPtr (e : schema)           (* makePtrDecoder / makePtrWriter *)
| SOpt (e : schema)           (* makeOptionalPtrDecoder (rlp:"nil") / makePtrWriter *)
| SCustom (id : N) (wire : schema). (* decodeDecoder / writeEncoder: see Model.v *)

Inductive value :=
| VNum (n : N) | VBool (b : bool) | VBytes (b : bytes) | VList (l : list value) | VNil.

(* ---- helpers --------------------------------------------------------------- *)
Fixpoint map_opt {A B} (f : A -> option B) (l : list A) : option (list B) :=
  match l with
  | [] => Some []
  | x :: r =>
    match f x with
    | Some y => match map_opt f r with Some ys => Some (y :: ys) | None => None end
    | None => None
    end
  end.

Definition bind {A B} (o : option A) (f : A -> option B) : option B :=
  match o with Some x => f x | None => None end.

(* ---- decoding side ---------------------------------------------------------- *)
(* Stream.uint(maxbits): at most bits/8 bytes, no leading zero byte (a single
   0x00 is ErrCanonInt, longer ones ErrCanonInt via readUint) *)
Definition dec_uint (bits : N) (b : bytes) : option N :=
  if bits / 8 <? len b then None
  else match b with
       | [] => Some 0
       | b0 :: _ => if b0 =? 0 then None else Some (of_be b)
       end.

(* decodeBigInt: any length, leading zero byte rejected *)
Definition dec_big (b : bytes) : option N :=
  match b with
  | [] => Some 0
  | b0 :: _ => if b0 =? 0 then None else Some (of_be b)
  end.

(* what a nil pointer to a value of this type is written as (makePtrWriter's
   nilfunc) and, for rlp:"nil", read from *)
Fixpoint zero_item (s : schema) : item :=
  match s with
  | SUint _ | SBig | SBool | SBytes => Str []
  | SArr n => Str (repeat 0 (N.to_nat n))
  | SList _ => Lst []
  | SStruct fs => Lst ((fix go (fs : list schema) : list item :=
                          match fs with [] => [] | f :: r => zero_item f :: go r end) fs)
  | SPtr e => zero_item e
  | SOpt e => zero_item e
  | SCustom _ w => zero_item w
  end.
Definition nil_item (e : schema) : item :=
  match e with
  | SArr _ => Str []               (* kind == Array && isByte(elem) *)
  | SStruct _ => Lst []            (* kind == Struct || kind == Array *)
  | _ => zero_item e               (* writer applied to the zero value *)
  end.

(* ---- boolean equality of values --------------------------------------------- *)
Fixpoint value_eqb (a b : value) : bool :=
  match a, b with
  | VNum x, VNum y => x =? y
  | VBool x, VBool y => Bool.eqb x y
  | VBytes x, VBytes y => bytes_eqb x y
  | VList x, VList y =>
    (fix go (x y : list value) : bool :=
       match x, y with
       | [], [] => true
       | i :: x', j :: y' => value_eqb i j && go x' y'
       | _, _ => false
       end) x y
  | VNil, VNil => true
  | _, _ => false
  end.

Definition opt_value_eqb (a b : option value) : bool :=
  match a, b with
  | Some x, Some y => value_eqb x y
  | None, None => true
  | _, _ => false
  end.

(* ---- well-formed schemas ------------------------------------------------------- *)
Definition uint_bits_ok (bits : N) : bool :=
  (bits =? 8) || (bits =? 16) || (bits =? 32) || (bits =? 64).
(* the target of a plain pointer: a type whose decoder never yields nil *)
Definition plain_top (s : schema) : bool :=
  match s with SPtr _ | SOpt _ | SCustom _ _ => false | _ => true end.
(* the target of an rlp:"nil" pointer: a type that never encodes to an empty value *)
Definition opt_elem_ok (e : schema) : bool :=
  match e with SArr n => 1 <=? n | SStruct (_ :: _) => true | _ => false end.
Fixpoint wf_schema (s : schema) : bool :=
  match s with
  | SUint bits => uint_bits_ok bits
  | SList e => wf_schema e
  | SStruct fs => (fix go (fs : list schema) : bool :=
                     match fs with [] => true | f :: r => wf_schema f && go r end) fs
  | SPtr e => plain_top e && wf_schema e
  | SOpt e => opt_elem_ok e && wf_schema e
  | SCustom _ w => wf_schema w
  | _ => true
  end.

Section Customs.
(* custom coders: [cenc id v] turns the type's value into the value of the wire
   schema it delegates to, [cdec id w] is the post-processing of DecodeRLP. *)
Variable cenc : N -> value -> option value.
Variable cdec : N -> value -> option value.

Fixpoint of_item (s : schema) (it : item) {struct s} : option value :=
  match s with
  | SUint bits =>
    match it with Str b => option_map VNum (dec_uint bits b) | Lst _ => None end
  | SBig =>
    match it with Str b => option_map VNum (dec_big b) | Lst _ => None end
  | SBool =>
    match it with
    | Str b => match dec_uint 8 b with
               | Some 0 => Some (VBool false)
               | Some 1 => Some (VBool true)
               | _ => None
               end
    | Lst _ => None
    end
  | SBytes =>
    match it with Str b => Some (VBytes b) | Lst _ => None end
  | SArr n =>
    match it with Str b => if len b =? n then Some (VBytes b) else None | Lst _ => None end
  | SList e =>
    match it with Lst l => option_map VList (map_opt (of_item e) l) | Str _ => None end
  | SStruct fs =>
    match it with
    | Lst l =>
      option_map VList
        ((fix go (fs : list schema) (l : list item) : option (list value) :=
            match fs, l with
            | [], [] => Some []
            | f :: fs', x :: l' =>
              match of_item f x with
              | Some v => match go fs' l' with Some vs => Some (v :: vs) | None => None end
              | None => None
              end
            | _, _ => None   (* too few / too many elements *)
            end) fs l)
    | Str _ => None
    end
  | SPtr e => of_item e it
  | SOpt e =>
    match it with
    | Str [] => Some VNil        (* size == 0 && kind != Byte: either empty kind *)
    | Lst [] => Some VNil
    | _ => of_item e it
    end
  | SCustom id w => bind (of_item w it) (cdec id)
  end.

(* ---- encoding side ---------------------------------------------------------- *)
Fixpoint to_item (s : schema) (v : value) {struct s} : option item :=
  match s with
  | SUint bits =>
    match v with VNum n => if n <? 2 ^ bits then Some (Str (to_be n)) else None | _ => None end
  | SBig =>
    match v with VNum n => Some (Str (to_be n)) | _ => None end
  | SBool =>
    match v with VBool true => Some (Str [1]) | VBool false => Some (Str []) | _ => None end
  | SBytes =>
    match v with VBytes b => Some (Str b) | _ => None end
  | SArr n =>
    match v with VBytes b => if len b =? n then Some (Str b) else None | _ => None end
  | SList e =>
    match v with VList l => option_map Lst (map_opt (to_item e) l) | _ => None end
  | SStruct fs =>
    match v with
    | VList l =>
      option_map Lst
        ((fix go (fs : list schema) (l : list value) : option (list item) :=
            match fs, l with
            | [], [] => Some []
            | f :: fs', x :: l' =>
              match to_item f x with
              | Some i => match go fs' l' with Some is => Some (i :: is) | None => None end
              | None => None
              end
            | _, _ => None
            end) fs l)
    | _ => None
    end
  | SPtr e =>
    match v with VNil => Some (nil_item e) | _ => to_item e v end
  | SOpt e =>
    match v with VNil => Some (nil_item e) | _ => to_item e v end
  | SCustom id w => bind (cenc id v) (to_item w)
  end.

(* rlp.EncodeToBytes / rlp.DecodeBytes for a type with schema s *)
Definition encode_typed (s : schema) (v : value) : option bytes :=
  option_map encode (to_item s v).
Definition decode_typed (s : schema) (b : bytes) : option value :=
  bind (decode b) (of_item s).

(* values inside the round-trip domain: no nil where a plain pointer is
   expected (the encoder writes an empty value for it, the decoder builds a
   fresh object), and custom values that their own DecodeRLP gives back *)
Fixpoint good (s : schema) (v : value) {struct s} : bool :=
  match s with
  | SList e => match v with VList l => forallb (good e) l | _ => true end
  | SStruct fs =>
    match v with
    | VList l =>
      (fix go (fs : list schema) (l : list value) : bool :=
         match fs, l with
         | f :: fs', x :: l' => good f x && go fs' l'
         | _, _ => true
         end) fs l
    | _ => true
    end
  | SPtr e => match v with VNil => false | _ => good e v end
  | SOpt e => match v with VNil => true | _ => good e v end
  | SCustom id w =>
    match cenc id v with
    | Some wv => opt_value_eqb (cdec id wv) (Some v) && good w wv
    | None => false
    end
  | _ => true
  end.

(* [lenient s it] = decoding [it] as [s] goes through a place where the Go
   decoder accepts more than one wire form for the value it produces:
   (a) rlp:"nil" pointers take both empty kinds (makeOptionalPtrDecoder),
   (b) a custom DecodeRLP normalises what it read (re-encoding the decoded
       value gives a different wire value). *)
Fixpoint lenient (s : schema) (it : item) {struct s} : bool :=
  match s with
  | SList e => match it with Lst l => existsb (lenient e) l | _ => false end
  | SStruct fs =>
    match it with
    | Lst l =>
      (fix go (fs : list schema) (l : list item) : bool :=
         match fs, l with
         | f :: fs', x :: l' => lenient f x || go fs' l'
         | _, _ => false
         end) fs l
    | _ => false
    end
  | SPtr e => lenient e it
  | SOpt e =>
    match it with
    | Str [] => negb (item_eqb (nil_item e) (Str []))
    | Lst [] => negb (item_eqb (nil_item e) (Lst []))
    | _ => lenient e it
    end
  | SCustom id w =>
    lenient w it ||
    match of_item w it with
    | Some wv =>
      match cdec id wv with
      | Some v => match cenc id v with Some wv' => negb (value_eqb wv wv') | None => true end
      | None => false
      end
    | None => false
    end
  | _ => false
  end.

End Customs.

