(* C14 - generic RLP item codec (shared: From VF.C14 Require Import Rlp).
   Executable specification of the wire format that rlp/encode.go produces and
   that rlp/decode.go (Stream.Kind/readKind/Bytes/List/ListEnd) and rlp/raw.go
   (readKind/readSize) accept.  No proofs in this file (see RlpProofs.v).

   Bytes are N below 256 ([bytes_ok]); lengths are unbounded N, the uint64
   limit of the Go code appears as [fits] (encoder side) and as the 1..8 range
   of the length-of-length (decoder side). *)
From Coq Require Export List NArith Bool.
Export ListNotations.
Open Scope N_scope.

Definition bytes := list N.

Definition byte_ok (b : N) : bool := b <? 256.
Definition bytes_ok (l : bytes) : bool := forallb byte_ok l.

Definition len {A} (l : list A) : N := N.of_nat (length l).

(* ---- items --------------------------------------------------------------- *)
Inductive item := Str (b : bytes) | Lst (l : list item).

(* ---- big-endian integers (putint / readUint / binary.BigEndian) ---------- *)
(* little-endian base-256 digits, fuel = number of bits *)
Fixpoint to_le_fuel (fuel : nat) (n : N) : bytes :=
  match fuel with
  | O => []
  | S f => if n =? 0 then [] else n mod 256 :: to_le_fuel f (n / 256)
  end.
(* minimal big-endian representation; 0 is the empty string (putint is only
   called on non-zero values, big.Int.Bytes() of 0 is empty) *)
Definition to_be (n : N) : bytes := rev (to_le_fuel (N.to_nat (N.size n)) n).

Fixpoint of_be_acc (acc : N) (l : bytes) : N :=
  match l with [] => acc | b :: r => of_be_acc (acc * 256 + b) r end.
Definition of_be (l : bytes) : N := of_be_acc 0 l.

(* ---- encoder (encbuf.encodeString / encodeStringHeader / puthead) -------- *)
(* header for a payload of [n] bytes; base is 0x80 (string) or 0xC0 (list) *)
Definition enc_head (base n : N) : bytes :=
  if n <? 56 then [base + n]
  else let lb := to_be n in (base + 55 + len lb) :: lb.

Definition enc_str (b : bytes) : bytes :=
  match b with
  | [x] => if x <? 128 then [x] else enc_head 128 1 ++ b
  | _ => enc_head 128 (len b) ++ b
  end.

Fixpoint encode (i : item) : bytes :=
  match i with
  | Str b => enc_str b
  | Lst l =>
    let p := (fix go (l : list item) : bytes :=
                match l with [] => [] | x :: r => encode x ++ go r end) l in
    enc_head 192 (len p) ++ p
  end.
Definition encode_seq (l : list item) : bytes := flat_map encode l.

(* the encoder's uint64 world: every payload length fits 8 bytes *)
Fixpoint fits (i : item) : bool :=
  match i with
  | Str b => len b <? 2^64
  | Lst l => (len (flat_map encode l) <? 2^64) && forallb fits l
  end.

(* every byte of the item is a byte *)
Fixpoint item_ok (i : item) : bool :=
  match i with
  | Str b => bytes_ok b
  | Lst l => forallb item_ok l
  end.

(* ---- decoder -------------------------------------------------------------- *)
Definition take (n : N) (l : bytes) : option (bytes * bytes) :=
  if n <=? len l then Some (firstn (N.to_nat n) l, skipn (N.to_nat n) l) else None.

(* long form size (Stream.readKind + readUint / raw.go readSize): no leading
   zero byte, value >= 56 *)
Definition long_size (ll : N) (t : bytes) : option (N * bytes) :=
  match take ll t with
  | None => None
  | Some (lb, t') =>
    match lb with
    | [] => None
    | b0 :: _ =>
      if b0 =? 0 then None
      else let n := of_be lb in if n <? 56 then None else Some (n, t')
    end
  end.

(* one value header + content: (is_list, content, rest).  Mirrors
   Stream.readKind followed by the size check of Stream.Kind (value must fit
   the remaining input / enclosing list) and the single-byte canonicity check
   of Stream.Bytes / decodeByteArray / uint. *)
Definition split_item (b : bytes) : option (bool * bytes * bytes) :=
  match b with
  | [] => None
  | h :: t =>
    if negb (byte_ok h) then None
    else if h <? 128 then Some (false, [h], t)
    else if h <? 184 then
      match take (h - 128) t with
      | Some (c, r) =>
        match c with
        | [x] => if x <? 128 then None else Some (false, c, r)
        | _ => Some (false, c, r)
        end
      | None => None
      end
    else if h <? 192 then
      match long_size (h - 183) t with
      | Some (n, t') =>
        match take n t' with Some (c, r) => Some (false, c, r) | None => None end
      | None => None
      end
    else if h <? 248 then
      match take (h - 192) t with Some (c, r) => Some (true, c, r) | None => None end
    else
      match long_size (h - 247) t with
      | Some (n, t') =>
        match take n t' with Some (c, r) => Some (true, c, r) | None => None end
      | None => None
      end
  end.

(* sequence of values filling a payload exactly (List ... ListEnd) *)
Fixpoint dec_seq (d : bytes -> option (item * bytes)) (n : nat) (b : bytes) : option (list item) :=
  match b with
  | [] => Some []
  | _ =>
    match n with
    | O => None
    | S n' =>
      match d b with
      | Some (i, r) =>
        match dec_seq d n' r with Some l => Some (i :: l) | None => None end
      | None => None
      end
    end
  end.

(* fuel bounds the nesting depth *)
Fixpoint dec (fuel : nat) (b : bytes) : option (item * bytes) :=
  match fuel with
  | O => None
  | S f =>
    match split_item b with
    | None => None
    | Some (false, c, r) => Some (Str c, r)
    | Some (true, c, r) =>
      match dec_seq (dec f) (length c) c with
      | Some l => Some (Lst l, r)
      | None => None
      end
    end
  end.

(* rlp.DecodeBytes on the item level: exactly one value, no trailing bytes *)
Definition decode (b : bytes) : option item :=
  if negb (bytes_ok b) then None else
  match dec (S (length b)) b with
  | Some (i, []) => Some i
  | _ => None
  end.

(* size of a decoded item: list nodes + string nodes + content bytes *)
Fixpoint item_size (i : item) : N :=
  match i with
  | Str b => 1 + len b
  | Lst l => 1 + (fix go (l : list item) : N :=
                    match l with [] => 0 | x :: r => item_size x + go r end) l
  end.

(* ---- boolean equality ------------------------------------------------------ *)
Fixpoint bytes_eqb (a b : bytes) : bool :=
  match a, b with
  | [], [] => true
  | x :: a', y :: b' => (x =? y) && bytes_eqb a' b'
  | _, _ => false
  end.

Fixpoint item_eqb (a b : item) : bool :=
  match a, b with
  | Str x, Str y => bytes_eqb x y
  | Lst x, Lst y =>
    (fix go (x y : list item) : bool :=
       match x, y with
       | [], [] => true
       | i :: x', j :: y' => item_eqb i j && go x' y'
       | _, _ => false
       end) x y
  | _, _ => false
  end.
