(* C14 - proofs about the generic RLP item codec (Rlp.v). *)
From Coq Require Import ZArith Lia ZifyBool ZifyN ZifyNat.
From VF.C14 Require Import Rlp.
Local Open Scope N_scope.

Ltac Zify.zify_post_hook ::= Z.div_mod_to_equations.

(* ---- small facts ----------------------------------------------------------- *)
Lemma len_app {A} (a b : list A) : len (a ++ b) = len a + len b.
Proof. unfold len. rewrite app_length. lia. Qed.
Lemma len_cons {A} (x : A) l : len (x :: l) = 1 + len l.
Proof. unfold len. cbn [length]. lia. Qed.
Lemma len_nil {A} : len (@nil A) = 0.
Proof. reflexivity. Qed.
Lemma len_rev {A} (l : list A) : len (rev l) = len l.
Proof. unfold len. now rewrite rev_length. Qed.
Lemma len_zero_nil {A} (l : list A) : len l = 0 -> l = [].
Proof. destruct l; [reflexivity|]. rewrite len_cons. lia. Qed.

Lemma bytes_ok_app a b : bytes_ok (a ++ b) = bytes_ok a && bytes_ok b.
Proof. unfold bytes_ok. apply forallb_app. Qed.
Lemma bytes_ok_cons x l : bytes_ok (x :: l) = byte_ok x && bytes_ok l.
Proof. reflexivity. Qed.
Lemma bytes_ok_rev l : bytes_ok (rev l) = bytes_ok l.
Proof.
  induction l as [|x l IH]; [reflexivity|]. cbn [rev]. rewrite bytes_ok_app, IH.
  cbn [bytes_ok forallb]. rewrite andb_true_r. apply andb_comm.
Qed.

(* ---- big-endian integers -------------------------------------------------------- *)
Fixpoint of_le (l : bytes) : N :=
  match l with [] => 0 | b :: r => b + 256 * of_le r end.

Lemma of_be_acc_app a l b : of_be_acc a (l ++ [b]) = of_be_acc a l * 256 + b.
Proof. revert a. induction l as [|x l IH]; intros a; cbn [of_be_acc app]; [reflexivity|apply IH]. Qed.

Lemma of_be_rev l : of_be (rev l) = of_le l.
Proof.
  unfold of_be. induction l as [|x l IH]; [reflexivity|].
  cbn [rev of_le]. rewrite of_be_acc_app, IH. lia.
Qed.

Lemma to_le_zero f : to_le_fuel f 0 = [].
Proof. destruct f; reflexivity. Qed.

Lemma of_le_to_le f : forall n, n < 2 ^ N.of_nat f -> of_le (to_le_fuel f n) = n.
Proof.
  induction f as [|f IH]; intros n Hn.
  - cbn in Hn. cbn. lia.
  - cbn [to_le_fuel]. destruct (n =? 0) eqn:E; [cbn; lia|].
    cbn [of_le]. rewrite IH.
    + lia.
    + rewrite Nat2N.inj_succ, N.pow_succ_r' in Hn. lia.
Qed.

Lemma to_le_ok f : forall n, bytes_ok (to_le_fuel f n) = true.
Proof.
  induction f as [|f IH]; intros n; [reflexivity|].
  cbn [to_le_fuel]. destruct (n =? 0); [reflexivity|].
  rewrite bytes_ok_cons, IH. unfold byte_ok. lia.
Qed.

(* canonical little-endian digit lists: bytes, most significant digit non-zero *)
Fixpoint le_canon (l : bytes) : bool :=
  match l with
  | [] => true
  | [b] => byte_ok b && negb (b =? 0)
  | b :: r => byte_ok b && le_canon r
  end.

Lemma le_canon_cons b r : le_canon (b :: r) = true ->
  b < 256 /\ le_canon r = true /\ (r = [] -> b <> 0).
Proof.
  cbn [le_canon]. destruct r as [|c r].
  - unfold byte_ok. intros H. repeat split; try lia. 
  - intros H. apply andb_prop in H as [H1 H2]. unfold byte_ok in H1.
    repeat split; try lia; try assumption. discriminate.
Qed.

Lemma of_le_canon_pos l : le_canon l = true -> l <> [] -> of_le l <> 0.
Proof.
  induction l as [|b r IH]; intros Hc Hne; [congruence|].
  apply le_canon_cons in Hc as (Hb & Hr & Hz). cbn [of_le].
  destruct r as [|c r'].
  - specialize (Hz eq_refl). cbn. lia.
  - assert (of_le (c :: r') <> 0) by (apply IH; [assumption|discriminate]). lia.
Qed.

Lemma to_le_of_le l : le_canon l = true ->
  forall f, of_le l < 2 ^ N.of_nat f -> to_le_fuel f (of_le l) = l.
Proof.
  induction l as [|b r IH]; intros Hc f Hf.
  - cbn. apply to_le_zero.
  - pose proof (of_le_canon_pos _ Hc ltac:(discriminate)) as Hpos.
    apply le_canon_cons in Hc as (Hb & Hr & Hz).
    destruct f as [|f]; [change (2 ^ N.of_nat 0) with 1 in Hf; lia|].
    cbn [to_le_fuel]. destruct (of_le (b :: r) =? 0) eqn:E; [lia|].
    cbn [of_le] in *. rewrite Nat2N.inj_succ, N.pow_succ_r' in Hf.
    replace ((b + 256 * of_le r) mod 256) with b by lia.
    replace ((b + 256 * of_le r) / 256) with (of_le r) by lia.
    f_equal. apply IH; [assumption|lia].
Qed.

(* with enough fuel the digit list is canonical *)
Lemma to_le_canon f : forall n, n < 2 ^ N.of_nat f -> le_canon (to_le_fuel f n) = true.
Proof.
  induction f as [|f IH]; intros n Hn; [reflexivity|].
  cbn [to_le_fuel]. destruct (n =? 0) eqn:E; [reflexivity|].
  rewrite Nat2N.inj_succ, N.pow_succ_r' in Hn.
  assert (Hq : n / 256 < 2 ^ N.of_nat f) by lia.
  specialize (IH _ Hq).
  destruct (to_le_fuel f (n / 256)) as [|c r] eqn:Er.
  - assert (n / 256 = 0).
    { pose proof (of_le_to_le f _ Hq) as H. rewrite Er in H. cbn in H. lia. }
    cbn [le_canon]. unfold byte_ok. lia.
  - cbn [le_canon] in *. rewrite IH. unfold byte_ok.
    destruct r; lia.
Qed.

Lemma size_bound n : n < 2 ^ N.of_nat (N.to_nat (N.size n)).
Proof. rewrite N2Nat.id. apply N.size_gt. Qed.

(* big-endian minimal form: bytes, no leading zero *)
Definition be_min (l : bytes) : bool :=
  bytes_ok l && match l with [] => true | b :: _ => negb (b =? 0) end.

Lemma le_canon_rev l : le_canon (rev l) = be_min l.
Proof.
  unfold be_min. induction l as [|b r IH] using rev_ind; [reflexivity|].
  rewrite rev_app_distr. cbn [rev app]. rewrite bytes_ok_app.
  destruct r as [|c r'].
  - cbn. destruct (byte_ok b); reflexivity.
  - (* rev (c :: r') is non-empty *)
    cbn [app].
    assert (Hne : rev (c :: r') <> []).
    { intro H. apply (f_equal (@length _)) in H. rewrite rev_length in H. discriminate. }
    destruct (rev (c :: r')) as [|d t] eqn:Ed; [congruence|].
    change (le_canon (b :: d :: t)) with (byte_ok b && le_canon (d :: t)).
    rewrite IH. cbn [bytes_ok forallb]. rewrite andb_true_r.
    destruct (byte_ok b), (byte_ok c), (forallb byte_ok r'), (c =? 0); reflexivity.
Qed.

Lemma of_be_to_be n : of_be (to_be n) = n.
Proof. unfold to_be. rewrite of_be_rev. apply of_le_to_le, size_bound. Qed.

Lemma to_be_min n : be_min (to_be n) = true.
Proof.
  unfold to_be. rewrite <- le_canon_rev, rev_involutive. apply to_le_canon, size_bound.
Qed.

Lemma to_be_of_be l : be_min l = true -> to_be (of_be l) = l.
Proof.
  intros H. unfold to_be.
  assert (E : of_be l = of_le (rev l)) by (now rewrite <- of_be_rev, rev_involutive).
  rewrite E, to_le_of_le.
  - apply rev_involutive.
  - now rewrite le_canon_rev.
  - apply size_bound.
Qed.

Lemma to_be_ok n : bytes_ok (to_be n) = true.
Proof. unfold to_be. rewrite bytes_ok_rev. apply to_le_ok. Qed.

Lemma to_be_zero : to_be 0 = [].
Proof. reflexivity. Qed.

Lemma to_be_nonempty n : n <> 0 -> to_be n <> [].
Proof.
  intros Hn H. pose proof (of_be_to_be n) as E. rewrite H in E. cbn in E. lia.
Qed.

Lemma to_be_hd n : match to_be n with [] => n = 0 | b :: _ => b <> 0 end.
Proof.
  pose proof (to_be_min n) as H. pose proof (of_be_to_be n) as E.
  destruct (to_be n) as [|b r]; [cbn in E; lia|].
  unfold be_min in H. apply andb_prop in H as [_ H]. lia.
Qed.

(* length bound: n < 256^k has at most k digits *)
Lemma to_le_len f : forall n k, n < 256 ^ k -> len (to_le_fuel f n) <= k.
Proof.
  induction f as [|f IH]; intros n k Hn; [cbn; lia|].
  cbn [to_le_fuel]. destruct (n =? 0) eqn:E; [cbn; lia|].
  rewrite len_cons.
  destruct (N.eq_dec k 0) as [->|Hk]; [cbn in Hn; lia|].
  assert (Hk' : k = N.succ (k - 1)) by lia. rewrite Hk' in Hn. rewrite N.pow_succ_r' in Hn.
  specialize (IH (n / 256) (k - 1) ltac:(lia)). lia.
Qed.

Lemma to_be_len n k : n < 256 ^ k -> len (to_be n) <= k.
Proof. intros H. unfold to_be. rewrite len_rev. now apply to_le_len. Qed.

Lemma of_le_lt l : bytes_ok l = true -> of_le l < 256 ^ len l.
Proof.
  induction l as [|b r IH]; intros H; [cbn; lia|].
  rewrite bytes_ok_cons in H. apply andb_prop in H as [Hb Hr]. unfold byte_ok in Hb.
  specialize (IH Hr). cbn [of_le]. rewrite len_cons.
  replace (1 + len r) with (N.succ (len r)) by lia. rewrite N.pow_succ_r'. lia.
Qed.

Lemma of_be_lt l : bytes_ok l = true -> of_be l < 256 ^ len l.
Proof.
  intros H. rewrite <- (rev_involutive l) at 1. rewrite of_be_rev, <- len_rev.
  apply of_le_lt. now rewrite bytes_ok_rev.
Qed.

(* ---- take / headers ---------------------------------------------------------------- *)
Lemma take_app c r : take (len c) (c ++ r) = Some (c, r).
Proof.
  unfold take. rewrite len_app. destruct (len c <=? len c + len r) eqn:E; [|lia].
  unfold len. rewrite Nat2N.id.
  rewrite firstn_app, Nat.sub_diag, firstn_all, firstn_O, app_nil_r.
  rewrite skipn_app, Nat.sub_diag, skipn_all. reflexivity.
Qed.

Lemma take_sound n t c r : take n t = Some (c, r) -> t = c ++ r /\ len c = n.
Proof.
  unfold take. destruct (n <=? len t) eqn:E; [|discriminate].
  intros H; injection H as <- <-. split; [symmetry; apply firstn_skipn|].
  unfold len in *. rewrite firstn_length. lia.
Qed.

Lemma enc_head_short base n : n < 56 -> enc_head base n = [base + n].
Proof. intros H. unfold enc_head. destruct (n <? 56) eqn:E; [reflexivity|lia]. Qed.
Lemma enc_head_long base n : 56 <= n ->
  enc_head base n = (base + 55 + len (to_be n)) :: to_be n.
Proof. intros H. unfold enc_head. destruct (n <? 56) eqn:E; [lia|reflexivity]. Qed.

Lemma to_be_len_range n : 56 <= n -> n < 2 ^ 64 -> 1 <= len (to_be n) <= 8.
Proof.
  intros H1 H2. split.
  - destruct (to_be n) eqn:E; [|rewrite len_cons; lia].
    exfalso. apply (to_be_nonempty n); [lia|assumption].
  - apply to_be_len. change (256 ^ 8) with (2 ^ 64). assumption.
Qed.

Lemma long_size_ok n t : 56 <= n ->
  long_size (len (to_be n)) (to_be n ++ t) = Some (n, t).
Proof.
  intros H. unfold long_size. rewrite take_app.
  pose proof (to_be_hd n) as Hh. pose proof (of_be_to_be n) as Ho.
  destruct (to_be n) as [|b l]; [lia|].
  destruct (b =? 0) eqn:E; [lia|]. rewrite Ho.
  destruct (n <? 56) eqn:E2; [lia|reflexivity].
Qed.

Lemma long_size_sound ll t n t' : bytes_ok t = true -> long_size ll t = Some (n, t') ->
  t = to_be n ++ t' /\ len (to_be n) = ll /\ 56 <= n.
Proof.
  intros Hok. unfold long_size. destruct (take ll t) as [[lb t'']|] eqn:Et; [|discriminate].
  apply take_sound in Et as [-> Hl].
  destruct lb as [|b0 lb']; [discriminate|].
  destruct (b0 =? 0) eqn:E0; [discriminate|].
  destruct (of_be (b0 :: lb') <? 56) eqn:E1; [discriminate|].
  intros H; injection H as <- <-.
  rewrite bytes_ok_app in Hok. apply andb_prop in Hok as [Hok _].
  assert (Hm : be_min (b0 :: lb') = true).
  { unfold be_min. rewrite Hok. cbn. lia. }
  rewrite (to_be_of_be _ Hm). repeat split; [assumption|lia].
Qed.

(* ---- split_item on encodings ------------------------------------------------------ *)
Definition str_single_low (b : bytes) : bool :=
  match b with [x] => x <? 128 | _ => false end.

Lemma split_head_str b r : bytes_ok b = true -> len b < 2 ^ 64 -> str_single_low b = false ->
  split_item (enc_head 128 (len b) ++ b ++ r) = Some (false, b, r).
Proof.
  intros Hok Hlen Hs. destruct (N.lt_ge_cases (len b) 56) as [Hc|Hc].
  - rewrite enc_head_short by assumption. cbn [app]. unfold split_item, byte_ok.
    destruct (negb (128 + len b <? 256)) eqn:E1; [lia|].
    destruct (128 + len b <? 128) eqn:E2; [lia|].
    destruct (128 + len b <? 184) eqn:E3; [|lia].
    replace (128 + len b - 128) with (len b) by lia. rewrite take_app.
    destruct b as [|x [|y b']]; try reflexivity.
    cbn in Hs. rewrite Hs. reflexivity.
  - rewrite enc_head_long by assumption. cbn [app].
    pose proof (to_be_len_range _ Hc Hlen) as Hr.
    unfold split_item, byte_ok.
    destruct (negb (128 + 55 + len (to_be (len b)) <? 256)) eqn:E1; [lia|].
    destruct (128 + 55 + len (to_be (len b)) <? 128) eqn:E2; [lia|].
    destruct (128 + 55 + len (to_be (len b)) <? 184) eqn:E3; [lia|].
    destruct (128 + 55 + len (to_be (len b)) <? 192) eqn:E4; [|lia].
    replace (128 + 55 + len (to_be (len b)) - 183) with (len (to_be (len b))) by lia.
    rewrite long_size_ok by assumption. rewrite take_app. reflexivity.
Qed.

Lemma split_head_list p r : len p < 2 ^ 64 ->
  split_item (enc_head 192 (len p) ++ p ++ r) = Some (true, p, r).
Proof.
  intros Hlen. destruct (N.lt_ge_cases (len p) 56) as [Hc|Hc].
  - rewrite enc_head_short by assumption. cbn [app]. unfold split_item, byte_ok.
    destruct (negb (192 + len p <? 256)) eqn:E1; [lia|].
    destruct (192 + len p <? 128) eqn:E2; [lia|].
    destruct (192 + len p <? 184) eqn:E3; [lia|].
    destruct (192 + len p <? 192) eqn:E4; [lia|].
    destruct (192 + len p <? 248) eqn:E5; [|lia].
    replace (192 + len p - 192) with (len p) by lia. rewrite take_app. reflexivity.
  - rewrite enc_head_long by assumption. cbn [app].
    pose proof (to_be_len_range _ Hc Hlen) as Hr.
    unfold split_item, byte_ok.
    destruct (negb (192 + 55 + len (to_be (len p)) <? 256)) eqn:E1; [lia|].
    destruct (192 + 55 + len (to_be (len p)) <? 128) eqn:E2; [lia|].
    destruct (192 + 55 + len (to_be (len p)) <? 184) eqn:E3; [lia|].
    destruct (192 + 55 + len (to_be (len p)) <? 192) eqn:E4; [lia|].
    destruct (192 + 55 + len (to_be (len p)) <? 248) eqn:E5; [lia|].
    replace (192 + 55 + len (to_be (len p)) - 247) with (len (to_be (len p))) by lia.
    rewrite long_size_ok by assumption. rewrite take_app. reflexivity.
Qed.

Lemma split_enc_str b r : bytes_ok b = true -> len b < 2 ^ 64 ->
  split_item (enc_str b ++ r) = Some (false, b, r).
Proof.
  intros Hok Hlen. destruct (str_single_low b) eqn:Hs.
  - destruct b as [|x [|y b']]; try discriminate. cbn in Hs. cbn [enc_str]. rewrite Hs.
    cbn [app]. unfold split_item. rewrite bytes_ok_cons in Hok. apply andb_prop in Hok as [Hx _].
    rewrite Hx. cbn [negb]. rewrite Hs. reflexivity.
  - assert (E : enc_str b = enc_head 128 (len b) ++ b).
    { destruct b as [|x [|y b']]; try reflexivity. cbn in Hs. cbn [enc_str]. rewrite Hs. reflexivity. }
    rewrite E, <- app_assoc. now apply split_head_str.
Qed.

(* ---- encode, unfolded ---------------------------------------------------------------- *)
Lemma encode_lst l : encode (Lst l) = enc_head 192 (len (encode_seq l)) ++ encode_seq l.
Proof.
  cbn [encode].
  assert (E : (fix go (l : list item) : bytes :=
                 match l with [] => [] | x :: r => encode x ++ go r end) l = encode_seq l).
  { induction l as [|x l IH]; [reflexivity|]. cbn [encode_seq flat_map]. now rewrite IH. }
  now rewrite E.
Qed.
Lemma encode_seq_cons x l : encode_seq (x :: l) = encode x ++ encode_seq l.
Proof. reflexivity. Qed.

Lemma enc_head_nonempty base n : enc_head base n <> [].
Proof. unfold enc_head. destruct (n <? 56); discriminate. Qed.

Lemma encode_nonempty i : encode i <> [].
Proof.
  destruct i as [b|l].
  - cbn [encode]. destruct b as [|x [|y b']]; cbn [enc_str].
    + intro H. apply app_eq_nil in H as [H _]. now apply enc_head_nonempty in H.
    + destruct (x <? 128); [discriminate|]. intro H. apply app_eq_nil in H as [H _].
      now apply enc_head_nonempty in H.
    + intro H. apply app_eq_nil in H as [H _]. now apply enc_head_nonempty in H.
  - rewrite encode_lst. intro H. apply app_eq_nil in H as [H _]. now apply enc_head_nonempty in H.
Qed.

Lemma encode_len_pos i : 1 <= len (encode i).
Proof.
  pose proof (encode_nonempty i). destruct (encode i); [congruence|rewrite len_cons; lia].
Qed.

Lemma encode_seq_len l : len l <= len (encode_seq l).
Proof.
  induction l as [|x l IH]; [cbn; lia|].
  rewrite encode_seq_cons, len_app, len_cons. pose proof (encode_len_pos x). lia.
Qed.

(* ---- induction principle for items ----------------------------------------------------- *)
Section ItemInd.
  Variable P : item -> Prop.
  Hypothesis HS : forall b, P (Str b).
  Hypothesis HL : forall l, Forall P l -> P (Lst l).
  Fixpoint item_ind' (i : item) : P i :=
    match i with
    | Str b => HS b
    | Lst l => HL l ((fix go (l : list item) : Forall P l :=
                        match l with
                        | [] => Forall_nil P
                        | x :: r => Forall_cons x (item_ind' x) (go r)
                        end) l)
    end.
End ItemInd.

(* ---- completeness of the decoder ------------------------------------------------------- *)
Fixpoint depth (i : item) : nat :=
  match i with
  | Str _ => O
  | Lst l => S ((fix go (l : list item) : nat :=
                   match l with [] => O | x :: r => Nat.max (depth x) (go r) end) l)
  end.
Definition depth_seq (l : list item) : nat := fold_right (fun x a => Nat.max (depth x) a) O l.
Lemma depth_lst l : depth (Lst l) = S (depth_seq l).
Proof.
  assert (E : (fix go (l : list item) : nat :=
                 match l with [] => O | x :: r => Nat.max (depth x) (go r) end) l = depth_seq l).
  { induction l as [|x l IH]; [reflexivity|]. cbn [depth_seq fold_right]. now rewrite IH. }
  cbn [depth]. now rewrite E.
Qed.

Lemma fits_lst l : fits (Lst l) = (len (encode_seq l) <? 2 ^ 64) && forallb fits l.
Proof. reflexivity. Qed.
Lemma item_ok_lst l : item_ok (Lst l) = forallb item_ok l.
Proof. reflexivity. Qed.

Lemma dec_seq_complete d : forall l n,
  Forall (fun i => forall r, d (encode i ++ r) = Some (i, r)) l ->
  (length l <= n)%nat ->
  dec_seq d n (encode_seq l) = Some l.
Proof.
  induction l as [|x l IH]; intros n Hall Hn.
  - destruct n; reflexivity.
  - rewrite encode_seq_cons. inversion Hall as [|? ? Hx Hl]; subst.
    pose proof (encode_nonempty x) as Hne.
    destruct n as [|n]; [cbn in Hn; lia|].
    cbn [dec_seq].
    destruct (encode x ++ encode_seq l) as [|h t] eqn:E.
    { apply app_eq_nil in E as [E _]. congruence. }
    rewrite <- E, Hx, IH; [reflexivity|assumption|cbn in Hn; lia].
Qed.

Lemma dec_complete : forall i, item_ok i = true -> fits i = true ->
  forall f r, (depth i < f)%nat -> dec f (encode i ++ r) = Some (i, r).
Proof.
  induction i as [b|l IH] using item_ind'; intros Hok Hfit f r Hd.
  - destruct f as [|f]; [lia|]. cbn [dec encode].
    cbn [item_ok] in Hok. cbn [fits] in Hfit.
    rewrite split_enc_str; [reflexivity|assumption|lia].
  - destruct f as [|f]; [lia|]. rewrite depth_lst in Hd.
    rewrite fits_lst in Hfit. apply andb_prop in Hfit as [Hlen Hfl].
    rewrite item_ok_lst in Hok.
    rewrite encode_lst. rewrite <- app_assoc. cbn [dec].
    rewrite split_head_list by lia.
    rewrite dec_seq_complete; [reflexivity| |].
    + rewrite Forall_forall in IH. apply Forall_forall. intros x Hx r'.
      rewrite forallb_forall in Hok, Hfl.
      apply IH; [assumption|now apply Hok|now apply Hfl|].
      assert (depth x <= depth_seq l)%nat.
      { clear -Hx. induction l as [|y l IHl]; [destruct Hx|].
        cbn [depth_seq fold_right]. destruct Hx as [->|Hx]; [lia|]. specialize (IHl Hx).
        unfold depth_seq in IHl. lia. }
      lia.
    + pose proof (encode_seq_len l). unfold len in *. lia.
Qed.

(* ---- soundness of the decoder ------------------------------------------------------------ *)
Lemma pow256_le a b : a <= b -> 256 ^ a <= 256 ^ b.
Proof. intros H. apply N.pow_le_mono_r; lia. Qed.

Lemma long_size_lt ll t n t' : bytes_ok t = true -> long_size ll t = Some (n, t') -> ll <= 8 ->
  n < 2 ^ 64.
Proof.
  intros Hok H Hll. apply long_size_sound in H as (_ & Hl & _); [|assumption].
  pose proof (of_be_lt (to_be n) (to_be_ok n)) as Hlt. rewrite of_be_to_be in Hlt.
  pose proof (pow256_le (len (to_be n)) 8 ltac:(lia)). change (256 ^ 8) with (2 ^ 64) in *. lia.
Qed.

Lemma enc_str_long c : 56 <= len c -> enc_str c = enc_head 128 (len c) ++ c.
Proof.
  intros H. destruct c as [|x [|y c']]; try reflexivity. rewrite len_cons, len_nil in H. lia.
Qed.

Lemma split_item_sound b k c r : bytes_ok b = true -> split_item b = Some (k, c, r) ->
  b = (if k then enc_head 192 (len c) ++ c else enc_str c) ++ r /\ len c < 2 ^ 64 /\ bytes_ok c = true /\ bytes_ok r = true.
Proof.
  intros Hok. destruct b as [|h t]; [discriminate|].
  rewrite bytes_ok_cons in Hok. apply andb_prop in Hok as [Hh Ht].
  unfold split_item. rewrite Hh. cbn [negb]. unfold byte_ok in Hh.
  destruct (h <? 128) eqn:E1.
  { intros H; injection H as <- <- <-. cbn [enc_str]. rewrite E1. cbn [app].
    repeat split; try assumption. cbn. unfold byte_ok. lia. }
  destruct (h <? 184) eqn:E2.
  { destruct (take (h - 128) t) as [[c0 r0]|] eqn:Et; [|discriminate].
    apply take_sound in Et as [-> Hl]. rewrite bytes_ok_app in Ht. apply andb_prop in Ht as [Hc Hr].
    assert (Hgen : Some (false, c0, r0) = Some (k, c, r) ->
                   str_single_low c0 = false ->
                   (h :: c0 ++ r0) = (if k then enc_head 192 (len c) ++ c else enc_str c) ++ r /\ len c < 2 ^ 64 /\ bytes_ok c = true /\ bytes_ok r = true).
    { intros H Hs; injection H as <- <- <-.
      assert (E : enc_str c0 = enc_head 128 (len c0) ++ c0).
      { destruct c0 as [|x [|y c']]; try reflexivity. cbn in Hs. cbn [enc_str]. now rewrite Hs. }
      rewrite E, enc_head_short by lia. cbn [app]. replace (128 + len c0) with h by lia.
      repeat split; try assumption; lia. }
    destruct c0 as [|x [|y c']]; try (intros H; apply Hgen; [assumption|reflexivity]).
    destruct (x <? 128) eqn:Ex; [discriminate|]. intros H; apply Hgen; [assumption|cbn; assumption]. }
  destruct (h <? 192) eqn:E3.
  { destruct (long_size (h - 183) t) as [[n t']|] eqn:El; [|discriminate].
    destruct (take n t') as [[c0 r0]|] eqn:Et; [|discriminate].
    intros H; injection H as <- <- <-.
    pose proof (long_size_lt _ _ _ _ Ht El ltac:(lia)) as Hn.
    apply long_size_sound in El as (-> & Hl & Hn56); [|assumption].
    apply take_sound in Et as [-> Hlc].
    rewrite !bytes_ok_app in Ht. apply andb_prop in Ht as [_ Ht]. apply andb_prop in Ht as [Hc Hr].
    rewrite enc_str_long by lia. rewrite enc_head_long by lia. rewrite Hlc. cbn [app].
    replace (128 + 55 + len (to_be n)) with h by lia. rewrite <- !app_assoc.
    repeat split; try assumption; lia. }
  destruct (h <? 248) eqn:E4.
  { destruct (take (h - 192) t) as [[c0 r0]|] eqn:Et; [|discriminate].
    intros H; injection H as <- <- <-.
    apply take_sound in Et as [-> Hl]. rewrite bytes_ok_app in Ht. apply andb_prop in Ht as [Hc Hr].
    rewrite enc_head_short by lia. cbn [app]. replace (192 + len c0) with h by lia.
    repeat split; try assumption; lia. }
  { destruct (long_size (h - 247) t) as [[n t']|] eqn:El; [|discriminate].
    destruct (take n t') as [[c0 r0]|] eqn:Et; [|discriminate].
    intros H; injection H as <- <- <-.
    pose proof (long_size_lt _ _ _ _ Ht El ltac:(lia)) as Hn.
    apply long_size_sound in El as (-> & Hl & Hn56); [|assumption].
    apply take_sound in Et as [-> Hlc].
    rewrite !bytes_ok_app in Ht. apply andb_prop in Ht as [_ Ht]. apply andb_prop in Ht as [Hc Hr].
    rewrite enc_head_long by lia. rewrite Hlc. cbn [app].
    replace (192 + 55 + len (to_be n)) with h by lia. rewrite <- !app_assoc.
    repeat split; try assumption; lia. }
Qed.

Definition dec_spec (d : bytes -> option (item * bytes)) : Prop :=
  forall b i r, bytes_ok b = true -> d b = Some (i, r) ->
    b = encode i ++ r /\ bytes_ok r = true /\ item_ok i = true /\ fits i = true.

Lemma dec_seq_sound d : dec_spec d ->
  forall n b l, bytes_ok b = true -> dec_seq d n b = Some l ->
    b = encode_seq l /\ forallb item_ok l = true /\ forallb fits l = true.
Proof.
  intros Hd. induction n as [|n IH]; intros b l Hok H.
  - destruct b; [|discriminate]. injection H as <-. repeat split.
  - destruct b as [|h t]; [injection H as <-; repeat split|].
    cbn [dec_seq] in H.
    destruct (d (h :: t)) as [[i r]|] eqn:Ed; [|discriminate].
    destruct (dec_seq d n r) as [l'|] eqn:Es; [|discriminate].
    injection H as <-.
    apply Hd in Ed as (Eb & Hr & Hi & Hf); [|assumption].
    apply IH in Es as (Er & Hil & Hfl); [|assumption].
    rewrite Eb, Er, encode_seq_cons. cbn [forallb]. rewrite Hi, Hf, Hil, Hfl. repeat split.
Qed.

Lemma dec_sound : forall f, dec_spec (dec f).
Proof.
  induction f as [|f IH]; intros b i r Hok H; [discriminate|].
  cbn [dec] in H.
  destruct (split_item b) as [[[k c] r0]|] eqn:Es; [|discriminate].
  apply split_item_sound in Es as (Eb & Hlen & Hc & Hr); [|assumption].
  destruct k.
  - destruct (dec_seq (dec f) (length c) c) as [l|] eqn:Eq; [|discriminate].
    injection H as <- <-.
    apply (dec_seq_sound _ IH) in Eq as (Ec & Hil & Hfl); [|assumption].
    rewrite encode_lst, item_ok_lst, fits_lst. rewrite <- Ec, Hil, Hfl.
    repeat split; try assumption. cbn [andb]. lia.
  - injection H as <- <-. cbn [encode item_ok fits]. repeat split; try assumption. lia.
Qed.

(* ---- the item-level theorems --------------------------------------------------------------- *)
Lemma enc_head_ok base n : base + 63 < 256 -> n < 2 ^ 64 -> bytes_ok (enc_head base n) = true.
Proof.
  intros Hb Hn. unfold enc_head. destruct (n <? 56) eqn:E.
  - cbn. unfold byte_ok. lia.
  - rewrite bytes_ok_cons, to_be_ok. pose proof (to_be_len_range n ltac:(lia) Hn).
    unfold byte_ok. lia.
Qed.

Lemma encode_ok : forall i, item_ok i = true -> fits i = true -> bytes_ok (encode i) = true.
Proof.
  induction i as [b|l IH] using item_ind'; intros Hok Hfit.
  - cbn [encode item_ok fits] in *.
    destruct b as [|x [|y b']]; cbn [enc_str].
    + reflexivity.
    + destruct (x <? 128); [assumption|]. rewrite bytes_ok_app, Hok. reflexivity.
    + rewrite bytes_ok_app, Hok, enc_head_ok; [reflexivity|lia|lia].
  - rewrite encode_lst, bytes_ok_app. rewrite fits_lst in Hfit. apply andb_prop in Hfit as [Hlen Hfl].
    rewrite item_ok_lst in Hok. rewrite enc_head_ok by lia. cbn [andb].
    clear Hlen. induction l as [|x l IHl]; [reflexivity|].
    rewrite encode_seq_cons, bytes_ok_app. cbn [forallb] in *.
    apply andb_prop in Hok as [Hx Hl]. apply andb_prop in Hfl as [Fx Fl].
    inversion IH as [|? ? Px Pl]; subst. rewrite Px, IHl by assumption. reflexivity.
Qed.

Lemma depth_le_len : forall i, (depth i < S (length (encode i)))%nat.
Proof.
  induction i as [b|l IH] using item_ind'; [cbn [depth]; lia|].
  rewrite depth_lst, encode_lst, app_length.
  pose proof (enc_head_nonempty 192 (len (encode_seq l))) as Hne.
  assert (1 <= length (enc_head 192 (len (encode_seq l))))%nat.
  { destruct (enc_head 192 (len (encode_seq l))); [congruence|cbn; lia]. }
  assert (depth_seq l <= length (encode_seq l))%nat.
  { clear -IH. induction l as [|x l IHl]; [cbn; lia|].
    inversion IH as [|? ? Px Pl]; subst. specialize (IHl Pl).
    cbn [depth_seq fold_right]. rewrite encode_seq_cons, app_length.
    unfold depth_seq in IHl. lia. }
  lia.
Qed.

Theorem decode_encode i : item_ok i = true -> fits i = true -> decode (encode i) = Some i.
Proof.
  intros Hok Hfit. unfold decode. rewrite encode_ok by assumption. cbn [negb].
  rewrite <- (app_nil_r (encode i)) at 2.
  rewrite dec_complete; [reflexivity|assumption|assumption|apply depth_le_len].
Qed.

Theorem encode_decode b i : decode b = Some i ->
  encode i = b /\ item_ok i = true /\ fits i = true.
Proof.
  unfold decode. destruct (bytes_ok b) eqn:Hok; [|discriminate]. cbn [negb].
  destruct (dec (S (length b)) b) as [[i' r]|] eqn:Ed; [|discriminate].
  destruct r; [|discriminate]. intros H; injection H as <-.
  apply dec_sound in Ed as (Eb & _ & Hi & Hf); [|assumption].
  rewrite app_nil_r in Eb. auto.
Qed.

Theorem encode_injective i j : item_ok i = true -> fits i = true -> item_ok j = true -> fits j = true ->
  encode i = encode j -> i = j.
Proof.
  intros Hi Fi Hj Fj E. pose proof (decode_encode i Hi Fi) as Di.
  rewrite E, (decode_encode j Hj Fj) in Di. now injection Di.
Qed.

(* no encoding is a proper prefix of another: a stream of values splits uniquely *)
Theorem encode_prefix_free i j r s : item_ok i = true -> fits i = true -> item_ok j = true -> fits j = true ->
  encode i ++ r = encode j ++ s -> i = j /\ r = s.
Proof.
  intros Hi Fi Hj Fj E.
  pose proof (dec_complete i Hi Fi (S (depth i + depth j)) r ltac:(lia)) as Di.
  pose proof (dec_complete j Hj Fj (S (depth i + depth j)) s ltac:(lia)) as Dj.
  rewrite E, Dj in Di. injection Di as -> ->. auto.
Qed.

(* size of what the decoder builds is linear in the input *)
Definition size_seq (l : list item) : N := fold_right (fun x a => item_size x + a) 0 l.
Lemma item_size_lst l : item_size (Lst l) = 1 + size_seq l.
Proof.
  assert (E : (fix go (l : list item) : N :=
                 match l with [] => 0 | x :: r => item_size x + go r end) l = size_seq l).
  { induction l as [|x l IH]; [reflexivity|]. cbn [size_seq fold_right]. now rewrite IH. }
  cbn [item_size]. now rewrite E.
Qed.

Lemma enc_head_len_pos base n : 1 <= len (enc_head base n).
Proof.
  pose proof (enc_head_nonempty base n). destruct (enc_head base n); [congruence|rewrite len_cons; lia].
Qed.

Lemma item_size_le_enc : forall i, item_size i <= 2 * len (encode i).
Proof.
  induction i as [b|l IH] using item_ind'.
  - cbn [item_size encode]. destruct b as [|x [|y b']]; cbn [enc_str].
    + cbn. lia.
    + destruct (x <? 128); [cbn; lia|]. rewrite len_app. pose proof (enc_head_len_pos 128 1). lia.
    + rewrite len_app. pose proof (enc_head_len_pos 128 (len (x :: y :: b'))). lia.
  - rewrite item_size_lst, encode_lst, len_app.
    pose proof (enc_head_len_pos 192 (len (encode_seq l))).
    assert (size_seq l <= 2 * len (encode_seq l)).
    { clear -IH. induction l as [|x l IHl]; [cbn; lia|].
      inversion IH as [|? ? Px Pl]; subst. specialize (IHl Pl).
      cbn [size_seq fold_right]. rewrite encode_seq_cons, len_app. unfold size_seq in IHl. lia. }
    lia.
Qed.

Theorem decode_size_bound b i : decode b = Some i -> item_size i <= 2 * len b.
Proof. intros H. apply encode_decode in H as [<- _]. apply item_size_le_enc. Qed.
