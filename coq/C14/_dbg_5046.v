(* C14 - proofs about the generic RLP item codec (Rlp.v). *)
From Coq Require Import ZArith Lia ZifyBool ZifyN ZifyNat.
From VF.C14 Require Import Rlp.
Local Open Scope N_scope.

Ltac Zify.zify_post_hook ::= Z.div_mod_to_equations.

(* ---- small facts ----------------------------------------------------------- *)
Lemma len_app {A} (a b : list A) : len (a ++ b) = len a + len b.
Proof. unfold len. rewrite app_length. lia. Qed.
Lemma len_cons {A} (x : A) l : len (x :: l) = 1 + len l.
Proof. unfold len. cbn [length]. lia. Qed.
Lemma len_nil {A} : len (@nil A) = 0.
Proof. reflexivity. Qed.
Lemma len_rev {A} (l : list A) : len (rev l) = len l.
Proof. unfold len. now rewrite rev_length. Qed.
Lemma len_zero_nil {A} (l : list A) : len l = 0 -> l = [].
Proof. destruct l; [reflexivity|]. rewrite len_cons. lia. Qed.

Lemma bytes_ok_app a b : bytes_ok (a ++ b) = bytes_ok a && bytes_ok b.
Proof. unfold bytes_ok. apply forallb_app. Qed.
Lemma bytes_ok_cons x l : bytes_ok (x :: l) = byte_ok x && bytes_ok l.
Proof. reflexivity. Qed.
Lemma bytes_ok_rev l : bytes_ok (rev l) = bytes_ok l.
Proof.
  induction l as [|x l IH]; [reflexivity|]. cbn [rev]. rewrite bytes_ok_app, IH.
  cbn [bytes_ok forallb]. rewrite andb_true_r. apply andb_comm.
Qed.

(* ---- big-endian integers -------------------------------------------------------- *)
Fixpoint of_le (l : bytes) : N :=
  match l with [] => 0 | b :: r => b + 256 * of_le r end.

Lemma of_be_acc_app a l b : of_be_acc a (l ++ [b]) = of_be_acc a l * 256 + b.
Proof. revert a. induction l as [|x l IH]; intros a; cbn [of_be_acc app]; [reflexivity|apply IH]. Qed.

Lemma of_be_rev l : of_be (rev l) = of_le l.
Proof.
  unfold of_be. induction l as [|x l IH]; [reflexivity|].
  cbn [rev of_le]. rewrite of_be_acc_app, IH. lia.
Qed.

Lemma to_le_zero f : to_le_fuel f 0 = [].
Proof. destruct f; reflexivity. Qed.

Lemma of_le_to_le f : forall n, n < 2 ^ N.of_nat f -> of_le (to_le_fuel f n) = n.
Proof.
  induction f as [|f IH]; intros n Hn.
  - cbn in Hn. cbn. lia.
  - cbn [to_le_fuel]. destruct (n =? 0) eqn:E; [cbn; lia|].
    cbn [of_le]. rewrite IH.
    + lia.
    + rewrite Nat2N.inj_succ, N.pow_succ_r' in Hn. lia.
Qed.

Lemma to_le_ok f : forall n, bytes_ok (to_le_fuel f n) = true.
Proof.
  induction f as [|f IH]; intros n; [reflexivity|].
  cbn [to_le_fuel]. destruct (n =? 0); [reflexivity|].
  rewrite bytes_ok_cons, IH. unfold byte_ok. lia.
Qed.

(* canonical little-endian digit lists: bytes, most significant digit non-zero *)
Fixpoint le_canon (l : bytes) : bool :=
  match l with
  | [] => true
  | [b] => byte_ok b && negb (b =? 0)
  | b :: r => byte_ok b && le_canon r
  end.

Lemma le_canon_cons b r : le_canon (b :: r) = true ->
  b < 256 /\ le_canon r = true /\ (r = [] -> b <> 0).
Proof.
  cbn [le_canon]. destruct r as [|c r].
  - unfold byte_ok. intros H. repeat split; try lia. 
  - intros H. apply andb_prop in H as [H1 H2]. unfold byte_ok in H1.
    repeat split; try lia; try assumption. discriminate.
Qed.

Lemma of_le_canon_pos l : le_canon l = true -> l <> [] -> of_le l <> 0.
Proof.
  induction l as [|b r IH]; intros Hc Hne; [congruence|].
  apply le_canon_cons in Hc as (Hb & Hr & Hz). cbn [of_le].
  destruct r as [|c r'].
  - specialize (Hz eq_refl). cbn. lia.
  - assert (of_le (c :: r') <> 0) by (apply IH; [assumption|discriminate]). lia.
Qed.

Lemma to_le_of_le l : le_canon l = true ->
  forall f, of_le l < 2 ^ N.of_nat f -> to_le_fuel f (of_le l) = l.
Proof.
  induction l as [|b r IH]; intros Hc f Hf.
  - cbn. apply to_le_zero.
  - pose proof (of_le_canon_pos _ Hc ltac:(discriminate)) as Hpos.
    apply le_canon_cons in Hc as (Hb & Hr & Hz).
Show.
