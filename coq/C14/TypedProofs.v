(* C14 - proofs about the typed layer (Typed.v), generic over the custom coders. *)
From Coq Require Import ZArith Lia ZifyBool ZifyN ZifyNat.
From VF.C14 Require Import Rlp RlpProofs Typed.
Local Open Scope N_scope.

(* ---- induction principles ---------------------------------------------------- *)
Section SchemaInd.
  Variable P : schema -> Prop.
  Hypothesis Huint : forall b, P (SUint b).
  Hypothesis Hbig : P SBig.
  Hypothesis Hbool : P SBool.
  Hypothesis Hbytes : P SBytes.
  Hypothesis Harr : forall n, P (SArr n).
  Hypothesis Hlist : forall e, P e -> P (SList e).
  Hypothesis Hstruct : forall fs, Forall P fs -> P (SStruct fs).
  Hypothesis Hptr : forall e, P e -> P (SPtr e).
  Hypothesis Hopt : forall e, P e -> P (SOpt e).
  Hypothesis Hcustom : forall id w, P w -> P (SCustom id w).
  Fixpoint schema_ind' (s : schema) : P s :=
    match s with
    | SUint b => Huint b
    | SBig => Hbig
    | SBool => Hbool
    | SBytes => Hbytes
    | SArr n => Harr n
    | SList e => Hlist e (schema_ind' e)
    | SStruct fs => Hstruct fs ((fix go (fs : list schema) : Forall P fs :=
                                   match fs with
                                   | [] => Forall_nil P
                                   | f :: r => Forall_cons f (schema_ind' f) (go r)
                                   end) fs)
    | SPtr e => Hptr e (schema_ind' e)
    | SOpt e => Hopt e (schema_ind' e)
    | SCustom id w => Hcustom id w (schema_ind' w)
    end.
End SchemaInd.

Section ValueInd.
  Variable P : value -> Prop.
  Hypothesis Hnum : forall n, P (VNum n).
  Hypothesis Hbool : forall b, P (VBool b).
  Hypothesis Hbytes : forall b, P (VBytes b).
  Hypothesis Hlist : forall l, Forall P l -> P (VList l).
  Hypothesis Hnil : P VNil.
  Fixpoint value_ind' (v : value) : P v :=
    match v with
    | VNum n => Hnum n
    | VBool b => Hbool b
    | VBytes b => Hbytes b
    | VList l => Hlist l ((fix go (l : list value) : Forall P l :=
                             match l with
                             | [] => Forall_nil P
                             | x :: r => Forall_cons x (value_ind' x) (go r)
                             end) l)
    | VNil => Hnil
    end.
End ValueInd.

(* ---- boolean equalities -------------------------------------------------------- *)
Lemma bytes_eqb_eq a : forall b, bytes_eqb a b = true <-> a = b.
Proof.
  induction a as [|x a IH]; intros [|y b]; cbn [bytes_eqb].
  - split; reflexivity.
  - split; [discriminate|congruence].
  - split; [discriminate|congruence].
  - rewrite andb_true_iff, IH, N.eqb_eq. split; [intros [-> ->]; reflexivity|intros H; injection H; auto].
Qed.
Lemma bytes_eqb_refl a : bytes_eqb a a = true.
Proof. now apply bytes_eqb_eq. Qed.

Fixpoint values_eqb (x y : list value) : bool :=
  match x, y with
  | [], [] => true
  | i :: x', j :: y' => value_eqb i j && values_eqb x' y'
  | _, _ => false
  end.
Lemma value_eqb_list x y : value_eqb (VList x) (VList y) = values_eqb x y.
Proof.
  cbn [value_eqb]. revert y. induction x as [|i x IH]; intros [|j y]; try reflexivity.
  all: cbn [values_eqb]; now rewrite <- IH.
Qed.

Lemma value_eqb_eq : forall a b, value_eqb a b = true -> a = b.
Proof.
  induction a as [n|t|x|l IH|] using value_ind'; intros [m|u|y|k|]; try discriminate.
  - cbn. intros H. apply N.eqb_eq in H. congruence.
  - cbn. intros H. apply Bool.eqb_prop in H. congruence.
  - cbn. intros H. apply bytes_eqb_eq in H. congruence.
  - rewrite value_eqb_list. intros H. f_equal. revert k H.
    induction l as [|i l IHl]; intros [|j k]; cbn [values_eqb]; try discriminate; [reflexivity|].
    intros H. apply andb_prop in H as [H1 H2]. inversion IH as [|? ? Pi Pl]; subst.
    f_equal; [now apply Pi|now apply IHl].
  - reflexivity.
Qed.

Lemma value_eqb_refl : forall a, value_eqb a a = true.
Proof.
  induction a as [n|t|x|l IH|] using value_ind'; cbn [value_eqb].
  - apply N.eqb_refl.
  - apply Bool.eqb_reflx.
  - apply bytes_eqb_refl.
  - change (value_eqb (VList l) (VList l) = true). rewrite value_eqb_list.
    induction l as [|i l IHl]; [reflexivity|]. inversion IH as [|? ? Pi Pl]; subst.
    cbn [values_eqb]. now rewrite Pi, IHl.
  - reflexivity.
Qed.

Fixpoint items_eqb (x y : list item) : bool :=
  match x, y with
  | [], [] => true
  | i :: x', j :: y' => item_eqb i j && items_eqb x' y'
  | _, _ => false
  end.
Lemma item_eqb_list x y : item_eqb (Lst x) (Lst y) = items_eqb x y.
Proof.
  cbn [item_eqb]. revert y. induction x as [|i x IH]; intros [|j y]; try reflexivity.
  all: cbn [items_eqb]; now rewrite <- IH.
Qed.
Lemma item_eqb_eq : forall a b, item_eqb a b = true -> a = b.
Proof.
  induction a as [x|l IH] using item_ind'; intros [y|k]; try discriminate.
  - cbn. intros H. apply bytes_eqb_eq in H. congruence.
  - rewrite item_eqb_list. intros H. f_equal. revert k H.
    induction l as [|i l IHl]; intros [|j k]; cbn [items_eqb]; try discriminate; [reflexivity|].
    intros H. apply andb_prop in H as [H1 H2]. inversion IH as [|? ? Pi Pl]; subst.
    f_equal; [now apply Pi|now apply IHl].
Qed.

(* ---- integers --------------------------------------------------------------------- *)
Lemma bits_cases bits : uint_bits_ok bits = true -> bits = 8 \/ bits = 16 \/ bits = 32 \/ bits = 64.
Proof. unfold uint_bits_ok. lia. Qed.

Lemma bits_pow bits : uint_bits_ok bits = true -> 256 ^ (bits / 8) = 2 ^ bits.
Proof. intros H. apply bits_cases in H as [-> | [-> | [-> | ->]]]; reflexivity. Qed.

Lemma dec_min b : bytes_ok b = true ->
  match b with [] => true | b0 :: _ => negb (b0 =? 0) end = true -> to_be (of_be b) = b.
Proof. intros H1 H2. apply to_be_of_be. unfold be_min. now rewrite H1, H2. Qed.

Lemma dec_uint_to_be bits n : uint_bits_ok bits = true -> n < 2 ^ bits ->
  dec_uint bits (to_be n) = Some n.
Proof.
  intros Hb Hn. unfold dec_uint.
  assert (len (to_be n) <= bits / 8) by (apply to_be_len; now rewrite bits_pow).
  destruct (bits / 8 <? len (to_be n)) eqn:E; [lia|].
  pose proof (to_be_hd n) as Hh. pose proof (of_be_to_be n) as Ho.
  destruct (to_be n) as [|b0 r]; [now subst|].
  destruct (b0 =? 0) eqn:E0; [lia|]. now rewrite Ho.
Qed.

Lemma dec_uint_sound bits b n : uint_bits_ok bits = true -> bytes_ok b = true ->
  dec_uint bits b = Some n -> to_be n = b /\ n < 2 ^ bits.
Proof.
  intros Hb Hok. unfold dec_uint. destruct (bits / 8 <? len b) eqn:E; [discriminate|].
  pose proof (of_be_lt b Hok) as Hlt.
  assert (Hpw : 256 ^ len b <= 2 ^ bits).
  { rewrite <- bits_pow by assumption. apply pow256_le. lia. }
  destruct b as [|b0 r].
  - intros H; injection H as <-. split; [reflexivity|]. apply N.neq_0_lt_0, N.pow_nonzero. lia.
  - destruct (b0 =? 0) eqn:E0; [discriminate|]. intros H; injection H as <-.
    split; [|lia]. apply dec_min; [assumption|now rewrite E0].
Qed.

Lemma dec_big_to_be n : dec_big (to_be n) = Some n.
Proof.
  unfold dec_big. pose proof (to_be_hd n) as Hh. pose proof (of_be_to_be n) as Ho.
  destruct (to_be n) as [|b0 r]; [now subst|].
  destruct (b0 =? 0) eqn:E0; [lia|]. now rewrite Ho.
Qed.

Lemma dec_big_sound b n : bytes_ok b = true -> dec_big b = Some n -> to_be n = b.
Proof.
  intros Hok. unfold dec_big. destruct b as [|b0 r].
  - intros H; injection H as <-. reflexivity.
  - destruct (b0 =? 0) eqn:E0; [discriminate|]. intros H; injection H as <-.
    apply dec_min; [assumption|now rewrite E0].
Qed.

(* ---- map_opt ------------------------------------------------------------------------ *)
Lemma map_opt_cons {A B} (f : A -> option B) x l :
  map_opt f (x :: l) = match f x with
                       | Some y => match map_opt f l with Some ys => Some (y :: ys) | None => None end
                       | None => None
                       end.
Proof. reflexivity. Qed.

Section Generic.
Variable cenc : N -> value -> option value.
Variable cdec : N -> value -> option value.
Notation of_item := (of_item cdec).
Notation to_item := (to_item cenc).
Notation good := (good cenc cdec).
Notation lenient := (lenient cenc cdec).

(* ---- struct fields, unfolded --------------------------------------------------------- *)
Fixpoint of_fields (fs : list schema) (l : list item) : option (list value) :=
  match fs, l with
  | [], [] => Some []
  | f :: fs', x :: l' =>
    match of_item f x with
    | Some v => match of_fields fs' l' with Some vs => Some (v :: vs) | None => None end
    | None => None
    end
  | _, _ => None
  end.
Fixpoint to_fields (fs : list schema) (l : list value) : option (list item) :=
  match fs, l with
  | [], [] => Some []
  | f :: fs', x :: l' =>
    match to_item f x with
    | Some i => match to_fields fs' l' with Some is => Some (i :: is) | None => None end
    | None => None
    end
  | _, _ => None
  end.
Fixpoint good_fields (fs : list schema) (l : list value) : bool :=
  match fs, l with
  | f :: fs', x :: l' => good f x && good_fields fs' l'
  | _, _ => true
  end.
Fixpoint lenient_fields (fs : list schema) (l : list item) : bool :=
  match fs, l with
  | f :: fs', x :: l' => lenient f x || lenient_fields fs' l'
  | _, _ => false
  end.
Fixpoint wf_fields (fs : list schema) : bool :=
  match fs with [] => true | f :: r => wf_schema f && wf_fields r end.

Lemma of_item_struct fs l : of_item (SStruct fs) (Lst l) = option_map VList (of_fields fs l).
Proof.
  reflexivity.
Qed.
Lemma to_item_struct fs l : to_item (SStruct fs) (VList l) = option_map Lst (to_fields fs l).
Proof.
  reflexivity.
Qed.
Lemma good_struct fs l : good (SStruct fs) (VList l) = good_fields fs l.
Proof.
  reflexivity.
Qed.
Lemma lenient_struct fs l : lenient (SStruct fs) (Lst l) = lenient_fields fs l.
Proof.
  reflexivity.
Qed.
Lemma wf_struct fs : wf_schema (SStruct fs) = wf_fields fs.
Proof.
  reflexivity.
Qed.

(* ---- decode (encode v) = v --------------------------------------------------------------- *)
Lemma plain_not_nil e it v : plain_top e = true -> of_item e it = Some v -> v <> VNil.
Proof.
  intros Hp H Hv. subst v. destruct e; try discriminate; cbn [Typed.of_item] in H; destruct it as [b|l]; try discriminate.
  - destruct (dec_uint bits b); discriminate.
  - destruct (dec_big b); discriminate.
  - destruct (dec_uint 8 b) as [[|[| | ]]|]; discriminate.
  - destruct (len b =? n); discriminate.
  - destruct (map_opt (of_item e) l); discriminate.
  - rewrite <- (of_item_struct fs l) in H || idtac. 
    change (of_item (SStruct fs) (Lst l) = Some VNil) in H. rewrite of_item_struct in H.
    destruct (of_fields fs l); discriminate.
Qed.

Theorem of_to : forall s v it, wf_schema s = true -> to_item s v = Some it -> good s v = true ->
  of_item s it = Some v.
Proof.
  induction s as [bits| | | |n|e IH|fs IH|e IH|e IH|id w IH] using schema_ind'; intros v it Hwf Hto Hg.
  - (* uint *) cbn [Typed.to_item] in Hto. destruct v as [n| | | |]; try discriminate.
    destruct (n <? 2 ^ bits) eqn:E; [|discriminate]. injection Hto as <-.
    cbn [Typed.of_item]. cbn [wf_schema] in Hwf. rewrite dec_uint_to_be by (assumption || lia). reflexivity.
  - cbn [Typed.to_item] in Hto. destruct v as [n| | | |]; try discriminate. injection Hto as <-.
    cbn [Typed.of_item]. now rewrite dec_big_to_be.
  - cbn [Typed.to_item] in Hto. destruct v as [|[|]| | |]; try discriminate; injection Hto as <-; reflexivity.
  - cbn [Typed.to_item] in Hto. destruct v as [| |b| |]; try discriminate. injection Hto as <-. reflexivity.
  - cbn [Typed.to_item] in Hto. destruct v as [| |b| |]; try discriminate.
    destruct (len b =? n) eqn:E; [|discriminate]. injection Hto as <-. cbn [Typed.of_item]. now rewrite E.
  - (* list *) cbn [Typed.to_item] in Hto. destruct v as [| | |l|]; try discriminate.
    destruct (map_opt (to_item e) l) as [is|] eqn:Em; [|discriminate]. injection Hto as <-.
    cbn [Typed.of_item]. cbn [wf_schema] in Hwf. cbn [Typed.good] in Hg.
    assert (map_opt (of_item e) is = Some l) as ->; [|reflexivity].
    revert is Em Hg. induction l as [|x l IHl]; intros is Em Hg.
    + injection Em as <-. reflexivity.
    + rewrite map_opt_cons in Em. destruct (to_item e x) as [i|] eqn:Ex; [|discriminate].
      destruct (map_opt (to_item e) l) as [is'|] eqn:El; [|discriminate]. injection Em as <-.
      cbn [forallb] in Hg. apply andb_prop in Hg as [Hx Hl].
      rewrite map_opt_cons, (IH _ _ Hwf Ex Hx), (IHl _ eq_refl Hl). reflexivity.
  - (* struct *) destruct v as [| | |l|]; try discriminate.
    rewrite to_item_struct in Hto. destruct (to_fields fs l) as [is|] eqn:Em; [|discriminate].
    injection Hto as <-. rewrite of_item_struct. rewrite wf_struct in Hwf. rewrite good_struct in Hg.
    assert (of_fields fs is = Some l) as ->; [|reflexivity].
    revert l is Em Hg Hwf. induction fs as [|f fs IHf]; intros [|x l] is Em Hg Hwf; try discriminate.
    + injection Em as <-. reflexivity.
    + cbn [to_fields] in Em. destruct (to_item f x) as [i|] eqn:Ex; [|discriminate].
      destruct (to_fields fs l) as [is'|] eqn:El; [|discriminate]. injection Em as <-.
      cbn [good_fields] in Hg. apply andb_prop in Hg as [Hx Hl].
      cbn [wf_fields] in Hwf. apply andb_prop in Hwf as [Wf Wr].
      inversion IH as [|? ? Pf Pr]; subst.
      cbn [of_fields]. rewrite (Pf _ _ Wf Ex Hx), (IHf Pr _ _ El Hl Wr). reflexivity.
  - (* ptr *) cbn [wf_schema] in Hwf. apply andb_prop in Hwf as [Hp Hwf].
    cbn [Typed.good] in Hg. cbn [Typed.to_item] in Hto. cbn [Typed.of_item].
    destruct v; try discriminate; now apply IH.
  - (* opt *) cbn [wf_schema] in Hwf. apply andb_prop in Hwf as [Hp Hwf].
    cbn [Typed.to_item] in Hto. cbn [Typed.of_item]. cbn [Typed.good] in Hg.
    destruct e as [| | | |n| |fs| | |]; try discriminate.
    + (* *[n]byte *) cbn [opt_elem_ok] in Hp. destruct v as [| |b| |]; try discriminate.
      * cbn [Typed.to_item] in Hto. destruct (len b =? n) eqn:E; [|discriminate]. injection Hto as <-.
        destruct b as [|x b']; [rewrite len_nil in E; lia|].
        cbn [Typed.of_item]. now rewrite E.
      * injection Hto as <-. reflexivity.
    + destruct fs as [|f fs]; [discriminate|]. destruct v as [| | |l|]; try discriminate.
      * pose proof Hto as Hto'. rewrite to_item_struct in Hto'.
        destruct (to_fields (f :: fs) l) as [is|] eqn:Em; [|discriminate]. injection Hto' as <-.
        destruct l as [|x l]; [discriminate|]. cbn [to_fields] in Em.
        destruct (to_item f x); [|discriminate]. destruct (to_fields fs l); [|discriminate].
        injection Em as <-. now apply IH.
      * injection Hto as <-. reflexivity.
  - (* custom *) cbn [Typed.to_item] in Hto. cbn [Typed.good] in Hg. cbn [wf_schema] in Hwf.
    destruct (cenc id v) as [wv|] eqn:Ec; [|discriminate]. cbn [bind] in Hto.
    apply andb_prop in Hg as [Hd Hgw].
    cbn [Typed.of_item]. rewrite (IH _ _ Hwf Hto Hgw). cbn [bind].
    destruct (cdec id wv) as [v'|]; [|discriminate]. cbn in Hd. apply value_eqb_eq in Hd. congruence.
Qed.

(* ---- accept => canonical, outside the lenient places -------------------------------------- *)
Lemma item_ok_forall l : forallb item_ok l = true -> forall x, In x l -> item_ok x = true.
Proof. intros H. now apply forallb_forall. Qed.

Theorem to_of : forall s it v, wf_schema s = true -> item_ok it = true ->
  of_item s it = Some v -> lenient s it = false -> to_item s v = Some it.
Proof.
  induction s as [bits| | | |n|e IH|fs IH|e IH|e IH|id w IH] using schema_ind'; intros it v Hwf Hok Hof Hl.
  - cbn [Typed.of_item] in Hof. destruct it as [b|]; [|discriminate].
    destruct (dec_uint bits b) as [n|] eqn:E; [|discriminate]. injection Hof as <-.
    cbn [wf_schema] in Hwf. apply dec_uint_sound in E as [E1 E2]; [|assumption|assumption].
    cbn [Typed.to_item]. destruct (n <? 2 ^ bits) eqn:E3; [|lia]. now rewrite E1.
  - cbn [Typed.of_item] in Hof. destruct it as [b|]; [|discriminate].
    destruct (dec_big b) as [n|] eqn:E; [|discriminate]. injection Hof as <-.
    apply dec_big_sound in E; [|assumption]. cbn [Typed.to_item]. now rewrite E.
  - cbn [Typed.of_item] in Hof. destruct it as [b|]; [|discriminate].
    destruct (dec_uint 8 b) as [n|] eqn:E; [|discriminate].
    apply dec_uint_sound in E as [E1 E2]; [|reflexivity|assumption].
    destruct n as [|[p|p|]]; try discriminate; injection Hof as <-; cbn [Typed.to_item]; now rewrite <- E1.
  - cbn [Typed.of_item] in Hof. destruct it as [b|]; [|discriminate]. injection Hof as <-. reflexivity.
  - cbn [Typed.of_item] in Hof. destruct it as [b|]; [|discriminate].
    destruct (len b =? n) eqn:E; [|discriminate]. injection Hof as <-. cbn [Typed.to_item]. now rewrite E.
  - (* list *) cbn [Typed.of_item] in Hof. destruct it as [|l]; [discriminate|].
    destruct (map_opt (of_item e) l) as [vs|] eqn:Em; [|discriminate]. injection Hof as <-.
    cbn [Typed.to_item]. cbn [wf_schema] in Hwf. cbn [Typed.lenient] in Hl. rewrite item_ok_lst in Hok.
    assert (map_opt (to_item e) vs = Some l) as ->; [|reflexivity].
    revert vs Em Hl Hok. induction l as [|x l IHl]; intros vs Em Hl Hok.
    + injection Em as <-. reflexivity.
    + rewrite map_opt_cons in Em. destruct (of_item e x) as [y|] eqn:Ex; [|discriminate].
      destruct (map_opt (of_item e) l) as [ys|] eqn:El; [|discriminate]. injection Em as <-.
      cbn [existsb] in Hl. apply orb_false_elim in Hl as [Lx Ll].
      cbn [forallb] in Hok. apply andb_prop in Hok as [Ox Ol].
      rewrite map_opt_cons, (IH _ _ Hwf Ox Ex Lx), (IHl _ eq_refl Ll Ol). reflexivity.
  - (* struct *) destruct it as [|l]; [discriminate|].
    rewrite of_item_struct in Hof. destruct (of_fields fs l) as [vs|] eqn:Em; [|discriminate].
    injection Hof as <-. rewrite to_item_struct. rewrite wf_struct in Hwf. rewrite lenient_struct in Hl.
    rewrite item_ok_lst in Hok.
    assert (to_fields fs vs = Some l) as ->; [|reflexivity].
    revert l vs Em Hl Hok Hwf. induction fs as [|f fs IHf]; intros [|x l] vs Em Hl Hok Hwf; try discriminate.
    + injection Em as <-. reflexivity.
    + cbn [of_fields] in Em. destruct (of_item f x) as [y|] eqn:Ex; [|discriminate].
      destruct (of_fields fs l) as [ys|] eqn:El; [|discriminate]. injection Em as <-.
      cbn [lenient_fields] in Hl. apply orb_false_elim in Hl as [Lx Ll].
      cbn [forallb] in Hok. apply andb_prop in Hok as [Ox Ol].
      cbn [wf_fields] in Hwf. apply andb_prop in Hwf as [Wf Wr].
      inversion IH as [|? ? Pf Pr]; subst.
      cbn [to_fields]. rewrite (Pf _ _ Wf Ox Ex Lx), (IHf Pr _ _ El Ll Ol Wr). reflexivity.
  - (* ptr *) cbn [wf_schema] in Hwf. apply andb_prop in Hwf as [Hp Hwf].
    cbn [Typed.of_item] in Hof. cbn [Typed.lenient] in Hl.
    pose proof (plain_not_nil _ _ _ Hp Hof) as Hn.
    cbn [Typed.to_item]. destruct v; try congruence; now apply IH.
  - (* opt *) cbn [wf_schema] in Hwf. apply andb_prop in Hwf as [Hp Hwf].
    assert (Hpl : plain_top e = true) by (destruct e; try discriminate; reflexivity).
    cbn [Typed.of_item] in Hof. cbn [Typed.lenient] in Hl. cbn [Typed.to_item].
    destruct it as [[|x b]|[|x l]].
    + injection Hof as <-. destruct (item_eqb (nil_item e) (Str [])) eqn:E; [|discriminate].
      apply item_eqb_eq in E. now rewrite E.
    + pose proof (plain_not_nil _ _ _ Hpl Hof) as Hn. destruct v; try congruence; now apply IH.
    + injection Hof as <-. destruct (item_eqb (nil_item e) (Lst [])) eqn:E; [|discriminate].
      apply item_eqb_eq in E. now rewrite E.
    + pose proof (plain_not_nil _ _ _ Hpl Hof) as Hn. destruct v; try congruence; now apply IH.
  - (* custom *) cbn [wf_schema] in Hwf. cbn [Typed.of_item] in Hof. cbn [Typed.lenient] in Hl.
    destruct (of_item w it) as [wv|] eqn:Ew; [|discriminate]. cbn [bind] in Hof.
    apply orb_false_elim in Hl as [Lw Lc]. rewrite Hof in Lc.
    cbn [Typed.to_item]. destruct (cenc id v) as [wv'|]; [|discriminate]. cbn [bind].
    destruct (value_eqb wv wv') eqn:E; [|discriminate]. apply value_eqb_eq in E. subst wv'.
    now apply IH.
Qed.

(* ---- on bytes --------------------------------------------------------------------------------- *)
Notation encode_typed := (encode_typed cenc).
Notation decode_typed := (decode_typed cdec).

(* leniency of a byte string for a type *)
Definition lenient_bytes (s : schema) (b : bytes) : bool :=
  match decode b with Some it => lenient s it | None => false end.

Theorem roundtrip s v it : wf_schema s = true -> good s v = true ->
  to_item s v = Some it -> item_ok it = true -> fits it = true ->
  encode_typed s v = Some (encode it) /\ decode_typed s (encode it) = Some v.
Proof.
  intros Hwf Hg Hto Hok Hfit. unfold Typed.encode_typed, Typed.decode_typed.
  rewrite Hto, decode_encode by assumption. cbn [option_map bind]. split; [reflexivity|].
  now apply of_to.
Qed.

Theorem accept_canonical s b v : wf_schema s = true ->
  decode_typed s b = Some v -> lenient_bytes s b = false -> encode_typed s v = Some b.
Proof.
  intros Hwf. unfold Typed.decode_typed, Typed.encode_typed, lenient_bytes.
  destruct (decode b) as [it|] eqn:Ed; [|discriminate]. cbn [bind].
  apply encode_decode in Ed as (Eb & Hok & Hfit). intros Hof Hl.
  rewrite (to_of _ _ _ Hwf Hok Hof Hl). cbn [option_map]. now rewrite Eb.
Qed.

Theorem typed_injective s v1 v2 i1 i2 : wf_schema s = true ->
  good s v1 = true -> good s v2 = true ->
  to_item s v1 = Some i1 -> to_item s v2 = Some i2 ->
  item_ok i1 = true -> fits i1 = true -> item_ok i2 = true -> fits i2 = true ->
  encode i1 = encode i2 -> v1 = v2.
Proof.
  intros Hwf G1 G2 T1 T2 O1 F1 O2 F2 E.
  assert (i1 = i2) by now apply encode_injective. subst i2.
  pose proof (of_to _ _ _ Hwf T1 G1) as D1. pose proof (of_to _ _ _ Hwf T2 G2) as D2. congruence.
Qed.

End Generic.
