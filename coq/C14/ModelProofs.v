(* C14 - proofs about the hand models of the custom coders (Model.v). *)
From Coq Require Import ZArith Lia ZifyBool ZifyN ZifyNat.
From VF.C14 Require Import Rlp RlpProofs Typed TypedProofs Model.
Local Open Scope N_scope.

(* ---- receipts: setStatus / statusEncoding are inverse on what setStatus accepts ---- *)
Lemma status_roundtrip b ps st : status_dec b = Some (ps, st) -> status_enc ps st = b.
Proof.
  unfold status_dec.
  destruct b as [|x [|y b']].
  - intros H; injection H as <- <-. reflexivity.
  - destruct x as [|[p|p|]]; try (cbn; discriminate).
    intros H; injection H as <- <-. reflexivity.
  - destruct (len (x :: y :: b') =? 32); [|destruct x as [|[p|p|]]; discriminate].
    assert (forall (T : Type) (a c : T), (match x with 1 => a | _ => a end) = a) as E
      by (intros; destruct x as [|[p|p|]]; reflexivity).
    destruct x as [|[p|p|]]; intros H; injection H as <- <-; reflexivity.
Qed.

(* ---- customs that give back exactly what they read ----------------------------------- *)
Definition normalising (id : N) : bool :=
  (id =? id_Validator) || (id =? id_ValidatorIndex) || (id =? id_EvidenceDoubleSign).

Lemma custom_canon id wv v : normalising id = false -> cdec id wv = Some v -> cenc id v = Some wv.
Proof.
  unfold normalising, cdec, cenc, id_Receipt, id_ReceiptForStorage, id_Validator, id_ValidatorIndex,
    id_EvidenceDoubleSign.
  intros Hn.
  destruct ((id =? 3) || (id =? 4)) eqn:E1.
  - destruct wv as [| | |[|[| |b| |] rest]|]; try discriminate.
    destruct (status_dec b) as [[ps st]|] eqn:Es; [|discriminate].
    intros H; injection H as <-. now rewrite (status_roundtrip _ _ _ Es).
  - destruct (id =? 7) eqn:E2; [cbn in Hn; lia|].
    destruct (id =? 11) eqn:E3; [cbn in Hn; lia|].
    destruct (id =? 14) eqn:E4; [cbn in Hn; lia|].
    destruct ((1 <=? id) && (id <=? 16)); [|discriminate].
    intros H; injection H as <-. reflexivity.
Qed.

(* ---- strict schemas are never lenient --------------------------------------------------- *)
Fixpoint strict_fields (fs : list schema) : bool :=
  match fs with [] => true | f :: r => strict f && strict_fields r end.
Lemma strict_struct fs : strict (SStruct fs) = strict_fields fs.
Proof. reflexivity. Qed.

Theorem strict_not_lenient : forall s it, strict s = true -> lenient_t s it = false.
Proof.
  unfold lenient_t.
  induction s as [bits| | | |n|e IH|fs IH|e IH|e IH|id w IH] using schema_ind'; intros it Hs;
    try reflexivity.
  - cbn [lenient]. destruct it as [|l]; [reflexivity|]. cbn [strict] in Hs.
    induction l as [|x l IHl]; [reflexivity|]. cbn [existsb]. now rewrite IH, IHl.
  - destruct it as [|l]; [reflexivity|]. rewrite lenient_struct. rewrite strict_struct in Hs.
    revert l. induction fs as [|f fs IHf]; intros [|x l]; try reflexivity.
    cbn [strict_fields] in Hs. apply andb_prop in Hs as [Sf Sr].
    inversion IH as [|? ? Pf Pr]; subst. cbn [lenient_fields]. now rewrite Pf, IHf.
  - cbn [lenient]. cbn [strict] in Hs. now apply IH.
  - discriminate.
  - cbn [strict] in Hs. apply andb_prop in Hs as [Hn Hw]. cbn [lenient]. rewrite IH by assumption.
    cbn [orb]. destruct (of_item cdec w it) as [wv|]; [|reflexivity].
    destruct (cdec id wv) as [v|] eqn:Ed; [|reflexivity].
    assert (Hn' : normalising id = false) by (unfold normalising; destruct ((id =? id_Validator) || (id =? id_ValidatorIndex) || (id =? id_EvidenceDoubleSign)); [discriminate|reflexivity]).
    rewrite (custom_canon _ _ _ Hn' Ed). now rewrite value_eqb_refl.
Qed.

Theorem accept_canonical_strict s b v : wf_schema s = true -> strict s = true ->
  decode_t s b = Some v -> encode_t s v = Some b.
Proof.
  intros Hwf Hs Hd. apply (accept_canonical cenc cdec); [assumption|assumption|].
  unfold lenient_bytes. destruct (decode b); [|reflexivity]. now apply strict_not_lenient.
Qed.

(* ---- the finding classes, characterised -------------------------------------------------- *)
(* rlp:"nil" pointer to a byte array: exactly the empty LIST is the extra form *)
Lemma opt_arr_lenient n it : 1 <= n -> (lenient_t (SOpt (SArr n)) it = true <-> it = Lst []).
Proof.
  intros Hn. unfold lenient_t. cbn [lenient]. destruct it as [[|x b]|[|x l]]; cbn [nil_item item_eqb bytes_eqb negb];
    split; try discriminate; try reflexivity.
Qed.

(* Validator: the wire byte of Expelled is lost unless it is 0 or 1 *)
Lemma validator_lenient a e v : cdec id_Validator (VList [a; VNum e]) = Some v ->
  (cenc id_Validator v = Some (VList [a; VNum e]) <-> e = 0 \/ e = 1).
Proof.
  cbn. intros H; injection H as <-. cbn. destruct (e =? 1) eqn:E.
  - apply N.eqb_eq in E. subst e. split; [auto|reflexivity].
  - apply N.eqb_neq in E. split.
    + intros H. injection H as H. auto.
    + intros [->|Hc]; [reflexivity|congruence].
Qed.

(* ---- bytes_ltb is a strict order; a strictly sorted address list is kept as is ---------- *)
Lemma bytes_ltb_irrefl a : bytes_ltb a a = false.
Proof. induction a as [|x a IH]; [reflexivity|]. cbn [bytes_ltb]. rewrite N.ltb_irrefl. exact IH. Qed.

Lemma bytes_ltb_asym a : forall b, bytes_ltb a b = true -> bytes_ltb b a = false.
Proof.
  induction a as [|x a IH]; intros [|y b]; cbn [bytes_ltb]; try discriminate; try reflexivity.
  destruct (x <? y) eqn:E1, (y <? x) eqn:E2; try lia; try reflexivity; try discriminate.
  apply IH.
Qed.

Fixpoint keys_below {A} (l : list (bytes * A)) (k : bytes) : bool :=
  match l with [] => true | (k', _) :: r => bytes_ltb k' k && keys_below r k end.

Lemma kv_insert_above {A} (k : bytes) (x : A) l :
  keys_below l k = true -> kv_insert k x l = l ++ [(k, x)].
Proof.
  induction l as [|[k' y] r IH]; [reflexivity|]. cbn [keys_below kv_insert app].
  intros H. apply andb_prop in H as [H1 H2]. rewrite (bytes_ltb_asym _ _ H1), H1. now rewrite IH.
Qed.

Fixpoint sorted_strict (l : list bytes) : bool :=
  match l with
  | [] => true
  | a :: r => match r with [] => true | b :: _ => bytes_ltb a b end && sorted_strict r
  end.

Lemma bytes_ltb_trans a : forall b c, bytes_ltb a b = true -> bytes_ltb b c = true -> bytes_ltb a c = true.
Proof.
  induction a as [|x a IH]; intros [|y b] [|z c]; cbn [bytes_ltb]; try discriminate; try reflexivity.
  destruct (x <? y) eqn:E1, (y <? x) eqn:E2, (y <? z) eqn:E3, (z <? y) eqn:E4,
           (x <? z) eqn:E5, (z <? x) eqn:E6; try lia; try reflexivity; try discriminate.
  apply IH.
Qed.

Lemma kv_of_sorted_aux (l : list bytes) : forall acc : list (bytes * unit),
  sorted_strict l = true ->
  (forall k, In k l -> keys_below acc k = true) ->
  fold_left (fun a kx => kv_insert (fst kx) (snd kx) a) (map (fun b => (b, tt)) l) acc
  = acc ++ map (fun b => (b, tt)) l.
Proof.
  induction l as [|a r IH]; intros acc Hs Hb; [cbn; now rewrite app_nil_r|].
  cbn [map fold_left fst snd]. rewrite kv_insert_above by (apply Hb; now left).
  cbn [sorted_strict] in Hs. apply andb_prop in Hs as [Ha Hr].
  rewrite IH; [now rewrite <- app_assoc| assumption |].
  intros k Hk.
  assert (Hak : bytes_ltb a k = true).
  { clear -Ha Hr Hk. revert a Ha k Hk. induction r as [|b r IHr]; intros a Ha k Hk; [destruct Hk|].
    destruct Hk as [->|Hk]; [assumption|].
    cbn [sorted_strict] in Hr. apply andb_prop in Hr as [Hb Hr'].
    eapply bytes_ltb_trans; [exact Ha|]. now apply IHr. }
  assert (Hacc : keys_below acc k = true).
  { specialize (Hb a (or_introl eq_refl)). clear -Hb Hak.
    induction acc as [|[k' y] acc IHa]; [reflexivity|]. cbn [keys_below] in *.
    apply andb_prop in Hb as [H1 H2]. rewrite (bytes_ltb_trans _ _ _ H1 Hak). now apply IHa. }
  clear -Hacc Hak. induction acc as [|[k' y] acc IHa]; cbn [app keys_below] in *.
  - now rewrite Hak.
  - apply andb_prop in Hacc as [H1 H2]. rewrite H1. now apply IHa.
Qed.

Lemma set_norm_sorted (l : list bytes) : sorted_strict l = true ->
  set_norm (map VBytes l) = Some (map VBytes l).
Proof.
  intros Hs. unfold set_norm.
  assert (E : map_opt as_bytes (map VBytes l) = Some l).
  { induction l as [|a r IH]; [reflexivity|]. cbn [map]. rewrite map_opt_cons. cbn [as_bytes].
    rewrite IH; [reflexivity|]. cbn [sorted_strict] in Hs. now apply andb_prop in Hs as [_ Hs]. }
  rewrite E. unfold kv_of_list. rewrite kv_of_sorted_aux; [|assumption|reflexivity].
  cbn [app]. f_equal. rewrite map_map. reflexivity.
Qed.

(* a strictly increasing address list is the one wire form of its set *)
Lemma validator_index_sorted_canonical (l : list bytes) : sorted_strict l = true ->
  cdec id_ValidatorIndex (VList (map VBytes l)) = Some (VList (map VBytes l)) /\
  cenc id_ValidatorIndex (VList (map VBytes l)) = Some (VList (map VBytes l)).
Proof. intros Hs. cbn. now rewrite (set_norm_sorted _ Hs). Qed.
