(* C14 - proofs about the hand models of the custom coders (Model.v). *)
From Coq Require Import ZArith Lia ZifyBool ZifyN ZifyNat.
From VF.C14 Require Import Rlp RlpProofs Typed TypedProofs Model.
Local Open Scope N_scope.

(* ---- receipts: setStatus / statusEncoding are inverse on what setStatus accepts ---- *)
Lemma status_roundtrip b ps st : status_dec b = Some (ps, st) -> status_enc ps st = b.
Proof.
  unfold status_dec.
  destruct b as [|x [|y b']].
  - intros H; injection H as <- <-. reflexivity.
  - destruct x as [|[p|p|]]; try (cbn; discriminate).
    intros H; injection H as <- <-. reflexivity.
  - destruct (len (x :: y :: b') =? 32); [|destruct x as [|[p|p|]]; discriminate].
    assert (forall (T : Type) (a c : T), (match x with 1 => a | _ => a end) = a) as E
      by (intros; destruct x as [|[p|p|]]; reflexivity).
    destruct x as [|[p|p|]]; intros H; injection H as <- <-; reflexivity.
Qed.

(* ---- bytes_ltb is a strict order; sorted association lists are kept as they are ------- *)
Lemma bytes_ltb_irrefl a : bytes_ltb a a = false.
Proof. induction a as [|x a IH]; [reflexivity|]. cbn [bytes_ltb]. rewrite N.ltb_irrefl. exact IH. Qed.

Lemma bytes_ltb_asym a : forall b, bytes_ltb a b = true -> bytes_ltb b a = false.
Proof.
  induction a as [|x a IH]; intros [|y b]; cbn [bytes_ltb]; try discriminate; try reflexivity.
  destruct (x <? y) eqn:E1, (y <? x) eqn:E2; try lia; try reflexivity; try discriminate.
  apply IH.
Qed.

Lemma bytes_ltb_trans a : forall b c, bytes_ltb a b = true -> bytes_ltb b c = true -> bytes_ltb a c = true.
Proof.
  induction a as [|x a IH]; intros [|y b] [|z c]; cbn [bytes_ltb]; try discriminate; try reflexivity.
  destruct (x <? y) eqn:E1, (y <? x) eqn:E2, (y <? z) eqn:E3, (z <? y) eqn:E4,
           (x <? z) eqn:E5, (z <? x) eqn:E6; try lia; try reflexivity; try discriminate.
  apply IH.
Qed.

Fixpoint keys_below {A} (l : list (bytes * A)) (k : bytes) : bool :=
  match l with [] => true | (k', _) :: r => bytes_ltb k' k && keys_below r k end.

Lemma kv_insert_above {A} (k : bytes) (x : A) l :
  keys_below l k = true -> kv_insert k x l = l ++ [(k, x)].
Proof.
  induction l as [|[k' y] r IH]; [reflexivity|]. cbn [keys_below kv_insert app].
  intros H. apply andb_prop in H as [H1 H2]. rewrite (bytes_ltb_asym _ _ H1), H1. now rewrite IH.
Qed.

Lemma sorted_strict_cons a r : sorted_strict (a :: r) = true ->
  sorted_strict r = true /\ (forall k, In k r -> bytes_ltb a k = true).
Proof.
  revert a. induction r as [|b r IH]; intros a H; [split; [reflexivity|intros k []]|].
  cbn [sorted_strict] in H. apply andb_prop in H as [Hab Hr]. split; [exact Hr|].
  intros k [->|Hk]; [assumption|].
  destruct (IH b Hr) as [_ Hb]. eapply bytes_ltb_trans; [exact Hab|now apply Hb].
Qed.

Lemma kv_of_sorted_aux {A} (l : list (bytes * A)) : forall acc : list (bytes * A),
  sorted_strict (map fst l) = true ->
  (forall k, In k (map fst l) -> keys_below acc k = true) ->
  fold_left (fun a kx => kv_insert (fst kx) (snd kx) a) l acc = acc ++ l.
Proof.
  induction l as [|[a x] r IH]; intros acc Hs Hb; [cbn; now rewrite app_nil_r|].
  cbn [map fst] in Hs, Hb. cbn [fold_left fst snd].
  rewrite kv_insert_above by (apply Hb; now left).
  destruct (sorted_strict_cons _ _ Hs) as [Hr Ha].
  rewrite IH; [now rewrite <- app_assoc| assumption |].
  intros k Hk. specialize (Ha k Hk).
  assert (Hacc : keys_below acc k = true).
  { specialize (Hb a (or_introl eq_refl)). clear -Hb Ha.
    induction acc as [|[k' y] acc IHa]; [reflexivity|]. cbn [keys_below] in *.
    apply andb_prop in Hb as [H1 H2]. rewrite (bytes_ltb_trans _ _ _ H1 Ha). now apply IHa. }
  clear -Hacc Ha. induction acc as [|[k' y] acc IHa]; cbn [app keys_below] in *.
  - now rewrite Ha.
  - apply andb_prop in Hacc as [H1 H2]. rewrite H1. now apply IHa.
Qed.

Lemma kv_of_sorted {A} (l : list (bytes * A)) :
  sorted_strict (map fst l) = true -> kv_of_list l = l.
Proof. intros H. unfold kv_of_list. now rewrite kv_of_sorted_aux. Qed.

(* ---- ValidatorIndex ---------------------------------------------------------------------- *)
Lemma map_opt_as_bytes l bs : map_opt as_bytes l = Some bs -> l = map VBytes bs.
Proof.
  revert bs. induction l as [|v l IH]; intros bs H.
  - injection H as <-. reflexivity.
  - rewrite map_opt_cons in H. destruct v as [| |b| |]; try discriminate. cbn [as_bytes] in H.
    destruct (map_opt as_bytes l) as [bs'|]; [|discriminate]. injection H as <-.
    cbn [map]. f_equal. now apply IH.
Qed.
Lemma map_opt_as_bytes_map bs : map_opt as_bytes (map VBytes bs) = Some bs.
Proof.
  induction bs as [|a r IH]; [reflexivity|]. cbn [map]. rewrite map_opt_cons. cbn [as_bytes].
  now rewrite IH.
Qed.

Lemma set_norm_sorted (bs : list bytes) : sorted_strict bs = true ->
  set_norm (map VBytes bs) = Some (map VBytes bs).
Proof.
  intros Hs. unfold set_norm. rewrite map_opt_as_bytes_map, kv_of_sorted.
  - f_equal. rewrite map_map. reflexivity.
  - rewrite map_map. cbn [fst]. now rewrite map_id.
Qed.

(* what the decoder accepts is exactly what the encoder writes for it *)
Lemma set_dec_canon l l' : set_dec l = Some l' -> l' = l /\ set_norm l = Some l.
Proof.
  unfold set_dec. destruct (map_opt as_bytes l) as [bs|] eqn:E; [|discriminate].
  destruct (sorted_strict bs) eqn:Hs; [|discriminate]. intros H; injection H as <-.
  split; [reflexivity|]. rewrite (map_opt_as_bytes _ _ E). now apply set_norm_sorted.
Qed.

(* an address list that is not strictly increasing is rejected *)
Lemma validator_index_unsorted_rejected bs : sorted_strict bs = false ->
  cdec id_ValidatorIndex (VList (map VBytes bs)) = None.
Proof. intros H. cbn. unfold set_dec. now rewrite map_opt_as_bytes_map, H. Qed.

(* ---- Validator ---------------------------------------------------------------------------- *)
Lemma validator_expelled_rejected a e : 2 <= e -> cdec id_Validator (VList [a; VNum e]) = None.
Proof. intros H. cbn. destruct (1 <? e) eqn:E; [reflexivity|lia]. Qed.

Lemma validator_canon a e v : cdec id_Validator (VList [a; VNum e]) = Some v ->
  cenc id_Validator v = Some (VList [a; VNum e]).
Proof.
  cbn. destruct (1 <? e) eqn:E; [discriminate|]. intros H; injection H as <-. cbn.
  destruct (e =? 1) eqn:E1.
  - apply N.eqb_eq in E1. now subst.
  - assert (e = 0) by lia. now subst.
Qed.

(* ---- EvidenceDoubleSign: entries sorted by hash are kept as they are --------------------- *)
Lemma map_opt_as_sign l kvs : map_opt as_sign l = Some kvs -> l = map sign_value kvs.
Proof.
  revert kvs. induction l as [|v l IH]; intros kvs H.
  - injection H as <-. reflexivity.
  - rewrite map_opt_cons in H. destruct (as_sign v) as [[h s]|] eqn:Ev; [|discriminate].
    destruct (map_opt as_sign l) as [kvs'|]; [|discriminate]. injection H as <-.
    cbn [map]. f_equal; [|now apply IH].
    unfold as_sign in Ev.
    destruct v as [| | |[|[| |h'| |] [|[| |s'| |] [|? ?]]]|]; try discriminate.
    destruct (len h' =? 32); [|discriminate]. injection Ev as <- <-. reflexivity.
Qed.

Lemma evidence_sorted_canonical r i signs kvs :
  map_opt as_sign signs = Some kvs -> sorted_strict (map fst kvs) = true ->
  cdec id_EvidenceDoubleSign (VList [r; i; VList signs]) = Some (VList [r; i; VList signs]) /\
  cenc id_EvidenceDoubleSign (VList [r; i; VList signs]) = Some (VList [r; i; VList signs]).
Proof.
  intros Hm Hs. cbn. unfold signs_dec, signs_norm. rewrite Hm, (kv_of_sorted _ Hs), N.eqb_refl.
  cbn [option_map]. now rewrite <- (map_opt_as_sign _ _ Hm).
Qed.

(* ---- customs that give back exactly what they read ----------------------------------- *)
Definition normalising (id : N) : bool := id =? id_EvidenceDoubleSign.

Lemma custom_canon id wv v : normalising id = false -> cdec id wv = Some v -> cenc id v = Some wv.
Proof.
  intros Hn Hd. unfold normalising, id_EvidenceDoubleSign in Hn.
  destruct (id =? id_Validator) eqn:E7.
  { apply N.eqb_eq in E7. subst id.
    change (cdec id_Validator wv = Some v) in Hd.
    assert (exists a e, wv = VList [a; VNum e]) as (a & e & ->).
    { cbn in Hd. destruct wv as [| | |[|a [|[e| | | |] [|? ?]]]|]; try discriminate. eauto. }
    now apply validator_canon. }
  destruct (id =? id_ValidatorIndex) eqn:E11.
  { apply N.eqb_eq in E11. subst id. cbn in Hd. destruct wv as [| | |l|]; try discriminate.
    destruct (set_dec l) as [l'|] eqn:Es; [|discriminate]. injection Hd as <-.
    apply set_dec_canon in Es as [-> Hn']. cbn. now rewrite Hn'. }
  revert Hd. unfold cdec, cenc, id_Receipt, id_ReceiptForStorage, id_Validator, id_ValidatorIndex,
    id_EvidenceDoubleSign in *.
  destruct ((id =? 3) || (id =? 4)) eqn:E1.
  - destruct wv as [| | |[|[| |b| |] rest]|]; try discriminate.
    destruct (status_dec b) as [[ps st]|] eqn:Es; [|discriminate].
    intros H; injection H as <-. now rewrite (status_roundtrip _ _ _ Es).
  - rewrite E7, E11, Hn.
    destruct ((1 <=? id) && (id <=? 16)); [|discriminate].
    intros H; injection H as <-. reflexivity.
Qed.

(* ---- strict schemas are never lenient --------------------------------------------------- *)
Fixpoint strict_fields (fs : list schema) : bool :=
  match fs with [] => true | f :: r => strict f && strict_fields r end.
Lemma strict_struct fs : strict (SStruct fs) = strict_fields fs.
Proof. reflexivity. Qed.

Theorem strict_not_lenient : forall s it, strict s = true -> lenient_t s it = false.
Proof.
  unfold lenient_t.
  induction s as [bits| | | |n|e IH|fs IH|e IH|e IH|id w IH] using schema_ind'; intros it Hs;
    try reflexivity.
  - cbn [lenient]. destruct it as [|l]; [reflexivity|]. cbn [strict] in Hs.
    induction l as [|x l IHl]; [reflexivity|]. cbn [existsb]. now rewrite IH, IHl.
  - destruct it as [|l]; [reflexivity|]. rewrite lenient_struct. rewrite strict_struct in Hs.
    revert l. induction fs as [|f fs IHf]; intros [|x l]; try reflexivity.
    cbn [strict_fields] in Hs. apply andb_prop in Hs as [Sf Sr].
    inversion IH as [|? ? Pf Pr]; subst. cbn [lenient_fields]. now rewrite Pf, IHf.
  - cbn [lenient]. cbn [strict] in Hs. now apply IH.
  - discriminate.
  - cbn [strict] in Hs. apply andb_prop in Hs as [Hn Hw]. cbn [lenient]. rewrite IH by assumption.
    cbn [orb]. destruct (of_item cdec w it) as [wv|]; [|reflexivity].
    destruct (cdec id wv) as [v|] eqn:Ed; [|reflexivity].
    assert (Hn' : normalising id = false) by (unfold normalising; destruct (id =? id_EvidenceDoubleSign); [discriminate|reflexivity]).
    rewrite (custom_canon _ _ _ Hn' Ed). now rewrite value_eqb_refl.
Qed.

Theorem accept_canonical_strict s b v : wf_schema s = true -> strict s = true ->
  decode_t s b = Some v -> encode_t s v = Some b.
Proof.
  intros Hwf Hs Hd. apply (accept_canonical cenc cdec); [assumption|assumption|].
  unfold lenient_bytes. destruct (decode b); [|reflexivity]. now apply strict_not_lenient.
Qed.

(* ---- the remaining lenient places, characterised ------------------------------------------ *)
(* rlp:"nil" pointer to a byte array: exactly the empty LIST is the extra form *)
Lemma opt_arr_lenient n it : 1 <= n -> (lenient_t (SOpt (SArr n)) it = true <-> it = Lst []).
Proof.
  intros Hn. unfold lenient_t. cbn [lenient]. destruct it as [[|x b]|[|x l]]; cbn [nil_item item_eqb bytes_eqb negb];
    split; try discriminate; try reflexivity.
Qed.

(* ---- stream-style call sites (rlp.Decode on a reader, p2p Msg.Decode) ------------------------ *)
(* what such a site accepts is the encoding of what it decoded followed by an
   ARBITRARY unread rest: the value itself is read canonically (outside the
   lenient places), the rest is not looked at *)
Theorem stream_accept_prefix s b v rest : wf_schema s = true ->
  decode_stream_t s b = Some (v, rest) ->
  exists it, b = encode it ++ rest /\ of_item cdec s it = Some v /\ item_ok it = true /\
             (lenient_t s it = false -> encode_t s v = Some (encode it)).
Proof.
  intros Hwf. unfold decode_stream_t. destruct (bytes_ok b) eqn:Hok; [|discriminate]. cbn [negb].
  destruct (dec (S (length b)) b) as [[it r]|] eqn:Ed; [|discriminate].
  destruct (of_item cdec s it) as [v'|] eqn:Eo; [|discriminate]. cbn [option_map].
  intros H; injection H as <- <-.
  apply dec_sound in Ed as (Eb & _ & Hi & _); [|assumption].
  exists it. repeat split; try assumption.
  intros Hl. unfold encode_t, encode_typed. unfold lenient_t in Hl.
  now rewrite (to_of cenc cdec _ _ _ Hwf Hi Eo Hl).
Qed.

(* ---- the verdict class "value size exceeds available input length" ---------------------------- *)
Lemma take_none n t : len t < n -> take n t = None.
Proof. intros H. unfold take. destruct (n <=? len t) eqn:E; [lia|reflexivity]. Qed.

Lemma take_some_firstn n t : n <= len t ->
  take n t = Some (firstn (N.to_nat n) t, skipn (N.to_nat n) t).
Proof. intros H. unfold take. destruct (n <=? len t) eqn:E; [reflexivity|lia]. Qed.

Lemma len_skipn n (t : bytes) : n <= len t -> len (skipn (N.to_nat n) t) = len t - n.
Proof. intros H. unfold len in *. rewrite skipn_length. lia. Qed.

(* an input whose outer header declares more than there is has no first value:
   the specification decoder rejects it whatever the target type, directly or
   through a stream *)
Theorem too_large_rejected b : too_large b = true ->
  split_item b = None /\ decode b = None /\ forall s, decode_stream_t s b = None.
Proof.
  intros H.
  assert (Hs : split_item b = None).
  { destruct b as [|h t]; [discriminate|]. unfold too_large in H. unfold split_item.
    destruct (negb (byte_ok h)); [reflexivity|].
    destruct (h <? 128); [discriminate|].
    assert (Hlong : forall ll,
      (if len t <? ll then true
       else match firstn (N.to_nat ll) t with
            | [] => false
            | (b0 :: _) as lb =>
              if (b0 =? 0) && negb (ll =? 1) then false
              else let n := of_be lb in if n <? 56 then false else len t - ll <? n
            end) = true ->
      match long_size ll t with
      | Some (n, t') => match take n t' with Some (c, r) => @None (bool * bytes * bytes) | None => None end
      | None => None
      end = None /\
      match long_size ll t with
      | Some (n, t') => match take n t' with Some (c, r) => Some (true, c, r) | None => None end
      | None => None
      end = None /\
      match long_size ll t with
      | Some (n, t') => match take n t' with Some (c, r) => Some (false, c, r) | None => None end
      | None => None
      end = None).
    { intros ll Hl. unfold long_size. destruct (len t <? ll) eqn:E.
      - rewrite take_none by lia. auto.
      - rewrite take_some_firstn by lia.
        destruct (firstn (N.to_nat ll) t) as [|b0 lb'] eqn:Ef; [discriminate|].
        destruct (b0 =? 0) eqn:E0; [auto|]. cbn [andb] in Hl.
        destruct (of_be (b0 :: lb') <? 56) eqn:E56; [discriminate|].
        rewrite take_none; [auto|]. rewrite len_skipn by lia. lia. }
    destruct (h <? 184); [rewrite take_none by lia; reflexivity|].
    destruct (h <? 192); [now destruct (Hlong _ H) as (_ & _ & ->)|].
    destruct (h <? 248); [rewrite take_none by lia; reflexivity|].
    now destruct (Hlong _ H) as (_ & -> & _). }
  split; [assumption|]. split.
  - unfold decode. destruct (negb (bytes_ok b)); [reflexivity|]. cbn [dec]. now rewrite Hs.
  - intros s. unfold decode_stream_t. destruct (negb (bytes_ok b)); [reflexivity|]. cbn [dec]. now rewrite Hs.
Qed.

(* ---- one hash per value ------------------------------------------------------------------------ *)
(* the hash of a decoded object is a function of its value: two accepted inputs that
   decode to equal values - e.g. the two spellings of a nil recipient - have the same
   hash, whatever the hash function is *)
Theorem hash_depends_on_value_only (H : bytes -> bytes) s b1 b2 v :
  decode_t s b1 = Some v -> decode_t s b2 = Some v -> hash_of H s b1 = hash_of H s b2.
Proof. intros H1 H2. unfold hash_of, hash_preimage. now rewrite H1, H2. Qed.

(* and outside the lenient places it is the hash of the received bytes *)
Theorem hash_of_received_bytes (H : bytes -> bytes) s b v : wf_schema s = true ->
  decode_t s b = Some v -> lenient_bytes cenc cdec s b = false -> hash_of H s b = Some (H b).
Proof.
  intros Hwf Hd Hl. unfold hash_of, hash_preimage. rewrite Hd. cbn [bind].
  pose proof (accept_canonical cenc cdec _ _ _ Hwf Hd Hl) as E. unfold encode_t. now rewrite E.
Qed.
