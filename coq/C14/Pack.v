(* C14 - input format of the generated Cases.v files.  Coq parses N numerals and
   string literals at ~50 us per token; primitive 63-bit integers are read two
   orders of magnitude faster, so the harness writes byte strings as
   (length, [words]) with 7 bytes per word (big endian, last word holds the
   remaining bytes) and every small number as an int.  Only the correspondence
   runner uses this file; no theorem depends on it.  No proofs in this file. *)
From Coq Require Import ZArith Uint63.
From VF.C14 Require Export Model.
Open Scope N_scope.

Definition n_of_int (i : int) : N := Z.to_N (Uint63.to_Z i).

(* k bytes (k <= 7) of w, most significant first *)
Fixpoint word_bytes (k : nat) (w : N) (acc : bytes) : bytes :=
  match k with
  | O => acc
  | S k' => word_bytes k' (w / 256) (w mod 256 :: acc)
  end.

Fixpoint unpack_words (len : nat) (ws : list int) : bytes :=
  match ws with
  | [] => []
  | w :: r =>
    if Nat.leb len 7 then word_bytes len (n_of_int w) []
    else word_bytes 7 (n_of_int w) [] ++ unpack_words (len - 7) r
  end.

Definition pbytes := (int * list int)%type.
Definition unpack (p : pbytes) : bytes := unpack_words (N.to_nat (n_of_int (fst p))) (snd p).

Inductive pvalue :=
| PNum (p : pbytes)          (* big-endian bytes of the number *)
| PBool (b : bool)
| PBytes (p : pbytes)
| PList (l : list pvalue)
| PNil.

Fixpoint unpack_value (v : pvalue) : value :=
  match v with
  | PNum p => VNum (of_be (unpack p))
  | PBool b => VBool b
  | PBytes p => VBytes (unpack p)
  | PList l => VList (map unpack_value l)
  | PNil => VNil
  end.

Inductive pcase :=
| PEnc (ty : int) (v : pvalue) (rt : bool) (b : pbytes)
| PDec (ty : int) (b : pbytes) (r : option pbytes)
| PDecSame (ty : int) (b : pbytes)            (* accepted and re-encoded to the same bytes *)
| PItem (b : pbytes) (r : option pbytes)
| PItemSame (b : pbytes)
| PStream (ty : int) (b : pbytes) (r : option (pbytes * int))
| PRej (ty : int) (stream : bool) (b : pbytes) (cls : bool)
| PEncR (ty : int) (v : pvalue) (b : pbytes)
| PHash (ty : int) (b : pbytes) (p : pbytes).

Definition unpack_case (c : pcase) : case :=
  match c with
  | PEnc ty v rt b => CEnc (n_of_int ty) (unpack_value v) rt (unpack b)
  | PDec ty b r => CDec (n_of_int ty) (unpack b) (option_map unpack r)
  | PDecSame ty b => let x := unpack b in CDec (n_of_int ty) x (Some x)
  | PItem b r => CItem (unpack b) (option_map unpack r)
  | PItemSame b => let x := unpack b in CItem x (Some x)
  | PStream ty b r =>
    CStream (n_of_int ty) (unpack b) (option_map (fun p => (unpack (fst p), n_of_int (snd p))) r)
  | PRej ty stream b cls => CRej (n_of_int ty) stream (unpack b) cls
  | PEncR ty v b => CEncR (n_of_int ty) (unpack_value v) (unpack b)
  | PHash ty b p => CHash (n_of_int ty) (unpack b) (unpack p)
  end.

Definition pmismatches (t : table) (l : list pcase) : list N :=
  mismatches t (map unpack_case l).
