(* C14 - property theorems (skeleton; filled in below). *)
From VF.C14 Require Import Model.
