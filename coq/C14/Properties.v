(* C14 - property theorems only.  Each is closed by [exact] of a lemma of
   RlpProofs.v / TypedProofs.v / ModelProofs.v / Bridge.v and followed by
   Print Assumptions; one non-vacuity Example per theorem.

   Reading guide.  [encode]/[decode] are the RLP item codec; a Go type is a
   [schema]; [encode_t s]/[decode_t s] are rlp.EncodeToBytes / rlp.DecodeBytes
   for a type with schema s (including the custom EncodeRLP/DecodeRLP pairs of
   the node).  [wf_schema] holds of every schema regenerated from /repo
   (C14_real_schemas_wf).  [good_t s v] = the value holds no nil where a plain
   pointer is expected and is a value its own custom decoder gives back.
   [lenient_bytes] = decoding goes through one of the places where the Go
   decoder still accepts a second wire form (rlp:"nil" pointers: both empty
   kinds; EvidenceDoubleSign: entries in any order).  Validator.Expelled,
   ValidatorIndex and the hash length / duplicates / map order of
   EvidenceDoubleSign were such places until the fix commits bcc4703, 8fe8f02,
   201ba78; the model follows the repaired code and they are now covered by
   the plain canonical theorems. *)
From VF.C14 Require Import Rlp RlpProofs Typed TypedProofs Model ModelProofs Bridge.
From Coq Require Import String.
From VF.gen Require Import C14Schemas C14CallSites.
Local Open Scope N_scope.

(* ---- 1. the item codec ---------------------------------------------------------- *)
(* decoding the encoding of any item (of bytes, below the uint64 size limit)
   gives the item back *)
Theorem C14_item_decode_encode :
  forall i, item_ok i = true -> fits i = true -> decode (encode i) = Some i.
Proof. exact decode_encode. Qed.
Print Assumptions C14_item_decode_encode.

(* any byte string the strict decoder accepts is exactly the encoding of what
   it decoded: accepted implies canonical, no trailing bytes *)
Theorem C14_item_encode_decode :
  forall b i, decode b = Some i -> encode i = b /\ item_ok i = true /\ fits i = true.
Proof. exact encode_decode. Qed.
Print Assumptions C14_item_encode_decode.

(* one encoding per item (hence one hash), and no encoding is a prefix of another *)
Theorem C14_item_encode_injective :
  forall i j, item_ok i = true -> fits i = true -> item_ok j = true -> fits j = true ->
    encode i = encode j -> i = j.
Proof. exact encode_injective. Qed.
Print Assumptions C14_item_encode_injective.

Theorem C14_item_prefix_free :
  forall i j r s, item_ok i = true -> fits i = true -> item_ok j = true -> fits j = true ->
    encode i ++ r = encode j ++ s -> i = j /\ r = s.
Proof. exact encode_prefix_free. Qed.
Print Assumptions C14_item_prefix_free.

(* ---- 2. typed values: decode (encode v) = v --------------------------------------- *)
Theorem C14_roundtrip :
  forall s v it, wf_schema s = true -> good_t s v = true ->
    to_item cenc s v = Some it -> item_ok it = true -> fits it = true ->
    encode_t s v = Some (encode it) /\ decode_t s (encode it) = Some v.
Proof. exact (roundtrip cenc cdec). Qed.
Print Assumptions C14_roundtrip.

(* equal encodings (equal hashes' pre-images) come from equal values *)
Theorem C14_one_encoding :
  forall s v1 v2 i1 i2, wf_schema s = true -> good_t s v1 = true -> good_t s v2 = true ->
    to_item cenc s v1 = Some i1 -> to_item cenc s v2 = Some i2 ->
    item_ok i1 = true -> fits i1 = true -> item_ok i2 = true -> fits i2 = true ->
    encode i1 = encode i2 -> v1 = v2.
Proof. exact (typed_injective cenc cdec). Qed.
Print Assumptions C14_one_encoding.

(* ---- 3. accepted implies canonical -------------------------------------------------- *)
(* full statement over the regenerated types; REFUTED by the unchanged code *)
Definition C14_accept_canonical_full : Prop := canonical_full.

Theorem C14_accept_canonical_refuted : ~ C14_accept_canonical_full.
Proof. exact canonical_full_refuted. Qed.
Print Assumptions C14_accept_canonical_refuted.

(* outside the listed lenient places every accepted byte string re-encodes to itself *)
Theorem C14_accept_canonical_holds_outside :
  forall s b v, wf_schema s = true -> decode_t s b = Some v ->
    lenient_bytes cenc cdec s b = false -> encode_t s v = Some b.
Proof. exact (accept_canonical cenc cdec). Qed.
Print Assumptions C14_accept_canonical_holds_outside.

(* types without an rlp:"nil" pointer and other than EvidenceDoubleSign have no
   lenient place at all *)
Theorem C14_accept_canonical_strict :
  forall s b v, wf_schema s = true -> strict s = true ->
    decode_t s b = Some v -> encode_t s v = Some b.
Proof. exact accept_canonical_strict. Qed.
Print Assumptions C14_accept_canonical_strict.

(* ... which are all regenerated types except the seven listed in [lenient_types]
   (the transaction and its containers, EvidenceDoubleSign) *)
Theorem C14_real_types_canonical :
  forall ty s b v, In (ty, s) all_schemas -> existsb (N.eqb ty) lenient_types = false ->
    decode_t s b = Some v -> encode_t s v = Some b.
Proof. exact real_strict_canonical. Qed.
Print Assumptions C14_real_types_canonical.

(* the repaired custom decoders give back exactly what they read, and reject
   what their encoder never writes *)
Theorem C14_custom_coders_canonical :
  forall id wv v, normalising id = false -> cdec id wv = Some v -> cenc id v = Some wv.
Proof. exact custom_canon. Qed.
Print Assumptions C14_custom_coders_canonical.

Theorem C14_validator_expelled_rejected :
  forall a e, 2 <= e -> cdec id_Validator (VList [a; VNum e]) = None.
Proof. exact validator_expelled_rejected. Qed.
Print Assumptions C14_validator_expelled_rejected.

Theorem C14_validator_index_unsorted_rejected :
  forall bs, sorted_strict bs = false -> cdec id_ValidatorIndex (VList (map VBytes bs)) = None.
Proof. exact validator_index_unsorted_rejected. Qed.
Print Assumptions C14_validator_index_unsorted_rejected.

(* the two remaining lenient places, characterised: for an rlp:"nil" byte array
   exactly the empty list; EvidenceDoubleSign entries with 32-byte hashes in
   strictly increasing order are the one form that is kept as it is *)
Theorem C14_finding_nil_kind :
  forall n it, 1 <= n -> (lenient_t (SOpt (SArr n)) it = true <-> it = Lst []).
Proof. exact opt_arr_lenient. Qed.
Print Assumptions C14_finding_nil_kind.

Theorem C14_finding_evidence_sorted_partial :
  forall r i signs kvs, map_opt as_sign signs = Some kvs -> sorted_strict (map fst kvs) = true ->
    cdec id_EvidenceDoubleSign (VList [r; i; VList signs]) = Some (VList [r; i; VList signs]) /\
    cenc id_EvidenceDoubleSign (VList [r; i; VList signs]) = Some (VList [r; i; VList signs]).
Proof. exact evidence_sorted_canonical. Qed.
Print Assumptions C14_finding_evidence_sorted_partial.
(* partial: the converse (an accepted entry list that is not strictly increasing
   is re-written differently) is exhibited by a witness (Bridge.w_evidence_unsorted)
   but not proved in general. *)

(* ---- 3b. stream-style call sites ---------------------------------------------------------- *)
(* rlp.Decode on a reader / p2p Msg.Decode accept exactly: the canonical encoding
   of the decoded value (outside the lenient places) followed by an arbitrary
   unread rest.  That rest is the open finding "trailing bytes tolerated"; the
   sites that behave so are pinned by C14_tolerant_call_sites_exact, and the
   consensus / staking entry points are proved (from the source text) to use
   the strict rlp.DecodeBytes. *)
Theorem C14_stream_accept_is_canonical_prefix :
  forall s b v rest, wf_schema s = true -> decode_stream_t s b = Some (v, rest) ->
    exists it, b = encode it ++ rest /\ of_item cdec s it = Some v /\ item_ok it = true /\
               (lenient_t s it = false -> encode_t s v = Some (encode it)).
Proof. exact stream_accept_prefix. Qed.
Print Assumptions C14_stream_accept_is_canonical_prefix.

Theorem C14_tolerant_call_sites_exact :
  tolerant_sites = [
  ("consensus/ucon/vote_cache.go", "ReadVoteData");
  ("core/genesis.go", "decodePrealloc");
  ("core/genesis.go", "decodeValidators");
  ("core/rawdb/accessors_chain.go", "ReadBody");
  ("core/rawdb/accessors_chain.go", "ReadHeader");
  ("core/state/iterator.go", "NodeIterator.step");
  ("core/state/sync.go", "NewStateSync");
  ("core/tx_journal.go", "txJournal.load");
  ("p2p/message.go", "Msg.Decode");
  ("you/handler.go", "ProtocolManager.handleBlockBodiesMsg");
  ("you/handler.go", "ProtocolManager.handleGetBlockBodiesMsg");
  ("you/handler.go", "ProtocolManager.handleGetBlockMsg");
  ("you/handler.go", "ProtocolManager.handleGetHeadersMsg");
  ("you/handler.go", "ProtocolManager.handleGetNodeDataMsg");
  ("you/handler.go", "ProtocolManager.handleGetReceiptsMsg");
  ("you/handler.go", "ProtocolManager.handleNewBlockHashMsg");
  ("you/handler.go", "ProtocolManager.handleNewBlockMsg");
  ("you/handler.go", "ProtocolManager.handleNewTxMsg");
  ("you/handler.go", "ProtocolManager.handleNodeDataMsg");
  ("you/handler.go", "ProtocolManager.handleReceiptsMsg");
  ("you/handler.go", "ProtocolManager.handleReceiveHeadersMsg");
  ("you/peer.go", "peer.readStatus");
  ("you/ucon_handler.go", "UConProtocolManager.handleMsg")]%string.
Proof. exact tolerant_sites_exact. Qed.
Print Assumptions C14_tolerant_call_sites_exact.

Theorem C14_consensus_entry_points_strict :
  forallb (fun p => strict_site (fst p) (snd p))
    [("consensus/ucon/types.go", "Decode"); ("consensus/ucon/types.go", "Message.DecodePayload");
     ("consensus/ucon/block_consensus_data.go", "ExtractConsensusData");
     ("consensus/ucon/ucon_validators.go", "ExtractUconValidators");
     ("staking/tx_converter.go", "TxConverter.ApplyMessage");
     ("staking/slash.go", "Staking.replaySlashing")]%string = true.
Proof. exact consensus_entry_points_strict. Qed.
Print Assumptions C14_consensus_entry_points_strict.

Example C14_nonvacuous_stream :
  decode_t S_types_Transaction (w_tx_re ++ [0]) = None /\
  exists v, decode_stream_t S_types_Transaction (w_tx_re ++ [0]) = Some (v, [0]) /\
            decode_t S_types_Transaction w_tx_re = Some v.
Proof. exact w_trailing. Qed.
Print Assumptions C14_nonvacuous_stream.

(* ---- 3c. lying size fields --------------------------------------------------------------- *)
(* an input whose outer header declares more than there is (the verdict class
   ErrValueTooLarge, compared with the implementation case by case) has no first
   value at all: the specification decoder rejects it for every target type,
   directly and through a stream, without looking at - let alone allocating - the
   declared size.  The Go side of this clause (no panic, no allocation beyond
   64 KiB + 1 KiB per input byte, also for Transaction/Block whose DecodeRLP
   peeks Kind() first) rests on the size-lie campaign run in a child process
   under an address-space limit. *)
Theorem C14_lying_outer_size_rejected_partial :
  forall b, too_large b = true ->
    split_item b = None /\ decode b = None /\ forall s, decode_stream_t s b = None.
Proof. exact too_large_rejected. Qed.
Print Assumptions C14_lying_outer_size_rejected_partial.

Theorem C14_peeking_decoders_exact : peeking_decoders =
  [("core/types/block.go", "Block.DecodeRLP"); ("core/types/transaction.go", "Transaction.DecodeRLP")]%string.
Proof. exact peeking_decoders_exact. Qed.
Print Assumptions C14_peeking_decoders_exact.

(* 22 bytes: a transaction whose outer list and gas-price string both declare 2^63 bytes *)
Example C14_nonvacuous_lying_size :
  too_large [255; 128;0;0;0;0;0;0;16; 7; 191; 128;0;0;0;0;0;0;0; 1; 130; 82; 8] = true /\
  too_large [206; 7; 1] = true /\ too_large w_tx_re = false.
Proof. repeat split; vm_compute; reflexivity. Qed.
Print Assumptions C14_nonvacuous_lying_size.

(* ---- 3d. what the hand-written coders do with decoded field data ------------------------ *)
(* the calls, index and slice expressions of every DecodeRLP / EncodeRLP (and of the helpers
   of its package it calls) are the ones the hand models were written against.  That
   these coders neither panic nor accept non-canonically on WELL-FORMED records with
   boundary field values rests on the well-formed sweep of the harness (every byte field
   at lengths 0,1,7,8,9,31,32,33,55,56,255,256,1000 x every small integer field at
   0..7,255, through every entry point under recover); this pin makes a new
   interpretation of decoded bytes inside a coder visible as a broken obligation. *)
Theorem C14_custom_coder_calls_exact : coder_calls = coder_calls_expected.
Proof. exact coder_calls_exact. Qed.
Print Assumptions C14_custom_coder_calls_exact.

(* ---- 3e. one hash ------------------------------------------------------------------------------ *)
(* "equal objects have one encoding and one hash": in the model the hash of a decoded
   object is H(encoding of its value), so any two accepted inputs that decode to equal
   values have equal hashes for every H - including the two accepted spellings of a nil
   recipient (the open rlp:"nil" finding).  The correspondence compares the
   implementation's cached Hash() with this (case CHash: the byte string whose keccak256
   Hash() is must be [hash_preimage], the encoding of the decoded value). *)
Theorem C14_hash_depends_on_value_only :
  forall (H : bytes -> bytes) s b1 b2 v,
    decode_t s b1 = Some v -> decode_t s b2 = Some v -> hash_of H s b1 = hash_of H s b2.
Proof. exact hash_depends_on_value_only. Qed.
Print Assumptions C14_hash_depends_on_value_only.

Theorem C14_hash_of_received_bytes_holds_outside :
  forall (H : bytes -> bytes) s b v, wf_schema s = true ->
    decode_t s b = Some v -> lenient_bytes cenc cdec s b = false -> hash_of H s b = Some (H b).
Proof. exact hash_of_received_bytes. Qed.
Print Assumptions C14_hash_of_received_bytes_holds_outside.

(* the two spellings of a contract creation: one value, one hash preimage (the 0x80 form) *)
Example C14_nonvacuous_one_hash :
  (exists v, decode_t S_types_Transaction w_tx = Some v /\ decode_t S_types_Transaction w_tx_re = Some v) /\
  hash_preimage S_types_Transaction w_tx = Some w_tx_re /\
  hash_preimage S_types_Transaction w_tx_re = Some w_tx_re.
Proof.
  split; [eexists; split; [vm_compute; reflexivity|vm_compute; reflexivity]|].
  split; vm_compute; reflexivity.
Qed.
Print Assumptions C14_nonvacuous_one_hash.

(* ---- 3f. a decoded value owns its memory ----------------------------------------------------- *)
(* In the model decoding returns a value (an inductive term): what is later done to the
   byte string it was read from - represented by an arbitrary second byte string b' the
   buffer may hold afterwards - cannot change the value, its encoding or its hash.
   Immediate in the model; the tie to the implementation is the ownership oracle of the
   harness (no byte field of a decoded object overlaps the input buffer, the object is
   unchanged after the buffer is overwritten, handlers leave their input untouched and
   relay bytes that decode). *)
Theorem C14_decoded_value_independent_of_input_buffer :
  forall (H : bytes -> bytes) s (b b' : bytes) v,
    decode_t s b = Some v ->
    let after_reuse := b' in
    encode_t s v = hash_preimage s b /\ option_map H (encode_t s v) = hash_of H s b.
Proof.
  exact (fun H s b b' v Hd =>
           conj (eq_sym (f_equal (fun o => bind o (encode_t s)) Hd))
                (eq_sym (f_equal (fun o => option_map H (bind o (encode_t s))) Hd))).
Qed.
Print Assumptions C14_decoded_value_independent_of_input_buffer.

(* ---- 4. hostile bytes: the specification decoder is total and linear ------------------ *)
(* [decode] is a total Coq function (no exception, no divergence) and what it
   builds is at most twice the input.  PARTIAL with respect to the property:
   panic-freedom and allocation of the Go reflection decoder are runtime facts
   outside the model; they are covered by the hostile-bytes campaign of the
   harness (recover + allocation bound), not by this theorem. *)
Theorem C14_decoder_total_and_linear_partial :
  forall b, (exists i, decode b = Some i /\ item_size i <= 2 * len b) \/ decode b = None.
Proof.
  exact (fun b => match decode b as o return decode b = o -> _ with
                  | Some i => fun H => or_introl (ex_intro _ i (conj H (decode_size_bound b i H)))
                  | None => fun H => or_intror H
                  end eq_refl).
Qed.
Print Assumptions C14_decoder_total_and_linear_partial.

(* ---- 5. bridge: the regenerated schemas ------------------------------------------------ *)
Theorem C14_real_schemas_wf : forall ty s, In (ty, s) all_schemas -> wf_schema s = true.
Proof. exact real_schemas_wf. Qed.
Print Assumptions C14_real_schemas_wf.

Theorem C14_real_lenient_types_exact :
  map fst (filter (fun p => negb (strict (snd p))) all_schemas) = lenient_types.
Proof. exact lenient_types_exact. Qed.
Print Assumptions C14_real_lenient_types_exact.

(* ---- non-vacuity ------------------------------------------------------------------------- *)
Definition ex_item : item := Lst [Str [1]; Str [200]; Str []; Lst [Str (repeat 7 60)]].
Example C14_nonvacuous_item :
  item_ok ex_item = true /\ fits ex_item = true /\
  decode (encode ex_item) = Some ex_item /\ decode [129; 5] = None /\ decode [184; 1; 200] = None.
Proof. repeat split; vm_compute; reflexivity. Qed.
Print Assumptions C14_nonvacuous_item.

(* a signed value transfer: schema from /repo, concrete value *)
Definition ex_tx : value :=
  VList [VNum 7; VNum 1000000000; VNum 21000; VBytes (repeat 17 20); VNum (2 ^ 70);
         VBytes [1; 2; 3]; VNum 37; VNum (2 ^ 255 + 5); VNum 12345].
Example C14_nonvacuous_roundtrip :
  wf_schema S_types_Transaction = true /\ good_t S_types_Transaction ex_tx = true /\
  exists it, to_item cenc S_types_Transaction ex_tx = Some it /\ item_ok it = true /\ fits it = true.
Proof.
  split; [vm_compute; reflexivity|]. split; [vm_compute; reflexivity|].
  eexists. split; [vm_compute; reflexivity|]. split; vm_compute; reflexivity.
Qed.
Print Assumptions C14_nonvacuous_roundtrip.

(* accepted, not lenient (hypotheses of holds_outside) - the two open witnesses are seen
   as lenient, the three repaired ones are rejected *)
Example C14_nonvacuous_holds_outside :
  (exists v, decode_t S_types_Transaction w_tx_re = Some v) /\
  lenient_bytes cenc cdec S_types_Transaction w_tx_re = false /\
  lenient_bytes cenc cdec S_types_Transaction w_tx = true /\
  lenient_bytes cenc cdec S_staking_EvidenceDoubleSign w_evidence_unsorted = true /\
  lenient_bytes cenc cdec S_staking_EvidenceDoubleSign w_evidence_sorted = false /\
  decode_t S_state_Validator w_validator = None /\
  decode_t S_state_ValidatorIndex w_index = None /\
  decode_t S_staking_EvidenceDoubleSign w_evidence = None.
Proof. split; [eexists; vm_compute; reflexivity|]. repeat split; vm_compute; reflexivity. Qed.
Print Assumptions C14_nonvacuous_holds_outside.

(* a strict regenerated type that accepts something: the staking message *)
Example C14_nonvacuous_strict :
  In (26, S_staking_Message) all_schemas /\ existsb (N.eqb 26) lenient_types = false /\
  strict S_staking_Message = true /\
  decode_t S_staking_Message [194; 1; 128] = Some (VList [VNum 1; VBytes []]) /\
  strict S_types_Header = true /\ strict S_ucon_UconValidators = true /\
  strict S_state_Validator = true /\ strict S_state_ValidatorIndex = true /\
  strict S_state_Validators = true.
Proof.
  split; [unfold all_schemas; do 26 right; left; reflexivity|]. repeat split; vm_compute; reflexivity.
Qed.
Print Assumptions C14_nonvacuous_strict.

Example C14_nonvacuous_findings :
  cdec id_Validator (VList [VNil; VNum 1]) = Some (VList [VNil; VBool true]) /\
  cdec id_Validator (VList [VNil; VNum 5]) = None /\
  sorted_strict [[1; 2]; [1; 3]; [2]] = true /\ sorted_strict [[2]; [1]] = false /\
  normalising id_Validator = false /\ normalising id_ValidatorIndex = false /\
  lenient_t (SOpt (SArr 20)) (Lst []) = true /\
  (exists kvs, map_opt as_sign [VList [VBytes (repeat 0 32); VBytes [1]]] = Some kvs /\
               sorted_strict (map fst kvs) = true).
Proof.
  repeat split; try (vm_compute; reflexivity). eexists. split; vm_compute; reflexivity.
Qed.
Print Assumptions C14_nonvacuous_findings.
