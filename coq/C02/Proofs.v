(* C02 - invariants of the vote database over all histories. *)
From Coq Require Import Lia ZifyBool ZifyN ZifyNat.
From VF.C02 Require Import Model.
Local Open Scope N_scope.

(* ---- basic decidable equalities ---------------------------------------- *)
Lemma kind_eqb_spec a b : kind_eqb a b = true <-> a = b.
Proof. destruct a, b; simpl; split; intros; try discriminate; auto. Qed.
Lemma kind_eqb_refl a : kind_eqb a a = true.
Proof. destruct a; reflexivity. Qed.
Lemma slot_eqb_spec a b : slot_eqb a b = true <-> a = b.
Proof.
  destruct a, b; simpl; split; intros H; try discriminate; auto.
  - apply andb_prop in H as [H1 H2]. apply kind_eqb_spec in H1. apply N.eqb_eq in H2. congruence.
  - injection H as -> ->. rewrite kind_eqb_refl, N.eqb_refl. reflexivity.
Qed.
Lemma slot_eqb_refl a : slot_eqb a a = true.
Proof. apply slot_eqb_spec. reflexivity. Qed.

Lemma upd_same s sl p : upd s sl p sl = Some p.
Proof. unfold upd. rewrite slot_eqb_refl. reflexivity. Qed.
Lemma upd_other s sl p sl' : sl <> sl' -> upd s sl p sl' = s sl'.
Proof.
  intros H. unfold upd. destruct (slot_eqb sl sl') eqn:E; [|reflexivity].
  apply slot_eqb_spec in E. contradiction.
Qed.
Lemma mupd_same m k v : mupd m k v k = v.
Proof. unfold mupd. rewrite kind_eqb_refl. reflexivity. Qed.
Lemma mupd_other m k v k' : k <> k' -> mupd m k v k' = m k'.
Proof.
  intros H. unfold mupd. destruct (kind_eqb k k') eqn:E; [|reflexivity].
  apply kind_eqb_spec in E. contradiction.
Qed.

Ltac sim := cbn [andb orb negb fst snd app] in *.
(* ---- counting records --------------------------------------------------- *)
Definition ind (k k' : kind) (p q : N) : N :=
  if kind_eqb k k' && N.eqb p q then 1 else 0.

Fixpoint lcount (l : list (option (kind * N))) (k : kind) (p : N) : N :=
  match l with
  | [] => 0
  | None :: r => lcount r k p
  | Some (k', p') :: r => ind k' k p' p + lcount r k p
  end.

(* every record is at most [t] *)
Fixpoint lle (l : list (option (kind * N))) (t : N) : Prop :=
  match l with
  | [] => True
  | None :: r => lle r t
  | Some (_, p) :: r => p <= t /\ lle r t
  end.

(* some record is exactly at [t] *)
Fixpoint lhas (l : list (option (kind * N))) (t : N) : Prop :=
  match l with
  | [] => False
  | None :: r => lhas r t
  | Some (_, p) :: r => p = t \/ lhas r t
  end.

Fixpoint lempty (l : list (option (kind * N))) : Prop :=
  match l with
  | [] => True
  | None :: r => lempty r
  | Some _ :: _ => False
  end.

Lemma lle_mono l t t' : lle l t -> t <= t' -> lle l t'.
Proof. induction l as [|[[k p]|] r IH]; simpl; intros; auto. split; [lia|apply IH; tauto]. Qed.

Lemma lcount_above l k t p : lle l t -> t < p -> lcount l k p = 0.
Proof.
  induction l as [|[[k' p']|] r IH]; simpl; intros Hl Hlt; auto.
  destruct Hl as [H1 H2]. rewrite (IH H2 Hlt). unfold ind.
  destruct (kind_eqb k' k); sim; [|reflexivity].
  destruct (N.eqb_spec p' p); [lia|reflexivity].
Qed.

(* fold of replay1 from a non-empty accumulator *)
Lemma replay_some l : forall hw m0,
  exists t m, fold_left replay1 l (Some (hw, m0)) = Some (t, m) /\
    hw <= t /\ (t = hw \/ lhas l t) /\ (lle l hw -> t = hw) /\
    (forall t', hw <= t' -> lle l t' -> t <= t') /\
    (forall k, m k = (if N.eqb t hw then m0 k else 0) + lcount l k t).
Proof.
  induction l as [|[[k' p']|] r IH]; intros hw m0.
  - exists hw, m0. cbn [fold_left lle lhas lcount]. rewrite N.eqb_refl.
    repeat split; auto; try lia.
  - cbn [fold_left replay1].
    destruct (N.ltb_spec p' hw) as [Hlt|Hge].
    + destruct (IH hw m0) as (t & m & E & H1 & H2 & H3 & H4 & H5).
      exists t, m. split; [exact E|]. split; [exact H1|].
      split; [destruct H2; [left|right; right]; assumption|].
      split; [intros [_ Hl]; auto|].
      split; [intros t' Ha [_ Hb]; auto|].
      intros k. rewrite H5. cbn [lcount]. unfold ind.
      destruct (kind_eqb k' k); sim; [|lia].
      destruct (N.eqb_spec p' t); lia.
    + destruct (N.eqb_spec p' hw) as [He|Hne].
      * subst p'.
        destruct (IH hw (mupd m0 k' (m0 k' + 1))) as (t & m & E & H1 & H2 & H3 & H4 & H5).
        exists t, m. split; [exact E|]. split; [exact H1|].
        split; [destruct H2; [left|right; right]; assumption|].
        split; [intros [_ Hl]; auto|].
        split; [intros t' Ha [_ Hb]; auto|].
        intros k. rewrite H5. cbn [lcount]. unfold ind.
        destruct (N.eqb_spec t hw) as [->|Hn].
        -- rewrite N.eqb_refl.
           destruct (kind_eqb k' k) eqn:Ek; sim.
           ++ apply kind_eqb_spec in Ek. subst. rewrite mupd_same. lia.
           ++ rewrite mupd_other; [lia|]. intros ->. rewrite kind_eqb_refl in Ek. discriminate.
        -- destruct (kind_eqb k' k); sim; [|lia].
           destruct (N.eqb_spec hw t); [congruence|lia].
      * destruct (IH p' (mupd mzero k' (mzero k' + 1))) as (t & m & E & H1 & H2 & H3 & H4 & H5).
        exists t, m. split; [exact E|]. split; [lia|].
        split; [right; cbn [lhas]; destruct H2; [left; congruence|right; assumption]|].
        split; [intros [Hle _]; lia|].
        split; [intros t' Ha [Hb Hc]; apply H4; [lia|exact Hc]|].
        intros k. rewrite H5. cbn [lcount]. unfold ind.
        destruct (N.eqb_spec t hw) as [->|Hn]; [lia|].
        destruct (N.eqb_spec t p') as [->|Hn2].
        -- rewrite N.eqb_refl. destruct (kind_eqb k' k) eqn:Ek; sim.
           ++ apply kind_eqb_spec in Ek. subst. rewrite mupd_same. unfold mzero. lia.
           ++ rewrite mupd_other; [unfold mzero; lia|]. intros ->. rewrite kind_eqb_refl in Ek. discriminate.
        -- destruct (kind_eqb k' k); sim; [|lia].
           destruct (N.eqb_spec p' t); [congruence|lia].
  - cbn [fold_left replay1].
    destruct (IH hw m0) as (t & m & E & H1 & H2 & H3 & H4 & H5).
    exists t, m. repeat split; auto.
Qed.

(* fold of replay1 from the empty accumulator: None iff no record; otherwise
   the maximum position and, per kind, the number of records at it *)
Lemma replay_none l :
  match fold_left replay1 l None with
  | None => lempty l
  | Some (t, m) => lle l t /\ lhas l t /\ forall k, m k = lcount l k t
  end.
Proof.
  induction l as [|[[k' p']|] r IH].
  - sim. exact I.
  - cbn [fold_left replay1].
    destruct (replay_some r p' (mupd mzero k' 1)) as (t & m & E & H1 & H2 & H3 & H4 & H5).
    rewrite E. split; [|split].
    + cbn [lle]. split; [exact H1|].
      (* every record of r is <= t: by minimality with t' = max *)
      clear -E H1 H4. revert E H1 H4. generalize (mupd mzero k' 1). generalize p'.
      induction r as [|[[k2 p2]|] r2 IH2]; intros hw m0 E H1 H4; cbn [lle]; auto.
      * cbn [fold_left replay1] in E.
        destruct (N.ltb_spec p2 hw) as [Hlt|Hge].
        -- split; [lia|]. eapply IH2; [exact E|exact H1|].
           intros t' Ha Hb. apply H4; [exact Ha|]. cbn [lle]. split; [lia|exact Hb].
        -- destruct (N.eqb_spec p2 hw) as [He|Hne].
           ++ split; [lia|]. eapply IH2; [exact E|exact H1|].
              intros t' Ha Hb. apply H4; [exact Ha|]. cbn [lle]. split; [lia|exact Hb].
           ++ destruct (replay_some r2 p2 (mupd mzero k2 1)) as (t2 & m2 & E2 & G1 & _).
              rewrite E2 in E. injection E as -> ->.
              split; [lia|]. eapply IH2; [exact E2|exact G1|].
              intros t' Ha Hb. apply H4; [lia|]. cbn [lle]. split; [lia|exact Hb].
      * cbn [fold_left replay1] in E. eapply IH2; [exact E|exact H1|].
        intros t' Ha Hb. apply H4; auto.
    + cbn [lhas]. destruct H2; [left; congruence|right; assumption].
    + intros k. rewrite H5. cbn [lcount]. unfold ind.
      destruct (N.eqb_spec t p') as [->|Hn].
      * rewrite N.eqb_refl. destruct (kind_eqb k' k) eqn:Ek; sim.
        -- apply kind_eqb_spec in Ek. subst. rewrite mupd_same. lia.
        -- rewrite mupd_other; [unfold mzero; lia|]. intros ->. rewrite kind_eqb_refl in Ek. discriminate.
      * destruct (kind_eqb k' k); sim; [|lia]. destruct (N.eqb_spec p' t); [congruence|lia].
  - cbn [fold_left replay1 lempty lle lhas lcount]. exact IH.
Qed.

(* ---- records of a store ------------------------------------------------- *)
Definition recs (sls : list slot) (s : store) : list (option (kind * N)) :=
  map (fun sl => match s sl with Some p => Some (kind_of sl, p) | None => None end) sls.

Lemma records_recs s : records s = recs replay_slots s.
Proof. reflexivity. Qed.

Lemma recs_upd_notin sls s sl p : ~ In sl sls -> recs sls (upd s sl p) = recs sls s.
Proof.
  induction sls as [|a r IH]; simpl; intros H; [reflexivity|].
  rewrite upd_other by (intros ->; apply H; left; reflexivity).
  rewrite IH by (intros Hi; apply H; right; exact Hi). reflexivity.
Qed.

(* writing position p (>= everything stored) into a listed slot that does not hold p *)
Lemma recs_upd_in sls s sl p :
  NoDup sls -> In sl sls -> s sl <> Some p -> lle (recs sls s) p ->
  lle (recs sls (upd s sl p)) p /\ lhas (recs sls (upd s sl p)) p /\
  forall k, lcount (recs sls (upd s sl p)) k p = lcount (recs sls s) k p + ind (kind_of sl) k p p.
Proof.
  induction sls as [|a r IH]; intros Hnd Hin Hne Hle; [contradiction|].
  inversion Hnd as [|? ? Hna Hnd']; subst.
  destruct Hin as [->|Hin].
  - cbn [recs map]. rewrite upd_same. fold (recs r (upd s sl p)). fold (recs r s).
    rewrite recs_upd_notin by exact Hna.
    assert (Hr : lle (recs r s) p).
    { cbn [recs map] in Hle. fold (recs r s) in Hle. destruct (s sl); [destruct Hle|]; assumption. }
    split; [cbn [lle]; split; [lia|exact Hr]|].
    split; [cbn [lhas]; left; reflexivity|].
    intros k. cbn [lcount].
    destruct (s sl) as [q|] eqn:Eq.
    + cbn [lcount]. assert (q <> p) by congruence.
      unfold ind at 2. destruct (kind_eqb (kind_of sl) k); sim; [|lia].
      destruct (N.eqb_spec q p); [contradiction|lia].
    + cbn [lcount]. lia.
  - cbn [recs map]. fold (recs r (upd s sl p)). fold (recs r s).
    assert (Hasl : sl <> a) by (intros ->; contradiction).
    rewrite upd_other by exact Hasl.
    assert (Hr : lle (recs r s) p).
    { cbn [recs map] in Hle. fold (recs r s) in Hle. destruct (s a); [destruct Hle|]; assumption. }
    destruct (IH Hnd' Hin Hne Hr) as (G1 & G2 & G3).
    destruct (s a) as [q|] eqn:Eq.
    + cbn [lle lhas lcount]. cbn [recs map] in Hle. rewrite Eq in Hle. destruct Hle as [Hq _].
      split; [split; assumption|]. split; [right; exact G2|].
      intros k. rewrite G3. lia.
    + cbn [lle lhas lcount]. auto.
Qed.

Lemma nodup_slots : NoDup replay_slots.
Proof.
  unfold replay_slots.
  repeat (constructor; [simpl; intuition discriminate|]). constructor.
Qed.

(* a slot of [replay_slots] holding p contributes to the count *)
Lemma lcount_pos_of_slot sls s sl p :
  In sl sls -> s sl = Some p -> 1 <= lcount (recs sls s) (kind_of sl) p.
Proof.
  induction sls as [|a r IH]; intros Hin Hs; [contradiction|].
  cbn [recs map]. fold (recs r s). destruct Hin as [->|Hin].
  - rewrite Hs. cbn [lcount]. unfold ind. rewrite kind_eqb_refl, N.eqb_refl. sim. lia.
  - specialize (IH Hin Hs). destruct (s a) as [q|]; cbn [lcount]; lia.
Qed.

(* ---- the invariant ------------------------------------------------------ *)
Definition cnt (s : store) (k : kind) (p : N) : N := lcount (records s) k p.

Definition limN (k : kind) : N := match k with NextIndex => 2 | _ => 1 end.

Definition count_em (k : kind) (p : N) (em : list (kind * N)) : N :=
  N.of_nat (count_votes k p em).

Lemma count_em_app k p em k' p' :
  count_em k p (em ++ [(k', p')]) = count_em k p em + ind k' k p' p.
Proof.
  unfold count_em, count_votes. rewrite filter_app, app_length. cbn [filter fst snd].
  unfold ind. destruct (kind_eqb k' k && N.eqb p' p); cbn [length]; lia.
Qed.

Lemma count_em_zero k p em :
  (forall k0 p0, In (k0, p0) em -> p0 < p) -> count_em k p em = 0.
Proof.
  induction em as [|[k0 p0] r IH]; intros H; [reflexivity|].
  unfold count_em, count_votes in *. cbn [filter fst snd].
  assert (p0 < p) by (apply (H k0); left; reflexivity).
  destruct (N.eqb_spec p0 p); [lia|]. rewrite andb_false_r.
  apply IH. intros k1 p1 Hi. apply (H k1). right. exact Hi.
Qed.

Lemma lempty_lle l t : lempty l -> lle l t.
Proof. induction l as [|[[k p]|] r IH]; simpl; intros; auto; contradiction. Qed.
Lemma lempty_lcount l k t : lempty l -> lcount l k t = 0.
Proof. induction l as [|[[k' p]|] r IH]; simpl; intros; auto; contradiction. Qed.
Lemma lhas_lle l t t' : lhas l t -> lle l t' -> t <= t'.
Proof.
  induction l as [|[[k p]|] r IH]; simpl; intros H1 H2; try contradiction; auto.
  destruct H2 as [Ha Hb]. destruct H1 as [->|H1]; [exact Ha|auto].
Qed.
Lemma recs_lle_slot sls s t sl q : lle (recs sls s) t -> In sl sls -> s sl = Some q -> q <= t.
Proof.
  induction sls as [|a r IH]; intros Hl Hin Hs; [contradiction|].
  cbn [recs map] in Hl. fold (recs r s) in Hl. destruct Hin as [->|Hin].
  - rewrite Hs in Hl. destruct Hl; assumption.
  - destruct (s a); [destruct Hl|]; eauto.
Qed.
Lemma recs_lempty_slot sls s sl : lempty (recs sls s) -> In sl sls -> s sl = None.
Proof.
  induction sls as [|a r IH]; intros Hl Hin; [contradiction|].
  cbn [recs map] in Hl. fold (recs r s) in Hl. destruct Hin as [->|Hin].
  - destruct (s sl); [contradiction|reflexivity].
  - destruct (s a); [contradiction|]. auto.
Qed.

(* counts per kind, spelled out over the five keys *)
Definition holds (o : option N) (p : N) : N :=
  match o with Some q => if N.eqb q p then 1 else 0 | None => 0 end.

Lemma cnt_formula s k p :
  cnt s k p = match k with
              | Prevote => holds (s SPv) p
              | Precommit => holds (s SPc) p
              | NextIndex => holds (s SN1) p + holds (s SN2) p
              | Certificate => holds (s SCe) p
              end.
Proof.
  unfold cnt, records, replay_slots. cbn [map kind_of].
  destruct (s SPv), (s SPc), (s SN1), (s SN2), (s SCe); cbn [lcount holds]; unfold ind;
    destruct k; cbn [kind_eqb andb]; lia.
Qed.

Lemma cnt_le_lim s k p : cnt s k p <= limN k.
Proof.
  rewrite cnt_formula. unfold holds, limN.
  destruct k; repeat match goal with |- context [match ?o with Some _ => _ | None => _ end] => destruct o end;
    repeat match goal with |- context [N.eqb ?a ?b] => destruct (N.eqb a b) end; lia.
Qed.

Record Inv (v : vdb) (em : list (kind * N)) : Prop := {
  (* every emitted vote is at or below a stored record *)
  inv_below : forall k p, In (k, p) em -> exists t, lhas (records (st v)) t /\ p <= t;
  (* emitted votes at a position that bounds the store are all still on record *)
  inv_top : forall t k, lle (records (st v)) t -> count_em k t em <= cnt (st v) k t;
  (* the conclusion itself *)
  inv_limit : forall k p, count_em k p em <= limN k;
  (* next-index slot 2 holds the maximum only if slot 1 does *)
  inv_n2 : forall t, lle (records (st v)) t -> st v SN2 = Some t -> st v SN1 = Some t;
  (* volatile state dominates the store; its marks are the record counts *)
  inv_vol : match vol v with
            | None => lempty (records (st v))
            | Some (hw, m) => lle (records (st v)) hw /\ forall k, m k = cnt (st v) k hw
            end
}.

Lemma slot_of_canonical k i :
  1 <= i -> i <= limN k -> In (slot_of k i) replay_slots /\ kind_of (slot_of k i) = k.
Proof.
  intros H1 H2. unfold limN in H2. unfold replay_slots.
  destruct k; assert (i = 1 \/ i = 2) as [->| ->] by lia; sim; try lia; intuition.
Qed.

(* the database write of an accepted UpdateVoteData *)
Lemma put_ok v em k p :
  Inv v em -> already_voted v k p = false ->
  let s' := vote_put v k p in
  lle (records (st v)) p /\ lle (records s') p /\ lhas (records s') p /\
  (forall k', cnt s' k' p = cnt (st v) k' p + ind k k' p p) /\
  (forall t, lle (records s') t -> s' SN2 = Some t -> s' SN1 = Some t).
Proof.
  intros HI Hav s'.
  pose proof (inv_vol _ _ HI) as Hvol. pose proof (inv_n2 _ _ HI) as Hn2.
  (* the slot written, with the three facts the write lemma needs *)
  assert (Hslot : exists sl, s' = upd (st v) sl p /\ In sl replay_slots /\ kind_of sl = k /\
                    st v sl <> Some p /\ lle (records (st v)) p /\
                    (sl = SN2 -> st v SN1 = Some p)).
  { unfold s', vote_put, already_voted in *.
    destruct (vol v) as [[hw m]|] eqn:Ev.
    - destruct Hvol as [Hle Hm].
      destruct (N.ltb_spec p hw) as [|Hge]; [discriminate|].
      assert (Hlep : lle (records (st v)) p) by (eapply lle_mono; eauto).
      destruct (N.eqb_spec p hw) as [->|Hne].
      + rewrite N.eqb_refl.
        assert (Hlt : m k < limN k).
        { pose proof (cnt_le_lim (st v) k hw) as Hc0. rewrite <- Hm in Hc0. unfold limN in *.
          destruct k; apply N.eqb_neq in Hav; lia. }
        assert (Hc : m k = cnt (st v) k hw) by apply Hm.
        destruct (slot_of_canonical k (m k + 1)) as [Hin Hk]; [lia|lia|].
        exists (slot_of k (m k + 1)). split; [reflexivity|]. split; [exact Hin|]. split; [exact Hk|].
        rewrite cnt_formula in Hc. unfold limN in Hlt.
        destruct k; cbn [slot_of] in *.
        * assert (m Prevote = 0) as E0 by lia. rewrite E0 in *. cbn.
          repeat split; auto; try discriminate. intros E. rewrite E in Hc. cbn in Hc. rewrite N.eqb_refl in Hc. lia.
        * assert (m Precommit = 0) as E0 by lia. rewrite E0 in *. cbn.
          repeat split; auto; try discriminate. intros E. rewrite E in Hc. cbn in Hc. rewrite N.eqb_refl in Hc. lia.
        * assert (m NextIndex = 0 \/ m NextIndex = 1) as [E0|E0] by lia; rewrite E0 in *; cbn.
          -- repeat split; auto; try discriminate. intros E. rewrite E in Hc. cbn in Hc. rewrite N.eqb_refl in Hc.
             destruct (st v SN2) as [q|]; cbn in Hc; [destruct (N.eqb q hw)|]; lia.
          -- assert (Hn : st v SN2 <> Some hw).
             { intros E. pose proof (Hn2 hw Hle E) as E1. rewrite E, E1 in Hc. cbn in Hc. rewrite N.eqb_refl in Hc. lia. }
             repeat split; auto. intros _.
             destruct (st v SN1) as [q1|] eqn:E1; destruct (st v SN2) as [q2|] eqn:E2; cbn in Hc;
               repeat match type of Hc with context [N.eqb ?a ?b] => destruct (N.eqb_spec a b) end;
               try lia; try congruence.
        * assert (m Certificate = 0) as E0 by lia. rewrite E0 in *. cbn.
          repeat split; auto; try discriminate. intros E. rewrite E in Hc. cbn in Hc. rewrite N.eqb_refl in Hc. lia.
      + destruct (N.eqb_spec hw p) as [|_]; [congruence|].
        destruct (slot_of_canonical k 1) as [Hin Hk]; [lia|unfold limN; destruct k; lia|].
        exists (slot_of k 1). split; [reflexivity|]. split; [exact Hin|]. split; [exact Hk|].
        split.
        { intros E. pose proof (recs_lle_slot _ _ _ _ _ Hle Hin E). lia. }
        split; [exact Hlep|]. destruct k; discriminate.
    - destruct (slot_of_canonical k 1) as [Hin Hk]; [lia|unfold limN; destruct k; lia|].
      exists (slot_of k 1). split; [reflexivity|]. split; [exact Hin|]. split; [exact Hk|].
      split; [rewrite (recs_lempty_slot _ _ _ Hvol Hin); discriminate|].
      split; [apply lempty_lle; exact Hvol|]. destruct k; discriminate. }
  destruct Hslot as (sl & -> & Hin & Hk & Hne & Hlep & Hsn2).
  destruct (recs_upd_in replay_slots (st v) sl p nodup_slots Hin Hne Hlep) as (G1 & G2 & G3).
  split; [exact Hlep|]. split; [exact G1|]. split; [exact G2|].
  split; [intros k'; unfold cnt; rewrite !records_recs, G3, Hk; reflexivity|].
  intros t Hlt E2. rewrite records_recs in Hlt.
  assert (Hpt : p <= t) by (eapply lhas_lle; eauto).
  assert (t <= p).
  { eapply (recs_lle_slot replay_slots _ p SN2); [exact G1| |exact E2]. unfold replay_slots; simpl; tauto. }
  assert (t = p) as -> by lia.
  destruct (slot_eqb sl SN1) eqn:E1.
  - apply slot_eqb_spec in E1. subst sl. apply upd_same.
  - assert (sl <> SN1) by (intros ->; rewrite slot_eqb_refl in E1; discriminate).
    rewrite upd_other by assumption.
    destruct (slot_eqb sl SN2) eqn:E3.
    + apply slot_eqb_spec in E3. auto.
    + assert (sl <> SN2) by (intros ->; rewrite slot_eqb_refl in E3; discriminate).
      rewrite upd_other in E2 by assumption. apply Hn2; assumption.
Qed.

Lemma below_count_zero v em k t p :
  Inv v em -> lle (records (st v)) p -> p < t -> count_em k t em = 0.
Proof.
  intros HI Hle Hlt. apply count_em_zero. intros k0 p0 Hin.
  destruct (inv_below _ _ HI _ _ Hin) as (t0 & Hh & Hp).
  pose proof (lhas_lle _ _ _ Hh Hle). lia.
Qed.

Lemma inv_restart s em :
  (forall k p, In (k, p) em -> exists t, lhas (records s) t /\ p <= t) ->
  (forall t k, lle (records s) t -> count_em k t em <= cnt s k t) ->
  (forall k p, count_em k p em <= limN k) ->
  (forall t, lle (records s) t -> s SN2 = Some t -> s SN1 = Some t) ->
  Inv (new_votedb s) em.
Proof.
  intros H1 H2 H3 H4. constructor; cbn [st vol new_votedb]; auto.
  unfold replay. pose proof (replay_none (records s)) as Hr.
  destruct (fold_left replay1 (records s) None) as [[t m]|]; [|exact Hr].
  destruct Hr as (Ha & _ & Hc). split; [exact Ha|]. intros k. apply Hc.
Qed.

Lemma inv_step v em o :
  Inv v em ->
  Inv (fst (step v o)) (em ++ emitted [snd (step v o)]).
Proof.
  intros HI. destruct o as [r i|k r i|k r i| |k r i]; cbn [step].
  - (* Ctx *)
    cbn [fst snd emitted flat_map]. rewrite app_nil_r.
    unfold update_context. pose proof (inv_vol _ _ HI) as Hvol.
    destruct (vol v) as [[hw m]|] eqn:Ev.
    + destruct (N.leb_spec (enc r i) hw) as [|Hgt]; [exact HI|].
      destruct Hvol as [Hle Hm].
      destruct HI as [A B C D _]. constructor; cbn [st vol]; auto.
      split; [eapply lle_mono; [exact Hle|lia]|].
      intros k. unfold mzero, cnt. symmetry. eapply lcount_above; eauto.
    + destruct HI as [A B C D _]. constructor; cbn [st vol]; auto.
      split; [apply lempty_lle; exact Hvol|].
      intros k. unfold mzero, cnt. symmetry. apply lempty_lcount. exact Hvol.
  - (* Vote *)
    unfold update_vote_data. set (p := enc r i).
    destruct (already_voted v k p) eqn:Hav.
    + cbn [fst snd emitted flat_map]. rewrite app_nil_r. exact HI.
    + cbn [fst snd emitted flat_map app].
      destruct (put_ok v em k p HI Hav) as (Hlep & G1 & G2 & G3 & G4).
      constructor; cbn [st vol].
      * intros k0 p0 Hin. apply in_app_or in Hin as [Hin|[Hin|[]]].
        -- destruct (inv_below _ _ HI _ _ Hin) as (t0 & Hh & Hp).
           exists p. split; [exact G2|]. pose proof (lhas_lle _ _ _ Hh Hlep). lia.
        -- injection Hin as <- <-. exists p. split; [exact G2|lia].
      * intros t k0 Hlt. rewrite count_em_app.
        pose proof (lhas_lle _ _ _ G2 Hlt) as Hpt.
        destruct (N.eq_dec t p) as [->|Hn].
        -- rewrite G3. pose proof (inv_top _ _ HI p k0 Hlep). lia.
        -- rewrite (below_count_zero v em k0 t p HI Hlep) by lia.
           unfold ind. destruct (N.eqb_spec p t); [congruence|]. rewrite andb_false_r. lia.
      * intros k0 p0. rewrite count_em_app. unfold ind.
        destruct (kind_eqb k k0) eqn:Ek; [|sim; pose proof (inv_limit _ _ HI k0 p0); lia].
        destruct (N.eqb_spec p p0) as [<-|]; [|sim; pose proof (inv_limit _ _ HI k0 p0); lia].
        apply kind_eqb_spec in Ek. subst k0. simpl.
        pose proof (inv_top _ _ HI p k Hlep). pose proof (cnt_le_lim (vote_put v k p) k p).
        rewrite G3 in H0. unfold ind in H0. rewrite kind_eqb_refl, N.eqb_refl in H0. simpl in H0. lia.
      * exact G4.
      * split; [exact G1|]. intros k0. rewrite G3.
        pose proof (inv_vol _ _ HI) as Hvol.
        assert (Hm0 : forall k1, (match vol v with
                                  | Some (hw, m) => if N.eqb hw p then m else mzero
                                  | None => mzero end) k1 = cnt (st v) k1 p).
        { intros k1. unfold already_voted in Hav. destruct (vol v) as [[hw m]|].
          - destruct Hvol as [Hle Hm]. destruct (N.eqb_spec hw p) as [->|Hn]; [apply Hm|].
            unfold mzero, cnt. symmetry. eapply lcount_above; [exact Hle|].
            destruct (N.ltb_spec p hw); [discriminate|lia].
          - unfold mzero, cnt. symmetry. apply lempty_lcount. exact Hvol. }
        unfold ind. destruct (kind_eqb k k0) eqn:Ek.
        -- apply kind_eqb_spec in Ek. subst k0. rewrite mupd_same, N.eqb_refl. sim. rewrite Hm0. lia.
        -- rewrite mupd_other by (intros ->; rewrite kind_eqb_refl in Ek; discriminate).
           sim. rewrite Hm0. lia.
  - (* Exist *)
    cbn [fst snd emitted flat_map]. rewrite app_nil_r. exact HI.
  - (* Restart *)
    cbn [fst snd emitted flat_map]. rewrite app_nil_r.
    destruct HI as [A B C D _]. apply inv_restart; auto.
  - (* CrashInVote *)
    set (p := enc r i).
    destruct (already_voted v k p) eqn:Hav; cbn [fst snd emitted flat_map]; rewrite app_nil_r.
    + destruct HI as [A B C D E]. apply inv_restart; auto.
    + destruct (put_ok v em k p HI Hav) as (Hlep & G1 & G2 & G3 & G4).
      apply inv_restart.
      * intros k0 p0 Hin. destruct (inv_below _ _ HI _ _ Hin) as (t0 & Hh & Hp).
        exists p. split; [exact G2|]. pose proof (lhas_lle _ _ _ Hh Hlep). lia.
      * intros t k0 Hlt. pose proof (lhas_lle _ _ _ G2 Hlt) as Hpt.
        destruct (N.eq_dec t p) as [->|Hn].
        -- rewrite G3. pose proof (inv_top _ _ HI p k0 Hlep). lia.
        -- rewrite (below_count_zero v em k0 t p HI Hlep) by lia. lia.
      * apply (inv_limit _ _ HI).
      * exact G4.
Qed.

Lemma inv_init : Inv init [].
Proof.
  constructor; cbn; auto; try (intros; contradiction); intros; try lia; try discriminate.
  all: unfold count_em, count_votes, limN; simpl; try destruct k; lia.
Qed.

Lemma emitted_cons x xs : emitted (x :: xs) = emitted [x] ++ emitted xs.
Proof. unfold emitted. cbn [flat_map]. rewrite app_nil_r. reflexivity. Qed.

Lemma inv_run ops : forall v em, Inv v em ->
  Inv (fst (run v ops)) (em ++ emitted (snd (run v ops))).
Proof.
  induction ops as [|o r IH]; intros v em HI.
  - cbn. rewrite app_nil_r. exact HI.
  - cbn [run]. destruct (step v o) as [v1 x] eqn:Es.
    destruct (run v1 r) as [v2 xs] eqn:Er. cbn [fst snd].
    pose proof (inv_step v em o HI) as H1. rewrite Es in H1. cbn [fst snd] in H1.
    specialize (IH v1 _ H1). rewrite Er in IH. cbn [fst snd] in IH.
    rewrite emitted_cons, app_assoc. exact IH.
Qed.

(* at most one vote per kind and position (two for next-index), any history *)
Lemma one_vote ops k p :
  (count_votes k p (emitted (snd (run init ops))) <= limit k)%nat.
Proof.
  pose proof (inv_run ops init [] inv_init) as HI. cbn [app] in HI.
  pose proof (inv_limit _ _ HI k p) as H. unfold count_em, limN in H. unfold limit.
  destruct k; lia.
Qed.

Lemma kind_of_slot_of k i : kind_of (slot_of k i) = k.
Proof.
  destruct k, i as [|q]; try reflexivity; destruct q as [q|q|]; try reflexivity;
    destruct q; reflexivity.
Qed.

(* the record is in the database when the vote goes out *)
Lemma persisted_when_emitted v k r i v' :
  step v (Vote k r i) = (v', OEmit k (enc r i)) ->
  exists sl, kind_of sl = k /\ st v' sl = Some (enc r i).
Proof.
  cbn [step]. unfold update_vote_data. destruct (already_voted v k (enc r i)); [discriminate|].
  intros H. injection H as <-. cbn [st]. unfold vote_put.
  eexists. split; [|apply upd_same]. apply kind_of_slot_of.
Qed.

(* positions are injective in (round, index) for 32-bit indexes *)
Lemma enc_inj r i r' i' : i < 4294967296 -> i' < 4294967296 -> enc r i = enc r' i' -> r = r' /\ i = i'.
Proof. unfold enc. intros. nia. Qed.
