(* C02 - property theorems only. *)
From VF.C02 Require Import Model Proofs.
Local Open Scope N_scope.

(* Full statement.  For EVERY history of context changes (forward, backward,
   arbitrary), vote attempts of any kind at any round/index, ExistVoteData
   probes, restarts (NewVoteDB on the same database) and crashes between the
   database write and everything after it inside UpdateVoteData - no
   assumption on the order of contexts whatsoever - the votes the database
   lets out contain, for each kind and each position (round, index), at most
   one vote, and at most two for next-index.  Since the block hash is not part
   of what is let out more than once, two different hashes can never be signed
   for one kind at one position.  Every vote a Voter gossips passes this gate
   (voter.go: vote() returns before newVote/AsyncPost when UpdateVoteData
   fails). *)
Theorem C02_one_vote :
  forall ops k p,
    (count_votes k p (emitted (snd (run init ops))) <= limit k)%nat.
Proof. exact one_vote. Qed.
Print Assumptions C02_one_vote.

(* the same in terms of (round, index) with 32-bit indexes: distinct pairs are
   distinct positions, so the bound is per (kind, round, index) *)
Theorem C02_positions_injective :
  forall r i r' i', i < 4294967296 -> i' < 4294967296 -> enc r i = enc r' i' -> r = r' /\ i = i'.
Proof. exact enc_inj. Qed.
Print Assumptions C02_positions_injective.

(* a vote that goes out is already on disk (a crash between persisting and
   gossiping loses the message, never the record) *)
Theorem C02_persist_before_post :
  forall v k r i v', step v (Vote k r i) = (v', OEmit k (enc r i)) ->
    exists sl, kind_of sl = k /\ st v' sl = Some (enc r i).
Proof. exact persisted_when_emitted. Qed.
Print Assumptions C02_persist_before_post.

(* non-vacuity: a history with a restart that re-enters the round at index 1
   lets out each vote once and refuses the repeats *)
Definition ex_ops : list op :=
  [Ctx 7 1; Vote Prevote 7 1; Ctx 7 2; Vote Prevote 7 2; Vote Certificate 7 2;
   Restart; Ctx 7 1; Vote Prevote 7 1; Ctx 7 2; Vote Prevote 7 2; Vote Certificate 7 2;
   Vote NextIndex 7 2; Vote NextIndex 7 2; Vote NextIndex 7 2].
Example C02_nonvacuous :
  map out_code (snd (run init ex_ops)) = [0; 1; 0; 1; 1; 0; 0; 2; 0; 2; 2; 1; 1; 2].
Proof. vm_compute. reflexivity. Qed.
Print Assumptions C02_nonvacuous.
