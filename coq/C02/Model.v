(* C02 - executable model of consensus/ucon/vote_cache.go (VoteDB): the
   persistent vote records, the volatile round/index/marks, NewVoteDB's replay,
   UpdateContext, UpdateVoteData, ExistVoteData/alreadyVoted.  Every vote a
   Voter emits passes through UpdateVoteData (voter.go: vote()), which is
   where "at most one vote per kind and round/index" is decided.
   No proofs in this file. *)
From Coq Require Export List NArith Bool.
Export ListNotations.
Open Scope N_scope.

Inductive kind := Prevote | Precommit | NextIndex | Certificate.

Definition kind_eqb (a b : kind) : bool :=
  match a, b with
  | Prevote, Prevote | Precommit, Precommit | NextIndex, NextIndex | Certificate, Certificate => true
  | _, _ => false
  end.

(* a position (round, roundIndex) as one number; roundIndex is a uint32 *)
Definition enc (round idx : N) : N := round * 4294967296 + idx.

(* the database keys NewVoteDB reads back, and "anything else" *)
Inductive slot := SPv | SPc | SN1 | SN2 | SCe | SOther (k : kind) (i : N).

Definition slot_of (k : kind) (index : N) : slot :=
  match k, index with
  | Prevote, 1 => SPv
  | Precommit, 1 => SPc
  | NextIndex, 1 => SN1
  | NextIndex, 2 => SN2
  | Certificate, 1 => SCe
  | _, _ => SOther k index
  end.

Definition slot_eqb (a b : slot) : bool :=
  match a, b with
  | SPv, SPv | SPc, SPc | SN1, SN1 | SN2, SN2 | SCe, SCe => true
  | SOther k i, SOther k' i' => kind_eqb k k' && N.eqb i i'
  | _, _ => false
  end.

Definition kind_of (s : slot) : kind :=
  match s with
  | SPv => Prevote | SPc => Precommit | SN1 | SN2 => NextIndex | SCe => Certificate
  | SOther k _ => k
  end.

Definition store := slot -> option N.         (* key -> position of the stored VoteItem *)
Definition marks := kind -> N.                (* VoteDB.mark *)

Definition upd (st : store) (s : slot) (p : N) : store :=
  fun s' => if slot_eqb s s' then Some p else st s'.
Definition mupd (m : marks) (k : kind) (v : N) : marks :=
  fun k' => if kind_eqb k k' then v else m k'.
Definition mzero : marks := fun _ => 0.

Record vdb := mkV {
  st  : store;
  vol : option (N * marks)   (* None: v.round == nil; Some (position, marks) *)
}.

(* the order NewVoteDB reads the records back *)
Definition replay_slots : list slot := [SPv; SPc; SN1; SN2; SCe].

(* updateFn of NewVoteDB on one record *)
Definition replay1 (acc : option (N * marks)) (rec : option (kind * N)) : option (N * marks) :=
  match rec with
  | None => acc
  | Some (k, p) =>
    match acc with
    | None => Some (p, mupd mzero k 1)
    | Some (hw, m) =>
      if N.ltb p hw then acc
      else if N.eqb p hw then Some (hw, mupd m k (m k + 1))
      else Some (p, mupd mzero k 1)
    end
  end.

Definition records (s : store) : list (option (kind * N)) :=
  map (fun sl => match s sl with Some p => Some (kind_of sl, p) | None => None end) replay_slots.

Definition replay (s : store) : option (N * marks) := fold_left replay1 (records s) None.

Definition new_votedb (s : store) : vdb := mkV s (replay s).

(* UpdateContext *)
Definition update_context (v : vdb) (p : N) : vdb :=
  match vol v with
  | Some (hw, _) => if N.leb p hw then v else mkV (st v) (Some (p, mzero))
  | None => mkV (st v) (Some (p, mzero))
  end.

(* alreadyVoted *)
Definition already_voted (v : vdb) (k : kind) (p : N) : bool :=
  match vol v with
  | None => false
  | Some (hw, m) =>
    if N.ltb p hw then true
    else if N.eqb p hw then
      match k with
      | NextIndex => N.eqb (m k) 2
      | _ => N.eqb (m k) 1
      end
    else false
  end.

(* the database write of UpdateVoteData (before the marks are touched) *)
Definition vote_put (v : vdb) (k : kind) (p : N) : store :=
  let index := match vol v with
               | Some (hw, m) => if N.eqb hw p then m k + 1 else 1
               | None => 1
               end in
  upd (st v) (slot_of k index) p.

(* UpdateVoteData: (new state, true = nil error, i.e. the vote goes out) *)
Definition update_vote_data (v : vdb) (k : kind) (p : N) : vdb * bool :=
  if already_voted v k p then (v, false)
  else
    let s' := vote_put v k p in
    let m0 := match vol v with
              | Some (hw, m) => if N.eqb hw p then m else mzero
              | None => mzero
              end in
    (mkV s' (Some (p, mupd m0 k (m0 k + 1))), true).

Inductive op :=
| Ctx (round idx : N)                  (* Voter.updateContext -> VoteDB.UpdateContext *)
| Vote (k : kind) (round idx : N)      (* Voter.vote -> VoteDB.UpdateVoteData *)
| Exist (k : kind) (round idx : N)     (* ExistVoteData *)
| Restart                              (* process killed; NewVoteDB on the same database *)
| CrashInVote (k : kind) (round idx : N). (* killed inside UpdateVoteData right after db.Put *)

Inductive out := ONone | OBool (b : bool) | OEmit (k : kind) (p : N) | ORefused.

Definition step (v : vdb) (o : op) : vdb * out :=
  match o with
  | Ctx r i => (update_context v (enc r i), ONone)
  | Vote k r i =>
    let '(v', ok) := update_vote_data v k (enc r i) in
    (v', if ok then OEmit k (enc r i) else ORefused)
  | Exist k r i => (v, OBool (already_voted v k (enc r i)))
  | Restart => (new_votedb (st v), ONone)
  | CrashInVote k r i =>
    if already_voted v k (enc r i) then (new_votedb (st v), ONone)
    else (new_votedb (vote_put v k (enc r i)), ONone)
  end.

Definition empty_store : store := fun _ => None.
Definition init : vdb := new_votedb empty_store.

Fixpoint run (v : vdb) (ops : list op) : vdb * list out :=
  match ops with
  | [] => (v, [])
  | o :: r => let '(v1, x) := step v o in
              let '(v2, xs) := run v1 r in (v2, x :: xs)
  end.

Definition emitted (outs : list out) : list (kind * N) :=
  flat_map (fun x => match x with OEmit k p => [(k, p)] | _ => [] end) outs.

Definition limit (k : kind) : nat := match k with NextIndex => 2%nat | _ => 1%nat end.

Definition count_votes (k : kind) (p : N) (em : list (kind * N)) : nat :=
  length (filter (fun e => kind_eqb (fst e) k && N.eqb (snd e) p) em).

(* ---- correspondence runner --------------------------------------------- *)
(* observed: per op, 0 = nothing observable, 1 = true / nil error (vote goes
   out), 2 = false / error (refused) *)
Record case := mkCase { c_ops : list op; c_obs : list N }.

Definition out_code (x : out) : N :=
  match x with
  | ONone => 0 | OBool true => 1 | OBool false => 2 | OEmit _ _ => 1 | ORefused => 2
  end.

Fixpoint list_eqb (a b : list N) : bool :=
  match a, b with
  | [], [] => true
  | x :: a', y :: b' => N.eqb x y && list_eqb a' b'
  | _, _ => false
  end.

Definition case_ok (c : case) : bool :=
  list_eqb (map out_code (snd (run init (c_ops c)))) (c_obs c).

Fixpoint mismatches_from (i : N) (l : list case) : list N :=
  match l with
  | [] => []
  | c :: r => if case_ok c then mismatches_from (i + 1) r else i :: mismatches_from (i + 1) r
  end.
Definition mismatches := mismatches_from 0.
