(* C15 - opcode bodies regenerated from core/vm/instructions.go compute their
   specified functions (part 2). *)
From Coq Require Import Lia ZifyBool ZifyN ZifyNat.
From VF.C15 Require Import Model ProofsArith ProofsHeap ProofsTac ProofsOpsCommon.
From VF.gen Require Import C15Ops.
Local Open Scope Z_scope.

Lemma opSlt_ok : comp_correct globals body_opSlt (F2 spec_slt).
Proof.
  start2. unfold body_opSlt. run_sym. all: norm; finish; norm; unfold spec_slt.
  all: try apply inrange_0; try apply inrange_1.
  all: signed_cmp.
Qed.
Lemma opSgt_ok : comp_correct globals body_opSgt (F2 spec_sgt).
Proof.
  start2. unfold body_opSgt. run_sym. all: norm; finish; norm; unfold spec_sgt.
  all: try apply inrange_0; try apply inrange_1.
  all: signed_cmp.
Qed.

Lemma opSAR_ok : comp_correct globals body_opSAR (F2 spec_sar).
Proof.
  start2. unfold body_opSAR. run_sym. all: norm; u64_bounds; finish; norm; unfold spec_sar.
  all: try apply wrap256_range.
  all: sgn_cases; pose proof tt256_double; pose proof tt255_pos; unfold inrange in *.
  all: try (replace (h la <? 256) with false by lia).
  all: try (replace (h la <? 256) with true by lia; rewrite shift_count by (unfold inrange; lia); reflexivity).
  all: rewrite ?wrap_i64_m1, ?wrap256_m1, ?wrap256_0.
  all: match goal with |- _ = (if ?b then _ else _) => destruct b eqn:? end; lia.
Qed.

Lemma opSignExtend_ok : comp_correct globals body_opSignExtend (F2 spec_signextend).
Proof.
  start2. unfold body_opSignExtend. run_sym. all: norm.
  all: try (assert (Ha : 0 <= h la < 31) by (unfold inrange in *; lia);
            rewrite !(bit_count _ Ha) in *;
            assert (Hw : wrap_i64 (8 * h la + 7) = 8 * h la + 7)
              by (apply wrap_i64_small; pose proof tt63_big; lia);
            rewrite ?Hw in *).
  all: finish; norm; unfold spec_signextend.
  all: try apply wrap256_range.
  - (* sign bit set *)
    replace (h la <? 31) with true by lia. cbv zeta.
    assert (Hb : Z.testbit (h lb) (8 * h la + 7) = true) by (destruct (Z.testbit _ _); [reflexivity|discriminate]).
    rewrite Hb, M256_tt. apply signext_set; [lia|unfold inrange in *; lia|exact Hb].
  - (* sign bit clear *)
    replace (h la <? 31) with true by lia. cbv zeta.
    assert (Hb : Z.testbit (h lb) (8 * h la + 7) = false) by (destruct (Z.testbit _ _); [discriminate|reflexivity]).
    rewrite Hb, signext_clear by (lia || exact Hb).
    apply wrap256_id, land_range; [assumption|].
    unfold inrange. rewrite tt256_eq, Z.ones_equiv.
    assert (2 ^ (8 * h la + 7 + 1) <= 2 ^ 256) by (apply Z.pow_le_mono_r; lia).
    assert (0 < 2 ^ (8 * h la + 7 + 1)) by (apply Z.pow_pos_nonneg; lia). lia.
  - assumption.
  - replace (h la <? 31) with false by lia. reflexivity.
Qed.

