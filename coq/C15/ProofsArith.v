(* C15 - arithmetic facts: the masked / shifted forms used by the executable
   definitions are the textbook functions; the big-integer computations of the
   opcode bodies give the specified 256-bit results. *)
From Coq Require Import Lia ZifyBool Znumtheory Zquot.
From VF.C15 Require Import Model.
Local Open Scope Z_scope.

Lemma tt256_eq : tt256 = 2 ^ 256. Proof. reflexivity. Qed.
Lemma tt255_eq : tt255 = 2 ^ 255. Proof. reflexivity. Qed.
Lemma tt256m1_eq : tt256m1 = 2 ^ 256 - 1. Proof. reflexivity. Qed.
Lemma tt256m1_ones : tt256m1 = Z.ones 256. Proof. reflexivity. Qed.
Lemma tt64_eq : tt64 = 2 ^ 64. Proof. reflexivity. Qed.
Lemma tt63_eq : tt63 = 2 ^ 63. Proof. reflexivity. Qed.
Lemma M256_eq : M256 = 2 ^ 256. Proof. reflexivity. Qed.
Lemma M255_eq : M255 = 2 ^ 255. Proof. reflexivity. Qed.
Lemma M256_tt : M256 = tt256. Proof. reflexivity. Qed.
Lemma M255_tt : M255 = tt255. Proof. reflexivity. Qed.
Lemma tt256_pos : 0 < tt256. Proof. reflexivity. Qed.
Lemma tt256_double : tt256 = 2 * tt255. Proof. reflexivity. Qed.
Lemma tt256m1_succ : tt256m1 = tt256 - 1. Proof. reflexivity. Qed.

Global Opaque tt255 tt256 tt256m1 tt64 tt63 M256 M255.

Definition inrange (z : Z) : Prop := 0 <= z < tt256.

Lemma wrap256_mod x : wrap256 x = x mod 2 ^ 256.
Proof. unfold wrap256. rewrite tt256m1_ones. apply Z.land_ones. lia. Qed.
Lemma wrap256_mod' x : wrap256 x = x mod tt256.
Proof. rewrite tt256_eq. apply wrap256_mod. Qed.
Lemma u256_wrap x : u256 x = wrap256 x. Proof. reflexivity. Qed.
Lemma wrap256_range x : inrange (wrap256 x).
Proof. unfold inrange. rewrite wrap256_mod'. apply Z.mod_pos_bound. apply tt256_pos. Qed.
Lemma wrap256_id x : inrange x -> wrap256 x = x.
Proof. unfold inrange. intros H. rewrite wrap256_mod'. apply Z.mod_small. exact H. Qed.

Lemma sgn256_range x : inrange x -> - tt255 <= sgn256 x < tt255.
Proof.
  unfold inrange, sgn256. rewrite M255_tt, M256_tt. pose proof tt256_double as Hdbl.
  intros H. destruct (x <? tt255) eqn:E; lia.
Qed.
Lemma sgn256_wrap x : inrange x -> wrap256 (sgn256 x) = x.
Proof.
  intros H. unfold sgn256. rewrite M255_tt, M256_tt. destruct (x <? tt255).
  - apply wrap256_id, H.
  - rewrite wrap256_mod'. replace (x - tt256) with (x + (-1) * tt256) by ring.
    rewrite Z.mod_add by (pose proof tt256_pos; lia). apply Z.mod_small, H.
Qed.

(* ---- the specification functions in textbook form ----------------------- *)
Lemma spec_add_eq a b : spec_add a b = (a + b) mod 2 ^ 256.
Proof. apply wrap256_mod. Qed.
Lemma spec_mul_eq a b : spec_mul a b = (a * b) mod 2 ^ 256.
Proof. apply wrap256_mod. Qed.
Lemma spec_sub_eq a b : spec_sub a b = (a - b) mod 2 ^ 256.
Proof. apply wrap256_mod. Qed.
Lemma spec_sdiv_eq a b :
  spec_sdiv a b = if b =? 0 then 0 else (Z.quot (sgn256 a) (sgn256 b)) mod 2 ^ 256.
Proof. unfold spec_sdiv. destruct (b =? 0); [reflexivity|apply wrap256_mod]. Qed.
Lemma spec_smod_eq a b :
  spec_smod a b = if b =? 0 then 0 else (Z.rem (sgn256 a) (sgn256 b)) mod 2 ^ 256.
Proof. unfold spec_smod. destruct (b =? 0); [reflexivity|apply wrap256_mod]. Qed.
Lemma spec_shl_eq s v : 0 <= s -> spec_shl s v = if s <? 256 then (v * 2 ^ s) mod 2 ^ 256 else 0.
Proof.
  intros Hs. unfold spec_shl. destruct (s <? 256); [|reflexivity].
  rewrite wrap256_mod, Z.shiftl_mul_pow2 by lia. reflexivity.
Qed.
Lemma spec_shr_eq s v : 0 <= s -> spec_shr s v = if s <? 256 then v / 2 ^ s else 0.
Proof.
  intros Hs. unfold spec_shr. destruct (s <? 256); [|reflexivity].
  apply Z.shiftr_div_pow2. lia.
Qed.
Lemma spec_sar_eq s v : 0 <= s ->
  spec_sar s v = if s <? 256 then (sgn256 v / 2 ^ s) mod 2 ^ 256
                 else if sgn256 v <? 0 then 2 ^ 256 - 1 else 0.
Proof.
  intros Hs. unfold spec_sar. destruct (s <? 256).
  - rewrite wrap256_mod, Z.shiftr_div_pow2 by lia. reflexivity.
  - rewrite tt256m1_eq. reflexivity.
Qed.
Lemma spec_byte_eq i x : 0 <= i ->
  spec_byte i x = if i <? 32 then (x / 2 ^ (8 * (31 - i))) mod 256 else 0.
Proof.
  intros Hi. unfold spec_byte. destruct (i <? 32) eqn:E; [|reflexivity].
  rewrite Z.shiftr_div_pow2 by lia. change 255 with (Z.ones 8).
  rewrite Z.land_ones by lia. reflexivity.
Qed.
Lemma spec_not_eq a : spec_not a = 2 ^ 256 - 1 - a.
Proof. unfold spec_not. rewrite tt256m1_eq. reflexivity. Qed.
Lemma spec_signextend_eq b x : 0 <= b ->
  spec_signextend b x =
  if b <? 31 then
    let t := 8 * b + 7 in
    if Z.testbit x t then x mod 2 ^ (t + 1) + (2 ^ 256 - 2 ^ (t + 1)) else x mod 2 ^ (t + 1)
  else x.
Proof.
  intros Hb. unfold spec_signextend. destruct (b <? 31); [|reflexivity].
  cbv zeta. rewrite Z.land_ones by lia. rewrite Z.shiftl_1_l, M256_eq. reflexivity.
Qed.

(* a^b mod 2^256 *)
Lemma pow256_pos_eq a p : pow256_pos a p = (a ^ Zpos p) mod tt256.
Proof.
  pose proof tt256_pos as Hp.
  induction p as [p IH|p IH|]; cbn [pow256_pos].
  - rewrite !wrap256_mod', IH.
    rewrite Pos2Z.inj_xI. replace (2 * Z.pos p + 1) with (Z.pos p + Z.pos p + 1) by lia.
    rewrite !Z.pow_add_r, Z.pow_1_r by lia.
    rewrite <- Z.mul_mod by lia. rewrite Z.mul_mod_idemp_l by lia. reflexivity.
  - rewrite wrap256_mod', IH.
    rewrite Pos2Z.inj_xO. replace (2 * Z.pos p) with (Z.pos p + Z.pos p) by lia.
    rewrite Z.pow_add_r by lia. rewrite <- Z.mul_mod by lia. reflexivity.
  - rewrite wrap256_mod', Z.pow_1_r. reflexivity.
Qed.
Lemma spec_exp_eq a b : 0 <= b -> spec_exp a b = (a ^ b) mod 2 ^ 256.
Proof.
  intros Hb. unfold spec_exp, pow256. rewrite <- tt256_eq. destruct b as [|p|p].
  - rewrite Z.pow_0_r. symmetry. apply Z.mod_small. rewrite tt256_eq. lia.
  - apply pow256_pos_eq.
  - lia.
Qed.

(* ---- math.Exp ------------------------------------------------------------ *)
Lemma mod_mul_congr a a' b b' m : 0 < m ->
  a mod m = a' mod m -> b mod m = b' mod m -> (a * b) mod m = (a' * b') mod m.
Proof. intros Hm Ha Hb. rewrite Z.mul_mod, Ha, Hb, <- Z.mul_mod by lia. reflexivity. Qed.

Lemma pow_mod_l a k m : 0 < m -> 0 <= k -> ((a mod m) ^ k) mod m = (a ^ k) mod m.
Proof.
  intros Hm Hk. revert k Hk. apply natlike_ind.
  - reflexivity.
  - intros k Hk IH. rewrite !Z.pow_succ_r by lia.
    apply mod_mul_congr; [lia|apply Z.mod_mod; lia|exact IH].
Qed.

(* invariant of the square-and-multiply loop *)
Lemma exp_iter_inv n : forall res base e,
  0 <= e -> e < 2 ^ Z.of_nat n ->
  fst (exp_iter n res base e) mod tt256 = (res * base ^ e) mod tt256.
Proof.
  pose proof tt256_pos as Hp.
  induction n as [|n IH]; intros res base e He Hlt.
  - cbn [exp_iter fst]. assert (e = 0) by (cbn in Hlt; lia). subst. rewrite Z.pow_0_r, Z.mul_1_r. reflexivity.
  - cbn [exp_iter]. rewrite Nat2Z.inj_succ, Z.pow_succ_r in Hlt by lia.
    pose proof (Z.div2_odd e) as Hd. rewrite Z.div2_div in Hd.
    assert (H2 : 0 <= e / 2) by (apply Z.div_pos; lia).
    rewrite IH; [|exact H2|apply Z.div_lt_upper_bound; lia].
    rewrite !u256_wrap.
    assert (Hsq : ((wrap256 (base * base)) ^ (e / 2)) mod tt256 = ((base * base) ^ (e / 2)) mod tt256).
    { rewrite wrap256_mod'. apply pow_mod_l; lia. }
    destruct (Z.odd e); cbn [Z.b2z] in Hd.
    + rewrite Hd at 2. rewrite Z.pow_add_r, Z.pow_1_r, Z.pow_mul_r by lia.
      rewrite Z.pow_2_r.
      replace (res * ((base * base) ^ (e / 2) * base)) with ((res * base) * (base * base) ^ (e / 2)) by ring.
      apply mod_mul_congr; [lia| |exact Hsq].
      rewrite wrap256_mod'. apply Z.mod_mod. lia.
    + rewrite Hd at 2. rewrite Z.add_0_r, Z.pow_mul_r by lia.
      rewrite Z.pow_2_r.
      apply mod_mul_congr; [lia|reflexivity|exact Hsq].
Qed.

Lemma exp_iter_range n : forall res base e,
  inrange res -> inrange (fst (exp_iter n res base e)).
Proof.
  induction n as [|n IH]; intros res base e Hr; cbn [exp_iter fst]; [exact Hr|].
  apply IH. destruct (Z.odd e); [rewrite u256_wrap; apply wrap256_range|exact Hr].
Qed.
Lemma exp_iter_base_range n : forall res base e,
  inrange base -> inrange (snd (exp_iter n res base e)).
Proof.
  induction n as [|n IH]; intros res base e Hr; cbn [exp_iter snd]; [exact Hr|].
  apply IH. rewrite u256_wrap; apply wrap256_range.
Qed.

Lemma bitlen_bound e : 0 <= e -> e < 2 ^ bitlen_of e.
Proof.
  intros He. unfold bitlen_of. destruct (e =? 0) eqn:E.
  - apply Z.eqb_eq in E. subst. reflexivity.
  - apply Z.eqb_neq in E. rewrite Z.abs_eq by lia.
    apply Z.log2_spec. lia.
Qed.

Lemma exp_sem_correct base e : inrange e ->
  fst (exp_sem base e) = spec_exp base e.
Proof.
  intros He. unfold inrange in He. unfold exp_sem. rewrite Z.abs_eq by lia.
  assert (Hr : inrange (fst (exp_iter (Z.to_nat (64 * exp_words e)) 1 base e))).
  { apply exp_iter_range. unfold inrange. rewrite tt256_eq. lia. }
  rewrite <- (wrap256_id _ Hr), wrap256_mod'.
  rewrite exp_iter_inv.
  - rewrite Z.mul_1_l, spec_exp_eq, tt256_eq by lia. reflexivity.
  - lia.
  - pose proof (bitlen_bound e ltac:(lia)) as Hb.
    assert (Hbl : 0 <= bitlen_of e).
    { unfold bitlen_of. destruct (e =? 0); [lia|]. pose proof (Z.log2_nonneg (Z.abs e)). lia. }
    unfold exp_words. rewrite Z2Nat.id by (apply Z.mul_nonneg_nonneg; [lia|apply Z.div_pos; lia]).
    eapply Z.lt_le_trans; [exact Hb|]. apply Z.pow_le_mono_r; [lia|].
    pose proof (Z.div_mod (bitlen_of e + 63) 64 ltac:(lia)).
    pose proof (Z.mod_pos_bound (bitlen_of e + 63) 64 ltac:(lia)). lia.
Qed.

(* ---- small facts used when closing the opcode proofs ------------------------------- *)
Lemma inrange_0 : inrange 0. Proof. unfold inrange. pose proof tt256_pos. lia. Qed.
Lemma inrange_1 : inrange 1. Proof. unfold inrange. rewrite tt256_eq. lia. Qed.
Lemma inrange_b2w b : inrange (b2w b). Proof. destruct b; [apply inrange_1|apply inrange_0]. Qed.
Lemma wrap_u64_0 : wrap_u64 0 = 0. Proof. reflexivity. Qed.
Lemma wrap_u64_1 : wrap_u64 1 = 1. Proof. unfold wrap_u64. rewrite tt64_eq. reflexivity. Qed.
Lemma wrap_u64_small k : 0 <= k < tt64 -> wrap_u64 k = k.
Proof. intros H. unfold wrap_u64. apply Z.mod_small, H. Qed.
Lemma tt64_lt_256 : tt64 < tt256. Proof. rewrite tt64_eq, tt256_eq. lia. Qed.
Lemma tt63_pos : 0 < tt63. Proof. rewrite tt63_eq. lia. Qed.
Lemma tt64_double : tt64 = 2 * tt63. Proof. rewrite tt64_eq, tt63_eq. reflexivity. Qed.
Lemma tt255_pos : 0 < tt255. Proof. rewrite tt255_eq. lia. Qed.

Lemma ediv_pos x y : 0 < y -> Z.sgn y * (x / Z.abs y) = x / y.
Proof. intros H. rewrite Z.abs_eq, Z.sgn_pos by lia. lia. Qed.
Lemma div_range a b : inrange a -> 0 < b -> inrange (a / b).
Proof.
  unfold inrange. intros Ha Hb. split; [apply Z.div_pos; lia|].
  apply Z.le_lt_trans with a; [|lia]. apply Z.div_le_upper_bound; nia.
Qed.
Lemma mod_range a b : 0 < b -> b < tt256 -> inrange (a mod b).
Proof. unfold inrange. intros Hb Hlt. pose proof (Z.mod_pos_bound a b Hb). lia. Qed.

Lemma land_range a b : inrange a -> inrange b -> inrange (Z.land a b).
Proof.
  unfold inrange. rewrite tt256_eq. intros Ha Hb. split.
  - apply Z.land_nonneg. lia.
  - destruct (Z.eq_dec a 0) as [->|Hn]; [rewrite Z.land_0_l; lia|].
    apply Z.log2_lt_cancel. rewrite Z.log2_pow2 by lia.
    eapply Z.le_lt_trans; [apply Z.log2_land; lia|].
    apply Z.min_lt_iff. left. apply Z.log2_lt_pow2; lia.
Qed.
Lemma lor_range a b : inrange a -> inrange b -> inrange (Z.lor a b).
Proof.
  unfold inrange. rewrite tt256_eq. intros Ha Hb. split.
  - apply Z.lor_nonneg. lia.
  - destruct (Z.eq_dec (Z.lor a b) 0) as [->|Hn]; [lia|].
    assert (0 < Z.lor a b) by (pose proof (proj2 (Z.lor_nonneg a b) ltac:(lia)); lia).
    apply Z.log2_lt_pow2; [lia|]. rewrite Z.log2_lor by lia.
    apply Z.max_lub_lt.
    + destruct (Z.eq_dec a 0) as [->|Ha0]; [cbn; lia|]. apply Z.log2_lt_pow2; lia.
    + destruct (Z.eq_dec b 0) as [->|Hb0]; [cbn; lia|]. apply Z.log2_lt_pow2; lia.
Qed.
Lemma lxor_range a b : inrange a -> inrange b -> inrange (Z.lxor a b).
Proof.
  unfold inrange. rewrite tt256_eq. intros Ha Hb. split.
  - apply Z.lxor_nonneg. lia.
  - destruct (Z.eq_dec (Z.lxor a b) 0) as [->|Hn]; [lia|].
    assert (0 < Z.lxor a b) by (pose proof (proj2 (Z.lxor_nonneg a b) ltac:(lia)); lia).
    apply Z.log2_lt_pow2; [lia|].
    eapply Z.le_lt_trans; [apply Z.log2_lxor; lia|].
    apply Z.max_lub_lt.
    + destruct (Z.eq_dec a 0) as [->|Ha0]; [cbn; lia|]. apply Z.log2_lt_pow2; lia.
    + destruct (Z.eq_dec b 0) as [->|Hb0]; [cbn; lia|]. apply Z.log2_lt_pow2; lia.
Qed.

(* U256(x.Not(x)) *)
Lemma not_wrap a : inrange a -> wrap256 (Z.lnot a) = tt256m1 - a.
Proof.
  unfold inrange. intros Ha. rewrite wrap256_mod'. unfold Z.lnot.
  replace (Z.pred (- a)) with ((tt256m1 - a) + (-1) * tt256) by (rewrite tt256m1_succ; lia).
  rewrite Z.mod_add by lia. apply Z.mod_small. rewrite tt256m1_succ. lia.
Qed.

(* comparisons *)
Lemma cmp_lt a b : (cmp_sem a b <? 0) = (a <? b).
Proof. unfold cmp_sem. destruct (Z.compare_spec a b); lia. Qed.
Lemma cmp_gt a b : (cmp_sem a b >? 0) = (a >? b).
Proof. unfold cmp_sem. destruct (Z.compare_spec a b); lia. Qed.
Lemma cmp_eq a b : (cmp_sem a b =? 0) = (a =? b).
Proof. unfold cmp_sem. destruct (Z.compare_spec a b); lia. Qed.
Lemma cmp_ge a b : (cmp_sem a b >=? 0) = (a >=? b).
Proof. unfold cmp_sem. destruct (Z.compare_spec a b); lia. Qed.

(* machine integer conversions on small values *)
Lemma wrap_i64_small k : - tt63 <= k < tt63 -> wrap_i64 k = k.
Proof.
  intros H. unfold wrap_i64. pose proof tt64_double. rewrite Z.mod_small by lia. lia.
Qed.
Lemma int64_of_small x : 0 <= x < tt63 -> int64_of x = x.
Proof.
  intros H. unfold int64_of. pose proof tt64_double. pose proof tt63_pos.
  rewrite Z.abs_eq by lia. rewrite (Z.mod_small x) by lia.
  replace (x <? 0) with false by lia. apply wrap_i64_small. lia.
Qed.
Lemma uint64_of_small x : 0 <= x < tt64 -> uint64_of x = x.
Proof. intros H. unfold uint64_of. rewrite Z.abs_eq by lia. apply Z.mod_small, H. Qed.

Lemma land_255_range x : 0 <= Z.land x 255 < 256.
Proof. change 255 with (Z.ones 8). rewrite Z.land_ones by lia. apply Z.mod_pos_bound. lia. Qed.
Lemma small_inrange k : 0 <= k < tt64 -> inrange k.
Proof. unfold inrange. pose proof tt64_lt_256. lia. Qed.
Lemma tt63_big : 4294967296 < tt63. Proof. rewrite tt63_eq. reflexivity. Qed.
Lemma tt64_big : 4294967296 < tt64. Proof. rewrite tt64_eq. reflexivity. Qed.
Lemma wrap_u64_bound k : 0 <= wrap_u64 k < tt64.
Proof. unfold wrap_u64. apply Z.mod_pos_bound. rewrite tt64_eq. lia. Qed.
Lemma shiftl_wrap_range v s : inrange (wrap256 (Z.shiftl v s)).
Proof. apply wrap256_range. Qed.
Lemma shiftr_range v s : inrange v -> 0 <= s -> inrange (Z.shiftr v s).
Proof.
  unfold inrange. intros Hv Hs. rewrite Z.shiftr_div_pow2 by lia.
  assert (0 < 2 ^ s) by (apply Z.pow_pos_nonneg; lia).
  split; [apply Z.div_pos; lia|]. apply Z.le_lt_trans with v; [|lia].
  apply Z.div_le_upper_bound; nia.
Qed.

Lemma sgn256_lt_eq x : (x <? tt255) = true -> sgn256 x = x.
Proof. intros H. unfold sgn256. rewrite M255_tt, H. reflexivity. Qed.
Lemma sgn256_ge_eq x : (x <? tt255) = false -> sgn256 x = x - tt256.
Proof. intros H. unfold sgn256. rewrite M255_tt, M256_tt, H. reflexivity. Qed.
Lemma wrap256_0 : wrap256 0 = 0. Proof. reflexivity. Qed.
Lemma wrap256_m1 : wrap256 (-1) = tt256m1.
Proof.
  rewrite wrap256_mod'. replace (-1) with (tt256m1 + (-1) * tt256) by (rewrite tt256m1_succ; lia).
  rewrite Z.mod_add by (pose proof tt256_pos; lia). apply Z.mod_small.
  rewrite tt256m1_succ. pose proof tt256_pos. lia.
Qed.
Lemma wrap_i64_m1 : wrap_i64 (-1) = -1.
Proof. apply wrap_i64_small. pose proof tt63_pos. lia. Qed.

(* ---- SIGNEXTEND ---------------------------------------------------------------------- *)
Lemma ones_testbit k n : 0 <= k -> 0 <= n -> Z.testbit (Z.ones k) n = (n <? k).
Proof.
  intros Hk Hn. destruct (Z.ltb_spec n k).
  - apply Z.ones_spec_low. lia.
  - apply Z.ones_spec_high. lia.
Qed.
Lemma shiftl1_ones t : 0 <= t -> Z.shiftl 1 t - 1 = Z.ones t.
Proof. intros Ht. rewrite Z.shiftl_1_l, Z.ones_equiv. lia. Qed.

Lemma signext_clear x t : 0 <= t -> Z.testbit x t = false ->
  Z.land x (Z.shiftl 1 t - 1) = Z.land x (Z.ones (t + 1)).
Proof.
  intros Ht Hb. rewrite shiftl1_ones by lia. apply Z.bits_inj'. intros n Hn.
  rewrite !Z.land_spec, !ones_testbit by lia.
  destruct (Z.eq_dec n t) as [->|Hne]; [rewrite Hb; reflexivity|].
  replace (n <? t + 1) with (n <? t) by lia. reflexivity.
Qed.

Lemma signext_set x t : 0 <= t < 256 -> 0 <= x -> Z.testbit x t = true ->
  wrap256 (Z.lor x (Z.lnot (Z.shiftl 1 t - 1))) =
  Z.land x (Z.ones (t + 1)) + (tt256 - Z.shiftl 1 (t + 1)).
Proof.
  intros Ht Hx Hb. rewrite shiftl1_ones by lia.
  assert (E2 : tt256 - Z.shiftl 1 (t + 1) = Z.shiftl (Z.ones (255 - t)) (t + 1)).
  { rewrite Z.shiftl_1_l, Z.shiftl_mul_pow2, Z.ones_equiv, tt256_eq by lia.
    replace 256 with ((255 - t) + (t + 1)) at 1 by lia. rewrite Z.pow_add_r by lia. lia. }
  rewrite E2.
  assert (Hdisj : Z.land (Z.land x (Z.ones (t + 1))) (Z.shiftl (Z.ones (255 - t)) (t + 1)) = 0).
  { apply Z.bits_inj'. intros n Hn.
    rewrite !Z.land_spec, Z.shiftl_spec, Z.bits_0, ones_testbit by lia.
    destruct (Z.ltb_spec n (t + 1)).
    - rewrite (Z.testbit_neg_r _ (n - (t + 1))) by lia. apply Bool.andb_false_r.
    - rewrite Bool.andb_false_r. reflexivity. }
  rewrite Z.add_nocarry_lxor, Z.lxor_lor by exact Hdisj.
  unfold wrap256. rewrite tt256m1_ones.
  apply Z.bits_inj'. intros n Hn.
  rewrite Z.land_spec, !Z.lor_spec, Z.lnot_spec, Z.land_spec, Z.shiftl_spec, !ones_testbit by lia.
  destruct (Z.ltb_spec n 256) as [H256|H256].
  - destruct (Z.ltb_spec n (t + 1)) as [Hlt|Hge].
    + rewrite (Z.testbit_neg_r _ (n - (t + 1))) by lia.
      destruct (Z.eq_dec n t) as [->|Hne].
      * rewrite Hb. replace (t <? t) with false by lia. reflexivity.
      * replace (n <? t) with true by lia. cbn. rewrite !Bool.orb_false_r, Bool.andb_true_r. reflexivity.
    + rewrite ones_testbit by lia. replace (n <? t) with false by lia.
      replace (n - (t + 1) <? 255 - t) with true by lia.
      cbn. rewrite !Bool.orb_true_r. reflexivity.
  - rewrite Bool.andb_false_r. rewrite ones_testbit by lia.
    replace (n <? t + 1) with false by lia. replace (n - (t + 1) <? 255 - t) with false by lia.
    rewrite Bool.andb_false_r. reflexivity.
Qed.

(* bit := uint(back.Uint64()*8 + 7) for back < 31 *)
Lemma bit_count a : 0 <= a < 31 ->
  wrap_u64 (wrap_u64 (wrap_u64 (uint64_of a * 8) + 7)) = 8 * a + 7.
Proof.
  intros Ha. pose proof tt64_big. rewrite uint64_of_small by lia.
  rewrite (wrap_u64_small (a * 8)) by lia. rewrite (wrap_u64_small (a * 8 + 7)) by lia.
  rewrite wrap_u64_small by lia. lia.
Qed.

(* ---- SDIV / SMOD: the sign-magnitude computation of the Go code is truncated division -- *)
Lemma sdiv_zero X Y : X = 0 -> 0 = wrap256 (X ÷ Y).
Proof. intros ->. rewrite Zquot.Zquot_0_l. reflexivity. Qed.
Lemma sdiv_neg' X Y : Y <> 0 -> X <> 0 -> Z.sgn X <> Z.sgn Y ->
  wrap256 (- (Z.sgn (Z.abs Y) * (Z.abs X / Z.abs (Z.abs Y)))) = wrap256 (X ÷ Y).
Proof.
  intros HY HX Hs. f_equal. rewrite Z.quot_div by exact HY.
  rewrite Z.abs_involutive. rewrite (Z.sgn_pos (Z.abs Y)) by lia.
  assert (Z.sgn X * Z.sgn Y = -1) by lia. nia.
Qed.
Lemma sdiv_pos' X Y : Y <> 0 -> X <> 0 -> Z.sgn X = Z.sgn Y ->
  wrap256 (Z.sgn (Z.abs Y) * (Z.abs X / Z.abs (Z.abs Y))) = wrap256 (X ÷ Y).
Proof.
  intros HY HX Hs. f_equal. rewrite Z.quot_div by exact HY.
  rewrite Z.abs_involutive. rewrite (Z.sgn_pos (Z.abs Y)) by lia.
  assert (Z.sgn X * Z.sgn Y = 1) by lia. nia.
Qed.
Lemma smod_neg' X Y : Y <> 0 -> X < 0 ->
  wrap256 (- (Z.abs X mod Z.abs (Z.abs Y))) = wrap256 (Z.rem X Y).
Proof.
  intros HY HX. f_equal. rewrite Z.rem_mod by exact HY.
  rewrite Z.abs_involutive, (Z.sgn_neg X) by lia. lia.
Qed.
Lemma smod_pos' X Y : Y <> 0 -> 0 <= X ->
  wrap256 (Z.abs X mod Z.abs (Z.abs Y)) = wrap256 (Z.rem X Y).
Proof.
  intros HY HX. f_equal. rewrite Z.rem_mod by exact HY. rewrite Z.abs_involutive.
  destruct (Z.eq_dec X 0) as [->|Hn]; [reflexivity|].
  rewrite (Z.sgn_pos X) by lia. lia.
Qed.

Lemma exp_sem_range base e : inrange (fst (exp_sem base e)).
Proof. unfold exp_sem. apply exp_iter_range. apply inrange_1. Qed.

(* ---- bytes ------------------------------------------------------------------------------ *)
Lemma be_to_Z_acc_bound l : forall acc, 0 <= acc ->
  Forall (fun b => (b < 256)%N) l ->
  acc * 256 ^ Z.of_nat (length l) <= be_to_Z_acc acc l < (acc + 1) * 256 ^ Z.of_nat (length l).
Proof.
  induction l as [|b r IH]; intros acc Ha Hf.
  - cbn. lia.
  - apply Forall_cons_iff in Hf as [Hb Hr]. cbn [be_to_Z_acc length].
    rewrite Nat2Z.inj_succ, Z.pow_succ_r by lia.
    specialize (IH (256 * acc + Z.of_N b) ltac:(lia) Hr).
    assert (0 < 256 ^ Z.of_nat (length r)) by (apply Z.pow_pos_nonneg; lia).
    assert (Z.of_N b < 256) by lia. nia.
Qed.
Lemma be_to_Z_range l : Forall (fun b => (b < 256)%N) l -> (length l <= 32)%nat -> inrange (be_to_Z l).
Proof.
  intros Hf Hl. unfold be_to_Z, inrange. pose proof (be_to_Z_acc_bound l 0 ltac:(lia) Hf) as Hb.
  assert (256 ^ Z.of_nat (length l) <= 256 ^ 32) by (apply Z.pow_le_mono_r; lia).
  rewrite tt256_eq. change (2 ^ 256) with (256 ^ 32). lia.
Qed.
Lemma be_bytes_ok n : forall z, Forall (fun b => (b < 256)%N) (be_bytes n z).
Proof.
  induction n as [|n IH]; intros z; cbn [be_bytes]; [constructor|].
  apply Forall_app. split; [apply IH|]. constructor; [|constructor].
  pose proof (Z.mod_pos_bound z 256 ltac:(lia)). lia.
Qed.
Lemma be_bytes_length n : forall z, length (be_bytes n z) = n.
Proof. induction n as [|n IH]; intros z; cbn [be_bytes]; [reflexivity|]. rewrite app_length, IH. cbn. lia. Qed.

(* byte(val & 0xff) of val.Int64() is the low byte of val *)
Lemma low_byte_int64 v : 0 <= v -> wrap_u8 (Z.land (int64_of v) 255) = v mod 256.
Proof.
  intros Hv. unfold wrap_u8. change 255 with (Z.ones 8). rewrite Z.land_ones by lia.
  change (2 ^ 8) with 256. rewrite Z.mod_mod by lia.
  unfold int64_of. rewrite Z.abs_eq by lia. replace (v <? 0) with false by lia.
  unfold wrap_i64. rewrite tt64_eq, tt63_eq.
  pose proof (Z.div_mod v (2 ^ 64) ltac:(lia)) as E1.
  pose proof (Z.div_mod (v mod 2 ^ 64 + 2 ^ 63) (2 ^ 64) ltac:(lia)) as E2.
  set (q1 := v / 2 ^ 64) in *. set (q2 := (v mod 2 ^ 64 + 2 ^ 63) / 2 ^ 64) in *.
  replace ((v mod 2 ^ 64 + 2 ^ 63) mod 2 ^ 64 - 2 ^ 63)
    with (v + (- (q1 + q2) * 2 ^ 56) * 256) by (change (2 ^ 64) with (2 ^ 56 * 256) in *; lia).
  apply Z.mod_add. lia.
Qed.

(* ---- math.Byte / bigEndianByteAt over 64-bit words ------------------------------------------- *)
Lemma word_at_byte x k : 0 <= x -> 0 <= k ->
  wrap_u8 (Z.shiftr (word_at x (k ÷ 8)) (8 * Z.rem k 8)) = Z.land (Z.shiftr x (8 * k)) 255.
Proof.
  intros Hx Hk. rewrite Z.quot_div_nonneg, Z.rem_mod_nonneg by lia.
  assert (Hd : 0 <= k / 8 /\ 0 <= k mod 8 < 8 /\ k = 8 * (k / 8) + k mod 8)
    by (Z.div_mod_to_equations; lia).
  destruct Hd as (Hq & Hr & Hkk). set (i := k / 8) in *. set (r := k mod 8) in *.
  unfold wrap_u8, word_at. rewrite Z.abs_eq by lia. rewrite tt64_eq.
  change 256 with (2 ^ 8). rewrite <- !Z.land_ones by lia. change 255 with (Z.ones 8).
  rewrite <- !Z.shiftr_div_pow2 by lia.
  apply Z.bits_inj'. intros n Hn.
  rewrite !Z.land_spec, !Z.shiftr_spec, Z.land_spec, Z.shiftr_spec, !ones_testbit by lia.
  destruct (Z.ltb_spec n 8) as [H8|H8]; [|rewrite !Bool.andb_false_r; reflexivity].
  replace (n + 8 * r <? 64) with true by lia. rewrite !Bool.andb_true_r.
  f_equal. lia.
Qed.

Lemma bits_len_bound x : 0 <= x -> x < 2 ^ (64 * bits_len x).
Proof.
  intros Hx. pose proof (bitlen_bound x Hx) as Hb. unfold bits_len.
  assert (Hbl : 0 <= bitlen_of x).
  { unfold bitlen_of. destruct (x =? 0); [lia|]. pose proof (Z.log2_nonneg (Z.abs x)). lia. }
  eapply Z.lt_le_trans; [exact Hb|]. apply Z.pow_le_mono_r; [lia|]. Z.div_mod_to_equations. lia.
Qed.
Lemma bits_len_nonneg x : 0 <= bits_len x.
Proof.
  unfold bits_len. assert (0 <= bitlen_of x).
  { unfold bitlen_of. destruct (x =? 0); [lia|]. pose proof (Z.log2_nonneg (Z.abs x)). lia. }
  Z.div_mod_to_equations. lia.
Qed.
Lemma byte_beyond_words x k : 0 <= x -> 0 <= k -> bits_len x <= k ÷ 8 ->
  Z.land (Z.shiftr x (8 * k)) 255 = 0.
Proof.
  intros Hx Hk Hle. rewrite Z.quot_div_nonneg in Hle by lia.
  pose proof (bits_len_bound x Hx) as Hb. pose proof (bits_len_nonneg x) as Hn.
  rewrite Z.shiftr_div_pow2 by lia.
  assert (2 ^ (64 * bits_len x) <= 2 ^ (8 * k)).
  { apply Z.pow_le_mono_r; [lia|]. Z.div_mod_to_equations. lia. }
  rewrite Z.div_small by lia. reflexivity.
Qed.
