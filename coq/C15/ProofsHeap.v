(* C15 - the well-formedness invariant of the heap machine and the lemmas the
   symbolic execution of opcode bodies rests on. *)
From Coq Require Import Lia ZifyBool ZifyN ZifyNat.
From VF.C15 Require Import Model ProofsArith.
Local Open Scope Z_scope.

(* ---- heap updates --------------------------------------------------------- *)
Lemma upd_same h l v : upd h l v l = v.
Proof. unfold upd. rewrite N.eqb_refl. reflexivity. Qed.
Lemma upd_other h l v l' : l' <> l -> upd h l v l' = h l'.
Proof. unfold upd. intros H. apply N.eqb_neq in H. rewrite H. reflexivity. Qed.

Lemma map_upd_notin h l v ls : ~ In l ls -> map (upd h l v) ls = map h ls.
Proof.
  induction ls as [|x r IH]; intros H; [reflexivity|]. cbn [map].
  rewrite upd_other by (intros ->; apply H; left; reflexivity).
  rewrite IH by (intros Hi; apply H; right; exact Hi). reflexivity.
Qed.
Lemma Forall_upd_notin (P : Z -> Prop) h l v ls :
  ~ In l ls -> Forall (fun x => P (h x)) ls -> Forall (fun x => P (upd h l v x)) ls.
Proof.
  intros Hn Hf. rewrite Forall_forall in *. intros x Hx.
  rewrite upd_other by (intros ->; exact (Hn Hx)). apply Hf, Hx.
Qed.

(* ---- the invariant ----------------------------------------------------------- *)
(* gv: values of the package level variables (cells 0 .. |gv|-1) *)
Definition globals_ok (gv : list Z) (h : loc -> Z) : Prop :=
  forall i v, nth_error gv i = Some v -> h (N.of_nat i) = v.
Definition allocated (gv : list Z) (nx : loc) (l : loc) : Prop :=
  (N.of_nat (length gv) <= l < nx)%N.
Definition bytes_ok (m : list N) : Prop := Forall (fun b => (b < 256)%N) m.

Record WF (gv : list Z) (c : cfg) : Prop := mkWF {
  wf_nodup : NoDup (stack c ++ pool c);          (* no cell is shared *)
  wf_alloc : Forall (allocated gv (next c)) (stack c ++ pool c);
  wf_range : Forall (fun l => inrange (heap c l)) (stack c);
  wf_glob : globals_ok gv (heap c);
  wf_next : (N.of_nat (length gv) <= next c)%N;
  wf_mem : bytes_ok (mem c)
}.

Definition svals (c : cfg) : list Z := map (heap c) (stack c).

Lemma globals_upd gv h l v : (N.of_nat (length gv) <= l)%N -> globals_ok gv h -> globals_ok gv (upd h l v).
Proof.
  intros Hl Hg i x Hi. rewrite upd_other; [apply Hg, Hi|].
  assert (i < length gv)%nat by (apply nth_error_Some; congruence). lia.
Qed.

(* ---- list facts used to re-establish NoDup ------------------------------- *)
Lemma NoDup_app_iff {A} (l1 l2 : list A) :
  NoDup (l1 ++ l2) <-> NoDup l1 /\ NoDup l2 /\ (forall x, In x l1 -> In x l2 -> False).
Proof.
  induction l1 as [|a r IH]; cbn [app].
  - split; [intros H; repeat split; [constructor|exact H|intros x []]|intros (_ & H & _); exact H].
  - rewrite !NoDup_cons_iff, IH, in_app_iff. split.
    + intros (Hn & H1 & H2 & H3). repeat split; auto.
      intros x [->|Hx] Hx2; [apply Hn; right; exact Hx2|eapply H3; eauto].
    + intros ((Hn & H1) & H2 & H3). repeat split; auto.
      * intros [H|H]; [exact (Hn H)|eapply H3; [left; reflexivity|exact H]].
      * intros x Hx Hx2. eapply H3; [right; exact Hx|exact Hx2].
Qed.

Lemma not_in_cons {A} (x a : A) l : ~ In x (a :: l) <-> x <> a /\ ~ In x l.
Proof. cbn [In]. split; [intros H; split; [intros ->; apply H; left; reflexivity|intros Hi; apply H; right; exact Hi]|intros (H1 & H2) [->|Hi]; [apply H1; reflexivity|exact (H2 Hi)]]. Qed.
Lemma not_in_app {A} (x : A) l1 l2 : ~ In x (l1 ++ l2) <-> ~ In x l1 /\ ~ In x l2.
Proof. rewrite in_app_iff. tauto. Qed.

Lemma Forall_app_iff {A} (P : A -> Prop) l1 l2 : Forall P (l1 ++ l2) <-> Forall P l1 /\ Forall P l2.
Proof. apply Forall_app. Qed.
Lemma Forall_cons_iff' {A} (P : A -> Prop) a l : Forall P (a :: l) <-> P a /\ Forall P l.
Proof. apply Forall_cons_iff. Qed.

Lemma allocated_fresh gv nx ls : Forall (allocated gv nx) ls -> ~ In nx ls.
Proof. intros Hf Hi. rewrite Forall_forall in Hf. apply Hf in Hi. unfold allocated in Hi. lia. Qed.
Lemma allocated_mono gv nx nx' ls : (nx <= nx')%N -> Forall (allocated gv nx) ls -> Forall (allocated gv nx') ls.
Proof. intros Hle. apply Forall_impl. unfold allocated. intros; lia. Qed.

(* pool_put keeps everything but the pool *)
Lemma pool_put_heap c ls : heap (pool_put c ls) = heap c.
Proof. unfold pool_put. destruct (Nat.ltb _ _); reflexivity. Qed.
Lemma pool_put_stack c ls : stack (pool_put c ls) = stack c.
Proof. unfold pool_put. destruct (Nat.ltb _ _); reflexivity. Qed.
Lemma pool_put_mem c ls : mem (pool_put c ls) = mem c.
Proof. unfold pool_put. destruct (Nat.ltb _ _); reflexivity. Qed.
Lemma pool_put_stor c ls : stor (pool_put c ls) = stor c.
Proof. unfold pool_put. destruct (Nat.ltb _ _); reflexivity. Qed.
Lemma pool_put_next c ls : next (pool_put c ls) = next c.
Proof. unfold pool_put. destruct (Nat.ltb _ _); reflexivity. Qed.
Lemma svals_pool_put c ls : svals (pool_put c ls) = svals c.
Proof. unfold svals. rewrite pool_put_heap, pool_put_stack. reflexivity. Qed.

Lemma NoDup_rev_app {A} (ls l2 : list A) : NoDup (rev ls ++ l2) <-> NoDup (ls ++ l2).
Proof.
  rewrite !NoDup_app_iff. split; intros (H1 & H2 & H3); repeat split; auto.
  - apply NoDup_rev in H1. rewrite rev_involutive in H1. exact H1.
  - intros x Hx. apply H3. apply in_rev in Hx. exact Hx.
  - apply NoDup_rev. exact H1.
  - intros x Hx. apply H3. apply in_rev. exact Hx.
Qed.

(* WF of a configuration that ends with a put: it is enough that the cells put
   back are distinct from everything else; whether the pool accepted them or
   was full does not matter. *)
Lemma WF_pool_put gv h nx st pl m sr ls :
  NoDup (st ++ ls ++ pl) ->
  Forall (allocated gv nx) (st ++ ls ++ pl) ->
  Forall (fun l => inrange (h l)) st ->
  globals_ok gv h -> (N.of_nat (length gv) <= nx)%N -> bytes_ok m ->
  WF gv (pool_put (mkCfg h nx st pl m sr) ls).
Proof.
  intros Hnd Hal Hr Hg Hn Hm. unfold pool_put. cbn [pool].
  apply NoDup_app_iff in Hnd as (Hs & Hlp & Hd).
  apply NoDup_app_iff in Hlp as (Hl & Hp & Hd2).
  apply Forall_app in Hal as (Ha1 & Ha2). apply Forall_app in Ha2 as (Ha2 & Ha3).
  destruct (Nat.ltb _ _); constructor; cbn [stack pool heap next mem stor]; auto.
  - apply NoDup_app_iff. repeat split; auto. intros x H1 H2. apply (Hd x H1). apply in_app_iff. right. exact H2.
  - apply Forall_app. split; assumption.
  - apply NoDup_app_iff. repeat split; auto.
    + apply NoDup_rev_app. apply NoDup_app_iff. repeat split; auto.
    + intros x H1 H2. apply (Hd x H1). rewrite in_app_iff in *. destruct H2 as [H2|H2]; [left; apply in_rev; exact H2|right; exact H2].
  - apply Forall_app. split; [assumption|]. apply Forall_app. split; [|assumption].
    apply Forall_rev. exact Ha2.
Qed.

(* the same without a put *)
Lemma WF_mk gv h nx st pl m sr :
  NoDup (st ++ pl) ->
  Forall (allocated gv nx) (st ++ pl) ->
  Forall (fun l => inrange (h l)) st ->
  globals_ok gv h -> (N.of_nat (length gv) <= nx)%N -> bytes_ok m ->
  WF gv (mkCfg h nx st pl m sr).
Proof. intros. constructor; assumption. Qed.

Lemma Forall_firstn {A} (P : A -> Prop) n : forall l, Forall P l -> Forall P (firstn n l).
Proof.
  induction n as [|n IH]; intros l H; cbn [firstn]; [constructor|].
  destruct l as [|a r]; [constructor|]. apply Forall_cons_iff in H as [Ha Hr].
  constructor; [exact Ha|apply IH, Hr].
Qed.
Lemma Forall_skipn {A} (P : A -> Prop) n : forall l, Forall P l -> Forall P (skipn n l).
Proof.
  induction n as [|n IH]; intros l H; cbn [skipn]; [exact H|].
  destruct l as [|a r]; [constructor|]. apply Forall_cons_iff in H as [Ha Hr]. apply IH, Hr.
Qed.
Lemma bytes_ok_write m off bs : bytes_ok m -> bytes_ok bs -> bytes_ok (mem_write m off bs).
Proof.
  unfold bytes_ok, mem_write. intros Hm Hb.
  apply Forall_app. split; [apply Forall_firstn, Hm|].
  apply Forall_app. split; [exact Hb|apply Forall_skipn, Hm].
Qed.
Lemma bytes_ok_resize m n : bytes_ok m -> bytes_ok (mem_resize m n).
Proof.
  unfold bytes_ok, mem_resize. intros Hm. destruct (_ <? _)%N; [|exact Hm].
  apply Forall_app. split; [exact Hm|]. apply Forall_forall. intros x Hx.
  apply repeat_spec in Hx. subst. lia.
Qed.
