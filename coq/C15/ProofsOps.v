(* C15 - every regenerated opcode body (coq/gen/C15Ops.v, translated from
   core/vm/instructions.go on each check) computes its specified function.
   One symbolic execution per body; what is left is arithmetic. *)
From Coq Require Import Lia ZifyBool ZifyN ZifyNat.
From VF.C15 Require Import Model ProofsArith ProofsHeap ProofsTac.
From VF.gen Require Import C15Ops.
Local Open Scope Z_scope.

(* the package level variables the translator found, by name *)
Lemma globals_spec :
  globals = [tt256m1; 9223372036854775807; tt255; tt256; tt256m1; tt63; 0; tt255].
Proof. Transparent tt256m1 tt255 tt256 tt63. reflexivity. Qed.
Global Opaque tt256m1 tt255 tt256 tt63.
Lemma globals_len : N.of_nat (length globals) = 8%N. Proof. reflexivity. Qed.

Ltac use_globals Hg :=
  let Hg' := fresh "Hg'" in
  pose proof Hg as Hg'; rewrite globals_spec in Hg';
  pose proof (Hg' 2%nat _ eq_refl); pose proof (Hg' 3%nat _ eq_refl);
  pose proof (Hg' 4%nat _ eq_refl); pose proof (Hg' 6%nat _ eq_refl);
  pose proof (Hg' 7%nat _ eq_refl); clear Hg';
  cbn [N.of_nat Pos.of_succ_nat Pos.succ] in *;
  pose proof globals_len as Hlen.

Ltac open_wf Hwf :=
  let Hnd := fresh "Hnd" in let Hal := fresh "Hal" in let Hr := fresh "Hr" in
  destruct Hwf as [Hnd Hal Hr Hg Hn Hm]; cbn [stack pool heap next mem] in *;
  cbn [app] in *; nd_hyps; use_globals Hg.

Ltac start1 :=
  intros code pc [h nx st pl m] st' Hwf Happ;
  unfold svals in Happ; cbn [stack heap] in Happ;
  destruct st as [|la ls]; cbn in Happ; try discriminate; injection Happ as <-;
  open_wf Hwf; unfold run_body.
Ltac start2 :=
  intros code pc [h nx st pl m] st' Hwf Happ;
  unfold svals in Happ; cbn [stack heap] in Happ;
  destruct st as [|la [|lb ls]]; cbn in Happ; try discriminate; injection Happ as <-;
  open_wf Hwf; unfold run_body.
Ltac start3 :=
  intros code pc [h nx st pl m] st' Hwf Happ;
  unfold svals in Happ; cbn [stack heap] in Happ;
  destruct st as [|la [|lb [|lc ls]]]; cbn in Happ; try discriminate; injection Happ as <-;
  open_wf Hwf; unfold run_body.

Ltac simp_glob :=
  simp_heap;
  repeat match goal with
  | H : ?f ?k = _ |- context [?f ?k] =>
      lazymatch k with N.pos _ => rewrite H | N0 => rewrite H end
  end.
Ltac run_sym :=
  repeat (repeat symex1; simp_glob; try split_stuck).

Lemma land_mask_wrap x : Z.land x tt256m1 = wrap256 x. Proof. reflexivity. Qed.

(* ---- ADD SUB MUL ------------------------------------------------------------------ *)
Lemma opAdd_ok : comp_correct globals body_opAdd (F2 spec_add).
Proof.
  start2. unfold body_opAdd. run_sym. finish; rewrite land_mask_wrap.
  - apply wrap256_range.
  - reflexivity.
Qed.
Lemma opSub_ok : comp_correct globals body_opSub (F2 spec_sub).
Proof.
  start2. unfold body_opSub. run_sym. finish; rewrite land_mask_wrap.
  - apply wrap256_range.
  - reflexivity.
Qed.
Lemma opMul_ok : comp_correct globals body_opMul (F2 spec_mul).
Proof.
  start2. unfold body_opMul. run_sym. finish; rewrite land_mask_wrap.
  - apply wrap256_range.
  - reflexivity.
Qed.
(* rewriting the residue into the vocabulary of the specification *)
Ltac u64_bounds :=
  repeat match goal with
  | |- context [wrap_u64 ?x] =>
      lazymatch goal with
      | _ : 0 <= wrap_u64 x < tt64 |- _ => fail
      | _ => pose proof (wrap_u64_bound x)
      end
  | _ : context [wrap_u64 ?x] |- _ =>
      lazymatch goal with
      | _ : 0 <= wrap_u64 x < tt64 |- _ => fail
      | _ => pose proof (wrap_u64_bound x)
      end
  end.
Ltac norm :=
  rewrite ?land_mask_wrap, ?wrap_u64_0, ?wrap_u64_1 in *;
  rewrite ?cmp_lt, ?cmp_gt, ?cmp_eq, ?cmp_ge in *;
  rewrite ?Z.geb_leb, ?Z.gtb_ltb in *;
  rewrite ?wrap256_id in * by assumption.
Ltac bool_hyps :=
  repeat match goal with
  | H : negb _ = true |- _ => apply Bool.negb_true_iff in H
  | H : negb _ = false |- _ => apply Bool.negb_false_iff in H
  | H : (_ && _)%bool = true |- _ => apply Bool.andb_true_iff in H; destruct H
  | H : (_ || _)%bool = false |- _ => apply Bool.orb_false_iff in H; destruct H
  end.

Lemma opDiv_ok : comp_correct globals body_opDiv (F2 spec_div).
Proof.
  start2. unfold body_opDiv. run_sym. all: finish; norm; unfold spec_div.
  - apply wrap256_range.
  - assert (0 < h lb) by (unfold inrange in *; lia).
    rewrite ediv_pos by lia. replace (h lb =? 0) with false by lia.
    apply wrap256_id, div_range; assumption.
  - apply inrange_0.
  - replace (h lb =? 0) with true by lia. reflexivity.
Qed.

Lemma opMod_ok : comp_correct globals body_opMod (F2 spec_mod).
Proof.
  start2. unfold body_opMod. run_sym. all: finish; norm; unfold spec_mod.
  - apply inrange_0.
  - replace (h lb =? 0) with true by lia. reflexivity.
  - apply wrap256_range.
  - assert (0 < h lb < tt256) by (unfold inrange in *; lia).
    replace (h lb =? 0) with false by lia. rewrite Z.abs_eq by lia.
    apply wrap256_id, mod_range; lia.
Qed.

Lemma opNot_ok : comp_correct globals body_opNot (F1 spec_not).
Proof.
  start1. unfold body_opNot. run_sym. all: finish; norm.
  - apply wrap256_range.
  - apply not_wrap. assumption.
Qed.

Lemma opLt_ok : comp_correct globals body_opLt (F2 spec_lt).
Proof.
  start2. unfold body_opLt. run_sym. all: finish; norm; unfold spec_lt.
  - apply inrange_1.
  - rewrite Heqb. reflexivity.
  - apply inrange_0.
  - rewrite Heqb. reflexivity.
Qed.
Lemma opGt_ok : comp_correct globals body_opGt (F2 spec_gt).
Proof.
  start2. unfold body_opGt. run_sym. all: finish; norm; unfold spec_gt; rewrite ?Z.gtb_ltb.
  - apply inrange_1.
  - rewrite Heqb. reflexivity.
  - apply inrange_0.
  - rewrite Heqb. reflexivity.
Qed.
Lemma opEq_ok : comp_correct globals body_opEq (F2 spec_eq).
Proof.
  start2. unfold body_opEq. run_sym. all: finish; norm; unfold spec_eq.
  - apply inrange_1.
  - rewrite Heqb. reflexivity.
  - apply inrange_0.
  - rewrite Heqb. reflexivity.
Qed.
Lemma opIszero_ok : comp_correct globals body_opIszero (F1 spec_iszero).
Proof.
  start1. unfold body_opIszero. run_sym. all: finish; norm; unfold spec_iszero.
  - apply inrange_0.
  - replace (h la =? 0) with false by lia. reflexivity.
  - apply inrange_1.
  - replace (h la =? 0) with true by (unfold inrange in *; lia). reflexivity.
Qed.
Lemma opAnd_ok : comp_correct globals body_opAnd (F2 spec_and).
Proof.
  start2. unfold body_opAnd. run_sym. all: finish.
  - apply land_range; assumption.
  - reflexivity.
Qed.
Lemma opOr_ok : comp_correct globals body_opOr (F2 spec_or).
Proof.
  start2. unfold body_opOr. run_sym. all: finish.
  - apply lor_range; assumption.
  - reflexivity.
Qed.
Lemma opXor_ok : comp_correct globals body_opXor (F2 spec_xor).
Proof.
  start2. unfold body_opXor. run_sym. all: finish.
  - apply lxor_range; assumption.
  - reflexivity.
Qed.

Lemma opAddmod_ok : comp_correct globals body_opAddmod (F3 spec_addmod).
Proof.
  start3. unfold body_opAddmod. run_sym. all: norm; finish; norm; unfold spec_addmod.
  - apply wrap256_range.
  - assert (0 < h lc < tt256) by (unfold inrange in *; lia).
    replace (h lc =? 0) with false by lia. rewrite Z.abs_eq by lia.
    apply wrap256_id, mod_range; lia.
  - apply inrange_0.
  - replace (h lc =? 0) with true by (unfold inrange in *; lia). reflexivity.
Qed.
Lemma opMulmod_ok : comp_correct globals body_opMulmod (F3 spec_mulmod).
Proof.
  start3. unfold body_opMulmod. run_sym. all: norm; finish; norm; unfold spec_mulmod.
  - apply wrap256_range.
  - assert (0 < h lc < tt256) by (unfold inrange in *; lia).
    replace (h lc =? 0) with false by lia. rewrite Z.abs_eq by lia.
    apply wrap256_id, mod_range; lia.
  - apply inrange_0.
  - replace (h lc =? 0) with true by (unfold inrange in *; lia). reflexivity.
Qed.

Lemma opByte_ok : comp_correct globals body_opByte (F2 spec_byte).
Proof.
  start2. unfold body_opByte. run_sym. all: norm; finish; norm; unfold spec_byte.
  1,2: assert (Hs : 0 <= h la < 32) by (unfold inrange in *; lia);
       pose proof tt63_big as H63; pose proof tt64_big as H64;
       rewrite int64_of_small, wrap_i64_small by lia;
       rewrite byte_of_spec by (unfold inrange in *; lia);
       pose proof (land_255_range (Z.shiftr (h lb) (8 * (31 - h la)))) as Hb;
       rewrite !(wrap_u64_small (Z.land _ _)) by lia.
  - apply small_inrange. lia.
  - replace (h la <? 32) with true by lia. reflexivity.
  - apply inrange_0.
  - replace (h la <? 32) with false by lia. reflexivity.
Qed.

(* shift := U256(pop) with shift < 256: uint(shift.Uint64()) is the shift itself *)
Lemma shift_count a : inrange a -> a < 256 -> wrap_u64 (uint64_of a) = a.
Proof.
  unfold inrange. intros Ha Hlt. pose proof tt64_big.
  rewrite uint64_of_small by lia. apply wrap_u64_small. lia.
Qed.

Lemma opSHL_ok : comp_correct globals body_opSHL (F2 spec_shl).
Proof.
  start2. unfold body_opSHL. run_sym. all: norm; u64_bounds; finish; norm; unfold spec_shl.
  - apply inrange_0.
  - replace (h la <? 256) with false by lia. reflexivity.
  - apply wrap256_range.
  - replace (h la <? 256) with true by lia. rewrite shift_count by (assumption || lia). reflexivity.
Qed.
Lemma opSHR_ok : comp_correct globals body_opSHR (F2 spec_shr).
Proof.
  start2. unfold body_opSHR. run_sym. all: norm; u64_bounds; finish; norm; unfold spec_shr.
  - apply inrange_0.
  - replace (h la <? 256) with false by lia. reflexivity.
  - apply wrap256_range.
  - replace (h la <? 256) with true by lia. rewrite shift_count by (assumption || lia).
    apply wrap256_id, shiftr_range; [assumption|unfold inrange in *; lia].
Qed.

Ltac signed_cmp :=
  unfold sgn256, b2w; rewrite M255_tt, M256_tt; rewrite ?Z.geb_leb, ?Z.gtb_ltb in *;
  pose proof tt256_double; pose proof tt255_pos; unfold inrange in *;
  repeat match goal with
  | |- context [if ?b then _ else _] =>
      lazymatch b with
      | context [if _ then _ else _] => fail
      | _ => destruct b eqn:?
      end
  end; lia.

Lemma opSlt_ok : comp_correct globals body_opSlt (F2 spec_slt).
Proof.
  start2. unfold body_opSlt. run_sym. all: norm; finish; norm; unfold spec_slt.
  all: try apply inrange_0; try apply inrange_1.
  all: signed_cmp.
Qed.
Lemma opSgt_ok : comp_correct globals body_opSgt (F2 spec_sgt).
Proof.
  start2. unfold body_opSgt. run_sym. all: norm; finish; norm; unfold spec_sgt.
  all: try apply inrange_0; try apply inrange_1.
  all: signed_cmp.
Qed.

Ltac sgn_cases :=
  repeat match goal with
  | H : (?x <? tt255) = true |- context [sgn256 ?x] => rewrite (sgn256_lt_eq x H)
  | H : (?x <? tt255) = false |- context [sgn256 ?x] => rewrite (sgn256_ge_eq x H)
  end.

Lemma opSAR_ok : comp_correct globals body_opSAR (F2 spec_sar).
Proof.
  start2. unfold body_opSAR. run_sym. all: norm; u64_bounds; finish; norm; unfold spec_sar.
  all: try apply wrap256_range.
  all: sgn_cases; pose proof tt256_double; pose proof tt255_pos; unfold inrange in *.
  all: try (replace (h la <? 256) with false by lia).
  all: try (replace (h la <? 256) with true by lia; rewrite shift_count by (unfold inrange; lia); reflexivity).
  all: rewrite ?wrap_i64_m1, ?wrap256_m1, ?wrap256_0.
  all: match goal with |- _ = (if ?b then _ else _) => destruct b eqn:? end; lia.
Qed.

Lemma opSignExtend_ok : comp_correct globals body_opSignExtend (F2 spec_signextend).
Proof.
  start2. unfold body_opSignExtend. run_sym. all: norm.
  all: try (assert (Ha : 0 <= h la < 31) by (unfold inrange in *; lia);
            rewrite !(bit_count _ Ha) in *;
            assert (Hw : wrap_i64 (8 * h la + 7) = 8 * h la + 7)
              by (apply wrap_i64_small; pose proof tt63_big; lia);
            rewrite ?Hw in *).
  all: finish; norm; unfold spec_signextend.
  all: try apply wrap256_range.
  - (* sign bit set *)
    replace (h la <? 31) with true by lia. cbv zeta.
    assert (Hb : Z.testbit (h lb) (8 * h la + 7) = true) by (destruct (Z.testbit _ _); [reflexivity|discriminate]).
    rewrite Hb, M256_tt. apply signext_set; [lia|unfold inrange in *; lia|exact Hb].
  - (* sign bit clear *)
    replace (h la <? 31) with true by lia. cbv zeta.
    assert (Hb : Z.testbit (h lb) (8 * h la + 7) = false) by (destruct (Z.testbit _ _); [discriminate|reflexivity]).
    rewrite Hb, signext_clear by (lia || exact Hb).
    apply wrap256_id, land_range; [assumption|].
    unfold inrange. rewrite tt256_eq, Z.ones_equiv.
    assert (2 ^ (8 * h la + 7 + 1) <= 2 ^ 256) by (apply Z.pow_le_mono_r; lia).
    assert (0 < 2 ^ (8 * h la + 7 + 1)) by (apply Z.pow_pos_nonneg; lia). lia.
  - assumption.
  - replace (h la <? 31) with false by lia. reflexivity.
Qed.

Lemma opSdiv_ok : comp_correct globals body_opSdiv (F2 spec_sdiv).
Proof.
  start2. unfold body_opSdiv. run_sym. all: norm; finish; norm; unfold spec_sdiv.
  all: try apply wrap256_range; try apply inrange_0.
  all: sgn_cases; pose proof tt256_double; pose proof tt255_pos; unfold inrange in *.
  all: match goal with |- _ = (if ?b then _ else _) => destruct b eqn:? end.
  all: first [ reflexivity | apply sdiv_zero; lia | apply sdiv_neg'; lia | apply sdiv_pos'; lia | exfalso; lia ].
Qed.

Lemma opSmod_ok : comp_correct globals body_opSmod (F2 spec_smod).
Proof.
  start2. unfold body_opSmod. run_sym. all: norm; finish; norm; unfold spec_smod.
  all: try apply wrap256_range; try apply inrange_0.
  all: sgn_cases; pose proof tt256_double; pose proof tt255_pos; unfold inrange in *.
  all: match goal with |- _ = (if ?b then _ else _) => destruct b eqn:? end.
  all: first [ reflexivity | apply smod_neg'; lia | apply smod_pos'; lia | exfalso; lia ].
Qed.

Lemma opExp_ok : comp_correct globals body_opExp (F2 spec_exp).
Proof.
  start2. unfold body_opExp. run_sym. Show.
