(* C15 - all per-opcode correctness lemmas (see ProofsOps1..6). *)
From VF.C15 Require Export ProofsOpsCommon ProofsOps1 ProofsOps2 ProofsOps3 ProofsOps4 ProofsOps5 ProofsOps6.
