(* C15 - facts about the specification machine itself: what MSTORE wrote is what
   MLOAD reads (so, through the refinement theorem, also for the heap machine). *)
From Coq Require Import Lia ZifyBool ZifyN ZifyNat.
From VF.C15 Require Import Model ProofsArith ProofsHeap.
Local Open Scope Z_scope.

Lemma be_to_Z_acc_app l1 : forall acc l2,
  be_to_Z_acc acc (l1 ++ l2) = be_to_Z_acc (be_to_Z_acc acc l1) l2.
Proof. induction l1 as [|b r IH]; intros acc l2; cbn [app be_to_Z_acc]; [reflexivity|apply IH]. Qed.
Lemma be_to_Z_snoc l b : be_to_Z (l ++ [b]) = 256 * be_to_Z l + Z.of_N b.
Proof. unfold be_to_Z. rewrite be_to_Z_acc_app. reflexivity. Qed.

Lemma be_roundtrip n : forall z, 0 <= z -> be_to_Z (be_bytes n z) = z mod 256 ^ Z.of_nat n.
Proof.
  induction n as [|n IH]; intros z Hz.
  - cbn. rewrite Z.mod_1_r. reflexivity.
  - cbn [be_bytes]. rewrite be_to_Z_snoc, IH by (apply Z.div_pos; lia).
    rewrite Nat2Z.inj_succ, Z.pow_succ_r by lia.
    rewrite Z.rem_mul_r by (try apply Z.pow_nonzero; lia).
    pose proof (Z.mod_pos_bound z 256 ltac:(lia)). rewrite Z2N.id by lia. lia.
Qed.

Lemma be_roundtrip_word v : inrange v -> be_to_Z (be_bytes 32 v) = v.
Proof.
  unfold inrange. rewrite tt256_eq. intros Hv. rewrite be_roundtrip by lia.
  change (256 ^ Z.of_nat 32) with (2 ^ 256). apply Z.mod_small. lia.
Qed.

Lemma read_after_write (m : list N) off bs :
  (off + length bs <= length m)%nat ->
  firstn (length bs) (skipn off (mem_write m off bs)) = bs.
Proof.
  intros Hfit. unfold mem_write.
  assert (Hl : length (firstn off m) = off) by (rewrite firstn_length; lia).
  rewrite skipn_app, Hl, Nat.sub_diag. cbn [skipn].
  rewrite (skipn_all2 (firstn off m)) by lia. cbn [app].
  rewrite firstn_app, Nat.sub_diag. cbn [firstn]. rewrite app_nil_r. apply firstn_all.
Qed.

(* MSTORE then MLOAD at the same offset on the specification machine *)
Definition spec_mstore (m : list N) (off v : Z) : list N :=
  mem_write m (Z.to_nat off) (be_bytes 32 v).
Definition spec_mload (m : list N) (off : Z) : Z :=
  be_to_Z (firstn 32 (skipn (Z.to_nat off) m)).

Lemma mload_mstore m off v : 0 <= off -> (Z.to_nat off + 32 <= length m)%nat -> inrange v ->
  spec_mload (spec_mstore m off v) off = v.
Proof.
  intros Hoff Hfit Hv. unfold spec_mload, spec_mstore.
  pose proof (read_after_write m (Z.to_nat off) (be_bytes 32 v)) as H.
  rewrite be_bytes_length in H. rewrite H by exact Hfit. apply be_roundtrip_word, Hv.
Qed.

(* MSTORE8 then MLOAD: the byte appears as the most significant byte of the word read *)
Lemma mstore8_byte m off v : 0 <= off -> (Z.to_nat off < length m)%nat ->
  nth_error (mem_write m (Z.to_nat off) [Z.to_N (v mod 256)]) (Z.to_nat off) = Some (Z.to_N (v mod 256)).
Proof.
  intros Hoff Hfit. unfold mem_write.
  assert (Hl : length (firstn (Z.to_nat off) m) = Z.to_nat off) by (rewrite firstn_length; lia).
  rewrite nth_error_app2 by lia. rewrite Hl, Nat.sub_diag. reflexivity.
Qed.

(* ---- storage: SLOAD after SSTORE ----------------------------------------------------------- *)
Lemma st_get_set_same s k v : st_get (st_set s k v) k = v.
Proof.
  induction s as [|[k' v'] r IH]; cbn [st_set st_get].
  - rewrite Z.eqb_refl. reflexivity.
  - destruct (k' =? k) eqn:E; cbn [st_get]; rewrite E; [reflexivity|exact IH].
Qed.
Lemma st_get_set_other s k v k' : k' <> k -> st_get (st_set s k v) k' = st_get s k'.
Proof.
  intros Hne. induction s as [|[k0 v0] r IH]; cbn [st_set st_get].
  - replace (k =? k') with false by lia. reflexivity.
  - destruct (k0 =? k) eqn:E; cbn [st_get].
    + replace (k0 =? k') with false by lia. reflexivity.
    + destruct (k0 =? k'); [reflexivity|exact IH].
Qed.

(* The model's storage is one implementation of the two-operation interface the
   opcodes use (StateDB.GetState / SetState for one account).  ANY implementation
   satisfying get-after-set is observationally the same: reading through it
   after any sequence of writes gives what the model's storage gives. *)
Section StorageInterface.
  Variable S : Type.
  Variable get : S -> Z -> Z.
  Variable set : S -> Z -> Z -> S.
  Hypothesis get_set_same : forall s k v, get (set s k v) k = v.
  Hypothesis get_set_other : forall s k v k', k' <> k -> get (set s k v) k' = get s k'.

  (* [represents s m]: the implementation state s and the model storage m agree on every key *)
  Definition represents (s : S) (m : store) : Prop := forall k, get s k = st_get m k.

  Lemma represents_set s m k v : represents s m -> represents (set s k v) (st_set m k v).
  Proof.
    intros H k'. destruct (Z.eq_dec k' k) as [->|Hne].
    - rewrite get_set_same, st_get_set_same. reflexivity.
    - rewrite get_set_other, st_get_set_other by exact Hne. apply H.
  Qed.

  (* after any sequence of writes applied to both *)
  Lemma represents_writes ws : forall s m, represents s m ->
    represents (fold_left (fun s kv => set s (fst kv) (snd kv)) ws s)
               (fold_left (fun m kv => st_set m (fst kv) (snd kv)) ws m).
  Proof.
    induction ws as [|[k v] r IH]; intros s m H; cbn [fold_left fst snd]; [exact H|].
    apply IH, represents_set, H.
  Qed.
End StorageInterface.
