(* C15 - opcode bodies regenerated from core/vm/instructions.go compute their
   specified functions (part 5). *)
From Coq Require Import Lia ZifyBool ZifyN ZifyNat.
From VF.C15 Require Import Model ProofsArith ProofsHeap ProofsTac ProofsSpec ProofsOpsCommon.
From VF.gen Require Import C15Ops.
Local Open Scope Z_scope.

(* ---- POP and the memory opcodes ------------------------------------------------------ *)
Lemma opPop_ok : body_correct globals body_opPop
  (fun st _ => st <> []) (fun st m => (tl st, m)).
Proof.
  intros code pc [h nx st pl m sr] Hwf Hpre. unfold svals in *. cbn [stack heap mem] in *.
  destruct st as [|la ls]; [exfalso; apply Hpre; reflexivity|]. clear Hpre.
  open_wf Hwf. unfold run_body, body_opPop. run_sym.
  eexists. split; [reflexivity|]. split.
  - finish_wf. finish_range.
  - split; [rewrite pool_put_heap, pool_put_stack, pool_put_mem; reflexivity|rewrite pool_put_stor; reflexivity].
Qed.


Lemma opMload_ok : body_correct globals body_opMload (mem_pre 32 1)
  (fun st m => (be_to_Z (firstn 32 (skipn (Z.to_nat (hd 0 st)) m)) :: tl st, m)).
Proof.
  intros code pc [h nx st pl m sr] Hwf (Hk & Hoff & Hmlen). unfold svals in *. cbn [stack heap mem] in *.
  destruct st as [|la ls]; [cbn in Hk; lia|]. cbn [map hd tl] in *.
  open_wf Hwf. unfold run_body, body_opMload.
  assert (Hi : int64_of (h la) = h la) by (apply int64_of_small; unfold inrange in *; lia).
  assert (Hget : mem_get m (h la) 32 = Some (firstn 32 (skipn (Z.to_nat (h la)) m))).
  { unfold mem_get. unfold inrange in *.
    replace (32 =? 0) with false by reflexivity.
    replace (Z.of_nat (length m) >? h la) with true by lia.
    replace ((0 <=? h la) && (0 <=? 32) && (h la + 32 <=? Z.of_nat (length m)))%bool with true by lia.
    reflexivity. }
  assert (Hrg : inrange (be_to_Z (firstn 32 (skipn (Z.to_nat (h la)) m)))).
  { apply be_to_Z_range.
    - apply Forall_firstn, Forall_skipn. exact Hm.
    - rewrite firstn_length. lia. }
  run_sym; rewrite Hi, Hget; run_sym.
  all: eexists; (split; [reflexivity|]); split; [finish_wf; finish_range; exact Hrg|].
  all: split; [|rewrite pool_put_stor; reflexivity].
  all: rewrite pool_put_heap, pool_put_stack, pool_put_mem; cbn [heap stack mem map]; simp_heap;
       rewrite ?map_upd_notin by notin; reflexivity.
Qed.

Ltac finish_body :=
  eexists; (split; [reflexivity|]); split;
  [ finish_wf; finish_range
  | split; [|rewrite ?pool_put_stor; reflexivity];
    rewrite ?pool_put_heap, ?pool_put_stack, ?pool_put_mem; cbn [heap stack mem map]; simp_heap;
    rewrite ?map_upd_notin by notin ].

Lemma opMstore_ok : body_correct globals body_opMstore (mem_pre 32 2)
  (fun st m => (tl (tl st), mem_write m (Z.to_nat (hd 0 st)) (be_bytes 32 (hd 0 (tl st))))).
Proof.
  intros code pc [h nx st pl m sr] Hwf (Hk & Hoff & Hmlen). unfold svals in *. cbn [stack heap mem] in *.
  destruct st as [|la [|lb ls]]; try (cbn in Hk; lia). cbn [map hd tl] in *.
  open_wf Hwf. unfold run_body, body_opMstore.
  assert (Hi : uint64_of (h la) = h la)
    by (apply uint64_of_small; pose proof tt64_double; pose proof tt63_pos; unfold inrange in *; lia).
  assert (Hset : mem_set32 m (h la) (h lb) = Some (mem_write m (Z.to_nat (h la)) (be_bytes 32 (h lb)))).
  { unfold mem_set32. unfold inrange in *.
    replace ((0 <=? h la) && (h la + 32 <=? Z.of_nat (length m)))%bool with true by lia.
    rewrite Z.abs_eq by lia. reflexivity. }
  run_sym; rewrite Hi, Hset; run_sym.
  eexists. split; [reflexivity|]. split.
  - apply WF_pool_put; cbn [app]; [nodup|alloc_all|finish_range|glob|lia|].
    apply bytes_ok_write; [assumption|apply be_bytes_ok].
  - split; [rewrite pool_put_heap, pool_put_stack, pool_put_mem; reflexivity|rewrite pool_put_stor; reflexivity].
Qed.

Lemma opMstore8_ok : body_correct globals body_opMstore8 (mem_pre 1 2)
  (fun st m => (tl (tl st), mem_write m (Z.to_nat (hd 0 st)) [Z.to_N (hd 0 (tl st) mod 256)])).
Proof.
  intros code pc [h nx st pl m sr] Hwf (Hk & Hoff & Hmlen). unfold svals in *. cbn [stack heap mem] in *.
  destruct st as [|la [|lb ls]]; try (cbn in Hk; lia). cbn [map hd tl] in *.
  open_wf Hwf. unfold run_body, body_opMstore8.
  assert (Hi : int64_of (h la) = h la) by (apply int64_of_small; unfold inrange in *; lia).
  assert (Hb : wrap_u8 (Z.land (int64_of (h lb)) 255) = h lb mod 256)
    by (apply low_byte_int64; unfold inrange in *; lia).
  assert (Hset : mem_store8 m (h la) (h lb mod 256) = Some (mem_write m (Z.to_nat (h la)) [Z.to_N (h lb mod 256)])).
  { unfold mem_store8. unfold inrange in *.
    replace ((0 <=? h la) && (h la <? Z.of_nat (length m)))%bool with true by lia. reflexivity. }
  run_sym; rewrite Hi, Hb, Hset; run_sym.
  eexists. split; [reflexivity|]. split.
  - apply WF_mk; cbn [app]; [nodup|alloc_all|finish_range|glob|lia|].
    apply bytes_ok_write; [assumption|]. constructor; [|constructor].
    pose proof (Z.mod_pos_bound (h lb) 256 ltac:(lia)). lia.
  - split; reflexivity.
Qed.

Lemma opMsize_ok : body_correct globals body_opMsize
  (fun _ m => Z.of_nat (length m) < tt63)
  (fun st m => (Z.of_nat (length m) :: st, m)).
Proof.
  intros code pc [h nx st pl m sr] Hwf Hmlen. unfold svals in *. cbn [stack heap mem] in *.
  open_wf Hwf. unfold run_body, body_opMsize.
  assert (Hw : wrap_i64 (wrap_i64 (Z.of_nat (length m))) = Z.of_nat (length m)).
  { pose proof tt63_pos. rewrite (wrap_i64_small (Z.of_nat _)) by lia. apply wrap_i64_small. lia. }
  run_sym; rewrite ?Hw.
  all: finish_body; try reflexivity.
  all: apply small_inrange; pose proof tt64_double; pose proof tt63_pos; lia.
Qed.

(* ---- SLOAD / SSTORE over the abstract contract storage ------------------------------------ *)
Lemma opSload_ok : sload_correct globals body_opSload.
Proof.
  intros code pc [h nx st pl m sr] k r Hwf Hsr Hst. unfold svals in Hst. cbn [stack heap stor] in *.
  destruct st as [|la ls]; [discriminate|]. cbn [map] in Hst. injection Hst as <- <-.
  open_wf Hwf. unfold run_body, body_opSload.
  replace (st_get sr (h la)) with (st_get sr (hash_of_big (h la)))
    by (rewrite hash_of_big_id by assumption; reflexivity).
  pose proof (st_get_range sr (hash_of_big (h la)) Hsr) as Hrg.
  run_sym. rewrite be_roundtrip_word by exact Hrg.
  eexists. split; [reflexivity|]. split; [finish_wf; finish_range; exact Hrg|].
  split; [finish_vals; reflexivity|split; reflexivity].
Qed.

Lemma opSstore_ok : sstore_correct globals body_opSstore.
Proof.
  intros code pc [h nx st pl m sr] k v r Hwf Hst. unfold svals in Hst. cbn [stack heap stor] in *.
  destruct st as [|la [|lb ls]]; try discriminate. cbn [map] in Hst. injection Hst as <- <- <-.
  open_wf Hwf. unfold run_body, body_opSstore.
  replace (st_set sr (h la) (h lb)) with (st_set sr (hash_of_big (h la)) (hash_of_big (h lb)))
    by (rewrite !hash_of_big_id by assumption; reflexivity).
  run_sym.
  eexists. split; [reflexivity|]. split; [finish_wf; finish_range|].
  split; [finish_vals|]. split; [rewrite pool_put_mem|rewrite pool_put_stor]; reflexivity.
Qed.
