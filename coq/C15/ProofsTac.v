(* C15 - what "an opcode body is correct" means, and the symbolic execution
   tactics that prove it for the regenerated bodies (coq/gen/C15Ops.v). *)
From Coq Require Import Lia ZifyBool ZifyN ZifyNat.
From VF.C15 Require Import Model ProofsArith ProofsHeap.
Local Open Scope Z_scope.

(* A body implements a pure computational opcode [f]: from any well-formed
   configuration whose stack holds enough operands it terminates without
   panic in a well-formed configuration whose stack denotes [f] applied to the
   operands ABOVE THE UNCHANGED REST, and memory is untouched. *)
Definition comp_correct (gv : list Z) (body : stmt) (f : cfun) : Prop :=
  forall code pc c st', WF gv c -> cfun_apply f (svals c) = Some st' ->
    exists c', run_body code pc body c = Some c' /\ WF gv c' /\ svals c' = st' /\
               mem c' = mem c /\ stor c' = stor c.

(* general form: [spec] maps (stack values, memory) to their successors; [pre]
   is what the interpreter established before calling the body (memory already
   expanded) *)
Definition body_correct (gv : list Z) (body : stmt)
           (pre : list Z -> list N -> Prop) (spec : list Z -> list N -> list Z * list N) : Prop :=
  forall code pc c, WF gv c -> pre (svals c) (mem c) ->
    exists c', run_body code pc body c = Some c' /\ WF gv c' /\
               (svals c', mem c') = spec (svals c) (mem c) /\ stor c' = stor c.

(* what the interpreter has established before a memory opcode runs: the
   accessed range lies inside the (already expanded) memory *)
Definition mem_pre (n : Z) (k : nat) (st : list Z) (m : list N) : Prop :=
  (k <= length st)%nat /\ hd 0 st + n <= Z.of_nat (length m) /\ Z.of_nat (length m) < tt63.

(* ---- storage ---------------------------------------------------------------------------- *)
(* every key and value held by the storage is a 256-bit word *)
Definition stor_ok (sr : store) : Prop :=
  Forall (fun kv => inrange (fst kv) /\ inrange (snd kv)) sr.
Lemma st_get_range sr k : stor_ok sr -> inrange (st_get sr k).
Proof.
  induction sr as [|[k' v] r IH]; intros H; cbn [st_get]; [apply inrange_0|].
  apply Forall_cons_iff in H as [[_ Hv] Hr]. destruct (k' =? k); [exact Hv|apply IH, Hr].
Qed.
Lemma st_set_ok sr k v : stor_ok sr -> inrange k -> inrange v -> stor_ok (st_set sr k v).
Proof.
  induction sr as [|[k' v'] r IH]; intros H Hk Hv; cbn [st_set].
  - constructor; [split; assumption|constructor].
  - apply Forall_cons_iff in H as [[Hk' Hv'] Hr]. destruct (k' =? k).
    + constructor; [split; assumption|exact Hr].
    + constructor; [split; assumption|apply IH; assumption].
Qed.
Lemma hash_of_big_id x : inrange x -> hash_of_big x = x.
Proof.
  intros H. unfold hash_of_big. unfold inrange in H. rewrite Z.abs_eq by lia.
  change (Z.land x tt256m1) with (wrap256 x). apply wrap256_id, H.
Qed.

Definition sload_correct (gv : list Z) (body : stmt) : Prop :=
  forall code pc c k r, WF gv c -> stor_ok (stor c) -> svals c = k :: r ->
    exists c', run_body code pc body c = Some c' /\ WF gv c' /\
               svals c' = st_get (stor c) k :: r /\ mem c' = mem c /\ stor c' = stor c.
Definition sstore_correct (gv : list Z) (body : stmt) : Prop :=
  forall code pc c k v r, WF gv c -> svals c = k :: v :: r ->
    exists c', run_body code pc body c = Some c' /\ WF gv c' /\
               svals c' = r /\ mem c' = mem c /\ stor c' = st_set (stor c) k v.


(* ---- decomposition of the hypotheses ---------------------------------------- *)
Ltac nd_hyps :=
  repeat match goal with
  | H : _ /\ _ |- _ => destruct H
  | H : NoDup (_ :: _) |- _ => apply NoDup_cons_iff in H
  | H : NoDup (_ ++ _) |- _ => apply NoDup_app_iff in H
  | H : NoDup [] |- _ => clear H
  | H : ~ In _ (_ :: _) |- _ => apply not_in_cons in H
  | H : ~ In _ (_ ++ _) |- _ => apply not_in_app in H
  | H : ~ In _ [] |- _ => clear H
  | H : Forall _ (_ :: _) |- _ => apply Forall_cons_iff in H
  | H : Forall _ (_ ++ _) |- _ => apply Forall_app in H
  | H : Forall _ [] |- _ => clear H
  | H : allocated _ _ _ |- _ => unfold allocated in H
  | H : forall x, In x (_ :: _) -> _ -> False |- _ =>
      let H1 := fresh "Hd" in let H2 := fresh "Hd" in
      pose proof (fun x Hi => H x (or_intror Hi)) as H1;
      pose proof (H _ (or_introl eq_refl)) as H2; clear H; cbn beta in H1, H2
  | H : forall x, In x ?a -> In x (_ :: _) -> False |- _ =>
      let H1 := fresh "Hd" in let H2 := fresh "Hd" in
      pose proof (fun x Hi Hj => H x Hi (or_intror Hj)) as H1;
      pose proof (fun Hi => H _ Hi (or_introl eq_refl)) as H2; clear H; cbn beta in H1, H2
  | H : forall x, In x [] -> _ -> False |- _ => clear H
  | H : forall x, In x _ -> In x [] -> False |- _ => clear H
  end.

(* ---- atomic side conditions ---------------------------------------------------- *)
Ltac loc_neq := first [assumption | apply not_eq_sym; assumption | lia].
Ltac notin :=
  lazymatch goal with
  | |- ~ In _ [] => intros []
  | |- ~ In _ (_ :: _) => apply not_in_cons; split; [loc_neq|notin]
  | |- ~ In _ (_ ++ _) => apply not_in_app; split; notin
  | |- ~ In ?x ?l => first [assumption | eapply allocated_fresh; eassumption
                           | let Hi := fresh in intros Hi;
                             match goal with Hf : Forall (allocated _ _) l |- _ =>
                               rewrite Forall_forall in Hf; apply Hf in Hi; unfold allocated in Hi; lia end ]
  end.
Ltac disj :=
  let x := fresh "x" in let H1 := fresh "Hi" in let H2 := fresh "Hj" in
  intros x H1 H2; cbn [In app] in H1, H2; rewrite ?in_app_iff in H1, H2;
  repeat match goal with
  | H : _ \/ _ |- _ => destruct H
  | H : False |- _ => destruct H
  end; subst;
  solve [ exfalso; eauto
        | match goal with Hn : ~ In ?y ?l, Hi : In ?y ?l |- _ => exact (Hn Hi) end
        | match goal with Hd : forall z, In z ?a -> In z ?b -> False, Hi : In ?y ?a, Hj : In ?y ?b |- _ => exact (Hd y Hi Hj) end
        | match goal with Hd : forall z, In z ?a -> In z ?b -> False, Hi : In ?y ?b, Hj : In ?y ?a |- _ => exact (Hd y Hj Hi) end
        | match goal with Hf : Forall (allocated _ _) ?l, Hi : In _ ?l |- _ =>
            rewrite Forall_forall in Hf; apply Hf in Hi; unfold allocated in Hi; lia end
        | lia ].
Ltac nodup :=
  lazymatch goal with
  | |- NoDup [] => constructor
  | |- NoDup (_ :: _) => apply NoDup_cons_iff; split; [notin|nodup]
  | |- NoDup (_ ++ _) => apply NoDup_app_iff; split; [nodup|split;[nodup|disj]]
  | |- NoDup _ => assumption
  end.
Ltac alloc_all :=
  lazymatch goal with
  | |- Forall _ [] => constructor
  | |- Forall _ (_ :: _) => apply Forall_cons; [unfold allocated; lia|alloc_all]
  | |- Forall _ (_ ++ _) => apply Forall_app; split; alloc_all
  | |- Forall (allocated _ _) _ => first [assumption | eapply allocated_mono; [|eassumption]; lia]
  end.
Ltac glob := repeat (apply globals_upd; [lia|]); assumption.
Ltac range_rest := repeat (apply Forall_upd_notin; [notin|]); assumption.

(* ---- symbolic execution --------------------------------------------------------- *)
Ltac symex1 :=
  cbn [exec eval_p eval_i eval_c eval_b eval_h eval_ps pop peek push stack heap next pool mem stor
       lookup pv iv hv env0 env_pc pcvar bind_p bind_i bind_h N.eqb Pos.eqb write alloc set_mem set_stor pool_get pool_get_zero
       bin_sem un_sem sh_sem rel_sem wrap fst snd negb andb orb];
  unfold write, push, alloc, set_mem, set_stor, pool_get, pool_get_zero, env_pc, pcvar; cbn [stack heap next pool mem stor].

(* one case split on whatever blocks the evaluation *)
Ltac split_stuck :=
  match goal with
  | |- context [match ?p with [] => _ | _ :: _ => _ end] =>
      is_var p; destruct p; cbn [app] in *; nd_hyps
  | |- context [if ?b then _ else _] =>
      lazymatch b with
      | true => fail
      | false => fail
      | _ => destruct b eqn:?
      end
  end.

(* heap reads after writes *)
Ltac simp_heap :=
  repeat first [ rewrite upd_same
               | rewrite upd_other by loc_neq ].

(* ---- closing a branch ------------------------------------------------------------ *)
(* After symbolic execution the goal is
     exists c', Some <final configuration> = Some c' /\ WF gv c' /\ svals c' = v :: map h ls /\ mem c' = m
   [finish] discharges everything that is about cells and leaves only facts
   about numbers: [inrange top] and [top = specified value]. *)
Ltac finish_wf :=
  first [apply WF_pool_put | apply WF_mk]; cbn [app];
  [ nodup | alloc_all | | glob | lia | assumption ].
Ltac finish_range :=
  lazymatch goal with
  | |- Forall _ [] => constructor
  | |- Forall _ (_ :: _) => apply Forall_cons; [simp_heap|finish_range]
  | |- Forall _ _ => range_rest
  end.
Lemma cons_eq {A} (a b : A) l l' : a = b -> l = l' -> a :: l = b :: l'.
Proof. intros -> ->. reflexivity. Qed.
Ltac vals_eq :=
  lazymatch goal with
  | |- _ :: _ = _ :: _ => apply cons_eq; [simp_heap|vals_eq]
  | |- [] = [] => reflexivity
  | |- map _ ?l = map _ ?l => rewrite ?map_upd_notin by notin; reflexivity
  | |- ?l = ?l => reflexivity
  end.
Ltac finish_vals :=
  rewrite ?svals_pool_put; unfold svals; cbn [stack heap map]; vals_eq.
Ltac finish_ok :=
  eexists; split; [reflexivity|];
  split; [finish_wf; finish_range
         |split; [finish_vals|split; [rewrite ?pool_put_mem; reflexivity|rewrite ?pool_put_stor; reflexivity]]].
Ltac finish :=
  lazymatch goal with
  | |- exists c', None = Some c' /\ _ => exfalso; lia     (* a panic branch: must be unreachable *)
  | _ => finish_ok
  end.

(* ---- the program counter ------------------------------------------------------------------- *)
(* a body that never assigns *pc leaves it where it was *)
Fixpoint assigns_pc (s : stmt) : bool :=
  match s with
  | SSeq a b | SIf _ a b => assigns_pc a || assigns_pc b
  | SDefI v _ => N.eqb v pcvar
  | _ => false
  end.

Ltac destruct_match_hyp He :=
  repeat match type of He with
  | match ?x with _ => _ end = Some _ => let E := fresh "E" in destruct x eqn:E; try discriminate He
  | (let (_, _) := ?x in _) = Some _ => let E := fresh "E" in destruct x eqn:E
  | (if ?x then _ else _) = Some _ => let E := fresh "E" in destruct x eqn:E; try discriminate He
  end.

Lemma exec_keeps_pc code s : forall en cf r en' cf',
  assigns_pc s = false -> exec code s en cf = Some (r, en', cf') ->
  lookup (iv en') pcvar = lookup (iv en) pcvar.
Proof.
  induction s as [ |s1 IH1 s2 IH2| | | | | |cd s1 IH1 s2 IH2| | | | | | ];
    intros en cf r en' cf' Ha He; cbn [exec assigns_pc] in *.
  - injection He as <- <- <-. reflexivity.
  - apply Bool.orb_false_iff in Ha as [Ha1 Ha2].
    destruct (exec code s1 en cf) as [[[r1 en1] c1]|] eqn:E1; [|discriminate].
    destruct r1.
    + injection He as <- <- <-. eapply IH1; eassumption.
    + rewrite (IH2 _ _ _ _ _ Ha2 He). eapply IH1; eassumption.
  - destruct_match_hyp He. injection He as <- <- <-. reflexivity.
  - destruct_match_hyp He. injection He as <- <- <-. cbn [bind_i iv lookup]. rewrite Ha. reflexivity.
  - destruct_match_hyp He. injection He as <- <- <-. reflexivity.
  - destruct_match_hyp He. injection He as <- <- <-. reflexivity.
  - destruct_match_hyp He. injection He as <- <- <-. reflexivity.
  - apply Bool.orb_false_iff in Ha as [Ha1 Ha2].
    destruct (eval_c code cd en cf) as [[t c1]|]; [|discriminate].
    destruct t; [eapply IH1|eapply IH2]; eassumption.
  - injection He as <- <- <-. reflexivity.
  - destruct_match_hyp He. injection He as <- <- <-. reflexivity.
  - destruct_match_hyp He. injection He as <- <- <-. reflexivity.
  - destruct_match_hyp He. injection He as <- <- <-. reflexivity.
  - destruct_match_hyp He. injection He as <- <- <-. reflexivity.
  - destruct_match_hyp He. injection He as <- <- <-. reflexivity.
Qed.

Lemma run_body_keeps_pc code pc s c c' :
  assigns_pc s = false -> run_body code pc s c = Some c' -> run_body_pc code pc s c = Some (c', pc).
Proof.
  unfold run_body, run_body_pc. intros Ha H.
  destruct (exec code s (env_pc pc) c) as [[[r en] c1]|] eqn:E; [|discriminate].
  injection H as <-. rewrite (exec_keeps_pc _ _ _ _ _ _ _ Ha E).
  cbn. rewrite N2Z.id. reflexivity.
Qed.
