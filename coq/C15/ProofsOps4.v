(* C15 - opcode bodies regenerated from core/vm/instructions.go compute their
   specified functions (part 4). *)
From Coq Require Import Lia ZifyBool ZifyN ZifyNat.
From VF.C15 Require Import Model ProofsArith ProofsHeap ProofsTac ProofsOpsCommon.
From VF.gen Require Import C15Ops.
Local Open Scope Z_scope.

Lemma opSmod_ok : comp_correct globals body_opSmod (F2 spec_smod).
Proof.
  start2. unfold body_opSmod. run_sym. all: norm; finish; norm; unfold spec_smod.
  all: try apply wrap256_range; try apply inrange_0.
  all: sgn_cases; pose proof tt256_double; pose proof tt255_pos; unfold inrange in *.
  all: match goal with |- _ = (if ?b then _ else _) => destruct b eqn:? end.
  all: first [ reflexivity | apply smod_neg'; lia | apply smod_pos'; lia | exfalso; lia ].
Qed.

Lemma opExp_ok : comp_correct globals body_opExp (F2 spec_exp).
Proof.
  start2. unfold body_opExp. run_sym.
  pose proof (exp_sem_correct (h la) (h lb) ltac:(assumption)) as Hc.
  pose proof (exp_sem_range (h la) (h lb)) as Hrg.
  destruct (exp_sem (h la) (h lb)) as [r b'] eqn:Eexp. cbn [fst] in Hc, Hrg.
  run_sym. finish.
  - exact Hrg.
  - exact Hc.
Qed.

