(* C15 - opcode bodies regenerated from core/vm/instructions.go compute their
   specified functions (part 3). *)
From Coq Require Import Lia ZifyBool ZifyN ZifyNat.
From VF.C15 Require Import Model ProofsArith ProofsHeap ProofsTac ProofsOpsCommon.
From VF.gen Require Import C15Ops.
Local Open Scope Z_scope.

Lemma opSdiv_ok : comp_correct globals body_opSdiv (F2 spec_sdiv).
Proof.
  start2. unfold body_opSdiv. run_sym. all: norm; finish; norm; unfold spec_sdiv.
  all: try apply wrap256_range; try apply inrange_0.
  all: sgn_cases; pose proof tt256_double; pose proof tt255_pos; unfold inrange in *.
  all: match goal with |- _ = (if ?b then _ else _) => destruct b eqn:? end.
  all: first [ reflexivity | apply sdiv_zero; lia | apply sdiv_neg'; lia | apply sdiv_pos'; lia | exfalso; lia ].
Qed.

