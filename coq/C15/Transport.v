(* C15 - transport of the generated cases into Coq.  Parsing one numeral per
   byte (or per 256-bit value) dominates the run, so every per-case number
   travels as a primitive 63-bit integer and is unpacked under vm_compute.
   Imported only by the generated Cases.v: no model definition and no theorem
   depends on primitive integers. *)
From Coq Require Import Uint63.
From VF.C15 Require Import Model.

(* transport of the bytecode: 7 bytes per primitive 63-bit integer (big-endian),
   zero padded; parsing one numeral per byte would dominate the run.  Used only
   to build [c_code]; no theorem mentions primitive integers. *)
Fixpoint bits_to_N (n : nat) (i : int) : N :=
  match n with
  | O => 0%N
  | S k =>
    let r := bits_to_N k (Uint63.lsr i 1) in
    if Uint63.eqb (Uint63.land i 1) 0 then N.double r else N.succ_double r
  end.
Fixpoint unpack7 (k : nat) (i : int) (acc : list N) : list N :=
  match k with
  | O => acc
  | S k' => unpack7 k' (Uint63.lsr i 8) (bits_to_N 8 (Uint63.land i 255) :: acc)
  end.
Fixpoint unpack (l : list int) : list N :=
  match l with
  | [] => []
  | i :: r => unpack7 7 i (unpack r)
  end.
(* every per-case number travels as a primitive integer:
   - pool seeds: x >= 16 stands for the value x - 2^61, x < 16 for bigs[x]
   - the two digests are split into two 62-bit halves *)
Definition seed_of (bigs : list Z) (x : int) : Z :=
  if Uint63.ltb x 16 then nth (Z.to_nat (Uint63.to_Z x)) bigs 0%Z
  else (Uint63.to_Z x - 2305843009213693952)%Z.
Definition join62 (lo hi : int) : Z :=
  (Uint63.to_Z lo + 4611686018427387904 * Uint63.to_Z hi)%Z.
Definition mkCaseP (bigs : list Z) (packed : list int) (len gas : int) (pool0 : list int)
           (status gas_left : int) (run_lo run_hi pool_lo pool_hi : int) : case :=
  mkCase (firstn (Z.to_nat (Uint63.to_Z len)) (unpack packed)) (Z.to_N (Uint63.to_Z gas))
         (map (seed_of bigs) pool0)
         (Z.to_N (Uint63.to_Z status)) (Z.to_N (Uint63.to_Z gas_left))
         (join62 run_lo run_hi) (join62 pool_lo pool_hi).

