(* C15 - opcode bodies regenerated from core/vm/instructions.go compute their
   specified functions (part 1). *)
From Coq Require Import Lia ZifyBool ZifyN ZifyNat.
From VF.C15 Require Import Model ProofsArith ProofsHeap ProofsTac ProofsOpsCommon.
From VF.gen Require Import C15Ops.
Local Open Scope Z_scope.

(* ---- ADD SUB MUL ------------------------------------------------------------------ *)
Lemma opAdd_ok : comp_correct globals body_opAdd (F2 spec_add).
Proof.
  start2. unfold body_opAdd. run_sym. finish; rewrite ?land_mask_wrap.
  - apply wrap256_range.
  - first [reflexivity | unfold spec_add; f_equal; lia].
Qed.
Lemma opSub_ok : comp_correct globals body_opSub (F2 spec_sub).
Proof.
  start2. unfold body_opSub. run_sym. finish; rewrite ?land_mask_wrap.
  - apply wrap256_range.
  - first [reflexivity | unfold spec_sub; f_equal; lia].
Qed.
Lemma opMul_ok : comp_correct globals body_opMul (F2 spec_mul).
Proof.
  start2. unfold body_opMul. run_sym. finish; rewrite ?land_mask_wrap.
  - apply wrap256_range.
  - first [reflexivity | unfold spec_mul; f_equal; lia].
Qed.
Lemma opDiv_ok : comp_correct globals body_opDiv (F2 spec_div).
Proof.
  start2. unfold body_opDiv. run_sym. all: finish; norm; unfold spec_div.
  - apply wrap256_range.
  - assert (0 < h lb) by (unfold inrange in *; lia).
    rewrite ediv_pos by lia. replace (h lb =? 0) with false by lia.
    apply wrap256_id, div_range; assumption.
  - apply inrange_0.
  - replace (h lb =? 0) with true by lia. reflexivity.
Qed.

Lemma opMod_ok : comp_correct globals body_opMod (F2 spec_mod).
Proof.
  start2. unfold body_opMod. run_sym. all: finish; norm; unfold spec_mod.
  - apply inrange_0.
  - replace (h lb =? 0) with true by lia. reflexivity.
  - apply wrap256_range.
  - assert (0 < h lb < tt256) by (unfold inrange in *; lia).
    replace (h lb =? 0) with false by lia. rewrite Z.abs_eq by lia.
    apply wrap256_id, mod_range; lia.
Qed.

Lemma opNot_ok : comp_correct globals body_opNot (F1 spec_not).
Proof.
  start1. unfold body_opNot. run_sym. all: finish; norm.
  - apply wrap256_range.
  - apply not_wrap. assumption.
Qed.

Lemma opLt_ok : comp_correct globals body_opLt (F2 spec_lt).
Proof.
  start2. unfold body_opLt. run_sym. all: finish; norm; unfold spec_lt.
  - apply inrange_1.
  - rewrite Heqb. reflexivity.
  - apply inrange_0.
  - rewrite Heqb. reflexivity.
Qed.
Lemma opGt_ok : comp_correct globals body_opGt (F2 spec_gt).
Proof.
  start2. unfold body_opGt. run_sym. all: finish; norm; unfold spec_gt; rewrite ?Z.gtb_ltb.
  - apply inrange_1.
  - rewrite Heqb. reflexivity.
  - apply inrange_0.
  - rewrite Heqb. reflexivity.
Qed.
Lemma opEq_ok : comp_correct globals body_opEq (F2 spec_eq).
Proof.
  start2. unfold body_opEq. run_sym. all: finish; norm; unfold spec_eq.
  - apply inrange_1.
  - rewrite Heqb. reflexivity.
  - apply inrange_0.
  - rewrite Heqb. reflexivity.
Qed.
Lemma opIszero_ok : comp_correct globals body_opIszero (F1 spec_iszero).
Proof.
  start1. unfold body_opIszero. run_sym. all: finish; norm; unfold spec_iszero.
  - apply inrange_0.
  - replace (h la =? 0) with false by lia. reflexivity.
  - apply inrange_1.
  - replace (h la =? 0) with true by (unfold inrange in *; lia). reflexivity.
Qed.
Lemma opAnd_ok : comp_correct globals body_opAnd (F2 spec_and).
Proof.
  start2. unfold body_opAnd. run_sym. all: finish.
  - apply land_range; assumption.
  - reflexivity.
Qed.
Lemma opOr_ok : comp_correct globals body_opOr (F2 spec_or).
Proof.
  start2. unfold body_opOr. run_sym. all: finish.
  - apply lor_range; assumption.
  - reflexivity.
Qed.
Lemma opXor_ok : comp_correct globals body_opXor (F2 spec_xor).
Proof.
  start2. unfold body_opXor. run_sym. all: finish.
  - apply lxor_range; assumption.
  - reflexivity.
Qed.

Lemma opAddmod_ok : comp_correct globals body_opAddmod (F3 spec_addmod).
Proof.
  start3. unfold body_opAddmod. run_sym. all: norm; finish; norm; unfold spec_addmod.
  - apply wrap256_range.
  - assert (0 < h lc < tt256) by (unfold inrange in *; lia).
    replace (h lc =? 0) with false by lia. rewrite Z.abs_eq by lia.
    apply wrap256_id, mod_range; lia.
  - apply inrange_0.
  - replace (h lc =? 0) with true by (unfold inrange in *; lia). reflexivity.
Qed.
Lemma opMulmod_ok : comp_correct globals body_opMulmod (F3 spec_mulmod).
Proof.
  start3. unfold body_opMulmod. run_sym. all: norm; finish; norm; unfold spec_mulmod.
  - apply wrap256_range.
  - assert (0 < h lc < tt256) by (unfold inrange in *; lia).
    replace (h lc =? 0) with false by lia. rewrite Z.abs_eq by lia.
    apply wrap256_id, mod_range; lia.
  - apply inrange_0.
  - replace (h lc =? 0) with true by (unfold inrange in *; lia). reflexivity.
Qed.

Lemma opByte_ok : comp_correct globals body_opByte (F2 spec_byte).
Proof.
  start2. unfold body_opByte. run_sym. all: norm.
  (* where the index is looked at it is below 32: the machine-integer wrappers vanish *)
  all: try (assert (Hs : 0 <= h la < 32) by (unfold inrange in *; lia);
            pose proof tt63_big as H63; pose proof tt64_big as H64;
            rewrite ?(int64_of_small (h la)) in * by lia;
            rewrite ?(wrap_i64_small (h la)) in * by lia;
            change (32 - 1) with 31 in *;
            rewrite ?(wrap_i64_small 31) in * by lia;
            rewrite ?(wrap_i64_small (31 - h la)) in * by lia;
            assert (Hq : 0 <= (31 - h la) ÷ 8 < 4 /\ 0 <= Z.rem (31 - h la) 8 < 8)
              by (rewrite Z.quot_div_nonneg, Z.rem_mod_nonneg by lia; Z.div_mod_to_equations; lia);
            rewrite ?(wrap_i64_small ((31 - h la) ÷ 8)) in * by lia;
            rewrite ?(wrap_i64_small (Z.rem (31 - h la) 8)) in * by lia;
            rewrite ?(wrap_u64_small (Z.rem (31 - h la) 8)) in * by lia;
            rewrite ?(wrap_u64_small (8 * Z.rem (31 - h la) 8)) in * by lia).
  all: try (exfalso; pose proof (bits_len_nonneg (h lb)); lia).
  all: finish; norm; unfold spec_byte.
  - change (wrap_u8 0) with 0. rewrite !wrap_u64_0. apply inrange_0.
  - change (wrap_u8 0) with 0. rewrite !wrap_u64_0. replace (h la <? 32) with true by lia.
    symmetry. apply byte_beyond_words; unfold inrange in *; lia.
  - rewrite word_at_byte by (unfold inrange in *; lia).
    pose proof (land_255_range (Z.shiftr (h lb) (8 * (31 - h la)))) as Hb.
    rewrite !(wrap_u64_small (Z.land _ _)) by lia. apply small_inrange. lia.
  - rewrite word_at_byte by (unfold inrange in *; lia).
    pose proof (land_255_range (Z.shiftr (h lb) (8 * (31 - h la)))) as Hb.
    rewrite !(wrap_u64_small (Z.land _ _)) by lia. replace (h la <? 32) with true by lia. reflexivity.
  - apply inrange_0.
  - replace (h la <? 32) with false by lia. reflexivity.
Qed.


Lemma opSHL_ok : comp_correct globals body_opSHL (F2 spec_shl).
Proof.
  start2. unfold body_opSHL. run_sym. all: norm; u64_bounds; finish; norm; unfold spec_shl.
  - apply inrange_0.
  - replace (h la <? 256) with false by lia. reflexivity.
  - apply wrap256_range.
  - replace (h la <? 256) with true by lia. rewrite shift_count by (assumption || lia). reflexivity.
Qed.
Lemma opSHR_ok : comp_correct globals body_opSHR (F2 spec_shr).
Proof.
  start2. unfold body_opSHR. run_sym. all: norm; u64_bounds; finish; norm; unfold spec_shr.
  - apply inrange_0.
  - replace (h la <? 256) with false by lia. reflexivity.
  - apply wrap256_range.
  - replace (h la <? 256) with true by lia. rewrite shift_count by (assumption || lia).
    apply wrap256_id, shiftr_range; [assumption|unfold inrange in *; lia].
Qed.

