(* C15 - PUSHn, DUPn, SWAPn at the level of configurations: three functions on
   the heap machine ([push_sem], [dup_sem], [swap_sem]) meet the specification on
   every well-formed configuration.  ProofsOps6.v shows that the bodies
   regenerated from makePush / makeDup+Stack.dup / makeSwap+Stack.swap compute
   exactly these functions. *)
From Coq Require Import Lia ZifyBool ZifyN ZifyNat Permutation.
From VF.C15 Require Import Model ProofsArith ProofsHeap ProofsTac.
Local Open Scope Z_scope.

Definition push_sem (code : list N) (pc n : N) (c : cfg) : cfg :=
  let '(l, c1) := pool_get c in push (write c1 l (be_to_Z (push_bytes code pc n))) l.
Definition dup_sem (n : N) (c : cfg) : option cfg :=
  match nth_error (stack c) (N.to_nat n - 1) with
  | None => None
  | Some src => if (n =? 0)%N then None else
    let '(l, c1) := pool_get c in Some (push (write c1 l (heap c1 src)) l)
  end.
Definition swap_sem (n : N) (c : cfg) : option cfg :=
  match stack c, nth_error (stack c) (N.to_nat n - 1) with
  | top :: _, Some other =>
    if (n =? 0)%N then None else
    let st1 := firstn (N.to_nat n - 1) (stack c) ++ top :: skipn (N.to_nat n) (stack c) in
    let st2 := match st1 with [] => [] | _ :: r => other :: r end in
    Some (mkCfg (heap c) (next c) st2 (pool c) (mem c) (stor c))
  | _, _ => None
  end.

Section Closures.
Variable gv : list Z.

Ltac open_wf' Hwf :=
  let Hnd := fresh "Hnd" in let Hal := fresh "Hal" in let Hr := fresh "Hr" in
  destruct Hwf as [Hnd Hal Hr Hg Hn Hm]; cbn [stack pool heap next mem stor] in *;
  cbn [app] in *; nd_hyps.

Lemma push_bytes_length code pc n : length (push_bytes code pc n) = N.to_nat n.
Proof.
  unfold push_bytes. rewrite app_length, repeat_length.
  set (bs := firstn _ _). assert (length bs <= N.to_nat n)%nat by (subst bs; rewrite firstn_length; lia). lia.
Qed.
Lemma push_bytes_ok code pc n : bytes_ok code -> bytes_ok (push_bytes code pc n).
Proof.
  unfold bytes_ok, push_bytes. intros H. apply Forall_app. split.
  - apply Forall_firstn, Forall_skipn, H.
  - apply Forall_forall. intros x Hx. apply repeat_spec in Hx. subst. lia.
Qed.

(* PUSHn *)
Lemma push_correct code pc n c :
  bytes_ok code -> (n <= 32)%N -> WF gv c ->
  exists c', push_sem code pc n c = c' /\ WF gv c' /\
             svals c' = be_to_Z (push_bytes code pc n) :: svals c /\ mem c' = mem c /\ stor c' = stor c.
Proof.
  intros Hcode Hn32 Hwf. destruct c as [h nx st pl m sr].
  assert (Hrg : inrange (be_to_Z (push_bytes code pc n))).
  { apply be_to_Z_range; [apply push_bytes_ok, Hcode|rewrite push_bytes_length; lia]. }
  open_wf' Hwf. unfold push_sem.
  unfold pool_get. cbn [pool]. destruct pl as [|p pl]; cbn [app] in *; nd_hyps;
    unfold alloc, write, push; cbn [stack heap next pool mem stor];
    (eexists; split; [reflexivity|]; split; [|split; [|split; reflexivity]]).
  - apply WF_mk; cbn [app]; [nodup|alloc_all|finish_range; exact Hrg|glob|lia|assumption].
  - unfold svals. cbn [stack heap map]. simp_heap. rewrite ?map_upd_notin by notin. reflexivity.
  - apply WF_mk; cbn [app]; [nodup|alloc_all|finish_range; exact Hrg|glob|lia|assumption].
  - unfold svals. cbn [stack heap map]. simp_heap. rewrite ?map_upd_notin by notin. reflexivity.
Qed.

(* DUPn: k = n - 1 *)
Lemma dup_correct (k : nat) c x :
  WF gv c -> nth_error (svals c) k = Some x ->
  exists c', dup_sem (N.of_nat (S k)) c = Some c' /\ WF gv c' /\
             svals c' = x :: svals c /\ mem c' = mem c /\ stor c' = stor c.
Proof.
  intros Hwf Hx. destruct c as [h nx st pl m sr]. unfold svals in Hx. cbn [stack heap] in Hx.
  rewrite nth_error_map in Hx. destruct (nth_error st k) as [src|] eqn:Esrc; [|discriminate].
  cbn in Hx. injection Hx as <-.
  assert (Hsrc_in : In src st) by (eapply nth_error_In; eassumption).
  pose proof Hwf as Hwf0.
  destruct Hwf as [Hnd Hal Hr Hg Hn Hm]; cbn [stack pool heap next mem stor] in *.
  assert (Hsrc_rg : inrange (h src)) by (rewrite Forall_forall in Hr; apply Hr, Hsrc_in).
  unfold dup_sem. cbn [stack].
  replace (N.to_nat (N.of_nat (S k)) - 1)%nat with k by lia. rewrite Esrc.
  replace (N.of_nat (S k) =? 0)%N with false by lia.
  unfold pool_get. cbn [pool]. destruct pl as [|p pl].
  - unfold alloc, write, push; cbn [stack heap next pool mem stor].
    eexists; split; [reflexivity|]; split; [|split; [|split; reflexivity]].
    + rewrite app_nil_r in *.
      assert (Hfr : ~ In nx st) by (eapply allocated_fresh; eassumption).
      apply WF_mk; cbn [app]; rewrite ?app_nil_r.
      * apply NoDup_cons_iff. split; assumption.
      * apply Forall_cons; [unfold allocated; lia|eapply allocated_mono; [|eassumption]; lia].
      * apply Forall_cons; [simp_heap; rewrite upd_other by (intros ->; exact (Hfr Hsrc_in)); exact Hsrc_rg|].
        apply Forall_upd_notin; [exact Hfr|]. apply Forall_upd_notin; [exact Hfr|exact Hr].
      * glob.
      * lia.
      * assumption.
    + assert (Hfr : ~ In nx st) by (eapply allocated_fresh; rewrite app_nil_r in Hal; eassumption).
      unfold svals. cbn [stack heap map]. simp_heap.
      rewrite upd_other by (intros ->; exact (Hfr Hsrc_in)).
      rewrite !map_upd_notin by exact Hfr. reflexivity.
  - apply NoDup_app_iff in Hnd as (Hs & Hp & Hd). apply NoDup_cons_iff in Hp as (Hpn & Hp).
    apply Forall_app in Hal as (Ha1 & Ha2). apply Forall_cons_iff in Ha2 as (Hap & Ha2).
    assert (Hfr : ~ In p st) by (intros Hi; eapply Hd; [exact Hi|left; reflexivity]).
    unfold write, push; cbn [stack heap next pool mem stor].
    eexists; split; [reflexivity|]; split; [|split; [|split; reflexivity]].
    + apply WF_mk; cbn [app].
      * apply NoDup_cons_iff. split.
        -- apply not_in_app. split; assumption.
        -- apply NoDup_app_iff. repeat split; auto. intros y Hy1 Hy2. eapply Hd; [exact Hy1|right; exact Hy2].
      * apply Forall_cons; [exact Hap|]. apply Forall_app. split; assumption.
      * apply Forall_cons; [simp_heap; exact Hsrc_rg|]. apply Forall_upd_notin; [exact Hfr|exact Hr].
      * apply globals_upd; [unfold allocated in Hap; lia|exact Hg].
      * exact Hn.
      * exact Hm.
    + unfold svals. cbn [stack heap map]. simp_heap. rewrite map_upd_notin by exact Hfr. reflexivity.
Qed.

(* SWAPn: the stack is a :: r and b is the n'th element of r (k = n - 1) *)
Lemma swap_perm {A} (a b : A) r k : nth_error r k = Some b ->
  Permutation (b :: firstn k r ++ a :: skipn (S k) r) (a :: r).
Proof.
  intros Hn. assert (Hr : r = firstn k r ++ b :: skipn (S k) r).
  { clear a. revert r Hn. induction k as [|k IH]; intros [|x r] Hn; try discriminate.
    - cbn in Hn. injection Hn as ->. reflexivity.
    - cbn [firstn skipn app]. f_equal. apply IH. exact Hn. }
  rewrite Hr at 3. set (F := firstn k r). set (S' := skipn (S k) r).
  transitivity (b :: a :: F ++ S').
  - apply perm_skip. symmetry. apply Permutation_middle.
  - transitivity (a :: b :: F ++ S'); [apply perm_swap|].
    apply perm_skip. apply Permutation_middle.
Qed.

Lemma swap_correct (k : nat) c a r b :
  WF gv c -> svals c = a :: r -> nth_error r k = Some b ->
  exists c', swap_sem (N.of_nat (S (S k))) c = Some c' /\ WF gv c' /\
             svals c' = b :: firstn k r ++ a :: skipn (S k) r /\ mem c' = mem c /\ stor c' = stor c.
Proof.
  intros Hwf Hst Hb. destruct c as [h nx st pl m sr]. unfold svals in Hst. cbn [stack heap] in Hst.
  destruct st as [|la ls]; [discriminate|]. cbn [map] in Hst. injection Hst as <- <-.
  rewrite nth_error_map in Hb. destruct (nth_error ls k) as [lb|] eqn:Elb; [|discriminate].
  cbn in Hb. injection Hb as <-.
  unfold swap_sem. cbn [stack].
  replace (N.to_nat (N.of_nat (S (S k))) - 1)%nat with (S k) by lia.
  cbn [nth_error]. rewrite Elb.
  replace (N.of_nat (S (S k)) =? 0)%N with false by lia.
  replace (N.to_nat (N.of_nat (S (S k)))) with (S (S k)) by lia.
  cbn [firstn skipn app heap next pool mem].
  eexists. split; [reflexivity|].
  pose proof (swap_perm la lb ls k Elb) as Hperm.
  destruct Hwf as [Hnd Hal Hr Hg Hn Hm]; cbn [stack pool heap next mem stor] in *.
  split; [|split; [|split; reflexivity]].
  - apply WF_mk; try assumption.
    + eapply Permutation_NoDup; [|exact Hnd]. apply Permutation_app_tail. symmetry. exact Hperm.
    + eapply Permutation_Forall; [|exact Hal]. apply Permutation_app_tail. symmetry. exact Hperm.
    + eapply Permutation_Forall; [|exact Hr]. symmetry. exact Hperm.
  - unfold svals. cbn [stack heap map]. rewrite map_app. cbn [map].
    change (match ls with [] => [] | _ :: l => skipn k l end) with (skipn (S k) ls).
    change (match map h ls with [] => [] | _ :: l => skipn k l end) with (skipn (S k) (map h ls)).
    rewrite firstn_map, skipn_map. reflexivity.
Qed.

End Closures.
