(* C15 - Every EVM computational opcode computes its specified 256-bit function.

   Only theorem statements here; each is closed by [exact] of a lemma of the
   proof files and followed by Print Assumptions.

   Vocabulary (Model.v):
   - [spec_step]/[spec_run]: the SPECIFICATION, a pure stack machine over Z
     modulo 2^256 with the yellow paper's gas (C15_spec_is_textbook shows its
     masked/shifted definitions are the textbook functions).
   - [step]/[run]: the hand-written mirror of EVMInterpreter.Run over the HEAP
     machine (mutable big.Int cells, stack and integer pool as lists of cell
     addresses), parameterised by a jump table and by opcode bodies.
   - [jump_table] (gen/C15Table.v) and [op_bodies], [globals] (gen/C15Ops.v) are
     REGENERATED from the repository at every check: the jump table from the
     running code, the bodies by translating the go/ast of
     core/vm/instructions.go, common/math/big.go, common/big.go.
   - [WF]: no cell is shared between two stack slots or between stack and pool,
     every stack cell holds a value in [0, 2^256), package-level big integers
     hold their values. *)
From Coq Require Import Lia.
From VF.C15 Require Import Model ProofsArith ProofsHeap ProofsTac ProofsClosures ProofsSim ProofsSpec ProofsOps Bridge.
From VF.gen Require Import C15Table C15Ops.
Local Open Scope Z_scope.

(* ------------------------------------------------------------------------------------- *)
(* 1. Per opcode (T2 + T3): for every arithmetic, comparison, bitwise, shift and
      byte opcode of the specification table, the jump table of the running code
      charges the specified static gas, has the specified stack bounds and no
      other behaviour flag, and dispatches to a body which - from ANY well-formed
      configuration with enough operands, for ALL operand values - terminates
      without panic in a well-formed configuration whose stack is the specified
      function of the operands on top of the UNCHANGED rest, memory untouched.
      (Division by zero, SDIV -2^255/-1, shifts >= 256, SIGNEXTEND index >= 31,
      BYTE index >= 32 are ordinary cases of [comp_spec]'s functions.) *)
Theorem C15_every_opcode_computes_its_function :
  forall op f g, comp_spec op = Some (f, g) ->
  exists name body,
    entry jump_table op =
      plain_op g (N.of_nat (cfun_arity f)) (1024 + N.of_nat (cfun_arity f) - 1) name /\
    exec_stmt op_bodies name op = Some body /\ assigns_pc body = false /\
    comp_correct globals body f.
Proof. exact (t_comp _ _ _ real_table_ok). Qed.
Print Assumptions C15_every_opcode_computes_its_function.

(* EXP: body correct for all base/exponent pairs; its dynamic gas is handled in 3. *)
Theorem C15_exp_computes_power :
  exists name body,
    entry jump_table 10 = mkOp true 0 2 1025 false false false false false true false name "gasExp" "" /\
    exec_stmt op_bodies name 10 = Some body /\ assigns_pc body = false /\
    comp_correct globals body (F2 spec_exp).
Proof. exact (t_exp _ _ _ real_table_ok). Qed.
Print Assumptions C15_exp_computes_power.

(* ------------------------------------------------------------------------------------- *)
(* 2. The specification functions are the textbook ones (mod 2^256, truncated
      signed division, sign of the dividend for SMOD, floor for SAR, ...). *)
Theorem C15_spec_is_textbook :
  (forall a b, spec_add a b = (a + b) mod 2 ^ 256) /\
  (forall a b, spec_mul a b = (a * b) mod 2 ^ 256) /\
  (forall a b, spec_sub a b = (a - b) mod 2 ^ 256) /\
  (forall a b, spec_sdiv a b = if b =? 0 then 0 else (Z.quot (sgn256 a) (sgn256 b)) mod 2 ^ 256) /\
  (forall a b, spec_smod a b = if b =? 0 then 0 else (Z.rem (sgn256 a) (sgn256 b)) mod 2 ^ 256) /\
  (forall a b, 0 <= b -> spec_exp a b = (a ^ b) mod 2 ^ 256) /\
  (forall b x, 0 <= b -> spec_signextend b x =
     if b <? 31 then let t := 8 * b + 7 in
       if Z.testbit x t then x mod 2 ^ (t + 1) + (2 ^ 256 - 2 ^ (t + 1)) else x mod 2 ^ (t + 1)
     else x) /\
  (forall a, spec_not a = 2 ^ 256 - 1 - a) /\
  (forall i x, 0 <= i -> spec_byte i x = if i <? 32 then (x / 2 ^ (8 * (31 - i))) mod 256 else 0) /\
  (forall s v, 0 <= s -> spec_shl s v = if s <? 256 then (v * 2 ^ s) mod 2 ^ 256 else 0) /\
  (forall s v, 0 <= s -> spec_shr s v = if s <? 256 then v / 2 ^ s else 0) /\
  (forall s v, 0 <= s -> spec_sar s v =
     if s <? 256 then (sgn256 v / 2 ^ s) mod 2 ^ 256 else if sgn256 v <? 0 then 2 ^ 256 - 1 else 0).
Proof.
  exact (conj spec_add_eq (conj spec_mul_eq (conj spec_sub_eq (conj spec_sdiv_eq (conj spec_smod_eq
        (conj spec_exp_eq (conj spec_signextend_eq (conj spec_not_eq (conj spec_byte_eq
        (conj spec_shl_eq (conj spec_shr_eq spec_sar_eq))))))))))).
Qed.
Print Assumptions C15_spec_is_textbook.

(* ------------------------------------------------------------------------------------- *)
(* 3. Programs.  For ANY bytecode, ANY gas limit below 3*2^32 (about 12.9
      billion: beyond it the uint64 arithmetic of memoryGasCost wraps), ANY
      contents of the shared integer pool and ANY number of steps, running the
      interpreter loop over the regenerated bodies and table agrees with the
      specification machine: same top-of-stack trace, and
      - still running: a well-formed state (so no aliasing was ever created)
        denoting exactly the specification's stack, memory, pc and gas;
      - normal halt: same stack, memory and gas left;
      - exceptional halt (stack underflow/overflow, invalid opcode, out of gas):
        an error status with all gas consumed.
      The statement is silent only once the program reaches an opcode outside
      the computational / stack / memory / storage groups ([PUnsupported]):
      environment, calls, logs and jumps belong to C16. *)
Definition C15_full : Prop :=
  forall (code : list N) (gas : N) (pool0 : list Z) (n : nat),
    bytes_ok code -> (N.of_nat (length code) < 4294967296)%N -> (gas < gas_bound)%N ->
    let sr := spec_run code n (mkP [] [] 0 gas []) [] in
    fst sr <> PUnsupported ->
    exists r, run jump_table op_bodies code n (init_state globals pool0 gas) [] = (r, snd sr) /\
              res_rel globals gas code r (fst sr).

Lemma programs_refine : C15_full.
Proof.
  intros code gas pool0 n Hcode Hlen Hgas sr Hsup.
  pose proof (init_wf globals gas Hgas code Hlen pool0 gas (N.le_refl _)) as Hwf.
  exact (run_sim globals jump_table op_bodies real_table_ok gas Hgas code Hcode Hlen n
           (init_state globals pool0 gas) [] Hwf Hsup).
Qed.

Theorem C15_programs_refine_the_specification : C15_full.
Proof. exact programs_refine. Qed.
Print Assumptions C15_programs_refine_the_specification.

(* the same from any reachable (well-formed) state, e.g. in the middle of a program *)
Theorem C15_programs_from_any_state :
  forall (G0 : N) (code : list N) (n : nat) (s : istate) (tops : list Z),
    (G0 < gas_bound)%N -> bytes_ok code -> (N.of_nat (length code) < 4294967296)%N -> WFI globals G0 code s ->
    fst (spec_run code n (abs s) tops) <> PUnsupported ->
    exists r, run jump_table op_bodies code n s tops = (r, snd (spec_run code n (abs s) tops)) /\
              res_rel globals G0 code r (fst (spec_run code n (abs s) tops)).
Proof.
  exact (fun G0 code n s tops HG Hc Hl => run_sim globals jump_table op_bodies real_table_ok G0 HG code Hc Hl n s tops).
Qed.
Print Assumptions C15_programs_from_any_state.

(* ------------------------------------------------------------------------------------- *)
(* 4. Memory and storage read back what was written.
      - MLOAD after MSTORE at the same offset returns the stored word (specification
        machine; by 3. also the implementation model).
      - Storage: the regenerated bodies of SLOAD and SSTORE, from any well-formed
        configuration and for ALL keys and values: SSTORE k v removes its two
        operands, leaves the rest of the stack and the memory unchanged and turns
        the storage s into [st_set s k v]; SLOAD k replaces k by [st_get s k] and
        changes nothing else.  With the two laws of [st_get]/[st_set] this is:
        SLOAD after SSTORE of the same key reads the stored word, every other
        slot is unchanged.  3. carries this to whole programs, including the
        EIP-2200 cost of SSTORE over an empty committed storage.
      Not modelled: EIP-2200's refund counter, a non-empty committed storage,
      write protection in static calls. *)
Theorem C15_memory_and_storage_read_back :
  (forall m off v, 0 <= off -> (Z.to_nat off + 32 <= length m)%nat -> inrange v ->
     spec_mload (spec_mstore m off v) off = v) /\
  (forall s k v, st_get (st_set s k v) k = v) /\
  (forall s k v k', k' <> k -> st_get (st_set s k v) k' = st_get s k') /\
  (exists name body,
     entry jump_table 84 = plain_op 800 1 1024 name /\ exec_stmt op_bodies name 84 = Some body /\
     assigns_pc body = false /\ sload_correct globals body) /\
  (exists name body,
     entry jump_table 85 = mkOp true 0 2 1026 false false true false false true false name "gasSStoreEIP2200" "" /\
     exec_stmt op_bodies name 85 = Some body /\ assigns_pc body = false /\ sstore_correct globals body).
Proof.
  exact (conj mload_mstore (conj st_get_set_same (conj st_get_set_other
          (conj (t_sload _ _ _ real_table_ok) (t_sstore _ _ _ real_table_ok))))).
Qed.
Print Assumptions C15_memory_and_storage_read_back.

(* the storage model stands for ANY implementation of GetState/SetState (for one
   account) that satisfies get-after-set: after any sequence of writes applied to
   both, every read agrees *)
Theorem C15_storage_any_implementation :
  forall (S : Type) (get : S -> Z -> Z) (set : S -> Z -> Z -> S),
    (forall s k v, get (set s k v) k = v) ->
    (forall s k v k', k' <> k -> get (set s k v) k' = get s k') ->
    forall ws s m, represents S get s m ->
      represents S get (fold_left (fun s kv => set s (fst kv) (snd kv)) ws s)
                       (fold_left (fun m kv => st_set m (fst kv) (snd kv)) ws m).
Proof. exact represents_writes. Qed.
Print Assumptions C15_storage_any_implementation.

(* ------------------------------------------------------------------------------------- *)
(* 5. Bridge: the regenerated jump table and bodies meet every condition the
      generic simulation theorem needs (static gas, stack bounds, flags, dynamic
      gas and memory-size functions by name, unassigned bytes invalid), and the
      hand-modelled Go functions are textually the ones the model was written
      against. *)
Theorem C15_regenerated_table_meets_the_conditions : table_ok globals jump_table op_bodies.
Proof. exact real_table_ok. Qed.
Print Assumptions C15_regenerated_table_meets_the_conditions.

Theorem C15_hand_modelled_functions_unchanged :
  fingerprints = recorded_fingerprints /\ pool_limit = poolLimit /\ verify_pool = false /\
  stack_limit = 1024%N /\ length jump_table = 256%nat.
Proof.
  exact (conj hand_modelled_unchanged (conj pool_limit_ok (conj verify_pool_off (conj stack_limit_ok table_length)))).
Qed.
Print Assumptions C15_hand_modelled_functions_unchanged.

(* ------------------------------------------------------------------------------------- *)
(* Non-vacuity. *)
(* PUSH32 2^255; PUSH32 2^256-1; SDIV  then  PUSH1 0; MSTORE; PUSH1 0; MLOAD; ... : the
   hypotheses of 3. hold and the run is a real one (SDIV -1 / -2^255 = 0; 7+7 stored and
   read back; 3 << 14 on top after a SWAP), with a junk-filled pool *)
Definition ex_code : list N :=
  [127; 128;0;0;0;0;0;0;0;0;0;0;0;0;0;0;0;0;0;0;0;0;0;0;0;0;0;0;0;0;0;0;0;
   127; 255;255;255;255;255;255;255;255;255;255;255;255;255;255;255;255;255;255;255;255;255;255;255;255;255;255;255;255;255;255;255;255;
   5; 96;7; 128; 1; 96;0; 82; 96;0; 81; 96;3; 144; 27; 0]%N.
Example C15_nonvacuous_program :
  bytes_ok ex_code /\ (N.of_nat (length ex_code) < 4294967296)%N /\ (100000 < gas_bound)%N /\
  fst (spec_run ex_code 40 (mkP [] [] 0 100000 []) []) =
    PStop (mkP [49152; 0] (be_bytes 32 14) 81 99956 []) /\
  fst (run jump_table op_bodies ex_code 40 (init_state globals [(-42); 2 ^ 300; 7] 100000) []) <> Next (init_state globals [] 0).
Proof.
  split; [unfold bytes_ok, ex_code; repeat constructor|]. split; [reflexivity|].
  split; [reflexivity|]. split; [vm_compute; reflexivity|]. vm_compute. discriminate.
Qed.
Print Assumptions C15_nonvacuous_program.

(* PUSH1 9; PUSH1 1; SSTORE; PUSH1 0; PUSH1 2; SSTORE; PUSH1 5; PUSH1 1; SSTORE; PUSH1 1; SLOAD;
   PUSH1 2; SLOAD; PUSH1 3; SLOAD: overwrite, zero value, unwritten slot *)
Definition ex_storage : list N :=
  [96;9;96;1;85; 96;0;96;2;85; 96;5;96;1;85; 96;1;84; 96;2;84; 96;3;84; 0]%N.
Example C15_nonvacuous_storage :
  bytes_ok ex_storage /\
  fst (spec_run ex_storage 40 (mkP [] [] 0 100000 []) []) =
    PStop (mkP [0; 0; 5] [] 24 75973 [(1, 5); (2, 0)]).
Proof. split; [unfold bytes_ok, ex_storage; repeat constructor|vm_compute; reflexivity]. Qed.
Print Assumptions C15_nonvacuous_storage.

(* a well-formed configuration with operands for every arity exists, and SDIV of
   the two extreme operands is the specified overflow case *)
Example C15_nonvacuous_opcode :
  WF globals (i_cfg (init_state globals [5; 6; 7] 1000)) /\
  comp_spec 5 = Some (F2 spec_sdiv, 5%N) /\
  spec_sdiv (2 ^ 255) (2 ^ 256 - 1) = 2 ^ 255 /\
  spec_sar 300 (2 ^ 256 - 5) = 2 ^ 256 - 1 /\ spec_shl 256 1 = 0 /\
  spec_signextend 31 12345 = 12345 /\ spec_byte 32 (2 ^ 256 - 1) = 0 /\ spec_div 7 0 = 0.
Proof.
  split; [exact (wfi_cfg _ _ _ _ (init_wf globals 1000 eq_refl [] eq_refl [5; 6; 7] 1000 (N.le_refl _)))|].
  repeat split; vm_compute; reflexivity.
Qed.
Print Assumptions C15_nonvacuous_opcode.

(* the gas bound of 3. is needed: right above it the uint64 square in the mirror of
   memoryGasCost wraps (as it does in the Go code, see fixes/C15_memory_gas_uint64_wrap.md):
   expanding an empty memory to 2^37 bytes is charged 3*2^32 instead of C_mem(2^32) *)
Example C15_gas_bound_is_needed :
  memory_gas_cost 0 0 137438953472 = Some (12884901888, 12884901888)%N /\
  cmem_cost 4294967296 = 36028809903865856%N /\ gas_bound = 12884901888%N.
Proof. repeat split; vm_compute; reflexivity. Qed.
Print Assumptions C15_gas_bound_is_needed.
