(* C15 - property theorems (placeholder while the proofs are being written). *)
From VF.C15 Require Import Model.
From VF.gen Require Import C15Table C15Ops.

Example C15_nonvacuous_run :
  heap_ok jump_table op_bodies globals
    (mkCase [96;3;96;4;1;0]%N 100000%N []%Z 0%N 99991%N 0%Z 0%Z) = false.
Proof. vm_compute. reflexivity. Qed.
Print Assumptions C15_nonvacuous_run.
