(* C15 - tactics shared by the per-opcode proof files.
   C15 - every regenerated opcode body (coq/gen/C15Ops.v, translated from
   core/vm/instructions.go on each check) computes its specified function.
   One symbolic execution per body; what is left is arithmetic. *)
From Coq Require Import Lia ZifyBool ZifyN ZifyNat.
From VF.C15 Require Import Model ProofsArith ProofsHeap ProofsTac.
From VF.gen Require Import C15Ops.
Local Open Scope Z_scope.

(* the package level variables the translator found, by name *)
Lemma globals_spec :
  globals = [tt256m1; 9223372036854775807; tt255; tt256; tt256m1; tt63; 0; tt255].
Proof. Transparent tt256m1 tt255 tt256 tt63. reflexivity. Qed.
Global Opaque tt256m1 tt255 tt256 tt63.
Lemma globals_len : N.of_nat (length globals) = 8%N. Proof. reflexivity. Qed.

Ltac use_globals Hg :=
  let Hg' := fresh "Hg'" in
  pose proof Hg as Hg'; rewrite globals_spec in Hg';
  pose proof (Hg' 2%nat _ eq_refl); pose proof (Hg' 3%nat _ eq_refl);
  pose proof (Hg' 4%nat _ eq_refl); pose proof (Hg' 6%nat _ eq_refl);
  pose proof (Hg' 7%nat _ eq_refl); clear Hg';
  cbn [N.of_nat Pos.of_succ_nat Pos.succ] in *;
  pose proof globals_len as Hlen.

Ltac open_wf Hwf :=
  let Hnd := fresh "Hnd" in let Hal := fresh "Hal" in let Hr := fresh "Hr" in
  destruct Hwf as [Hnd Hal Hr Hg Hn Hm]; cbn [stack pool heap next mem stor] in *;
  cbn [app] in *; nd_hyps; use_globals Hg.

Ltac start1 :=
  intros code pc [h nx st pl m sr] st' Hwf Happ;
  unfold svals in Happ; cbn [stack heap] in Happ;
  destruct st as [|la ls]; cbn in Happ; try discriminate; injection Happ as <-;
  open_wf Hwf; unfold run_body.
Ltac start2 :=
  intros code pc [h nx st pl m sr] st' Hwf Happ;
  unfold svals in Happ; cbn [stack heap] in Happ;
  destruct st as [|la [|lb ls]]; cbn in Happ; try discriminate; injection Happ as <-;
  open_wf Hwf; unfold run_body.
Ltac start3 :=
  intros code pc [h nx st pl m sr] st' Hwf Happ;
  unfold svals in Happ; cbn [stack heap] in Happ;
  destruct st as [|la [|lb [|lc ls]]]; cbn in Happ; try discriminate; injection Happ as <-;
  open_wf Hwf; unfold run_body.

Ltac simp_glob :=
  simp_heap;
  repeat match goal with
  | H : ?f ?k = _ |- context [?f ?k] =>
      lazymatch k with N.pos _ => rewrite H | N0 => rewrite H end
  end.
Ltac run_sym :=
  repeat (repeat symex1; simp_glob; try split_stuck).

Lemma land_mask_wrap x : Z.land x tt256m1 = wrap256 x. Proof. reflexivity. Qed.

(* rewriting the residue into the vocabulary of the specification *)
Ltac u64_bounds :=
  repeat match goal with
  | |- context [wrap_u64 ?x] =>
      lazymatch goal with
      | _ : 0 <= wrap_u64 x < tt64 |- _ => fail
      | _ => pose proof (wrap_u64_bound x)
      end
  | _ : context [wrap_u64 ?x] |- _ =>
      lazymatch goal with
      | _ : 0 <= wrap_u64 x < tt64 |- _ => fail
      | _ => pose proof (wrap_u64_bound x)
      end
  end.
Ltac norm :=
  rewrite ?land_mask_wrap, ?wrap_u64_0, ?wrap_u64_1 in *;
  rewrite ?cmp_lt, ?cmp_gt, ?cmp_eq, ?cmp_ge in *;
  rewrite ?Z.geb_leb, ?Z.gtb_ltb in *;
  rewrite ?wrap256_id in * by assumption.
Ltac bool_hyps :=
  repeat match goal with
  | H : negb _ = true |- _ => apply Bool.negb_true_iff in H
  | H : negb _ = false |- _ => apply Bool.negb_false_iff in H
  | H : (_ && _)%bool = true |- _ => apply Bool.andb_true_iff in H; destruct H
  | H : (_ || _)%bool = false |- _ => apply Bool.orb_false_iff in H; destruct H
  end.

(* shift := U256(pop) with shift < 256: uint(shift.Uint64()) is the shift itself *)
Lemma shift_count a : inrange a -> a < 256 -> wrap_u64 (uint64_of a) = a.
Proof.
  unfold inrange. intros Ha Hlt. pose proof tt64_big.
  rewrite uint64_of_small by lia. apply wrap_u64_small. lia.
Qed.

Ltac signed_cmp :=
  unfold sgn256, b2w; rewrite M255_tt, M256_tt; rewrite ?Z.geb_leb, ?Z.gtb_ltb in *;
  pose proof tt256_double; pose proof tt255_pos; unfold inrange in *;
  repeat match goal with
  | |- context [if ?b then _ else _] =>
      lazymatch b with
      | context [if _ then _ else _] => fail
      | _ => destruct b eqn:?
      end
  end; lia.

Ltac sgn_cases :=
  repeat match goal with
  | H : (?x <? tt255) = true |- context [sgn256 ?x] => rewrite (sgn256_lt_eq x H)
  | H : (?x <? tt255) = false |- context [sgn256 ?x] => rewrite (sgn256_ge_eq x H)
  end.

