(* C15 - the closures of instructions.go, translated with their parameters
   (makePush, makeDup with Stack.dup, makeSwap with Stack.swap) and opStop:
   the regenerated bodies compute PUSHn, DUPn and SWAPn. *)
From Coq Require Import Lia ZifyBool ZifyN ZifyNat.
From VF.C15 Require Import Model ProofsArith ProofsHeap ProofsTac ProofsClosures ProofsOpsCommon.
From VF.gen Require Import C15Ops.
Local Open Scope Z_scope.

Lemma data_pos_top len n : (1 <= n)%nat -> (n <= len)%nat ->
  data_pos len (Z.of_nat len - Z.of_nat n) = Some (n - 1)%nat.
Proof.
  intros H1 H2. unfold data_pos.
  replace ((Z.of_nat len - Z.of_nat n <? 0) || (Z.of_nat len <=? Z.of_nat len - Z.of_nat n))%bool with false by lia.
  f_equal. lia.
Qed.
Lemma data_pos_none len n : (len < n)%nat -> data_pos len (Z.of_nat len - Z.of_nat n) = None.
Proof. intros H. unfold data_pos. replace (Z.of_nat len - Z.of_nat n <? 0) with true by lia. reflexivity. Qed.

Lemma makeDup_sem code pc n c : 1 <= n <= 16 -> (length (stack c) <= 1024)%nat ->
  run_body code pc (body_makeDup n) c = dup_sem (Z.to_N n) c.
Proof.
  intros Hn Hlen. destruct c as [h nx st pl m sr]. unfold run_body, body_makeDup, dup_sem.
  cbn [stack] in *. pose proof tt63_big as H63.
  repeat symex1. unfold pool_get. cbn [pool].
  rewrite (wrap_i64_small n) by lia.
  replace (N.to_nat (Z.to_N n) - 1)%nat with (Z.to_nat n - 1)%nat by lia.
  replace (Z.to_N n =? 0)%N with false by lia.
  remember (Z.to_nat n) as k eqn:Ek. assert (Hk : n = Z.of_nat k) by lia. rewrite Hk.
  destruct pl as [|p pl']; cbn [stack heap next pool mem stor alloc];
    (rewrite wrap_i64_small by lia);
    (destruct (Nat.le_gt_cases k (length st)) as [Hle|Hgt];
     [ rewrite data_pos_top by lia; destruct (nth_error st (k - 1)) as [src|] eqn:E;
       [reflexivity|apply nth_error_None in E; lia]
     | rewrite data_pos_none by lia;
       replace (nth_error st (k - 1)) with (@None loc) by (symmetry; apply nth_error_None; lia);
       reflexivity ]).
Qed.

Lemma makeSwap_sem code pc n c : 1 <= n <= 16 -> (length (stack c) <= 1024)%nat ->
  run_body code pc (body_makeSwap n) c = swap_sem (Z.to_N n + 1) c.
Proof.
  intros Hn Hlen. destruct c as [h nx st pl m sr]. unfold run_body, body_makeSwap, swap_sem.
  cbn [stack] in *. pose proof tt63_big as H63.
  repeat symex1.
  rewrite (wrap_i64_small (n + 1)) by lia. rewrite (wrap_i64_small (n + 1)) by lia.
  replace (N.to_nat (Z.to_N n + 1) - 1)%nat with (Z.to_nat n) by lia.
  replace (N.to_nat (Z.to_N n + 1)) with (S (Z.to_nat n)) by lia.
  replace (Z.to_N n + 1 =? 0)%N with false by lia.
  remember (Z.to_nat n) as k eqn:Ek. assert (Hk : n + 1 = Z.of_nat (S k)) by lia. rewrite Hk.
  rewrite !wrap_i64_small by lia.
  destruct st as [|top r].
  - cbn [length]. unfold data_pos. cbn. reflexivity.
  - destruct (Nat.le_gt_cases (S k) (length (top :: r))) as [Hle|Hgt].
    + rewrite data_pos_top by lia.
      replace (Z.of_nat (length (top :: r)) - 1) with (Z.of_nat (length (top :: r)) - Z.of_nat 1) by lia.
      rewrite data_pos_top by (cbn [length]; lia).
      replace (S k - 1)%nat with k by lia. cbn [Nat.sub nth_error].
      destruct (nth_error (top :: r) k) as [other|] eqn:E; [|apply nth_error_None in E; lia].
      unfold set_nth. cbn [firstn app skipn].
      destruct k as [|k']; [lia|]. cbn [firstn app skipn]. reflexivity.
    + rewrite data_pos_none by lia.
      replace (nth_error (top :: r) k) with (@None loc) by (symmetry; apply nth_error_None; lia).
      reflexivity.
Qed.

(* contract.Code[startMin:endMin] right padded is the specification's operand of PUSHn *)
Lemma push_slice code pc n x y : 1 <= n <= 32 ->
  x = Z.min (Z.of_N pc + 1) (Z.of_nat (length code)) ->
  y = Z.min (x + n) (Z.of_nat (length code)) ->
  firstn (Z.to_nat (y - x)) (skipn (Z.to_nat x) code) ++
    repeat 0%N (Z.to_nat n - length (firstn (Z.to_nat (y - x)) (skipn (Z.to_nat x) code))) =
  push_bytes code pc (Z.to_N n).
Proof.
  intros Hn Hx Hy. unfold push_bytes.
  replace (Nat.min (N.to_nat pc + 1) (length code)) with (Z.to_nat x) by lia.
  replace (N.to_nat (Z.to_N n)) with (Z.to_nat n) by lia.
  set (l := skipn (Z.to_nat x) code).
  assert (Hl : length l = (length code - Z.to_nat x)%nat) by (subst l; apply skipn_length).
  assert (Hf : firstn (Z.to_nat (y - x)) l = firstn (Z.to_nat n) l).
  { destruct (Z.le_gt_cases (x + n) (Z.of_nat (length code))) as [Hle|Hgt].
    - replace (y - x) with n by lia. reflexivity.
    - rewrite !firstn_all2 by lia. reflexivity. }
  rewrite Hf. reflexivity.
Qed.

Lemma makePush_sem code pc n c : 1 <= n <= 32 ->
  (pc < 8589934592)%N -> (N.of_nat (length code) < 4294967296)%N ->
  run_body_pc code pc (body_makePush n n) c = Some (push_sem code pc (Z.to_N n) c, (pc + Z.to_N n)%N).
Proof.
  intros Hn Hpc Hcl. destruct c as [h nx st pl m sr]. unfold run_body_pc, body_makePush, push_sem.
  assert (H63 : 1099511627776 < tt63) by (rewrite tt63_eq; reflexivity).
  assert (H64 : 1099511627776 < tt64) by (rewrite tt64_eq; reflexivity).
  repeat symex1.
  rewrite (wrap_u64_small (Z.of_N pc + 1)) by lia. rewrite (wrap_i64_small (Z.of_N pc + 1)) by lia.
  repeat (repeat symex1; rewrite ?wrap_i64_small by lia; try split_stuck).
  all: try (exfalso; lia).
  all: rewrite (wrap_u64_small (Z.of_N pc + n)) by lia.
  all: replace (Z.to_N (Z.of_N pc + n)) with (pc + Z.to_N n)%N by lia.
  all: erewrite push_slice; [reflexivity|lia|lia|lia].
Qed.

Lemma opStop_sem code pc c : run_body_pc code pc body_opStop c = Some (c, pc).
Proof. unfold run_body_pc, body_opStop. cbn. rewrite N2Z.id. reflexivity. Qed.

(* none of the other translated bodies assigns *pc *)
Lemma makeDup_keeps_pc n : assigns_pc (body_makeDup n) = false. Proof. reflexivity. Qed.
Lemma makeSwap_keeps_pc n : assigns_pc (body_makeSwap n) = false. Proof. reflexivity. Qed.
