(* C15 - the interpreter loop over the heap machine refines the pure
   specification machine, for ANY jump table and ANY set of bodies that meet
   the stated conditions ([table_ok]).  Bridge.v shows that the table and the
   bodies regenerated from the repository meet them. *)
From Coq Require Import Lia ZifyBool ZifyN ZifyNat.
From VF.C15 Require Import Model ProofsArith ProofsHeap ProofsTac ProofsClosures.
Local Open Scope Z_scope.

Definition plain_op (g mn mx : N) (name : string) : opinfo :=
  mkOp true g mn mx false false false false false false false name "" "".
Definition mem_op (g mn mx : N) (name memname : string) : opinfo :=
  mkOp true g mn mx false false false false false true true name "pureMemoryGascost" memname.


Section Sim.
Variable gv : list Z.
Variable tbl : list opinfo.
Variable bodies : list (N * (string * stmt)).

Definition entry (op : N) : opinfo := nth (N.to_nat op) tbl op_dummy.

Local Open Scope N_scope.

Record table_ok : Prop := {
  t_comp : forall op f g, comp_spec op = Some (f, g) ->
    exists name body,
      entry op = plain_op g (N.of_nat (cfun_arity f)) (1024 + N.of_nat (cfun_arity f) - 1) name /\
      exec_stmt bodies name op = Some body /\ assigns_pc body = false /\ comp_correct gv body f;
  t_stop : exists body,
      entry 0 = mkOp true 0 0 1024 true false false false false false false "opStop" "" "" /\
      exec_stmt bodies "opStop" 0 = Some body /\
      (forall code pc c, run_body_pc code pc body c = Some (c, pc));
  t_exp : exists name body,
      entry 10 = mkOp true 0 2 1025 false false false false false true false name "gasExp" "" /\
      exec_stmt bodies name 10 = Some body /\ assigns_pc body = false /\ comp_correct gv body (F2 spec_exp);
  t_pop : exists name body,
      entry 80 = plain_op 2 1 1025 name /\ exec_stmt bodies name 80 = Some body /\ assigns_pc body = false /\
      body_correct gv body (fun st _ => st <> []) (fun st m => (tl st, m));
  t_mload : exists name body,
      entry 81 = mem_op 3 1 1024 name "memoryMLoad" /\ exec_stmt bodies name 81 = Some body /\ assigns_pc body = false /\
      body_correct gv body (mem_pre 32 1)
        (fun st m => (be_to_Z (firstn 32 (skipn (Z.to_nat (hd 0%Z st)) m)) :: tl st, m));
  t_mstore : exists name body,
      entry 82 = mem_op 3 2 1026 name "memoryMStore" /\ exec_stmt bodies name 82 = Some body /\ assigns_pc body = false /\
      body_correct gv body (mem_pre 32 2)
        (fun st m => (tl (tl st), mem_write m (Z.to_nat (hd 0%Z st)) (be_bytes 32 (hd 0%Z (tl st)))));
  t_mstore8 : exists name body,
      entry 83 = mem_op 3 2 1026 name "memoryMStore8" /\ exec_stmt bodies name 83 = Some body /\ assigns_pc body = false /\
      body_correct gv body (mem_pre 1 2)
        (fun st m => (tl (tl st), mem_write m (Z.to_nat (hd 0%Z st)) [Z.to_N (hd 0%Z (tl st) mod 256)]));
  t_sload : exists name body,
      entry 84 = plain_op 800 1 1024 name /\ exec_stmt bodies name 84 = Some body /\ assigns_pc body = false /\
      sload_correct gv body;
  t_sstore : exists name body,
      entry 85 = mkOp true 0 2 1026 false false true false false true false name "gasSStoreEIP2200" "" /\
      exec_stmt bodies name 85 = Some body /\ assigns_pc body = false /\ sstore_correct gv body;
  t_msize : exists name body,
      entry 89 = plain_op 2 0 1023 name /\ exec_stmt bodies name 89 = Some body /\ assigns_pc body = false /\
      body_correct gv body (fun _ m => (Z.of_nat (length m) < tt63)%Z)
        (fun st m => (Z.of_nat (length m) :: st, m));
  t_push : forall op, 96 <= op <= 127 -> exists body,
      entry op = plain_op 3 0 1023 "makePush" /\ exec_stmt bodies "makePush" op = Some body /\
      (forall code pc c, pc < 8589934592 -> N.of_nat (length code) < 4294967296 ->
         run_body_pc code pc body c = Some (push_sem code pc (op - 95) c, pc + (op - 95)));
  t_dup : forall op, 128 <= op <= 143 -> exists body,
      entry op = plain_op 3 (op - 127) 1023 "makeDup" /\ exec_stmt bodies "makeDup" op = Some body /\
      assigns_pc body = false /\
      (forall code pc c, (length (stack c) <= 1024)%nat -> run_body code pc body c = dup_sem (op - 127) c);
  t_swap : forall op, 144 <= op <= 159 -> exists body,
      entry op = plain_op 3 (op - 143 + 1) 1024 "makeSwap" /\ exec_stmt bodies "makeSwap" op = Some body /\
      assigns_pc body = false /\
      (forall code pc c, (length (stack c) <= 1024)%nat -> run_body code pc body c = swap_sem (op - 143 + 1) c);
  t_invalid : forall op, spec_unassigned op = true -> o_valid (entry op) = false
}.

Hypothesis Htbl : table_ok.

(* the bound on the gas limit under which uint64 gas arithmetic cannot wrap:
   3 * 2^32, about 12.9 billion *)
Definition gas_bound : N := 12884901888.
Variable G0 : N.
Hypothesis HG0 : G0 < gas_bound.

Variable code : list N.
Hypothesis Hcode : bytes_ok code.
Hypothesis Hcodelen : N.of_nat (length code) < 4294967296.

Record WFI (s : istate) : Prop := mkWFI {
  wfi_cfg : WF gv (i_cfg s);
  wfi_depth : (length (stack (i_cfg s)) <= 1024)%nat;
  wfi_mem32 : N.of_nat (length (mem (i_cfg s))) mod 32 = 0;
  wfi_cost : i_memcost s = cmem_cost (mem_words (mem (i_cfg s)));
  wfi_gas : i_gas s + i_memcost s <= G0;
  wfi_stor : stor_ok (stor (i_cfg s));
  wfi_pc : i_pc s <= N.of_nat (length code) + 33
}.

Definition abs (s : istate) : pstate :=
  mkP (svals (i_cfg s)) (mem (i_cfg s)) (i_pc s) (i_gas s) (stor (i_cfg s)).

(* how results of the two machines correspond *)
Definition res_rel (r : result) (p : presult) : Prop :=
  match p with
  | PNext p' => exists s', r = Next s' /\ WFI s' /\ abs s' = p'
  | PStop p' => exists s', r = Done st_ok s' /\ abs s' = p'
  | PExc => exists st s', r = Done st s' /\ st <> st_ok /\ i_gas s' = 0
  | PUnsupported => True
  end.

Lemma svals_length c : length (svals c) = length (stack c).
Proof. unfold svals. apply map_length. Qed.

Lemma fail_exc st s : st <> st_ok -> res_rel (fail st s) PExc.
Proof. intros H. unfold fail. eexists _, _. split; [reflexivity|]. split; [exact H|reflexivity]. Qed.

Lemma ltb_0_r x : (x <? 0) = false. Proof. apply N.ltb_ge. lia. Qed.

(* an opcode other than 0 is read inside the code *)
Lemma get_op_inside pc : get_op code pc <> 0 -> pc < N.of_nat (length code).
Proof.
  unfold get_op. intros H. destruct (N.ltb_spec pc (N.of_nat (length code))) as [|Hge]; [assumption|].
  rewrite nth_overflow in H by lia. congruence.
Qed.
Lemma comp_spec_nonzero op f g : comp_spec op = Some (f, g) -> op <> 0.
Proof. intros H ->. discriminate. Qed.

(* ---- one step of an opcode without dynamic gas or memory ----------------------------- *)
Lemma step_plain s g mn mx name body :
  entry (get_op code (i_pc s)) = plain_op g mn mx name ->
  exec_stmt bodies name (get_op code (i_pc s)) = Some body ->
  step tbl bodies code s =
    (if N.of_nat (length (stack (i_cfg s))) <? mn then fail st_underflow s
     else if mx <? N.of_nat (length (stack (i_cfg s))) then fail st_overflow s
     else if i_gas s <? g then fail st_oog s
     else match run_body_pc code (i_pc s) body (i_cfg s) with
          | None => fail st_crash s
          | Some (c2, pc') => Next (mkI c2 (pc' + 1) (i_gas s - g) (i_memcost s))
          end).
Proof.
  intros He Hx. unfold step. fold (entry (get_op code (i_pc s))). rewrite He.
  cbn [plain_op o_valid o_gas o_min o_max o_halts o_jumps o_writes o_reverts o_returns o_dyn o_mem o_exec negb orb].
  destruct (_ <? mn); [reflexivity|]. destruct (mx <? _); [reflexivity|]. destruct (i_gas s <? g); [reflexivity|].
  rewrite ltb_0_r, Hx. cbn [N.ltb N.compare]. rewrite N.sub_0_r. reflexivity.
Qed.

(* spec_apply when the stack is deep enough and the gas suffices *)
Lemma spec_apply_ok p d a g adv f st m :
  (d <= length (p_stack p))%nat -> (length (p_stack p) - d + a <= 1024)%nat -> g <= p_gas p ->
  f tt = Some (st, m) ->
  spec_apply p d a g adv f = PNext (mkP st m (p_pc p + adv) (p_gas p - g) (p_stor p)).
Proof.
  intros H1 H2 H3 Hf. unfold spec_apply.
  replace (length (p_stack p) <? d)%nat with false by lia.
  replace (1024 <? length (p_stack p) - d + a)%nat with false by lia.
  replace (p_gas p <? g) with false by lia. rewrite Hf. reflexivity.
Qed.
Lemma spec_apply_exc p d a g adv f :
  (length (p_stack p) < d)%nat \/ (1024 < length (p_stack p) - d + a)%nat \/ p_gas p < g ->
  spec_apply p d a g adv f = PExc.
Proof.
  intros H. unfold spec_apply.
  destruct (length (p_stack p) <? d)%nat eqn:E1; [reflexivity|].
  destruct (1024 <? length (p_stack p) - d + a)%nat eqn:E2; [reflexivity|].
  destruct (p_gas p <? g) eqn:E3; [reflexivity|]. lia.
Qed.

Lemma cfun_apply_some f st : (cfun_arity f <= length st)%nat ->
  exists st', cfun_apply f st = Some st' /\ length st' = (length st - cfun_arity f + 1)%nat.
Proof.
  destruct f; cbn [cfun_arity cfun_apply]; intros H.
  - destruct st as [|a r]; [cbn in H; lia|]. eexists. split; [reflexivity|]. cbn. lia.
  - destruct st as [|a [|b r]]; try (cbn in H; lia). eexists. split; [reflexivity|]. cbn. lia.
  - destruct st as [|a [|b [|c r]]]; try (cbn in H; lia). eexists. split; [reflexivity|]. cbn. lia.
Qed.
Lemma cfun_arity_pos f : (1 <= cfun_arity f <= 3)%nat.
Proof. destruct f; cbn; lia. Qed.

Lemma sim_comp s f g : WFI s -> comp_spec (get_op code (i_pc s)) = Some (f, g) ->
  res_rel (step tbl bodies code s)
          (spec_apply (abs s) (cfun_arity f) 1%nat g 1
             (fun _ => match cfun_apply f (p_stack (abs s)) with Some st' => Some (st', p_mem (abs s)) | None => None end)).
Proof.
  intros [Hwf Hdep Hm32 Hcost Hgas Hstor Hpcb] Hc.
  destruct (t_comp Htbl _ _ _ Hc) as (name & body & He & Hx & Hpx & Hok).
  rewrite (step_plain s _ _ _ _ _ He Hx). pose proof (cfun_arity_pos f) as Har.
  unfold abs; cbn [p_stack p_mem p_gas p_pc]. pose proof (svals_length (i_cfg s)) as Hl.
  destruct (N.of_nat (length (stack (i_cfg s))) <? N.of_nat (cfun_arity f)) eqn:E1.
  { rewrite spec_apply_exc by (cbn [p_stack]; lia). apply fail_exc. discriminate. }
  replace (1024 + N.of_nat (cfun_arity f) - 1 <? N.of_nat (length (stack (i_cfg s)))) with false by lia.
  destruct (i_gas s <? g) eqn:E3.
  { rewrite spec_apply_exc by (cbn [p_gas]; lia). apply fail_exc. discriminate. }
  destruct (cfun_apply_some f (svals (i_cfg s)) ltac:(lia)) as (st' & Hst' & Hlen').
  destruct (Hok code (i_pc s) (i_cfg s) st' Hwf Hst') as (c' & Hrun & Hwf' & Hsv & Hmem & Hst).
  rewrite (run_body_keeps_pc _ _ _ _ _ Hpx Hrun).
  erewrite spec_apply_ok; cbn [p_stack p_gas p_pc p_stor]; [| lia | lia | lia | rewrite Hst'; reflexivity].
  pose proof (get_op_inside _ (comp_spec_nonzero _ _ _ Hc)) as Hin.
  eexists. split; [reflexivity|]. split.
  - constructor; cbn [i_cfg i_gas i_memcost i_pc]; try assumption.
    + rewrite <- svals_length, Hsv, Hlen'. lia.
    + rewrite Hmem. exact Hm32.
    + rewrite Hmem. exact Hcost.
    + lia.
    + rewrite Hst. exact Hstor.
    + lia.
  - unfold abs. cbn [i_cfg i_pc i_gas]. rewrite Hsv, Hmem, Hst. reflexivity.
Qed.

(* generic frame for the opcodes without dynamic gas: a body whose effect on
   (stack values, memory) is given, and which keeps WF *)
Lemma sim_plain s g (d a : nat) name body adv st' m' :
  WFI s -> (a <= S d)%nat ->
  entry (get_op code (i_pc s)) = plain_op g (N.of_nat d) (1024 + N.of_nat d - N.of_nat a) name ->
  exec_stmt bodies name (get_op code (i_pc s)) = Some body ->
  1 <= adv <= 33 -> get_op code (i_pc s) <> 0 ->
  ((d <= length (svals (i_cfg s)))%nat ->
     exists c', run_body_pc code (i_pc s) body (i_cfg s) = Some (c', i_pc s + adv - 1) /\ WF gv c' /\
                svals c' = st' /\ mem c' = m' /\ mem c' = mem (i_cfg s) /\
                stor c' = stor (i_cfg s) /\
                length st' = (length (svals (i_cfg s)) - d + a)%nat) ->
  forall f, ((d <= length (svals (i_cfg s)))%nat -> f tt = Some (st', m')) ->
  res_rel (step tbl bodies code s) (spec_apply (abs s) d a g adv f).
Proof.
  intros [Hwf Hdep Hm32 Hcost Hgas Hstor Hpcb] Hda He Hx Hadv Hop0 Hbody f Hf.
  rewrite (step_plain s _ _ _ _ _ He Hx).
  unfold abs. pose proof (svals_length (i_cfg s)) as Hl.
  destruct (N.of_nat (length (stack (i_cfg s))) <? N.of_nat d) eqn:E1.
  { rewrite spec_apply_exc by (cbn [p_stack]; lia). apply fail_exc. discriminate. }
  destruct (1024 + N.of_nat d - N.of_nat a <? N.of_nat (length (stack (i_cfg s)))) eqn:E2.
  { rewrite spec_apply_exc by (cbn [p_stack]; lia). apply fail_exc. discriminate. }
  destruct (i_gas s <? g) eqn:E3.
  { rewrite spec_apply_exc by (cbn [p_gas]; lia). apply fail_exc. discriminate. }
  destruct (Hbody ltac:(lia)) as (c' & Hrun & Hwf' & Hsv & Hmem & Hmem0 & Hst & Hlen').
  rewrite Hrun. erewrite spec_apply_ok; cbn [p_stack p_gas p_pc p_stor]; [| lia | lia | lia | apply Hf; lia].
  pose proof (get_op_inside _ Hop0) as Hin.
  eexists. split; [reflexivity|]. split.
  - constructor; cbn [i_cfg i_gas i_memcost i_pc]; try assumption.
    + rewrite <- svals_length, Hsv, Hlen'. lia.
    + rewrite Hmem0. exact Hm32.
    + rewrite Hmem0. exact Hcost.
    + lia.
    + rewrite Hst. exact Hstor.
    + lia.
  - unfold abs. cbn [i_cfg i_pc i_gas]. rewrite Hsv, Hmem, Hst. f_equal; lia.
Qed.

(* a body that keeps *pc, given by its effect through run_body *)
Lemma keeps_pc_plain s body c' : assigns_pc body = false ->
  run_body code (i_pc s) body (i_cfg s) = Some c' ->
  run_body_pc code (i_pc s) body (i_cfg s) = Some (c', i_pc s + 1 - 1).
Proof. intros Ha Hr. rewrite (run_body_keeps_pc _ _ _ _ _ Ha Hr). f_equal. f_equal. lia. Qed.

Lemma sim_push s : WFI s -> 96 <= get_op code (i_pc s) <= 127 ->
  let n := get_op code (i_pc s) - 95 in
  res_rel (step tbl bodies code s)
    (spec_apply (abs s) 0%nat 1%nat 3 (n + 1)
       (fun _ => Some (be_to_Z (push_bytes code (p_pc (abs s)) n) :: p_stack (abs s), p_mem (abs s)))).
Proof.
  intros Hs Hop n. pose proof Hs as [Hwf Hdep _ _ _ Hstor Hpcb].
  destruct (t_push Htbl _ Hop) as (body & He & Hx & Hrunpc).
  destruct (push_correct gv code (i_pc s) n (i_cfg s) Hcode ltac:(subst n; lia) Hwf) as (c' & Hrun & Hwf' & Hsv & Hmem & Hst).
  eapply (sim_plain s 3 0%nat 1%nat "makePush" body); try eassumption; [lia|subst n; lia|lia| |].
  - intros _. exists c'. split.
    { rewrite Hrunpc by lia. fold n. rewrite Hrun. f_equal. f_equal. lia. }
    split; [exact Hwf'|]. split; [exact Hsv|].
    split; [reflexivity|]. split; [exact Hmem|]. split; [exact Hst|]. cbn [length]. lia.
  - intros _. unfold abs. cbn [p_pc p_stack p_mem]. rewrite Hmem. reflexivity.
Qed.

Lemma sim_dup s : WFI s -> 128 <= get_op code (i_pc s) <= 143 ->
  let n := N.to_nat (get_op code (i_pc s) - 127) in
  res_rel (step tbl bodies code s)
    (spec_apply (abs s) n (S n) 3 1
       (fun _ => match nth_error (p_stack (abs s)) (n - 1) with
                 | Some x => Some (x :: p_stack (abs s), p_mem (abs s)) | None => None end)).
Proof.
  intros Hs Hop n. pose proof Hs as [Hwf Hdep _ _ _ Hstor Hpcb].
  assert (Hn : (1 <= n <= 16)%nat) by (subst n; lia).
  destruct (t_dup Htbl _ Hop) as (body & He & Hx & Hkp & Hsem).
  assert (He' : entry (get_op code (i_pc s)) = plain_op 3 (N.of_nat n) (1024 + N.of_nat n - N.of_nat (S n)) "makeDup")
    by (rewrite He; f_equal; subst n; lia).
  destruct (nth_error (svals (i_cfg s)) (n - 1)) as [x|] eqn:Ex.
  - destruct (dup_correct gv (n - 1) (i_cfg s) x Hwf Ex) as (c' & Hrun & Hwf' & Hsv & Hmem & Hst).
    replace (N.of_nat (S (n - 1))) with (get_op code (i_pc s) - 127) in Hrun by (subst n; lia).
    eapply (sim_plain s 3 n (S n) "makeDup" body 1); try eassumption; [lia|lia|lia| |].
    + intros _. exists c'. split.
      { apply keeps_pc_plain; [exact Hkp|]. rewrite Hsem by exact Hdep. exact Hrun. }
      split; [exact Hwf'|]. split; [exact Hsv|]. split; [reflexivity|]. split; [exact Hmem|]. split; [exact Hst|].
      assert (n - 1 < length (svals (i_cfg s)))%nat by (apply nth_error_Some; congruence).
      cbn [length]. lia.
    + intros _. unfold abs. cbn [p_stack p_mem]. rewrite Ex, Hmem. reflexivity.
  - (* fewer than n items: both machines fail *)
    apply nth_error_None in Ex.
    eapply (sim_plain s 3 n (S n) "makeDup" body 1 [] []); try eassumption; [lia|lia|lia| |].
    + intros Hd. lia.
    + intros Hd. lia.
Qed.

Lemma sim_swap s : WFI s -> 144 <= get_op code (i_pc s) <= 159 ->
  let n := N.to_nat (get_op code (i_pc s) - 143) in
  res_rel (step tbl bodies code s)
    (spec_apply (abs s) (S n) (S n) 3 1
       (fun _ => match p_stack (abs s) with
                 | a :: r => match nth_error r (n - 1) with
                             | Some b => Some (b :: firstn (n - 1) r ++ a :: skipn n r, p_mem (abs s))
                             | None => None end
                 | [] => None
                 end)).
Proof.
  intros Hs Hop n. pose proof Hs as [Hwf Hdep _ _ _ Hstor Hpcb].
  assert (Hn : (1 <= n <= 16)%nat) by (subst n; lia).
  destruct (t_swap Htbl _ Hop) as (body & He & Hx & Hkp & Hsem).
  assert (He' : entry (get_op code (i_pc s)) = plain_op 3 (N.of_nat (S n)) (1024 + N.of_nat (S n) - N.of_nat (S n)) "makeSwap")
    by (rewrite He; f_equal; subst n; lia).
  destruct (svals (i_cfg s)) as [|a r] eqn:Est.
  - eapply (sim_plain s 3 (S n) (S n) "makeSwap" body 1 [] []); try eassumption; [lia|lia|lia| |].
    + rewrite Est. cbn. lia.
    + rewrite Est. cbn. lia.
  - destruct (nth_error r (n - 1)) as [b|] eqn:Eb.
    + destruct (swap_correct gv (n - 1) (i_cfg s) a r b Hwf Est Eb) as (c' & Hrun & Hwf' & Hsv & Hmem & Hst).
      replace (N.of_nat (S (S (n - 1)))) with (get_op code (i_pc s) - 143 + 1) in Hrun by (subst n; lia).
      eapply (sim_plain s 3 (S n) (S n) "makeSwap" body 1); try eassumption; [lia|lia|lia| |].
      * intros _. exists c'. split.
        { apply keeps_pc_plain; [exact Hkp|]. rewrite Hsem by exact Hdep. exact Hrun. }
        split; [exact Hwf'|]. split; [exact Hsv|]. split; [reflexivity|]. split; [exact Hmem|]. split; [exact Hst|].
        rewrite Est. cbn [length]. rewrite app_length. cbn [length]. rewrite firstn_length, skipn_length.
        assert (n - 1 < length r)%nat by (apply nth_error_Some; congruence). lia.
      * intros _. unfold abs. cbn [p_stack p_mem]. rewrite Est, Eb, Hmem.
        replace (S (n - 1)) with n by lia. reflexivity.
    + apply nth_error_None in Eb.
      eapply (sim_plain s 3 (S n) (S n) "makeSwap" body 1 [] []); try eassumption; [lia|lia|lia| |].
      * rewrite Est. cbn [length]. lia.
      * rewrite Est. cbn [length]. lia.
Qed.

Lemma sim_pop s : WFI s -> get_op code (i_pc s) = 80 ->
  res_rel (step tbl bodies code s)
    (spec_apply (abs s) 1%nat 0%nat 2 1
       (fun _ => match p_stack (abs s) with _ :: r => Some (r, p_mem (abs s)) | [] => None end)).
Proof.
  intros Hs Hop. pose proof Hs as [Hwf Hdep _ _ _ Hstor Hpcb].
  destruct (t_pop Htbl) as (name & body & He & Hx & Hpx & Hok).
  destruct (svals (i_cfg s)) as [|a r] eqn:Est.
  - eapply (sim_plain s 2 1%nat 0%nat name body 1 [] []); try eassumption; rewrite ?Hop; try assumption; try lia; try discriminate.
    + rewrite Est. cbn. lia.
    + rewrite Est. cbn. lia.
  - destruct (Hok code (i_pc s) (i_cfg s) Hwf ltac:(rewrite Est; discriminate)) as (c' & Hrun & Hwf' & Hres & Hst).
    rewrite Est in Hres. cbn [tl] in Hres. injection Hres as Hsv Hmem.
    eapply (sim_plain s 2 1%nat 0%nat name body 1); try eassumption; rewrite ?Hop; try assumption; try lia; try discriminate.
    + intros _. exists c'. split; [apply keeps_pc_plain; [exact Hpx|exact Hrun]|]. split; [exact Hwf'|]. split; [exact Hsv|].
      split; [reflexivity|]. split; [exact Hmem|]. split; [exact Hst|]. rewrite Est. cbn [length]. lia.
    + intros _. unfold abs. cbn [p_stack p_mem]. rewrite Est, Hmem. reflexivity.
Qed.

Lemma cmem_lin w : 3 * w <= cmem_cost w.
Proof. unfold cmem_cost. lia. Qed.

Lemma mem_words_len m : N.of_nat (length m) mod 32 = 0 -> mem_words m * 32 = N.of_nat (length m).
Proof.
  intros H. unfold mem_words. pose proof (N.div_mod (N.of_nat (length m)) 32 ltac:(lia)). lia.
Qed.

Lemma mem_len_bound s : WFI s -> (Z.of_nat (length (mem (i_cfg s))) < 2 ^ 37)%Z.
Proof.
  intros [_ _ Hm32 Hcost Hgas _ _]. pose proof (cmem_lin (mem_words (mem (i_cfg s)))) as Hl.
  pose proof (mem_words_len _ Hm32) as Hw. unfold gas_bound in HG0.
  assert (mem_words (mem (i_cfg s)) < 4294967296) by lia.
  change (2 ^ 37)%Z with 137438953472%Z. lia.
Qed.
Lemma two37_lt_tt63 : (2 ^ 37 < tt63)%Z.
Proof. rewrite tt63_eq. reflexivity. Qed.

Lemma sim_msize s : WFI s -> get_op code (i_pc s) = 89 ->
  res_rel (step tbl bodies code s)
    (spec_apply (abs s) 0%nat 1%nat 2 1
       (fun _ => Some (Z.of_N (mem_words (p_mem (abs s)) * 32) :: p_stack (abs s), p_mem (abs s)))).
Proof.
  intros Hs Hop. pose proof Hs as [Hwf Hdep Hm32 _ _ Hstor Hpcb].
  destruct (t_msize Htbl) as (name & body & He & Hx & Hpx & Hok).
  pose proof (mem_len_bound s Hs) as Hb. pose proof two37_lt_tt63.
  destruct (Hok code (i_pc s) (i_cfg s) Hwf ltac:(cbv beta; lia)) as (c' & Hrun & Hwf' & Hres & Hst).
  injection Hres as Hsv Hmem.
  eapply (sim_plain s 2 0%nat 1%nat name body 1); try eassumption; rewrite ?Hop; try assumption; try lia; try discriminate.
  - intros _. exists c'. split; [apply keeps_pc_plain; [exact Hpx|exact Hrun]|]. split; [exact Hwf'|]. split; [exact Hsv|].
    split; [reflexivity|]. split; [exact Hmem|]. split; [exact Hst|]. cbn [length]. lia.
  - intros _. unfold abs. cbn [p_stack p_mem]. rewrite Hmem, (mem_words_len _ Hm32), nat_N_Z. reflexivity.
Qed.

Lemma reclaim_abs s : abs (reclaim s) = abs s.
Proof.
  unfold abs, reclaim. cbn [i_cfg i_pc i_gas]. rewrite svals_pool_put, pool_put_mem, pool_put_stor. reflexivity.
Qed.

Lemma sim_stop s : WFI s -> get_op code (i_pc s) = 0 ->
  res_rel (step tbl bodies code s) (PStop (abs s)).
Proof.
  intros Hs Hop. destruct (t_stop Htbl) as (body & He & Hx & Hrun).
  unfold step. fold (entry (get_op code (i_pc s))). rewrite Hop, He.
  cbn [o_valid o_gas o_min o_max o_halts o_jumps o_writes o_reverts o_returns o_dyn o_mem o_exec negb orb].
  rewrite !ltb_0_r.
  replace (1024 <? N.of_nat (length (stack (i_cfg s)))) with false by (destruct Hs; lia).
  rewrite Hx, Hrun.
  eexists. split; [reflexivity|]. rewrite reclaim_abs. unfold abs. cbn [i_cfg i_pc i_gas].
  rewrite !N.sub_0_r. reflexivity.
Qed.

Lemma sim_invalid s : spec_unassigned (get_op code (i_pc s)) = true ->
  res_rel (step tbl bodies code s) PExc.
Proof.
  intros Hu. unfold step. fold (entry (get_op code (i_pc s))). rewrite (t_invalid Htbl _ Hu).
  cbn [negb]. apply fail_exc. discriminate.
Qed.

(* ---- memory expansion: the uint64 computation of memoryGasCost against C_mem ---------- *)
Definition msize_of (z : Z) : option N :=
  if ((z <? 0) || (Z.of_N two64 <=? z))%Z then None
  else let w := to_word_size (Z.to_N z) in
       if two64 <=? w * 32 then None else Some (w * 32).
(* memory size, gas after the charge, new lastGasCost; None = the step fails *)
Definition charge (len last gas1 : N) (z : Z) : option (N * N * N) :=
  match msize_of z with
  | None => None
  | Some ms =>
    match memory_gas_cost len last ms with
    | None => None
    | Some (fee, total) => if gas1 <? fee then None else Some (ms, gas1 - fee, total)
    end
  end.

Lemma cmem_mono a b : a <= b -> cmem_cost a <= cmem_cost b.
Proof.
  intros H. unfold cmem_cost.
  assert (a * a / 512 <= b * b / 512) by (apply N.div_le_mono; nia). lia.
Qed.

Lemma div32_ceil z : (z + 31) / 32 * 32 < z + 32 /\ z <= (z + 31) / 32 * 32.
Proof. pose proof (N.div_mod (z + 31) 32 ltac:(lia)). pose proof (N.mod_lt (z + 31) 32 ltac:(lia)). lia. Qed.

Lemma fee_mod a b : b <= a -> a - b < two64 -> (a + two64 - b) mod two64 = a - b.
Proof.
  intros Hle Hlt. rewrite N.add_sub_swap by exact Hle.
  pose proof (N.mod_add (a - b) 1 two64 ltac:(discriminate)) as H. rewrite N.mul_1_l in H.
  rewrite H. apply N.mod_small, Hlt.
Qed.

Lemma charge_spec (m : list N) last gas1 off n :
  N.of_nat (length m) mod 32 = 0 -> last = cmem_cost (mem_words m) -> gas1 + last <= G0 ->
  (0 <= off)%Z -> 1 <= n <= 32 ->
  let w' := N.max (mem_words m) ((Z.to_N off + n + 31) / 32) in
  let cost := cmem_cost w' - cmem_cost (mem_words m) in
  match charge (N.of_nat (length m)) last gas1 (off + Z.of_N n) with
  | None => gas1 < cost
  | Some (ms, gas2, total) =>
      cost <= gas1 /\ gas2 = gas1 - cost /\ total = cmem_cost w' /\ 0 < ms /\
      mem_resize m ms = mem_resize m (w' * 32) /\
      (off + Z.of_N n <= Z.of_N (N.max (N.of_nat (length m)) ms))%Z
  end.
Proof.
  intros Hm32 Hlast Hgas Hoff Hn w' cost.
  pose proof (mem_words_len m Hm32) as HL. set (L := N.of_nat (length m)) in *.
  set (w := mem_words m) in *. unfold gas_bound in HG0.
  set (zN := Z.to_N off + n). assert (HzN : Z.to_N (off + Z.of_N n) = zN) by (subst zN; lia).
  set (q := (zN + 31) / 32). fold q in w'.
  pose proof (div32_ceil zN) as [Hq1 Hq2]. fold q in Hq1, Hq2.
  pose proof (cmem_lin w') as Hlin. pose proof (cmem_mono w w' ltac:(subst w'; lia)) as Hmono.
  assert (Hbig : 4294967296 <= q -> gas1 < cost).
  { intros Hb. subst cost. assert (4294967296 <= w') by (subst w'; lia). lia. }
  unfold charge, msize_of.
  destruct ((off + Z.of_N n <? 0) || (Z.of_N two64 <=? off + Z.of_N n))%Z eqn:E0.
  { apply Hbig. unfold two64 in E0. subst q. assert (18446744073709551616 <= zN) by lia.
    apply N.div_le_lower_bound; lia. }
  rewrite HzN. unfold to_word_size.
  destruct (two64 - 1 - 31 <? zN) eqn:E1.
  { replace (two64 <=? ((two64 - 1) / 32 + 1) * 32) with true by reflexivity.
    apply Hbig. unfold two64 in E1. subst q. apply N.div_le_lower_bound; lia. }
  fold q. unfold two64 in E0, E1.
  assert (Hq64 : q * 32 < two64) by (unfold two64; lia).
  replace (two64 <=? q * 32) with false by lia.
  unfold memory_gas_cost.
  assert (Hqpos : 1 <= q) by (subst q; apply N.div_le_lower_bound; lia).
  replace (q * 32 =? 0) with false by lia.
  destruct (1099511627744 <? q * 32) eqn:E2.
  { apply Hbig. lia. }
  unfold to_word_size. replace (two64 - 1 - 31 <? q * 32) with false by (unfold two64; lia).
  replace ((q * 32 + 31) / 32) with q
    by (apply N.div_unique with 31; lia).
  destruct (L <? q * 32) eqn:E3.
  - (* expansion *)
    assert (Hw' : w' = q) by (subst w'; lia).
    destruct (N.ltb_spec q 4294967296) as [Hsmall|Hlarge].
    + assert (Hqq : q * q < 18446744073709551616)
        by (change 18446744073709551616 with (4294967296 * 4294967296); apply N.mul_lt_mono; exact Hsmall).
      assert (Hsq : (q * q) mod two64 = q * q) by (apply N.mod_small; unfold two64; exact Hqq).
      assert (Hl3 : (q * 3) mod two64 = q * 3) by (apply N.mod_small; unfold two64; lia).
      rewrite Hsq, Hl3.
      assert (Hdiv : q * q / 512 < 36028797018963968) by (apply N.div_lt_upper_bound; lia).
      assert (Htot : (q * 3 + q * q / 512) mod two64 = cmem_cost q)
        by (unfold cmem_cost; rewrite N.mod_small by (unfold two64; lia); lia).
      rewrite Htot. rewrite <- Hw'.
      assert (Hfee : (cmem_cost w' + two64 - last) mod two64 = cost).
      { subst cost. rewrite Hlast. apply fee_mod; [exact Hmono|].
        eapply N.le_lt_trans; [apply N.le_sub_l|]. rewrite Hw'. unfold cmem_cost, two64. clear - Hsmall Hdiv. lia. }
      rewrite Hfee. destruct (gas1 <? cost) eqn:E4; [apply N.ltb_lt; exact E4|].
      apply N.ltb_ge in E4.
      split; [exact E4|]. split; [reflexivity|]. split; [reflexivity|].
      split; [clear - Hqpos; lia|]. split; [rewrite Hw'; reflexivity|].
      clear - Hq2 Hoff. subst zN. lia.
    + (* the square wraps: too expensive for both *)
      assert (Hc : gas1 < cost) by (apply Hbig; lia).
      set (sq := (q * q) mod two64). set (l3 := (q * 3) mod two64).
      assert (Hl3 : l3 = q * 3) by (subst l3; apply N.mod_small; unfold two64; lia).
      assert (Hsqb : sq / 512 < 36028797018963968).
      { apply N.div_lt_upper_bound; [lia|]. subst sq. pose proof (N.mod_lt (q * q) two64 ltac:(unfold two64; lia)). unfold two64 in *. lia. }
      rewrite Hl3. rewrite (N.mod_small (q * 3 + sq / 512)) by (unfold two64; lia).
      assert (Hfee : gas1 < (q * 3 + sq / 512 + two64 - last) mod two64).
      { rewrite fee_mod.
        - clear - Hgas HG0 Hlarge. lia.
        - clear - Hgas HG0 Hlarge. lia.
        - eapply N.le_lt_trans; [apply N.le_sub_l|]. unfold two64. clear - Hsqb E2. lia. }
      apply N.ltb_lt in Hfee. rewrite Hfee. exact Hc.
  - (* no expansion *)
    assert (Hw' : w' = w) by (subst w'; lia).
    assert (Hcost : cost = 0) by (subst cost; rewrite Hw'; lia).
    rewrite ltb_0_r, Hcost, Hw', <- Hlast. apply N.ltb_ge in E3.
    split; [lia|]. split; [lia|]. split; [reflexivity|]. split; [clear - Hqpos; lia|]. split.
    + unfold mem_resize. fold L. replace (L <? q * 32) with false by (clear - E3; lia).
      replace (L <? w * 32) with false by (clear - HL; lia). reflexivity.
    + clear - Hq2 Hoff E3. subst zN. lia.
Qed.

(* ---- one step of a memory opcode -------------------------------------------------------- *)
Lemma step_mem s g mn mx name memname body z :
  entry (get_op code (i_pc s)) = mem_op g mn mx name memname ->
  exec_stmt bodies name (get_op code (i_pc s)) = Some body ->
  mem_size_fn memname (i_cfg s) = Some z ->
  match (if N.of_nat (length (stack (i_cfg s))) <? mn then None
         else if mx <? N.of_nat (length (stack (i_cfg s))) then None
         else if i_gas s <? g then None
         else charge (N.of_nat (length (mem (i_cfg s)))) (i_memcost s) (i_gas s - g) z) with
  | None => exists st, st <> st_ok /\ step tbl bodies code s = fail st s
  | Some (ms, gas2, total) =>
      step tbl bodies code s =
      match run_body_pc code (i_pc s) body
              (if 0 <? ms then set_mem (i_cfg s) (mem_resize (mem (i_cfg s)) ms) else i_cfg s) with
      | None => fail st_crash s
      | Some (c2, pc') => Next (mkI c2 (pc' + 1) gas2 total)
      end
  end.
Proof.
  intros He Hx Hz. unfold step. fold (entry (get_op code (i_pc s))). rewrite He.
  cbn [mem_op o_valid o_gas o_min o_max o_halts o_jumps o_writes o_reverts o_returns o_dyn o_mem
       o_exec o_dynname o_memname negb orb].
  destruct (_ <? mn); [eexists; split; [|reflexivity]; discriminate|].
  destruct (mx <? _); [eexists; split; [|reflexivity]; discriminate|].
  destruct (i_gas s <? g); [eexists; split; [|reflexivity]; discriminate|].
  rewrite Hz. unfold charge, msize_of.
  destruct ((z <? 0) || (Z.of_N two64 <=? z))%Z; [eexists; split; [|reflexivity]; discriminate|].
  destruct (two64 <=? to_word_size (Z.to_N z) * 32); [eexists; split; [|reflexivity]; discriminate|].
  unfold dyn_gas_fn. cbn [String.eqb Ascii.eqb Bool.eqb].
  destruct (memory_gas_cost _ _ _) as [[fee total]|]; [|eexists; split; [|reflexivity]; discriminate].
  destruct (i_gas s - g <? fee); [eexists; split; [|reflexivity]; discriminate|].
  rewrite Hx. reflexivity.
Qed.

Lemma mem_resize_length m ms : N.of_nat (length (mem_resize m ms)) = N.max (N.of_nat (length m)) ms.
Proof.
  unfold mem_resize. destruct (N.ltb_spec (N.of_nat (length m)) ms).
  - rewrite app_length, repeat_length. lia.
  - lia.
Qed.

Lemma sim_memop s (d a : nat) n name memname body F :
  WFI s ->
  entry (get_op code (i_pc s)) = mem_op 3 (N.of_nat d) (1024 + N.of_nat d - N.of_nat a) name memname ->
  exec_stmt bodies name (get_op code (i_pc s)) = Some body ->
  assigns_pc body = false -> get_op code (i_pc s) <> 0 ->
  mem_size_fn memname (i_cfg s) = Some (back (i_cfg s) 0 + Z.of_N n)%Z ->
  1 <= n <= 32 -> (1 <= d)%nat -> (a <= d)%nat ->
  body_correct gv body (mem_pre (Z.of_N n) d) F ->
  (forall st m, (d <= length st)%nat -> length (fst (F st m)) = (length st - d + a)%nat) ->
  (forall st m, (0 <= hd 0 st)%Z -> (hd 0 st + Z.of_N n <= Z.of_nat (length m))%Z ->
                length (snd (F st m)) = length m) ->
  forall off r, svals (i_cfg s) = off :: r ->
  res_rel (step tbl bodies code s)
    (let '(w', cost) := expand (p_mem (abs s)) off n in
     spec_apply (abs s) d a (3 + cost) 1
       (fun _ => Some (F (p_stack (abs s)) (mem_resize (p_mem (abs s)) (w' * 32))))).
Proof.
  intros Hs He Hx Hpx Hop0 Hz Hn Hd Had Hok HlenF HmemF off r Est.
  pose proof Hs as [Hwf Hdep Hm32 Hcost Hgas Hstor Hpcb].
  pose proof (svals_length (i_cfg s)) as Hl.
  assert (Hback : back (i_cfg s) 0 = off).
  { unfold back. unfold svals in Est. destruct (stack (i_cfg s)) as [|l ls]; [discriminate|].
    cbn in *. congruence. }
  assert (Hoff : inrange off).
  { destruct Hwf as [_ _ Hr _ _ _]. unfold svals in Est. destruct (stack (i_cfg s)) as [|l ls]; [discriminate|].
    cbn [map] in Est. injection Est as <- _. apply Forall_cons_iff in Hr. apply Hr. }
  rewrite Hback in Hz.
  pose proof (step_mem s 3 _ _ _ _ _ _ He Hx Hz) as Hstep.
  unfold expand, abs. cbn [p_mem p_stack]. cbv zeta.
  destruct (N.of_nat (length (stack (i_cfg s))) <? N.of_nat d) eqn:E1.
  { destruct Hstep as (st & Hst & ->). rewrite spec_apply_exc by (cbn [p_stack]; lia). apply fail_exc, Hst. }
  destruct (1024 + N.of_nat d - N.of_nat a <? N.of_nat (length (stack (i_cfg s)))) eqn:E2.
  { destruct Hstep as (st & Hst & ->). rewrite spec_apply_exc by (cbn [p_stack]; lia). apply fail_exc, Hst. }
  destruct (i_gas s <? 3) eqn:E3.
  { destruct Hstep as (st & Hst & ->). rewrite spec_apply_exc by (cbn [p_gas]; lia). apply fail_exc, Hst. }
  pose proof (charge_spec (mem (i_cfg s)) (i_memcost s) (i_gas s - 3) off n Hm32 Hcost ltac:(lia)
                ltac:(unfold inrange in Hoff; lia) Hn) as Hch.
  cbv zeta in Hch.
  set (w' := N.max (mem_words (mem (i_cfg s))) ((Z.to_N off + n + 31) / 32)) in *.
  set (cost := cmem_cost w' - cmem_cost (mem_words (mem (i_cfg s)))) in *.
  destruct (charge _ _ _ _) as [[[ms gas2] total]|].
  2:{ destruct Hstep as (st & Hst & ->). rewrite spec_apply_exc by (cbn [p_gas]; lia). apply fail_exc, Hst. }
  destruct Hch as (Hc1 & Hg2 & Htot & Hms & Hres & Hfit).
  replace (0 <? ms) with true in Hstep by lia.
  set (c1 := set_mem (i_cfg s) (mem_resize (mem (i_cfg s)) ms)) in *.
  assert (Hwf1 : WF gv c1).
  { destruct Hwf as [A B C D E G]. constructor; cbn [c1 set_mem stack pool heap next mem stor]; try assumption.
    apply bytes_ok_resize, G. }
  assert (Hsv1 : svals c1 = svals (i_cfg s)) by reflexivity.
  assert (Hlen1 : N.of_nat (length (mem c1)) = w' * 32).
  { cbn [c1 set_mem mem]. rewrite Hres, mem_resize_length. pose proof (mem_words_len _ Hm32). subst w'. lia. }
  assert (Hw'b : w' < 4294967296).
  { pose proof (cmem_lin w'). unfold gas_bound in HG0. lia. }
  assert (Hpre : mem_pre (Z.of_N n) d (svals c1) (mem c1)).
  { unfold mem_pre. rewrite Hsv1, Est. cbn [hd]. split; [rewrite <- Est; lia|]. split.
    - cbn [c1 set_mem mem]. pose proof (mem_resize_length (mem (i_cfg s)) ms). lia.
    - pose proof two37_lt_tt63. change (2 ^ 37)%Z with 137438953472%Z in *. lia. }
  destruct (Hok code (i_pc s) c1 Hwf1 Hpre) as (c' & Hrun & Hwf' & Hres' & Hst').
  assert (Hst1 : stor c' = stor (i_cfg s)) by (rewrite Hst'; reflexivity).
  rewrite Hstep, (run_body_keeps_pc _ _ _ _ _ Hpx Hrun). rewrite Hsv1 in Hres'.
  pose proof (get_op_inside _ Hop0) as Hin. cbn [c1 set_mem mem] in Hres'. rewrite Hres in Hres'.
  pose proof (HlenF (svals (i_cfg s)) (mem_resize (mem (i_cfg s)) (w' * 32)) ltac:(lia)) as HlF.
  assert (HmF : length (snd (F (svals (i_cfg s)) (mem_resize (mem (i_cfg s)) (w' * 32)))) =
                length (mem_resize (mem (i_cfg s)) (w' * 32))).
  { apply HmemF; rewrite Est; cbn [hd]; [unfold inrange in Hoff; lia|].
    rewrite <- Hres. pose proof (mem_resize_length (mem (i_cfg s)) ms). lia. }
  destruct (F (svals (i_cfg s)) (mem_resize (mem (i_cfg s)) (w' * 32))) as [rs rm] eqn:ER.
  cbn [fst snd] in HlF, HmF. injection Hres' as Hsv' Hmem'.
  erewrite spec_apply_ok; cbn [p_stack p_gas p_pc p_stor]; [| lia | lia | lia | reflexivity].
  eexists. split; [reflexivity|]. split.
  - constructor; cbn [i_cfg i_gas i_memcost i_pc]; try assumption; try (rewrite Hst1; exact Hstor).
    + rewrite <- svals_length, Hsv'. lia.
    + rewrite Hmem', HmF, mem_resize_length.
      pose proof (mem_words_len _ Hm32). replace (N.max _ _) with (w' * 32) by (subst w'; lia).
      apply N.mod_mul. lia.
    + rewrite Htot. f_equal. unfold mem_words. rewrite Hmem', HmF, mem_resize_length.
      pose proof (mem_words_len _ Hm32). replace (N.max _ _) with (w' * 32) by (subst w'; lia).
      rewrite N.div_mul by lia. reflexivity.
    + pose proof (cmem_mono (mem_words (mem (i_cfg s))) w' ltac:(subst w'; lia)). lia.
    + lia.
  - unfold abs. cbn [i_cfg i_pc i_gas]. rewrite Hsv', Hmem', Hst1. f_equal; lia.
Qed.

Lemma bitlen_le_256 b : inrange b -> (0 <= bitlen_of b <= 256)%Z.
Proof.
  unfold inrange. rewrite tt256_eq. intros Hb. unfold bitlen_of.
  destruct (b =? 0)%Z eqn:E; [lia|]. rewrite Z.abs_eq by lia.
  pose proof (Z.log2_nonneg b). assert (Z.log2 b < 256)%Z by (apply Z.log2_lt_pow2; lia). lia.
Qed.

Lemma sim_exp s a b r : WFI s -> get_op code (i_pc s) = 10 -> svals (i_cfg s) = a :: b :: r ->
  res_rel (step tbl bodies code s)
    (spec_apply (abs s) 2%nat 1%nat (10 + 50 * byte_len b) 1 (fun _ => Some (spec_exp a b :: r, p_mem (abs s)))).
Proof.
  intros Hs Hop Est. pose proof Hs as [Hwf Hdep Hm32 Hcost Hgas Hstor Hpcb].
  destruct (t_exp Htbl) as (name & body & He & Hx & Hpx & Hok).
  pose proof (svals_length (i_cfg s)) as Hl. rewrite Est in Hl. cbn [length] in Hl.
  assert (Hb : back (i_cfg s) 1 = b /\ inrange b).
  { unfold back. destruct Hwf as [_ _ Hr _ _ _]. unfold svals in Est.
    destruct (stack (i_cfg s)) as [|l1 [|l2 ls]]; try discriminate.
    cbn [map] in Est. injection Est as _ <- _. cbn. split; [reflexivity|].
    apply Forall_cons_iff in Hr as [_ Hr]. apply Forall_cons_iff in Hr as [Hr _]. exact Hr. }
  destruct Hb as [Hback Hbr]. pose proof (bitlen_le_256 b Hbr) as Hbl.
  assert (Hdc : ((Z.to_N (bitlen_of b) + 7) / 8 * 50 + 10) mod two64 = 10 + 50 * byte_len b).
  { unfold byte_len. assert ((Z.to_N (bitlen_of b) + 7) / 8 < 33) by (apply N.div_lt_upper_bound; lia).
    rewrite N.mod_small by (unfold two64; lia). lia. }
  unfold step. fold (entry (get_op code (i_pc s))). rewrite Hop, He.
  cbn [o_valid o_gas o_min o_max o_halts o_jumps o_writes o_reverts o_returns o_dyn o_mem
       o_exec o_dynname o_memname negb orb].
  replace (N.of_nat (length (stack (i_cfg s))) <? 2) with false by lia.
  replace (1025 <? N.of_nat (length (stack (i_cfg s)))) with false by lia.
  rewrite ltb_0_r, N.sub_0_r. unfold dyn_gas_fn. cbn [String.eqb Ascii.eqb Bool.eqb].
  rewrite Hback, Hdc. unfold abs.
  destruct (i_gas s <? 10 + 50 * byte_len b) eqn:E3.
  { rewrite spec_apply_exc by (cbn [p_gas]; lia). apply fail_exc. discriminate. }
  cbn [N.ltb N.compare]. rewrite Hx.
  destruct (Hok code (i_pc s) (i_cfg s) (spec_exp a b :: r) Hwf ltac:(rewrite Est; reflexivity))
    as (c' & Hrun & Hwf' & Hsv & Hmem & Hst).
  rewrite (run_body_keeps_pc _ _ _ _ _ Hpx Hrun).
  assert (Hin : i_pc s < N.of_nat (length code)) by (apply get_op_inside; rewrite Hop; discriminate).
  erewrite spec_apply_ok; cbn [p_stack p_gas p_pc p_stor]; [| rewrite Est; cbn [length]; lia | rewrite Est; cbn [length]; lia | lia | reflexivity].
  eexists. split; [reflexivity|]. split.
  - constructor; cbn [i_cfg i_gas i_memcost]; try assumption.
    + rewrite <- svals_length, Hsv. cbn [length]. lia.
    + rewrite Hmem. exact Hm32.
    + rewrite Hmem. exact Hcost.
    + lia.
    + rewrite Hst. exact Hstor.
    + cbn [i_pc]. lia.
  - unfold abs. cbn [i_cfg i_pc i_gas]. rewrite Hsv, Hmem, Hst. f_equal; lia.
Qed.

Lemma sim_sload s : WFI s -> get_op code (i_pc s) = 84 ->
  res_rel (step tbl bodies code s)
    (spec_apply (abs s) 1%nat 1%nat 800 1
       (fun _ => match p_stack (abs s) with
                 | k :: r => Some (st_get (p_stor (abs s)) k :: r, p_mem (abs s)) | [] => None end)).
Proof.
  intros Hs Hop. pose proof Hs as [Hwf Hdep _ _ _ Hstor Hpcb].
  destruct (t_sload Htbl) as (name & body & He & Hx & Hpx & Hok).
  destruct (svals (i_cfg s)) as [|k r] eqn:Est.
  - eapply (sim_plain s 800 1%nat 1%nat name body 1 [] []); try eassumption; rewrite ?Hop; try assumption; try lia; try discriminate.
    + rewrite Est. cbn. lia.
    + rewrite Est. cbn. lia.
  - destruct (Hok code (i_pc s) (i_cfg s) k r Hwf Hstor Est) as (c' & Hrun & Hwf' & Hsv & Hmem & Hst).
    eapply (sim_plain s 800 1%nat 1%nat name body 1); try eassumption; rewrite ?Hop; try assumption; try lia; try discriminate.
    + intros _. exists c'. split; [apply keeps_pc_plain; [exact Hpx|exact Hrun]|]. split; [exact Hwf'|]. split; [exact Hsv|].
      split; [reflexivity|]. split; [exact Hmem|]. split; [exact Hst|]. rewrite Est. cbn [length]. lia.
    + intros _. unfold abs. cbn [p_stack p_mem p_stor]. rewrite Est, Hmem. reflexivity.
Qed.

Lemma sim_sstore s k v r : WFI s -> get_op code (i_pc s) = 85 -> svals (i_cfg s) = k :: v :: r ->
  res_rel (step tbl bodies code s)
    (let cost := sstore_gas 0 (st_get (p_stor (abs s)) k) v in
     if p_gas (abs s) <=? sstore_sentry then PExc
     else if p_gas (abs s) <? cost then PExc
     else PNext (mkP r (p_mem (abs s)) (p_pc (abs s) + 1) (p_gas (abs s) - cost) (st_set (p_stor (abs s)) k v))).
Proof.
  intros Hs Hop Est. pose proof Hs as [Hwf Hdep Hm32 Hcost Hgas Hstor Hpcb].
  destruct (t_sstore Htbl) as (name & body & He & Hx & Hpx & Hok).
  pose proof (svals_length (i_cfg s)) as Hl. rewrite Est in Hl. cbn [length] in Hl.
  assert (Hb : back (i_cfg s) 0 = k /\ back (i_cfg s) 1 = v /\ inrange k /\ inrange v).
  { unfold back. destruct Hwf as [_ _ Hr _ _ _]. unfold svals in Est.
    destruct (stack (i_cfg s)) as [|l1 [|l2 ls]]; try discriminate.
    cbn [map] in Est. injection Est as <- <- _. cbn.
    apply Forall_cons_iff in Hr as [Hr1 Hr]. apply Forall_cons_iff in Hr as [Hr2 _]. auto. }
  destruct Hb as (Hb0 & Hb1 & Hkr & Hvr).
  unfold step. fold (entry (get_op code (i_pc s))). rewrite Hop, He.
  cbn [o_valid o_gas o_min o_max o_halts o_jumps o_writes o_reverts o_returns o_dyn o_mem
       o_exec o_dynname o_memname negb orb].
  replace (N.of_nat (length (stack (i_cfg s))) <? 2) with false by lia.
  replace (1026 <? N.of_nat (length (stack (i_cfg s)))) with false by lia.
  rewrite ltb_0_r, N.sub_0_r. unfold dyn_gas_fn. cbn [String.eqb Ascii.eqb Bool.eqb].
  rewrite Hb0, Hb1, !hash_of_big_id by assumption. unfold abs. cbn [p_gas p_stor p_mem p_pc]. cbv zeta.
  destruct (i_gas s <=? sstore_sentry) eqn:Es.
  { apply fail_exc. discriminate. }
  set (cost := sstore_gas 0 (st_get (stor (i_cfg s)) k) v).
  destruct (i_gas s <? cost) eqn:E3.
  { apply fail_exc. discriminate. }
  cbn [N.ltb N.compare]. rewrite Hx.
  destruct (Hok code (i_pc s) (i_cfg s) k v r Hwf Est) as (c' & Hrun & Hwf' & Hsv & Hmem & Hst).
  rewrite (run_body_keeps_pc _ _ _ _ _ Hpx Hrun).
  assert (Hin : i_pc s < N.of_nat (length code)) by (apply get_op_inside; rewrite Hop; discriminate).
  eexists. split; [reflexivity|]. split.
  - constructor; cbn [i_cfg i_gas i_memcost]; try assumption.
    + rewrite <- svals_length, Hsv. lia.
    + rewrite Hmem. exact Hm32.
    + rewrite Hmem. exact Hcost.
    + lia.
    + rewrite Hst. apply st_set_ok; assumption.
    + cbn [i_pc]. lia.
  - unfold abs. cbn [i_cfg i_pc i_gas]. rewrite Hsv, Hmem, Hst. f_equal; lia.
Qed.

Lemma sim_under s : o_valid (entry (get_op code (i_pc s))) = true ->
  N.of_nat (length (stack (i_cfg s))) < o_min (entry (get_op code (i_pc s))) ->
  res_rel (step tbl bodies code s) PExc.
Proof.
  intros Hv Hlt. unfold step. fold (entry (get_op code (i_pc s))). rewrite Hv. cbn [negb].
  replace (N.of_nat (length (stack (i_cfg s))) <? o_min (entry (get_op code (i_pc s)))) with true by lia.
  apply fail_exc. discriminate.
Qed.

(* ---- one step ---------------------------------------------------------------------------- *)
Theorem step_sim s : WFI s -> res_rel (step tbl bodies code s) (spec_step code (abs s)).
Proof.
  intros Hs. unfold spec_step. change (p_pc (abs s)) with (i_pc s).
  pose proof (svals_length (i_cfg s)) as Hl.
  destruct (comp_spec (get_op code (i_pc s))) as [[f g]|] eqn:Ec.
  { exact (sim_comp s f g Hs Ec). }
  destruct (get_op code (i_pc s) =? 0) eqn:E0.
  { apply sim_stop; [exact Hs|lia]. }
  destruct (get_op code (i_pc s) =? 10) eqn:E10.
  { assert (Hop : get_op code (i_pc s) = 10) by lia.
    destruct (t_exp Htbl) as (name & body & He & _).
    pose proof (sim_exp s) as Hexp. unfold abs in *. cbn [p_stack p_mem] in *.
    destruct (svals (i_cfg s)) as [|a [|b r]] eqn:Est; cbn [length] in Hl.
    - apply sim_under; rewrite Hop, He; cbn [o_valid o_min]; [reflexivity|lia].
    - apply sim_under; rewrite Hop, He; cbn [o_valid o_min]; [reflexivity|lia].
    - exact (Hexp a b r Hs Hop eq_refl). }
  destruct (get_op code (i_pc s) =? 80) eqn:E80.
  { apply sim_pop; [exact Hs|lia]. }
  destruct (get_op code (i_pc s) =? 81) eqn:E81.
  { assert (Hop : get_op code (i_pc s) = 81) by lia.
    destruct (t_mload Htbl) as (name & body & He & Hx & Hpx & Hok).
    rewrite <- Hop in Hx. pose proof He as He'. rewrite <- Hop in He'.
    assert (Hop0 : get_op code (i_pc s) <> 0) by (rewrite Hop; discriminate).
    pose proof (sim_memop s 1%nat 1%nat 32 name "memoryMLoad" body _ Hs He' Hx Hpx Hop0 eq_refl
                  ltac:(lia) ltac:(lia) ltac:(lia) Hok) as H.
    cbv beta in H. specialize (H ltac:(intros st m Hd; destruct st; cbn in *; lia) ltac:(intros; reflexivity)).
    unfold abs in *. cbn [p_stack p_mem] in *.
    destruct (svals (i_cfg s)) as [|off r] eqn:Est; cbn [length] in Hl.
    - apply sim_under; rewrite Hop, He; cbn [mem_op o_valid o_min]; [reflexivity|lia].
    - exact (H off r eq_refl). }
  destruct (get_op code (i_pc s) =? 82) eqn:E82.
  { assert (Hop : get_op code (i_pc s) = 82) by lia.
    destruct (t_mstore Htbl) as (name & body & He & Hx & Hpx & Hok).
    rewrite <- Hop in Hx. pose proof He as He'. rewrite <- Hop in He'.
    assert (Hop0 : get_op code (i_pc s) <> 0) by (rewrite Hop; discriminate).
    pose proof (sim_memop s 2%nat 0%nat 32 name "memoryMStore" body _ Hs He' Hx Hpx Hop0 eq_refl
                  ltac:(lia) ltac:(lia) ltac:(lia) Hok) as H.
    cbv beta in H.
    specialize (H ltac:(intros st m Hd; destruct st as [|? [|? ?]]; cbn in *; lia)).
    specialize (H ltac:(intros st m H0 Hfit; cbn [snd]; unfold mem_write;
                        rewrite !app_length, firstn_length, skipn_length, be_bytes_length; lia)).
    unfold abs in *. cbn [p_stack p_mem] in *.
    destruct (svals (i_cfg s)) as [|off [|v r]] eqn:Est; cbn [length] in Hl.
    - apply sim_under; rewrite Hop, He; cbn [mem_op o_valid o_min]; [reflexivity|lia].
    - apply sim_under; rewrite Hop, He; cbn [mem_op o_valid o_min]; [reflexivity|lia].
    - exact (H off (v :: r) eq_refl). }
  destruct (get_op code (i_pc s) =? 83) eqn:E83.
  { assert (Hop : get_op code (i_pc s) = 83) by lia.
    destruct (t_mstore8 Htbl) as (name & body & He & Hx & Hpx & Hok).
    rewrite <- Hop in Hx. pose proof He as He'. rewrite <- Hop in He'.
    assert (Hop0 : get_op code (i_pc s) <> 0) by (rewrite Hop; discriminate).
    pose proof (sim_memop s 2%nat 0%nat 1 name "memoryMStore8" body _ Hs He' Hx Hpx Hop0 eq_refl
                  ltac:(lia) ltac:(lia) ltac:(lia) Hok) as H.
    cbv beta in H.
    specialize (H ltac:(intros st m Hd; destruct st as [|? [|? ?]]; cbn in *; lia)).
    specialize (H ltac:(intros st m H0 Hfit; cbn [snd]; unfold mem_write;
                        rewrite !app_length, firstn_length, skipn_length; cbn [length]; lia)).
    unfold abs in *. cbn [p_stack p_mem] in *.
    destruct (svals (i_cfg s)) as [|off [|v r]] eqn:Est; cbn [length] in Hl.
    - apply sim_under; rewrite Hop, He; cbn [mem_op o_valid o_min]; [reflexivity|lia].
    - apply sim_under; rewrite Hop, He; cbn [mem_op o_valid o_min]; [reflexivity|lia].
    - exact (H off (v :: r) eq_refl). }
  destruct (get_op code (i_pc s) =? 84) eqn:E84.
  { apply sim_sload; [exact Hs|lia]. }
  destruct (get_op code (i_pc s) =? 85) eqn:E85.
  { assert (Hop : get_op code (i_pc s) = 85) by lia.
    destruct (t_sstore Htbl) as (name & body & He & _).
    pose proof (sim_sstore s) as Hss. unfold abs in *. cbn [p_stack p_mem p_gas p_pc p_stor] in *.
    destruct (svals (i_cfg s)) as [|k [|v r]] eqn:Est; cbn [length] in Hl.
    - apply sim_under; rewrite Hop, He; cbn [o_valid o_min]; [reflexivity|lia].
    - apply sim_under; rewrite Hop, He; cbn [o_valid o_min]; [reflexivity|lia].
    - exact (Hss k v r Hs Hop eq_refl). }
  destruct (get_op code (i_pc s) =? 89) eqn:E89.
  { apply sim_msize; [exact Hs|lia]. }
  destruct ((96 <=? get_op code (i_pc s)) && (get_op code (i_pc s) <=? 127))%bool eqn:Epush.
  { apply sim_push; [exact Hs|lia]. }
  destruct ((128 <=? get_op code (i_pc s)) && (get_op code (i_pc s) <=? 143))%bool eqn:Edup.
  { apply sim_dup; [exact Hs|lia]. }
  destruct ((144 <=? get_op code (i_pc s)) && (get_op code (i_pc s) <=? 159))%bool eqn:Eswap.
  { apply sim_swap; [exact Hs|lia]. }
  destruct (spec_unassigned (get_op code (i_pc s))) eqn:Eu.
  { apply sim_invalid, Eu. }
  exact I.
Qed.

(* ---- any number of steps --------------------------------------------------------------- *)
Lemma top_abs s : top_val (i_cfg s) = ptop (abs s).
Proof.
  unfold top_val, ptop, abs, svals. cbn [p_stack]. destruct (stack (i_cfg s)); reflexivity.
Qed.

Theorem run_sim n : forall s tops, WFI s ->
  fst (spec_run code n (abs s) tops) <> PUnsupported ->
  exists r, run tbl bodies code n s tops = (r, snd (spec_run code n (abs s) tops)) /\
            res_rel r (fst (spec_run code n (abs s) tops)).
Proof.
  induction n as [|n IH]; intros s tops Hs Hsup.
  - cbn [run spec_run fst snd]. eexists. split; [reflexivity|]. exists s. auto.
  - cbn [run spec_run] in *. pose proof (step_sim s Hs) as Hstep.
    destruct (spec_step code (abs s)) as [p'|p'| |] eqn:Esp; cbn [res_rel] in Hstep.
    + destruct Hstep as (s' & -> & Hs' & <-). rewrite top_abs. apply IH; assumption.
    + destruct Hstep as (s' & -> & <-). cbn [fst snd]. rewrite top_abs.
      eexists. split; [reflexivity|]. exists s'. auto.
    + destruct Hstep as (st & s' & -> & Hst & Hg). cbn [fst snd].
      replace (st =? st_ok) with false by (apply eq_sym, N.eqb_neq, Hst).
      eexists. split; [reflexivity|]. exists st, s'. auto.
    + cbn [fst] in Hsup. congruence.
Qed.

(* ---- the initial state is well-formed, whatever junk the pool holds -------------------- *)
Lemma init_heap_out vals : forall start h l, (l < start \/ start + N.of_nat (length vals) <= l) ->
  init_heap vals start h l = h l.
Proof.
  induction vals as [|v r IH]; intros start h l Hl; cbn [init_heap]; [reflexivity|].
  rewrite IH by (cbn [length] in Hl; lia). apply upd_other. cbn [length] in Hl. lia.
Qed.
Lemma init_heap_in vals : forall start h i v, nth_error vals i = Some v ->
  init_heap vals start h (start + N.of_nat i) = v.
Proof.
  induction vals as [|x r IH]; intros start h i v Hi; [destruct i; discriminate|].
  cbn [init_heap]. destruct i as [|i].
  - cbn in Hi. injection Hi as ->. rewrite init_heap_out by lia. rewrite N.add_0_r. apply upd_same.
  - cbn [nth_error] in Hi. replace (start + N.of_nat (S i)) with (start + 1 + N.of_nat i) by lia.
    apply IH, Hi.
Qed.
Lemma seqN_in start n l : In l (seqN start n) <-> start <= l < start + N.of_nat n.
Proof.
  revert start. induction n as [|n IH]; intros start; cbn [seqN In].
  - lia.
  - rewrite IH. lia.
Qed.
Lemma seqN_nodup start n : NoDup (seqN start n).
Proof.
  revert start. induction n as [|n IH]; intros start; cbn [seqN]; constructor; [|apply IH].
  rewrite seqN_in. lia.
Qed.

Lemma init_wf pool0 gas : gas <= G0 -> WFI (init_state gv pool0 gas).
Proof.
  intros Hg. unfold init_state, init_cfg. constructor; cbn [i_cfg i_gas i_memcost stack mem].
  - constructor; cbn [stack pool heap next mem app].
    + apply NoDup_rev, seqN_nodup.
    + apply Forall_forall. intros l Hl. apply in_rev, seqN_in in Hl. unfold allocated. lia.
    + constructor.
    + intros i v Hi. rewrite init_heap_out.
      * pose proof (init_heap_in gv 0 (fun _ => 0%Z) i v Hi) as H. rewrite N.add_0_l in H. exact H.
      * left. assert (i < length gv)%nat by (apply nth_error_Some; congruence). lia.
    + lia.
    + constructor.
  - cbn. lia.
  - reflexivity.
  - reflexivity.
  - lia.
  - constructor.
  - cbn [i_pc]. lia.
Qed.

End Sim.
