(* C15 - the interpreter loop over the heap machine refines the pure
   specification machine, for ANY jump table and ANY set of bodies that meet
   the stated conditions ([table_ok]).  Bridge.v shows that the table and the
   bodies regenerated from the repository meet them. *)
From Coq Require Import Lia ZifyBool ZifyN ZifyNat.
From VF.C15 Require Import Model ProofsArith ProofsHeap ProofsTac ProofsClosures.
Local Open Scope Z_scope.

Definition plain_op (g mn mx : N) (name : string) : opinfo :=
  mkOp true g mn mx false false false false false false false name "" "".
Definition mem_op (g mn mx : N) (name memname : string) : opinfo :=
  mkOp true g mn mx false false false false false true true name "pureMemoryGascost" memname.

(* what the interpreter has established before a memory opcode runs *)
Definition mem_pre (n : Z) (k : nat) (st : list Z) (m : list N) : Prop :=
  (k <= length st)%nat /\ hd 0 st + n <= Z.of_nat (length m) /\ Z.of_nat (length m) < tt63.

Section Sim.
Variable gv : list Z.
Variable tbl : list opinfo.
Variable bodies : list (string * stmt).

Definition entry (op : N) : opinfo := nth (N.to_nat op) tbl op_dummy.

Local Open Scope N_scope.

Record table_ok : Prop := {
  t_comp : forall op f g, comp_spec op = Some (f, g) ->
    exists name body,
      entry op = plain_op g (N.of_nat (cfun_arity f)) (1024 + N.of_nat (cfun_arity f) - 1) name /\
      exec_stmt bodies name op = Some body /\ pc_extra name op = 0 /\ comp_correct gv body f;
  t_stop : entry 0 = mkOp true 0 0 1024 true false false false false false false "opStop" "" "";
  t_exp : exists name body,
      entry 10 = mkOp true 0 2 1025 false false false false false true false name "gasExp" "" /\
      exec_stmt bodies name 10 = Some body /\ pc_extra name 10 = 0 /\ comp_correct gv body (F2 spec_exp);
  t_pop : exists name body,
      entry 80 = plain_op 2 1 1025 name /\ exec_stmt bodies name 80 = Some body /\ pc_extra name 80 = 0 /\
      body_correct gv body (fun st _ => st <> []) (fun st m => (tl st, m));
  t_mload : exists name body,
      entry 81 = mem_op 3 1 1024 name "memoryMLoad" /\ exec_stmt bodies name 81 = Some body /\ pc_extra name 81 = 0 /\
      body_correct gv body (mem_pre 32 1)
        (fun st m => (be_to_Z (firstn 32 (skipn (Z.to_nat (hd 0%Z st)) m)) :: tl st, m));
  t_mstore : exists name body,
      entry 82 = mem_op 3 2 1026 name "memoryMStore" /\ exec_stmt bodies name 82 = Some body /\ pc_extra name 82 = 0 /\
      body_correct gv body (mem_pre 32 2)
        (fun st m => (tl (tl st), mem_write m (Z.to_nat (hd 0%Z st)) (be_bytes 32 (hd 0%Z (tl st)))));
  t_mstore8 : exists name body,
      entry 83 = mem_op 3 2 1026 name "memoryMStore8" /\ exec_stmt bodies name 83 = Some body /\ pc_extra name 83 = 0 /\
      body_correct gv body (mem_pre 1 2)
        (fun st m => (tl (tl st), mem_write m (Z.to_nat (hd 0%Z st)) [Z.to_N (hd 0%Z (tl st) mod 256)]));
  t_msize : exists name body,
      entry 89 = plain_op 2 0 1023 name /\ exec_stmt bodies name 89 = Some body /\ pc_extra name 89 = 0 /\
      body_correct gv body (fun _ m => (Z.of_nat (length m) < tt63)%Z)
        (fun st m => (Z.of_nat (length m) :: st, m));
  t_push : forall op, 96 <= op <= 127 -> entry op = plain_op 3 0 1023 "makePush";
  t_dup : forall op, 128 <= op <= 143 -> entry op = plain_op 3 (op - 127) 1023 "makeDup";
  t_swap : forall op, 144 <= op <= 159 -> entry op = plain_op 3 (op - 143 + 1) 1024 "makeSwap";
  t_invalid : forall op, spec_unassigned op = true -> o_valid (entry op) = false
}.

Hypothesis Htbl : table_ok.

(* the bound on the gas limit under which uint64 gas arithmetic cannot wrap:
   3 * 2^32, about 12.9 billion *)
Definition gas_bound : N := 12884901888.
Variable G0 : N.
Hypothesis HG0 : G0 < gas_bound.

Variable code : list N.
Hypothesis Hcode : bytes_ok code.

Record WFI (s : istate) : Prop := mkWFI {
  wfi_cfg : WF gv (i_cfg s);
  wfi_depth : (length (stack (i_cfg s)) <= 1024)%nat;
  wfi_mem32 : N.of_nat (length (mem (i_cfg s))) mod 32 = 0;
  wfi_cost : i_memcost s = cmem_cost (mem_words (mem (i_cfg s)));
  wfi_gas : i_gas s + i_memcost s <= G0
}.

Definition abs (s : istate) : pstate :=
  mkP (svals (i_cfg s)) (mem (i_cfg s)) (i_pc s) (i_gas s).

(* how results of the two machines correspond *)
Definition res_rel (r : result) (p : presult) : Prop :=
  match p with
  | PNext p' => exists s', r = Next s' /\ WFI s' /\ abs s' = p'
  | PStop p' => exists s', r = Done st_ok s' /\ abs s' = p'
  | PExc => exists st s', r = Done st s' /\ st <> st_ok /\ i_gas s' = 0
  | PUnsupported => True
  end.

Lemma svals_length c : length (svals c) = length (stack c).
Proof. unfold svals. apply map_length. Qed.

Lemma fail_exc st s : st <> st_ok -> res_rel (fail st s) PExc.
Proof. intros H. unfold fail. eexists _, _. split; [reflexivity|]. split; [exact H|reflexivity]. Qed.

Lemma ltb_0_r x : (x <? 0) = false. Proof. apply N.ltb_ge. lia. Qed.

(* ---- one step of an opcode without dynamic gas or memory ----------------------------- *)
Lemma step_plain s g mn mx name body :
  entry (get_op code (i_pc s)) = plain_op g mn mx name ->
  exec_stmt bodies name (get_op code (i_pc s)) = Some body ->
  step tbl bodies code s =
    (if N.of_nat (length (stack (i_cfg s))) <? mn then fail st_underflow s
     else if mx <? N.of_nat (length (stack (i_cfg s))) then fail st_overflow s
     else if i_gas s <? g then fail st_oog s
     else match run_body code (i_pc s) body (i_cfg s) with
          | None => fail st_crash s
          | Some c2 => Next (mkI c2 (i_pc s + pc_extra name (get_op code (i_pc s)) + 1) (i_gas s - g) (i_memcost s))
          end).
Proof.
  intros He Hx. unfold step. fold (entry (get_op code (i_pc s))). rewrite He.
  cbn [plain_op o_valid o_gas o_min o_max o_halts o_jumps o_writes o_reverts o_returns o_dyn o_mem o_exec negb orb].
  destruct (_ <? mn); [reflexivity|]. destruct (mx <? _); [reflexivity|]. destruct (i_gas s <? g); [reflexivity|].
  rewrite ltb_0_r, Hx. cbn [N.ltb N.compare]. rewrite N.sub_0_r. reflexivity.
Qed.

(* spec_apply when the stack is deep enough and the gas suffices *)
Lemma spec_apply_ok p d a g adv f st m :
  (d <= length (p_stack p))%nat -> (length (p_stack p) - d + a <= 1024)%nat -> g <= p_gas p ->
  f tt = Some (st, m) ->
  spec_apply p d a g adv f = PNext (mkP st m (p_pc p + adv) (p_gas p - g)).
Proof.
  intros H1 H2 H3 Hf. unfold spec_apply.
  replace (length (p_stack p) <? d)%nat with false by lia.
  replace (1024 <? length (p_stack p) - d + a)%nat with false by lia.
  replace (p_gas p <? g) with false by lia. rewrite Hf. reflexivity.
Qed.
Lemma spec_apply_exc p d a g adv f :
  (length (p_stack p) < d)%nat \/ (1024 < length (p_stack p) - d + a)%nat \/ p_gas p < g ->
  spec_apply p d a g adv f = PExc.
Proof.
  intros H. unfold spec_apply.
  destruct (length (p_stack p) <? d)%nat eqn:E1; [reflexivity|].
  destruct (1024 <? length (p_stack p) - d + a)%nat eqn:E2; [reflexivity|].
  destruct (p_gas p <? g) eqn:E3; [reflexivity|]. lia.
Qed.

Lemma cfun_apply_some f st : (cfun_arity f <= length st)%nat ->
  exists st', cfun_apply f st = Some st' /\ length st' = (length st - cfun_arity f + 1)%nat.
Proof.
  destruct f; cbn [cfun_arity cfun_apply]; intros H.
  - destruct st as [|a r]; [cbn in H; lia|]. eexists. split; [reflexivity|]. cbn. lia.
  - destruct st as [|a [|b r]]; try (cbn in H; lia). eexists. split; [reflexivity|]. cbn. lia.
  - destruct st as [|a [|b [|c r]]]; try (cbn in H; lia). eexists. split; [reflexivity|]. cbn. lia.
Qed.
Lemma cfun_arity_pos f : (1 <= cfun_arity f <= 3)%nat.
Proof. destruct f; cbn; lia. Qed.

Lemma sim_comp s f g : WFI s -> comp_spec (get_op code (i_pc s)) = Some (f, g) ->
  res_rel (step tbl bodies code s)
          (spec_apply (abs s) (cfun_arity f) 1%nat g 1
             (fun _ => match cfun_apply f (p_stack (abs s)) with Some st' => Some (st', p_mem (abs s)) | None => None end)).
Proof.
  intros [Hwf Hdep Hm32 Hcost Hgas] Hc.
  destruct (t_comp Htbl _ _ _ Hc) as (name & body & He & Hx & Hpx & Hok).
  rewrite (step_plain s _ _ _ _ _ He Hx). pose proof (cfun_arity_pos f) as Har.
  unfold abs; cbn [p_stack p_mem p_gas p_pc]. pose proof (svals_length (i_cfg s)) as Hl.
  destruct (N.of_nat (length (stack (i_cfg s))) <? N.of_nat (cfun_arity f)) eqn:E1.
  { rewrite spec_apply_exc by (cbn [p_stack]; lia). apply fail_exc. discriminate. }
  replace (1024 + N.of_nat (cfun_arity f) - 1 <? N.of_nat (length (stack (i_cfg s)))) with false by lia.
  destruct (i_gas s <? g) eqn:E3.
  { rewrite spec_apply_exc by (cbn [p_gas]; lia). apply fail_exc. discriminate. }
  destruct (cfun_apply_some f (svals (i_cfg s)) ltac:(lia)) as (st' & Hst' & Hlen').
  destruct (Hok code (i_pc s) (i_cfg s) st' Hwf Hst') as (c' & Hrun & Hwf' & Hsv & Hmem).
  rewrite Hrun. erewrite spec_apply_ok; cbn [p_stack p_gas p_pc]; [| lia | lia | lia | rewrite Hst'; reflexivity].
  eexists. split; [reflexivity|]. split.
  - constructor; cbn [i_cfg i_gas i_memcost]; try assumption.
    + rewrite <- svals_length, Hsv, Hlen'. lia.
    + rewrite Hmem. exact Hm32.
    + rewrite Hmem. exact Hcost.
    + lia.
  - unfold abs. cbn [i_cfg i_pc i_gas]. rewrite Hsv, Hmem, Hpx. f_equal. lia.
Qed.

(* generic frame for the opcodes without dynamic gas: a body whose effect on
   (stack values, memory) is given, and which keeps WF *)
Lemma sim_plain s g (d a : nat) name body adv st' m' :
  WFI s -> (a <= S d)%nat ->
  entry (get_op code (i_pc s)) = plain_op g (N.of_nat d) (1024 + N.of_nat d - N.of_nat a) name ->
  exec_stmt bodies name (get_op code (i_pc s)) = Some body ->
  pc_extra name (get_op code (i_pc s)) + 1 = adv ->
  ((d <= length (svals (i_cfg s)))%nat ->
     exists c', run_body code (i_pc s) body (i_cfg s) = Some c' /\ WF gv c' /\
                svals c' = st' /\ mem c' = m' /\ mem c' = mem (i_cfg s) /\
                length st' = (length (svals (i_cfg s)) - d + a)%nat) ->
  forall f, ((d <= length (svals (i_cfg s)))%nat -> f tt = Some (st', m')) ->
  res_rel (step tbl bodies code s) (spec_apply (abs s) d a g adv f).
Proof.
  intros [Hwf Hdep Hm32 Hcost Hgas] Hda He Hx Hadv Hbody f Hf.
  rewrite (step_plain s _ _ _ _ _ He Hx).
  unfold abs. pose proof (svals_length (i_cfg s)) as Hl.
  destruct (N.of_nat (length (stack (i_cfg s))) <? N.of_nat d) eqn:E1.
  { rewrite spec_apply_exc by (cbn [p_stack]; lia). apply fail_exc. discriminate. }
  destruct (1024 + N.of_nat d - N.of_nat a <? N.of_nat (length (stack (i_cfg s)))) eqn:E2.
  { rewrite spec_apply_exc by (cbn [p_stack]; lia). apply fail_exc. discriminate. }
  destruct (i_gas s <? g) eqn:E3.
  { rewrite spec_apply_exc by (cbn [p_gas]; lia). apply fail_exc. discriminate. }
  destruct (Hbody ltac:(lia)) as (c' & Hrun & Hwf' & Hsv & Hmem & Hmem0 & Hlen').
  rewrite Hrun. erewrite spec_apply_ok; cbn [p_stack p_gas p_pc]; [| lia | lia | lia | apply Hf; lia].
  eexists. split; [reflexivity|]. split.
  - constructor; cbn [i_cfg i_gas i_memcost]; try assumption.
    + rewrite <- svals_length, Hsv, Hlen'. lia.
    + rewrite Hmem0. exact Hm32.
    + rewrite Hmem0. exact Hcost.
    + lia.
  - unfold abs. cbn [i_cfg i_pc i_gas]. rewrite Hsv, Hmem. f_equal. lia.
Qed.

Lemma exec_push op : 96 <= op <= 127 -> exec_stmt bodies "makePush" op = Some (SPushCode (op - 95)).
Proof. intros H. unfold exec_stmt. cbn [String.eqb Ascii.eqb Bool.eqb]. replace ((96 <=? op) && (op <=? 127))%bool with true by lia. reflexivity. Qed.
Lemma exec_dup op : 128 <= op <= 143 -> exec_stmt bodies "makeDup" op = Some (SDup (op - 127)).
Proof. intros H. unfold exec_stmt. cbn [String.eqb Ascii.eqb Bool.eqb]. replace ((128 <=? op) && (op <=? 143))%bool with true by lia. reflexivity. Qed.
Lemma exec_swap op : 144 <= op <= 159 -> exec_stmt bodies "makeSwap" op = Some (SSwap (op - 143 + 1)).
Proof. intros H. unfold exec_stmt. cbn [String.eqb Ascii.eqb Bool.eqb]. replace ((144 <=? op) && (op <=? 159))%bool with true by lia. reflexivity. Qed.

Lemma sim_push s : WFI s -> 96 <= get_op code (i_pc s) <= 127 ->
  let n := get_op code (i_pc s) - 95 in
  res_rel (step tbl bodies code s)
    (spec_apply (abs s) 0%nat 1%nat 3 (n + 1)
       (fun _ => Some (be_to_Z (push_bytes code (p_pc (abs s)) n) :: p_stack (abs s), p_mem (abs s)))).
Proof.
  intros Hs Hop n. pose proof Hs as [Hwf _ _ _ _].
  destruct (push_correct gv code (i_pc s) n (i_cfg s) Hcode ltac:(lia) Hwf) as (c' & Hrun & Hwf' & Hsv & Hmem).
  eapply (sim_plain s 3 0%nat 1%nat "makePush"); try eassumption; [lia| | | | |].
  - rewrite (t_push Htbl _ Hop). reflexivity.
  - apply exec_push, Hop.
  - unfold pc_extra. cbn [String.eqb Ascii.eqb Bool.eqb]. subst n. lia.
  - intros _. exists c'. split; [exact Hrun|]. split; [exact Hwf'|]. split; [exact Hsv|].
    split; [reflexivity|]. split; [exact Hmem|]. cbn [length]. lia.
  - intros _. unfold abs. cbn [p_pc p_stack p_mem]. rewrite Hmem. reflexivity.
Qed.

Lemma sim_dup s : WFI s -> 128 <= get_op code (i_pc s) <= 143 ->
  let n := N.to_nat (get_op code (i_pc s) - 127) in
  res_rel (step tbl bodies code s)
    (spec_apply (abs s) n (S n) 3 1
       (fun _ => match nth_error (p_stack (abs s)) (n - 1) with
                 | Some x => Some (x :: p_stack (abs s), p_mem (abs s)) | None => None end)).
Proof.
  intros Hs Hop n. pose proof Hs as [Hwf _ _ _ _].
  assert (Hn : (1 <= n <= 16)%nat) by (subst n; lia).
  destruct (nth_error (svals (i_cfg s)) (n - 1)) as [x|] eqn:Ex.
  - destruct (dup_correct gv code (i_pc s) (n - 1) (i_cfg s) x Hwf Ex) as (c' & Hrun & Hwf' & Hsv & Hmem).
    eapply (sim_plain s 3 n (S n) "makeDup" _ 1); try eassumption; [lia| | | | |].
    + rewrite (t_dup Htbl _ Hop). f_equal; subst n; lia.
    + apply exec_dup, Hop.
    + reflexivity.
    + intros _. exists c'. split.
      { replace (get_op code (i_pc s) - 127) with (N.of_nat (S (n - 1))) by (subst n; lia). exact Hrun. }
      split; [exact Hwf'|]. split; [exact Hsv|]. split; [reflexivity|]. split; [exact Hmem|].
      assert (n - 1 < length (svals (i_cfg s)))%nat by (apply nth_error_Some; congruence).
      cbn [length]. lia.
    + intros _. unfold abs. cbn [p_stack p_mem]. rewrite Ex, Hmem. reflexivity.
  - (* fewer than n items: both machines fail *)
    apply nth_error_None in Ex.
    eapply (sim_plain s 3 n (S n) "makeDup" (SDup (get_op code (i_pc s) - 127)) 1 [] []); try eassumption; [lia| | | | |].
    + rewrite (t_dup Htbl _ Hop). f_equal; subst n; lia.
    + apply exec_dup, Hop.
    + reflexivity.
    + intros Hd. lia.
    + intros Hd. lia.
Qed.

Lemma sim_swap s : WFI s -> 144 <= get_op code (i_pc s) <= 159 ->
  let n := N.to_nat (get_op code (i_pc s) - 143) in
  res_rel (step tbl bodies code s)
    (spec_apply (abs s) (S n) (S n) 3 1
       (fun _ => match p_stack (abs s) with
                 | a :: r => match nth_error r (n - 1) with
                             | Some b => Some (b :: firstn (n - 1) r ++ a :: skipn n r, p_mem (abs s))
                             | None => None end
                 | [] => None
                 end)).
Proof.
  intros Hs Hop n. pose proof Hs as [Hwf _ _ _ _].
  assert (Hn : (1 <= n <= 16)%nat) by (subst n; lia).
  destruct (svals (i_cfg s)) as [|a r] eqn:Est.
  - eapply (sim_plain s 3 (S n) (S n) "makeSwap" (SSwap (get_op code (i_pc s) - 143 + 1)) 1 [] []); try eassumption; [lia| | | | |].
    + rewrite (t_swap Htbl _ Hop). f_equal; subst n; lia.
    + apply exec_swap, Hop.
    + reflexivity.
    + rewrite Est. cbn. lia.
    + rewrite Est. cbn. lia.
  - destruct (nth_error r (n - 1)) as [b|] eqn:Eb.
    + destruct (swap_correct gv code (i_pc s) (n - 1) (i_cfg s) a r b Hwf Est Eb) as (c' & Hrun & Hwf' & Hsv & Hmem).
      eapply (sim_plain s 3 (S n) (S n) "makeSwap" _ 1); try eassumption; [lia| | | | |].
      * rewrite (t_swap Htbl _ Hop). f_equal; subst n; lia.
      * apply exec_swap, Hop.
      * reflexivity.
      * intros _. exists c'. split.
        { replace (get_op code (i_pc s) - 143 + 1) with (N.of_nat (S (S (n - 1)))) by (subst n; lia). exact Hrun. }
        split; [exact Hwf'|]. split; [exact Hsv|]. split; [reflexivity|]. split; [exact Hmem|].
        rewrite Est. cbn [length]. rewrite app_length. cbn [length]. rewrite firstn_length, skipn_length.
        assert (n - 1 < length r)%nat by (apply nth_error_Some; congruence). lia.
      * intros _. unfold abs. cbn [p_stack p_mem]. rewrite Est, Eb, Hmem.
        replace (S (n - 1)) with n by lia. reflexivity.
    + apply nth_error_None in Eb.
      eapply (sim_plain s 3 (S n) (S n) "makeSwap" (SSwap (get_op code (i_pc s) - 143 + 1)) 1 [] []); try eassumption; [lia| | | | |].
      * rewrite (t_swap Htbl _ Hop). f_equal; subst n; lia.
      * apply exec_swap, Hop.
      * reflexivity.
      * rewrite Est. cbn [length]. lia.
      * rewrite Est. cbn [length]. lia.
Qed.

Lemma sim_pop s : WFI s -> get_op code (i_pc s) = 80 ->
  res_rel (step tbl bodies code s)
    (spec_apply (abs s) 1%nat 0%nat 2 1
       (fun _ => match p_stack (abs s) with _ :: r => Some (r, p_mem (abs s)) | [] => None end)).
Proof.
  intros Hs Hop. pose proof Hs as [Hwf _ _ _ _].
  destruct (t_pop Htbl) as (name & body & He & Hx & Hpx & Hok).
  destruct (svals (i_cfg s)) as [|a r] eqn:Est.
  - eapply (sim_plain s 2 1%nat 0%nat name body 1 [] []); try eassumption; [lia| | | | |]; rewrite ?Hop; try assumption.
    + rewrite Hpx. reflexivity.
    + rewrite Est. cbn. lia.
    + rewrite Est. cbn. lia.
  - destruct (Hok code (i_pc s) (i_cfg s) Hwf ltac:(rewrite Est; discriminate)) as (c' & Hrun & Hwf' & Hres).
    rewrite Est in Hres. cbn [tl] in Hres. injection Hres as Hsv Hmem.
    eapply (sim_plain s 2 1%nat 0%nat name body 1); try eassumption; [lia| | | | |]; rewrite ?Hop; try assumption.
    + rewrite Hpx. reflexivity.
    + intros _. exists c'. split; [exact Hrun|]. split; [exact Hwf'|]. split; [exact Hsv|].
      split; [reflexivity|]. split; [exact Hmem|]. rewrite Est. cbn [length]. lia.
    + intros _. unfold abs. cbn [p_stack p_mem]. rewrite Est, Hmem. reflexivity.
Qed.

Lemma cmem_lin w : 3 * w <= cmem_cost w.
Proof. unfold cmem_cost. lia. Qed.

Lemma mem_words_len m : N.of_nat (length m) mod 32 = 0 -> mem_words m * 32 = N.of_nat (length m).
Proof.
  intros H. unfold mem_words. pose proof (N.div_mod (N.of_nat (length m)) 32 ltac:(lia)). lia.
Qed.

Lemma mem_len_bound s : WFI s -> (Z.of_nat (length (mem (i_cfg s))) < 2 ^ 37)%Z.
Proof.
  intros [_ _ Hm32 Hcost Hgas]. pose proof (cmem_lin (mem_words (mem (i_cfg s)))) as Hl.
  pose proof (mem_words_len _ Hm32) as Hw. unfold gas_bound in HG0.
  assert (mem_words (mem (i_cfg s)) < 4294967296) by lia.
  change (2 ^ 37)%Z with 137438953472%Z. lia.
Qed.
Lemma two37_lt_tt63 : (2 ^ 37 < tt63)%Z.
Proof. rewrite tt63_eq. reflexivity. Qed.

Lemma sim_msize s : WFI s -> get_op code (i_pc s) = 89 ->
  res_rel (step tbl bodies code s)
    (spec_apply (abs s) 0%nat 1%nat 2 1
       (fun _ => Some (Z.of_N (mem_words (p_mem (abs s)) * 32) :: p_stack (abs s), p_mem (abs s)))).
Proof.
  intros Hs Hop. pose proof Hs as [Hwf _ Hm32 _ _].
  destruct (t_msize Htbl) as (name & body & He & Hx & Hpx & Hok).
  pose proof (mem_len_bound s Hs) as Hb. pose proof two37_lt_tt63.
  destruct (Hok code (i_pc s) (i_cfg s) Hwf ltac:(cbv beta; lia)) as (c' & Hrun & Hwf' & Hres).
  injection Hres as Hsv Hmem.
  eapply (sim_plain s 2 0%nat 1%nat name body 1); try eassumption; [lia| | | | |]; rewrite ?Hop; try assumption.
  - rewrite Hpx. reflexivity.
  - intros _. exists c'. split; [exact Hrun|]. split; [exact Hwf'|]. split; [exact Hsv|].
    split; [reflexivity|]. split; [exact Hmem|]. cbn [length]. lia.
  - intros _. unfold abs. cbn [p_stack p_mem]. rewrite Hmem, (mem_words_len _ Hm32), nat_N_Z. reflexivity.
Qed.

Lemma reclaim_abs s : abs (reclaim s) = abs s.
Proof.
  unfold abs, reclaim. cbn [i_cfg i_pc i_gas]. rewrite svals_pool_put, pool_put_mem. reflexivity.
Qed.

Lemma sim_stop s : WFI s -> get_op code (i_pc s) = 0 ->
  res_rel (step tbl bodies code s) (PStop (abs s)).
Proof.
  intros Hs Hop. unfold step. fold (entry (get_op code (i_pc s))). rewrite Hop, (t_stop Htbl).
  cbn [o_valid o_gas o_min o_max o_halts o_jumps o_writes o_reverts o_returns o_dyn o_mem o_exec negb orb].
  rewrite !ltb_0_r.
  replace (1024 <? N.of_nat (length (stack (i_cfg s)))) with false by (destruct Hs; lia).
  unfold exec_stmt. cbn [String.eqb Ascii.eqb Bool.eqb]. unfold run_body. cbn [exec].
  eexists. split; [reflexivity|]. rewrite reclaim_abs. unfold abs. cbn [i_cfg i_pc i_gas].
  rewrite !N.sub_0_r. reflexivity.
Qed.

Lemma sim_invalid s : spec_unassigned (get_op code (i_pc s)) = true ->
  res_rel (step tbl bodies code s) PExc.
Proof.
  intros Hu. unfold step. fold (entry (get_op code (i_pc s))). rewrite (t_invalid Htbl _ Hu).
  cbn [negb]. apply fail_exc. discriminate.
Qed.

(* ---- memory expansion: the uint64 computation of memoryGasCost against C_mem ---------- *)
Definition msize_of (z : Z) : option N :=
  if ((z <? 0) || (Z.of_N two64 <=? z))%Z then None
  else let w := to_word_size (Z.to_N z) in
       if two64 <=? w * 32 then None else Some (w * 32).
(* memory size, gas after the charge, new lastGasCost; None = the step fails *)
Definition charge (len last gas1 : N) (z : Z) : option (N * N * N) :=
  match msize_of z with
  | None => None
  | Some ms =>
    match memory_gas_cost len last ms with
    | None => None
    | Some (fee, total) => if gas1 <? fee then None else Some (ms, gas1 - fee, total)
    end
  end.

Lemma cmem_mono a b : a <= b -> cmem_cost a <= cmem_cost b.
Proof.
  intros H. unfold cmem_cost.
  assert (a * a / 512 <= b * b / 512) by (apply N.div_le_mono; nia). lia.
Qed.

Lemma div32_ceil z : (z + 31) / 32 * 32 < z + 32 /\ z <= (z + 31) / 32 * 32.
Proof. pose proof (N.div_mod (z + 31) 32 ltac:(lia)). pose proof (N.mod_lt (z + 31) 32 ltac:(lia)). lia. Qed.

Lemma charge_spec (m : list N) last gas1 off n :
  N.of_nat (length m) mod 32 = 0 -> last = cmem_cost (mem_words m) -> gas1 + last <= G0 ->
  (0 <= off)%Z -> 1 <= n <= 32 ->
  let w' := N.max (mem_words m) ((Z.to_N off + n + 31) / 32) in
  let cost := cmem_cost w' - cmem_cost (mem_words m) in
  match charge (N.of_nat (length m)) last gas1 (off + Z.of_N n) with
  | None => gas1 < cost
  | Some (ms, gas2, total) =>
      cost <= gas1 /\ gas2 = gas1 - cost /\ total = cmem_cost w' /\ 0 < ms /\
      mem_resize m ms = mem_resize m (w' * 32) /\
      (off + Z.of_N n <= Z.of_N (N.max (N.of_nat (length m)) ms))%Z
  end.
Proof.
  intros Hm32 Hlast Hgas Hoff Hn w' cost.
  pose proof (mem_words_len m Hm32) as HL. set (L := N.of_nat (length m)) in *.
  set (w := mem_words m) in *. unfold gas_bound in HG0.
  set (zN := Z.to_N off + n). assert (HzN : Z.to_N (off + Z.of_N n) = zN) by (subst zN; lia).
  set (q := (zN + 31) / 32). fold q in w'.
  pose proof (div32_ceil zN) as [Hq1 Hq2]. fold q in Hq1, Hq2.
  pose proof (cmem_lin w') as Hlin. pose proof (cmem_mono w w' ltac:(subst w'; lia)) as Hmono.
  assert (Hbig : 4294967296 <= q -> gas1 < cost).
  { intros Hb. subst cost. assert (4294967296 <= w') by (subst w'; lia). lia. }
  unfold charge, msize_of.
  destruct ((off + Z.of_N n <? 0) || (Z.of_N two64 <=? off + Z.of_N n))%Z eqn:E0.
  { apply Hbig. unfold two64 in E0. subst q. assert (18446744073709551616 <= zN) by lia.
    apply N.div_le_lower_bound; lia. }
  rewrite HzN. unfold to_word_size.
  destruct (two64 - 1 - 31 <? zN) eqn:E1.
  { replace (two64 <=? ((two64 - 1) / 32 + 1) * 32) with true by reflexivity.
    apply Hbig. unfold two64 in E1. subst q. apply N.div_le_lower_bound; lia. }
  fold q. unfold two64 in E0, E1.
  assert (Hq64 : q * 32 < two64) by (unfold two64; lia).
  replace (two64 <=? q * 32) with false by lia.
  unfold memory_gas_cost.
  assert (Hqpos : 1 <= q) by (subst q; apply N.div_le_lower_bound; lia).
  replace (q * 32 =? 0) with false by lia.
  destruct (1099511627744 <? q * 32) eqn:E2.
  { apply Hbig. lia. }
  unfold to_word_size. replace (two64 - 1 - 31 <? q * 32) with false by (unfold two64; lia).
  replace ((q * 32 + 31) / 32) with q
    by (apply N.div_unique with 31; lia).
  destruct (L <? q * 32) eqn:E3.
  - (* expansion *)
    assert (Hw' : w' = q) by (subst w'; lia).
    destruct (N.ltb_spec q 4294967296) as [Hsmall|Hlarge].
    + assert (Hsq : (q * q) mod two64 = q * q) by (apply N.mod_small; unfold two64; nia).
      assert (Hl3 : (q * 3) mod two64 = q * 3) by (apply N.mod_small; unfold two64; lia).
      rewrite Hsq, Hl3.
      assert (Hdiv : q * q / 512 < 36028797018963968) by (apply N.div_lt_upper_bound; nia).
      assert (Htot : (q * 3 + q * q / 512) mod two64 = cmem_cost q)
        by (unfold cmem_cost; rewrite N.mod_small by (unfold two64; lia); lia).
      rewrite Htot. rewrite <- Hw'.
      assert (Hfee : (cmem_cost w' + two64 - last) mod two64 = cost).
      { subst cost. rewrite Hlast. fold w.
        replace (cmem_cost w' + two64 - cmem_cost w) with (cmem_cost w' - cmem_cost w + 1 * two64) by lia.
        rewrite N.mod_add by (unfold two64; lia). apply N.mod_small.
        rewrite Hw'. unfold cmem_cost, two64. lia. }
      rewrite Hfee. destruct (gas1 <? cost) eqn:E4; [lia|].
      repeat split; try lia. rewrite Hw'. reflexivity.
    + (* the square wraps: too expensive for both *)
      assert (Hc : gas1 < cost) by (apply Hbig; lia).
      set (sq := (q * q) mod two64). set (l3 := (q * 3) mod two64).
      assert (Hl3 : l3 = q * 3) by (subst l3; apply N.mod_small; unfold two64; lia).
      assert (Hsqb : sq / 512 < 36028797018963968).
      { apply N.div_lt_upper_bound; [lia|]. subst sq. pose proof (N.mod_lt (q * q) two64 ltac:(unfold two64; lia)). unfold two64 in *. lia. }
      rewrite Hl3. rewrite (N.mod_small (q * 3 + sq / 512)) by (unfold two64; lia).
      assert (Hfee : gas1 < (q * 3 + sq / 512 + two64 - last) mod two64).
      { replace (q * 3 + sq / 512 + two64 - last) with (q * 3 + sq / 512 - last + 1 * two64) by lia.
        rewrite N.mod_add by (unfold two64; lia). rewrite N.mod_small by (unfold two64; lia). lia. }
      apply N.ltb_lt in Hfee. rewrite Hfee. exact Hc.
  - (* no expansion *)
    assert (Hw' : w' = w) by (subst w'; lia).
    assert (Hcost : cost = 0) by (subst cost; rewrite Hw'; lia).
    rewrite ltb_0_r, Hcost, Hw', <- Hlast. repeat split; try lia.
    unfold mem_resize. fold L. replace (L <? q * 32) with false by lia.
    replace (L <? w * 32) with false by lia. reflexivity.
Qed.

End Sim.
