(* C15 - facts about the files regenerated from the repository on every check:
   coq/gen/C15Table.v (T2: the jump table of the running code) and
   coq/gen/C15Ops.v (T3: the opcode bodies translated from go/ast).
   Together with ProofsOps they establish the hypothesis [table_ok] of the
   generic simulation theorem for the CURRENT source. *)
From Coq Require Import Lia ZifyBool ZifyN ZifyNat.
From VF.C15 Require Import Model ProofsArith ProofsHeap ProofsTac ProofsClosures ProofsSim ProofsOps.
From VF.gen Require Import C15Table C15Ops.
Local Open Scope N_scope.

(* constants the hand-written part of the model relies on *)
Lemma pool_limit_ok : pool_limit = poolLimit. Proof. reflexivity. Qed.
Lemma verify_pool_off : verify_pool = false. Proof. reflexivity. Qed.
Lemma stack_limit_ok : stack_limit = 1024. Proof. reflexivity. Qed.
Lemma memory_gas_ok : memory_gas = 3 /\ quad_coeff_div = 512. Proof. split; reflexivity. Qed.
Lemma exp_gas_ok : exp_gas = 10 /\ exp_byte_gas = 50. Proof. split; reflexivity. Qed.
Lemma table_length : length jump_table = 256%nat. Proof. reflexivity. Qed.

(* T2 against the specification: every computational opcode has the specified
   static gas, stack bounds, no other behaviour flag; unassigned bytes are invalid *)
Lemma comp_dom op f g : comp_spec op = Some (f, g) ->
  In op [1;2;3;4;5;6;7;8;9;11;16;17;18;19;20;21;22;23;24;25;26;27;28;29].
Proof.
  intros H. destruct op as [|p]; [discriminate|].
  repeat (destruct p as [p|p|]; cbn in H; try discriminate; try (cbn; tauto)).
Qed.

Ltac enum256 op :=
  destruct op as [|p]; [|do 8 (try destruct p as [p|p|])]; try lia.

Lemma real_table_ok : table_ok globals jump_table op_bodies.
Proof.
  constructor.
  - intros op f g H. pose proof (comp_dom _ _ _ H) as Hin. cbn [In] in Hin.
    repeat (destruct Hin as [<-|Hin]; [cbn in H; injection H as <- <-;
      eexists _, _; (split; [reflexivity|]); (split; [reflexivity|]); (split; [reflexivity|]);
      first [ apply opAdd_ok | apply opMul_ok | apply opSub_ok | apply opDiv_ok | apply opSdiv_ok
            | apply opMod_ok | apply opSmod_ok | apply opAddmod_ok | apply opMulmod_ok
            | apply opSignExtend_ok | apply opLt_ok | apply opGt_ok | apply opSlt_ok | apply opSgt_ok
            | apply opEq_ok | apply opIszero_ok | apply opAnd_ok | apply opOr_ok | apply opXor_ok
            | apply opNot_ok | apply opByte_ok | apply opSHL_ok | apply opSHR_ok | apply opSAR_ok ]|]).
    contradiction.
  - eexists. split; [reflexivity|]. split; [reflexivity|]. intros. apply opStop_sem.
  - eexists _, _. split; [reflexivity|]. split; [reflexivity|]. split; [reflexivity|]. apply opExp_ok.
  - eexists _, _. split; [reflexivity|]. split; [reflexivity|]. split; [reflexivity|]. apply opPop_ok.
  - eexists _, _. split; [reflexivity|]. split; [reflexivity|]. split; [reflexivity|]. apply opMload_ok.
  - eexists _, _. split; [reflexivity|]. split; [reflexivity|]. split; [reflexivity|]. apply opMstore_ok.
  - eexists _, _. split; [reflexivity|]. split; [reflexivity|]. split; [reflexivity|]. apply opMstore8_ok.
  - eexists _, _. split; [reflexivity|]. split; [reflexivity|]. split; [reflexivity|]. apply opSload_ok.
  - eexists _, _. split; [reflexivity|]. split; [reflexivity|]. split; [reflexivity|]. apply opSstore_ok.
  - eexists _, _. split; [reflexivity|]. split; [reflexivity|]. split; [reflexivity|]. apply opMsize_ok.
  - intros op H. enum256 op;
      (eexists; split; [reflexivity|]; split; [reflexivity|];
       intros code pc c H1 H2; apply makePush_sem; [lia|exact H1|exact H2]).
  - intros op H. enum256 op;
      (eexists; split; [reflexivity|]; split; [reflexivity|]; split; [reflexivity|];
       intros code pc c Hl; apply makeDup_sem; [lia|exact Hl]).
  - intros op H. enum256 op;
      (eexists; split; [reflexivity|]; split; [reflexivity|]; split; [reflexivity|];
       intros code pc c Hl; apply makeSwap_sem; [lia|exact Hl]).
  - intros op H.
    assert (Hb : op < 256) by (unfold spec_unassigned in H; lia).
    enum256 op; first [reflexivity | cbn in H; discriminate].
Qed.

(* T6: fingerprints of the functions Model.v mirrors by hand, as they were when
   the model was written.  A difference does not by itself mean the property is
   violated (a harmless rewrite changes it too): it makes this obligation fail,
   which sends the check into its search campaign. *)
Definition recorded_fingerprints : list (string * string) :=
  [("common/bytes.go:RightPadBytes", "04aacee45d4653ec");
   ("common/math/big.go:BigPow", "aa04da9c3531e023");
   ("common/math/big.go:Exp", "348b3cf7f243059a");
   ("common/math/big.go:ReadBits", "a40f8e97e1f1df57");
   ("common/types.go:BigToHash", "d26cff768f7341d9");
   ("common/types.go:BytesToHash", "130603172f582dfa");
   ("common/types.go:Hash.Bytes", "f9b540477c3af900");
   ("common/types.go:Hash.SetBytes", "0e9fd9f962e19e29");
   ("core/vm/common.go:bigUint64", "17d417e54e2ad7df");
   ("core/vm/common.go:calcMemSize", "7d7b7d3bb7fe3d1f");
   ("core/vm/common.go:toWordSize", "83a54477a3ff1403");
   ("core/vm/contract.go:Contract.GetByte", "4c81799e5e056f9a");
   ("core/vm/contract.go:Contract.GetOp", "cfebe41ee81ac058");
   ("core/vm/contract.go:Contract.UseGas", "7c08d8f54e3709b6");
   ("core/vm/gas_table.go:gasExp", "816405f51b0823c9");
   ("core/vm/gas_table.go:gasSStoreEIP2200", "c3197f8d02744610");
   ("core/vm/gas_table.go:memoryGasCost", "66df6796ef6e663f");
   ("core/vm/gas_table.go:pureMemoryGascost", "20441ee93783e555");
   ("core/vm/interpreter.go:EVMInterpreter.Run", "4e07c30869dc65fc");
   ("core/vm/intpool.go:intPool.get", "344e45b13c8a8faa");
   ("core/vm/intpool.go:intPool.getZero", "5fc28810dd45c288");
   ("core/vm/intpool.go:intPool.put", "24e91a7bd32960c0");
   ("core/vm/memory.go:Memory.Get", "e718496c5b7db9b4");
   ("core/vm/memory.go:Memory.Len", "60120296238321c8");
   ("core/vm/memory.go:Memory.Resize", "b0933bbde1a1a7c7");
   ("core/vm/memory.go:Memory.Set32", "9dc35851310b870e");
   ("core/vm/memory_table.go:memoryMLoad", "6fd12967315f2abb");
   ("core/vm/memory_table.go:memoryMStore", "db9db80cdfc84ced");
   ("core/vm/memory_table.go:memoryMStore8", "f448c027082dc99a");
   ("core/vm/stack.go:Stack.Back", "9cb7adc2c25672b8");
   ("core/vm/stack.go:Stack.peek", "2b987bc27afc258f");
   ("core/vm/stack.go:Stack.pop", "4aa41f70bc17dc50");
   ("core/vm/stack.go:Stack.push", "5adc58a9bf540a48")]%string.
Lemma hand_modelled_unchanged : fingerprints = recorded_fingerprints.
Proof. reflexivity. Qed.
