(* C15 - executable model of the computational core of core/vm.

   Three layers, no proofs in this file:

   1. [bigint]   the meaning of the math/big methods the opcode bodies call
                 (written once by hand; math/big itself is trusted).
   2. [DSL]      a deep embedding of the Go statements found in the opcode
                 bodies of core/vm/instructions.go and the helpers of
                 common/math/big.go.  Its semantics runs over a HEAP OF MUTABLE
                 BIG INTEGERS: the EVM stack and the interpreter's integer pool
                 are lists of heap locations, exactly as in Go where they are
                 slices of *big.Int - so aliasing (a cell that is both on the
                 stack and in the pool, two stack slots sharing a cell) is
                 expressible.  The DSL terms themselves are NOT written here:
                 they are regenerated from the Go sources on every check by the
                 translator "c15 ops" (coq/gen/C15Ops.v).
   3. [interp]   a hand-written mirror of EVMInterpreter.Run (interpreter.go),
                 parameterised by the jump table regenerated from the running
                 code (coq/gen/C15Table.v) and by the translated bodies (one per
                 opcode; the closures makePush/makeDup/makeSwap are translated
                 with their parameters and instantiated with the arguments
                 written in jump_table.go).

   Beside it stands the SPECIFICATION: a pure stack machine over Z modulo
   2^256 written from the EVM specification (yellow paper + EIP-145), which
   knows nothing of cells, pools or Go.

   The file ends with the correspondence runner used by the harness. *)
From Coq Require Export String List ZArith NArith Bool.
Export ListNotations.
Open Scope Z_scope.

(* ======================================================================= *)
(** * 1. math/big                                                           *)
(* ======================================================================= *)

(* closed numerals (not 2^n, which the VM would recompute at every use) *)
Definition tt255 : Z := Eval vm_compute in 2 ^ 255.
Definition tt256 : Z := Eval vm_compute in 2 ^ 256.
Definition tt256m1 : Z := Eval vm_compute in 2 ^ 256 - 1.
Definition tt64 : Z := Eval vm_compute in 2 ^ 64.
Definition tt63 : Z := Eval vm_compute in 2 ^ 63.

Inductive binop := Add | Sub | Mul | Div | Mod | Quo | Rem | And | Or | Xor.
Inductive unop := Not | Abs | Neg | SetV.
Inductive shop := Lsh | Rsh.

(* z.Op(x, y); None = run-time panic (division by zero) *)
Definition bin_sem (o : binop) (x y : Z) : option Z :=
  match o with
  | Add => Some (x + y)
  | Sub => Some (x - y)
  | Mul => Some (x * y)
  | Div => if y =? 0 then None else Some (Z.sgn y * (x / Z.abs y))   (* Euclidean *)
  | Mod => if y =? 0 then None else Some (x mod Z.abs y)            (* Euclidean *)
  | Quo => if y =? 0 then None else Some (Z.quot x y)               (* truncated *)
  | Rem => if y =? 0 then None else Some (Z.rem x y)
  | And => Some (Z.land x y)          (* two's complement semantics, as math/big *)
  | Or => Some (Z.lor x y)
  | Xor => Some (Z.lxor x y)
  end.

Definition un_sem (o : unop) (x : Z) : Z :=
  match o with
  | Not => Z.lnot x
  | Abs => Z.abs x
  | Neg => - x
  | SetV => x
  end.

Definition sh_sem (o : shop) (x n : Z) : Z :=
  match o with
  | Lsh => Z.shiftl x n
  | Rsh => Z.shiftr x n       (* arithmetic (floor) for negative x, as math/big *)
  end.

Definition cmp_sem (x y : Z) : Z :=
  match x ?= y with Lt => -1 | Eq => 0 | Gt => 1 end.

Definition wrap_u64 (z : Z) : Z := z mod tt64.
Definition wrap_i64 (z : Z) : Z := (z + tt63) mod tt64 - tt63.
Definition wrap_u8 (z : Z) : Z := z mod 256.

Definition uint64_of (x : Z) : Z := Z.abs x mod tt64.               (* x.Uint64() *)
Definition int64_of (x : Z) : Z :=                                    (* x.Int64() *)
  let v := wrap_i64 (Z.abs x mod tt64) in
  if x <? 0 then wrap_i64 (- v) else v.
Definition bitlen_of (x : Z) : Z := if x =? 0 then 0 else Z.log2 (Z.abs x) + 1.

(* the loop of math.Exp after result := 1: one iteration per bit of the words
   of the exponent (64 per word, least significant first) *)
Definition u256 (z : Z) : Z := Z.land z tt256m1.

Fixpoint exp_iter (n : nat) (res base e : Z) : Z * Z :=
  match n with
  | O => (res, base)
  | S k =>
    let res' := if Z.odd e then u256 (res * base) else res in
    exp_iter k res' (u256 (base * base)) (e / 2)
  end.
Definition exp_words (e : Z) : Z := (bitlen_of e + 63) / 64.        (* len(e.Bits()) *)
Definition exp_sem (base e : Z) : Z * Z :=
  exp_iter (Z.to_nat (64 * exp_words e)) 1 base (Z.abs e).

(* bytes *)
Fixpoint be_to_Z_acc (acc : Z) (l : list N) : Z :=
  match l with
  | [] => acc
  | b :: r => be_to_Z_acc (256 * acc + Z.of_N b) r
  end.
Definition be_to_Z (l : list N) : Z := be_to_Z_acc 0 l.                (* SetBytes *)

Fixpoint be_bytes (n : nat) (z : Z) : list N :=                         (* n low bytes, big-endian *)
  match n with
  | O => []
  | S k => be_bytes k (z / 256) ++ [Z.to_N (z mod 256)]
  end.

(* ======================================================================= *)
(** * 2. The heap machine and the statement language                        *)
(* ======================================================================= *)

Definition loc := N.

(* Contract storage as seen through StateDB.GetState / SetState: a finite map
   from 256-bit keys to 256-bit values (both as numbers; absent = 0), keys kept
   in the order of their first write.  ProofsSpec.v shows that everything proved
   with it holds for ANY implementation of the two-operation interface that
   satisfies get-after-set. *)
Definition store := list (Z * Z).
Fixpoint st_get (s : store) (k : Z) : Z :=
  match s with
  | [] => 0
  | (k', v) :: r => if k' =? k then v else st_get r k
  end.
Fixpoint st_set (s : store) (k v : Z) : store :=
  match s with
  | [] => [(k, v)]
  | (k', v') :: r => if k' =? k then (k', v) :: r else (k', v') :: st_set r k v
  end.

Record cfg := mkCfg {
  heap : loc -> Z;       (* value of every *big.Int cell *)
  next : loc;            (* allocation counter: cells >= next do not exist yet *)
  stack : list loc;      (* Stack.data, TOP FIRST *)
  pool : list loc;       (* intPool.pool.data, TOP FIRST (get() takes the head) *)
  mem : list N;          (* Memory.store *)
  stor : store           (* the executing contract's storage as StateDB presents it *)
}.

Definition upd (h : loc -> Z) (l : loc) (v : Z) : loc -> Z :=
  fun l' => if N.eqb l' l then v else h l'.

Definition write (c : cfg) (l : loc) (v : Z) : cfg :=
  mkCfg (upd (heap c) l v) (next c) (stack c) (pool c) (mem c) (stor c).
Definition alloc (c : cfg) (v : Z) : loc * cfg :=                      (* new(big.Int) / big.NewInt *)
  (next c, mkCfg (upd (heap c) (next c) v) (next c + 1)%N (stack c) (pool c) (mem c) (stor c)).
Definition pop (c : cfg) : option (loc * cfg) :=                       (* Stack.pop; None = panic *)
  match stack c with
  | [] => None
  | l :: r => Some (l, mkCfg (heap c) (next c) r (pool c) (mem c) (stor c))
  end.
Definition peek (c : cfg) : option (loc * cfg) :=
  match stack c with
  | [] => None
  | l :: _ => Some (l, c)
  end.
Definition push (c : cfg) (l : loc) : cfg :=
  mkCfg (heap c) (next c) (l :: stack c) (pool c) (mem c) (stor c).
Definition set_stor (c : cfg) (sr : store) : cfg :=
  mkCfg (heap c) (next c) (stack c) (pool c) (mem c) sr.
Definition set_mem (c : cfg) (m : list N) : cfg :=
  mkCfg (heap c) (next c) (stack c) (pool c) m (stor c).

Definition poolLimit : nat := 256.

Definition pool_get (c : cfg) : loc * cfg :=                           (* intPool.get *)
  match pool c with
  | [] => alloc c 0
  | l :: r => (l, mkCfg (heap c) (next c) (stack c) r (mem c) (stor c))
  end.
Definition pool_get_zero (c : cfg) : loc * cfg :=                      (* intPool.getZero *)
  match pool c with
  | [] => alloc c 0
  | l :: r => (l, mkCfg (upd (heap c) l 0) (next c) (stack c) r (mem c) (stor c))
  end.
Definition pool_put (c : cfg) (ls : list loc) : cfg :=                 (* intPool.put(is...) *)
  if Nat.ltb poolLimit (length (pool c)) then c
  else mkCfg (heap c) (next c) (stack c) (rev ls ++ pool c) (mem c) (stor c).

(* memory helpers (Memory.Get / Set32 / store[i]= / Resize) *)
Definition mem_get (m : list N) (off size : Z) : option (list N) :=
  if size =? 0 then Some []
  else if Z.of_nat (length m) >? off then
    if (0 <=? off) && (0 <=? size) && (off + size <=? Z.of_nat (length m))
    then Some (firstn (Z.to_nat size) (skipn (Z.to_nat off) m))
    else None                                    (* slice bounds out of range *)
  else Some [].
Definition mem_write (m : list N) (off : nat) (bs : list N) : list N :=
  firstn off m ++ bs ++ skipn (off + length bs) m.
Definition mem_set32 (m : list N) (off : Z) (v : Z) : option (list N) :=
  if (0 <=? off) && (off + 32 <=? Z.of_nat (length m))
  then Some (mem_write m (Z.to_nat off) (be_bytes 32 (Z.abs v)))
  else None.
Definition mem_store8 (m : list N) (off : Z) (b : Z) : option (list N) :=
  if (0 <=? off) && (off <? Z.of_nat (length m))
  then Some (mem_write m (Z.to_nat off) [Z.to_N b])
  else None.
Definition mem_resize (m : list N) (size : N) : list N :=
  if (N.of_nat (length m) <? size)%N then m ++ repeat 0%N (N.to_nat size - length m) else m.

(* ---- syntax -------------------------------------------------------------- *)
Inductive ity := U64 | I64 | U8.          (* uint/uint64, int/int64, byte *)
Inductive rel := RLt | RLe | RGt | RGe | REq | RNe.

Inductive pexp :=                           (* expressions of type *big.Int *)
| PVar (v : N)
| PGlob (g : N)                             (* package level variable (cell g) *)
| PNew (i : iexp)                           (* big.NewInt(i), new(big.Int) *)
| PPop | PPeek                              (* stack.pop(), stack.peek() *)
| PGet | PGetZero                           (* intPool.get(), getZero() *)
| PBin (o : binop) (z x y : pexp)           (* z.Op(x, y) *)
| PUn (o : unop) (z x : pexp)               (* z.Op(x) *)
| PShift (o : shop) (z x : pexp) (n : iexp) (* z.Lsh(x, n) *)
| PSetU (z : pexp) (i : iexp)               (* z.SetUint64(i) *)
| PSetI (z : pexp) (i : iexp)               (* z.SetInt64(i) *)
| PSetBytes (z : pexp) (b : bexp)           (* z.SetBytes(b) *)
| PLet (v : N) (e body : pexp)              (* inlined call: parameter v bound to e *)
| PIf (c : cond) (a b : pexp)               (* inlined "if c { return a }; return b" *)
| PExp (b e : pexp)                         (* math.Exp(b, e) *)
| PStackAt (i : iexp)                       (* st.data[i] (index from the bottom) *)
with iexp :=                                (* machine integers *)
| IConst (z : Z)
| IVar (v : N)
| IAdd (t : ity) (a b : iexp)
| ISub (t : ity) (a b : iexp)
| IMul (t : ity) (a b : iexp)
| IAnd (a b : iexp)
| IConv (t : ity) (a : iexp)
| ICmp (x y : pexp)                         (* x.Cmp(y) *)
| ISign (x : pexp)
| IUint64 (x : pexp)
| IInt64 (x : pexp)
| IBitLen (x : pexp)
| IBit (x : pexp) (i : iexp)
| IMemLen                                   (* memory.Len() *)
| IStackLen                                 (* st.len() *)
| ICodeLen                                  (* len(contract.Code) *)
| IDiv (t : ity) (a b : iexp)               (* a / b (truncated) *)
| IMod (t : ity) (a b : iexp)               (* a % b *)
| IShr (a b : iexp)                         (* a >> b on an unsigned word *)
| IBitsLen (x : pexp)                       (* len(x.Bits()) *)
| IWordAt (x : pexp) (i : iexp)             (* x.Bits()[i] *)
| ILet (v : N) (e body : iexp)              (* inlined call: integer parameter / local v bound to e *)
| IIf (c : cond) (a b : iexp)               (* inlined "if c { return a }; return b" *)
with cond :=
| CRel (r : rel) (a b : iexp)
| CAnd (a b : cond)                         (* short-circuit *)
| COr (a b : cond)
| CNot (a : cond)
with bexp :=
| BMemGet (off size : iexp)                 (* memory.Get(off, size) *)
| BHashBytes (h : hexp)                     (* h.Bytes() of a common.Hash *)
| BCodeSlice (a b : iexp)                   (* contract.Code[a:b] *)
| BRightPad (b : bexp) (n : iexp)           (* common.RightPadBytes(b, n) *)
with hexp :=                                (* expressions of type common.Hash (a 256-bit number) *)
| HVar (v : N)
| HOfBig (x : pexp)                         (* common.BigToHash(x) *)
| HGetState (k : hexp).                     (* evm.StateDB.GetState(contract.Address(), k) *)

Inductive stmt :=
| SSkip
| SSeq (a b : stmt)
| SDefP (v : N) (e : pexp)                  (* v := e *)
| SDefI (v : N) (e : iexp)
| SDo (e : pexp)                            (* expression statement *)
| SPush (e : pexp)                          (* stack.push(e) *)
| SPut (es : list pexp)                     (* intPool.put(es...) *)
| SIf (c : cond) (a b : stmt)
| SReturn
| SMemSet32 (off : iexp) (v : pexp)         (* memory.Set32(off, v) *)
| SMemStore8 (off : iexp) (v : iexp)        (* memory.store[off] = v *)
| SDefH (v : N) (e : hexp)                  (* v := e  (a common.Hash) *)
| SSetState (k v : hexp)                    (* evm.StateDB.SetState(contract.Address(), k, v) *)
| SStackSwap (i j : iexp).                  (* st.data[i], st.data[j] = st.data[j], st.data[i] *)

(* ---- semantics ----------------------------------------------------------- *)
Record env := mkEnv { pv : list (N * loc); iv : list (N * Z); hv : list (N * Z) }.
Definition env0 : env := mkEnv [] [] [].

Fixpoint lookup {A} (l : list (N * A)) (v : N) : option A :=
  match l with
  | [] => None
  | (k, a) :: r => if N.eqb k v then Some a else lookup r v
  end.
Definition bind_p (en : env) (v : N) (l : loc) : env := mkEnv ((v, l) :: pv en) (iv en) (hv en).
Definition bind_i (en : env) (v : N) (z : Z) : env := mkEnv (pv en) ((v, z) :: iv en) (hv en).
Definition bind_h (en : env) (v : N) (z : Z) : env := mkEnv (pv en) (iv en) ((v, z) :: hv en).
(* common.BigToHash(b) = BytesToHash(b.Bytes()): the last 32 bytes of |b| *)
Definition hash_of_big (x : Z) : Z := Z.land (Z.abs x) tt256m1.

Definition wrap (t : ity) (z : Z) : Z :=
  match t with U64 => wrap_u64 z | I64 => wrap_i64 z | U8 => wrap_u8 z end.
Definition rel_sem (r : rel) (a b : Z) : bool :=
  match r with
  | RLt => a <? b | RLe => a <=? b | RGt => a >? b | RGe => a >=? b
  | REq => a =? b | RNe => negb (a =? b)
  end.

Notation "'do' x <- e ; k" := (match e with Some x => k | None => None end)
  (at level 200, x pattern, e at level 100, k at level 200, right associativity).

(* the program counter *pc is an integer variable of the environment *)
Definition pcvar : N := 1000000.

(* words of a big.Int (64-bit platform) *)
Definition bits_len (x : Z) : Z := (bitlen_of x + 63) / 64.
Definition word_at (x i : Z) : Z := (Z.abs x / 2 ^ (64 * i)) mod tt64.

Definition set_nth {A} (l : list A) (k : nat) (v : A) : list A := firstn k l ++ v :: skipn (S k) l.
(* position in the top-first list of the data index i (from the bottom) *)
Definition data_pos (n : nat) (i : Z) : option nat :=
  if (i <? 0) || (Z.of_nat n <=? i) then None else Some (n - 1 - Z.to_nat i)%nat.

Section Eval.
Variable code : list N.     (* contract.Code *)

Fixpoint eval_p (e : pexp) (en : env) (c : cfg) {struct e} : option (loc * cfg) :=
  match e with
  | PVar v => do l <- lookup (pv en) v; Some (l, c)
  | PStackAt i =>
    do (k, c1) <- eval_i i en c;
    do p <- data_pos (length (stack c1)) k;
    do l <- nth_error (stack c1) p;
    Some (l, c1)
  | PGlob g => Some (g, c)
  | PNew i => do (z, c1) <- eval_i i en c; Some (alloc c1 z)
  | PPop => pop c
  | PPeek => peek c
  | PGet => Some (pool_get c)
  | PGetZero => Some (pool_get_zero c)
  | PBin o z x y =>
    do (lz, c1) <- eval_p z en c;
    do (lx, c2) <- eval_p x en c1;
    do (ly, c3) <- eval_p y en c2;
    do r <- bin_sem o (heap c3 lx) (heap c3 ly);
    Some (lz, write c3 lz r)
  | PUn o z x =>
    do (lz, c1) <- eval_p z en c;
    do (lx, c2) <- eval_p x en c1;
    Some (lz, write c2 lz (un_sem o (heap c2 lx)))
  | PShift o z x n =>
    do (lz, c1) <- eval_p z en c;
    do (lx, c2) <- eval_p x en c1;
    do (k, c3) <- eval_i n en c2;
    if k <? 0 then None else Some (lz, write c3 lz (sh_sem o (heap c3 lx) k))
  | PSetU z i =>
    do (lz, c1) <- eval_p z en c;
    do (k, c2) <- eval_i i en c1;
    Some (lz, write c2 lz (wrap_u64 k))
  | PSetI z i =>
    do (lz, c1) <- eval_p z en c;
    do (k, c2) <- eval_i i en c1;
    Some (lz, write c2 lz (wrap_i64 k))
  | PSetBytes z b =>
    do (lz, c1) <- eval_p z en c;
    do (bs, c2) <- eval_b b en c1;
    Some (lz, write c2 lz (be_to_Z bs))
  | PLet v e1 body =>
    do (l, c1) <- eval_p e1 en c;
    eval_p body (bind_p en v l) c1
  | PIf cd a b =>
    do (t, c1) <- eval_c cd en c;
    if t then eval_p a en c1 else eval_p b en c1
  | PExp b x =>
    do (lb, c1) <- eval_p b en c;
    do (lx, c2) <- eval_p x en c1;
    let '(lr, c3) := alloc c2 1 in
    let '(r, b') := exp_sem (heap c3 lb) (heap c3 lx) in
    (* result and base are written by the loop; the exponent is only read *)
    Some (lr, write (write c3 lb b') lr r)
  end
with eval_i (e : iexp) (en : env) (c : cfg) {struct e} : option (Z * cfg) :=
  match e with
  | IConst z => Some (z, c)
  | IVar v => do z <- lookup (iv en) v; Some (z, c)
  | IAdd t a b => do (x, c1) <- eval_i a en c; do (y, c2) <- eval_i b en c1; Some (wrap t (x + y), c2)
  | ISub t a b => do (x, c1) <- eval_i a en c; do (y, c2) <- eval_i b en c1; Some (wrap t (x - y), c2)
  | IMul t a b => do (x, c1) <- eval_i a en c; do (y, c2) <- eval_i b en c1; Some (wrap t (x * y), c2)
  | IAnd a b => do (x, c1) <- eval_i a en c; do (y, c2) <- eval_i b en c1; Some (Z.land x y, c2)
  | IConv t a => do (x, c1) <- eval_i a en c; Some (wrap t x, c1)
  | ICmp x y =>
    do (lx, c1) <- eval_p x en c;
    do (ly, c2) <- eval_p y en c1;
    Some (cmp_sem (heap c2 lx) (heap c2 ly), c2)
  | ISign x => do (lx, c1) <- eval_p x en c; Some (Z.sgn (heap c1 lx), c1)
  | IUint64 x => do (lx, c1) <- eval_p x en c; Some (uint64_of (heap c1 lx), c1)
  | IInt64 x => do (lx, c1) <- eval_p x en c; Some (int64_of (heap c1 lx), c1)
  | IBitLen x => do (lx, c1) <- eval_p x en c; Some (bitlen_of (heap c1 lx), c1)
  | IBit x i =>
    do (lx, c1) <- eval_p x en c;
    do (k, c2) <- eval_i i en c1;
    if k <? 0 then None else Some (Z.b2z (Z.testbit (heap c2 lx) k), c2)
  | IMemLen => Some (Z.of_nat (length (mem c)), c)
  | IStackLen => Some (Z.of_nat (length (stack c)), c)
  | ICodeLen => Some (Z.of_nat (length code), c)
  | IDiv t a b =>
    do (x, c1) <- eval_i a en c; do (y, c2) <- eval_i b en c1;
    if y =? 0 then None else Some (wrap t (Z.quot x y), c2)
  | IMod t a b =>
    do (x, c1) <- eval_i a en c; do (y, c2) <- eval_i b en c1;
    if y =? 0 then None else Some (wrap t (Z.rem x y), c2)
  | IShr a b =>
    do (x, c1) <- eval_i a en c; do (y, c2) <- eval_i b en c1;
    if y <? 0 then None else Some (Z.shiftr x y, c2)
  | IBitsLen x => do (lx, c1) <- eval_p x en c; Some (bits_len (heap c1 lx), c1)
  | IWordAt x i =>
    do (lx, c1) <- eval_p x en c;
    do (k, c2) <- eval_i i en c1;
    if (k <? 0) || (bits_len (heap c2 lx) <=? k) then None else Some (word_at (heap c2 lx) k, c2)
  | ILet v e1 body => do (z, c1) <- eval_i e1 en c; eval_i body (bind_i en v z) c1
  | IIf cd a b =>
    do (t, c1) <- eval_c cd en c;
    if t then eval_i a en c1 else eval_i b en c1
  end
with eval_c (e : cond) (en : env) (c : cfg) {struct e} : option (bool * cfg) :=
  match e with
  | CRel r a b => do (x, c1) <- eval_i a en c; do (y, c2) <- eval_i b en c1; Some (rel_sem r x y, c2)
  | CAnd a b => do (x, c1) <- eval_c a en c; if x then eval_c b en c1 else Some (false, c1)
  | COr a b => do (x, c1) <- eval_c a en c; if x then Some (true, c1) else eval_c b en c1
  | CNot a => do (x, c1) <- eval_c a en c; Some (negb x, c1)
  end
with eval_b (e : bexp) (en : env) (c : cfg) {struct e} : option (list N * cfg) :=
  match e with
  | BMemGet off size =>
    do (o, c1) <- eval_i off en c;
    do (s, c2) <- eval_i size en c1;
    do bs <- mem_get (mem c2) o s;
    Some (bs, c2)
  | BHashBytes h => do (x, c1) <- eval_h h en c; Some (be_bytes 32 x, c1)
  | BCodeSlice a b =>
    do (x, c1) <- eval_i a en c; do (y, c2) <- eval_i b en c1;
    if (0 <=? x) && (x <=? y) && (y <=? Z.of_nat (length code))
    then Some (firstn (Z.to_nat (y - x)) (skipn (Z.to_nat x) code), c2) else None
  | BRightPad b n =>
    do (bs, c1) <- eval_b b en c; do (k, c2) <- eval_i n en c1;
    Some (bs ++ repeat 0%N (Z.to_nat k - length bs), c2)
  end
with eval_h (e : hexp) (en : env) (c : cfg) {struct e} : option (Z * cfg) :=
  match e with
  | HVar v => do z <- lookup (hv en) v; Some (z, c)
  | HOfBig x => do (lx, c1) <- eval_p x en c; Some (hash_of_big (heap c1 lx), c1)
  | HGetState k => do (x, c1) <- eval_h k en c; Some (st_get (stor c1) x, c1)
  end.

Fixpoint eval_ps (es : list pexp) (en : env) (c : cfg) : option (list loc * cfg) :=
  match es with
  | [] => Some ([], c)
  | e :: r =>
    do (l, c1) <- eval_p e en c;
    do (ls, c2) <- eval_ps r en c1;
    Some (l :: ls, c2)
  end.

(* result of a statement: (returned?, environment, configuration) *)
Fixpoint exec (s : stmt) (en : env) (c : cfg) {struct s}
  : option (bool * env * cfg) :=
  match s with
  | SSkip => Some (false, en, c)
  | SSeq a b =>
    do (r, en1, c1) <- exec a en c;
    if r then Some (true, en1, c1) else exec b en1 c1
  | SDefP v e => do (l, c1) <- eval_p e en c; Some (false, bind_p en v l, c1)
  | SDefI v e => do (z, c1) <- eval_i e en c; Some (false, bind_i en v z, c1)
  | SDo e => do (_, c1) <- eval_p e en c; Some (false, en, c1)
  | SPush e => do (l, c1) <- eval_p e en c; Some (false, en, push c1 l)
  | SPut es => do (ls, c1) <- eval_ps es en c; Some (false, en, pool_put c1 ls)
  | SIf cd a b =>
    do (t, c1) <- eval_c cd en c;
    if t then exec a en c1 else exec b en c1
  | SReturn => Some (true, en, c)
  | SMemSet32 off v =>
    do (o, c1) <- eval_i off en c;
    do (lv, c2) <- eval_p v en c1;
    do m <- mem_set32 (mem c2) o (heap c2 lv);
    Some (false, en, set_mem c2 m)
  | SMemStore8 off v =>
    do (o, c1) <- eval_i off en c;
    do (b, c2) <- eval_i v en c1;
    do m <- mem_store8 (mem c2) o b;
    Some (false, en, set_mem c2 m)
  | SDefH v e => do (z, c1) <- eval_h e en c; Some (false, bind_h en v z, c1)
  | SSetState k v =>
    do (x, c1) <- eval_h k en c;
    do (y, c2) <- eval_h v en c1;
    Some (false, en, set_stor c2 (st_set (stor c2) x y))
  | SStackSwap i j =>
    do (x, c1) <- eval_i i en c;
    do (y, c2) <- eval_i j en c1;
    do p <- data_pos (length (stack c2)) x;
    do q <- data_pos (length (stack c2)) y;
    do lp <- nth_error (stack c2) p;
    do lq <- nth_error (stack c2) q;
    Some (false, en, mkCfg (heap c2) (next c2) (set_nth (set_nth (stack c2) p lq) q lp) (pool c2) (mem c2) (stor c2))
  end.

End Eval.

(* SPECIFICATION side: the operand of a PUSHn at pc - the n code bytes after pc, right padded *)
Definition get_op (code : list N) (pc : N) : N := nth (N.to_nat pc) code 0%N.
Definition push_bytes (code : list N) (pc : N) (n : N) : list N :=
  let start := Nat.min (N.to_nat pc + 1) (length code) in
  let bs := firstn (N.to_nat n) (skipn start code) in
  bs ++ repeat 0%N (N.to_nat n - length bs).

(* a body runs with *pc bound to the current program counter; it may assign it (PUSHn) *)
Definition env_pc (pc : N) : env := bind_i env0 pcvar (Z.of_N pc).
Definition run_body_pc (code : list N) (pc : N) (s : stmt) (c : cfg) : option (cfg * N) :=
  do (_, en, c1) <- exec code s (env_pc pc) c;
  do z <- lookup (iv en) pcvar;
  Some (c1, Z.to_N z).
Definition run_body (code : list N) (pc : N) (s : stmt) (c : cfg) : option cfg :=
  do (_, _, c1) <- exec code s (env_pc pc) c; Some c1.

(* ======================================================================= *)
(** * 3. The interpreter loop (EVMInterpreter.Run)                          *)
(* ======================================================================= *)

Record opinfo := mkOp {
  o_valid : bool; o_gas : N; o_min : N; o_max : N;
  o_halts : bool; o_jumps : bool; o_writes : bool; o_reverts : bool; o_returns : bool;
  o_dyn : bool; o_mem : bool;
  o_exec : string; o_dynname : string; o_memname : string
}.
Definition op_dummy : opinfo := mkOp false 0 0 0 false false false false false false false "" "" "".

Record istate := mkI {
  i_cfg : cfg;
  i_pc : N;
  i_gas : N;            (* contract.Gas *)
  i_memcost : N         (* Memory.lastGasCost *)
}.

(* status enum, shared with the harness *)
Definition st_ok : N := 0.
Definition st_oog : N := 1.
Definition st_underflow : N := 2.
Definition st_overflow : N := 3.
Definition st_invalid : N := 4.
Definition st_gasuint : N := 5.
Definition st_crash : N := 6.         (* run-time panic / other error *)
Definition st_unsupported : N := 7.   (* opcode outside the modelled set *)

Inductive result := Next (s : istate) | Done (status : N) (s : istate).

Local Open Scope N_scope.

Definition two64 : N := 18446744073709551616.

(* operation.memorySize(stack) by function name; reads stack cells only.
   calcMemSize(off, l) = if l == 0 then 0 else off + l *)
Definition back (c : cfg) (n : nat) : Z :=
  match nth_error (stack c) n with Some l => heap c l | None => 0%Z end.
Definition mem_size_fn (name : string) (c : cfg) : option Z :=
  if String.eqb name "memoryMLoad" then Some (back c 0 + 32)%Z
  else if String.eqb name "memoryMStore" then Some (back c 0 + 32)%Z
  else if String.eqb name "memoryMStore8" then Some (back c 0 + 1)%Z
  else None.

Definition to_word_size (size : N) : N :=
  if two64 - 1 - 31 <? size then (two64 - 1) / 32 + 1 else (size + 31) / 32.

(* memoryGasCost(mem, newMemSize) with uint64 wrap-around;
   returns None on errGasUintOverflow, else (fee, new lastGasCost) *)
Definition memory_gas_cost (memlen : N) (last : N) (new_size : N) : option (N * N) :=
  if new_size =? 0 then Some (0, last)
  else if 1099511627744 <? new_size then None           (* 0xffffffffe0 *)
  else
    let words := to_word_size new_size in
    let new_size' := words * 32 in
    if memlen <? new_size' then
      let square := (words * words) mod two64 in
      let lin := (words * 3) mod two64 in
      let quad := square / 512 in
      let total := (lin + quad) mod two64 in
      let fee := (total + two64 - last) mod two64 in
      Some (fee, total)
    else Some (0, last).

(* operation.dynamicGas by function name: None = unsupported, Some None = error *)
(* gasSStoreEIP2200 without its refund counter: the cost of writing v over the
   current value cur of a slot whose committed value is orig *)
Definition sstore_gas (orig cur v : Z) : N :=
  if (cur =? v)%Z then 800                                   (* SstoreNoopGas *)
  else if (orig =? cur)%Z then (if (orig =? 0)%Z then 20000   (* SstoreInitGas *)
                               else 5000)                     (* SstoreCleanGas *)
  else 800.                                                   (* SstoreDirtyGas *)
Definition sstore_sentry : N := 2300.

(* gas1 = contract.Gas after the static charge.  The account's committed storage
   is empty in every run considered here (fresh state): orig = 0. *)
Definition dyn_gas_fn (name : string) (s : istate) (gas1 : N) (memory_size : N) : option (option (N * N)) :=
  let c := i_cfg s in
  if String.eqb name "pureMemoryGascost" then
    Some (memory_gas_cost (N.of_nat (length (mem c))) (i_memcost s) memory_size)
  else if String.eqb name "gasExp" then
    (* expByteLen := (stack.data[len-2].BitLen() + 7) / 8; gas = expByteLen*ExpByte + ExpGas *)
    let bl := Z.to_N (bitlen_of (back c 1)) in
    Some (Some (((bl + 7) / 8 * 50 + 10) mod two64, i_memcost s))
  else if String.eqb name "gasSStoreEIP2200" then
    if gas1 <=? sstore_sentry then Some None
    else
      let current := st_get (stor c) (hash_of_big (back c 0)) in
      Some (Some (sstore_gas 0 current (hash_of_big (back c 1)), i_memcost s))
  else None.

(* the statement an opcode executes.  [bodies] is regenerated: for every opcode
   whose execute function is translated, the translated body (closures such as
   makePush(n, n) instantiated with the arguments found in jump_table.go), tagged
   with the function's name, which must be the one in the jump table entry *)
Definition exec_stmt (bodies : list (N * (string * stmt))) (name : string) (op : N) : option stmt :=
  (fix find (l : list (N * (string * stmt))) :=
     match l with
     | [] => None
     | (k, (nm, b)) :: r =>
       if N.eqb k op then (if String.eqb nm name then Some b else None) else find r
     end) bodies.

(* the deferred in.intPool.put(stack.data...) *)
Definition reclaim (s : istate) : istate :=
  let c := i_cfg s in
  mkI (pool_put c (rev (stack c))) (i_pc s) (i_gas s) (i_memcost s).
Definition fail (st : N) (s : istate) : result :=
  Done st (reclaim (mkI (i_cfg s) (i_pc s) 0 (i_memcost s))).   (* evm.Call burns the gas *)

Definition step (tbl : list opinfo) (bodies : list (N * (string * stmt))) (code : list N) (s : istate) : result :=
  let c := i_cfg s in
  let op := get_op code (i_pc s) in
  let o := nth (N.to_nat op) tbl op_dummy in
  if negb (o_valid o) then fail st_invalid s
  else
  let slen := N.of_nat (length (stack c)) in
  if slen <? o_min o then fail st_underflow s
  else if o_max o <? slen then fail st_overflow s
  else if i_gas s <? o_gas o then fail st_oog s
  else
  let gas1 := i_gas s - o_gas o in
  let msz : option (option N) :=      (* None unsupported; Some None overflow *)
    if o_mem o then
      match mem_size_fn (o_memname o) c with
      | None => None
      | Some z =>
        if (z <? 0)%Z || (Z.of_N two64 <=? z)%Z then Some None
        else
          let w := to_word_size (Z.to_N z) in
          if two64 <=? w * 32 then Some None else Some (Some (w * 32))
      end
    else Some (Some 0) in
  match msz with
  | None => fail st_unsupported s
  | Some None => fail st_gasuint s
  | Some (Some memory_size) =>
    let dg : option (option (N * N)) :=
      if o_dyn o then dyn_gas_fn (o_dynname o) s gas1 memory_size else Some (Some (0, i_memcost s)) in
    match dg with
    | None => fail st_unsupported s
    | Some None => fail st_oog s
    | Some (Some (dc, last')) =>
      if gas1 <? dc then fail st_oog s
      else
      let gas2 := gas1 - dc in
      let c1 := if 0 <? memory_size then set_mem c (mem_resize (mem c) memory_size) else c in
      match exec_stmt bodies (o_exec o) op with
      | None => fail st_unsupported s
      | Some body =>
        match run_body_pc code (i_pc s) body c1 with
        | None => fail st_crash s
        | Some (c2, pc') =>
          if o_reverts o || o_jumps o || o_returns o then fail st_unsupported s   (* o_writes only matters in read-only mode, which is not modelled *)
          else if o_halts o then Done st_ok (reclaim (mkI c2 (i_pc s) gas2 last'))
          else Next (mkI c2 (pc' + 1) gas2 last')
        end
      end
    end
  end.

(* [run n] performs at most n steps, recording the value on top of the stack
   before each executed step (-1 = empty stack) *)
Definition top_val (c : cfg) : Z :=
  match stack c with [] => (-1)%Z | l :: _ => heap c l end.

Fixpoint run (tbl : list opinfo) (bodies : list (N * (string * stmt))) (code : list N)
         (n : nat) (s : istate) (tops : list Z) : result * list Z :=
  match n with
  | O => (Next s, rev tops)
  | S k =>
    match step tbl bodies code s with
    | Next s' => run tbl bodies code k s' (top_val (i_cfg s) :: tops)
    | Done st s' =>
      (Done st s', rev (if (st =? st_ok) then top_val (i_cfg s) :: tops else tops))
    end
  end.

(* initial configuration: global cells 0..|globals|-1, then the pool cells *)
Fixpoint init_heap (vals : list Z) (start : N) (h : loc -> Z) : loc -> Z :=
  match vals with
  | [] => h
  | v :: r => init_heap r (start + 1) (upd h start v)
  end.
Fixpoint seqN (start : N) (n : nat) : list N :=
  match n with O => [] | S k => start :: seqN (start + 1) k end.

(* pool0: values of the cells initially in the pool, BOTTOM first *)
Definition init_cfg (globals : list Z) (pool0 : list Z) : cfg :=
  let ng := N.of_nat (length globals) in
  let h := init_heap pool0 ng (init_heap globals 0 (fun _ => 0%Z)) in
  mkCfg h (ng + N.of_nat (length pool0)) [] (rev (seqN ng (length pool0))) [] [].
Definition init_state (globals : list Z) (pool0 : list Z) (gas : N) : istate :=
  mkI (init_cfg globals pool0) 0 gas 0.

(* ======================================================================= *)
(** * 4. The specification: a pure 256-bit stack machine                    *)
(* ======================================================================= *)
Local Open Scope Z_scope.

Definition M256 : Z := Eval vm_compute in 2 ^ 256.
Definition M255 : Z := Eval vm_compute in 2 ^ 255.
(* x mod 2^256, computed by masking (Z division is very slow under vm_compute);
   Proofs.v: wrap256 x = x mod 2^256 *)
Definition wrap256 (x : Z) : Z := Z.land x tt256m1.
Definition sgn256 (x : Z) : Z := if x <? M255 then x else x - M256.   (* two's complement reading *)
Definition b2w (b : bool) : Z := if b then 1 else 0.

Definition spec_add a b := wrap256 (a + b).
Definition spec_mul a b := wrap256 (a * b).
Definition spec_sub a b := wrap256 (a - b).
Definition spec_div a b := if b =? 0 then 0 else a / b.
Definition spec_sdiv a b := if b =? 0 then 0 else wrap256 (Z.quot (sgn256 a) (sgn256 b)).
Definition spec_mod a b := if b =? 0 then 0 else a mod b.
Definition spec_smod a b := if b =? 0 then 0 else wrap256 (Z.rem (sgn256 a) (sgn256 b)).
Definition spec_addmod a b n := if n =? 0 then 0 else (a + b) mod n.
Definition spec_mulmod a b n := if n =? 0 then 0 else (a * b) mod n.
(* a^b mod 2^256 by repeated squaring (a^b itself is astronomically large);
   Proofs.v shows pow256 a b = a^b mod 2^256 *)
Fixpoint pow256_pos (a : Z) (b : positive) : Z :=
  match b with
  | xH => wrap256 a
  | xO b' => let r := pow256_pos a b' in wrap256 (r * r)
  | xI b' => let r := pow256_pos a b' in wrap256 (wrap256 (r * r) * a)
  end.
Definition pow256 (a b : Z) : Z :=
  match b with
  | Z0 => 1
  | Zpos p => pow256_pos a p
  | Zneg _ => 0
  end.
Definition spec_exp a b := pow256 a b.
Definition spec_signextend b x :=
  if b <? 31 then
    let t := 8 * b + 7 in
    let lo := Z.land x (Z.ones (t + 1)) in                     (* x mod 2^(t+1) *)
    if Z.testbit x t then lo + (M256 - Z.shiftl 1 (t + 1)) else lo
  else x.
Definition spec_lt a b := b2w (a <? b).
Definition spec_gt a b := b2w (a >? b).
Definition spec_slt a b := b2w (sgn256 a <? sgn256 b).
Definition spec_sgt a b := b2w (sgn256 a >? sgn256 b).
Definition spec_eq a b := b2w (a =? b).
Definition spec_iszero a := b2w (a =? 0).
Definition spec_and a b := Z.land a b.
Definition spec_or a b := Z.lor a b.
Definition spec_xor a b := Z.lxor a b.
Definition spec_not a := tt256m1 - a.
Definition spec_byte i x := if i <? 32 then Z.land (Z.shiftr x (8 * (31 - i))) 255 else 0.
Definition spec_shl s v := if s <? 256 then wrap256 (Z.shiftl v s) else 0.   (* v * 2^s *)
Definition spec_shr s v := if s <? 256 then Z.shiftr v s else 0.             (* v / 2^s *)
Definition spec_sar s v :=
  if s <? 256 then wrap256 (Z.shiftr (sgn256 v) s)                          (* floor (v / 2^s) *)
  else if sgn256 v <? 0 then tt256m1 else 0.

(* computational opcodes: arity, function on the popped operands (top first), static gas *)
Inductive cfun :=
| F1 (f : Z -> Z) | F2 (f : Z -> Z -> Z) | F3 (f : Z -> Z -> Z -> Z).
Definition comp_spec (op : N) : option (cfun * N) :=
  match op with
  | 1 => Some (F2 spec_add, 3) | 2 => Some (F2 spec_mul, 5) | 3 => Some (F2 spec_sub, 3)
  | 4 => Some (F2 spec_div, 5) | 5 => Some (F2 spec_sdiv, 5) | 6 => Some (F2 spec_mod, 5)
  | 7 => Some (F2 spec_smod, 5) | 8 => Some (F3 spec_addmod, 8) | 9 => Some (F3 spec_mulmod, 8)
  | 11 => Some (F2 spec_signextend, 5)
  | 16 => Some (F2 spec_lt, 3) | 17 => Some (F2 spec_gt, 3) | 18 => Some (F2 spec_slt, 3)
  | 19 => Some (F2 spec_sgt, 3) | 20 => Some (F2 spec_eq, 3) | 21 => Some (F1 spec_iszero, 3)
  | 22 => Some (F2 spec_and, 3) | 23 => Some (F2 spec_or, 3) | 24 => Some (F2 spec_xor, 3)
  | 25 => Some (F1 spec_not, 3) | 26 => Some (F2 spec_byte, 3)
  | 27 => Some (F2 spec_shl, 3) | 28 => Some (F2 spec_shr, 3) | 29 => Some (F2 spec_sar, 3)
  | _ => None
  end%N.
Definition cfun_arity (f : cfun) : nat := match f with F1 _ => 1 | F2 _ => 2 | F3 _ => 3 end.
Definition cfun_apply (f : cfun) (st : list Z) : option (list Z) :=
  match f, st with
  | F1 g, a :: r => Some (g a :: r)
  | F2 g, a :: b :: r => Some (g a b :: r)
  | F3 g, a :: b :: c :: r => Some (g a b c :: r)
  | _, _ => None
  end.

Record pstate := mkP { p_stack : list Z; p_mem : list N; p_pc : N; p_gas : N; p_stor : store }.
Inductive presult :=
| PNext (s : pstate)
| PStop (s : pstate)          (* normal halt *)
| PExc                        (* exceptional halt: all gas is consumed *)
| PUnsupported.               (* opcode outside the computational groups *)

Local Open Scope N_scope.
(* C_mem of the yellow paper, in words *)
Definition cmem_cost (words : N) : N := 3 * words + words * words / 512.
Definition mem_words (m : list N) : N := N.of_nat (length m) / 32.
(* memory expansion to cover [off, off+len): new word count and cost *)
Definition expand (m : list N) (off : Z) (len : N) : N * N :=
  let w := mem_words m in
  let w' := N.max w ((Z.to_N off + len + 31) / 32) in
  (w', cmem_cost w' - cmem_cost w).
Definition byte_len (z : Z) : N := (Z.to_N (bitlen_of z) + 7) / 8.

(* the generic frame: an instruction that pops [d] items and pushes [a], costs [g]
   and transforms (stack, memory) by [f] *)
Definition spec_apply (s : pstate) (d a : nat) (g : N) (adv : N)
           (f : unit -> option (list Z * list N)) : presult :=
  if (length (p_stack s) <? d)%nat then PExc
  else if (1024 <? length (p_stack s) - d + a)%nat then PExc
  else if p_gas s <? g then PExc
  else match f tt with      (* evaluated only when the instruction is affordable *)
       | None => PExc
       | Some (st, m) => PNext (mkP st m (p_pc s + adv) (p_gas s - g) (p_stor s))
       end.

(* byte values that are not instructions of this instruction set *)
Definition spec_unassigned (op : N) : bool :=
  (op =? 12) || (op =? 13) || (op =? 14) || (op =? 15) || (op =? 30) || (op =? 31)
  || ((33 <=? op) && (op <=? 47)) || ((72 <=? op) && (op <=? 79))
  || ((92 <=? op) && (op <=? 95)) || ((165 <=? op) && (op <=? 239))
  || ((246 <=? op) && (op <=? 249)) || (op =? 251) || (op =? 252) || (op =? 254).

Definition spec_step (code : list N) (s : pstate) : presult :=
  let op := get_op code (p_pc s) in
  let st := p_stack s in
  let m := p_mem s in
  match comp_spec op with
  | Some (f, g) =>
    spec_apply s (cfun_arity f) 1%nat g 1 (fun _ => do st' <- cfun_apply f st; Some (st', m))
  | None =>
    if op =? 0 then PStop s                                                (* STOP *)
    else if op =? 10 then                                                  (* EXP *)
      match st with
      | a :: b :: r => spec_apply s 2%nat 1%nat (10 + 50 * byte_len b) 1 (fun _ => Some (spec_exp a b :: r, m))
      | _ => PExc
      end
    else if op =? 80 then                                                  (* POP *)
      spec_apply s 1%nat 0%nat 2 1 (fun _ => match st with _ :: r => Some (r, m) | _ => None end)
    else if op =? 81 then                                                  (* MLOAD *)
      match st with
      | off :: r =>
        let '(w', cost) := expand m off 32 in
        spec_apply s 1%nat 1%nat (3 + cost) 1
          (fun _ => let m' := mem_resize m (w' * 32) in
           Some (be_to_Z (firstn 32 (skipn (Z.to_nat off) m')) :: r, m'))
      | _ => PExc
      end
    else if op =? 82 then                                                  (* MSTORE *)
      match st with
      | off :: v :: r =>
        let '(w', cost) := expand m off 32 in
        spec_apply s 2%nat 0%nat (3 + cost) 1
          (fun _ => Some (r, mem_write (mem_resize m (w' * 32)) (Z.to_nat off) (be_bytes 32 v)))
      | _ => PExc
      end
    else if op =? 83 then                                                  (* MSTORE8 *)
      match st with
      | off :: v :: r =>
        let '(w', cost) := expand m off 1 in
        spec_apply s 2%nat 0%nat (3 + cost) 1
          (fun _ => Some (r, mem_write (mem_resize m (w' * 32)) (Z.to_nat off) [Z.to_N (v mod 256)]))
      | _ => PExc
      end
    else if op =? 84 then                                                  (* SLOAD *)
      spec_apply s 1%nat 1%nat 800 1
        (fun _ => match st with k :: r => Some (st_get (p_stor s) k :: r, m) | [] => None end)
    else if op =? 85 then                                                  (* SSTORE (EIP-2200 cost, no refunds) *)
      match st with
      | k :: v :: r =>
        let cost := sstore_gas 0 (st_get (p_stor s) k) v in
        if p_gas s <=? sstore_sentry then PExc
        else if p_gas s <? cost then PExc
        else PNext (mkP r m (p_pc s + 1) (p_gas s - cost) (st_set (p_stor s) k v))
      | _ => PExc
      end
    else if op =? 89 then                                                  (* MSIZE *)
      spec_apply s 0%nat 1%nat 2 1 (fun _ => Some (Z.of_N (mem_words m * 32) :: st, m))
    else if (96 <=? op) && (op <=? 127) then                               (* PUSHn *)
      let n := op - 95 in
      spec_apply s 0%nat 1%nat 3 (n + 1) (fun _ => Some (be_to_Z (push_bytes code (p_pc s) n) :: st, m))
    else if (128 <=? op) && (op <=? 143) then                              (* DUPn *)
      let n := N.to_nat (op - 127) in
      spec_apply s n (S n) 3 1 (fun _ => do x <- nth_error st (n - 1)%nat; Some (x :: st, m))
    else if (144 <=? op) && (op <=? 159) then                              (* SWAPn *)
      let n := N.to_nat (op - 143) in
      spec_apply s (S n) (S n) 3 1
        (fun _ => match st with
         | a :: r => do b <- nth_error r (n - 1)%nat;
                     Some (b :: firstn (n - 1)%nat r ++ a :: skipn n r, m)
         | [] => None
         end)
    else if spec_unassigned op
    then PExc                                                              (* unassigned *)
    else PUnsupported
  end.

(* ======================================================================= *)
(** * 5. Correspondence runner                                              *)
(* ======================================================================= *)

(* Observed lists are compared through a multiplicative digest modulo 2^124
   (parsing thousands of 256-bit literals would dominate the run; the harness
   computes the same digest on the implementation's observations and keeps the
   full lists in result.json for the replay file).  Only shifts, masks and
   multiplications: Z division is far too slow under vm_compute. *)
Definition dMask : Z := 21267647932558653966460912964485513215.   (* 2^124 - 1 *)
(* small multipliers written on the left: Pos.mul recurses on its first argument *)
Definition dstep (acc limb k : Z) : Z := Z.land (33 * acc + Z.land limb dMask + k) dMask.
Definition dmix (acc v : Z) : Z :=
  (if (0 <=? v) && (v <=? dMask)
   then Z.land (33 * acc + v + 1) dMask
   else (* four limbs of 124 bits: every bit below 2^496 takes part *)
     let v1 := Z.shiftr v 124 in
     let v2 := Z.shiftr v1 124 in
     let v3 := Z.shiftr v2 124 in
     dstep (dstep (dstep (dstep acc v 1) v1 2) v2 3) v3 4)%Z.
Definition dlist (acc : Z) (l : list Z) : Z :=
  fold_left dmix l (dmix acc (Z.of_nat (length l))).
(* bytes are digested 15 at a time (big-endian limbs of 120 bits) *)
Fixpoint dbytes_go (fuel : nat) (acc : Z) (l : list N) : Z :=
  match fuel, l with
  | O, _ | _, [] => acc
  | S k, _ => dbytes_go k (dmix acc (be_to_Z (firstn 15 l))) (skipn 15 l)
  end.
Definition dbytes (acc : Z) (l : list N) : Z :=
  dbytes_go (length l) (dmix acc (Z.of_nat (length l))) l.

Record case := mkCase {
  c_code : list N;          (* bytecode *)
  c_gas : N;                (* gas limit *)
  c_pool : list Z;          (* values of the cells seeded into the integer pool, bottom first *)
  (* observed on the implementation *)
  c_status : N;
  c_gas_left : N;
  c_run : Z;                (* digest of: top of stack before every executed step; on normal halt
                               also the stack (top first) and the memory before the halting step *)
  c_poolout : Z             (* digest of: values of the cells handed back to the pool (bottom
                               first); per cell the index of the first identical pointer *)
}.

Fixpoint index_of (l : list N) (x : N) (i : N) : N :=
  match l with
  | [] => i
  | y :: r => if N.eqb y x then i else index_of r x (i + 1)
  end.
Definition alias_ids (l : list loc) : list N := map (fun x => index_of l x 0) l.

Definition run_digest (ok : bool) (tops stack : list Z) (m : list N) (sr : store) : Z :=
  let d := dlist 7 tops in
  if ok then dlist (dlist (dbytes (dlist d stack) m) (map fst sr)) (map snd sr) else d.

(* the heap model (regenerated bodies + regenerated table) against the observation *)
Definition heap_ok (tbl : list opinfo) (bodies : list (N * (string * stmt))) (globals : list Z) (c : case) : bool :=
  let '(r, tops) := run tbl bodies (c_code c) (S (length (c_code c))) (init_state globals (c_pool c) (c_gas c)) [] in
  match r with
  | Next _ => false
  | Done st s =>
    let cf := i_cfg s in
    let pl := rev (pool cf) in
    N.eqb st (c_status c) && N.eqb (i_gas s) (c_gas_left c)
    && Z.eqb (dlist (dlist 11 (map (heap cf) pl)) (map Z.of_N (alias_ids pl))) (c_poolout c)
    && Z.eqb (run_digest (N.eqb st st_ok) tops (map (heap cf) (stack cf)) (mem cf) (stor cf)) (c_run c)
  end.

(* the specification machine against the observation *)
Definition ptop (s : pstate) : Z := match p_stack s with [] => (-1)%Z | v :: _ => v end.
Fixpoint spec_run (code : list N) (n : nat) (s : pstate) (tops : list Z) : presult * list Z :=
  match n with
  | O => (PNext s, rev tops)
  | S k =>
    match spec_step code s with
    | PNext s' => spec_run code k s' (ptop s :: tops)
    | PStop s' => (PStop s', rev (ptop s :: tops))
    | r => (r, rev tops)
    end
  end.
Definition spec_ok (c : case) : bool :=
  let '(r, tops) := spec_run (c_code c) (S (length (c_code c))) (mkP [] [] 0 (c_gas c) []) [] in
  match r with
  | PNext _ => false
  | PStop s =>
    N.eqb (c_status c) st_ok && N.eqb (p_gas s) (c_gas_left c)
    && Z.eqb (run_digest true tops (p_stack s) (p_mem s) (p_stor s)) (c_run c)
  | PExc =>
    negb (N.eqb (c_status c) st_ok) && N.eqb (c_gas_left c) 0
    && Z.eqb (run_digest false tops [] [] []) (c_run c)
  | PUnsupported => true
  end.

Definition case_ok (tbl : list opinfo) (bodies : list (N * (string * stmt))) (globals : list Z) (c : case) : bool :=
  heap_ok tbl bodies globals c && spec_ok c.

Fixpoint mismatches_from (tbl : list opinfo) (bodies : list (N * (string * stmt))) (globals : list Z)
         (i : N) (l : list case) : list N :=
  match l with
  | [] => []
  | c :: r =>
    if case_ok tbl bodies globals c then mismatches_from tbl bodies globals (i + 1) r
    else i :: mismatches_from tbl bodies globals (i + 1) r
  end.
Definition mismatches tbl bodies globals := mismatches_from tbl bodies globals 0.
