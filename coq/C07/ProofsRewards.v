(* C07 - rewards: block rewards, proposer/pool split, settlement, period-end
   distribution and the withdraw queue. *)
From VF.C07 Require Import Model ProofsLedger.
From Coq Require Import Lia ZifyBool.
Open Scope Z_scope.

(* ---- blockRewards ------------------------------------------------------------ *)

(* total = fees + residue + subsidy; fees leave the pot, the subsidy leaves the pool account *)
Lemma block_rewards_split : forall p s tot s1, 0 <= residue_of s ->
  block_rewards p s (residue_of s) = (tot, s1) ->
  exists g sb, 0 <= g /\ 0 <= sb /\ tot = g + residue_of s + sb /\
    supply s1 = supply s - g - sb /\ leaked s1 = leaked s /\ s_stat s1 = s_stat s /\ s_vals s1 = s_vals s
    /\ s_number s1 = s_number s
    /\ zget (s_bal s1) (p_pool p) = zget (s_bal s) (p_pool p) - sb
    /\ (forall a, a <> p_pool p -> zget (s_bal s1) a = zget (s_bal s) a).
Proof.
  intros p s tot s1 Hr H. unfold block_rewards in H.
  set (gas := s_pot s) in *. set (res := residue_of s) in *.
  match type of H with context [if 0 <? ?x then (_ + ?x, _) else _] => set (subs := x) in * end.
  exists (if 0 <? gas then gas else 0), (if 0 <? subs then subs else 0).
  destruct (0 <? gas) eqn:Eg, (0 <? res) eqn:Er, (0 <? subs) eqn:Es; inv H;
    unfold sub_balance; sproj; repeat split; try lia;
    try (unfold supply; sproj; rewrite ?zsum_zadd; subst gas; lia);
    try (rewrite zget_zadd_same; lia); try (intros; rewrite zget_zadd_other; auto).
Qed.

Lemma pools_set_k0_residue : forall t x, pools (set_k0 t (k_set_residue (st_k0 t) x)) = pools t - k_residue (st_k0 t) + x.
Proof. intros; unfold pools, set_k0, k_set_residue; cbn. lia. Qed.
Lemma pools_set_role_rewards : forall t r x,
  pools (set_role_stat t r (k_set_rewards (role_stat t r) x)) = pools t - k_rewards (role_stat t r) + x.
Proof. intros; unfold pools, set_role_stat, role_stat, k_set_rewards; destruct (r =? 1), (r =? 2); cbn; lia. Qed.
Lemma residue_set_role : forall t r k, k_residue (st_k0 (set_role_stat t r k)) = k_residue (st_k0 t).
Proof. intros; unfold set_role_stat; destruct (r =? 1), (r =? 2); reflexivity. Qed.

(* ---- rewardsToPool --------------------------------------------------------------- *)

Theorem rewards_to_pool_total : forall p s cb s', 0 <= residue_of s ->
  rewards_to_pool p s cb = Ok s' -> total s' = total s /\ 0 <= residue_of s'.
Proof.
  intros p s cb s' Hr H. unfold rewards_to_pool in H.
  change (k_residue (st_k0 (s_stat s))) with (residue_of s) in H.
  destruct (block_rewards p s (residue_of s)) as [tot s1] eqn:EB.
  destruct (block_rewards_split _ _ _ _ Hr EB) as (g & sb & Hg & Hsb & Htot & Hsup & Hleak & Hstat & Hvals & _).
  destruct (tot <=? 0) eqn:Et.
  - inv H. unfold total, residue_of. rewrite Hstat. split; [|exact Hr]. rewrite Hsup, Hleak.
    unfold residue_of in *. lia.
  - set (t := s_stat s1) in *.
    set (sum := role_ratio p t 1 + role_ratio p t 2 + role_ratio p t 3) in *.
    destruct (sum =? 0) eqn:Es; [discriminate|].
    destruct (get_val s1 cb) as [prop|] eqn:Egv; [|discriminate].
    apply get_val_stored in Egv. destruct Egv as [Hst _]. injection H as Hs'. subst s'.
    pose proof (Z.quot_rem' tot sum) as Hqr.
    set (per := Z.quot tot sum) in *. set (rem := Z.rem tot sum) in *.
    assert (Hrem : 0 <= rem) by (apply Z.rem_nonneg; lia).
    set (st2 := set_role_stat t 3 (k_set_rewards (role_stat t 3) (k_rewards (role_stat t 3) + per * role_ratio p t 3))).
    set (np := set_v_rewards (set_v_last_active prop (s_number s1)) _ _ _).
    split.
    + set (sa := set_stat s1 st2).
      set (sb2 := update_validator sa np prop).
      assert (T1 : total sa = total s1 + per * role_ratio p t 3).
      { unfold sa, total. rewrite supply_set_stat, leaked_set_stat. subst st2. rewrite pools_set_role_rewards. fold t. lia. }
      assert (T2 : total sb2 = total sa + (per * role_ratio p t 1 + per * role_ratio p t 2)).
      { unfold sb2. rewrite total_update_validator; [|exact Hst|reflexivity].
        unfold vmoney, np, set_v_rewards, set_v_last_active; cbn [v_token v_dist]. lia. }
      assert (R2 : residue_of sb2 = residue_of s).
      { unfold sb2. rewrite residue_update_validator. unfold sa, residue_of; sproj. subst st2. rewrite residue_set_role.
        subst t. rewrite Hstat. reflexivity. }
      change (total (set_stat sb2 (set_k0 (s_stat sb2) (k_set_residue (st_k0 (s_stat sb2)) rem))) = total s).
      unfold total at 1. rewrite supply_set_stat, pools_set_k0_residue, leaked_set_stat.
      fold (residue_of sb2). fold (total sb2) in *.
      assert (T0 : total s1 = total s - g - sb) by (unfold total; lia).
      replace (supply sb2 - pools (s_stat sb2) + (pools (s_stat sb2) - residue_of sb2 + rem) + leaked sb2)
        with (total sb2 - residue_of sb2 + rem) by (unfold total; lia).
      rewrite T2, T1, T0, R2. lia.
    + unfold residue_of; sproj. unfold set_k0, k_set_residue; cbn. exact Hrem.
Qed.

(* ---- settleValidatorRewards --------------------------------------------------------- *)

Lemma pay_delegators_total : forall l s per tot s2 tot3,
  pay_delegators s l per tot = Ok (s2, tot3) ->
  total s2 = total s + (tot - tot3) /\ residue_of s2 = residue_of s /\ s_vals s2 = s_vals s /\ s_number s2 = s_number s.
Proof.
  induction l as [|d r IH]; intros s per tot s2 tot3 H; cbn [pay_delegators] in H.
  - inv H. repeat split; lia.
  - destruct (tot - per * d_stake d <? 0); [discriminate|].
    apply IH in H. destruct H as (H1 & H2 & H3 & H4). rewrite H1, H2, H3, H4.
    unfold total. autorewrite with ledger. repeat split; lia.
Qed.

(* a settlement pays out exactly what leaves the validator's distributable amount *)
Theorem settle_rewards_same : forall p s val s', stored s val -> settle_rewards p s val = Ok s' -> same s s'.
Proof.
  intros p s val s' Hst H. unfold settle_rewards in H.
  destruct ((v_stake val =? 0) && (0 <? v_dist val)).
  { inv H. unfold same. rewrite total_update_validator, residue_update_validator; auto.
    unfold total, vmoney, set_v_rewards; autorewrite with ledger; cbn [v_token v_dist]. split; lia. }
  destruct ((v_stake val =? 0) || (v_dist val =? 0)); [inv H; apply same_refl|].
  match type of H with rbind (pay_delegators ?a ?b ?c ?d) _ = _ => destruct (pay_delegators a b c d) as [[s2 tot3]|] eqn:EP end; [|discriminate].
  cbn [rbind] in H.
  match type of H with context [negb (tot3 =? ?x)] => destruct (negb (tot3 =? x)) eqn:En end; [discriminate|]. inv H.
  apply pay_delegators_total in EP. destruct EP as (H1 & H2 & H3 & H4).
  assert (Hst2 : forall (b : bool) x, stored (if b then s2 else add_balance s2 (v_coinbase val) x) val).
  { intros [] x; unfold stored; sproj; rewrite ?H3; auto. cbn. rewrite H3. auto. }
  unfold same. rewrite total_update_validator, residue_update_validator; auto.
  assert (Ht : forall (b : bool) x, total (if b then s2 else add_balance s2 (v_coinbase val) x) = total s2 + (if b then 0 else x)
                        /\ residue_of (if b then s2 else add_balance s2 (v_coinbase val) x) = residue_of s2).
  { intros [] x; unfold total; autorewrite with ledger; split; lia. }
  match goal with |- context [total (if ?b then s2 else add_balance s2 _ ?x)] => destruct (Ht b x) as [-> ->] end.
  rewrite H1, H2. unfold total at 1. autorewrite with ledger.
  unfold vmoney, set_v_rewards; cbn [v_token v_dist].
  split; [|reflexivity].
  match goal with |- context [if 0 <? v_commission val then ?x else 0] => set (cm := if 0 <? v_commission val then x else 0) in * end.
  match goal with |- context [Z.rem ?a ?b] => set (rm := Z.rem a b) in * end.
  match goal with |- context [?a ÷ ?b * ?c] => set (qq := a ÷ b * c) in * end.
  assert (tot3 = rm) by lia. unfold total.
  destruct (v_online val); lia.
Qed.

Lemma settle_rewards_number : forall p s val s', settle_rewards p s val = Ok s' -> s_number s' = s_number s.
Proof.
  intros p s val s' H. unfold settle_rewards in H.
  assert (F : forall s0 n o, s_number (update_validator s0 n o) = s_number s0).
  { intros; unfold update_validator; destruct (stake_equal n o); reflexivity. }
  repeat (break_match; try discriminate); try (inv H; rewrite ?F; reflexivity);
  (match type of H with rbind (pay_delegators ?a ?b ?c ?d) _ = _ => destruct (pay_delegators a b c d) as [[s2 tot3]|] eqn:EP end; [|discriminate];
   cbn [rbind] in H; apply pay_delegators_total in EP; destruct EP as (_ & _ & _ & H4);
   repeat (break_match; try discriminate); inv H; rewrite F; unfold add_balance in *; sproj; rewrite ?H4; reflexivity).
Qed.

(* ---- distributeRewards ------------------------------------------------------------------ *)

Definition dtot (x : option rrec) (pool : Z) : Z := match x with Some (_, _, t) => t | None => pool end.

(* the ledger with the role pools replaced by what is still to be handed out *)
Definition phi (s : state) (d : drec) : Z :=
  total s
  - (k_rewards (st_r1 (s_stat s)) + k_rewards (st_r2 (s_stat s)) + k_rewards (st_r3 (s_stat s)))
  + dtot (dr1 d) (k_rewards (st_r1 (s_stat s))) + dtot (dr2 d) (k_rewards (st_r2 (s_stat s))) + dtot (dr3 d) (k_rewards (st_r3 (s_stat s))).

Definition role_money (s : state) : Z * Z * Z :=
  (k_rewards (st_r1 (s_stat s)), k_rewards (st_r2 (s_stat s)), k_rewards (st_r3 (s_stat s))).

Lemma money_role_money : forall s s', money (s_stat s') = money (s_stat s) -> role_money s' = role_money s.
Proof. unfold money, role_money; intros s s' H; inv H; congruence. Qed.

Lemma role_money_update_validator : forall s n o, role_money (update_validator s n o) = role_money s.
Proof. intros; apply money_role_money, update_validator_money. Qed.

Lemma pay_delegators_stat : forall l s per tot s2 tot3, pay_delegators s l per tot = Ok (s2, tot3) -> s_stat s2 = s_stat s.
Proof.
  induction l as [|d r IH]; intros s per tot s2 tot3 H; cbn [pay_delegators] in H.
  - inv H. reflexivity.
  - destruct (tot - per * d_stake d <? 0); [discriminate|]. apply IH in H. rewrite H. reflexivity.
Qed.

Lemma settle_rewards_role_money : forall p s val s', settle_rewards p s val = Ok s' -> role_money s' = role_money s.
Proof.
  intros p s val s' H. unfold settle_rewards in H.
  repeat (break_match; try discriminate); try (inv H; rewrite ?role_money_update_validator; reflexivity);
  (match type of H with rbind (pay_delegators ?a ?b ?c ?d) _ = _ => destruct (pay_delegators a b c d) as [[s2 tot3]|] eqn:EP end; [|discriminate];
   cbn [rbind] in H; apply pay_delegators_stat in EP;
   repeat (break_match; try discriminate); inv H; rewrite role_money_update_validator; unfold role_money, add_balance; sproj; rewrite ?EP; reflexivity).
Qed.

Lemma phi_role_money : forall s s' d, role_money s' = role_money s -> phi s' d - total s' = phi s d - total s.
Proof. unfold phi, role_money; intros s s' d H; inv H. rewrite H1, H2, H3. lia. Qed.

Lemma phi_drec_set : forall s d r per res t t', drec_get d r = Some (per, res, t) ->
  phi s (drec_set d r (Some (per, res, t'))) = phi s d - t + t'.
Proof.
  intros s d r per res t t' H. unfold phi, drec_get, drec_set in *.
  destruct (r =? 1); [cbn; rewrite H; cbn; lia|]. destruct (r =? 2); cbn; rewrite H; cbn; lia.
Qed.

Lemma distribute_one_phi : forall p s d st a s' d' st', distribute_one p (s, d, st) a = Ok (s', d', st') ->
  phi s' d' = phi s d /\ residue_of s' = residue_of s /\ s_number s' = s_number s.
Proof.
  intros p s d st a s' d' st' H. unfold distribute_one in H.
  destruct (get_val s a) as [val|] eqn:Eg; [|inv H; auto].
  apply get_val_stored in Eg. destruct Eg as [Hst _].
  destruct (negb (v_online val)).
  - destruct (settle_rewards p s val) as [s1|] eqn:ES; cbn [rbind] in H; [|discriminate]. inv H.
    pose proof (settle_rewards_role_money _ _ _ _ ES) as Hm. pose proof (settle_rewards_number _ _ _ _ ES) as Hn.
    apply settle_rewards_same in ES; auto. destruct ES as [Ht Hr].
    pose proof (phi_role_money _ _ d' Hm). repeat split; auto; lia.
  - destruct (drec_get d (v_role val)) as [[[per res] t]|] eqn:ED; [|discriminate].
    set (rew := if v_role val =? 3 then per else per * v_stake val) in *.
    destruct (t - rew <? 0); [discriminate|].
    set (nv := set_v_rewards val (v_dist val + rew) (v_total val + rew) (v_last_settled val)) in *.
    assert (Hu : total (update_validator s nv val) = total s + rew).
    { rewrite total_update_validator; auto. unfold vmoney, nv, set_v_rewards; cbn [v_token v_dist]. lia. }
    assert (Hphi : phi (update_validator s nv val) (drec_set d (v_role val) (Some (per, res, t - rew))) = phi s d).
    { rewrite (phi_drec_set _ _ _ _ _ _ _ ED).
      pose proof (phi_role_money _ _ d (role_money_update_validator s nv val)). lia. }
    assert (Hnum : s_number (update_validator s nv val) = s_number s).
    { unfold update_validator; destruct (stake_equal nv val); reflexivity. }
    destruct ((v_last_settled val <? s_number s) && (v_last_settled val + p_max_rewards_period p * p_freq p <=? s_number s)).
    + destruct (settle_rewards p (update_validator s nv val) nv) as [s2|] eqn:ES; cbn [rbind] in H; [|discriminate]. inv H.
      pose proof (settle_rewards_role_money _ _ _ _ ES) as Hm. pose proof (settle_rewards_number _ _ _ _ ES) as Hn.
      apply settle_rewards_same in ES; [|apply stored_update_validator]. destruct ES as [Ht Hr].
      pose proof (phi_role_money _ _ (drec_set d (v_role val) (Some (per, res, t - rew))) Hm).
      rewrite Hr, residue_update_validator. repeat split; auto; lia.
    + inv H. rewrite residue_update_validator. repeat split; auto.
Qed.

Lemma distribute_loop_phi : forall p l s d st s' d' st', distribute_loop p l (s, d, st) = Ok (s', d', st') ->
  phi s' d' = phi s d /\ residue_of s' = residue_of s /\ s_number s' = s_number s.
Proof.
  induction l as [|a r IH]; intros s d st s' d' st' H; cbn [distribute_loop] in H.
  - inv H. auto.
  - destruct (distribute_one p (s, d, st) a) as [[[s1 d1] st1]|] eqn:E; cbn [rbind] in H; [|discriminate].
    apply distribute_one_phi in E. apply IH in H. destruct E as (? & ? & ?), H as (? & ? & ?). repeat split; congruence.
Qed.

Lemma close_role_phi : forall s d r s', (r = 1 \/ r = 2 \/ r = 3) -> close_role s d r = Ok s' ->
  phi s' (drec_set d r None) = phi s d /\ residue_of s' = residue_of s /\ s_number s' = s_number s.
Proof.
  intros s d r s' Hr H. unfold close_role in H.
  destruct (drec_get d r) as [[[per res] t]|] eqn:ED.
  - destruct (negb (t =? res)) eqn:En; [discriminate|]. inv H.
    assert (t = res) by lia. subst t.
    unfold phi, total, residue_of. rewrite supply_set_stat, pools_set_role_rewards, leaked_set_stat. sproj.
    rewrite residue_set_role.
    unfold drec_get, drec_set, role_stat, set_role_stat, k_set_rewards in *.
    destruct Hr as [->|[->| ->]]; cbn in *; rewrite ED; cbn; repeat split; lia.
  - inv H. unfold phi, drec_get, drec_set in *. destruct Hr as [->|[->| ->]]; cbn in *; rewrite ED; cbn; auto.
Qed.

Lemma mk_rrec_dtot : forall s r x, mk_rrec s r = Ok x -> dtot x (k_rewards (role_stat (s_stat s) r)) = k_rewards (role_stat (s_stat s) r).
Proof. intros s r x H; unfold mk_rrec in H. repeat (break_match; try discriminate); inv H; reflexivity. Qed.

Theorem distribute_rewards_same : forall p s s' st, distribute_rewards p s = Ok (Some (s', st)) ->
  same s s' /\ s_number s' = s_number s.
Proof.
  intros p s s' st H. unfold distribute_rewards in H.
  destruct (k_on_stake (st_k0 (s_stat s)) <=? 0); [discriminate|].
  destruct (mk_rrec s 1) as [r1|] eqn:E1; cbn [rbind] in H; [|discriminate].
  destruct (mk_rrec s 2) as [r2|] eqn:E2; cbn [rbind] in H; [|discriminate].
  destruct (mk_rrec s 3) as [r3|] eqn:E3; cbn [rbind] in H; [|discriminate].
  destruct (distribute_loop p (val_keys (s_vals s)) (s, mkDrec r1 r2 r3, [])) as [[[s1 d] st1]|] eqn:EL; cbn [rbind] in H; [|discriminate].
  destruct (close_role s1 d 1) as [s2|] eqn:C1; cbn [rbind] in H; [|discriminate].
  destruct (close_role s2 d 2) as [s3|] eqn:C2; cbn [rbind] in H; [|discriminate].
  destruct (close_role s3 d 3) as [s4|] eqn:C3; cbn [rbind] in H; [|discriminate].
  inv H.
  apply mk_rrec_dtot in E1. apply mk_rrec_dtot in E2. apply mk_rrec_dtot in E3.
  apply distribute_loop_phi in EL. destruct EL as (L1 & L2 & L3).
  (* closing a role only reads its own entry, so the three closes can use the same record *)
  assert (P0 : phi s (mkDrec r1 r2 r3) = total s).
  { unfold phi; cbn [dr1 dr2 dr3]. unfold role_stat in E1, E2, E3; cbn in E1, E2, E3. lia. }
  assert (Hc : forall sa sb r, (r = 1 \/ r = 2 \/ r = 3) -> close_role sa d r = Ok sb ->
               forall d0, drec_get d0 r = drec_get d r -> phi sb (drec_set d0 r None) = phi sa d0 /\ residue_of sb = residue_of sa /\ s_number sb = s_number sa).
  { intros sa sb r Hr Hcl d0 Hd0. unfold close_role in Hcl. rewrite <- Hd0 in Hcl.
    change (match drec_get d0 r with Some (per, residue, total) => if negb (total =? residue) then Crash else Ok (set_stat sa (set_role_stat (s_stat sa) r (k_set_rewards (role_stat (s_stat sa) r) residue))) | None => Ok sa end = Ok sb)
      with (close_role sa d0 r = Ok sb) in Hcl.
    apply close_role_phi; auto. }
  destruct (Hc _ _ 1 (or_introl eq_refl) C1 d eq_refl) as (A1 & A2 & A3).
  destruct (Hc _ _ 2 (or_intror (or_introl eq_refl)) C2 (drec_set d 1 None) eq_refl) as (B1 & B2 & B3).
  destruct (Hc _ _ 3 (or_intror (or_intror eq_refl)) C3 (drec_set (drec_set d 1 None) 2 None) eq_refl) as (D1 & D2 & D3).
  assert (Pend : phi s' (drec_set (drec_set (drec_set d 1 None) 2 None) 3 None) = total s').
  { unfold phi, drec_set; cbn. lia. }
  unfold same. repeat split; congruence.
Qed.

(* ---- processWithdrawQueue --------------------------------------------------------------------- *)

Definition unf_w (w : wrec) : Z := if w_finished w =? 0 then w_final w else 0.

Lemma withdraw_step_total : forall s w s1 w1, withdraw_step s w = (s1, w1) ->
  total s1 + unf_w w1 = total s + unf_w w /\ residue_of s1 = residue_of s /\ s_queue s1 = s_queue s /\ s_number s1 = s_number s
  /\ s_vals s1 = s_vals s /\ s_recs s1 = s_recs s.
Proof.
  intros s w s1 w1 H. unfold withdraw_step in H.
  destruct (w_final w <=? 0) eqn:E1; [|destruct ((w_completion w <? s_number s) && (w_finished w =? 0)) eqn:E2]; inv H;
    unfold total, unf_w, set_w_finished; cbn [w_finished w_final]; autorewrite with ledger; cbn [Z.eqb];
    repeat split; try reflexivity; destruct (w_finished w =? 0) eqn:E3; lia.
Qed.

Lemma withdraw_loop_total : forall p q s s1 q', withdraw_loop p s q = (s1, q') ->
  total s1 + unfinished q' = total s + unfinished q /\ residue_of s1 = residue_of s /\ s_queue s1 = s_queue s /\ s_number s1 = s_number s
  /\ s_vals s1 = s_vals s /\ s_recs s1 = s_recs s.
Proof.
  induction q as [|w r IH]; intros s s1 q' H; cbn [withdraw_loop] in H.
  - inv H. repeat split; lia.
  - destruct (withdraw_step s w) as [sa w1] eqn:ES.
    destruct (withdraw_loop p sa r) as [sb r'] eqn:EL.
    apply withdraw_step_total in ES. apply IH in EL.
    destruct ES as (S1 & S2 & S3 & S4 & S5 & S6), EL as (L1 & L2 & L3 & L4 & L5 & L6).
    assert (Hd : withdraw_discard p (s_number s) w1 = true -> unf_w w1 = 0).
    { unfold withdraw_discard, unf_w. intros Hd. destruct (w_finished w1 =? 0) eqn:E; lia. }
    rewrite unfinished_cons. fold (unf_w w).
    destruct (withdraw_discard p (s_number s) w1) eqn:ED; inv H;
      rewrite ?unfinished_cons; fold (unf_w w1); try rewrite (Hd eq_refl) in *;
      repeat split; try congruence; lia.
Qed.

Theorem process_withdraw_queue_same : forall p s, same s (process_withdraw_queue p s) /\
  s_number (process_withdraw_queue p s) = s_number s /\ s_recs (process_withdraw_queue p s) = s_recs s.
Proof.
  intros p s. unfold process_withdraw_queue.
  destruct (withdraw_loop p s (s_queue s)) as [s1 q'] eqn:E.
  apply withdraw_loop_total in E. destruct E as (E1 & E2 & E3 & E4 & E5 & E6).
  unfold same, total in *. rewrite supply_set_queue. autorewrite with ledger. rewrite E3. sproj. repeat split; auto; lia.
Qed.

(* a withdrawal is paid exactly once: only an unfinished record pays, paying
   finishes it, and a finished record stays finished and is left alone *)
Theorem withdraw_step_once : forall s w s1 w1, withdraw_step s w = (s1, w1) ->
  (w_finished w = 1 -> w_finished w1 = 1 /\ s_bal s1 = s_bal s) /\
  (s_bal s1 <> s_bal s -> w_finished w = 0 /\ w_finished w1 = 1 /\ s_bal s1 = zadd (s_bal s) (w_recipient w) (w_final w)) /\
  w_final w1 = w_final w.
Proof.
  intros s w s1 w1 H. unfold withdraw_step in H.
  destruct (w_final w <=? 0) eqn:E1; [|destruct ((w_completion w <? s_number s) && (w_finished w =? 0)) eqn:E2]; inv H;
    unfold set_w_finished, add_negwd, add_balance; sproj; cbn [w_finished w_final];
    repeat split; auto; try congruence; try lia; intros Hf; try congruence; lia.
Qed.
