(* C07 - penalties: what is taken from withdraw records, the validator's own
   deposit and the delegations is exactly what arrives at PenaltyTo. *)
From VF.C07 Require Import Model ProofsLedger.
From Coq Require Import Lia ZifyBool.
Open Scope Z_scope.


Lemma penalty_from_queue_sum : forall q va rem sp dp tot q' rem' sp' dp' tot',
  penalty_from_queue q va rem sp dp tot = (q', rem', sp', dp', tot') ->
  unfinished q' + tot' = unfinished q + tot.
Proof.
  induction q as [|w r IH]; intros va rem sp dp tot q' rem' sp' dp' tot' H; cbn [penalty_from_queue] in H.
  - inv H. lia.
  - repeat (break_match; try discriminate); inv H;
      repeat match goal with Hr : penalty_from_queue _ _ _ _ _ _ = _ |- _ => apply IH in Hr end;
      rewrite ?unfinished_cons; unfold set_w_final; cbn [w_finished w_final]; try lia;
      destruct (w_finished w =? 0) eqn:Ef; lia.
Qed.

Lemma penalty_from_dlgs_sum : forall p l dp rem tot tt st l' upd rem' tot' tt' st',
  penalty_from_dlgs p l dp rem tot tt st = (l', upd, rem', tot', tt', st') -> tot' - tot = tt' - tt.
Proof.
  induction l as [|d r IH]; intros dp rem tot tt st l' upd rem' tot' tt' st' H; cbn [penalty_from_dlgs] in H.
  - inv H. lia.
  - repeat (break_match; try discriminate); inv H;
      repeat match goal with Hr : penalty_from_dlgs _ _ _ _ _ _ _ = _ |- _ => apply IH in Hr end; lia.
Qed.

(* takePenalty: address and rewards of the validator are kept; tokens + unfinished withdrawals fall by the total *)
Lemma take_penalty_sum : forall p s val amount nv tot q',
  take_penalty p s val amount = Ok (nv, tot, q') ->
  v_addr nv = v_addr val /\ v_dist nv = v_dist val /\
  v_token nv + unfinished q' + tot = v_token val + unfinished (s_queue s).
Proof.
  intros p s val amount nv tot q' H. unfold take_penalty in H.
  destruct (v_stake val =? 0); [discriminate|].
  destruct (penalty_from_queue (s_queue s) (v_addr val) amount _ _ 0) as [[[[q1 rem1] sp1] dp1] tot1] eqn:EQ.
  apply penalty_from_queue_sum in EQ.
  destruct (0 <? rem1).
  - destruct (penalty_from_dlgs p (v_dlgs val) dp1 _ _ 0 0) as [[[[[dl upd] rem2] tot2] tt] stt] eqn:ED.
    apply penalty_from_dlgs_sum in ED. inv H.
    unfold set_v_dlgs, set_v_money; cbn [v_addr v_dist v_token].
    repeat split. destruct ((0 <? sp1) && (0 <? _)); lia.
  - inv H. repeat split. lia.
Qed.

Theorem do_penalize_same : forall p s typ val amount s', stored s val ->
  do_penalize p s typ val amount = Ok s' -> same s s'.
Proof.
  intros p s typ val amount s' Hst H. unfold do_penalize in H.
  destruct (if 0 <? amount then take_penalty p s val amount else Ok (val, amount, s_queue s)) as [[[nv tot] q']|] eqn:E; [|discriminate].
  cbn [rbind] in H. inv H.
  assert (Hs : v_addr nv = v_addr val /\ v_dist nv = v_dist val /\
               v_token nv + unfinished q' + tot = v_token val + unfinished (s_queue s) + (if 0 <? amount then 0 else amount)).
  { destruct (0 <? amount) eqn:Ea.
    - rewrite Z.add_0_r. eapply take_penalty_sum; eauto.
    - inv E. repeat split. }
  destruct Hs as (Ha & Hd & Hsum).
  unfold same, total. autorewrite with ledger.
  rewrite supply_update_validator. sproj.
  unfold set_v_expel, set_v_status; cbn [v_addr]. rewrite Ha.
  change (vget (s_vals (set_queue s q')) (v_addr val)) with (vget (s_vals s) (v_addr val)).
  rewrite Hst. cbn [opt_f]. rewrite supply_set_queue. unfold vmoney; cbn [v_token v_dist]. split; lia.
Qed.

(* the penalty arrives at PenaltyTo, and only there *)
Theorem penalty_arrives : forall p s typ val amount s',
  do_penalize p s typ val amount = Ok s' ->
  exists tot, zsum (s_bal s') = zsum (s_bal s) + tot /\ zget (s_bal s') (p_penalty_to p) = zget (s_bal s) (p_penalty_to p) + tot
              /\ forall a, a <> p_penalty_to p -> zget (s_bal s') a = zget (s_bal s) a.
Proof.
  intros p s typ val amount s' H. unfold do_penalize in H.
  destruct (if 0 <? amount then take_penalty p s val amount else Ok (val, amount, s_queue s)) as [[[nv tot] q']|] eqn:E; [|discriminate].
  cbn [rbind] in H. inv H. exists tot.
  assert (F : forall s0 n o, s_bal (update_validator s0 n o) = s_bal s0).
  { intros; unfold update_validator; destruct (stake_equal n o); reflexivity. }
  unfold add_negwd, add_balance; sproj. rewrite F. sproj.
  rewrite zsum_zadd, zget_zadd_same. repeat split; auto. intros a Ha. apply zget_zadd_other; auto.
Qed.

Lemma process_evidences_same : forall p evs s seen s', process_evidences p s evs seen = Ok s' -> same s s'.
Proof.
  induction evs as [|[[round signer] differ] r IH]; intros s seen s' H; cbn [process_evidences] in H.
  - inv H. apply same_refl.
  - repeat (break_match; try discriminate); eauto.
    + destruct (do_penalize p s PDoubleSign v _) eqn:E; cbn [rbind] in H; [|discriminate].
      apply get_val_stored in Heqo. destruct Heqo as [Hst _].
      eapply same_trans; [eapply do_penalize_same; eauto|eauto].
Qed.

Lemma slash_or_recover_same : forall p s a s', slash_or_recover p s a = Ok s' -> same s s'.
Proof.
  intros p s a s' H. unfold slash_or_recover in H.
  destruct (get_val s a) eqn:Eg; [|inv H; apply same_refl].
  apply get_val_stored in Eg. destruct Eg as [Hst _].
  repeat (break_match; try discriminate); try (inv H; apply same_refl);
    try (eapply do_penalize_same; eauto; fail).
  inv H. unfold same. rewrite total_update_validator, residue_update_validator; auto.
  unfold vmoney, set_v_expel; cbn [v_token v_dist]. split; lia.
Qed.

Lemma fold_res_same : forall A (f : state -> A -> res state) l s s',
  (forall s a s', f s a = Ok s' -> same s s') -> fold_res f l s = Ok s' -> same s s'.
Proof.
  induction l as [|a r IH]; intros s s' Hf H; cbn [fold_res] in H.
  - inv H. apply same_refl.
  - destruct (f s a) eqn:E; cbn [rbind] in H; [|discriminate].
    eapply same_trans; [eapply Hf; eauto|eapply IH; eauto].
Qed.
