(* C07 - transactions: fees, transfers, contract-call oracle, pending handlers. *)
From VF.C07 Require Import Model ProofsLedger.
From Coq Require Import Lia ZifyBool.
Open Scope Z_scope.

Ltac solve_same :=
  unfold same, total; autorewrite with ledger; cbn [tx_detained detained pt_act]; split; lia.

Lemma check_total_pending_same : forall p s v d s', check_total_pending p s v d = Some s' -> same s s'.
Proof.
  unfold check_total_pending; intros p s v d s' H.
  repeat (break_match; try discriminate); inv H; solve_same.
Qed.

(* the pending handlers move the value of a create / deposit / delegation-add
   out of the sender's balance into a pending record and nothing else *)
Lemma handle_same : forall p s pt s', handle p s pt = Some s' -> same s s'.
Proof.
  intros p s pt s' H. unfold handle in H.
  destruct (negb (precheck p (pt_act pt))); [discriminate|].
  destruct pt as [id from act]; cbn [pt_act pt_from] in H.
  destruct act; try discriminate;
    repeat (break_match; try discriminate); inv H;
    try match goal with Hc : check_total_pending _ _ _ _ = Some _ |- _ => apply check_total_pending_same in Hc; destruct Hc as [Ht Hr]; unfold total in Ht end;
    unfold same, total; autorewrite with ledger; cbn [tx_detained detained pt_act]; split; try lia; try congruence.
Qed.

Lemma bump_nonce_same : forall s a, same s (bump_nonce s a).
Proof. intros; unfold bump_nonce; solve_same. Qed.

Definition effects_sum (l : list (Z * Z)) : Z := fold_right (fun e a => snd e + a) 0 l.

Lemma apply_effects_total : forall l s, total (apply_effects s l) = total s + effects_sum l /\ residue_of (apply_effects s l) = residue_of s.
Proof.
  induction l as [|[a d] r IH]; intros s.
  - cbn. split; [lia|reflexivity].
  - change (effects_sum ((a, d) :: r)) with (d + effects_sum r). cbn [apply_effects].
    destruct (IH (add_balance s a d)) as [H1 H2]. rewrite H1, H2. unfold total. autorewrite with ledger. split; [lia|reflexivity].
Qed.

(* a contract-execution oracle is admissible when it only moves value *)
Definition tx_ok (t : tx) : Prop :=
  match t_body t with TxCall _ _ _ _ effects => effects_sum effects = 0 | _ => True end.

Lemma settle_gas_total : forall s t used refund,
  total (settle_gas s t used refund) = total s + t_gas t * t_price t /\ residue_of (settle_gas s t used refund) = residue_of s.
Proof.
  intros. unfold settle_gas, total. autorewrite with ledger. unfold add_balance; sproj. split; [lia|reflexivity].
Qed.

(* what is taken for gas comes back as refund, fee pot or (finding class) minted refund *)
Theorem apply_tx_same : forall p s t s', tx_ok t -> apply_tx p s t = Some s' -> same s s'.
Proof.
  intros p s t s' Hok H. unfold apply_tx in H.
  repeat (break_match; try discriminate); inv H; unfold same;
    repeat match goal with
    | |- context [settle_gas ?a ?b ?c ?d] => destruct (settle_gas_total a b c d) as [-> ->]
    | |- context [apply_effects ?a ?b] => destruct (apply_effects_total b a) as [-> ->]
    | Hh : handle _ _ _ = Some _ |- _ => apply handle_same in Hh; destruct Hh as [-> ->]
    end;
    try (unfold tx_ok in Hok; match goal with Hb : t_body _ = _ |- _ => rewrite Hb in Hok end; rewrite Hok);
    unfold bump_nonce, total; autorewrite with ledger; split; lia.
Qed.

Lemma apply_txs_same : forall p l s, Forall tx_ok l -> same s (apply_txs p s l).
Proof.
  induction l as [|t r IH]; intros s Hok; cbn [apply_txs]; [apply same_refl|].
  inv Hok. destruct (apply_tx p s t) eqn:E; [|auto].
  eapply same_trans; [eapply apply_tx_same; eauto|auto].
Qed.

(* what a transaction cannot touch *)
Definition frame_tx (s s' : state) : Prop :=
  s_vals s' = s_vals s /\ s_stat s' = s_stat s /\ s_queue s' = s_queue s
  /\ g_dust s' = g_dust s /\ g_dropped s' = g_dropped s /\ g_dupcreate s' = g_dupcreate s /\ g_negwd s' = g_negwd s
  /\ s_number s' = s_number s /\ s_recs_old s' = s_recs_old s.

Lemma frame_tx_refl : forall s, frame_tx s s. Proof. intros; repeat split. Qed.
Lemma frame_tx_trans : forall a b c, frame_tx a b -> frame_tx b c -> frame_tx a c.
Proof. unfold frame_tx; intros a b c H1 H2; intuition congruence. Qed.

Lemma frame_apply_effects : forall l s, frame_tx s (apply_effects s l).
Proof.
  induction l as [|[a d] r IH]; intros s; cbn [apply_effects]; [apply frame_tx_refl|].
  eapply frame_tx_trans; [|apply IH]. repeat split.
Qed.

Lemma frame_handle : forall p s pt s', handle p s pt = Some s' -> frame_tx s s'.
Proof.
  intros p s pt s' H. unfold handle, check_total_pending in H.
  destruct (negb (precheck p (pt_act pt))); [discriminate|].
  destruct pt as [id from act]; cbn [pt_act pt_from] in H.
  destruct act; try discriminate; repeat (break_match; try discriminate); inv H;
    repeat match goal with Hx : Some _ = Some _ |- _ => inv Hx end; repeat split.
Qed.

Lemma frame_settle_gas : forall s t u r, frame_tx s (settle_gas s t u r).
Proof. intros; repeat split. Qed.

Lemma frame_apply_tx : forall p s t s', apply_tx p s t = Some s' -> frame_tx s s'.
Proof.
  intros p s t s' H. unfold apply_tx in H.
  repeat (break_match; try discriminate); inv H;
    (eapply frame_tx_trans; [|apply frame_settle_gas]);
    try (eapply frame_tx_trans; [|apply frame_apply_effects]);
    try (eapply frame_tx_trans; [|eapply frame_handle; eassumption]);
    repeat split.
Qed.

(* fees paid = rewards credited: the sum of all balances falls by exactly what
   enters the fee pot, the pending records and (finding class) comes back as refund *)
Theorem tx_fee_flow : forall p s t s', tx_ok t -> apply_tx p s t = Some s' ->
  zsum (s_bal s') + pending (s_recs s') + s_pot s' - g_minted s'
  = zsum (s_bal s) + pending (s_recs s) + s_pot s - g_minted s.
Proof.
  intros p s t s' Hok H. destruct (apply_tx_same _ _ _ _ Hok H) as [Ht _].
  destruct (frame_apply_tx _ _ _ _ H) as (F1 & F2 & F3 & F4 & F5 & F6 & F7 & _).
  unfold total, supply, leaked in Ht. rewrite F1, F2, F3, F4, F5, F6, F7 in Ht. lia.
Qed.
