(* C07 - executable model of the value-moving code of go-youchain at protocol
   version 5, mirroring function by function:
     core/message_context.go (buyGas, refundGas), core/state_processor.go
     (ApplyTransaction, ApplyMessageEntry), core/state_transition.go,
     staking/tx_converter.go, staking/handler.go, staking/delegation_handler.go,
     staking/take_effect_handler.go, staking/endblock.go, staking/slash.go
     (doPenalize, takePenalty), staking/slash_youv5.go, and the validator
     deletion of StateDB.IntermediateRoot.
   No proofs in this file.  Crash = Go panic / logging.Crit. *)
From VF.C07 Require Export Ledger.
Open Scope Z_scope.

(* ======================= transactions ======================================= *)

Inductive txbody :=
| TxTransfer (to value : Z)
  (* contract execution enters as an oracle: gas used, refund-counter gas, balance deltas *)
| TxCall (to value used refund : Z) (effects : list (Z * Z))
| TxStake (a : action).

Record tx := mkTx {
  t_id : Z; t_from : Z; t_nonce : Z; t_gas : Z; t_price : Z;
  t_igas : Z;            (* intrinsic gas of the encoded transaction (TxConverter.IntrinsicGas) *)
  t_body : txbody
}.

Definition max_u16 : Z := 65535.
Definition max_u8 : Z := 255.

(* ---- PreCheck of the staking messages (staking/types.go) ---- *)
Definition check_role (r : Z) : bool := (r =? 1) || (r =? 2) || (r =? 3).
Definition precheck (p : params) (a : action) : bool :=
  match a with
  | ACreate c =>
    negb (c_operator c =? 0) && negb (c_coinbase c =? 0) && check_role (c_role c) && (0 <? c_value c)
    && (c_accept c <=? 1) && (c_commission c <=? p_rate_base p) && (c_risk c <=? p_rate_base p)
  | AUpdate u =>
    negb (negb (u_accept u =? max_u16) && (1 <? u_accept u))
    && negb (negb (u_commission u =? max_u16) && (p_rate_base p <? u_commission u))
    && negb (negb (u_risk u =? max_u16) && (p_rate_base p <? u_risk u))
  | ADeposit _ value => 0 <? value
  | AWithdraw _ recipient value => negb (recipient =? 0) && (0 <? value)
  | AStatus _ status => (status =? 0) || (status =? 1)
  | ASettle _ => true
  | ADlgAdd val value => negb (val =? 0) && (0 <? value)
  | ADlgSub val value => negb (val =? 0) && (0 <? value)
  | ADlgSettle val => negb (val =? 0)
  | ABad => false
  end.

(* validatorTxBasicCheck (handler.go:316): the validator must exist and the sender be its operator *)
Definition basic_check (s : state) (from main : Z) : option validator :=
  match get_val s main with
  | None => None
  | Some v => if (from =? v_operator v) && negb (from =? 0) then Some v else None
  end.

Definition over_max (p : params) (role stake : Z) : bool :=
  let th := by_role (p_max_stakes p) role in (0 <? th) && (th <? stake).

(* checkAndUpdateTotalPendingStakesOfValidator (delegation_handler.go:167) *)
Definition check_total_pending (p : params) (s : state) (val : validator) (delta : Z) : option state :=
  let t0 := rec_value (s_recs s) 0 (v_addr val) in
  let t := (if t0 =? 0 then v_token val else t0) + delta in
  let t1 := if t <? 0 then 0 else t in       (* never store a negative total (fix b5e8f5d) *)
  if (0 <? delta) && over_max p (v_role val) (to_stake p t1) then None
  else Some (add_record s 0 (v_addr val) None (Some t1)).

(* the pending handlers: None = the handler returns an error (the message fails, all gas is used) *)
Definition handle (p : params) (s : state) (pt : ptx) : option state :=
  let from := pt_from pt in
  if negb (precheck p (pt_act pt)) then None else
  match pt_act pt with
  | ACreate c =>                                                      (* handleCreate *)
    if negb (from =? c_operator c) then None else
    let stake := to_stake p (c_value c) in
    if stake <? by_role (p_min_self p) (c_role c) then None else
    if over_max p (c_role c) stake then None else
    if c_main c =? 0 then None else
    match get_val s (c_main c) with Some _ => None | None =>
    match rec_get (s_recs s) 0 (c_main c) with Some _ => None | None =>
    if balance s from <? c_value c then None else
    Some (add_record (sub_balance s from (c_value c)) 0 (c_main c) (Some pt) (Some (c_value c)))
    end end
  | AUpdate u =>                                                      (* handleUpdate *)
    match basic_check s from (u_main u) with None => None | Some v =>
    let updated :=
      (negb (u_operator u =? 0) && negb (u_operator u =? v_operator v))
      || (negb (u_coinbase u =? 0) && negb (u_coinbase u =? v_coinbase v))
      || (negb (u_name u =? 0) && negb (u_name u =? v_name v))
      || (negb (u_accept u =? max_u8) && negb (u_accept u =? v_accept v))
      || (negb (u_commission u =? max_u16) && negb (u_commission u =? v_commission v))
      || (negb (u_risk u =? max_u16) && negb (u_risk u =? v_risk v)) in
    if updated then Some (add_record s 0 (u_main u) (Some pt) None) else None
    end
  | ADeposit main value =>                                            (* handleDeposit *)
    match basic_check s from main with None => None | Some v =>
    if balance s from <? value then None else
    let c0 := rec_value (s_recs s) 0 main in
    let final := (if c0 =? 0 then v_token v else c0) + value in
    if over_max p (v_role v) (to_stake p final) then None else
    Some (add_record (sub_balance s from value) 0 main (Some pt) (Some final))
    end
  | AWithdraw main recipient value =>                                 (* handleWithdraw *)
    match basic_check s from main with None => None | Some v =>
    let c0 := rec_value (s_recs s) 0 main in
    let curr := if c0 =? 0 then v_self_token v else c0 in
    if curr <? value then None else
    Some (add_record s 0 main (Some pt) (Some (curr - value)))
    end
  | ASettle main =>                                                   (* handleSettle *)
    match basic_check s from main with None => None | Some v =>
    if v_online v then Some (add_record s 0 main (Some pt) None) else None
    end
  | AStatus main status =>                                            (* handleChangeStatus *)
    match basic_check s from main with None => None | Some v =>
    match rec_get (s_recs s) 0 main with Some _ => None | None =>
    let effects_on := (s_number s / p_freq p + 1) * p_freq p - 1 in
    if v_expelled v && (effects_on <? v_expel_expired v) then None else
    if v_status v =? status then None else
    if (status =? 1) && (v_stake v <? by_role (p_min_stakes p) (v_role v)) then None else
    Some (add_record s 0 main (Some pt) None)
    end end
  | ADlgAdd val value =>                                              (* handleDelegationAdd *)
    match get_val s val with None => None | Some v =>
    if negb (v_accept v =? 1) then None else
    if v_expelled v then None else
    if from =? val then None else
    if value <? p_min_dlg_tokens p then None else
    if balance s from <? value then None else
    let pending_exist := prel_mem (s_prel s) from val in
    let od := dl_get (v_dlgs v) from in
    let known := (match od with Some _ => true | None => false end) || pending_exist in
    if negb known
       && ((p_max_dlg_dlg p <=? Z.of_nat (length (ad_get (s_adlgs s) from)) + prel_count_d (s_prel s) from)
           || (p_max_dlg_val p <=? Z.of_nat (length (v_dlgs v)) + prel_count_v (s_prel s) val))
    then None else
    match check_total_pending p s v value with None => None | Some s1 =>
    let curr :=
      if known then
        let rv := rec_value (s_recs s1) from val in
        if rv =? 0 then match od with Some d => d_token d | None => 0 end else rv
      else 0 in
    let s2 := sub_balance s1 from value in
    let s3 := if known then s2 else set_prel s2 (s_prel s2 ++ [(from, val)]) in
    Some (add_record s3 from val (Some pt) (Some (curr + value)))
    end end
  | ADlgSub val value =>                                              (* handleDelegationSub *)
    match get_val s val with None => None | Some v =>
    if from =? val then None else
    let od := dl_get (v_dlgs v) from in
    let rv := rec_value (s_recs s) from val in
    let curr := if rv =? 0 then match od with Some d => Some (d_token d) | None => None end else Some rv in
    match curr with None => None | Some cv =>
    if cv <? value then None else
    match check_total_pending p s v (- value) with None => None | Some s1 =>
    Some (add_record s1 from val (Some pt) (Some (cv - value)))
    end end end
  | ADlgSettle val =>                                                 (* handleDelegationSettle *)
    match get_val s val with None => None | Some v =>
    match dl_get (v_dlgs v) from with None => None | Some _ =>
    Some (add_record s from val (Some pt) None)
    end end
  | ABad => None
  end.

Definition bump_nonce (s : state) (a : Z) : state := set_nonce s (zset (s_nonce s) a (zget (s_nonce s) a + 1)).

Fixpoint apply_effects (s : state) (l : list (Z * Z)) : state :=
  match l with [] => s | (a, d) :: r => apply_effects (add_balance s a d) r end.

(* refundGas + the gasRewards line of ApplyTransaction: the sender gets back
   (limit - used + refund) * price, the block's fee pot grows by used * price *)
Definition settle_gas (s : state) (t : tx) (used refund : Z) : state :=
  let s1 := add_balance s (t_from t) ((t_gas t - used + refund) * t_price t) in
  add_minted (set_pot s1 (s_pot s1 + used * t_price t)) (refund * t_price t).

(* worker.commitTransaction: None = ApplyTransaction returned an error, the
   snapshot is restored and the transaction is not included *)
Definition apply_tx (p : params) (s : state) (t : tx) : option state :=
  let from := t_from t in
  if negb (zget (s_nonce s) from =? t_nonce t) then None else
  let mgval := t_gas t * t_price t in
  if balance s from <? mgval then None else                             (* buyGas *)
  let s1 := sub_balance s from mgval in
  if t_gas t <? t_igas t then None else                                 (* UseGas(intrinsic) *)
  match t_body t with
  | TxTransfer to value =>
    let s2 := bump_nonce s1 from in
    if balance s2 from <? value then None else                          (* vm.ErrInsufficientBalance *)
    Some (settle_gas (add_balance (sub_balance s2 from value) to value) t (t_igas t) 0)
  | TxCall to value used refund effects =>
    let s2 := bump_nonce s1 from in
    if balance s2 from <? value then None else
    Some (settle_gas (apply_effects s2 effects) t used refund)
  | TxStake a =>                                                        (* staking.TxConverter.ApplyMessage *)
    let s2 := bump_nonce s1 from in
    let avail := t_gas t - t_igas t in
    match a with
    | ABad => Some (settle_gas s2 t (t_gas t) 0)
    | _ =>
      let is_create := match a with ACreate _ => true | _ => false end in
      if is_create && (avail <? p_val_creation_gas p) then Some (settle_gas s2 t (t_igas t) 0) else
      let used_ok := t_igas t + (if is_create then p_val_creation_gas p else 0) in
      match handle p s2 (mkPtx (t_id t) from a) with
      | Some s3 => Some (settle_gas s3 t used_ok 0)
      | None => Some (settle_gas s2 t (t_gas t) 0)
      end
    end
  end.

(* ======================= slashing (slash.go) ================================= *)

Definition zmin_actual (source target : Z) : Z := if target <=? source then target else source.  (* setActual *)

(* first loop of takePenalty: the withdraw queue.  Threads (remaining, self penalty,
   delegator penalties, total) *)
Fixpoint penalty_from_queue (q : list wrec) (vaddr : Z) (remaining selfp : Z) (dlgp : list (Z * Z)) (total : Z)
  : list wrec * Z * Z * list (Z * Z) * Z :=
  match q with
  | [] => ([], remaining, selfp, dlgp, total)
  | w :: r =>
    if remaining <=? 0 then (q, remaining, selfp, dlgp, total) else
    if negb (w_validator w =? vaddr) || negb (w_finished w =? 0) then
      let '(r', a, b, c, d) := penalty_from_queue r vaddr remaining selfp dlgp total in (w :: r', a, b, c, d)
    else
      let rest := if w_delegator w =? 0 then Some selfp else oget dlgp (w_delegator w) in
      match rest with
      | None => let '(r', a, b, c, d) := penalty_from_queue r vaddr remaining selfp dlgp total in (w :: r', a, b, c, d)
      | Some rs =>
        if rs <=? 0 then
          let '(r', a, b, c, d) := penalty_from_queue r vaddr remaining selfp dlgp total in (w :: r', a, b, c, d)
        else
          let fw := zmin_actual (w_final w) rs in
          if 0 <? fw then
            let w' := set_w_final w (w_final w - fw) in
            let selfp' := if w_delegator w =? 0 then selfp - fw else selfp in
            let dlgp' := if w_delegator w =? 0 then dlgp else zset dlgp (w_delegator w) (rs - fw) in
            let '(r', a, b, c, d) := penalty_from_queue r vaddr (remaining - fw) selfp' dlgp' (total + fw) in
            (w' :: r', a, b, c, d)
          else
            let '(r', a, b, c, d) := penalty_from_queue r vaddr remaining selfp dlgp total in (w :: r', a, b, c, d)
      end
  end.

(* second part: the delegations.  Returns the delegations with reduced tokens,
   the entries to re-insert (updatedDFrom), token and stake taken, remaining, total *)
Fixpoint penalty_from_dlgs (p : params) (l : list dlg) (dlgp : list (Z * Z)) (remaining total tok_taken stake_taken : Z)
  : list dlg * list dlg * Z * Z * Z * Z :=
  match l with
  | [] => ([], [], remaining, total, tok_taken, stake_taken)
  | d :: r =>
    if remaining <=? 0 then (l, [], remaining, total, tok_taken, stake_taken) else
    match oget dlgp (d_addr d) with
    | Some rs =>
      if 0 <? rs then
        let fd := zmin_actual (d_token d) rs in
        if 0 <? fd then
          let ntok := d_token d - fd in
          let nstake := to_stake p ntok in
          let d' := mkDlg (d_addr d) nstake ntok in
          let '(r', upd, a, b, c, e) := penalty_from_dlgs p r dlgp (remaining - fd) (total + fd) (tok_taken + fd) (stake_taken + (d_stake d - nstake)) in
          (d' :: r', d' :: upd, a, b, c, e)
        else let '(r', upd, a, b, c, e) := penalty_from_dlgs p r dlgp remaining total tok_taken stake_taken in (d :: r', upd, a, b, c, e)
      else let '(r', upd, a, b, c, e) := penalty_from_dlgs p r dlgp remaining total tok_taken stake_taken in (d :: r', upd, a, b, c, e)
    | None => let '(r', upd, a, b, c, e) := penalty_from_dlgs p r dlgp remaining total tok_taken stake_taken in (d :: r', upd, a, b, c, e)
    end
  end.

(* takePenalty (slash.go:379): new validator record, total penalty, new queue *)
Definition take_penalty (p : params) (s : state) (val : validator) (amount : Z) : res (validator * Z * list wrec) :=
  let obligation :=
    if (0 <? v_risk val) && (v_risk val <=? p_rate_base p) then amount * v_risk val / p_rate_base p else 0 in
  let curr := amount - obligation in
  if v_stake val =? 0 then Crash else                                   (* big.Int.QuoRem by zero *)
  let per := Z.quot curr (v_stake val) in
  let rem := Z.rem curr (v_stake val) in
  let selfp := per * v_self_stake val + rem + obligation in
  let dlgp := map (fun d => (d_addr d, per * d_stake d)) (v_dlgs val) in
  let '(q', remaining, selfp', dlgp', total) := penalty_from_queue (s_queue s) (v_addr val) amount selfp dlgp 0 in
  if 0 <? remaining then
    (* from the validator's own deposit *)
    let fd := if 0 <? selfp' then zmin_actual (v_self_token val) selfp' else 0 in
    let take_self := (0 <? selfp') && (0 <? fd) in
    let nst := if take_self then v_self_token val - fd else v_self_token val in
    let nss := if take_self then to_stake p nst else v_self_stake val in
    let tok1 := if take_self then v_token val - fd else v_token val in
    let stk1 := if take_self then v_stake val - (v_self_stake val - nss) else v_stake val in
    let remaining1 := if take_self then remaining - fd else remaining in
    let total1 := if take_self then total + fd else total in
    (* from the delegations *)
    let '(dl, upd, _, total2, tok_taken, stake_taken) := penalty_from_dlgs p (v_dlgs val) dlgp' remaining1 total1 0 0 in
    let dl' := fold_left (fun l d => fst (dl_update l d)) upd dl in
    let nv := set_v_dlgs (set_v_money val (tok1 - tok_taken) (stk1 - stake_taken) nst nss) dl' in
    Ok (nv, total2, q')
  else Ok (val, total, q').

Inductive ptype := PDoubleSign | PInactive.

(* doPenalize (slash.go:346) *)
Definition do_penalize (p : params) (s : state) (typ : ptype) (val : validator) (amount : Z) : res state :=
  rbind (if 0 <? amount then take_penalty p s val amount else Ok (val, amount, s_queue s))
  (fun '(nv, total, q') =>
    let num := s_number s in
    let expel := match typ with PDoubleSign => num + p_expel_ds p | PInactive => num + p_expel_inactive p end in
    let li := match typ with PDoubleSign => v_last_inactive nv | PInactive => num end in
    let nv1 := set_v_expel (set_v_status nv 0) true (if v_expel_expired nv <? expel then expel else v_expel_expired nv) li in
    let s1 := update_validator (set_queue s q') nv1 val in
    (* a non-positive amount is credited as it is (doPenalize: totalPenalty = penaltyAmount) *)
    Ok (add_negwd (add_balance s1 (p_penalty_to p) total) (if 0 <? amount then 0 else amount))).

(* processEvidences / processDoubleSignV5 for a pool of resolved double-sign
   evidences (round, signer, the signatures are for different hashes); one vote
   listed twice is no offence (0c3d6f7); only the evidences of the parent round
   (the block's own number - 1, ec9154c) are acted on *)
Fixpoint process_evidences (p : params) (s : state) (evs : list (Z * Z * bool)) (seen : list Z) : res state :=
  match evs with
  | [] => Ok s
  | (round, signer, differ) :: r =>
    if negb differ then process_evidences p s r seen else
    if negb (round =? s_number s - 1) then process_evidences p s r seen else
    if signer =? 0 then process_evidences p s r seen else
    if sl_mem seen signer then process_evidences p s r seen else
    match get_val s signer with
    | None => process_evidences p s r seen
    | Some val =>
      rbind (do_penalize p s PDoubleSign val (v_token val * p_frac_ds p / 100))
            (fun s1 => process_evidences p s1 r (signer :: seen))
    end
  end.

(* slashingAndRecoveringYouV5 (slash_youv5.go:44) *)
Definition slash_or_recover (p : params) (s : state) (a : Z) : res state :=
  match get_val s a with
  | None => Ok s
  | Some val =>
    let num := s_number s in
    if v_expelled val && (v_expel_expired val <? num) then
      Ok (update_validator s (set_v_expel val false 0 (v_last_inactive val)) val)     (* recoverFromExpiredExpelling *)
    else if (v_role val =? 3) || negb (v_online val) then Ok s                     (* inactivitySlashing *)
    else if u64 (num - v_last_active val) <=? p_inact_wait p then Ok s
    else do_penalize p s PInactive val (if 0 <? p_frac_inactive p then v_token val * p_frac_inactive p / 100 else 0)
  end.

Fixpoint fold_res {A} (f : state -> A -> res state) (l : list A) (s : state) : res state :=
  match l with [] => Ok s | a :: r => rbind (f s a) (fold_res f r) end.

(* ======================= rewards (endblock.go) ================================ *)

(* blockRewards (endblock.go:549): returns total rewards and the state with the
   subsidy taken out of the pool account and the fee pot emptied *)
Definition block_rewards (p : params) (s : state) (residue : Z) : Z * state :=
  let pool_bal := balance s (p_pool p) in
  let gas := s_pot s in
  let dflt := gas + residue in
  let subsidies :=
    if (0 <=? dflt) && (dflt <? two64) && (dflt <? p_sub_threshold p) && (0 <? pool_bal) then
      let want := u64 ((p_sub_threshold p - dflt) / 10 * p_sub_coeff p) in
      if pool_bal <? want then pool_bal else want
    else 0 in
  let t1 := if 0 <? gas then gas else 0 in
  let s1 := if 0 <? gas then set_pot s 0 else s in
  let t2 := if 0 <? residue then t1 + residue else t1 in
  if 0 <? subsidies then (t2 + subsidies, sub_balance s1 (p_pool p) subsidies) else (t2, s1).

(* rewardsToPool (endblock.go:142), version 5 branch *)
Definition role_has (t : vstat) (r : Z) : bool := 0 <? k_on_count (role_stat t r).
Definition role_ratio (p : params) (t : vstat) (r : Z) : Z := if role_has t r then by_role (p_ratio p) r else 0.

Definition rewards_to_pool (p : params) (s : state) (coinbase : Z) : res state :=
  let residue0 := k_residue (st_k0 (s_stat s)) in
  let '(total, s1) := block_rewards p s residue0 in
  if total <=? 0 then Ok s1 else
  let t := s_stat s1 in
  let sum := role_ratio p t 1 + role_ratio p t 2 + role_ratio p t 3 in
  if sum =? 0 then Crash else                                           (* QuoRem by zero *)
  let per := Z.quot total sum in
  let residue := Z.rem total sum in
  match get_val s1 coinbase with
  | None => Crash                                                       (* logging.Crit: proposer not in the validator set *)
  | Some proposer =>
    (* house share to the house pool, the chamber shares to the proposer *)
    let st2 := set_role_stat t 3 (k_set_rewards (role_stat t 3) (k_rewards (role_stat t 3) + per * role_ratio p t 3)) in
    let pr := per * role_ratio p t 1 + per * role_ratio p t 2 in
    let np := set_v_rewards (set_v_last_active proposer (s_number s1)) (v_dist proposer + pr) (v_total proposer + pr) (v_last_settled proposer) in
    let s2 := update_validator (set_stat s1 st2) np proposer in
    Ok (set_stat s2 (set_k0 (s_stat s2) (k_set_residue (st_k0 (s_stat s2)) residue)))
  end.

(* pays per * stake to every delegator in order; Crash when the running total goes negative *)
Fixpoint pay_delegators (s : state) (l : list dlg) (per total : Z) : res (state * Z) :=
  match l with
  | [] => Ok (s, total)
  | d :: r =>
    let reward := per * d_stake d in
    let total' := total - reward in
    if total' <? 0 then Crash else pay_delegators (add_balance s (d_addr d) reward) r per total'
  end.

(* settleValidatorRewards (endblock.go:412) *)
Definition settle_rewards (p : params) (s : state) (val : validator) : res state :=
  let num := s_number s in
  if (v_stake val =? 0) && (0 <? v_dist val) then
    let s1 := add_balance s (v_coinbase val) (v_dist val) in
    Ok (update_validator s1 (set_v_rewards val 0 (v_total val) num) val)
  else if (v_stake val =? 0) || (v_dist val =? 0) then Ok s
  else
    let total0 := v_dist val in
    let commission := if 0 <? v_commission val then total0 * v_commission val / p_rate_base p else 0 in
    let total1 := total0 - commission in
    let per := Z.quot total1 (v_stake val) in
    let residue := Z.rem total1 (v_stake val) in
    let self := per * v_self_stake val in
    let total2 := total1 - self in
    let s1 := add_balance s (v_coinbase val) (self + commission) in
    rbind (pay_delegators s1 (v_dlgs val) per total2)
    (fun '(s2, total3) =>
      if negb (total3 =? residue) then Crash else
      let s3 := if v_online val then s2 else add_balance s2 (v_coinbase val) residue in
      let residue' := if v_online val then residue else 0 in
      Ok (update_validator s3 (set_v_rewards val residue' (v_total val) num) val)).

(* per-role bookkeeping of distributeRewards: (role, per, residue, running total) *)
Definition rrec := (Z * Z * Z)%type.   (* per, residue, total *)

Definition mk_rrec (s : state) (role : Z) : res (option rrec) :=
  let st := role_stat (s_stat s) role in
  if k_on_count st =? 0 then Ok None else
  let total := k_rewards st in
  let count := if role =? 3 then k_on_count st else k_on_stake st in
  if count =? 0 then Crash else Ok (Some (Z.quot total count, Z.rem total count, total)).

Record drec := mkDrec { dr1 : option rrec; dr2 : option rrec; dr3 : option rrec }.
Definition drec_get (d : drec) (role : Z) := if role =? 1 then dr1 d else if role =? 2 then dr2 d else dr3 d.
Definition drec_set (d : drec) (role : Z) (x : option rrec) :=
  if role =? 1 then mkDrec x (dr2 d) (dr3 d) else if role =? 2 then mkDrec (dr1 d) x (dr3 d) else mkDrec (dr1 d) (dr2 d) x.

(* one iteration of the loop over all validators *)
Definition distribute_one (p : params) (acc : state * drec * list Z) (a : Z) : res (state * drec * list Z) :=
  let '(s, d, settled) := acc in
  match get_val s a with
  | None => Ok acc
  | Some val =>
    if negb (v_online val) then
      rbind (settle_rewards p s val) (fun s1 => Ok (s1, d, a :: settled))
    else
      match drec_get d (v_role val) with
      | None => Crash                                                   (* nil record: nil pointer dereference *)
      | Some (per, residue, total) =>
        let rewards := if v_role val =? 3 then per else per * v_stake val in
        let total' := total - rewards in
        if total' <? 0 then Crash else                                  (* logging.Crit: not enough rewards *)
        let d' := drec_set d (v_role val) (Some (per, residue, total')) in
        let nv := set_v_rewards val (v_dist val + rewards) (v_total val + rewards) (v_last_settled val) in
        let s1 := update_validator s nv val in
        let num := s_number s in
        let gap := p_max_rewards_period p * p_freq p in
        if (v_last_settled val <? num) && (v_last_settled val + gap <=? num) then
          rbind (settle_rewards p s1 nv) (fun s2 => Ok (s2, d', a :: settled))
        else Ok (s1, d', settled)
      end
  end.

Fixpoint distribute_loop (p : params) (l : list Z) (acc : state * drec * list Z) : res (state * drec * list Z) :=
  match l with [] => Ok acc | a :: r => rbind (distribute_one p acc a) (distribute_loop p r) end.

(* final residue check and pool reset for one role *)
Definition close_role (s : state) (d : drec) (role : Z) : res state :=
  match drec_get d role with
  | None => Ok s
  | Some (per, residue, total) =>
    if negb (total =? residue) then Crash                               (* logging.Crit: wrong residue *)
    else Ok (set_stat s (set_role_stat (s_stat s) role (k_set_rewards (role_stat (s_stat s) role) residue)))
  end.

(* distributeRewards (endblock.go:251).  None = returns the error "empty stake" *)
Definition distribute_rewards (p : params) (s : state) : res (option (state * list Z)) :=
  if k_on_stake (st_k0 (s_stat s)) <=? 0 then Ok None else
  rbind (mk_rrec s 1) (fun r1 => rbind (mk_rrec s 2) (fun r2 => rbind (mk_rrec s 3) (fun r3 =>
  rbind (distribute_loop p (val_keys (s_vals s)) (s, mkDrec r1 r2 r3, []))
  (fun '(s1, d, settled) =>
    rbind (close_role s1 d 1) (fun s2 => rbind (close_role s2 d 2) (fun s3 => rbind (close_role s3 d 3) (fun s4 =>
    Ok (Some (s4, settled))))))))).

(* processWithdrawQueue (endblock.go:490): pays matured records once, then discards old finished ones *)
Definition withdraw_step (s : state) (w : wrec) : state * wrec :=
  if w_final w <=? 0 then (add_negwd s (if w_finished w =? 0 then - w_final w else 0), set_w_finished w)
  else if (w_completion w <? s_number s) && (w_finished w =? 0)
       then (add_balance s (w_recipient w) (w_final w), set_w_finished w)
       else (s, w).
Definition withdraw_discard (p : params) (num : Z) (w : wrec) : bool :=
  (w_finished w =? 1) && (p_retention p <? u64 (num - w_completion w)).
Fixpoint withdraw_loop (p : params) (s : state) (q : list wrec) : state * list wrec :=
  match q with
  | [] => (s, [])
  | w :: r =>
    let '(s1, w1) := withdraw_step s w in
    let '(s2, r') := withdraw_loop p s1 r in
    if withdraw_discard p (s_number s) w1 then (s2, r') else (s2, w1 :: r')
  end.
Definition process_withdraw_queue (p : params) (s : state) : state :=
  let '(s1, q') := withdraw_loop p s (s_queue s) in set_queue s1 q'.

(* ======================= take effect (take_effect_handler.go) ================== *)

(* addWithdrawLog: the withdraw record (the computed extra delay for expelled validators is never used) *)
Definition new_withdraw (p : params) (s : state) (from : Z) (val : validator) (recipient delegator amount : Z) : wrec :=
  mkW from delegator (v_addr val) recipient (s_number s) (s_number s + p_withdraw_delay p) amount amount 0.

(* teWithdraw: the amount really withdrawn (everything when more than the self
   tokens is asked for, or when the rest would fall under the self-stake minimum) *)
Definition withdraw_amount (p : params) (old : validator) (value : Z) : Z :=
  if v_self_token old <? value then v_self_token old
  else if to_stake p (v_self_token old - value) <? by_role (p_min_self p) (v_role old) then v_self_token old
  else value.
(* teWithdraw: the validator after the withdrawal (forced offline under the minimum stakes) *)
Definition withdraw_validator (p : params) (old : validator) (w : Z) : validator :=
  let nst := v_self_token old - w in
  let nss := to_stake p nst in
  let delta := v_self_stake old - nss in
  let offline :=
    v_online old && ((nss <? by_role (p_min_self p) (v_role old))
                     || (v_stake old <? u64 (by_role (p_min_stakes p) (v_role old) + u64 delta))) in
  let nv0 := set_v_money old (v_token old - w) (v_stake old - delta) nst nss in
  if offline then set_v_status nv0 0 else nv0.
(* teDelegationSub: the amount really withdrawn from a delegation *)
Definition dsub_amount (p : params) (df : dlg) (value : Z) : Z :=
  let w0 := if d_token df <? value then d_token df else value in
  let remain := d_token df - w0 in
  if (0 <? remain) && (remain <? p_min_dlg_tokens p) then w0 + remain else w0.

Definition take_effect (p : params) (s : state) (pt : ptx) : res state :=
  let from := pt_from pt in
  match pt_act pt with
  | ACreate c =>                                                        (* teCreate *)
    match get_val s (c_main c) with
    | Some _ => Ok (add_dupcreate s (c_value c))                        (* CreateValidator returns nil: the deposit is gone *)
    | None => Ok (create_validator s (new_validator p c))
    end
  | AUpdate u =>                                                        (* teUpdate *)
    match get_val s (u_main u) with None => Crash | Some old =>
    let nv := set_v_info old
      (if u_name u =? 0 then v_name old else u_name u)
      (if u_operator u =? 0 then v_operator old else u_operator u)
      (if u_coinbase u =? 0 then v_coinbase old else u_coinbase u)
      (if u_accept u =? max_u8 then v_accept old else u_accept u)
      (if u_commission u =? max_u16 then v_commission old else u_commission u)
      (if u_risk u =? max_u16 then v_risk old else u_risk u) in
    Ok (update_validator s nv old)
    end
  | ADeposit main value =>                                              (* teDeposit *)
    match get_val s main with None => Crash | Some old =>
    let nst := v_self_token old + value in
    let nss := to_stake p nst in
    let delta := nss - v_self_stake old in
    let nv := set_v_money old (v_token old + value) (v_stake old + delta) nst nss in
    if over_max p (v_role old) (v_stake nv) then Ok (add_balance s from value)     (* V5: refund *)
    else Ok (update_validator s nv old)
    end
  | AWithdraw main recipient value =>                                   (* teWithdraw *)
    match get_val s main with None => Crash | Some old =>
    let w := withdraw_amount p old value in
    let nv := withdraw_validator p old w in
    let s1 := update_validator s nv old in
    Ok (add_withdraw s1 (new_withdraw p s1 from nv recipient 0 w))
    end
  | AStatus main status =>                                              (* teChangeStatus *)
    match get_val s main with None => Crash | Some old =>
    if (status =? 1) && (v_stake old <? by_role (p_min_stakes p) (v_role old)) then Ok s
    else Ok (update_validator s (set_v_last_active (set_v_status old status) (s_number s)) old)
    end
  | ASettle _ => Ok s                                                   (* teNoop *)
  | ADlgSettle _ => Ok s
  | ADlgAdd val value =>                                                (* teDelegationAdd *)
    match get_val s val with None => Crash | Some v =>
    if v_expelled v || (v_accept v =? 0) then Ok (add_balance s from value)
    else if over_max p (v_role v) (to_stake p (v_token v + value)) then Ok (add_balance s from value)
    else match update_delegation p s from v value with
         | Some (s1, _, _, _, _) => Ok s1
         | None => Ok s
         end
    end
  | ADlgSub val value =>                                                (* teDelegationSub *)
    match get_val s val with None => Crash | Some v =>
    match dl_get (v_dlgs v) from with
    | None => Ok s                                                      (* withdrawToken = 0: failed *)
    | Some df =>
      if (if d_token df <? value then d_token df else value) <=? 0 then Ok s else
      let w := dsub_amount p df value in
      match update_delegation p s from v (- w) with
      | None => Crash                                                   (* newDFrom == nil is dereferenced *)
      | Some (s1, nv, _, _, _) =>
        let force_off := v_online nv && (v_stake nv <? by_role (p_min_stakes p) (v_role nv)) in
        let nv' := if force_off then set_v_status nv 0 else nv in
        let s2 := if force_off then update_validator s1 nv' nv else s1 in
        Ok (add_withdraw s2 (new_withdraw p s2 from nv' from from w))
      end
    end end
  | ABad => Ok s
  end.

(* processPendingTxs (endblock.go:362): one record *)
Definition process_record (p : params) (acc : state * list Z) (r : prec) : res (state * list Z) :=
  let '(s, settled) := acc in
  let v := r_v r in
  rbind (if sl_mem settled v then Ok s
         else match get_val s v with Some val => settle_rewards p s val | None => Ok s end)
  (fun s1 => rbind (fold_res (take_effect p) (r_txs r) s1)
  (fun s2 => Ok (s2, if sl_mem settled v then settled else v :: settled))).

Fixpoint process_records (p : params) (l : list prec) (acc : state * list Z) : res (state * list Z) :=
  match l with [] => Ok acc | r :: t => rbind (process_record p acc r) (process_records p t) end.

(* the records in the iteration order of the staking trie; records whose key is
   not in the order table come last *)
Fixpoint rec_take (l : list prec) (d v : Z) : option (prec * list prec) :=
  match l with
  | [] => None
  | r :: t =>
    if (r_d r =? d) && (r_v r =? v) then Some (r, t)
    else match rec_take t d v with Some (x, t') => Some (x, r :: t') | None => None end
  end.
Fixpoint order_by (o : list (Z * Z)) (l : list prec) : list prec :=
  match o with
  | [] => l
  | (d, v) :: r =>
    match rec_take l d v with
    | Some (x, l') => x :: order_by r l'
    | None => order_by r l
    end
  end.
Definition ordered_records (p : params) (l : list prec) : list prec := order_by (p_order p) l.

(* endStakingPeriod (endblock.go:223) *)
Definition end_staking_period (p : params) (s : state) : res state :=
  if negb ((s_number s + 1) mod p_freq p =? 0) then Ok s else
  rbind (fold_res (slash_or_recover p) (val_keys (s_vals s)) s) (fun s1 =>
  rbind (distribute_rewards p s1) (fun r =>
  match r with
  | None => Ok s1                                                       (* "empty stake": nothing else happens *)
  | Some (s2, settled) =>
    let s3 := process_withdraw_queue p s2 in
    rbind (process_records p (ordered_records p (s_recs s3)) (s3, settled))
          (fun '(s4, _) => Ok (set_recs_old (set_recs s4 []) (s_recs s4)))
  end)).

(* StateDB.IntermediateRoot(true): validators with no token and no stake are
   deleted; their distributable rewards disappear with them *)
Definition v_invalid (v : validator) : bool := (v_token v <=? 0) && (v_stake v <=? 0).   (* Validator.IsInvalid: Sign() <= 0 (0cdbb3b) *)
Fixpoint delete_invalid (s : state) (l : list validator) : state * list validator :=
  match l with
  | [] => (s, [])
  | v :: r =>
    let '(s1, r') := delete_invalid s r in
    if v_invalid v
    then (add_dust (set_stat s1 (stat_decr (s_stat s1) v)) (v_dist v + v_token v), r')
    else (s1, v :: r')
  end.
Definition finalize_block (s : state) : state :=
  let '(s1, l) := delete_invalid s (s_vals s) in set_vals s1 l.

(* ======================= blocks =============================================== *)

Record block := mkBlock {
  b_proposer : Z;
  b_txs : list tx;
  b_evs : list (Z * Z * bool) (* the node's evidence pool when the block is sealed: (round, signer, different hashes) *)
}.

(* new StateDB for the block: core.StakingRootForNewBlock gives an empty staking
   trie on the first block of a period *)
Definition begin_block (p : params) (s : state) : state :=
  let s1 := set_number s (s_number s + 1) in
  if s_number s1 mod p_freq p =? 0 then
    set_recs_old (set_prel (set_recs (add_dropped s1 (pending (s_recs s1))) []) []) []
  else s1.

Fixpoint apply_txs (p : params) (s : state) (l : list tx) : state :=
  match l with
  | [] => s
  | t :: r => apply_txs p (match apply_tx p s t with Some s1 => s1 | None => s end) r
  end.

(* A pending record with a negative FinalValue cannot be RLP-encoded:
   updateStakingTrie would abort half way through a Go map iteration.  Since fix
   b5e8f5d (the clamp in checkAndUpdateTotalPendingStakesOfValidator) no handler
   computes one from non-negative validator tokens: withdraw and delegation-sub
   check curr >= value, deposit / create / delegation-add only add.  The guard
   stays because rlp still refuses such a value; no generated history reaches it. *)
Definition has_negative_record (s : state) : bool := existsb (fun r => r_final r <? 0) (s_recs s).

(* EndBlock (endblock.go:51), sealing path *)
Definition end_block (p : params) (s : state) (b : block) : res state :=
  if has_negative_record s then Crash else
  rbind (process_evidences p s (b_evs b) []) (fun s1 =>
  rbind (rewards_to_pool p s1 (b_proposer b)) (fun s2 =>
  rbind (end_staking_period p s2) (fun s3 => Ok (finalize_block s3)))).

Definition apply_block (p : params) (s : state) (b : block) : res state :=
  end_block p (apply_txs p (begin_block p s) (b_txs b)) b.

Fixpoint run_chain (p : params) (s : state) (l : list block) : res state :=
  match l with [] => Ok s | b :: r => rbind (apply_block p s b) (fun s1 => run_chain p s1 r) end.

(* ======================= correspondence runner ================================= *)

(* canonical observation of a ledger over a universe of addresses *)
Record obs := mkObs {
  o_bal : list Z; o_nonce : list Z; o_adlgs : list (list Z);
  o_vals : list validator; o_stat : vstat; o_queue : list wrec;
  o_recs : list (Z * Z * Z * list Z); o_prel : list (Z * Z)
}.

Fixpoint list_eqb {A} (f : A -> A -> bool) (a b : list A) : bool :=
  match a, b with
  | [], [] => true
  | x :: r, y :: t => f x y && list_eqb f r t
  | _, _ => false
  end.
Definition pair_eqb (a b : Z * Z) : bool := (fst a =? fst b) && (snd a =? snd b).
Definition dlg_eqb (a b : dlg) : bool := (d_addr a =? d_addr b) && (d_stake a =? d_stake b) && (d_token a =? d_token b).
Definition val_eqb (a b : validator) : bool :=
  (v_addr a =? v_addr b) && (v_name a =? v_name b) && (v_operator a =? v_operator b) && (v_coinbase a =? v_coinbase b)
  && (v_role a =? v_role b) && (v_status a =? v_status b) && Bool.eqb (v_expelled a) (v_expelled b)
  && (v_expel_expired a =? v_expel_expired b) && (v_last_inactive a =? v_last_inactive b)
  && (v_token a =? v_token b) && (v_stake a =? v_stake b) && (v_self_token a =? v_self_token b) && (v_self_stake a =? v_self_stake b)
  && (v_dist a =? v_dist b) && (v_total a =? v_total b) && (v_last_settled a =? v_last_settled b)
  && (v_accept a =? v_accept b) && (v_commission a =? v_commission b) && (v_risk a =? v_risk b)
  && list_eqb dlg_eqb (v_dlgs a) (v_dlgs b) && (v_last_active a =? v_last_active b).
Definition k_eqb (a b : kstat) : bool :=
  (k_on_stake a =? k_on_stake b) && (k_on_token a =? k_on_token b) && (k_on_count a =? k_on_count b)
  && (k_off_stake a =? k_off_stake b) && (k_off_token a =? k_off_token b) && (k_off_count a =? k_off_count b)
  && (k_residue a =? k_residue b) && (k_rewards a =? k_rewards b).
Definition stat_eqb (a b : vstat) : bool :=
  k_eqb (st_r1 a) (st_r1 b) && k_eqb (st_r2 a) (st_r2 b) && k_eqb (st_r3 a) (st_r3 b)
  && k_eqb (st_k0 a) (st_k0 b) && k_eqb (st_k1 a) (st_k1 b) && k_eqb (st_k2 a) (st_k2 b).
Definition w_eqb (a b : wrec) : bool :=
  (w_operator a =? w_operator b) && (w_delegator a =? w_delegator b) && (w_validator a =? w_validator b)
  && (w_recipient a =? w_recipient b) && (w_creation a =? w_creation b) && (w_completion a =? w_completion b)
  && (w_initial a =? w_initial b) && (w_final a =? w_final b) && (w_finished a =? w_finished b).
Definition orec_eqb (a b : Z * Z * Z * list Z) : bool :=
  let '(d1, v1, f1, t1) := a in let '(d2, v2, f2, t2) := b in
  (d1 =? d2) && (v1 =? v2) && (f1 =? f2) && list_eqb Z.eqb t1 t2.

(* insertion sorts for the canonical order *)
Fixpoint ins_val (v : validator) (l : list validator) : list validator :=
  match l with [] => [v] | x :: r => if v_addr v <=? v_addr x then v :: l else x :: ins_val v r end.
Definition pair_le (a b : Z * Z) : bool := (fst a <? fst b) || ((fst a =? fst b) && (snd a <=? snd b)).
Fixpoint ins_orec (x : Z * Z * Z * list Z) (l : list (Z * Z * Z * list Z)) :=
  match l with
  | [] => [x]
  | y :: r => if pair_le (fst (fst (fst x)), snd (fst (fst x))) (fst (fst (fst y)), snd (fst (fst y))) then x :: l else y :: ins_orec x r
  end.
Fixpoint ins_pair (x : Z * Z) (l : list (Z * Z)) :=
  match l with [] => [x] | y :: r => if pair_le x y then x :: l else y :: ins_pair x r end.

Definition observe (n : Z) (s : state) : obs :=
  let uni := map Z.of_nat (seq 0 (Z.to_nat n)) in
  mkObs (map (zget (s_bal s)) uni) (map (zget (s_nonce s)) uni) (map (ad_get (s_adlgs s)) uni)
        (fold_right ins_val [] (s_vals s)) (s_stat s) (s_queue s)
        (fold_right ins_orec [] (map (fun r => (r_d r, r_v r, r_final r, map pt_id (r_txs r))) (s_recs s ++ s_recs_old s)))
        (fold_right ins_pair [] (s_prel s)).

(* list of the field codes on which two observations differ (empty = equal) *)
Definition obs_diff (a b : obs) : list Z :=
  (if list_eqb Z.eqb (o_bal a) (o_bal b) then [] else [1])
  ++ (if list_eqb Z.eqb (o_nonce a) (o_nonce b) then [] else [2])
  ++ (if list_eqb (list_eqb Z.eqb) (o_adlgs a) (o_adlgs b) then [] else [3])
  ++ (if list_eqb val_eqb (o_vals a) (o_vals b) then [] else [4])
  ++ (if stat_eqb (o_stat a) (o_stat b) then [] else [5])
  ++ (if list_eqb w_eqb (o_queue a) (o_queue b) then [] else [6])
  ++ (if list_eqb orec_eqb (o_recs a) (o_recs b) then [] else [7])
  ++ (if list_eqb pair_eqb (o_prel a) (o_prel b) then [] else [8]).

(* a case: parameters, genesis ledger, size of the address universe, and the
   chain: each block with the implementation's observed result (None = the
   implementation crashed on that block) *)
Record case := mkCase {
  c_params : params; c_genesis : state; c_uni : Z;
  c_chain : list (block * option obs)
}.

(* (block index, differing fields); field 0 = crash status differs *)
Fixpoint chain_diff (p : params) (n : Z) (s : state) (i : Z) (l : list (block * option obs)) : list (Z * list Z) :=
  match l with
  | [] => []
  | (b, o) :: r =>
    match apply_block p s b, o with
    | Ok s1, Some ob =>
      (* field 9: one of the two anomaly counters moved (never expected on a real history) *)
      match obs_diff (observe n s1) ob ++ (if (g_dupcreate s1 =? 0) && (g_negwd s1 =? 0) then [] else [9]) with
      | [] => chain_diff p n s1 (i + 1) r
      | d => [(i, d)]
      end
    | Crash, None => []          (* both stop here *)
    | _, _ => [(i, [0])]
    end
  end.
Definition case_diff (c : case) := chain_diff (c_params c) (c_uni c) (c_genesis c) 0 (c_chain c).
Definition case_ok (c : case) : bool := match case_diff c with [] => true | _ => false end.

Fixpoint mismatches_from (i : N) (l : list case) : list N :=
  match l with
  | [] => []
  | c :: r => if case_ok c then mismatches_from (i + 1)%N r else i :: mismatches_from (i + 1)%N r
  end.
Definition mismatches := mismatches_from 0%N.
