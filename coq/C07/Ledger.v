(* C07 - the staking ledger: state of accounts, validators, statistics,
   withdraw queue and pending staking records, with the primitive operations
   of core/state (statedb_val.go, statedb_staking.go, validator.go,
   delegation.go, staking_record.go) and the supply function.
   Reusable by other properties (C05, C06, C08).  No proofs in this file.

   All numbers are Z.  Addresses are Z identifiers whose order is the byte
   order of the real addresses (0 = the zero address). *)
From Coq Require Export List ZArith Bool.
Export ListNotations.
Open Scope Z_scope.

(* ---- results ------------------------------------------------------------- *)

(* Crash = the Go code panics or calls logging.Crit (process exit). *)
Inductive res (A : Type) : Type := Ok (a : A) | Crash.
Arguments Ok {A} a.
Arguments Crash {A}.

Definition rbind {A B} (r : res A) (f : A -> res B) : res B :=
  match r with Ok a => f a | Crash => Crash end.

(* ---- small maps on Z keys -------------------------------------------------- *)

Fixpoint zget (m : list (Z * Z)) (a : Z) : Z :=
  match m with [] => 0 | (k, v) :: r => if k =? a then v else zget r a end.
Fixpoint zadd (m : list (Z * Z)) (a d : Z) : list (Z * Z) :=
  match m with
  | [] => [(a, d)]
  | (k, v) :: r => if k =? a then (k, v + d) :: r else (k, v) :: zadd r a d
  end.
Fixpoint zset (m : list (Z * Z)) (a d : Z) : list (Z * Z) :=
  match m with
  | [] => [(a, d)]
  | (k, v) :: r => if k =? a then (k, d) :: r else (k, v) :: zset r a d
  end.
Definition zsum (m : list (Z * Z)) : Z := fold_right (fun kv acc => snd kv + acc) 0 m.

(* optional lookup (nil map entries of Go) *)
Fixpoint oget (m : list (Z * Z)) (a : Z) : option Z :=
  match m with [] => None | (k, v) :: r => if k =? a then Some v else oget r a end.

Definition two64 : Z := 18446744073709551616.
Definition u64 (x : Z) : Z := x mod two64.          (* uint64 wrap-around *)

(* sorted address lists (common.SortedAddresses) *)
Fixpoint sl_mem (l : list Z) (a : Z) : bool :=
  match l with [] => false | x :: r => (x =? a) || sl_mem r a end.
Fixpoint sl_insert (l : list Z) (a : Z) : list Z :=
  match l with
  | [] => [a]
  | x :: r => if x =? a then l else if a <? x then a :: l else x :: sl_insert r a
  end.
Fixpoint sl_remove (l : list Z) (a : Z) : list Z :=
  match l with [] => [] | x :: r => if x =? a then r else x :: sl_remove r a end.

(* ---- protocol parameters (params.YouParams, staking part, version 5) ------ *)

Record params := mkParams {
  p_freq : Z;                 (* StakingTrieFrequency *)
  p_min_stakes : list Z;      (* MinStakes by role 1,2,3 *)
  p_max_stakes : list Z;      (* MaxStakes *)
  p_min_self : list Z;        (* MinSelfStakes *)
  p_ratio : list Z;           (* RewardsDistRatio *)
  p_pool : Z;                 (* RewardsPoolAddress *)
  p_sub_threshold : Z;        (* SubsidyThreshold *)
  p_sub_coeff : Z;            (* SubsidyCoeff *)
  p_max_rewards_period : Z;
  p_withdraw_delay : Z;
  p_retention : Z;            (* WithdrawRecordRetention *)
  p_expel_ds : Z;             (* ExpelledRoundForDoubleSign *)
  p_expel_inactive : Z;
  p_penalty_to : Z;
  p_frac_ds : Z;              (* PenaltyFractionForDoubleSign *)
  p_frac_inactive : Z;
  p_inact_wait : Z;           (* InactivityPenaltyWaitRounds *)
  p_max_dlg_val : Z;          (* MaxDelegationForValidator *)
  p_max_dlg_dlg : Z;          (* MaxDelegationForDelegator *)
  p_min_dlg_tokens : Z;
  p_unit : Z;                 (* params.StakeUint *)
  p_rate_base : Z;            (* params.CommissionRateBase *)
  p_val_creation_gas : Z;     (* params.TxValCreationGas *)
  p_module : Z;               (* params.StakingModuleAddress *)
  p_order : list (Z * Z)      (* iteration order of the staking trie (keccak of the record key) over all possible keys *)
}.

Definition by_role (l : list Z) (role : Z) : Z := nth (Z.to_nat (role - 1)) l 0.
Definition to_stake (p : params) (token : Z) : Z := token / p_unit p.   (* params.YOUToStake: big.Int.Div *)

(* ---- validators -------------------------------------------------------------- *)

Record dlg := mkDlg { d_addr : Z; d_stake : Z; d_token : Z }.

Record validator := mkVal {
  v_addr : Z; v_name : Z; v_operator : Z; v_coinbase : Z; v_role : Z; v_status : Z;
  v_expelled : bool; v_expel_expired : Z; v_last_inactive : Z;
  v_token : Z; v_stake : Z; v_self_token : Z; v_self_stake : Z;
  v_dist : Z;            (* RewardsDistributable *)
  v_total : Z;           (* RewardsTotal *)
  v_last_settled : Z;
  v_accept : Z; v_commission : Z; v_risk : Z;
  v_dlgs : list dlg;     (* Delegations, sorted by delegator *)
  v_last_active : Z      (* Ext.extV1.LastActive *)
}.

Definition v_online (v : validator) : bool := v_status v =? 1.

Definition set_v_money (v : validator) (token stake stoken sstake : Z) : validator :=
  mkVal (v_addr v) (v_name v) (v_operator v) (v_coinbase v) (v_role v) (v_status v) (v_expelled v) (v_expel_expired v)
        (v_last_inactive v) token stake stoken sstake (v_dist v) (v_total v) (v_last_settled v) (v_accept v)
        (v_commission v) (v_risk v) (v_dlgs v) (v_last_active v).
Definition set_v_dlgs (v : validator) (l : list dlg) : validator :=
  mkVal (v_addr v) (v_name v) (v_operator v) (v_coinbase v) (v_role v) (v_status v) (v_expelled v) (v_expel_expired v)
        (v_last_inactive v) (v_token v) (v_stake v) (v_self_token v) (v_self_stake v) (v_dist v) (v_total v)
        (v_last_settled v) (v_accept v) (v_commission v) (v_risk v) l (v_last_active v).
Definition set_v_rewards (v : validator) (dist total settled : Z) : validator :=
  mkVal (v_addr v) (v_name v) (v_operator v) (v_coinbase v) (v_role v) (v_status v) (v_expelled v) (v_expel_expired v)
        (v_last_inactive v) (v_token v) (v_stake v) (v_self_token v) (v_self_stake v) dist total settled (v_accept v)
        (v_commission v) (v_risk v) (v_dlgs v) (v_last_active v).
Definition set_v_status (v : validator) (status : Z) : validator :=
  mkVal (v_addr v) (v_name v) (v_operator v) (v_coinbase v) (v_role v) status (v_expelled v) (v_expel_expired v)
        (v_last_inactive v) (v_token v) (v_stake v) (v_self_token v) (v_self_stake v) (v_dist v) (v_total v)
        (v_last_settled v) (v_accept v) (v_commission v) (v_risk v) (v_dlgs v) (v_last_active v).
Definition set_v_expel (v : validator) (expelled : bool) (expired last_inactive : Z) : validator :=
  mkVal (v_addr v) (v_name v) (v_operator v) (v_coinbase v) (v_role v) (v_status v) expelled expired
        last_inactive (v_token v) (v_stake v) (v_self_token v) (v_self_stake v) (v_dist v) (v_total v)
        (v_last_settled v) (v_accept v) (v_commission v) (v_risk v) (v_dlgs v) (v_last_active v).
Definition set_v_last_active (v : validator) (n : Z) : validator :=
  mkVal (v_addr v) (v_name v) (v_operator v) (v_coinbase v) (v_role v) (v_status v) (v_expelled v) (v_expel_expired v)
        (v_last_inactive v) (v_token v) (v_stake v) (v_self_token v) (v_self_stake v) (v_dist v) (v_total v)
        (v_last_settled v) (v_accept v) (v_commission v) (v_risk v) (v_dlgs v) n.
Definition set_v_info (v : validator) (name operator coinbase accept commission risk : Z) : validator :=
  mkVal (v_addr v) name operator coinbase (v_role v) (v_status v) (v_expelled v) (v_expel_expired v)
        (v_last_inactive v) (v_token v) (v_stake v) (v_self_token v) (v_self_stake v) (v_dist v) (v_total v)
        (v_last_settled v) accept commission risk (v_dlgs v) (v_last_active v).

(* validators are stored in creation order; lookups take the first match,
   updates replace the first match or append *)
Fixpoint vget (l : list validator) (a : Z) : option validator :=
  match l with [] => None | v :: r => if v_addr v =? a then Some v else vget r a end.
Fixpoint vset (l : list validator) (n : validator) : list validator :=
  match l with
  | [] => [n]
  | v :: r => if v_addr v =? v_addr n then n :: r else v :: vset r n
  end.
Definition vsum (f : validator -> Z) (l : list validator) : Z := fold_right (fun v a => f v + a) 0 l.

(* sorted keys for iteration (validatorIndex.List sorts by address) *)
Fixpoint ins_sorted (a : Z) (l : list Z) : list Z :=
  match l with [] => [a] | x :: r => if a <=? x then a :: l else x :: ins_sorted a r end.
Definition sort_keys (l : list Z) : list Z := fold_right ins_sorted [] l.
Definition val_keys (l : list validator) : list Z := sort_keys (map v_addr l).

(* Delegations: GetDelegationFrom / UpdateDelegationFrom (validator.go:257-294) *)
Fixpoint dl_get (l : list dlg) (a : Z) : option dlg :=
  match l with [] => None | d :: r => if d_addr d =? a then Some d else dl_get r a end.
Definition dl_empty (d : dlg) : bool := (d_stake d =? 0) && (d_token d =? 0).
(* returns the new list and whether the entry was deleted *)
Fixpoint dl_update (l : list dlg) (d : dlg) : list dlg * bool :=
  match l with
  | [] => if dl_empty d then ([], false) else ([d], false)
  | x :: r =>
    if d_addr x =? d_addr d then (if dl_empty d then (r, true) else (d :: r, false))
    else if d_addr d <? d_addr x then (if dl_empty d then (l, false) else (d :: l, false))
    else let '(r', del) := dl_update r d in (x :: r', del)
  end.

(* ---- statistics (ValKindStat / ValidatorsStat) ------------------------------- *)

Record kstat := mkK {
  k_on_stake : Z; k_on_token : Z; k_on_count : Z;
  k_off_stake : Z; k_off_token : Z; k_off_count : Z;
  k_residue : Z;      (* rewardsResidue *)
  k_rewards : Z       (* rewardsDistributable: the pool of the role *)
}.
Definition k_zero := mkK 0 0 0 0 0 0 0 0.

Definition csub (a b : Z) : Z := if b <=? a then a - b else a.   (* clamped subtraction of validator.go:508-548 *)

Definition k_add_val (k : kstat) (online : bool) (stake token : Z) : kstat :=
  if online
  then mkK (k_on_stake k + stake) (k_on_token k + token) (u64 (k_on_count k + 1)) (k_off_stake k) (k_off_token k) (k_off_count k) (k_residue k) (k_rewards k)
  else mkK (k_on_stake k) (k_on_token k) (k_on_count k) (k_off_stake k + stake) (k_off_token k + token) (u64 (k_off_count k + 1)) (k_residue k) (k_rewards k).
Definition k_sub_val (k : kstat) (online : bool) (stake token : Z) : kstat :=
  if online
  then mkK (csub (k_on_stake k) stake) (csub (k_on_token k) token) (u64 (k_on_count k - 1)) (k_off_stake k) (k_off_token k) (k_off_count k) (k_residue k) (k_rewards k)
  else mkK (k_on_stake k) (k_on_token k) (k_on_count k) (csub (k_off_stake k) stake) (csub (k_off_token k) token) (u64 (k_off_count k - 1)) (k_residue k) (k_rewards k).
Definition k_set_rewards (k : kstat) (x : Z) : kstat :=
  mkK (k_on_stake k) (k_on_token k) (k_on_count k) (k_off_stake k) (k_off_token k) (k_off_count k) (k_residue k) x.
Definition k_set_residue (k : kstat) (x : Z) : kstat :=
  mkK (k_on_stake k) (k_on_token k) (k_on_count k) (k_off_stake k) (k_off_token k) (k_off_count k) x (k_rewards k).

(* Roles 1 chancellor, 2 senator, 3 house; kinds 0 all validators, 1 chamber, 2 house *)
Record vstat := mkStat { st_r1 : kstat; st_r2 : kstat; st_r3 : kstat; st_k0 : kstat; st_k1 : kstat; st_k2 : kstat }.
Definition role_stat (t : vstat) (role : Z) : kstat :=
  if role =? 1 then st_r1 t else if role =? 2 then st_r2 t else st_r3 t.
Definition set_role_stat (t : vstat) (role : Z) (k : kstat) : vstat :=
  if role =? 1 then mkStat k (st_r2 t) (st_r3 t) (st_k0 t) (st_k1 t) (st_k2 t)
  else if role =? 2 then mkStat (st_r1 t) k (st_r3 t) (st_k0 t) (st_k1 t) (st_k2 t)
  else mkStat (st_r1 t) (st_r2 t) k (st_k0 t) (st_k1 t) (st_k2 t).
Definition set_k0 (t : vstat) (k : kstat) : vstat := mkStat (st_r1 t) (st_r2 t) (st_r3 t) k (st_k1 t) (st_k2 t).
Definition map_kind_of_role (t : vstat) (role : Z) (f : kstat -> kstat) : vstat :=
  if (role =? 1) || (role =? 2)
  then mkStat (st_r1 t) (st_r2 t) (st_r3 t) (st_k0 t) (f (st_k1 t)) (st_k2 t)
  else mkStat (st_r1 t) (st_r2 t) (st_r3 t) (st_k0 t) (st_k1 t) (f (st_k2 t)).

(* incrValidatorsStat / decrValidatorsStat (statedb_val.go:311-339) *)
Definition stat_apply (t : vstat) (v : validator) (f : kstat -> bool -> Z -> Z -> kstat) : vstat :=
  let g k := f k (v_online v) (v_stake v) (v_token v) in
  let t1 := set_role_stat t (v_role v) (g (role_stat t (v_role v))) in
  let t2 := map_kind_of_role t1 (v_role v) g in
  set_k0 t2 (g (st_k0 t2)).
Definition stat_incr (t : vstat) (v : validator) : vstat := stat_apply t v k_add_val.
Definition stat_decr (t : vstat) (v : validator) : vstat := stat_apply t v k_sub_val.

Definition pools (t : vstat) : Z :=
  k_rewards (st_r1 t) + k_rewards (st_r2 t) + k_rewards (st_r3 t) + k_residue (st_k0 t).

(* ---- withdraw queue ------------------------------------------------------------ *)

Record wrec := mkW {
  w_operator : Z; w_delegator : Z; w_validator : Z; w_recipient : Z;
  w_creation : Z; w_completion : Z; w_initial : Z; w_final : Z; w_finished : Z
}.
Definition set_w_final (w : wrec) (x : Z) : wrec :=
  mkW (w_operator w) (w_delegator w) (w_validator w) (w_recipient w) (w_creation w) (w_completion w) (w_initial w) x (w_finished w).
Definition set_w_finished (w : wrec) : wrec :=
  mkW (w_operator w) (w_delegator w) (w_validator w) (w_recipient w) (w_creation w) (w_completion w) (w_initial w) (w_final w) 1.
Definition unfinished (q : list wrec) : Z :=
  fold_right (fun w a => (if w_finished w =? 0 then w_final w else 0) + a) 0 q.

(* ---- staking transactions and pending records ------------------------------- *)

Record create_args := mkCreate {
  c_name : Z; c_operator : Z; c_coinbase : Z; c_main : Z; c_role : Z; c_value : Z;
  c_accept : Z; c_commission : Z; c_risk : Z
}.
Record update_args := mkUpdate {
  u_main : Z; u_name : Z; u_operator : Z; u_coinbase : Z; u_accept : Z; u_commission : Z; u_risk : Z
}.
Inductive action :=
| ACreate (c : create_args)
| AUpdate (u : update_args)
| ADeposit (main value : Z)
| AWithdraw (main recipient value : Z)
| AStatus (main status : Z)
| ASettle (main : Z)
| ADlgAdd (val value : Z)
| ADlgSub (val value : Z)
| ADlgSettle (val : Z)
| ABad.                        (* payload that does not decode / unknown action *)

(* a pending transaction as the take-effect handlers see it *)
Record ptx := mkPtx { pt_id : Z; pt_from : Z; pt_act : action }.

(* state.Record keyed by (delegator, validator) *)
Record prec := mkRec { r_d : Z; r_v : Z; r_final : Z; r_txs : list ptx }.

Fixpoint rec_get (l : list prec) (d v : Z) : option prec :=
  match l with [] => None | r :: t => if (r_d r =? d) && (r_v r =? v) then Some r else rec_get t d v end.
(* GetStakingRecordValue *)
Definition rec_value (l : list prec) (d v : Z) : Z :=
  match rec_get l d v with Some r => r_final r | None => 0 end.
(* AddStakingRecord: tx = None for the zero hash, final = None for nil *)
Definition rec_upd (r : prec) (tx : option ptx) (final : option Z) : prec :=
  mkRec (r_d r) (r_v r) (match final with Some f => f | None => r_final r end)
        (match tx with Some t => r_txs r ++ [t] | None => r_txs r end).
Fixpoint rec_add (l : list prec) (d v : Z) (tx : option ptx) (final : option Z) : list prec :=
  match l with
  | [] => [rec_upd (mkRec d v 0 []) tx final]
  | r :: t => if (r_d r =? d) && (r_v r =? v) then rec_upd r tx final :: t else r :: rec_add t d v tx final
  end.

(* the amount a pending transaction took out of its sender's balance *)
Definition detained (a : action) : Z :=
  match a with
  | ACreate c => c_value c
  | ADeposit _ value => value
  | ADlgAdd _ value => value
  | _ => 0
  end.
Definition rec_pending (r : prec) : Z := fold_right (fun t a => detained (pt_act t) + a) 0 (r_txs r).
Definition pending (l : list prec) : Z := fold_right (fun r a => rec_pending r + a) 0 l.

(* pendingRelationship *)
Fixpoint prel_mem (l : list (Z * Z)) (d v : Z) : bool :=
  match l with [] => false | (a, b) :: r => ((a =? d) && (b =? v)) || prel_mem r d v end.
Definition prel_count_d (l : list (Z * Z)) (d : Z) : Z := Z.of_nat (length (filter (fun x => fst x =? d) l)).
Definition prel_count_v (l : list (Z * Z)) (v : Z) : Z := Z.of_nat (length (filter (fun x => snd x =? v) l)).

(* account delegation index (stateObject.delegations) *)
Fixpoint ad_get (m : list (Z * list Z)) (a : Z) : list Z :=
  match m with [] => [] | (k, l) :: r => if k =? a then l else ad_get r a end.
Fixpoint ad_set (m : list (Z * list Z)) (a : Z) (l : list Z) : list (Z * list Z) :=
  match m with
  | [] => [(a, l)]
  | (k, x) :: r => if k =? a then (k, l) :: r else (k, x) :: ad_set r a l
  end.

(* ---- the ledger ------------------------------------------------------------------ *)

Record state := mkState {
  s_number : Z;                  (* number of the block being executed / last executed *)
  s_bal : list (Z * Z);
  s_nonce : list (Z * Z);
  s_adlgs : list (Z * list Z);
  s_vals : list validator;
  s_stat : vstat;
  s_queue : list wrec;
  s_recs : list prec;
  s_prel : list (Z * Z);
  s_recs_old : list prec;        (* records of the period that have taken effect (they stay in the staking trie until the next period starts) *)
  s_pot : Z;                     (* header.GasRewards of the block being executed *)
  (* ghost counters: value that left or entered the ledger in the listed finding classes *)
  g_minted : Z;                  (* refund-counter gas credited to a sender but still counted as reward *)
  g_dust : Z;                    (* RewardsDistributable of validators deleted at the end of a block *)
  g_dropped : Z;                 (* pending deposits whose records were reset without taking effect *)
  g_dupcreate : Z;               (* a pending create that met an existing validator *)
  g_negwd : Z                    (* value appearing because an amount that is never negative was negative: a negative FinalBalance written off by processWithdrawQueue, a negative penalty amount credited by doPenalize *)
}.

Definition set_number s x := mkState x (s_bal s) (s_nonce s) (s_adlgs s) (s_vals s) (s_stat s) (s_queue s) (s_recs s) (s_prel s) (s_recs_old s) (s_pot s) (g_minted s) (g_dust s) (g_dropped s) (g_dupcreate s) (g_negwd s).
Definition set_bal s x := mkState (s_number s) x (s_nonce s) (s_adlgs s) (s_vals s) (s_stat s) (s_queue s) (s_recs s) (s_prel s) (s_recs_old s) (s_pot s) (g_minted s) (g_dust s) (g_dropped s) (g_dupcreate s) (g_negwd s).
Definition set_nonce s x := mkState (s_number s) (s_bal s) x (s_adlgs s) (s_vals s) (s_stat s) (s_queue s) (s_recs s) (s_prel s) (s_recs_old s) (s_pot s) (g_minted s) (g_dust s) (g_dropped s) (g_dupcreate s) (g_negwd s).
Definition set_adlgs s x := mkState (s_number s) (s_bal s) (s_nonce s) x (s_vals s) (s_stat s) (s_queue s) (s_recs s) (s_prel s) (s_recs_old s) (s_pot s) (g_minted s) (g_dust s) (g_dropped s) (g_dupcreate s) (g_negwd s).
Definition set_vals s x := mkState (s_number s) (s_bal s) (s_nonce s) (s_adlgs s) x (s_stat s) (s_queue s) (s_recs s) (s_prel s) (s_recs_old s) (s_pot s) (g_minted s) (g_dust s) (g_dropped s) (g_dupcreate s) (g_negwd s).
Definition set_stat s x := mkState (s_number s) (s_bal s) (s_nonce s) (s_adlgs s) (s_vals s) x (s_queue s) (s_recs s) (s_prel s) (s_recs_old s) (s_pot s) (g_minted s) (g_dust s) (g_dropped s) (g_dupcreate s) (g_negwd s).
Definition set_queue s x := mkState (s_number s) (s_bal s) (s_nonce s) (s_adlgs s) (s_vals s) (s_stat s) x (s_recs s) (s_prel s) (s_recs_old s) (s_pot s) (g_minted s) (g_dust s) (g_dropped s) (g_dupcreate s) (g_negwd s).
Definition set_recs s x := mkState (s_number s) (s_bal s) (s_nonce s) (s_adlgs s) (s_vals s) (s_stat s) (s_queue s) x (s_prel s) (s_recs_old s) (s_pot s) (g_minted s) (g_dust s) (g_dropped s) (g_dupcreate s) (g_negwd s).
Definition set_prel s x := mkState (s_number s) (s_bal s) (s_nonce s) (s_adlgs s) (s_vals s) (s_stat s) (s_queue s) (s_recs s) x (s_recs_old s) (s_pot s) (g_minted s) (g_dust s) (g_dropped s) (g_dupcreate s) (g_negwd s).
Definition set_recs_old s x := mkState (s_number s) (s_bal s) (s_nonce s) (s_adlgs s) (s_vals s) (s_stat s) (s_queue s) (s_recs s) (s_prel s) x (s_pot s) (g_minted s) (g_dust s) (g_dropped s) (g_dupcreate s) (g_negwd s).
Definition set_pot s x := mkState (s_number s) (s_bal s) (s_nonce s) (s_adlgs s) (s_vals s) (s_stat s) (s_queue s) (s_recs s) (s_prel s) (s_recs_old s) x (g_minted s) (g_dust s) (g_dropped s) (g_dupcreate s) (g_negwd s).
Definition add_minted s x := mkState (s_number s) (s_bal s) (s_nonce s) (s_adlgs s) (s_vals s) (s_stat s) (s_queue s) (s_recs s) (s_prel s) (s_recs_old s) (s_pot s) (g_minted s + x) (g_dust s) (g_dropped s) (g_dupcreate s) (g_negwd s).
Definition add_dust s x := mkState (s_number s) (s_bal s) (s_nonce s) (s_adlgs s) (s_vals s) (s_stat s) (s_queue s) (s_recs s) (s_prel s) (s_recs_old s) (s_pot s) (g_minted s) (g_dust s + x) (g_dropped s) (g_dupcreate s) (g_negwd s).
Definition add_dropped s x := mkState (s_number s) (s_bal s) (s_nonce s) (s_adlgs s) (s_vals s) (s_stat s) (s_queue s) (s_recs s) (s_prel s) (s_recs_old s) (s_pot s) (g_minted s) (g_dust s) (g_dropped s + x) (g_dupcreate s) (g_negwd s).
Definition add_dupcreate s x := mkState (s_number s) (s_bal s) (s_nonce s) (s_adlgs s) (s_vals s) (s_stat s) (s_queue s) (s_recs s) (s_prel s) (s_recs_old s) (s_pot s) (g_minted s) (g_dust s) (g_dropped s) (g_dupcreate s + x) (g_negwd s).
Definition add_negwd s x := mkState (s_number s) (s_bal s) (s_nonce s) (s_adlgs s) (s_vals s) (s_stat s) (s_queue s) (s_recs s) (s_prel s) (s_recs_old s) (s_pot s) (g_minted s) (g_dust s) (g_dropped s) (g_dupcreate s) (g_negwd s + x).

(* ---- the supply ------------------------------------------------------------------- *)

(* balances + staked tokens + distributable rewards of validators + unfinished
   withdrawals + role pools and global residue + deposits pending activation
   + the fees collected in the block being executed *)
Definition supply (s : state) : Z :=
  zsum (s_bal s) + vsum v_token (s_vals s) + vsum v_dist (s_vals s) + unfinished (s_queue s)
  + pools (s_stat s) + pending (s_recs s) + s_pot s.

(* what the finding classes account for *)
Definition leaked (s : state) : Z := g_dust s + g_dropped s + g_dupcreate s - g_minted s - g_negwd s.

(* ---- primitive state operations ---------------------------------------------------- *)

Definition balance (s : state) (a : Z) : Z := zget (s_bal s) a.
Definition add_balance (s : state) (a d : Z) : state := set_bal s (zadd (s_bal s) a d).
Definition sub_balance (s : state) (a d : Z) : state := set_bal s (zadd (s_bal s) a (- d)).
Definition get_val (s : state) (a : Z) : option validator := vget (s_vals s) a.

(* Validator.StakeEqual *)
Definition stake_equal (a b : validator) : bool :=
  (v_role a =? v_role b) && (v_stake a =? v_stake b) && (v_token a =? v_token b) && (v_status a =? v_status b).

(* StateDB.UpdateValidator(newVal, oldVal) *)
Definition update_validator (s : state) (n o : validator) : state :=
  let s1 := set_vals s (vset (s_vals s) n) in
  if stake_equal n o then s1 else set_stat s1 (stat_incr (stat_decr (s_stat s1) o) n).

(* StateDB.CreateValidator for an address that has no validator *)
Definition new_validator (p : params) (c : create_args) : validator :=
  let stake := to_stake p (c_value c) in
  mkVal (c_main c) (c_name c) (c_operator c) (c_coinbase c) (c_role c) 0 false 0 0
        (c_value c) stake (c_value c) stake 0 0 0 (c_accept c) (c_commission c) (c_risk c) [] 0.
Definition create_validator (s : state) (n : validator) : state :=
  set_stat (set_vals s (vset (s_vals s) n)) (stat_incr (s_stat s) n).

Definition add_record (s : state) (d v : Z) (tx : option ptx) (final : option Z) : state :=
  set_recs s (rec_add (s_recs s) d v tx final).

Definition add_withdraw (s : state) (w : wrec) : state := set_queue s (s_queue s ++ [w]).

(* UpdateDelegator: the account's delegation index *)
Definition update_delegator (s : state) (d v : Z) (delete : bool) : state :=
  let l := ad_get (s_adlgs s) d in
  if sl_mem l v then (if delete then set_adlgs s (ad_set (s_adlgs s) d (sl_remove l v)) else s)
  else (if delete then s else set_adlgs s (ad_set (s_adlgs s) d (sl_insert l v))).

(* StateDB.UpdateDelegation (statedb_staking.go:245): returns new state, new validator,
   new delegation entry, stake delta, deleted flag.  [None] = the Noop returns. *)
Definition apply_delegation (p : params) (s : state) (d : Z) (val : validator) (df : dlg) (delta : Z)
  : state * validator * dlg * Z * bool :=
  let tok := d_token df + delta in
  let nstake := to_stake p tok in
  let sdelta := nstake - d_stake df in
  let df' := mkDlg d nstake tok in
  let ld := dl_update (v_dlgs val) df' in
  let nv := set_v_dlgs (set_v_money val (v_token val + delta) (v_stake val + sdelta) (v_self_token val) (v_self_stake val)) (fst ld) in
  let s1 := update_validator s nv val in
  (update_delegator s1 d (v_addr val) (snd ld), nv, df', sdelta, snd ld).

Definition update_delegation (p : params) (s : state) (d : Z) (val : validator) (delta : Z)
  : option (state * validator * dlg * Z * bool) :=
  if delta =? 0 then None else
  match dl_get (v_dlgs val) d with
  | None => if delta <? 0 then None else Some (apply_delegation p s d val (mkDlg d 0 0) delta)
  | Some x => Some (apply_delegation p s d val x delta)
  end.
