(* C07 - property theorems only.  Each is closed by [exact] of a lemma of the
   Proofs files and followed by Print Assumptions.

   The ledger [state], the supply function and the model of the Go code are in
   Ledger.v / Model.v.  [supply s] = all balances + all validator tokens + all
   validator distributable rewards + unfinished withdrawals + the three role
   pools + the global residue + deposits of pending records + the fees of the
   block being executed (0 at block boundaries).  [leaked s] adds up the ghost
   counters of the finding classes: value the CURRENT code creates or destroys
     g_minted    refund-counter gas credited to a sender and still counted as reward
     g_dust      distributable rewards of a validator deleted at the end of a block
     g_dropped   deposits of pending records reset without having taken effect
   and of two anomalies that are proved never to occur (C07_create_never_dropped,
   C07_value_invariant; every in-Coq model run still flags a history on which
   one of them moves: field 9 of the comparison)
     g_dupcreate a pending create that meets an existing validator
     g_negwd     a negative FinalBalance written off / a negative penalty credited. *)
From VF.C07 Require Import Model ProofsLedger ProofsTx ProofsSlash ProofsRewards ProofsEffect ProofsInv ProofsPos.
From Coq Require Import Lia.
Local Open Scope Z_scope.

(* The property at full strength: along every chain of blocks the supply is constant. *)
Definition C07_full : Prop :=
  forall p s l s', wf p s -> Forall block_ok l -> run_chain p s l = Ok s' -> supply s' = supply s.

(* Exact accounting over ALL chains: any parameters, any number of blocks, any
   transactions (valid or not), evidences, proposers.  [wf]: the global residue
   is not negative and the pending transactions passed PreCheck (both are
   re-established by every block); [block_ok]: a contract-execution oracle only
   moves value (sum of its balance deltas = 0). *)
Theorem C07_conserved :
  forall p l s s', wf p s -> Forall block_ok l -> run_chain p s l = Ok s' ->
    supply s' + leaked s' = supply s + leaked s /\ wf p s'.
Proof. exact run_chain_total. Qed.
Print Assumptions C07_conserved.

(* Outside the finding classes the supply is constant. *)
Lemma holds_outside : forall p l s s', wf p s -> Forall block_ok l -> run_chain p s l = Ok s' ->
  g_minted s' = g_minted s -> g_dust s' = g_dust s -> g_dropped s' = g_dropped s ->
  g_dupcreate s' = g_dupcreate s -> g_negwd s' = g_negwd s -> supply s' = supply s.
Proof.
  intros p l s s' W B R H1 H2 H3 H4 H5. destruct (run_chain_total p l s s' W B R) as [T _].
  unfold total, leaked in T. lia.
Qed.
(* A pending create never meets an existing validator: along every chain that
   starts from a ledger whose pending creates are for distinct addresses, sit in
   the record (0, address) and are not validators yet ([cinv], re-established by
   every block), the counter g_dupcreate does not move. *)
Theorem C07_create_never_dropped :
  forall p l s s', cinv s -> run_chain p s l = Ok s' -> g_dupcreate s' = g_dupcreate s /\ cinv s'.
Proof. exact run_chain_dup. Qed.
Print Assumptions C07_create_never_dropped.

(* The value-level invariant of the ledger [pos]: every validator's tokens are
   its own tokens plus the tokens of its delegations, all of them non-negative,
   the delegation lists are sorted by delegator, no withdraw record has a
   negative balance (this ledger's restatement of the token clause of
   C08_value_level_invariant: totals = own + delegations).  It is preserved by
   every block of every chain, and along it the anomaly counter g_negwd never
   moves: no negative withdraw balance is written off, no negative penalty is
   credited.  [pok p]: the double-sign penalty fraction is not negative. *)
Theorem C07_value_invariant :
  forall p l s s', pok p -> wf p s -> pos s -> Forall block_ok l -> run_chain p s l = Ok s' ->
    pos s' /\ g_negwd s' = g_negwd s.
Proof. exact run_chain_pos. Qed.
Print Assumptions C07_value_invariant.

(* a genesis ledger: validators without delegations whose tokens are their own
   non-negative tokens, no withdraw record, no pending record, residue >= 0
   (what genesis allocation through CreateValidator produces) *)
Definition genesis_like (s : state) : Prop :=
  s_recs s = [] /\ s_queue s = [] /\ 0 <= residue_of s /\
  Forall (fun v => v_dlgs v = [] /\ v_token v = v_self_token v /\ 0 <= v_self_token v) (s_vals s).

Lemma genesis_establishes : forall p s, genesis_like s -> wf p s /\ cinv s /\ pos s.
Proof.
  intros p s (Hr & Hq & Hres & Hv). split; [split; [exact Hres|unfold recs_checked; rewrite Hr; constructor]|].
  split; [unfold cinv; rewrite Hr; cbn; repeat split; [constructor|constructor|contradiction]|].
  split; [|unfold qok; rewrite Hq; constructor].
  eapply Forall_impl; [|exact Hv]. intros v (D & T & S). unfold vok. rewrite D. cbn.
  split; [exact S|]. split; [split; [exists 0; exact I|constructor]|lia].
Qed.
Theorem C07_genesis_establishes : forall p s, genesis_like s -> wf p s /\ cinv s /\ pos s.
Proof. exact genesis_establishes. Qed.
Print Assumptions C07_genesis_establishes.

(* The property outside the open findings: along every chain on which none of
   the three finding classes occurs (no refund-counter gas minted, no validator
   deleted with undistributed rewards, no pending record dropped) the supply is
   constant.  The two anomaly counters are disposed of by
   C07_create_never_dropped and C07_value_invariant. *)
Lemma holds_outside3 : forall p l s s', pok p -> wf p s -> cinv s -> pos s -> Forall block_ok l -> run_chain p s l = Ok s' ->
  g_minted s' = g_minted s -> g_dust s' = g_dust s -> g_dropped s' = g_dropped s -> supply s' = supply s.
Proof.
  intros p l s s' K W C P B R H1 H2 H3.
  destruct (run_chain_dup p l s s' C R) as [H4 _]. destruct (run_chain_pos p l s s' K W P B R) as [_ H5].
  eapply holds_outside; eauto.
Qed.
Theorem C07_holds_outside :
  forall p l s s', pok p -> wf p s -> cinv s -> pos s -> Forall block_ok l -> run_chain p s l = Ok s' ->
    g_minted s' = g_minted s -> g_dust s' = g_dust s -> g_dropped s' = g_dropped s -> supply s' = supply s.
Proof. exact holds_outside3. Qed.
Print Assumptions C07_holds_outside.

Lemma holds_outside_genesis : forall p l s s', pok p -> genesis_like s -> Forall block_ok l -> run_chain p s l = Ok s' ->
  g_minted s' = g_minted s -> g_dust s' = g_dust s -> g_dropped s' = g_dropped s -> supply s' = supply s.
Proof. intros p l s s' K G. destruct (genesis_establishes p s G) as (W & C & P). apply holds_outside3; auto. Qed.
Theorem C07_holds_outside_from_genesis :
  forall p l s s', pok p -> genesis_like s -> Forall block_ok l -> run_chain p s l = Ok s' ->
    g_minted s' = g_minted s -> g_dust s' = g_dust s -> g_dropped s' = g_dropped s -> supply s' = supply s.
Proof. exact holds_outside_genesis. Qed.
Print Assumptions C07_holds_outside_from_genesis.

(* where exactly the two anomaly counters could move (local facts used above) *)
Lemma anomalies_local :
  (forall s w s1 w1, withdraw_step s w = (s1, w1) -> 0 <= w_final w -> g_negwd s1 = g_negwd s /\ g_dupcreate s1 = g_dupcreate s) /\
  (forall p s typ val amount s', do_penalize p s typ val amount = Ok s' -> 0 <= amount -> g_negwd s' = g_negwd s /\ g_dupcreate s' = g_dupcreate s) /\
  (forall p s id from c s', take_effect p s (mkPtx id from (ACreate c)) = Ok s' -> get_val s (c_main c) = None ->
     g_dupcreate s' = g_dupcreate s /\ g_negwd s' = g_negwd s /\ get_val s' (c_main c) = Some (new_validator p c)).
Proof. split; [exact anomaly_withdraw|split; [exact anomaly_penalty|exact anomaly_create]]. Qed.
Theorem C07_anomalies_local :
  (forall s w s1 w1, withdraw_step s w = (s1, w1) -> 0 <= w_final w -> g_negwd s1 = g_negwd s /\ g_dupcreate s1 = g_dupcreate s) /\
  (forall p s typ val amount s', do_penalize p s typ val amount = Ok s' -> 0 <= amount -> g_negwd s' = g_negwd s /\ g_dupcreate s' = g_dupcreate s) /\
  (forall p s id from c s', take_effect p s (mkPtx id from (ACreate c)) = Ok s' -> get_val s (c_main c) = None ->
     g_dupcreate s' = g_dupcreate s /\ g_negwd s' = g_negwd s /\ get_val s' (c_main c) = Some (new_validator p c)).
Proof. exact anomalies_local. Qed.
Print Assumptions C07_anomalies_local.

(* ---- witnesses: the faithful model of the current code does not conserve ---------- *)

Definition ex_p : params :=
  mkParams 2 [10;5;2] [100;60;30] [5;5;0] [3;3;4] 1 9000 5 1 2 4 6 4 2 2 1 50 3 2 2000 1000 10000 900000 3 [(0,6);(0,5);(7,5);(7,6)].
Definition ex_A := mkVal 5 1 7 7 1 1 false 0 0 20000 20 20000 20 0 0 0 1 1000 500 [] 0.
Definition ex_B := mkVal 6 2 8 8 3 1 false 0 0 5000 5 5000 5 0 0 0 1 0 0 [] 0.
Definition ex_stat0 := mkStat k_zero k_zero k_zero k_zero k_zero k_zero.
Definition ex_s : state :=
  mkState 0 [(1,1000000);(7,5000000);(8,5000000)] [] [] [ex_A; ex_B] (stat_incr (stat_incr ex_stat0 ex_A) ex_B) [] [] [] [] 0 0 0 0 0 0.
(* last block of a period: B's operator withdraws B's whole stake, and a contract call earns a gas refund *)
Definition ex_b1 := mkBlock 5 [mkTx 0 8 0 200000 1 100500 (TxStake (AWithdraw 6 8 5000)); mkTx 1 7 0 100000 2 21000 (TxCall 9 0 26001 13000 [])] [].
(* all validators offline, a deposit is pending when the period ends *)
Definition ex_Aoff := set_v_status ex_A 0.
Definition ex_s2 : state := mkState 0 [(7,5000000)] [] [] [ex_Aoff] (stat_incr ex_stat0 ex_Aoff) [] [] [] [] 0 0 0 0 0 0.
Definition ex_c1 := mkBlock 5 [mkTx 0 7 0 200000 0 100500 (TxStake (ADeposit 5 3000))] [].
Definition ex_c2 := mkBlock 5 [] [].

Lemma wf_ex_s : wf ex_p ex_s. Proof. split; [vm_compute; discriminate|constructor]. Qed.
Lemma wf_ex_s2 : wf ex_p ex_s2. Proof. split; [vm_compute; discriminate|constructor]. Qed.
Lemma ok_ex_b1 : Forall block_ok [ex_b1]. Proof. repeat constructor. Qed.
Lemma ok_ex_c : Forall block_ok [ex_c1; ex_c2]. Proof. repeat constructor. Qed.

Lemma refuted : ~ C07_full.
Proof.
  intros F.
  destruct (run_chain ex_p ex_s [ex_b1]) as [s'|] eqn:E; [|vm_compute in E; discriminate].
  pose proof (F ex_p ex_s [ex_b1] s' wf_ex_s ok_ex_b1 E) as H.
  vm_compute in E. injection E as <-. vm_compute in H. discriminate.
Qed.
Theorem C07_refuted : ~ C07_full.
Proof. exact refuted. Qed.
Print Assumptions C07_refuted.

(* each of the three open classes is reachable in the model (and was replayed on the implementation, see corpus) *)
Lemma refuted_classes :
  (exists s', run_chain ex_p ex_s [ex_b1] = Ok s' /\ g_minted s' = 26000 /\ g_dust s' = 4 /\ supply s' = supply ex_s + 26000 - 4) /\
  (exists s', run_chain ex_p ex_s2 [ex_c1; ex_c2] = Ok s' /\ g_dropped s' = 3000 /\ supply s' = supply ex_s2 - 3000).
Proof. split; eexists; (split; [vm_compute; reflexivity|vm_compute; repeat split]). Qed.
Theorem C07_refuted_classes :
  (exists s', run_chain ex_p ex_s [ex_b1] = Ok s' /\ g_minted s' = 26000 /\ g_dust s' = 4 /\ supply s' = supply ex_s + 26000 - 4) /\
  (exists s', run_chain ex_p ex_s2 [ex_c1; ex_c2] = Ok s' /\ g_dropped s' = 3000 /\ supply s' = supply ex_s2 - 3000).
Proof. exact refuted_classes. Qed.
Print Assumptions C07_refuted_classes.

(* ---- flow statements --------------------------------------------------------------------- *)

(* Fees paid equal rewards credited: an included transaction changes
   (all balances + pending deposits + fee pot - refund class) by nothing. *)
Theorem C07_fees_equal_rewards :
  forall p s t s', tx_ok t -> apply_tx p s t = Some s' ->
    zsum (s_bal s') + pending (s_recs s') + s_pot s' - g_minted s'
    = zsum (s_bal s) + pending (s_recs s) + s_pot s - g_minted s.
Proof. exact tx_fee_flow. Qed.
Print Assumptions C07_fees_equal_rewards.

(* The block reward is fees + residue + subsidy; the subsidy comes out of the
   rewards pool account and out of nothing else. *)
Theorem C07_subsidy_from_pool :
  forall p s tot s1, 0 <= residue_of s -> block_rewards p s (residue_of s) = (tot, s1) ->
  exists g sb, 0 <= g /\ 0 <= sb /\ tot = g + residue_of s + sb /\
    supply s1 = supply s - g - sb /\ leaked s1 = leaked s /\ s_stat s1 = s_stat s /\ s_vals s1 = s_vals s
    /\ s_number s1 = s_number s
    /\ zget (s_bal s1) (p_pool p) = zget (s_bal s) (p_pool p) - sb
    /\ (forall a, a <> p_pool p -> zget (s_bal s1) a = zget (s_bal s) a).
Proof. exact block_rewards_split. Qed.
Print Assumptions C07_subsidy_from_pool.

(* Fees, residue and subsidy are split between proposer, house pool and new residue without loss. *)
Theorem C07_block_rewards_exact :
  forall p s cb s', 0 <= residue_of s -> rewards_to_pool p s cb = Ok s' ->
    supply s' + leaked s' = supply s + leaked s /\ 0 <= residue_of s'.
Proof. exact rewards_to_pool_total. Qed.
Print Assumptions C07_block_rewards_exact.

(* A penalty only moves value, and what it takes arrives at PenaltyTo and nowhere else. *)
Theorem C07_penalty_conserves :
  forall p s typ val amount s', stored s val -> do_penalize p s typ val amount = Ok s' ->
    supply s' + leaked s' = supply s + leaked s /\ residue_of s' = residue_of s.
Proof. exact do_penalize_same. Qed.
Print Assumptions C07_penalty_conserves.
Theorem C07_penalty_arrives :
  forall p s typ val amount s', do_penalize p s typ val amount = Ok s' ->
    exists tot, zsum (s_bal s') = zsum (s_bal s) + tot /\ zget (s_bal s') (p_penalty_to p) = zget (s_bal s) (p_penalty_to p) + tot
              /\ forall a, a <> p_penalty_to p -> zget (s_bal s') a = zget (s_bal s) a.
Proof. exact penalty_arrives. Qed.
Print Assumptions C07_penalty_arrives.

(* Withdrawn stake returns exactly once: only an unfinished record pays, paying
   finishes it, a finished record stays finished and untouched. *)
Theorem C07_withdraw_paid_once :
  forall s w s1 w1, withdraw_step s w = (s1, w1) ->
    (w_finished w = 1 -> w_finished w1 = 1 /\ s_bal s1 = s_bal s) /\
    (s_bal s1 <> s_bal s -> w_finished w = 0 /\ w_finished w1 = 1 /\ s_bal s1 = zadd (s_bal s) (w_recipient w) (w_final w)) /\
    w_final w1 = w_final w.
Proof. exact withdraw_step_once. Qed.
Print Assumptions C07_withdraw_paid_once.
Theorem C07_withdraw_queue_conserves :
  forall p s, (supply (process_withdraw_queue p s) + leaked (process_withdraw_queue p s) = supply s + leaked s
               /\ residue_of (process_withdraw_queue p s) = residue_of s) /\
    s_number (process_withdraw_queue p s) = s_number s /\ s_recs (process_withdraw_queue p s) = s_recs s.
Proof. exact process_withdraw_queue_same. Qed.
Print Assumptions C07_withdraw_queue_conserves.

(* A settlement pays out exactly what leaves the validator's distributable
   amount; the period-end distribution (including the forced settlements that
   follow a distribution) hands out exactly what leaves the role pools. *)
Theorem C07_settlement_exact :
  forall p s val s', stored s val -> settle_rewards p s val = Ok s' ->
    supply s' + leaked s' = supply s + leaked s /\ residue_of s' = residue_of s.
Proof. exact settle_rewards_same. Qed.
Print Assumptions C07_settlement_exact.
Theorem C07_distribution_exact :
  forall p s s' st, distribute_rewards p s = Ok (Some (s', st)) ->
    (supply s' + leaked s' = supply s + leaked s /\ residue_of s' = residue_of s) /\ s_number s' = s_number s.
Proof. exact distribute_rewards_same. Qed.
Print Assumptions C07_distribution_exact.

(* An activation moves exactly the detained amount of the pending transaction
   into the ledger: to the validator's tokens, or (failed activation, version 5)
   back to the sender. *)
Theorem C07_activation_exact :
  forall p s pt s', tx_checked p pt -> take_effect p s pt = Ok s' ->
    supply s' + leaked s' = supply s + leaked s + detained (pt_act pt) /\ residue_of s' = residue_of s /\ s_recs s' = s_recs s.
Proof. exact take_effect_total. Qed.
Print Assumptions C07_activation_exact.

(* ---- non-vacuity ------------------------------------------------------------------------------ *)

(* a well-formed ledger, an admissible two-transaction block that runs to the
   end of a staking period (rewards, distribution, settlement, withdrawal, deletion) *)
Example C07_nonvacuous_chain :
  wf ex_p ex_s /\ Forall block_ok [ex_b1] /\ exists s', run_chain ex_p ex_s [ex_b1] = Ok s' /\ s_number s' = 1 /\ length (s_vals s') = 1%nat.
Proof. split; [exact wf_ex_s|]. split; [exact ok_ex_b1|]. eexists. split; [vm_compute; reflexivity|]. split; reflexivity. Qed.
Print Assumptions C07_nonvacuous_chain.

Example C07_nonvacuous_tx :
  let t := mkTx 0 8 0 200000 1 100500 (TxStake (AWithdraw 6 8 5000)) in
  tx_ok t /\ exists s', apply_tx ex_p (begin_block ex_p ex_s) t = Some s' /\ s_pot s' = 100500.
Proof. split; [exact I|]. eexists. split; [vm_compute; reflexivity|reflexivity]. Qed.
Print Assumptions C07_nonvacuous_tx.

Example C07_nonvacuous_penalty :
  stored ex_s ex_A /\ exists s', do_penalize ex_p ex_s PDoubleSign ex_A 400 = Ok s' /\ zget (s_bal s') (p_penalty_to ex_p) = 400.
Proof. split; [reflexivity|]. eexists. split; [vm_compute; reflexivity|reflexivity]. Qed.
Print Assumptions C07_nonvacuous_penalty.

Example C07_nonvacuous_rewards :
  0 <= residue_of ex_s /\ (exists tot s1, block_rewards ex_p ex_s (residue_of ex_s) = (tot, s1) /\ tot = 4500) /\
  exists s', rewards_to_pool ex_p ex_s 5 = Ok s' /\ residue_of s' = 6.
Proof. split; [vm_compute; discriminate|]. split; [do 2 eexists; split; vm_compute; reflexivity|]. eexists. split; vm_compute; reflexivity. Qed.
Print Assumptions C07_nonvacuous_rewards.

Example C07_nonvacuous_settlement :
  let v := set_v_rewards ex_A 7777 7777 0 in let s := update_validator ex_s v ex_A in
  stored s v /\ exists s', settle_rewards ex_p s v = Ok s' /\ zget (s_bal s') 7 = 5000000 + 7777.
Proof. split; [reflexivity|]. eexists. split; vm_compute; reflexivity. Qed.
Print Assumptions C07_nonvacuous_settlement.

Example C07_nonvacuous_withdraw :
  let w := mkW 8 0 6 8 1 3 5000 5000 0 in
  exists s1 w1, withdraw_step (set_number ex_s 4) w = (s1, w1) /\ w_finished w1 = 1 /\ zget (s_bal s1) 8 = 5005000.
Proof. do 2 eexists. split; [vm_compute; reflexivity|split; reflexivity]. Qed.
Print Assumptions C07_nonvacuous_withdraw.

Example C07_nonvacuous_activation :
  let pt := mkPtx 0 7 (ADeposit 5 3000) in
  tx_checked ex_p pt /\ exists s', take_effect ex_p ex_s pt = Ok s' /\ opt_f v_token (get_val s' 5) = 23000.
Proof. split; [reflexivity|]. eexists. split; vm_compute; reflexivity. Qed.
Print Assumptions C07_nonvacuous_activation.

(* a ledger with a pending create satisfies the invariant of C07_create_never_dropped *)
Lemma cinv_ex_s : cinv ex_s. Proof. unfold cinv. cbn. repeat split; [constructor|constructor|contradiction]. Qed.
Example C07_nonvacuous_create :
  let t := mkTx 0 7 0 2000000 1 101660 (TxStake (ACreate (mkCreate 3 7 8 9 2 6000 1 100 10000))) in
  cinv ex_s /\ exists s', apply_tx ex_p (begin_block ex_p ex_s) t = Some s' /\ creates (s_recs s') = [9] /\ cinv s'.
Proof.
  intro t. split; [exact cinv_ex_s|].
  destruct (apply_tx ex_p (begin_block ex_p ex_s) t) as [s'|] eqn:E; [|vm_compute in E; discriminate].
  exists s'. split; [reflexivity|].
  split; [|eapply apply_tx_cinv; [apply begin_block_cinv; exact cinv_ex_s|exact E]].
  vm_compute in E. injection E as <-. reflexivity.
Qed.
Print Assumptions C07_nonvacuous_create.

(* the example ledger is a genesis ledger, and its parameters meet [pok] *)
Example C07_nonvacuous_invariant : pok ex_p /\ genesis_like ex_s /\ pos ex_s /\ vsum v_token (s_vals ex_s) = 25000.
Proof.
  split; [vm_compute; discriminate|]. assert (G : genesis_like ex_s).
  { split; [reflexivity|]. split; [reflexivity|]. split; [vm_compute; discriminate|].
    repeat constructor; vm_compute; discriminate. }
  split; [exact G|]. split; [apply (genesis_establishes ex_p ex_s G)|reflexivity].
Qed.
Print Assumptions C07_nonvacuous_invariant.
