(* C07 - lemmas about the ledger primitives: sums over the maps, frames of the
   state setters, and the effect of every primitive operation on the supply. *)
From VF.C07 Require Import Ledger.
From Coq Require Import Lia ZifyBool.
Open Scope Z_scope.

(* ---- tactics ---------------------------------------------------------------- *)

Ltac break_match :=
  match goal with
  | [ |- context [ match ?x with _ => _ end ] ] => destruct x eqn:?
  | [ H : context [ match ?x with _ => _ end ] |- _ ] => destruct x eqn:?
  end.

Ltac inv H := inversion H; subst; clear H.

(* reduce projections of the state setters, nothing else *)
Ltac sproj :=
  cbn [s_number s_bal s_nonce s_adlgs s_vals s_stat s_queue s_recs s_prel s_recs_old s_pot
       g_minted g_dust g_dropped g_dupcreate g_negwd
       set_number set_bal set_nonce set_adlgs set_vals set_stat set_queue set_recs set_prel set_recs_old set_pot
       add_minted add_dust add_dropped add_dupcreate add_negwd] in *.

(* ---- maps ------------------------------------------------------------------- *)

Lemma zsum_zadd : forall m a d, zsum (zadd m a d) = zsum m + d.
Proof.
  induction m as [|[k v] r IH]; intros a d; cbn [zadd zsum fold_right snd].
  - lia.
  - destruct (k =? a); cbn [zsum fold_right snd] in *.
    + lia.
    + fold (zsum (zadd r a d)). fold (zsum r). rewrite IH. lia.
Qed.

Lemma zget_zadd_same : forall m a d, zget (zadd m a d) a = zget m a + d.
Proof.
  induction m as [|[k v] r IH]; intros a d; cbn [zadd zget].
  - rewrite Z.eqb_refl. lia.
  - destruct (k =? a) eqn:E; cbn [zget]; rewrite E; auto.
Qed.

Lemma zget_zadd_other : forall m a b d, a <> b -> zget (zadd m a d) b = zget m b.
Proof.
  induction m as [|[k v] r IH]; intros a b d Hne; cbn [zadd zget].
  - destruct (a =? b) eqn:E; [lia|reflexivity].
  - destruct (k =? a) eqn:E; cbn [zget].
    + destruct (k =? b) eqn:E2; [lia|reflexivity].
    + destruct (k =? b); auto.
Qed.

(* ---- validators -------------------------------------------------------------- *)

Lemma vget_addr : forall l a v, vget l a = Some v -> v_addr v = a.
Proof.
  induction l as [|x r IH]; intros a v H; cbn [vget] in H; [discriminate|].
  destruct (v_addr x =? a) eqn:E; [inv H; lia|eauto].
Qed.

Definition opt_f (f : validator -> Z) (o : option validator) : Z := match o with Some v => f v | None => 0 end.

Lemma vsum_vset : forall f l n, vsum f (vset l n) = vsum f l - opt_f f (vget l (v_addr n)) + f n.
Proof.
  intros f; induction l as [|x r IH]; intros n; cbn [vset vsum vget fold_right opt_f].
  - lia.
  - destruct (v_addr x =? v_addr n) eqn:E; cbn [vsum fold_right opt_f].
    + lia.
    + fold (vsum f (vset r n)). fold (vsum f r). rewrite IH. lia.
Qed.

Lemma vget_vset_same : forall l n, vget (vset l n) (v_addr n) = Some n.
Proof.
  induction l as [|x r IH]; intros n; cbn [vset vget].
  - rewrite Z.eqb_refl. reflexivity.
  - destruct (v_addr x =? v_addr n) eqn:E; cbn [vget].
    + rewrite Z.eqb_refl. reflexivity.
    + rewrite E. apply IH.
Qed.

Lemma vget_vset_other : forall l n a, a <> v_addr n -> vget (vset l n) a = vget l a.
Proof.
  induction l as [|x r IH]; intros n a Hne; cbn [vset vget].
  - destruct (v_addr n =? a) eqn:E; [lia|reflexivity].
  - destruct (v_addr x =? v_addr n) eqn:E; cbn [vget].
    + destruct (v_addr n =? a) eqn:E1; [lia|]. destruct (v_addr x =? a) eqn:E2; [lia|reflexivity].
    + destruct (v_addr x =? a); auto.
Qed.

(* ---- statistics: the money fields are never touched by AddVal / SubVal -------- *)

Lemma k_add_val_money : forall k o st tk, k_residue (k_add_val k o st tk) = k_residue k /\ k_rewards (k_add_val k o st tk) = k_rewards k.
Proof. intros; unfold k_add_val; destruct o; cbn; auto. Qed.
Lemma k_sub_val_money : forall k o st tk, k_residue (k_sub_val k o st tk) = k_residue k /\ k_rewards (k_sub_val k o st tk) = k_rewards k.
Proof. intros; unfold k_sub_val; destruct o; cbn; auto. Qed.

Definition money_pres (f : kstat -> bool -> Z -> Z -> kstat) : Prop :=
  forall k o st tk, k_residue (f k o st tk) = k_residue k /\ k_rewards (f k o st tk) = k_rewards k.

Lemma stat_apply_money : forall f t v, money_pres f ->
  k_rewards (st_r1 (stat_apply t v f)) = k_rewards (st_r1 t) /\
  k_rewards (st_r2 (stat_apply t v f)) = k_rewards (st_r2 t) /\
  k_rewards (st_r3 (stat_apply t v f)) = k_rewards (st_r3 t) /\
  k_residue (st_k0 (stat_apply t v f)) = k_residue (st_k0 t).
Proof.
  intros f t v Hf. unfold stat_apply, set_role_stat, map_kind_of_role, set_k0, role_stat.
  destruct (v_role v =? 1), (v_role v =? 2); cbn;
    repeat match goal with |- context [f ?k ?o ?a ?b] => destruct (Hf k o a b) as [? ?]; generalize dependent (f k o a b); intros end;
    repeat split; congruence.
Qed.

Lemma stat_incr_money : forall t v,
  k_rewards (st_r1 (stat_incr t v)) = k_rewards (st_r1 t) /\
  k_rewards (st_r2 (stat_incr t v)) = k_rewards (st_r2 t) /\
  k_rewards (st_r3 (stat_incr t v)) = k_rewards (st_r3 t) /\
  k_residue (st_k0 (stat_incr t v)) = k_residue (st_k0 t).
Proof. intros; apply stat_apply_money; intros k o a b; apply k_add_val_money. Qed.
Lemma stat_decr_money : forall t v,
  k_rewards (st_r1 (stat_decr t v)) = k_rewards (st_r1 t) /\
  k_rewards (st_r2 (stat_decr t v)) = k_rewards (st_r2 t) /\
  k_rewards (st_r3 (stat_decr t v)) = k_rewards (st_r3 t) /\
  k_residue (st_k0 (stat_decr t v)) = k_residue (st_k0 t).
Proof. intros; apply stat_apply_money; intros k o a b; apply k_sub_val_money. Qed.

(* the four money fields of the statistics as one tuple *)
Definition money (t : vstat) : Z * Z * Z * Z :=
  (k_rewards (st_r1 t), k_rewards (st_r2 t), k_rewards (st_r3 t), k_residue (st_k0 t)).

Lemma money_incr : forall t v, money (stat_incr t v) = money t.
Proof. intros; unfold money; destruct (stat_incr_money t v) as (a & b & c & d); congruence. Qed.
Lemma money_decr : forall t v, money (stat_decr t v) = money t.
Proof. intros; unfold money; destruct (stat_decr_money t v) as (a & b & c & d); congruence. Qed.
Lemma pools_money : forall t u, money t = money u -> pools t = pools u.
Proof. unfold money, pools; intros t u H; inv H; lia. Qed.
Lemma role_rewards_money : forall t u r, money t = money u -> k_rewards (role_stat t r) = k_rewards (role_stat u r).
Proof. unfold money, role_stat; intros t u r H; inv H; destruct (r =? 1), (r =? 2); auto. Qed.
Lemma residue_money : forall t u, money t = money u -> k_residue (st_k0 t) = k_residue (st_k0 u).
Proof. unfold money; intros t u H; inv H; auto. Qed.

(* ---- pending records ------------------------------------------------------------ *)

Definition tx_detained (tx : option ptx) : Z := match tx with Some t => detained (pt_act t) | None => 0 end.

Lemma rec_pending_app : forall l t, fold_right (fun t a => detained (pt_act t) + a) 0 (l ++ [t])
                                   = fold_right (fun t a => detained (pt_act t) + a) 0 l + detained (pt_act t).
Proof. induction l as [|x r IH]; intros t; cbn [app fold_right]; [lia|rewrite IH; lia]. Qed.

Lemma rec_pending_upd : forall r tx final, rec_pending (rec_upd r tx final) = rec_pending r + tx_detained tx.
Proof.
  intros r tx final. unfold rec_pending, rec_upd, tx_detained.
  destruct tx; cbn [r_txs]; [apply rec_pending_app|lia].
Qed.

Lemma pending_rec_add : forall l d v tx final, pending (rec_add l d v tx final) = pending l + tx_detained tx.
Proof.
  induction l as [|r t IH]; intros d v tx final; cbn [rec_add pending fold_right].
  - rewrite rec_pending_upd. unfold rec_pending. cbn. lia.
  - destruct ((r_d r =? d) && (r_v r =? v)); cbn [pending fold_right].
    + rewrite rec_pending_upd. lia.
    + fold (pending (rec_add t d v tx final)). fold (pending t). rewrite IH. lia.
Qed.

(* ---- withdraw queue -------------------------------------------------------------- *)

Lemma unfinished_cons : forall w q, unfinished (w :: q) = (if w_finished w =? 0 then w_final w else 0) + unfinished q.
Proof. reflexivity. Qed.

Lemma unfinished_app : forall q w, unfinished (q ++ [w]) = unfinished q + (if w_finished w =? 0 then w_final w else 0).
Proof. induction q as [|x r IH]; intros w; cbn [app unfinished fold_right]; [lia|fold (unfinished (r ++ [w])); fold (unfinished r); rewrite IH; lia]. Qed.

(* ---- the conserved quantity --------------------------------------------------------- *)

Definition total (s : state) : Z := supply s + leaked s.
Definition residue_of (s : state) : Z := k_residue (st_k0 (s_stat s)).

(* a step that neither creates nor destroys value and keeps the global residue *)
Definition same (s s' : state) : Prop := total s' = total s /\ residue_of s' = residue_of s.

Lemma same_refl : forall s, same s s.
Proof. split; reflexivity. Qed.
Lemma same_trans : forall a b c, same a b -> same b c -> same a c.
Proof. unfold same; intros a b c [? ?] [? ?]; split; congruence. Qed.

Lemma supply_add_balance : forall s a d, supply (add_balance s a d) = supply s + d.
Proof. intros; unfold supply, add_balance; sproj. rewrite zsum_zadd. lia. Qed.
Lemma supply_sub_balance : forall s a d, supply (sub_balance s a d) = supply s - d.
Proof. intros; unfold supply, sub_balance; sproj. rewrite zsum_zadd. lia. Qed.

Definition vmoney (v : validator) : Z := v_token v + v_dist v.

Lemma stake_equal_or : forall (b : bool) (s : state) t, money (s_stat (if b then s else set_stat s t)) = money (if b then s_stat s else t).
Proof. intros [] s t; reflexivity. Qed.

Lemma update_validator_money : forall s n o, money (s_stat (update_validator s n o)) = money (s_stat s).
Proof.
  intros; unfold update_validator. destruct (stake_equal n o); cbn; auto.
  rewrite money_incr, money_decr. reflexivity.
Qed.

Lemma update_validator_vals : forall s n o, s_vals (update_validator s n o) = vset (s_vals s) n.
Proof. intros; unfold update_validator; destruct (stake_equal n o); reflexivity. Qed.

Lemma supply_update_validator : forall s n o,
  supply (update_validator s n o) = supply s - opt_f vmoney (vget (s_vals s) (v_addr n)) + vmoney n.
Proof.
  intros. unfold supply. rewrite update_validator_vals, !vsum_vset.
  rewrite (pools_money _ _ (update_validator_money s n o)).
  assert (F : forall s0, s_bal (update_validator s0 n o) = s_bal s0 /\ s_queue (update_validator s0 n o) = s_queue s0
            /\ s_recs (update_validator s0 n o) = s_recs s0 /\ s_pot (update_validator s0 n o) = s_pot s0).
  { intros; unfold update_validator; destruct (stake_equal n o); cbn; auto. }
  destruct (F s) as (-> & -> & -> & ->).
  unfold vmoney. destruct (vget (s_vals s) (v_addr n)); cbn [opt_f]; lia.
Qed.

Lemma leaked_update_validator : forall s n o, leaked (update_validator s n o) = leaked s.
Proof. intros; unfold update_validator, leaked; destruct (stake_equal n o); reflexivity. Qed.

(* the validator record a function was handed is the one the ledger stores *)
Definition stored (s : state) (v : validator) : Prop := vget (s_vals s) (v_addr v) = Some v.

Lemma total_update_validator : forall s n o, stored s o -> v_addr n = v_addr o ->
  total (update_validator s n o) = total s + vmoney n - vmoney o.
Proof.
  intros s n o Hs Ha. unfold total. rewrite supply_update_validator, leaked_update_validator.
  rewrite Ha, Hs. cbn [opt_f]. lia.
Qed.

Lemma residue_update_validator : forall s n o, residue_of (update_validator s n o) = residue_of s.
Proof. intros; unfold residue_of; apply residue_money, update_validator_money. Qed.

Lemma stored_update_validator : forall s n o, stored (update_validator s n o) n.
Proof. intros; unfold stored; rewrite update_validator_vals; apply vget_vset_same. Qed.

Lemma get_val_stored : forall s a v, get_val s a = Some v -> stored s v /\ v_addr v = a.
Proof. unfold get_val, stored; intros s a v H. pose proof (vget_addr _ _ _ H). subst. auto. Qed.

Lemma get_update_validator_other : forall s n o a, a <> v_addr n -> get_val (update_validator s n o) a = get_val s a.
Proof. intros; unfold get_val; rewrite update_validator_vals; apply vget_vset_other; auto. Qed.

Lemma supply_create_validator : forall s n, vget (s_vals s) (v_addr n) = None ->
  supply (create_validator s n) = supply s + vmoney n.
Proof.
  intros s n H. unfold supply, create_validator; sproj. rewrite !vsum_vset, H. cbn [opt_f].
  rewrite (pools_money _ _ (money_incr (s_stat s) n)). unfold vmoney. lia.
Qed.

Lemma supply_add_record : forall s d v tx final, supply (add_record s d v tx final) = supply s + tx_detained tx.
Proof. intros; unfold supply, add_record; sproj. rewrite pending_rec_add. lia. Qed.

Lemma supply_add_withdraw : forall s w, w_finished w = 0 -> supply (add_withdraw s w) = supply s + w_final w.
Proof. intros s w H; unfold supply, add_withdraw; sproj. rewrite unfinished_app, H. cbn [Z.eqb]. lia. Qed.

(* ---- frames of the operations that do not move value ---------------------------------- *)

Lemma leaked_add_balance : forall s a d, leaked (add_balance s a d) = leaked s. Proof. reflexivity. Qed.
Lemma leaked_sub_balance : forall s a d, leaked (sub_balance s a d) = leaked s. Proof. reflexivity. Qed.
Lemma leaked_add_record : forall s d v tx f, leaked (add_record s d v tx f) = leaked s. Proof. reflexivity. Qed.
Lemma leaked_add_withdraw : forall s w, leaked (add_withdraw s w) = leaked s. Proof. reflexivity. Qed.
Lemma leaked_create_validator : forall s n, leaked (create_validator s n) = leaked s. Proof. reflexivity. Qed.
Lemma leaked_set_prel : forall s x, leaked (set_prel s x) = leaked s. Proof. reflexivity. Qed.
Lemma leaked_set_nonce : forall s x, leaked (set_nonce s x) = leaked s. Proof. reflexivity. Qed.
Lemma leaked_set_adlgs : forall s x, leaked (set_adlgs s x) = leaked s. Proof. reflexivity. Qed.
Lemma leaked_set_queue : forall s x, leaked (set_queue s x) = leaked s. Proof. reflexivity. Qed.
Lemma leaked_set_stat : forall s x, leaked (set_stat s x) = leaked s. Proof. reflexivity. Qed.
Lemma leaked_set_pot : forall s x, leaked (set_pot s x) = leaked s. Proof. reflexivity. Qed.
Lemma leaked_set_number : forall s x, leaked (set_number s x) = leaked s. Proof. reflexivity. Qed.

Lemma supply_set_prel : forall s x, supply (set_prel s x) = supply s. Proof. reflexivity. Qed.
Lemma supply_set_nonce : forall s x, supply (set_nonce s x) = supply s. Proof. reflexivity. Qed.
Lemma supply_set_adlgs : forall s x, supply (set_adlgs s x) = supply s. Proof. reflexivity. Qed.
Lemma supply_set_number : forall s x, supply (set_number s x) = supply s. Proof. reflexivity. Qed.
Lemma supply_set_pot : forall s x, supply (set_pot s x) = supply s - s_pot s + x.
Proof. intros; unfold supply; sproj; lia. Qed.
Lemma supply_set_queue : forall s x, supply (set_queue s x) = supply s - unfinished (s_queue s) + unfinished x.
Proof. intros; unfold supply; sproj; lia. Qed.
Lemma supply_set_stat : forall s x, supply (set_stat s x) = supply s - pools (s_stat s) + pools x.
Proof. intros; unfold supply; sproj; lia. Qed.
Lemma supply_add_minted : forall s x, supply (add_minted s x) = supply s. Proof. reflexivity. Qed.
Lemma leaked_add_minted : forall s x, leaked (add_minted s x) = leaked s - x.
Proof. intros; unfold leaked; sproj; lia. Qed.
Lemma supply_add_dust : forall s x, supply (add_dust s x) = supply s. Proof. reflexivity. Qed.
Lemma leaked_add_dust : forall s x, leaked (add_dust s x) = leaked s + x.
Proof. intros; unfold leaked; sproj; lia. Qed.
Lemma supply_add_dropped : forall s x, supply (add_dropped s x) = supply s. Proof. reflexivity. Qed.
Lemma leaked_add_dropped : forall s x, leaked (add_dropped s x) = leaked s + x.
Proof. intros; unfold leaked; sproj; lia. Qed.
Lemma supply_add_dupcreate : forall s x, supply (add_dupcreate s x) = supply s. Proof. reflexivity. Qed.
Lemma leaked_add_dupcreate : forall s x, leaked (add_dupcreate s x) = leaked s + x.
Proof. intros; unfold leaked; sproj; lia. Qed.
Lemma supply_add_negwd : forall s x, supply (add_negwd s x) = supply s. Proof. reflexivity. Qed.
Lemma leaked_add_negwd : forall s x, leaked (add_negwd s x) = leaked s - x.
Proof. intros; unfold leaked; sproj; lia. Qed.

Lemma residue_add_balance : forall s a d, residue_of (add_balance s a d) = residue_of s. Proof. reflexivity. Qed.
Lemma residue_sub_balance : forall s a d, residue_of (sub_balance s a d) = residue_of s. Proof. reflexivity. Qed.
Lemma residue_add_record : forall s d v tx f, residue_of (add_record s d v tx f) = residue_of s. Proof. reflexivity. Qed.
Lemma residue_add_withdraw : forall s w, residue_of (add_withdraw s w) = residue_of s. Proof. reflexivity. Qed.
Lemma residue_set_prel : forall s x, residue_of (set_prel s x) = residue_of s. Proof. reflexivity. Qed.
Lemma residue_set_nonce : forall s x, residue_of (set_nonce s x) = residue_of s. Proof. reflexivity. Qed.
Lemma residue_set_adlgs : forall s x, residue_of (set_adlgs s x) = residue_of s. Proof. reflexivity. Qed.
Lemma residue_set_queue : forall s x, residue_of (set_queue s x) = residue_of s. Proof. reflexivity. Qed.
Lemma residue_set_pot : forall s x, residue_of (set_pot s x) = residue_of s. Proof. reflexivity. Qed.
Lemma residue_set_number : forall s x, residue_of (set_number s x) = residue_of s. Proof. reflexivity. Qed.
Lemma residue_add_minted : forall s x, residue_of (add_minted s x) = residue_of s. Proof. reflexivity. Qed.
Lemma residue_add_dust : forall s x, residue_of (add_dust s x) = residue_of s. Proof. reflexivity. Qed.
Lemma residue_add_dropped : forall s x, residue_of (add_dropped s x) = residue_of s. Proof. reflexivity. Qed.
Lemma residue_add_dupcreate : forall s x, residue_of (add_dupcreate s x) = residue_of s. Proof. reflexivity. Qed.
Lemma residue_add_negwd : forall s x, residue_of (add_negwd s x) = residue_of s. Proof. reflexivity. Qed.
Lemma residue_create_validator : forall s n, residue_of (create_validator s n) = residue_of s.
Proof. intros; unfold residue_of, create_validator; sproj; apply residue_money, money_incr. Qed.

Global Hint Rewrite supply_add_balance supply_sub_balance supply_add_record supply_set_prel supply_set_nonce
  supply_set_adlgs supply_set_number supply_set_pot supply_add_minted supply_add_dust supply_add_dropped
  supply_add_dupcreate supply_add_negwd
  leaked_add_balance leaked_sub_balance leaked_add_record leaked_add_withdraw leaked_create_validator
  leaked_set_prel leaked_set_nonce leaked_set_adlgs leaked_set_queue leaked_set_stat leaked_set_pot leaked_set_number
  leaked_add_minted leaked_add_dust leaked_add_dropped leaked_add_dupcreate leaked_add_negwd leaked_update_validator
  residue_add_balance residue_sub_balance residue_add_record residue_add_withdraw residue_set_prel residue_set_nonce
  residue_set_adlgs residue_set_queue residue_set_pot residue_set_number residue_add_minted residue_add_dust
  residue_add_dropped residue_add_dupcreate residue_add_negwd residue_create_validator residue_update_validator
  : ledger.

(* frames of the validator set and the statistics *)
Lemma vals_add_balance : forall s a d, s_vals (add_balance s a d) = s_vals s. Proof. reflexivity. Qed.
Lemma stored_add_balance : forall s a d v, stored s v -> stored (add_balance s a d) v. Proof. auto. Qed.
