(* C07 - the value-level invariant of the ledger: every validator's tokens are
   its own tokens plus its delegations' tokens, all of them non-negative, the
   delegation lists are sorted, and no withdraw record has a negative balance.
   It is established by any such genesis and preserved by every step of the
   model; along it the anomaly counter g_negwd never moves.
   (Restated for this ledger: it is the token clause of C08's
   C08_value_level_invariant - totals = own + delegations - plus signs.) *)
From VF.C07 Require Import Model ProofsLedger ProofsTx ProofsSlash ProofsRewards ProofsEffect ProofsInv.
From Coq Require Import Lia ZifyBool.
Open Scope Z_scope.

(* ---- delegation lists ------------------------------------------------------------------ *)

Definition dl_sum (l : list dlg) : Z := fold_right (fun d a => d_token d + a) 0 l.
Fixpoint dl_above (lo : Z) (l : list dlg) : Prop :=
  match l with [] => True | x :: r => lo < d_addr x /\ dl_above (d_addr x) r end.
Definition dl_nonneg (l : list dlg) : Prop := Forall (fun d => 0 <= d_token d) l.
Definition tok_of (o : option dlg) : Z := match o with Some d => d_token d | None => 0 end.

Lemma dl_above_weaken : forall l lo lo', lo' <= lo -> dl_above lo l -> dl_above lo' l.
Proof. destruct l as [|x r]; intros lo lo' H Ha; cbn in *; [exact I|]. destruct Ha; split; [lia|auto]. Qed.

Lemma dl_get_above : forall l lo a, dl_above lo l -> a <= lo -> dl_get l a = None.
Proof.
  induction l as [|x r IH]; intros lo a Ha Hle; cbn [dl_get]; [reflexivity|]. destruct Ha as [H1 H2].
  destruct (d_addr x =? a) eqn:E; [lia|]. eapply IH; eauto. lia.
Qed.

Lemma dl_sum_cons : forall x r, dl_sum (x :: r) = d_token x + dl_sum r. Proof. reflexivity. Qed.

(* UpdateDelegationFrom on a sorted list: the sum changes by new - old, order and signs are kept *)
Ltac fin := repeat split; auto; try lia; try (constructor; auto; try lia; try (constructor; auto)).

Lemma dl_update_spec : forall l lo d, dl_above lo l -> lo < d_addr d -> dl_nonneg l -> 0 <= d_token d ->
  dl_above lo (fst (dl_update l d)) /\ dl_nonneg (fst (dl_update l d)) /\
  dl_sum (fst (dl_update l d)) = dl_sum l - tok_of (dl_get l (d_addr d)) + d_token d.
Proof.
  induction l as [|x r IH]; intros lo d Ha Hlo Hn Hd; cbn [dl_update dl_get].
  - unfold dl_empty. destruct ((d_stake d =? 0) && (d_token d =? 0)) eqn:E; cbn [fst dl_above dl_sum fold_right tok_of]; fin.
  - destruct Ha as [H1 H2]. inv Hn.
    destruct (d_addr x =? d_addr d) eqn:E1.
    + assert (d_addr x = d_addr d) by lia.
      unfold dl_empty. destruct ((d_stake d =? 0) && (d_token d =? 0)) eqn:E; cbn [fst tok_of dl_above]; rewrite ?dl_sum_cons.
      * split; [eapply dl_above_weaken; [|exact H2]; lia|]. fin.
      * split; [split; [lia|rewrite <- H; exact H2]|]. fin.
    + destruct (d_addr d <? d_addr x) eqn:E2.
      * assert (Hg : dl_get r (d_addr d) = None) by (eapply dl_get_above; [exact H2|lia]). rewrite Hg.
        unfold dl_empty. destruct ((d_stake d =? 0) && (d_token d =? 0)) eqn:E; cbn [fst tok_of dl_above]; rewrite ?dl_sum_cons; fin.
      * destruct (dl_update r d) as [r' del] eqn:EU. cbn [fst].
        destruct (IH (d_addr x) d H2 ltac:(lia) H4 Hd) as (I1 & I2 & I3). rewrite EU in *. cbn [fst] in *.
        rewrite !dl_sum_cons. cbn [dl_above]. fin.
Qed.

(* re-inserting an entry of the list: nothing changes, or the empty entry disappears *)
Fixpoint dl_del (l : list dlg) (a : Z) : list dlg :=
  match l with [] => [] | x :: r => if d_addr x =? a then r else x :: dl_del r a end.

Lemma dl_above_in : forall l lo x, dl_above lo l -> In x l -> lo < d_addr x.
Proof.
  induction l as [|y r IH]; intros lo x Ha Hin; [contradiction|]. destruct Ha as [H1 H2].
  destruct Hin as [->|Hin]; [exact H1|]. specialize (IH _ _ H2 Hin). lia.
Qed.

Lemma dl_update_in : forall l lo d, dl_above lo l -> In d l ->
  fst (dl_update l d) = if dl_empty d then dl_del l (d_addr d) else l.
Proof.
  induction l as [|x r IH]; intros lo d Ha Hin; [contradiction|]. destruct Ha as [H1 H2]. cbn [dl_update dl_del].
  destruct Hin as [->|Hin].
  - rewrite Z.eqb_refl. destruct (dl_empty d); reflexivity.
  - pose proof (dl_above_in _ _ _ H2 Hin) as Hgt.
    destruct (d_addr x =? d_addr d) eqn:E1; [lia|]. destruct (d_addr d <? d_addr x) eqn:E2; [lia|].
    destruct (dl_update r d) as [r' del] eqn:EU. cbn [fst].
    specialize (IH _ _ H2 Hin). rewrite EU in IH. cbn [fst] in IH. rewrite IH. destruct (dl_empty d); reflexivity.
Qed.

Lemma dl_update_absent_empty : forall l lo d, dl_above lo l -> dl_get l (d_addr d) = None -> dl_empty d = true ->
  fst (dl_update l d) = l.
Proof.
  induction l as [|x r IH]; intros lo d Ha Hg He; cbn [dl_update dl_get] in *; [rewrite He; reflexivity|].
  destruct Ha as [H1 H2]. destruct (d_addr x =? d_addr d) eqn:E1; [discriminate|].
  destruct (d_addr d <? d_addr x); [rewrite He; reflexivity|].
  destruct (dl_update r d) as [r' del] eqn:EU. cbn [fst]. specialize (IH _ _ H2 Hg He). rewrite EU in IH. cbn [fst] in IH. congruence.
Qed.

Lemma dl_del_spec : forall l lo a, dl_above lo l -> dl_nonneg l ->
  dl_above lo (dl_del l a) /\ dl_nonneg (dl_del l a) /\ dl_sum (dl_del l a) = dl_sum l - tok_of (dl_get l a) /\
  dl_get (dl_del l a) a = None /\ (forall e, In e l -> d_addr e <> a -> In e (dl_del l a)) /\
  (forall b, dl_get l b = None -> dl_get (dl_del l a) b = None).
Proof.
  induction l as [|x r IH]; intros lo a Ha Hn; cbn [dl_del dl_get].
  - cbn. repeat split; auto; try lia.
  - destruct Ha as [H1 H2]. inv Hn. destruct (d_addr x =? a) eqn:E.
    + cbn [tok_of]. rewrite dl_sum_cons.
      split; [eapply dl_above_weaken; [|exact H2]; lia|].
      split; [exact H4|]. split; [lia|].
      split; [eapply dl_get_above; [exact H2|lia]|].
      split; [intros e [->|Hin] Hne; [lia|exact Hin]|].
      intros b Hb. destruct (d_addr x =? b); [discriminate|exact Hb].
    + destruct (IH (d_addr x) a H2 H4) as (I1 & I2 & I3 & I4 & I5 & I6). rewrite !dl_sum_cons. cbn [dl_get dl_above]. rewrite E.
      split; [split; auto|]. split; [constructor; auto|]. split; [lia|]. split; [exact I4|].
      split; [intros e [->|Hin] Hne; [left; reflexivity|right; auto]|].
      intros b Hb. destruct (d_addr x =? b); [discriminate|auto].
Qed.

Lemma dl_get_in : forall l lo d, dl_above lo l -> In d l -> dl_get l (d_addr d) = Some d.
Proof.
  induction l as [|x r IH]; intros lo d Ha Hin; [contradiction|]. destruct Ha as [H1 H2]. cbn [dl_get].
  destruct Hin as [->|Hin]; [rewrite Z.eqb_refl; reflexivity|].
  pose proof (dl_above_in _ _ _ H2 Hin). destruct (d_addr x =? d_addr d) eqn:E; [lia|eauto].
Qed.

(* the write-back loop of takePenalty: re-inserting entries of the list removes the empty ones only *)
Lemma reinsert_spec : forall upd l lo, dl_above lo l -> dl_nonneg l ->
  (forall u, In u upd -> In u l \/ (dl_empty u = true /\ dl_get l (d_addr u) = None)) ->
  let l' := fold_left (fun l d => fst (dl_update l d)) upd l in
  dl_above lo l' /\ dl_nonneg l' /\ dl_sum l' = dl_sum l.
Proof.
  induction upd as [|u r IH]; intros l lo Ha Hn Hu; cbn [fold_left]; [auto|].
  assert (Hstep : dl_above lo (fst (dl_update l u)) /\ dl_nonneg (fst (dl_update l u)) /\ dl_sum (fst (dl_update l u)) = dl_sum l /\
          (forall w, In w r -> In w (fst (dl_update l u)) \/ (dl_empty w = true /\ dl_get (fst (dl_update l u)) (d_addr w) = None))).
  { destruct (Hu u (or_introl eq_refl)) as [Hin|[He Hg]].
    - rewrite (dl_update_in _ _ _ Ha Hin). destruct (dl_empty u) eqn:He.
      + destruct (dl_del_spec l lo (d_addr u) Ha Hn) as (D1 & D2 & D3 & D4 & D5 & D6).
        rewrite (dl_get_in _ _ _ Ha Hin) in D3. cbn [tok_of] in D3.
        assert (d_token u = 0) by (unfold dl_empty in He; lia).
        repeat split; auto; [lia|]. intros w Hw. destruct (Hu w (or_intror Hw)) as [Hwin|[Hwe Hwg]].
        * destruct (Z.eq_dec (d_addr w) (d_addr u)) as [Heq|Hne].
          -- right. assert (w = u).
             { pose proof (dl_get_in _ _ _ Ha Hwin) as G1. pose proof (dl_get_in _ _ _ Ha Hin) as G2. rewrite Heq in G1. congruence. }
             subst w. auto.
          -- left. auto.
        * right. auto.
      + repeat split; auto. intros w Hw. exact (Hu w (or_intror Hw)).
    - rewrite (dl_update_absent_empty _ _ _ Ha Hg He). repeat split; auto. intros w Hw. exact (Hu w (or_intror Hw)). }
  destruct Hstep as (S1 & S2 & S3 & S4). destruct (IH _ _ S1 S2 S4) as (I1 & I2 & I3). repeat split; auto. congruence.
Qed.

(* ---- the invariant ---------------------------------------------------------------------------- *)

Definition dl_ok (l : list dlg) : Prop := (exists lo, dl_above lo l) /\ dl_nonneg l.
Definition vok (v : validator) : Prop :=
  0 <= v_self_token v /\ dl_ok (v_dlgs v) /\ v_token v = v_self_token v + dl_sum (v_dlgs v).
Definition qok (q : list wrec) : Prop := Forall (fun w => 0 <= w_final w) q.
Definition pos (s : state) : Prop := Forall vok (s_vals s) /\ qok (s_queue s).
(* the only parameter that matters: the double-sign penalty fraction is not negative *)
Definition pok (p : params) : Prop := 0 <= p_frac_ds p.

Lemma dl_sum_nonneg : forall l, dl_nonneg l -> 0 <= dl_sum l.
Proof. induction l as [|x r IH]; intros H; [cbn; lia|]. inv H. rewrite dl_sum_cons. specialize (IH H3). lia. Qed.

Lemma vok_token : forall v, vok v -> 0 <= v_token v.
Proof. intros v (H1 & (_ & H2) & H3). pose proof (dl_sum_nonneg _ H2). lia. Qed.

Lemma Forall_vset : forall (P : validator -> Prop) l n, Forall P l -> P n -> Forall P (vset l n).
Proof.
  induction l as [|x r IH]; intros n Hl Hn; cbn [vset]; [constructor; auto|]. inv Hl.
  destruct (v_addr x =? v_addr n); constructor; auto.
Qed.
Lemma vget_Forall : forall (P : validator -> Prop) l a v, vget l a = Some v -> Forall P l -> P v.
Proof.
  induction l as [|x r IH]; intros a v Hg Hl; cbn [vget] in Hg; [discriminate|]. inv Hl.
  destruct (v_addr x =? a); [inv Hg; auto|eauto].
Qed.
Lemma stored_vok : forall s v, pos s -> stored s v -> vok v.
Proof. intros s v [Hv _] Hst. eapply vget_Forall; eauto. Qed.

(* a step keeps the invariant and does not move the anomaly counter *)
Definition good (s s' : state) : Prop := pos s -> pos s' /\ g_negwd s' = g_negwd s.

Lemma good_refl : forall s, good s s. Proof. intros s H; auto. Qed.
Lemma good_trans : forall a b c, good a b -> good b c -> good a c.
Proof. intros a b c H1 H2 Ha. destruct (H1 Ha) as [Hb E1]. destruct (H2 Hb) as [Hc E2]. split; [auto|congruence]. Qed.
Lemma good_frame : forall s s', s_vals s' = s_vals s -> s_queue s' = s_queue s -> g_negwd s' = g_negwd s -> good s s'.
Proof. intros s s' H1 H2 H3 [Hv Hq]. unfold pos. rewrite H1, H2. auto. Qed.

Lemma frame_update_validator : forall s n o,
  s_queue (update_validator s n o) = s_queue s /\ g_negwd (update_validator s n o) = g_negwd s.
Proof. intros; unfold update_validator; destruct (stake_equal n o); split; reflexivity. Qed.

Lemma good_update_validator : forall s n o, vok n -> good s (update_validator s n o).
Proof.
  intros s n o Hn [Hv Hq]. destruct (frame_update_validator s n o) as [F1 F2].
  unfold pos. rewrite update_validator_vals, F1. split; [split; [apply Forall_vset; auto|auto]|exact F2].
Qed.

Lemma good_add_balance : forall s a d, good s (add_balance s a d). Proof. intros; apply good_frame; reflexivity. Qed.
Lemma good_set_stat : forall s t, good s (set_stat s t). Proof. intros; apply good_frame; reflexivity. Qed.

(* fields that vok does not look at *)
Lemma vok_same_money : forall v v', v_self_token v' = v_self_token v -> v_token v' = v_token v -> v_dlgs v' = v_dlgs v -> vok v -> vok v'.
Proof. unfold vok; intros v v' -> -> ->; auto. Qed.

(* ---- penalties ------------------------------------------------------------------------------------ *)

Lemma zmin_actual_le : forall a b, zmin_actual a b <= a /\ zmin_actual a b <= b.
Proof. intros; unfold zmin_actual; destruct (b <=? a) eqn:E; lia. Qed.

Lemma penalty_from_queue_qok : forall q va rem sp dp tot q' rem' sp' dp' tot',
  penalty_from_queue q va rem sp dp tot = (q', rem', sp', dp', tot') -> qok q -> qok q'.
Proof.
  induction q as [|w r IH]; intros va rem sp dp tot q' rem' sp' dp' tot' H Hq; cbn [penalty_from_queue] in H.
  - inv H. constructor.
  - inv Hq. repeat (break_match; try discriminate); inv H;
      repeat match goal with Hr : penalty_from_queue _ _ _ _ _ _ = _ |- _ => apply IH in Hr; auto end;
      try (constructor; auto; fail);
      (constructor; auto; unfold set_w_final; cbn [w_final];
       match goal with |- context [zmin_actual ?a ?b] => pose proof (zmin_actual_le a b) end; lia).
Qed.

Lemma penalty_from_dlgs_ok : forall p l lo dp rem tot tt st l' upd rem' tot' tt' st',
  penalty_from_dlgs p l dp rem tot tt st = (l', upd, rem', tot', tt', st') -> dl_above lo l -> dl_nonneg l ->
  dl_above lo l' /\ dl_nonneg l' /\ dl_sum l' = dl_sum l - (tt' - tt) /\ (forall u, In u upd -> In u l').
Proof.
  induction l as [|d r IH]; intros lo dp rem tot tt st l' upd rem' tot' tt' st' H Ha Hn; cbn [penalty_from_dlgs] in H.
  - inv H. repeat split; auto; try lia.
  - destruct Ha as [H1 H2]. inv Hn.
    repeat (break_match; try discriminate); inv H;
      try (repeat split; auto; try lia; [constructor; auto|intros u []]; fail);
      match goal with Hr : penalty_from_dlgs _ _ _ _ _ _ _ = _ |- _ => eapply IH in Hr; eauto; destruct Hr as (R1 & R2 & R3 & R4) end;
      rewrite ?dl_sum_cons; cbn [dl_above d_addr d_token].
    + match goal with |- context [zmin_actual ?a ?b] => pose proof (zmin_actual_le a b) end.
      split; [split; auto|]. split; [constructor; auto; cbn; lia|]. split; [cbn [d_token]; lia|].
      intros u [<-|Hu]; [left; reflexivity|right; auto].
    + split; [split; auto|]. split; [constructor; auto|]. split; [lia|]. intros u Hu. right. auto.
    + split; [split; auto|]. split; [constructor; auto|]. split; [lia|]. intros u Hu. right. auto.
    + split; [split; auto|]. split; [constructor; auto|]. split; [lia|]. intros u Hu. right. auto.
Qed.

Lemma take_penalty_ok : forall p s val amount nv tot q', vok val -> qok (s_queue s) ->
  take_penalty p s val amount = Ok (nv, tot, q') -> vok nv /\ qok q'.
Proof.
  intros p s val amount nv tot q' (Hs & ((lo & Ha) & Hn) & Ht) Hq H. unfold take_penalty in H.
  destruct (v_stake val =? 0); [discriminate|].
  destruct (penalty_from_queue (s_queue s) (v_addr val) amount _ _ 0) as [[[[q1 rem1] sp1] dp1] tot1] eqn:EQ.
  apply penalty_from_queue_qok in EQ; auto.
  destruct (0 <? rem1).
  - destruct (penalty_from_dlgs p (v_dlgs val) dp1 _ _ 0 0) as [[[[[dl upd] rem2] tot2] tt] stt] eqn:ED.
    eapply penalty_from_dlgs_ok in ED; eauto. destruct ED as (D1 & D2 & D3 & D4). inv H. split; [|exact EQ].
    destruct (reinsert_spec upd dl lo D1 D2) as (R1 & R2 & R3); [intros u Hu; left; auto|].
    unfold vok, set_v_dlgs, set_v_money; cbn [v_self_token v_dlgs v_token].
    pose proof (zmin_actual_le (v_self_token val) sp1).
    set (fd := zmin_actual (v_self_token val) sp1) in *.
    split; [destruct (0 <? sp1); cbn [andb]; [destruct (0 <? fd)|]; lia|]. split; [split; [exists lo; exact R1|exact R2]|].
    rewrite R3, D3. destruct (0 <? sp1); cbn [andb]; [destruct (0 <? fd)|]; lia.
  - inv H. split; [|exact EQ]. repeat split; eauto.
Qed.

Lemma good_do_penalize : forall p s typ val amount s', stored s val -> 0 <= amount ->
  do_penalize p s typ val amount = Ok s' -> good s s'.
Proof.
  intros p s typ val amount s' Hst Ham H Hp. pose proof (stored_vok _ _ Hp Hst) as Hv. destruct Hp as [HV HQ].
  unfold do_penalize in H.
  destruct (if 0 <? amount then take_penalty p s val amount else Ok (val, amount, s_queue s)) as [[[nv tot] q']|] eqn:E; [|discriminate].
  cbn [rbind] in H. inv H.
  assert (Hok : vok nv /\ qok q').
  { destruct (0 <? amount); [eapply take_penalty_ok; eauto|inv E; auto]. }
  destruct Hok as [Hnv Hq'].
  match goal with |- context [update_validator ?a ?b ?c] => destruct (frame_update_validator a b c) as [F1 F2]; set (n1 := b) in * end.
  assert (Hn1 : vok n1) by (eapply vok_same_money; [| | |exact Hnv]; reflexivity).
  unfold pos, add_negwd, add_balance; sproj. rewrite update_validator_vals, F1, F2. sproj.
  split; [split; [apply Forall_vset; auto|exact Hq']|]. destruct (0 <? amount) eqn:Ea; lia.
Qed.

Lemma good_process_evidences : forall p evs s seen s', pok p -> process_evidences p s evs seen = Ok s' -> good s s'.
Proof.
  induction evs as [|[[round signer] differ] r IH]; intros s seen s' Hp H; cbn [process_evidences] in H.
  - inv H. apply good_refl.
  - repeat (break_match; try discriminate); eauto.
    destruct (do_penalize p s PDoubleSign v _) eqn:E; cbn [rbind] in H; [|discriminate].
    apply get_val_stored in Heqo. destruct Heqo as [Hst _].
    intros Hpos. pose proof (vok_token _ (stored_vok _ _ Hpos Hst)) as Htok.
    assert (Ham : 0 <= v_token v * p_frac_ds p / 100) by (apply Z.div_pos; [unfold pok in Hp; nia|lia]).
    revert Hpos. eapply good_trans; [eapply good_do_penalize; eauto|eauto].
Qed.

Lemma good_slash_or_recover : forall p s a s', slash_or_recover p s a = Ok s' -> good s s'.
Proof.
  intros p s a s' H. unfold slash_or_recover in H.
  destruct (get_val s a) eqn:Eg; [|inv H; apply good_refl].
  apply get_val_stored in Eg. destruct Eg as [Hst _]. intros Hpos.
  pose proof (stored_vok _ _ Hpos Hst) as Hv. pose proof (vok_token _ Hv) as Htok. revert Hpos.
  repeat (break_match; try discriminate); try (inv H; apply good_refl).
  - inv H. apply good_update_validator. eapply vok_same_money; [| | |exact Hv]; reflexivity.
  - eapply good_do_penalize; [exact Hst| |exact H]. apply Z.div_pos; [nia|lia].
  - eapply good_do_penalize; [exact Hst| |exact H]. lia.
Qed.

Lemma good_fold_res : forall A (f : state -> A -> res state) l s s',
  (forall s a s', f s a = Ok s' -> good s s') -> fold_res f l s = Ok s' -> good s s'.
Proof.
  induction l as [|a r IH]; intros s s' Hf H; cbn [fold_res] in H.
  - inv H. apply good_refl.
  - destruct (f s a) eqn:E; cbn [rbind] in H; [|discriminate].
    eapply good_trans; [eapply Hf; eauto|eapply IH; eauto].
Qed.

(* ---- rewards ------------------------------------------------------------------------------------------ *)

Lemma good_rewards_to_pool : forall p s cb s', rewards_to_pool p s cb = Ok s' -> good s s'.
Proof.
  intros p s cb s' H. unfold rewards_to_pool in H.
  destruct (block_rewards p s _) as [tot s1] eqn:EB.
  assert (M1 : good s s1).
  { unfold block_rewards in EB. repeat (break_match; try discriminate); inv EB; apply good_frame; reflexivity. }
  destruct (tot <=? 0); [inv H; exact M1|].
  match type of H with (if ?c then _ else _) = _ => destruct c end; [discriminate|].
  destruct (get_val s1 cb) as [prop|] eqn:Eg; [|discriminate]. inv H.
  apply get_val_stored in Eg. destruct Eg as [Hst _].
  eapply good_trans; [exact M1|]. intros Hp. pose proof (stored_vok _ _ Hp Hst) as Hv. revert Hp.
  eapply good_trans; [|apply good_set_stat].
  eapply good_trans; [apply good_set_stat|].
  apply good_update_validator. eapply vok_same_money; [| | |exact Hv]; reflexivity.
Qed.

Lemma good_pay_delegators : forall l s per tot s2 tot3, pay_delegators s l per tot = Ok (s2, tot3) -> good s s2.
Proof.
  induction l as [|d r IH]; intros s per tot s2 tot3 H; cbn [pay_delegators] in H.
  - inv H. apply good_refl.
  - destruct (tot - per * d_stake d <? 0); [discriminate|]. apply IH in H.
    eapply good_trans; [apply good_add_balance|exact H].
Qed.

Lemma good_settle_rewards : forall p s val s', stored s val -> settle_rewards p s val = Ok s' -> good s s'.
Proof.
  intros p s val s' Hst H Hp. pose proof (stored_vok _ _ Hp Hst) as Hv. revert Hp.
  assert (Hn : forall d t n, vok (set_v_rewards val d t n)) by (intros; eapply vok_same_money; [| | |exact Hv]; reflexivity).
  unfold settle_rewards in H.
  destruct ((v_stake val =? 0) && (0 <? v_dist val)).
  { inv H. eapply good_trans; [apply good_add_balance|]. apply good_update_validator. apply Hn. }
  destruct ((v_stake val =? 0) || (v_dist val =? 0)); [inv H; apply good_refl|].
  match type of H with rbind (pay_delegators ?a ?b ?c ?d) _ = _ => destruct (pay_delegators a b c d) as [[s2 tot3]|] eqn:EP end; [|discriminate].
  cbn [rbind] in H.
  match type of H with context [negb (tot3 =? ?x)] => destruct (negb (tot3 =? x)) end; [discriminate|]. inv H.
  apply good_pay_delegators in EP.
  eapply good_trans; [apply good_add_balance|]. eapply good_trans; [exact EP|].
  destruct (v_online val).
  - apply good_update_validator. apply Hn.
  - eapply good_trans; [apply good_add_balance|]. apply good_update_validator. apply Hn.
Qed.

Lemma good_distribute_one : forall p s d st a s' d' st', distribute_one p (s, d, st) a = Ok (s', d', st') -> good s s'.
Proof.
  intros p s d st a s' d' st' H. unfold distribute_one in H.
  destruct (get_val s a) as [val|] eqn:Eg; [|inv H; apply good_refl].
  apply get_val_stored in Eg. destruct Eg as [Hst _].
  destruct (negb (v_online val)).
  - destruct (settle_rewards p s val) as [s1|] eqn:ES; cbn [rbind] in H; [|discriminate]. inv H.
    eapply good_settle_rewards; eauto.
  - destruct (drec_get d (v_role val)) as [[[per res] t]|]; [|discriminate].
    match type of H with (if ?c then _ else _) = _ => destruct c end; [discriminate|].
    match type of H with context [update_validator s ?n val] => set (nv := n) in * end.
    assert (M1 : good s (update_validator s nv val)).
    { intros Hp. pose proof (stored_vok _ _ Hp Hst) as Hv. revert Hp. apply good_update_validator.
      eapply vok_same_money; [| | |exact Hv]; reflexivity. }
    match type of H with (if ?c then _ else _) = _ => destruct c end.
    + destruct (settle_rewards p (update_validator s nv val) nv) as [s2|] eqn:ES; cbn [rbind] in H; [|discriminate]. inv H.
      eapply good_trans; [exact M1|]. eapply good_settle_rewards; [apply stored_update_validator|eauto].
    + inv H. exact M1.
Qed.

Lemma good_distribute_loop : forall p l s d st s' d' st', distribute_loop p l (s, d, st) = Ok (s', d', st') -> good s s'.
Proof.
  induction l as [|a r IH]; intros s d st s' d' st' H; cbn [distribute_loop] in H.
  - inv H. apply good_refl.
  - destruct (distribute_one p (s, d, st) a) as [[[s1 d1] st1]|] eqn:E; cbn [rbind] in H; [|discriminate].
    eapply good_trans; [eapply good_distribute_one; eauto|eapply IH; eauto].
Qed.

Lemma good_close_role : forall s d r s', close_role s d r = Ok s' -> good s s'.
Proof. intros s d r s' H; unfold close_role in H; repeat (break_match; try discriminate); inv H; [apply good_set_stat|apply good_refl]. Qed.

Lemma good_distribute_rewards : forall p s s' st, distribute_rewards p s = Ok (Some (s', st)) -> good s s'.
Proof.
  intros p s s' st H. unfold distribute_rewards in H.
  destruct (k_on_stake (st_k0 (s_stat s)) <=? 0); [discriminate|].
  destruct (mk_rrec s 1) as [r1|]; cbn [rbind] in H; [|discriminate].
  destruct (mk_rrec s 2) as [r2|]; cbn [rbind] in H; [|discriminate].
  destruct (mk_rrec s 3) as [r3|]; cbn [rbind] in H; [|discriminate].
  destruct (distribute_loop p (val_keys (s_vals s)) (s, mkDrec r1 r2 r3, [])) as [[[s1 d] st1]|] eqn:EL; cbn [rbind] in H; [|discriminate].
  destruct (close_role s1 d 1) as [s2|] eqn:C1; cbn [rbind] in H; [|discriminate].
  destruct (close_role s2 d 2) as [s3|] eqn:C2; cbn [rbind] in H; [|discriminate].
  destruct (close_role s3 d 3) as [s4|] eqn:C3; cbn [rbind] in H; [|discriminate].
  inv H. apply good_distribute_loop in EL. apply good_close_role in C1, C2, C3.
  eapply good_trans; [exact EL|]. eapply good_trans; [exact C1|]. eapply good_trans; [exact C2|exact C3].
Qed.

(* ---- the withdraw queue: a non-negative balance is never written off ------------------------------------ *)

Lemma withdraw_step_good : forall s w s1 w1, withdraw_step s w = (s1, w1) -> 0 <= w_final w ->
  s_vals s1 = s_vals s /\ g_negwd s1 = g_negwd s /\ 0 <= w_final w1.
Proof.
  intros s w s1 w1 H Hf. unfold withdraw_step in H.
  destruct (w_final w <=? 0) eqn:E1; [|destruct ((w_completion w <? s_number s) && (w_finished w =? 0))]; inv H;
    unfold add_negwd, add_balance, set_w_finished; sproj; cbn [w_final]; repeat split; auto.
  assert (w_final w = 0) by lia. destruct (w_finished w =? 0); lia.
Qed.

Lemma withdraw_loop_good : forall p q s s1 q', withdraw_loop p s q = (s1, q') -> qok q ->
  s_vals s1 = s_vals s /\ g_negwd s1 = g_negwd s /\ qok q'.
Proof.
  induction q as [|w r IH]; intros s s1 q' H Hq; cbn [withdraw_loop] in H.
  - inv H. repeat split; auto.
  - inv Hq. destruct (withdraw_step s w) as [sa w1] eqn:ES. destruct (withdraw_loop p sa r) as [sb r'] eqn:EL.
    apply withdraw_step_good in ES; auto. apply IH in EL; auto.
    destruct ES as (S1 & S2 & S3), EL as (L1 & L2 & L3).
    destruct (withdraw_discard p (s_number s) w1); inv H; repeat split; try congruence; auto. constructor; auto.
Qed.

Lemma good_withdraw_queue : forall p s, good s (process_withdraw_queue p s).
Proof.
  intros p s [Hv Hq]. unfold process_withdraw_queue. destruct (withdraw_loop p s (s_queue s)) as [s1 q'] eqn:E.
  apply withdraw_loop_good in E; auto. destruct E as (E1 & E2 & E3).
  unfold pos; sproj. rewrite E1. auto.
Qed.

(* ---- take effect ---------------------------------------------------------------------------------------------- *)

Lemma good_update_delegator : forall s a b c, good s (update_delegator s a b c).
Proof. intros; unfold update_delegator; repeat break_match; try apply good_refl; apply good_frame; reflexivity. Qed.

Lemma good_apply_delegation : forall p s d val x delta s1 nv df sd del, vok val ->
  dl_get (v_dlgs val) d = Some x \/ (dl_get (v_dlgs val) d = None /\ x = mkDlg d 0 0) ->
  0 <= d_token x + delta ->
  apply_delegation p s d val x delta = (s1, nv, df, sd, del) -> good s s1.
Proof.
  intros p s d val x delta s1 nv df sd del (Hs & ((lo & Ha) & Hn) & Ht) Hx Hge H.
  unfold apply_delegation in H. cbv zeta in H. inv H.
  eapply good_trans; [|apply good_update_delegator]. apply good_update_validator.
  set (df' := mkDlg d (to_stake p (d_token x + delta)) (d_token x + delta)).
  set (lo' := Z.min lo (d - 1)).
  destruct (dl_update_spec (v_dlgs val) lo' df') as (U1 & U2 & U3);
    [eapply dl_above_weaken; [|exact Ha]; lia|cbn; lia|exact Hn|cbn; lia|].
  unfold vok, set_v_dlgs, set_v_money; cbn [v_self_token v_dlgs v_token].
  split; [exact Hs|]. split; [split; [exists lo'; exact U1|exact U2]|].
  rewrite U3. cbn [d_addr d_token df']. destruct Hx as [Hx|[Hx ->]]; rewrite Hx; cbn [tok_of d_token]; lia.
Qed.

Lemma good_take_effect : forall p s pt s', tx_checked p pt -> take_effect p s pt = Ok s' -> good s s'.
Proof.
  intros p s pt s' Hc H. unfold take_effect in H. unfold tx_checked in Hc.
  destruct pt as [id from act]; cbn [pt_act pt_from] in *.
  destruct act.
  - (* create *)
    destruct (get_val s (c_main c)) eqn:Eg; inv H; [apply good_frame; reflexivity|].
    intros [Hv Hq]. unfold pos, create_validator; sproj. split; [|reflexivity]. split; [|exact Hq].
    apply Forall_vset; auto. cbn [precheck] in Hc.
    unfold vok, new_validator; cbn [v_self_token v_dlgs v_token dl_sum fold_right].
    split; [lia|]. split; [split; [exists 0; exact I|constructor]|lia].
  - (* update *)
    destruct (get_val s (u_main u)) eqn:Eg; [|discriminate]. inv H.
    apply get_val_stored in Eg. destruct Eg as [Hst _]. intros Hp. pose proof (stored_vok _ _ Hp Hst) as Hv. revert Hp.
    apply good_update_validator. eapply vok_same_money; [| | |exact Hv]; reflexivity.
  - (* deposit *)
    destruct (get_val s main) eqn:Eg; [|discriminate].
    apply get_val_stored in Eg. destruct Eg as [Hst _]. intros Hp. pose proof (stored_vok _ _ Hp Hst) as Hv. revert Hp.
    destruct (over_max p (v_role v) _); inv H; [apply good_add_balance|].
    apply good_update_validator. cbn [precheck] in Hc. destruct Hv as (V1 & V2 & V3).
    unfold vok, set_v_money; cbn [v_self_token v_dlgs v_token]. split; [lia|split; [exact V2|lia]].
  - (* withdraw *)
    destruct (get_val s main) eqn:Eg; [|discriminate].
    apply get_val_stored in Eg. destruct Eg as [Hst _]. cbv zeta in H. inv H.
    intros Hp. pose proof (stored_vok _ _ Hp Hst) as (V1 & V2 & V3). cbn [precheck] in Hc.
    set (w := withdraw_amount p v value).
    assert (Hw : 0 <= w <= v_self_token v).
    { unfold w, withdraw_amount. destruct (v_self_token v <? value) eqn:E1; [lia|]. destruct (to_stake p (v_self_token v - value) <? _); lia. }
    assert (Hnv : vok (withdraw_validator p v w)).
    { unfold withdraw_validator; cbv zeta. destruct (v_online v && _); unfold vok, set_v_status, set_v_money; cbn [v_self_token v_dlgs v_token]; (split; [lia|split; [exact V2|lia]]). }
    destruct (good_update_validator s (withdraw_validator p v w) v Hnv Hp) as [[P1 P2] P3].
    unfold pos, add_withdraw; sproj. split; [|exact P3]. split; [exact P1|].
    apply Forall_app. split; [exact P2|]. constructor; [|constructor]. unfold new_withdraw; cbn [w_final]. lia.
  - (* status *)
    destruct (get_val s main) eqn:Eg; [|discriminate].
    apply get_val_stored in Eg. destruct Eg as [Hst _]. intros Hp. pose proof (stored_vok _ _ Hp Hst) as Hv. revert Hp.
    destruct ((status =? 1) && _); inv H; [apply good_refl|].
    apply good_update_validator. eapply vok_same_money; [| | |exact Hv]; reflexivity.
  - inv H. apply good_refl.
  - (* delegation add *)
    destruct (get_val s val) eqn:Eg; [|discriminate].
    apply get_val_stored in Eg. destruct Eg as [Hst _]. intros Hp. pose proof (stored_vok _ _ Hp Hst) as Hv. revert Hp.
    destruct (v_expelled v || (v_accept v =? 0)); [inv H; apply good_add_balance|].
    destruct (over_max p (v_role v) _); [inv H; apply good_add_balance|].
    cbn [precheck] in Hc.
    destruct (update_delegation p s from v value) as [[[[[s1 nv] df] sd] del]|] eqn:EU; inv H; [|apply good_refl].
    unfold update_delegation in EU. destruct (value =? 0); [discriminate|].
    pose proof Hv as (_ & (_ & Hnn) & _).
    destruct (dl_get (v_dlgs v) from) as [x|] eqn:Eg; [|destruct (value <? 0); [discriminate|]];
      (match type of EU with Some ?a = Some _ => assert (H' : a = (s', nv, df, sd, del)) by congruence end);
      eapply good_apply_delegation in H'; eauto; cbn [d_token]; try lia.
    assert (0 <= d_token x); [|lia]. clear - Eg Hnn. induction (v_dlgs v) as [|y r IH]; [discriminate|]. inv Hnn. cbn [dl_get] in Eg.
    destruct (d_addr y =? from); [inv Eg; auto|auto].
  - (* delegation sub *)
    destruct (get_val s val) eqn:Eg; [|discriminate].
    apply get_val_stored in Eg. destruct Eg as [Hst _]. intros Hp. pose proof (stored_vok _ _ Hp Hst) as Hv. revert Hp.
    destruct (dl_get (v_dlgs v) from) as [df0|] eqn:Edf; [|inv H; apply good_refl].
    match type of H with (if ?c then _ else _) = _ => destruct c eqn:Ew0 end; [inv H; apply good_refl|].
    cbv zeta in H. set (w := dsub_amount p df0 value) in *.
    assert (Hw : 0 < w <= d_token df0).
    { unfold w, dsub_amount; cbv zeta. destruct (d_token df0 <? value) eqn:E1;
        match goal with |- context [if ?c then _ else _] => destruct c end; lia. }
    destruct (update_delegation p s from v (- w)) as [[[[[s1 nv] df] sd] del]|] eqn:EU; [|discriminate].
    pose proof (mono_update_delegation _ _ _ _ _ _ _ _ _ _ Hst EU) as (_ & St1 & _).
    unfold update_delegation in EU. destruct (- w =? 0); [discriminate|]. rewrite Edf in EU.
    assert (H' : apply_delegation p s from v df0 (- w) = (s1, nv, df, sd, del)) by congruence.
    pose proof H' as H''. eapply good_apply_delegation in H'; eauto; [|lia].
    inv H. eapply good_trans; [exact H'|]. intros Hp1. pose proof (stored_vok _ _ Hp1 St1) as Hnv.
    assert (Fin : forall sa nv', pos sa -> g_negwd sa = g_negwd s1 ->
              pos (add_withdraw sa (new_withdraw p sa from nv' from from w)) /\ g_negwd (add_withdraw sa (new_withdraw p sa from nv' from from w)) = g_negwd s1).
    { intros sa nv' [P1 P2] P3. unfold pos, add_withdraw; sproj. split; [|exact P3]. split; [exact P1|].
      apply Forall_app. split; [exact P2|]. constructor; [|constructor]. unfold new_withdraw; cbn [w_final]. lia. }
    destruct (v_online nv && (v_stake nv <? by_role (p_min_stakes p) (v_role nv))).
    + assert (Hn0 : vok (set_v_status nv 0)) by (eapply vok_same_money; [| | |exact Hnv]; reflexivity).
      destruct (good_update_validator s1 (set_v_status nv 0) nv Hn0 Hp1) as [Q1 Q2]. apply Fin; auto.
    + apply Fin; auto.
  - inv H. apply good_refl.
  - inv H. apply good_refl.
Qed.

Lemma good_take_effects : forall p l s s', Forall (tx_checked p) l -> fold_res (take_effect p) l s = Ok s' -> good s s'.
Proof.
  induction l as [|t r IH]; intros s s' Hc H; cbn [fold_res] in H.
  - inv H. apply good_refl.
  - inv Hc. destruct (take_effect p s t) as [s1|] eqn:E; cbn [rbind] in H; [|discriminate].
    eapply good_trans; [eapply good_take_effect; eauto|eauto].
Qed.

Lemma good_process_records : forall p l s st s' st', Forall (rec_checked p) l -> process_records p l (s, st) = Ok (s', st') -> good s s'.
Proof.
  induction l as [|r t IH]; intros s st s' st' Hc H; cbn [process_records] in H.
  - inv H. apply good_refl.
  - inv Hc. destruct (process_record p (s, st) r) as [[s1 st1]|] eqn:E; cbn [rbind] in H; [|discriminate].
    eapply good_trans; [|eapply IH; eauto].
    unfold process_record in E.
    match type of E with rbind ?x _ = _ => destruct x as [sa|] eqn:E1 end; cbn [rbind] in E; [|discriminate].
    destruct (fold_res (take_effect p) (r_txs r) sa) as [sb|] eqn:E2; cbn [rbind] in E; [|discriminate]. inv E.
    eapply good_trans; [|eapply good_take_effects; eauto].
    destruct (sl_mem st (r_v r)); [inv E1; apply good_refl|].
    destruct (get_val s (r_v r)) eqn:Eg; [|inv E1; apply good_refl].
    apply get_val_stored in Eg. destruct Eg as [Hst _]. eapply good_settle_rewards; eauto.
Qed.

(* ---- blocks ------------------------------------------------------------------------------------------------------ *)

Lemma good_end_staking_period : forall p s s', recs_checked p s -> end_staking_period p s = Ok s' -> good s s'.
Proof.
  intros p s s' Hc H. unfold end_staking_period in H.
  destruct (negb ((s_number s + 1) mod p_freq p =? 0)); [inv H; apply good_refl|].
  destruct (fold_res (slash_or_recover p) (val_keys (s_vals s)) s) as [s1|] eqn:E1; cbn [rbind] in H; [|discriminate].
  pose proof (recs_fold_res _ _ _ _ _ (recs_slash_or_recover p) E1) as R1.
  apply good_fold_res in E1; [|apply good_slash_or_recover].
  destruct (distribute_rewards p s1) as [[[s2 st]|]|] eqn:E2; cbn [rbind] in H; [| |discriminate].
  - pose proof (recs_distribute_rewards _ _ _ _ E2) as R2. apply good_distribute_rewards in E2.
    destruct (process_withdraw_queue_same p s2) as (_ & _ & W3). pose proof (good_withdraw_queue p s2) as G3.
    set (s3 := process_withdraw_queue p s2) in *.
    destruct (process_records p (ordered_records p (s_recs s3)) (s3, st)) as [[s4 st4]|] eqn:E4; cbn [rbind] in H; [|discriminate].
    inv H.
    assert (Hc3 : Forall (rec_checked p) (ordered_records p (s_recs s3))).
    { unfold ordered_records. apply order_by_pending. rewrite W3, R2, R1. exact Hc. }
    apply good_process_records in E4; auto.
    eapply good_trans; [exact E1|]. eapply good_trans; [exact E2|]. eapply good_trans; [exact G3|].
    eapply good_trans; [exact E4|]. apply good_frame; reflexivity.
  - inv H. exact E1.
Qed.

Lemma good_finalize_block : forall s, good s (finalize_block s).
Proof.
  intros s [Hv Hq]. unfold finalize_block. destruct (delete_invalid s (s_vals s)) as [s1 l] eqn:E.
  assert (G : forall l0 s0 sa la, delete_invalid s0 l0 = (sa, la) -> Forall vok l0 ->
              Forall vok la /\ s_queue sa = s_queue s0 /\ g_negwd sa = g_negwd s0).
  { induction l0 as [|v r IH]; intros s0 sa la H Hf; cbn [delete_invalid] in H; [inv H; auto|].
    inv Hf. destruct (delete_invalid s0 r) as [sb r'] eqn:ED. destruct (IH _ _ _ ED H3) as (I1 & I2 & I3).
    destruct (v_invalid v); inv H; repeat split; auto. }
  destruct (G _ _ _ _ E Hv) as (G1 & G2 & G3). unfold pos; sproj. rewrite G2. auto.
Qed.

Lemma good_apply_txs : forall p l s, good s (apply_txs p s l).
Proof.
  induction l as [|t r IH]; intros s; cbn [apply_txs]; [apply good_refl|].
  destruct (apply_tx p s t) eqn:E; [|apply IH]. eapply good_trans; [|apply IH].
  apply frame_apply_tx in E. unfold frame_tx in E. apply good_frame; tauto.
Qed.

Lemma good_begin_block : forall p s, good s (begin_block p s).
Proof. intros p s. unfold begin_block. destruct (_ =? 0); apply good_frame; reflexivity. Qed.

Theorem apply_block_good : forall p s b s', pok p -> wf p s -> apply_block p s b = Ok s' -> good s s'.
Proof.
  intros p s b s' Hp [_ Hc] H. unfold apply_block, end_block in H.
  destruct (begin_block_same p s) as [_ R1].
  assert (C0 : recs_checked p (apply_txs p (begin_block p s) (b_txs b))).
  { apply apply_txs_checked. unfold recs_checked. destruct R1 as [-> | ->]; [exact Hc|constructor]. }
  set (s0 := apply_txs p (begin_block p s) (b_txs b)) in *.
  destruct (has_negative_record s0); [discriminate|].
  destruct (process_evidences p s0 (b_evs b) []) as [s1|] eqn:E1; cbn [rbind] in H; [|discriminate].
  pose proof (recs_process_evidences _ _ _ _ _ E1) as Q1. apply good_process_evidences in E1; auto.
  destruct (rewards_to_pool p s1 (b_proposer b)) as [s2|] eqn:E2; cbn [rbind] in H; [|discriminate].
  pose proof (recs_rewards_to_pool _ _ _ _ E2) as Q2. apply good_rewards_to_pool in E2.
  destruct (end_staking_period p s2) as [s3|] eqn:E3; cbn [rbind] in H; [|discriminate]. inv H.
  assert (C2 : recs_checked p s2) by (unfold recs_checked; rewrite Q2, Q1; exact C0).
  apply good_end_staking_period in E3; auto.
  eapply good_trans; [apply good_begin_block|]. eapply good_trans; [apply good_apply_txs|]. fold s0.
  eapply good_trans; [exact E1|]. eapply good_trans; [exact E2|]. eapply good_trans; [exact E3|apply good_finalize_block].
Qed.

(* along every chain the value-level invariant holds and the anomaly counter g_negwd does not move *)
Theorem run_chain_pos : forall p l s s', pok p -> wf p s -> pos s -> Forall block_ok l -> run_chain p s l = Ok s' ->
  pos s' /\ g_negwd s' = g_negwd s.
Proof.
  induction l as [|b r IH]; intros s s' Hp W P Hok H; cbn [run_chain] in H.
  - inv H. auto.
  - apply Forall_cons_iff in Hok. destruct Hok as [Hb Hr].
    destruct (apply_block p s b) as [s1|] eqn:E; cbn [rbind] in H; [|discriminate].
    destruct (apply_block_total _ _ _ _ W Hb E) as [_ W1].
    destruct (apply_block_good _ _ _ _ Hp W E P) as [P1 G1].
    destruct (IH _ _ Hp W1 P1 Hr H) as [P2 G2]. split; [exact P2|congruence].
Qed.
