(* C07 - taking effect of the pending transactions, the end of a staking
   period, validator deletion, blocks and chains. *)
From VF.C07 Require Import Model ProofsLedger ProofsTx ProofsSlash ProofsRewards.
From Coq Require Import Lia ZifyBool.
Open Scope Z_scope.

(* ---- the pending records are not touched by the end-of-block code ------------------ *)

Lemma recs_update_validator : forall s n o, s_recs (update_validator s n o) = s_recs s.
Proof. intros; unfold update_validator; destruct (stake_equal n o); reflexivity. Qed.

Lemma recs_pay_delegators : forall l s per tot s2 tot3, pay_delegators s l per tot = Ok (s2, tot3) -> s_recs s2 = s_recs s.
Proof.
  induction l as [|d r IH]; intros s per tot s2 tot3 H; cbn [pay_delegators] in H.
  - inv H. reflexivity.
  - destruct (tot - per * d_stake d <? 0); [discriminate|]. apply IH in H. rewrite H. reflexivity.
Qed.

Lemma recs_settle_rewards : forall p s val s', settle_rewards p s val = Ok s' -> s_recs s' = s_recs s.
Proof.
  intros p s val s' H. unfold settle_rewards in H.
  repeat (break_match; try discriminate); try (inv H; rewrite ?recs_update_validator; reflexivity);
  (match type of H with rbind (pay_delegators ?a ?b ?c ?d) _ = _ => destruct (pay_delegators a b c d) as [[s2 tot3]|] eqn:EP end; [|discriminate];
   cbn [rbind] in H; apply recs_pay_delegators in EP;
   repeat (break_match; try discriminate); inv H; rewrite recs_update_validator; unfold add_balance in *; sproj; rewrite ?EP; reflexivity).
Qed.

Lemma recs_do_penalize : forall p s typ val amount s', do_penalize p s typ val amount = Ok s' -> s_recs s' = s_recs s.
Proof.
  intros p s typ val amount s' H. unfold do_penalize in H.
  destruct (if 0 <? amount then take_penalty p s val amount else Ok (val, amount, s_queue s)) as [[[nv tot] q']|]; [|discriminate].
  cbn [rbind] in H. inv H. unfold add_negwd, add_balance; sproj. rewrite recs_update_validator. reflexivity.
Qed.

Lemma recs_process_evidences : forall p evs s seen s', process_evidences p s evs seen = Ok s' -> s_recs s' = s_recs s.
Proof.
  induction evs as [|[[round signer] differ] r IH]; intros s seen s' H; cbn [process_evidences] in H.
  - inv H. reflexivity.
  - repeat (break_match; try discriminate); eauto.
    destruct (do_penalize p s PDoubleSign v _) eqn:E; cbn [rbind] in H; [|discriminate].
    apply recs_do_penalize in E. apply IH in H. congruence.
Qed.

Lemma recs_slash_or_recover : forall p s a s', slash_or_recover p s a = Ok s' -> s_recs s' = s_recs s.
Proof.
  intros p s a s' H. unfold slash_or_recover in H.
  repeat (break_match; try discriminate); try (inv H; rewrite ?recs_update_validator; reflexivity);
    eapply recs_do_penalize; eauto.
Qed.

Lemma recs_fold_res : forall A (f : state -> A -> res state) l s s',
  (forall s a s', f s a = Ok s' -> s_recs s' = s_recs s) -> fold_res f l s = Ok s' -> s_recs s' = s_recs s.
Proof.
  induction l as [|a r IH]; intros s s' Hf H; cbn [fold_res] in H.
  - inv H. reflexivity.
  - destruct (f s a) eqn:E; cbn [rbind] in H; [|discriminate]. apply Hf in E. eapply IH in H; eauto. congruence.
Qed.

Lemma recs_rewards_to_pool : forall p s cb s', rewards_to_pool p s cb = Ok s' -> s_recs s' = s_recs s.
Proof.
  intros p s cb s' H. unfold rewards_to_pool, block_rewards in H.
  repeat (break_match; try discriminate);
    repeat match goal with Hx : (_, _) = (_, _) |- _ => inv Hx end; inv H;
    unfold sub_balance; sproj; rewrite ?recs_update_validator; reflexivity.
Qed.

Lemma recs_distribute_one : forall p s d st a s' d' st', distribute_one p (s, d, st) a = Ok (s', d', st') -> s_recs s' = s_recs s.
Proof.
  intros p s d st a s' d' st' H. unfold distribute_one in H.
  repeat (break_match; try discriminate); try (inv H; rewrite ?recs_update_validator; reflexivity);
    match type of H with rbind (settle_rewards ?a ?b ?c) _ = _ => destruct (settle_rewards a b c) eqn:ES end; cbn [rbind] in H; try discriminate;
    inv H; apply recs_settle_rewards in ES; rewrite ES, ?recs_update_validator; reflexivity.
Qed.

Lemma recs_distribute_loop : forall p l s d st s' d' st', distribute_loop p l (s, d, st) = Ok (s', d', st') -> s_recs s' = s_recs s.
Proof.
  induction l as [|a r IH]; intros s d st s' d' st' H; cbn [distribute_loop] in H.
  - inv H. reflexivity.
  - destruct (distribute_one p (s, d, st) a) as [[[s1 d1] st1]|] eqn:E; cbn [rbind] in H; [|discriminate].
    apply recs_distribute_one in E. apply IH in H. congruence.
Qed.

Lemma recs_close_role : forall s d r s', close_role s d r = Ok s' -> s_recs s' = s_recs s.
Proof. intros s d r s' H; unfold close_role in H; repeat (break_match; try discriminate); inv H; reflexivity. Qed.

Lemma recs_distribute_rewards : forall p s s' st, distribute_rewards p s = Ok (Some (s', st)) -> s_recs s' = s_recs s.
Proof.
  intros p s s' st H. unfold distribute_rewards in H.
  destruct (k_on_stake (st_k0 (s_stat s)) <=? 0); [discriminate|].
  destruct (mk_rrec s 1) as [r1|]; cbn [rbind] in H; [|discriminate].
  destruct (mk_rrec s 2) as [r2|]; cbn [rbind] in H; [|discriminate].
  destruct (mk_rrec s 3) as [r3|]; cbn [rbind] in H; [|discriminate].
  destruct (distribute_loop p (val_keys (s_vals s)) (s, mkDrec r1 r2 r3, [])) as [[[s1 d] st1]|] eqn:EL; cbn [rbind] in H; [|discriminate].
  destruct (close_role s1 d 1) as [s2|] eqn:C1; cbn [rbind] in H; [|discriminate].
  destruct (close_role s2 d 2) as [s3|] eqn:C2; cbn [rbind] in H; [|discriminate].
  destruct (close_role s3 d 3) as [s4|] eqn:C3; cbn [rbind] in H; [|discriminate].
  inv H. apply recs_distribute_loop in EL. apply recs_close_role in C1, C2, C3. congruence.
Qed.

(* ---- UpdateDelegation ------------------------------------------------------------------ *)

Lemma apply_delegation_total : forall p s d val x delta s1 nv df sd del, stored s val ->
  apply_delegation p s d val x delta = (s1, nv, df, sd, del) ->
  total s1 = total s + delta /\ residue_of s1 = residue_of s /\ s_recs s1 = s_recs s /\ stored s1 nv /\ v_addr nv = v_addr val.
Proof.
  intros p s d val x delta s1 nv df sd del Hst H. unfold apply_delegation in H. cbv zeta in H. inv H.
  assert (Fd : forall s0 a b c, total (update_delegator s0 a b c) = total s0 /\ residue_of (update_delegator s0 a b c) = residue_of s0
               /\ s_recs (update_delegator s0 a b c) = s_recs s0 /\ s_vals (update_delegator s0 a b c) = s_vals s0).
  { intros; unfold update_delegator; repeat break_match; repeat split. }
  match goal with |- context [update_delegator ?a ?b ?c ?e] => destruct (Fd a b c e) as (F1 & F2 & F3 & F4) end.
  rewrite F1, F2, F3. unfold stored. rewrite F4.
  rewrite total_update_validator, residue_update_validator, recs_update_validator; auto.
  split; [unfold vmoney, set_v_dlgs, set_v_money; cbn [v_token v_dist]; lia|].
  repeat split. apply stored_update_validator.
Qed.

Lemma update_delegation_total : forall p s d val delta s1 nv df sd del, stored s val ->
  update_delegation p s d val delta = Some (s1, nv, df, sd, del) ->
  total s1 = total s + delta /\ residue_of s1 = residue_of s /\ s_recs s1 = s_recs s /\ stored s1 nv /\ v_addr nv = v_addr val.
Proof.
  intros p s d val delta s1 nv df sd del Hst H. unfold update_delegation in H.
  destruct (delta =? 0); [discriminate|].
  destruct (dl_get (v_dlgs val) d) as [x|]; [|destruct (delta <? 0); [discriminate|]];
    (match type of H with Some ?a = Some _ => assert (H' : a = (s1, nv, df, sd, del)) by congruence end);
    eapply apply_delegation_total; eauto.
Qed.

(* ---- take effect ---------------------------------------------------------------------------- *)

(* the pending transactions of the records passed PreCheck when they were accepted *)
Definition tx_checked (p : params) (pt : ptx) : Prop := precheck p (pt_act pt) = true.

Lemma stored_frame : forall s s' v, s_vals s' = s_vals s -> stored s v -> stored s' v.
Proof. unfold stored; intros s s' v H; rewrite H; auto. Qed.

(* an activation moves exactly the detained amount into the ledger (validator
   tokens, or back to the sender: the refunds of version 5) *)
Theorem take_effect_total : forall p s pt s', tx_checked p pt -> take_effect p s pt = Ok s' ->
  total s' = total s + detained (pt_act pt) /\ residue_of s' = residue_of s /\ s_recs s' = s_recs s.
Proof.
  intros p s pt s' Hc H. unfold take_effect in H. unfold tx_checked in Hc.
  destruct pt as [id from act]; cbn [pt_act pt_from] in *.
  destruct act; cbn [detained].
  - (* create *)
    destruct (get_val s (c_main c)) eqn:Eg; inv H.
    + unfold total. autorewrite with ledger. repeat split; lia.
    + unfold total. rewrite supply_create_validator by (exact Eg). autorewrite with ledger.
      unfold vmoney, new_validator; cbn [v_token v_dist]. repeat split; lia.
  - (* update *)
    destruct (get_val s (u_main u)) eqn:Eg; [|discriminate]. inv H.
    apply get_val_stored in Eg. destruct Eg as [Hst _].
    rewrite total_update_validator, residue_update_validator, recs_update_validator; auto.
    unfold vmoney, set_v_info; cbn [v_token v_dist]. repeat split; lia.
  - (* deposit *)
    destruct (get_val s main) eqn:Eg; [|discriminate].
    apply get_val_stored in Eg. destruct Eg as [Hst _].
    destruct (over_max p (v_role v) _); inv H.
    + unfold total. autorewrite with ledger. repeat split; lia.
    + rewrite total_update_validator, residue_update_validator, recs_update_validator; auto.
      unfold vmoney, set_v_money; cbn [v_token v_dist]. repeat split; lia.
  - (* withdraw *)
    destruct (get_val s main) eqn:Eg; [|discriminate].
    apply get_val_stored in Eg. destruct Eg as [Hst _]. cbv zeta in H. inv H.
    set (w := withdraw_amount p v value). set (nv := withdraw_validator p v w).
    assert (Ha : v_addr nv = v_addr v) by (unfold nv, withdraw_validator; cbv zeta; destruct (v_online v && _); reflexivity).
    assert (Hm : vmoney nv = vmoney v - w).
    { unfold nv, withdraw_validator, vmoney; cbv zeta. destruct (v_online v && _); unfold set_v_status, set_v_money; cbn [v_token v_dist]; lia. }
    set (sa := update_validator s nv v).
    assert (Hsa : total sa = total s - w /\ residue_of sa = residue_of s /\ s_recs sa = s_recs s).
    { unfold sa. rewrite total_update_validator, residue_update_validator, recs_update_validator; auto. repeat split; lia. }
    destruct Hsa as (A1 & A2 & A3).
    unfold total. rewrite supply_add_withdraw by reflexivity. autorewrite with ledger.
    unfold residue_of, add_withdraw; sproj. fold (residue_of sa).
    unfold new_withdraw; cbn [w_final]. unfold total in A1. unfold residue_of in *. repeat split; try congruence; lia.
  - (* status *)
    destruct (get_val s main) eqn:Eg; [|discriminate].
    apply get_val_stored in Eg. destruct Eg as [Hst _].
    destruct ((status =? 1) && _); inv H; [repeat split; lia|].
    rewrite total_update_validator, residue_update_validator, recs_update_validator; auto.
    unfold vmoney, set_v_last_active, set_v_status; cbn [v_token v_dist]. repeat split; lia.
  - inv H. repeat split; lia.
  - (* delegation add *)
    destruct (get_val s val) eqn:Eg; [|discriminate].
    apply get_val_stored in Eg. destruct Eg as [Hst _].
    destruct (v_expelled v || (v_accept v =? 0)); [inv H; unfold total; autorewrite with ledger; repeat split; lia|].
    destruct (over_max p (v_role v) _); [inv H; unfold total; autorewrite with ledger; repeat split; lia|].
    destruct (update_delegation p s from v value) as [[[[[s1 nv] df] sd] del]|] eqn:EU.
    + inv H. eapply update_delegation_total in EU; eauto. destruct EU as (U1 & U2 & U3 & _). repeat split; auto.
    + (* impossible: the value is positive *)
      exfalso. cbn [precheck] in Hc. unfold update_delegation in EU.
      destruct (value =? 0) eqn:E0; [lia|]. destruct (dl_get (v_dlgs v) from); [discriminate|].
      destruct (value <? 0) eqn:E1; [lia|discriminate].
  - (* delegation sub *)
    destruct (get_val s val) eqn:Eg; [|discriminate].
    apply get_val_stored in Eg. destruct Eg as [Hst _].
    destruct (dl_get (v_dlgs v) from) as [df0|]; [|inv H; repeat split; lia].
    match type of H with (if ?c then _ else _) = _ => destruct c end; [inv H; repeat split; lia|].
    cbv zeta in H. set (w := dsub_amount p df0 value) in *.
    destruct (update_delegation p s from v (- w)) as [[[[[s1 nv] df] sd] del]|] eqn:EU; [|discriminate].
    eapply update_delegation_total in EU; eauto. destruct EU as (U1 & U2 & U3 & U4 & U5).
    inv H.
    match goal with |- context [add_withdraw ?a _] => set (sa := a) end.
    assert (Hsa : total sa = total s1 /\ residue_of sa = residue_of s1 /\ s_recs sa = s_recs s1).
    { subst sa. destruct (v_online nv && _); [|auto].
      rewrite total_update_validator, residue_update_validator, recs_update_validator; auto.
      unfold vmoney, set_v_status; cbn [v_token v_dist]. repeat split; lia. }
    destruct Hsa as (A1 & A2 & A3).
    unfold total. rewrite supply_add_withdraw by reflexivity. autorewrite with ledger.
    unfold residue_of, add_withdraw; sproj. fold (residue_of sa).
    unfold new_withdraw; cbn [w_final]. unfold total in A1, U1. unfold residue_of in *. repeat split; try congruence; lia.
  - inv H. repeat split; lia.
  - inv H. repeat split; lia.
Qed.

Definition txs_detained (l : list ptx) : Z := fold_right (fun t a => detained (pt_act t) + a) 0 l.

Lemma take_effects_total : forall p l s s', Forall (tx_checked p) l -> fold_res (take_effect p) l s = Ok s' ->
  total s' = total s + txs_detained l /\ residue_of s' = residue_of s /\ s_recs s' = s_recs s.
Proof.
  induction l as [|t r IH]; intros s s' Hc H; cbn [fold_res] in H.
  - inv H. cbn. repeat split; lia.
  - inv Hc. destruct (take_effect p s t) as [s1|] eqn:E; cbn [rbind] in H; [|discriminate].
    apply take_effect_total in E; auto. apply IH in H; auto.
    destruct E as (E1 & E2 & E3), H as (G1 & G2 & G3).
    change (txs_detained (t :: r)) with (detained (pt_act t) + txs_detained r). repeat split; try congruence; lia.
Qed.

Definition rec_checked (p : params) (r : prec) : Prop := Forall (tx_checked p) (r_txs r).

Lemma process_record_total : forall p s st r s' st', rec_checked p r -> process_record p (s, st) r = Ok (s', st') ->
  total s' = total s + rec_pending r /\ residue_of s' = residue_of s /\ s_recs s' = s_recs s.
Proof.
  intros p s st r s' st' Hc H. unfold process_record in H.
  match type of H with rbind ?x _ = _ => destruct x as [s1|] eqn:E1 end; cbn [rbind] in H; [|discriminate].
  destruct (fold_res (take_effect p) (r_txs r) s1) as [s2|] eqn:E2; cbn [rbind] in H; [|discriminate]. inv H.
  apply take_effects_total in E2; auto. destruct E2 as (T1 & T2 & T3).
  assert (S : same s s1 /\ s_recs s1 = s_recs s).
  { destruct (sl_mem st (r_v r)); [inv E1; split; [apply same_refl|reflexivity]|].
    destruct (get_val s (r_v r)) eqn:Eg; [|inv E1; split; [apply same_refl|reflexivity]].
    apply get_val_stored in Eg. destruct Eg as [Hst _].
    split; [eapply settle_rewards_same; eauto|eapply recs_settle_rewards; eauto]. }
  destruct S as [[S1 S2] S3]. unfold rec_pending. fold (txs_detained (r_txs r)). repeat split; try congruence; lia.
Qed.

Lemma process_records_total : forall p l s st s' st', Forall (rec_checked p) l -> process_records p l (s, st) = Ok (s', st') ->
  total s' = total s + pending l /\ residue_of s' = residue_of s /\ s_recs s' = s_recs s.
Proof.
  induction l as [|r t IH]; intros s st s' st' Hc H; cbn [process_records] in H.
  - inv H. cbn. repeat split; lia.
  - inv Hc. destruct (process_record p (s, st) r) as [[s1 st1]|] eqn:E; cbn [rbind] in H; [|discriminate].
    apply process_record_total in E; auto. apply IH in H; auto.
    destruct E as (E1 & E2 & E3), H as (G1 & G2 & G3).
    change (pending (r :: t)) with (rec_pending r + pending t). repeat split; try congruence; lia.
Qed.

(* ---- the iteration order is a permutation of the records --------------------------------------- *)

Lemma rec_take_pending : forall l d v x l', rec_take l d v = Some (x, l') ->
  pending l = rec_pending x + pending l' /\ (forall P : prec -> Prop, Forall P l -> P x /\ Forall P l').
Proof.
  induction l as [|r t IH]; intros d v x l' H; cbn [rec_take] in H; [discriminate|].
  destruct ((r_d r =? d) && (r_v r =? v)).
  - inv H. split; [reflexivity|]. intros P HP. inv HP. auto.
  - destruct (rec_take t d v) as [[y t']|] eqn:E; [|discriminate]. inv H.
    apply IH in E. destruct E as [E1 E2]. split.
    + change (pending (r :: t)) with (rec_pending r + pending t). change (pending (r :: t')) with (rec_pending r + pending t'). lia.
    + intros P HP. inv HP. destruct (E2 P H2). auto.
Qed.

Lemma order_by_pending : forall o l, pending (order_by o l) = pending l /\ (forall P : prec -> Prop, Forall P l -> Forall P (order_by o l)).
Proof.
  induction o as [|[d v] r IH]; intros l; cbn [order_by]; [auto|].
  destruct (rec_take l d v) as [[x l']|] eqn:E; [|apply IH].
  apply rec_take_pending in E. destruct E as [E1 E2]. destruct (IH l') as [I1 I2]. split.
  - change (pending (x :: order_by r l')) with (rec_pending x + pending (order_by r l')). lia.
  - intros P HP. destruct (E2 P HP). constructor; auto.
Qed.

(* ---- the end of a staking period ------------------------------------------------------------------ *)

Definition recs_checked (p : params) (s : state) : Prop := Forall (rec_checked p) (s_recs s).

Theorem end_staking_period_same : forall p s s', recs_checked p s -> end_staking_period p s = Ok s' ->
  same s s' /\ (s_recs s' = s_recs s \/ s_recs s' = []).
Proof.
  intros p s s' Hc H. unfold end_staking_period in H.
  destruct (negb ((s_number s + 1) mod p_freq p =? 0)); [inv H; split; [apply same_refl|auto]|].
  destruct (fold_res (slash_or_recover p) (val_keys (s_vals s)) s) as [s1|] eqn:E1; cbn [rbind] in H; [|discriminate].
  pose proof (recs_fold_res _ _ _ _ _ (recs_slash_or_recover p) E1) as R1.
  apply fold_res_same in E1; [|apply slash_or_recover_same].
  destruct (distribute_rewards p s1) as [[[s2 st]|]|] eqn:E2; cbn [rbind] in H; [| |discriminate].
  - pose proof (recs_distribute_rewards _ _ _ _ E2) as R2.
    apply distribute_rewards_same in E2. destruct E2 as [E2 _].
    destruct (process_withdraw_queue_same p s2) as (W1 & _ & W3).
    set (s3 := process_withdraw_queue p s2) in *.
    destruct (process_records p (ordered_records p (s_recs s3)) (s3, st)) as [[s4 st4]|] eqn:E4; cbn [rbind] in H; [|discriminate].
    inv H.
    assert (Hc3 : Forall (rec_checked p) (ordered_records p (s_recs s3))).
    { unfold ordered_records. apply order_by_pending. rewrite W3, R2, R1. exact Hc. }
    apply process_records_total in E4; auto. destruct E4 as (P1 & P2 & P3).
    unfold ordered_records in P1. rewrite (proj1 (order_by_pending _ _)) in P1.
    split; [|right; reflexivity].
    eapply same_trans; [exact E1|]. eapply same_trans; [exact E2|]. eapply same_trans; [exact W1|].
    unfold same, total in *. unfold supply at 1. sproj. unfold leaked at 1. sproj.
    unfold residue_of at 1. sproj. fold (residue_of s4).
    unfold supply in P1 at 1. unfold leaked in P1 at 1. rewrite P3 in P1. unfold supply in P1 at 1. unfold leaked in P1.
    change (pending []) with 0. unfold supply, leaked. split; [lia|auto].
  - inv H. split; [exact E1|left; exact R1].
Qed.

(* ---- deletion of empty validators -------------------------------------------------------------------- *)

Lemma delete_invalid_total : forall l s s1 l', delete_invalid s l = (s1, l') ->
  total s1 + vsum vmoney l' = total s + vsum vmoney l /\ residue_of s1 = residue_of s /\ s_vals s1 = s_vals s /\ s_recs s1 = s_recs s.
Proof.
  induction l as [|v r IH]; intros s s1 l' H; cbn [delete_invalid] in H.
  - inv H. repeat split; lia.
  - destruct (delete_invalid s r) as [sa r'] eqn:E. apply IH in E. destruct E as (E1 & E2 & E3 & E4).
    assert (Vc : forall f x l0, vsum f (x :: l0) = f x + vsum f l0) by reflexivity.
    destruct (v_invalid v); inv H; rewrite ?Vc.
    + unfold total. rewrite supply_add_dust, leaked_add_dust, supply_set_stat, leaked_set_stat.
      rewrite (pools_money _ _ (money_decr (s_stat sa) v)).
      unfold residue_of; sproj. rewrite (residue_money _ _ (money_decr (s_stat sa) v)).
      unfold total, residue_of in *. unfold vmoney at 2. repeat split; auto; lia.
    + repeat split; auto; lia.
Qed.

Lemma vsum_vmoney : forall l, vsum vmoney l = vsum v_token l + vsum v_dist l.
Proof. induction l as [|v r IH]; cbn [vsum fold_right]; [lia|]. fold (vsum vmoney r) (vsum v_token r) (vsum v_dist r). unfold vmoney at 1. lia. Qed.

Theorem finalize_block_same : forall s, same s (finalize_block s) /\ s_recs (finalize_block s) = s_recs s.
Proof.
  intros s. unfold finalize_block. destruct (delete_invalid s (s_vals s)) as [s1 l] eqn:E.
  apply delete_invalid_total in E. destruct E as (E1 & E2 & E3 & E4).
  split; [|exact E4]. unfold same, total in *. unfold supply at 1. sproj. unfold leaked at 1. sproj.
  unfold residue_of at 1. sproj. split; [|exact E2].
  rewrite !vsum_vmoney in E1. unfold supply in E1 at 1. unfold leaked in E1 at 1. rewrite E3 in E1. lia.
Qed.

(* ---- blocks -------------------------------------------------------------------------------------------- *)

(* the ledger invariant the conservation theorem needs *)
Definition wf (p : params) (s : state) : Prop := 0 <= residue_of s /\ recs_checked p s.

Lemma begin_block_same : forall p s, same s (begin_block p s) /\ (s_recs (begin_block p s) = s_recs s \/ s_recs (begin_block p s) = []).
Proof.
  intros p s. unfold begin_block. destruct (s_number (set_number s (s_number s + 1)) mod p_freq p =? 0).
  - split; [|right; reflexivity]. unfold same, total. unfold supply at 1, leaked at 1, residue_of at 1. sproj.
    unfold supply, leaked, residue_of. cbn [pending fold_right]. split; [lia|reflexivity].
  - split; [|left; reflexivity]. split; reflexivity.
Qed.

Lemma handle_checked : forall p s pt s', recs_checked p s -> handle p s pt = Some s' -> recs_checked p s'.
Proof.
  intros p s pt s' Hc H. unfold handle in H.
  destruct (negb (precheck p (pt_act pt))) eqn:Ep; [discriminate|].
  assert (Hpt : tx_checked p pt) by (unfold tx_checked; destruct (precheck p (pt_act pt)); [reflexivity|discriminate]).
  assert (Hadd : forall l d v tx f, Forall (rec_checked p) l -> (forall t, tx = Some t -> tx_checked p t) -> Forall (rec_checked p) (rec_add l d v tx f)).
  { induction l as [|r t IH]; intros d v tx f Hl Htx; cbn [rec_add].
    - constructor; [|constructor]. unfold rec_checked, rec_upd; cbn [r_txs]. destruct tx; cbn; [constructor; auto|constructor].
    - inv Hl. destruct ((r_d r =? d) && (r_v r =? v)).
      + constructor; auto. unfold rec_checked, rec_upd in *; cbn [r_txs]. destruct tx; auto. apply Forall_app; split; auto.
      + constructor; auto. }
  unfold recs_checked in *.
  destruct pt as [id from act]; cbn [pt_act pt_from] in H.
  unfold check_total_pending in H.
  destruct act; try discriminate; repeat (break_match; try discriminate); inv H;
    repeat match goal with Hx : Some _ = Some _ |- _ => inv Hx end;
    unfold add_record, sub_balance; sproj;
    repeat (apply Hadd; [|intros t0 Ht0; inv Ht0; try exact Hpt; try discriminate]); auto.
Qed.

Lemma apply_tx_checked : forall p s t s', recs_checked p s -> apply_tx p s t = Some s' -> recs_checked p s'.
Proof.
  intros p s t s' Hc H. unfold apply_tx in H.
  repeat (break_match; try discriminate); inv H; unfold recs_checked, settle_gas, bump_nonce, add_balance, sub_balance in *; sproj; auto;
    try match goal with Hh : handle _ _ _ = Some _ |- _ => apply handle_checked in Hh; auto end.
  assert (F : forall l s0, s_recs (apply_effects s0 l) = s_recs s0).
  { induction l as [|[a d] r IH]; intros s0; cbn [apply_effects]; auto. rewrite IH. reflexivity. }
  rewrite F. auto.
Qed.

Lemma apply_txs_checked : forall p l s, recs_checked p s -> recs_checked p (apply_txs p s l).
Proof.
  induction l as [|t r IH]; intros s Hc; cbn [apply_txs]; auto.
  destruct (apply_tx p s t) eqn:E; auto. apply IH. eapply apply_tx_checked; eauto.
Qed.

Definition block_ok (b : block) : Prop := Forall tx_ok (b_txs b).

Theorem end_block_total : forall p s b s', wf p s -> end_block p s b = Ok s' -> total s' = total s /\ wf p s'.
Proof.
  intros p s b s' [Hr Hc] H. unfold end_block in H.
  destruct (has_negative_record s); [discriminate|].
  destruct (process_evidences p s (b_evs b) []) as [s1|] eqn:E1; cbn [rbind] in H; [|discriminate].
  pose proof (recs_process_evidences _ _ _ _ _ E1) as R1. apply process_evidences_same in E1. destruct E1 as [T1 Q1].
  destruct (rewards_to_pool p s1 (b_proposer b)) as [s2|] eqn:E2; cbn [rbind] in H; [|discriminate].
  pose proof (recs_rewards_to_pool _ _ _ _ E2) as R2. apply rewards_to_pool_total in E2; [|lia]. destruct E2 as [T2 Q2].
  destruct (end_staking_period p s2) as [s3|] eqn:E3; cbn [rbind] in H; [|discriminate]. inv H.
  assert (Hc2 : recs_checked p s2) by (unfold recs_checked; rewrite R2, R1; exact Hc).
  apply end_staking_period_same in E3; auto. destruct E3 as [[T3 Q3] R3].
  destruct (finalize_block_same s3) as [[T4 Q4] R4].
  split; [congruence|]. split; [lia|].
  unfold recs_checked. rewrite R4. destruct R3 as [-> | ->]; [exact Hc2|constructor].
Qed.

(* ---- the main statements ---------------------------------------------------------------------------------- *)

Theorem apply_block_total : forall p s b s', wf p s -> block_ok b -> apply_block p s b = Ok s' ->
  total s' = total s /\ wf p s'.
Proof.
  intros p s b s' [Hr Hc] Hok H. unfold apply_block in H.
  destruct (begin_block_same p s) as [[T1 Q1] R1].
  destruct (apply_txs_same p (b_txs b) (begin_block p s) Hok) as [T2 Q2].
  assert (W : wf p (apply_txs p (begin_block p s) (b_txs b))).
  { split; [lia|]. apply apply_txs_checked. unfold recs_checked. destruct R1 as [-> | ->]; [exact Hc|constructor]. }
  apply end_block_total in H; auto. destruct H as [T3 W3]. split; [congruence|exact W3].
Qed.

Theorem run_chain_total : forall p l s s', wf p s -> Forall block_ok l -> run_chain p s l = Ok s' ->
  total s' = total s /\ wf p s'.
Proof.
  induction l as [|b r IH]; intros s s' W Hok H; cbn [run_chain] in H.
  - inv H. auto.
  - inv Hok. destruct (apply_block p s b) as [s1|] eqn:E; cbn [rbind] in H; [|discriminate].
    apply apply_block_total in E; auto. destruct E as [T1 W1].
    apply IH in H; auto. destruct H as [T2 W2]. split; [congruence|exact W2].
Qed.

(* ---- where the two anomaly counters can move ------------------------------------------------------------------ *)

(* g_negwd moves only when a negative FinalBalance is written off or a negative
   penalty amount is credited; g_dupcreate only when a pending create meets an
   existing validator *)
Lemma anomaly_withdraw : forall s w s1 w1, withdraw_step s w = (s1, w1) -> 0 <= w_final w ->
  g_negwd s1 = g_negwd s /\ g_dupcreate s1 = g_dupcreate s.
Proof.
  intros s w s1 w1 H Hf. unfold withdraw_step in H.
  destruct (w_final w <=? 0) eqn:E1; [|destruct ((w_completion w <? s_number s) && (w_finished w =? 0))]; inv H;
    unfold add_negwd, add_balance; sproj; split; auto.
  assert (w_final w = 0) by lia. destruct (w_finished w =? 0); lia.
Qed.

Lemma anomaly_penalty : forall p s typ val amount s', do_penalize p s typ val amount = Ok s' -> 0 <= amount ->
  g_negwd s' = g_negwd s /\ g_dupcreate s' = g_dupcreate s.
Proof.
  intros p s typ val amount s' H Ha. unfold do_penalize in H.
  destruct (if 0 <? amount then take_penalty p s val amount else Ok (val, amount, s_queue s)) as [[[nv tot] q']|]; [|discriminate].
  cbn [rbind] in H. inv H.
  assert (F : forall s0 n o, g_negwd (update_validator s0 n o) = g_negwd s0 /\ g_dupcreate (update_validator s0 n o) = g_dupcreate s0).
  { intros; unfold update_validator; destruct (stake_equal n o); split; reflexivity. }
  unfold add_negwd, add_balance; sproj.
  match goal with |- context [update_validator ?a ?b ?c] => destruct (F a b c) as [-> ->] end. sproj.
  split; [|reflexivity]. destruct (0 <? amount) eqn:E; lia.
Qed.

Lemma anomaly_create : forall p s id from c s', take_effect p s (mkPtx id from (ACreate c)) = Ok s' ->
  get_val s (c_main c) = None -> g_dupcreate s' = g_dupcreate s /\ g_negwd s' = g_negwd s /\ get_val s' (c_main c) = Some (new_validator p c).
Proof.
  intros p s id from c s' H Hn. unfold take_effect in H; cbn [pt_act] in H. rewrite Hn in H. inv H.
  unfold create_validator; sproj. repeat split. unfold get_val; sproj. apply (vget_vset_same (s_vals s) (new_validator p c)).
Qed.
