(* C07 - a pending create never meets an existing validator: the counter
   g_dupcreate does not move along any chain that starts from a ledger whose
   pending creates are unique, keyed (0, main address) and not yet validators. *)
From VF.C07 Require Import Model ProofsLedger ProofsTx ProofsSlash ProofsRewards ProofsEffect.
From Coq Require Import Lia ZifyBool Permutation.
Open Scope Z_scope.

(* ---- steps that create no validator, drop no deposit and leave the records alone ------------ *)

Definition mono (s s' : state) : Prop :=
  s_recs s' = s_recs s /\ g_dupcreate s' = g_dupcreate s /\ (forall m, get_val s m = None -> get_val s' m = None).

Lemma mono_refl : forall s, mono s s. Proof. intros; repeat split; auto. Qed.
Lemma mono_trans : forall a b c, mono a b -> mono b c -> mono a c.
Proof. unfold mono; intros a b c (A1 & A2 & A3) (B1 & B2 & B3); repeat split; try congruence; auto. Qed.

Lemma mono_frame : forall s s', s_recs s' = s_recs s -> g_dupcreate s' = g_dupcreate s -> s_vals s' = s_vals s -> mono s s'.
Proof. intros s s' H1 H2 H3; repeat split; auto. unfold get_val; rewrite H3; auto. Qed.

Lemma mono_add_balance : forall s a d, mono s (add_balance s a d). Proof. intros; apply mono_frame; reflexivity. Qed.
Lemma mono_set_queue : forall s q, mono s (set_queue s q). Proof. intros; apply mono_frame; reflexivity. Qed.
Lemma mono_set_stat : forall s t, mono s (set_stat s t). Proof. intros; apply mono_frame; reflexivity. Qed.

Lemma mono_update_validator : forall s n o, stored s o -> v_addr n = v_addr o -> mono s (update_validator s n o).
Proof.
  intros s n o Hst Ha. split; [apply recs_update_validator|]. split.
  - unfold update_validator; destruct (stake_equal n o); reflexivity.
  - intros m Hm. destruct (Z.eq_dec m (v_addr n)) as [->|Hne].
    + rewrite Ha in Hm. unfold stored, get_val in *. congruence.
    + rewrite get_update_validator_other; auto.
Qed.

Lemma mono_pay_delegators : forall l s per tot s2 tot3, pay_delegators s l per tot = Ok (s2, tot3) -> mono s s2.
Proof.
  induction l as [|d r IH]; intros s per tot s2 tot3 H; cbn [pay_delegators] in H.
  - inv H. apply mono_refl.
  - destruct (tot - per * d_stake d <? 0); [discriminate|]. apply IH in H.
    eapply mono_trans; [|exact H]. apply mono_frame; reflexivity.
Qed.

Lemma mono_stored : forall s s' v, s_vals s' = s_vals s -> stored s v -> stored s' v.
Proof. unfold stored; intros s s' v H; rewrite H; auto. Qed.

Lemma mono_settle_rewards : forall p s val s', stored s val -> settle_rewards p s val = Ok s' -> mono s s'.
Proof.
  intros p s val s' Hst H. unfold settle_rewards in H.
  destruct ((v_stake val =? 0) && (0 <? v_dist val)).
  { inv H. eapply mono_trans; [apply mono_add_balance|]. apply mono_update_validator; [exact Hst|reflexivity]. }
  destruct ((v_stake val =? 0) || (v_dist val =? 0)); [inv H; apply mono_refl|].
  match type of H with rbind (pay_delegators ?a ?b ?c ?d) _ = _ => destruct (pay_delegators a b c d) as [[s2 tot3]|] eqn:EP end; [|discriminate].
  cbn [rbind] in H.
  match type of H with context [negb (tot3 =? ?x)] => destruct (negb (tot3 =? x)) end; [discriminate|]. inv H.
  pose proof (pay_delegators_total _ _ _ _ _ _ EP) as (_ & _ & V & _).
  apply mono_pay_delegators in EP.
  eapply mono_trans; [apply mono_add_balance|]. eapply mono_trans; [exact EP|].
  destruct (v_online val).
  - apply mono_update_validator; [|reflexivity]. unfold stored. rewrite V. exact Hst.
  - eapply mono_trans; [apply mono_add_balance|].
    apply mono_update_validator; [|reflexivity]. unfold stored; unfold add_balance; sproj. rewrite V. exact Hst.
Qed.

Lemma take_penalty_addr : forall p s val amount nv tot q', take_penalty p s val amount = Ok (nv, tot, q') -> v_addr nv = v_addr val.
Proof. intros. eapply take_penalty_sum; eauto. Qed.

Lemma mono_do_penalize : forall p s typ val amount s', stored s val -> do_penalize p s typ val amount = Ok s' -> mono s s'.
Proof.
  intros p s typ val amount s' Hst H. unfold do_penalize in H.
  destruct (if 0 <? amount then take_penalty p s val amount else Ok (val, amount, s_queue s)) as [[[nv tot] q']|] eqn:E; [|discriminate].
  cbn [rbind] in H. inv H.
  assert (Ha : v_addr nv = v_addr val).
  { destruct (0 <? amount); [eapply take_penalty_addr; eauto|inv E; reflexivity]. }
  eapply mono_trans; [apply (mono_set_queue s q')|].
  eapply mono_trans; [apply mono_update_validator with (o := val); [exact Hst|]|apply mono_frame; reflexivity].
  exact Ha.
Qed.

Lemma mono_process_evidences : forall p evs s seen s', process_evidences p s evs seen = Ok s' -> mono s s'.
Proof.
  induction evs as [|[[round signer] differ] r IH]; intros s seen s' H; cbn [process_evidences] in H.
  - inv H. apply mono_refl.
  - repeat (break_match; try discriminate); eauto.
    destruct (do_penalize p s PDoubleSign v _) eqn:E; cbn [rbind] in H; [|discriminate].
    apply get_val_stored in Heqo. destruct Heqo as [Hst _].
    eapply mono_trans; [eapply mono_do_penalize; eauto|eauto].
Qed.

Lemma mono_slash_or_recover : forall p s a s', slash_or_recover p s a = Ok s' -> mono s s'.
Proof.
  intros p s a s' H. unfold slash_or_recover in H.
  destruct (get_val s a) eqn:Eg; [|inv H; apply mono_refl].
  apply get_val_stored in Eg. destruct Eg as [Hst _].
  repeat (break_match; try discriminate); try (inv H; apply mono_refl);
    try (eapply mono_do_penalize; eauto; fail).
  inv H. apply mono_update_validator; auto.
Qed.

Lemma mono_fold_res : forall A (f : state -> A -> res state) l s s',
  (forall s a s', f s a = Ok s' -> mono s s') -> fold_res f l s = Ok s' -> mono s s'.
Proof.
  induction l as [|a r IH]; intros s s' Hf H; cbn [fold_res] in H.
  - inv H. apply mono_refl.
  - destruct (f s a) eqn:E; cbn [rbind] in H; [|discriminate].
    eapply mono_trans; [eapply Hf; eauto|eapply IH; eauto].
Qed.

Lemma mono_rewards_to_pool : forall p s cb s', rewards_to_pool p s cb = Ok s' -> mono s s'.
Proof.
  intros p s cb s' H. unfold rewards_to_pool in H.
  destruct (block_rewards p s _) as [tot s1] eqn:EB.
  assert (M1 : mono s s1).
  { unfold block_rewards in EB. repeat (break_match; try discriminate); inv EB; apply mono_frame; reflexivity. }
  destruct (tot <=? 0); [inv H; exact M1|].
  match type of H with (if ?c then _ else _) = _ => destruct c end; [discriminate|].
  destruct (get_val s1 cb) as [prop|] eqn:Eg; [|discriminate]. inv H.
  apply get_val_stored in Eg. destruct Eg as [Hst _].
  eapply mono_trans; [exact M1|].
  eapply mono_trans; [|apply mono_set_stat].
  eapply mono_trans; [apply mono_set_stat|].
  apply mono_update_validator with (o := prop); [exact Hst|reflexivity].
Qed.

Lemma mono_distribute_one : forall p s d st a s' d' st', distribute_one p (s, d, st) a = Ok (s', d', st') -> mono s s'.
Proof.
  intros p s d st a s' d' st' H. unfold distribute_one in H.
  destruct (get_val s a) as [val|] eqn:Eg; [|inv H; apply mono_refl].
  apply get_val_stored in Eg. destruct Eg as [Hst _].
  destruct (negb (v_online val)).
  - destruct (settle_rewards p s val) as [s1|] eqn:ES; cbn [rbind] in H; [|discriminate]. inv H.
    eapply mono_settle_rewards; eauto.
  - destruct (drec_get d (v_role val)) as [[[per res] t]|]; [|discriminate].
    match type of H with (if ?c then _ else _) = _ => destruct c end; [discriminate|].
    match type of H with context [update_validator s ?n val] => set (nv := n) in * end.
    assert (M1 : mono s (update_validator s nv val)) by (apply mono_update_validator; auto).
    match type of H with (if ?c then _ else _) = _ => destruct c end.
    + destruct (settle_rewards p (update_validator s nv val) nv) as [s2|] eqn:ES; cbn [rbind] in H; [|discriminate]. inv H.
      eapply mono_trans; [exact M1|]. eapply mono_settle_rewards; [apply stored_update_validator|eauto].
    + inv H. exact M1.
Qed.

Lemma mono_distribute_loop : forall p l s d st s' d' st', distribute_loop p l (s, d, st) = Ok (s', d', st') -> mono s s'.
Proof.
  induction l as [|a r IH]; intros s d st s' d' st' H; cbn [distribute_loop] in H.
  - inv H. apply mono_refl.
  - destruct (distribute_one p (s, d, st) a) as [[[s1 d1] st1]|] eqn:E; cbn [rbind] in H; [|discriminate].
    eapply mono_trans; [eapply mono_distribute_one; eauto|eapply IH; eauto].
Qed.

Lemma mono_close_role : forall s d r s', close_role s d r = Ok s' -> mono s s'.
Proof. intros s d r s' H; unfold close_role in H; repeat (break_match; try discriminate); inv H; [apply mono_frame; reflexivity|apply mono_refl]. Qed.

Lemma mono_distribute_rewards : forall p s s' st, distribute_rewards p s = Ok (Some (s', st)) -> mono s s'.
Proof.
  intros p s s' st H. unfold distribute_rewards in H.
  destruct (k_on_stake (st_k0 (s_stat s)) <=? 0); [discriminate|].
  destruct (mk_rrec s 1) as [r1|]; cbn [rbind] in H; [|discriminate].
  destruct (mk_rrec s 2) as [r2|]; cbn [rbind] in H; [|discriminate].
  destruct (mk_rrec s 3) as [r3|]; cbn [rbind] in H; [|discriminate].
  destruct (distribute_loop p (val_keys (s_vals s)) (s, mkDrec r1 r2 r3, [])) as [[[s1 d] st1]|] eqn:EL; cbn [rbind] in H; [|discriminate].
  destruct (close_role s1 d 1) as [s2|] eqn:C1; cbn [rbind] in H; [|discriminate].
  destruct (close_role s2 d 2) as [s3|] eqn:C2; cbn [rbind] in H; [|discriminate].
  destruct (close_role s3 d 3) as [s4|] eqn:C3; cbn [rbind] in H; [|discriminate].
  inv H. apply mono_distribute_loop in EL. apply mono_close_role in C1, C2, C3.
  eapply mono_trans; [exact EL|]. eapply mono_trans; [exact C1|]. eapply mono_trans; [exact C2|exact C3].
Qed.

Lemma mono_withdraw_queue : forall p s, mono s (process_withdraw_queue p s).
Proof.
  intros p s. unfold process_withdraw_queue. destruct (withdraw_loop p s (s_queue s)) as [s1 q'] eqn:E.
  assert (G : forall q s0 sa qa, withdraw_loop p s0 q = (sa, qa) -> g_dupcreate sa = g_dupcreate s0).
  { induction q as [|w r IH]; intros s0 sa qa H; cbn [withdraw_loop] in H; [inv H; reflexivity|].
    destruct (withdraw_step s0 w) as [sb w1] eqn:ES. destruct (withdraw_loop p sb r) as [sc r'] eqn:EL.
    apply IH in EL. assert (g_dupcreate sb = g_dupcreate s0).
    { unfold withdraw_step in ES. repeat (break_match; try discriminate); inv ES; reflexivity. }
    destruct (withdraw_discard p (s_number s0) w1); inv H; congruence. }
  pose proof (G _ _ _ _ E) as G1.
  apply withdraw_loop_total in E. destruct E as (_ & _ & _ & _ & V & R).
  apply mono_frame; sproj; auto.
Qed.

(* take-effect of anything but a create *)
Definition is_create (a : action) : bool := match a with ACreate _ => true | _ => false end.

Lemma mono_update_delegator : forall s a b c, mono s (update_delegator s a b c) /\ s_vals (update_delegator s a b c) = s_vals s.
Proof. intros; unfold update_delegator; repeat break_match; split; try reflexivity; try apply mono_refl; apply mono_frame; reflexivity. Qed.

Lemma mono_apply_delegation : forall p s d val x delta s1 nv df sd del, stored s val ->
  apply_delegation p s d val x delta = (s1, nv, df, sd, del) -> mono s s1 /\ stored s1 nv /\ v_addr nv = v_addr val.
Proof.
  intros p s d val x delta s1 nv df sd del Hst H. unfold apply_delegation in H. cbv zeta in H. inv H.
  match goal with |- context [update_delegator ?a ?b ?c ?e] => destruct (mono_update_delegator a b c e) as [M V] end.
  split; [|split; [|reflexivity]].
  - eapply mono_trans; [|exact M]. apply mono_update_validator with (o := val); [exact Hst|reflexivity].
  - unfold stored. rewrite V. apply stored_update_validator.
Qed.

Lemma mono_update_delegation : forall p s d val delta s1 nv df sd del, stored s val ->
  update_delegation p s d val delta = Some (s1, nv, df, sd, del) -> mono s s1 /\ stored s1 nv /\ v_addr nv = v_addr val.
Proof.
  intros p s d val delta s1 nv df sd del Hst H. unfold update_delegation in H.
  destruct (delta =? 0); [discriminate|].
  destruct (dl_get (v_dlgs val) d) as [x|]; [|destruct (delta <? 0); [discriminate|]];
    (match type of H with Some ?a = Some _ => assert (H' : a = (s1, nv, df, sd, del)) by congruence end);
    eapply mono_apply_delegation; eauto.
Qed.

Lemma mono_take_effect : forall p s pt s', is_create (pt_act pt) = false -> take_effect p s pt = Ok s' -> mono s s'.
Proof.
  intros p s pt s' Hc H. unfold take_effect in H.
  destruct pt as [id from act]; cbn [pt_act pt_from] in *.
  destruct act; try discriminate.
  - destruct (get_val s (u_main u)) eqn:Eg; [|discriminate]. inv H.
    apply get_val_stored in Eg. destruct Eg as [Hst _]. apply mono_update_validator; auto.
  - destruct (get_val s main) eqn:Eg; [|discriminate].
    apply get_val_stored in Eg. destruct Eg as [Hst _].
    destruct (over_max p (v_role v) _); inv H; [apply mono_frame; reflexivity|apply mono_update_validator; auto].
  - destruct (get_val s main) eqn:Eg; [|discriminate].
    apply get_val_stored in Eg. destruct Eg as [Hst _]. cbv zeta in H. inv H.
    eapply mono_trans; [apply mono_update_validator with (o := v); [exact Hst|]|apply mono_frame; reflexivity].
    unfold withdraw_validator; cbv zeta. destruct (v_online v && _); reflexivity.
  - destruct (get_val s main) eqn:Eg; [|discriminate].
    apply get_val_stored in Eg. destruct Eg as [Hst _].
    destruct ((status =? 1) && _); inv H; [apply mono_refl|apply mono_update_validator; auto].
  - inv H. apply mono_refl.
  - destruct (get_val s val) eqn:Eg; [|discriminate].
    apply get_val_stored in Eg. destruct Eg as [Hst _].
    destruct (v_expelled v || (v_accept v =? 0)); [inv H; apply mono_frame; reflexivity|].
    destruct (over_max p (v_role v) _); [inv H; apply mono_frame; reflexivity|].
    destruct (update_delegation p s from v value) as [[[[[s1 nv] df] sd] del]|] eqn:EU; inv H; [|apply mono_refl].
    eapply mono_update_delegation in EU; eauto. tauto.
  - destruct (get_val s val) eqn:Eg; [|discriminate].
    apply get_val_stored in Eg. destruct Eg as [Hst _].
    destruct (dl_get (v_dlgs v) from) as [df0|]; [|inv H; apply mono_refl].
    match type of H with (if ?c then _ else _) = _ => destruct c end; [inv H; apply mono_refl|].
    cbv zeta in H. set (w := dsub_amount p df0 value) in *.
    destruct (update_delegation p s from v (- w)) as [[[[[s1 nv] df] sd] del]|] eqn:EU; [|discriminate].
    eapply mono_update_delegation in EU; eauto. destruct EU as (M1 & St1 & A1). inv H.
    eapply mono_trans; [exact M1|].
    destruct (v_online nv && _).
    + eapply mono_trans; [apply (mono_update_validator s1 (set_v_status nv 0) nv St1 eq_refl)|apply mono_frame; reflexivity].
    + apply mono_frame; reflexivity.
  - inv H. apply mono_refl.
  - inv H. apply mono_refl.
Qed.

(* ---- the pending creates -------------------------------------------------------------------------- *)

Definition tx_creates (t : ptx) : list Z := match pt_act t with ACreate c => [c_main c] | _ => [] end.
Definition rec_creates (r : prec) : list Z := flat_map tx_creates (r_txs r).
Definition creates (l : list prec) : list Z := flat_map rec_creates l.

Definition create_keyed (r : prec) : Prop :=
  forall t c, In t (r_txs r) -> pt_act t = ACreate c -> r_d r = 0 /\ r_v r = c_main c.

(* the pending creates are for distinct addresses, sit in the record (0, address), and the address is not a validator *)
Definition cinv (s : state) : Prop :=
  NoDup (creates (s_recs s)) /\ Forall create_keyed (s_recs s) /\ (forall m, In m (creates (s_recs s)) -> get_val s m = None).

Lemma creates_in_rec_get : forall l m, Forall create_keyed l -> In m (creates l) -> rec_get l 0 m <> None.
Proof.
  induction l as [|r t IH]; intros m Hk Hin; cbn [creates flat_map] in Hin; [contradiction|].
  inv Hk. cbn [rec_get]. apply in_app_or in Hin. destruct Hin as [Hin|Hin].
  - unfold rec_creates in Hin. apply in_flat_map in Hin. destruct Hin as (tx & Ht & Hm).
    unfold tx_creates in Hm. destruct (pt_act tx) eqn:Ea; try contradiction. destruct Hm as [<-|[]].
    destruct (H1 tx c Ht Ea) as [-> ->]. rewrite !Z.eqb_refl. cbn. discriminate.
  - destruct ((r_d r =? 0) && (r_v r =? m)); [discriminate|]. apply IH; auto.
Qed.

Lemma rec_creates_upd : forall r tx f, rec_creates (rec_upd r tx f) = rec_creates r ++ match tx with Some t => tx_creates t | None => [] end.
Proof.
  intros r tx f. unfold rec_creates, rec_upd; cbn [r_txs]. destruct tx; [|rewrite app_nil_r; reflexivity].
  rewrite flat_map_app. cbn. rewrite app_nil_r. reflexivity.
Qed.

Definition opt_creates (tx : option ptx) : list Z := match tx with Some t => tx_creates t | None => [] end.

Lemma creates_cons : forall r l, creates (r :: l) = rec_creates r ++ creates l.
Proof. reflexivity. Qed.

Lemma creates_rec_add : forall l d v tx f,
  Permutation (creates (rec_add l d v tx f)) (opt_creates tx ++ creates l).
Proof.
  induction l as [|r t IH]; intros d v tx f; cbn [rec_add].
  - rewrite creates_cons, rec_creates_upd. fold (opt_creates tx). cbn. rewrite !app_nil_r. apply Permutation_refl.
  - destruct ((r_d r =? d) && (r_v r =? v)); rewrite !creates_cons.
    + rewrite rec_creates_upd. fold (opt_creates tx). rewrite <- app_assoc. apply Permutation_app_swap_app.
    + eapply Permutation_trans; [apply Permutation_app_head, IH|]. apply Permutation_app_swap_app.
Qed.

Lemma keyed_rec_add : forall l d v tx f, Forall create_keyed l ->
  (forall t c, tx = Some t -> pt_act t = ACreate c -> d = 0 /\ v = c_main c) ->
  Forall create_keyed (rec_add l d v tx f).
Proof.
  induction l as [|r t IH]; intros d v tx f Hk Htx; cbn [rec_add].
  - constructor; [|constructor]. intros t0 c Hin Ha. unfold rec_upd in *; cbn [r_txs r_d r_v] in *.
    destruct tx; [|contradiction]. cbn in Hin. destruct Hin as [<-|[]]. eapply Htx; eauto.
  - inv Hk. destruct ((r_d r =? d) && (r_v r =? v)) eqn:E.
    + constructor; auto. intros t0 c Hin Ha. unfold rec_upd in *; cbn [r_txs r_d r_v] in *.
      destruct tx; [|eauto]. apply in_app_or in Hin. destruct Hin as [Hin|[<-|[]]]; [eauto|].
      destruct (Htx p c eq_refl Ha) as [-> ->]. lia.
    + constructor; auto.
Qed.

Lemma opt_creates_nocreate : forall tx, (forall t, tx = Some t -> is_create (pt_act t) = false) -> opt_creates tx = [].
Proof.
  intros [t|] H; [|reflexivity]. specialize (H t eq_refl). unfold opt_creates, tx_creates.
  destruct (pt_act t); try reflexivity; discriminate.
Qed.

Lemma cinv_frame : forall s s', s_recs s' = s_recs s -> s_vals s' = s_vals s -> cinv s -> cinv s'.
Proof. unfold cinv, get_val; intros s s' -> -> H; exact H. Qed.

Lemma cinv_add_record_nocreate : forall s d v tx f, (forall t, tx = Some t -> is_create (pt_act t) = false) ->
  cinv s -> cinv (add_record s d v tx f).
Proof.
  intros s d v tx f Htx (Hn & Hk & Hv). unfold cinv, add_record, get_val; sproj.
  pose proof (creates_rec_add (s_recs s) d v tx f) as HP. rewrite (opt_creates_nocreate _ Htx) in HP. cbn [app] in HP.
  split; [eapply Permutation_NoDup; [apply Permutation_sym; exact HP|exact Hn]|].
  split; [apply keyed_rec_add; auto; intros t c Ht Ha; specialize (Htx t Ht); rewrite Ha in Htx; discriminate|].
  intros m Hin. apply Hv. eapply Permutation_in; eauto.
Qed.

Ltac nocreate := apply cinv_add_record_nocreate; [first [ (let t := fresh in let Ht := fresh in intros t Ht; inv Ht; reflexivity) | (intros; discriminate) ] | ].

(* the pending handlers keep the invariant *)
Lemma handle_cinv : forall p s pt s', cinv s -> handle p s pt = Some s' -> cinv s'.
Proof.
  intros p s pt s' Hc H.
  unfold handle in H. destruct (negb (precheck p (pt_act pt))); [discriminate|].
  destruct pt as [id from act]; cbn [pt_act pt_from] in H.
  assert (Hsome : forall a, is_create a = false -> forall t, Some (mkPtx id from a) = Some t -> is_create (pt_act t) = false)
    by (intros a Ha t Ht; inv Ht; exact Ha).
  assert (Hnone : forall t : ptx, None = Some t -> is_create (pt_act t) = false) by (intros; discriminate).
  destruct act; try discriminate.
  { (* create: a new record (0, main) *)
    repeat (break_match; try discriminate). inv H. destruct Hc as (Hn & Hk & Hv).
    unfold cinv, add_record, sub_balance, get_val; sproj.
    assert (Hnot : ~ In (c_main c) (creates (s_recs s))).
    { intros Hin. apply (creates_in_rec_get _ _ Hk Hin). assumption. }
    pose proof (creates_rec_add (s_recs s) 0 (c_main c) (Some (mkPtx id from (ACreate c))) (Some (c_value c))) as HP.
    cbn [opt_creates tx_creates pt_act app] in HP.
    split; [|split].
    + eapply Permutation_NoDup; [apply Permutation_sym; exact HP|]. constructor; auto.
    + apply keyed_rec_add; auto. intros t c0 Ht Ha. inv Ht. cbn in Ha. inv Ha. auto.
    + intros m Hin. eapply Permutation_in in Hin; [|exact HP]. destruct Hin as [<-|Hin]; auto. apply Hv; auto. }
  all: unfold check_total_pending in H; repeat (break_match; try discriminate); inv H;
    repeat match goal with Hx : Some _ = Some _ |- _ => inv Hx end;
    repeat nocreate;
    first [exact Hc | eapply cinv_frame; [| |first [exact Hc | nocreate; exact Hc]]; reflexivity].
Qed.

Lemma mono_cinv : forall s s', mono s s' -> cinv s -> cinv s'.
Proof. intros s s' (R & _ & V) (Hn & Hk & Hv). unfold cinv. rewrite R. repeat split; auto. Qed.

Lemma apply_tx_cinv : forall p s t s', cinv s -> apply_tx p s t = Some s' -> cinv s'.
Proof.
  intros p s t s' Hc H. unfold apply_tx in H.
  assert (Fe : forall l s0, s_recs (apply_effects s0 l) = s_recs s0 /\ s_vals (apply_effects s0 l) = s_vals s0).
  { induction l as [|[a d] r IH]; intros s0; cbn [apply_effects]; auto. destruct (IH (add_balance s0 a d)) as [-> ->]. auto. }
  repeat (break_match; try discriminate); inv H;
    try match goal with Hh : handle _ ?s0 _ = Some _ |- _ => apply (handle_cinv _ s0) in Hh; [|eapply cinv_frame; [| |exact Hc]; reflexivity] end;
    (eapply cinv_frame; [| |first [eassumption|exact Hc]]);
    unfold settle_gas, bump_nonce, add_balance, sub_balance; sproj;
    rewrite ?(proj1 (Fe _ _)), ?(proj2 (Fe _ _)); sproj; reflexivity.
Qed.

Lemma apply_txs_cinv : forall p l s, cinv s -> cinv (apply_txs p s l).
Proof.
  induction l as [|t r IH]; intros s Hc; cbn [apply_txs]; auto.
  destruct (apply_tx p s t) eqn:E; auto. apply IH. eapply apply_tx_cinv; eauto.
Qed.

Lemma begin_block_cinv : forall p s, cinv s -> cinv (begin_block p s) /\ g_dupcreate (begin_block p s) = g_dupcreate s.
Proof.
  intros p s Hc. unfold begin_block. destruct (s_number (set_number s (s_number s + 1)) mod p_freq p =? 0).
  - split; [|reflexivity]. unfold cinv; sproj. cbn. repeat split; [constructor|constructor|contradiction].
  - split; [|reflexivity]. eapply cinv_frame; [| |exact Hc]; reflexivity.
Qed.

Lemma frame_g_dup_tx : forall p s t s', apply_tx p s t = Some s' -> g_dupcreate s' = g_dupcreate s.
Proof. intros p s t s' H. apply frame_apply_tx in H. unfold frame_tx in H. tauto. Qed.

Lemma apply_txs_g_dup : forall p l s, g_dupcreate (apply_txs p s l) = g_dupcreate s.
Proof.
  induction l as [|t r IH]; intros s; cbn [apply_txs]; auto.
  destruct (apply_tx p s t) eqn:E; auto. rewrite IH. eapply frame_g_dup_tx; eauto.
Qed.

Lemma NoDup_app_remove_l : forall (A : Type) (l l' : list A), NoDup (l ++ l') -> NoDup l'.
Proof. induction l as [|a l IH]; intros l' H; cbn in H; [exact H|]. inv H. auto. Qed.

(* ---- taking effect: every pending create finds its address free ---------------------------------- *)

Lemma te_step : forall p s t s' C, take_effect p s t = Ok s' ->
  NoDup (tx_creates t ++ C) -> (forall m, In m (tx_creates t ++ C) -> get_val s m = None) ->
  g_dupcreate s' = g_dupcreate s /\ (forall m, In m C -> get_val s' m = None).
Proof.
  intros p s t s' C H Hn Hv. destruct (is_create (pt_act t)) eqn:Ec.
  - destruct t as [id from act]; cbn [pt_act] in *. destruct act; try discriminate.
    unfold tx_creates in *; cbn [pt_act app] in *.
    assert (Hm : get_val s (c_main c) = None) by (apply Hv; left; reflexivity).
    unfold take_effect in H; cbn [pt_act] in H. rewrite Hm in H. inv H.
    split; [reflexivity|]. intros m Hin. unfold create_validator, get_val; sproj.
    inv Hn. rewrite vget_vset_other; [apply Hv; right; exact Hin|].
    cbn [new_validator v_addr]. intros ->. contradiction.
  - apply mono_take_effect in H; auto. destruct H as (_ & G & V). split; [exact G|].
    intros m Hin. apply V, Hv. apply in_or_app; right; exact Hin.
Qed.

Lemma te_fold : forall p ts s s' C, fold_res (take_effect p) ts s = Ok s' ->
  NoDup (flat_map tx_creates ts ++ C) -> (forall m, In m (flat_map tx_creates ts ++ C) -> get_val s m = None) ->
  g_dupcreate s' = g_dupcreate s /\ (forall m, In m C -> get_val s' m = None).
Proof.
  induction ts as [|t r IH]; intros s s' C H Hn Hv; cbn [fold_res flat_map] in *.
  - inv H. split; [reflexivity|]. intros m Hin. apply Hv. exact Hin.
  - destruct (take_effect p s t) as [s1|] eqn:E; cbn [rbind] in H; [|discriminate].
    rewrite <- app_assoc in Hn, Hv.
    destruct (te_step _ _ _ _ _ E Hn Hv) as [G1 V1].
    apply IH with (C := C) in H.
    + destruct H as [G2 V2]. split; [congruence|exact V2].
    + apply NoDup_app_remove_l in Hn. exact Hn.
    + exact V1.
Qed.

Lemma process_record_dup : forall p s st r s' st' C, process_record p (s, st) r = Ok (s', st') ->
  NoDup (rec_creates r ++ C) -> (forall m, In m (rec_creates r ++ C) -> get_val s m = None) ->
  g_dupcreate s' = g_dupcreate s /\ (forall m, In m C -> get_val s' m = None).
Proof.
  intros p s st r s' st' C H Hn Hv. unfold process_record in H.
  match type of H with rbind ?x _ = _ => destruct x as [s1|] eqn:E1 end; cbn [rbind] in H; [|discriminate].
  destruct (fold_res (take_effect p) (r_txs r) s1) as [s2|] eqn:E2; cbn [rbind] in H; [|discriminate]. inv H.
  assert (M : mono s s1).
  { destruct (sl_mem st (r_v r)); [inv E1; apply mono_refl|].
    destruct (get_val s (r_v r)) eqn:Eg; [|inv E1; apply mono_refl].
    apply get_val_stored in Eg. destruct Eg as [Hst _]. eapply mono_settle_rewards; eauto. }
  destruct M as (_ & G & V).
  apply te_fold with (C := C) in E2; auto.
  destruct E2 as [G2 V2]. split; [congruence|exact V2].
Qed.

Lemma process_records_dup : forall p l s st s' st', process_records p l (s, st) = Ok (s', st') ->
  NoDup (creates l) -> (forall m, In m (creates l) -> get_val s m = None) -> g_dupcreate s' = g_dupcreate s.
Proof.
  induction l as [|r t IH]; intros s st s' st' H Hn Hv; cbn [process_records] in H.
  - inv H. reflexivity.
  - destruct (process_record p (s, st) r) as [[s1 st1]|] eqn:E; cbn [rbind] in H; [|discriminate].
    rewrite creates_cons in Hn, Hv.
    destruct (process_record_dup _ _ _ _ _ _ _ E Hn Hv) as [G1 V1].
    apply IH in H; [congruence| |exact V1]. apply NoDup_app_remove_l in Hn. exact Hn.
Qed.

Lemma rec_take_perm : forall l d v x l', rec_take l d v = Some (x, l') -> Permutation l (x :: l').
Proof.
  induction l as [|r t IH]; intros d v x l' H; cbn [rec_take] in H; [discriminate|].
  destruct ((r_d r =? d) && (r_v r =? v)); [inv H; apply Permutation_refl|].
  destruct (rec_take t d v) as [[y t']|] eqn:E; [|discriminate]. inv H.
  apply IH in E. eapply Permutation_trans; [apply perm_skip; exact E|apply perm_swap].
Qed.

Lemma order_by_perm : forall o l, Permutation (order_by o l) l.
Proof.
  induction o as [|[d v] r IH]; intros l; cbn [order_by]; [apply Permutation_refl|].
  destruct (rec_take l d v) as [[x l']|] eqn:E; [|apply IH].
  apply rec_take_perm in E. eapply Permutation_trans; [apply perm_skip; apply IH|apply Permutation_sym; exact E].
Qed.

(* ---- blocks and chains -------------------------------------------------------------------------------- *)

Lemma end_staking_period_dup : forall p s s', cinv s -> end_staking_period p s = Ok s' ->
  g_dupcreate s' = g_dupcreate s /\ cinv s'.
Proof.
  intros p s s' Hc H. unfold end_staking_period in H.
  destruct (negb ((s_number s + 1) mod p_freq p =? 0)); [inv H; auto|].
  destruct (fold_res (slash_or_recover p) (val_keys (s_vals s)) s) as [s1|] eqn:E1; cbn [rbind] in H; [|discriminate].
  apply mono_fold_res in E1; [|apply mono_slash_or_recover].
  destruct (distribute_rewards p s1) as [[[s2 st]|]|] eqn:E2; cbn [rbind] in H; [| |discriminate].
  - apply mono_distribute_rewards in E2.
    pose proof (mono_withdraw_queue p s2) as M3. set (s3 := process_withdraw_queue p s2) in *.
    destruct (process_records p (ordered_records p (s_recs s3)) (s3, st)) as [[s4 st4]|] eqn:E4; cbn [rbind] in H; [|discriminate].
    inv H.
    pose proof (mono_trans _ _ _ (mono_trans _ _ _ E1 E2) M3) as M.
    pose proof (mono_cinv _ _ M Hc) as (Hn & Hk & Hv).
    assert (HP : Permutation (creates (ordered_records p (s_recs s3))) (creates (s_recs s3))).
    { unfold creates, ordered_records. apply Permutation_flat_map, order_by_perm. }
    apply process_records_dup in E4.
    + destruct M as (_ & G & _). split; [sproj; congruence|].
      unfold cinv; sproj. cbn. repeat split; [constructor|constructor|contradiction].
    + eapply Permutation_NoDup; [apply Permutation_sym; exact HP|exact Hn].
    + intros m Hin. apply Hv. eapply Permutation_in; eauto.
  - inv H. split; [destruct E1 as (_ & G & _); exact G|eapply mono_cinv; eauto].
Qed.

Lemma delete_invalid_vget : forall l s s1 l', delete_invalid s l = (s1, l') ->
  (forall m, vget l m = None -> vget l' m = None) /\ s_recs s1 = s_recs s /\ g_dupcreate s1 = g_dupcreate s.
Proof.
  induction l as [|v r IH]; intros s s1 l' H; cbn [delete_invalid] in H.
  - inv H. auto.
  - destruct (delete_invalid s r) as [sa r'] eqn:E. apply IH in E. destruct E as (E1 & E2 & E3).
    destruct (v_invalid v); inv H; (split; [|split; auto]); intros m Hm; cbn [vget] in *;
      destruct (v_addr v =? m); try discriminate; auto.
Qed.

Lemma finalize_block_dup : forall s, cinv s -> cinv (finalize_block s) /\ g_dupcreate (finalize_block s) = g_dupcreate s.
Proof.
  intros s (Hn & Hk & Hv). unfold finalize_block. destruct (delete_invalid s (s_vals s)) as [s1 l] eqn:E.
  apply delete_invalid_vget in E. destruct E as (E1 & E2 & E3).
  split; [|sproj; exact E3]. unfold cinv, get_val; sproj. rewrite E2. repeat split; auto.
  intros m Hin. apply E1. apply Hv. exact Hin.
Qed.

Theorem apply_block_dup : forall p s b s', cinv s -> apply_block p s b = Ok s' ->
  g_dupcreate s' = g_dupcreate s /\ cinv s'.
Proof.
  intros p s b s' Hc H. unfold apply_block, end_block in H.
  destruct (begin_block_cinv p s Hc) as [C1 G1].
  pose proof (apply_txs_cinv p (b_txs b) _ C1) as C2. pose proof (apply_txs_g_dup p (b_txs b) (begin_block p s)) as G2.
  set (s0 := apply_txs p (begin_block p s) (b_txs b)) in *.
  destruct (has_negative_record s0); [discriminate|].
  destruct (process_evidences p s0 (b_evs b) []) as [s1|] eqn:E1; cbn [rbind] in H; [|discriminate].
  apply mono_process_evidences in E1.
  destruct (rewards_to_pool p s1 (b_proposer b)) as [s2|] eqn:E2; cbn [rbind] in H; [|discriminate].
  apply mono_rewards_to_pool in E2.
  destruct (end_staking_period p s2) as [s3|] eqn:E3; cbn [rbind] in H; [|discriminate]. inv H.
  pose proof (mono_trans _ _ _ E1 E2) as M. pose proof (mono_cinv _ _ M C2) as C3.
  apply end_staking_period_dup in E3; auto. destruct E3 as [G3 C4].
  destruct (finalize_block_dup s3 C4) as [C5 G5].
  destruct M as (_ & GM & _). split; [congruence|exact C5].
Qed.

(* a pending create never meets an existing validator *)
Theorem run_chain_dup : forall p l s s', cinv s -> run_chain p s l = Ok s' ->
  g_dupcreate s' = g_dupcreate s /\ cinv s'.
Proof.
  induction l as [|b r IH]; intros s s' Hc H; cbn [run_chain] in H.
  - inv H. auto.
  - destruct (apply_block p s b) as [s1|] eqn:E; cbn [rbind] in H; [|discriminate].
    apply apply_block_dup in E; auto. destruct E as [G1 C1]. apply IH in H; auto. destruct H as [G2 C2].
    split; [congruence|exact C2].
Qed.
