(* C01 - executable model of the header verifier of consensus/ucon:
     verifyConsensusFieldMain, verifyVotes           (consensus.go:217-478)
     VerifySideChainHeader (the exported wrapper)    (consensus.go:588)
     RecoverSignerInfo                               (vote_bls.go:103)
     VrfVerifySortition, VrfVerifyPriority           (sortition.go:52,80)
     OverThreshold                                   (voter.go:747)
   No proofs in this file.

   Everything that is cryptography or floating point enters through the record
   [oracles]: VRF verification (ProofToHash), the seat count (choose with
   p = threshold/totalStake), computePriority, the quorum uint32(float64(T)*f)
   and the BLS aggregate check.  The theorems quantify over all oracles; the
   correspondence runner at the end of the file instantiates them with finite
   tables filled by the harness from direct library calls.

   Numbers are N.  Identifiers (keys, seeds, proofs, hashes, signatures) are N.
   Only the BLS path (EnableBls = true, which every protocol version sets - see
   Bridge.v) is modelled; with EnableBls = false the model answers Unmodelled. *)
From Coq Require Export List NArith ZArith Bool.
Export ListNotations.
Open Scope N_scope.

(* ---- data ---------------------------------------------------------------- *)

Definition key    := N.   (* secp256k1 main key = VRF key; its address *)
Definition blskey := N.
Definition payload := (N * N * N)%type.   (* header hash, round, round index *)

Record validator := mkVal {
  v_main   : option key;     (* None: MainPubKey does not decode (GetVrfPubKey fails) *)
  v_bls    : option blskey;  (* None: BlsPubKey does not decode (GetBlsPubKey fails) *)
  v_role   : N;              (* 1 chancellor, 2 senator, 3 house *)
  v_status : N;              (* 1 online, 0 offline *)
  v_stake  : N
}.

(* a look-back validator set: the list in the order of state.Validators, and
   the stored statistic GetStakeByKind(KindChamber) *)
Record lookback := mkLB { lb_vals : list validator; lb_total : N }.

Record vote := mkVote { vt_idx : N; vt_votes : N; vt_proof : N }.   (* SingleVote *)

(* UconValidators as decoded from header.Validator / header.Certificate *)
Record uconvals := mkUV {
  uv_index  : N;                 (* RoundIndex *)
  uv_commit : list vote;         (* ChamberCommitters *)
  uv_sc     : option N;          (* SCAggrSig: None = DecSignature fails *)
  uv_certs  : list vote;         (* ChamberCerts *)
  uv_cc     : option N           (* CCAggrSig *)
}.

(* BlockConsensusData *)
Record consdata := mkCD {
  cd_round : N; cd_index : N; cd_seed : N;
  cd_proof : N; cd_prio : N; cd_sub : N;
  cd_signer : option key;        (* GetPublicKey(): None = recovery error *)
  cd_pt : N; cd_vt : N; cd_cvt : N
}.

Record header := mkH {
  h_number  : N;
  h_hash    : N;                 (* Hash() *)
  h_parent  : N;                 (* ParentHash *)
  h_version : N;                 (* CurrVersion *)
  h_cons    : option consdata;   (* None = Consensus does not decode *)
  h_val     : option uconvals;   (* header.Validator *)
  h_cert    : option uconvals;   (* header.Certificate *)
  h_sig     : N                  (* header.Signature (identifier of the byte string) *)
}.

(* CaravelParams fields the verifier reads *)
Record cparams := mkCP { cp_pt : N; cp_vt : N; cp_cvt : N; cp_bls : bool }.

Record oracles := mkO {
  o_vrf    : key -> N -> N -> N -> N -> option N;   (* pk seed role index proof -> ProofToHash *)
  o_seats  : N -> N -> N -> N -> option Z;          (* hash stake threshold total -> choose; None = choose panics
                                                       (gonum's binomial CDF when threshold > total) *)
  o_prio   : N -> Z -> N;                           (* computePriority hash j *)
  o_quorum : N -> bool -> N;                        (* uint32(float64(T) * (isPos ? 0.685 : 0.585)) *)
  o_vrf_crash : N -> bool;                          (* proof -> ProofToHash panics on it (a scalar that is 0 or >= the
                                                       group order: nil dereference in the curve code) *)
  o_recover : N -> N -> option key;                 (* crypto.SigToPub(header hash, header.Signature): None = error *)
  o_bls    : list blskey -> payload -> N -> option bool   (* VerifyAggregatedOne pubs payload sig = nil;
                                                       None = the pairing code panics (signature or summed
                                                       key is the point at infinity) *)
}.

(* Variants of the code.  [fixed] is /repo as it stands now: after the repairs
   360182b (thresholds of the protocol), ba51383 (membership test), ea6644d
   (proposer needs a seat), f562ba5 (BLS neutral element) and 3eba51b
   (VerifySideChainHeader checks the header signature).  [asis] is the verifier
   BEFORE those repairs; it is kept only to state what was wrong
   (C01_refuted_*, C01_holds_outside) and is no longer compared with any code. *)
Record variant := mkVar { thr_from_params : bool; check_member : bool; need_seat : bool; bls_guard : bool;
                          check_seal : bool }.
Definition asis  := mkVar false false false false false.
Definition fixed := mkVar true true true true true.

Inductive verdict :=
| Accept
| ELookBackCons      (* "can not get look back consensus" *)
| EInvalidCD         (* errInvalidConsensusData *)
| EIllegalProposer   (* "illegal proposer" *)
| EAggSig            (* "invalid aggregated signatue" *)
| ERecover           (* "verifyBlsVotes can't recover signer info" *)
| EBlsMismatch       (* bls.ErrSigMismatch *)
| EVersion           (* "YOUChain version of ... not exists" *)
| ENoParents | EUnknownAncestor
| EConsFormat        (* errInvalidConsensusDataFormat (verifySignature) *)
| EInvalidSealer     (* errInvalidSealer (verifySignature) *)
| EPanic             (* the verifier panics (the node stops) *)
| Unmodelled.

Definition step_proposal    : N := 1.   (* UConStepProposal *)
Definition step_precommit   : N := 3.   (* Precommit *)
Definition step_certificate : N := 5.   (* Certificate *)
Definition cht_frequency    : N := 32768.   (* params.ACoCHTFrequency *)

Definition two32 : N := 4294967296.
Definition u32_of_Z (j : Z) : N := Z.to_N (j mod 4294967296)%Z.   (* uint32(j) *)

(* params.KindOfRole / Validator.Kind(): 1 chamber, 2 house, 0 otherwise *)
Definition kind_of_role (r : N) : N :=
  if (r =? 1) || (r =? 2) then 1 else if r =? 3 then 2 else 0.
Definition is_member (v : validator) : bool :=
  (kind_of_role (v_role v) =? 1) && (v_status v =? 1).

Fixpoint mem (k : N) (l : list N) : bool :=
  match l with [] => false | x :: r => (x =? k) || mem k r end.

(* GetValidatorByMainAddr *)
Fixpoint find_by_main (l : list validator) (k : key) : option validator :=
  match l with
  | [] => None
  | v :: r => match v_main v with
              | Some k' => if k' =? k then Some v else find_by_main r k
              | None => find_by_main r k
              end
  end.

(* ---- sortition.go --------------------------------------------------------- *)

(* VrfVerifySortition: Some true = (true, nil); Some false = an error; None = panic *)
Definition verify_sortition (O : oracles) (pk : key) (seed index role proof subUsers threshold stake total : N) : option bool :=
  if total =? 0 then Some false else
  if o_vrf_crash O proof then None else
  match o_vrf O pk seed role index proof with
  | None => Some false
  | Some h =>
    match o_seats O h stake threshold total with
    | None => None
    | Some j =>
      if (j <=? 0)%Z then Some false
      else if negb (u32_of_Z j =? subUsers) then Some false
      else Some true
    end
  end.

(* VrfVerifyPriority: Some (isValid && err == nil); None = panic *)
Definition verify_priority (O : oracles) (pk : key) (seed index proof prio subUsers threshold stake total : N) : option bool :=
  if total =? 0 then Some false else
  if o_vrf_crash O proof then None else
  match o_vrf O pk seed step_proposal index proof with
  | None => Some false
  | Some h =>
    match o_seats O h stake threshold total with
    | None => None
    | Some j =>
      if negb (u32_of_Z j =? subUsers) then Some false
      else Some (o_prio O h j =? prio)
    end
  end.

(* ---- verifyVotes ---------------------------------------------------------- *)

(* commonData *)
Record common := mkCommon {
  c_cp : cparams; c_lb : lookback; c_hash : N; c_seed : N; c_round : N; c_index : N; c_thr : N
}.

(* loop state: staData (addresses already counted), count (uint32), blspubs *)
Record vstate := mkVS { st_sta : list key; st_count : N; st_pubs : list blskey }.

(* RecoverSignerInfo *)
Definition recover_signer (lb : lookback) (v : vote) : option (validator * blskey * key) :=
  match nth_error (lb_vals lb) (N.to_nat (vt_idx v)) with
  | None => None
  | Some val =>
    match v_bls val with
    | None => None
    | Some bk => match v_main val with
                 | None => None
                 | Some mk => Some (val, bk, mk)
                 end
    end
  end.

(* one iteration of the vote loop: the next state, or the verdict the function
   stops with (ERecover: the recover error is returned; EPanic) *)
Definition vote_step (O : oracles) (V : variant) (c : common) (step : N) (st : vstate) (v : vote) : vstate + verdict :=
  match recover_signer (c_lb c) v with
  | None => inr ERecover
  | Some (val, bk, mk) =>
    if check_member V && negb (is_member val) then inl st
    else if mem mk (st_sta st) then inl st
    else
      let st1 := mkVS (st_sta st) (st_count st) (st_pubs st ++ [bk]) in
      match verify_sortition O mk (c_seed c) (c_index c) step (vt_proof v) (vt_votes v)
                             (c_thr c) (v_stake val) (lb_total (c_lb c)) with
      | None => inr EPanic
      | Some true => inl (mkVS (mk :: st_sta st1) ((st_count st1 + vt_votes v) mod two32) (st_pubs st1))
      | Some false => inl st1
      end
  end.

Fixpoint vote_loop (O : oracles) (V : variant) (c : common) (step : N) (st : vstate) (l : list vote) : vstate + verdict :=
  match l with
  | [] => inl st
  | v :: r => match vote_step O V c step st v with
              | inr e => inr e
              | inl st' => vote_loop O V c step st' r
              end
  end.

Definition vs0 := mkVS [] 0 [].

Definition verify_votes (O : oracles) (V : variant) (c : common) (votes : list vote) (asig : option N)
           (step : N) (isPos : bool) : verdict :=
  if negb (cp_bls (c_cp c)) then Unmodelled else
  match asig with
  | None => EAggSig
  | Some sig =>
    match vote_loop O V c step vs0 votes with
    | inr e => e
    | inl st =>
      if negb (o_quorum O (c_thr c) isPos <=? st_count st) then EInvalidCD
      else match o_bls O (st_pubs st) (c_hash c, c_round c, c_index c) sig with
           | Some true => Accept
           | Some false => EBlsMismatch
           | None => if bls_guard V then EBlsMismatch else EPanic
           end
    end
  end.

(* the votes that were counted by the loop (used to state the theorems and the
   finding class; not part of the verifier) *)
Fixpoint counted_from (O : oracles) (V : variant) (c : common) (step : N) (sta : list key) (l : list vote) : list (vote * validator) :=
  match l with
  | [] => []
  | v :: r =>
    match recover_signer (c_lb c) v with
    | None => []
    | Some (val, bk, mk) =>
      if check_member V && negb (is_member val) then counted_from O V c step sta r
      else if mem mk sta then counted_from O V c step sta r
      else match verify_sortition O mk (c_seed c) (c_index c) step (vt_proof v) (vt_votes v)
                                  (c_thr c) (v_stake val) (lb_total (c_lb c)) with
           | Some true => (v, val) :: counted_from O V c step (mk :: sta) r
           | Some false => counted_from O V c step sta r
           | None => []
           end
    end
  end.

(* ---- verifyConsensusFieldMain --------------------------------------------- *)

Fixpoint lookup_ver (t : list (N * cparams)) (v : N) : option cparams :=
  match t with
  | [] => None
  | (k, p) :: r => if k =? v then Some p else lookup_ver r v
  end.

Definition is_cert_round (n : N) : bool := (0 <? n) && (n mod cht_frequency =? 0).

Definition verify_main (O : oracles) (V : variant) (cp : cparams) (vers : list (N * cparams))
           (seedH : header) (lb : lookback) (certH : header) (certlb : lookback) (h : header) : verdict :=
  match h_cons seedH with
  | None => ELookBackCons
  | Some seedCon =>
  match h_cons h with
  | None => EInvalidCD
  | Some cd =>
  if need_seat V && (cd_sub cd =? 0) then EInvalidCD else
  match cd_signer cd with
  | None => EInvalidCD
  | Some pk =>
  match find_by_main (lb_vals lb) pk with
  | None => EIllegalProposer
  | Some val =>
    if check_member V && negb (is_member val) then EIllegalProposer else
    let pt := if thr_from_params V then cp_pt cp else cd_pt cd in
    match verify_priority O pk (cd_seed seedCon) (cd_index cd) (cd_proof cd) (cd_prio cd) (cd_sub cd)
                          pt (v_stake val) (lb_total lb) with
    | None => EPanic
    | Some false => EInvalidCD
    | Some true =>
    match h_val h with
    | None => EInvalidCD
    | Some uv =>
      let vt := if thr_from_params V then cp_vt cp else cd_vt cd in
      let c := mkCommon cp lb (h_hash h) (cd_seed seedCon) (cd_round cd) (uv_index uv) vt in
      match verify_votes O V c (uv_commit uv) (uv_sc uv) step_precommit true with
      | Accept =>
        if is_cert_round (h_number h) then
          match h_cons certH with
          | None => ELookBackCons
          | Some certCon =>
            match lookup_ver vers (h_version certH) with
            | None => EVersion
            | Some ycp =>
              let cvt := if thr_from_params V then cp_cvt ycp else cd_cvt certCon in
              let c2 := mkCommon ycp certlb (h_hash h) (cd_seed certCon) (cd_round cd) (uv_index uv) cvt in
              match h_cert h with
              | None => EInvalidCD
              | Some uc => verify_votes O V c2 (uv_certs uc) (uv_cc uc) step_certificate false
              end
            end
          end
        else Accept
      | e => e
      end
    end
    end
  end end end end.

(* verifySignature: the consensus data decodes, its signer is recoverable, and
   the header signature recovers (over the header hash) to the same address *)
Definition verify_signature (O : oracles) (h : header) : verdict :=
  match h_cons h with
  | None => EConsFormat
  | Some cd =>
    match cd_signer cd with
    | None => EInvalidCD
    | Some pk =>
      match o_recover O (h_hash h) (h_sig h) with
      | Some k => if k =? pk then Accept else EInvalidSealer
      | None => EInvalidSealer
      end
    end
  end.

(* VerifySideChainHeader: parents non-empty; header.Number - parent.Number = 1;
   header.ParentHash = parent.Hash(); verifySignature; verifyConsensusFieldMain *)
Definition verify_side (O : oracles) (V : variant) (cp : cparams) (vers : list (N * cparams))
           (seedH : header) (lb : lookback) (certH : header) (certlb : lookback)
           (h : header) (parent : option header) : verdict :=
  match parent with
  | None => ENoParents
  | Some p =>
    if negb ((h_number h =? h_number p + 1) && (h_parent h =? h_hash p)) then EUnknownAncestor
    else if check_seal V then
      match verify_signature O h with
      | Accept => verify_main O V cp vers seedH lb certH certlb h
      | e => e
      end
    else verify_main O V cp vers seedH lb certH certlb h
  end.

(* ---- the listed finding classes (decidable description, see fixes/C01_*.md) --- *)

(* exact quorum fractions of the protocol (0.685 / 0.585), used by Bridge.v to
   pin down what the tabulated float computation yields for real thresholds *)
Definition quorum_frac (T : N) (isPos : bool) : N := (T * (if isPos then 685 else 585)) / 1000.

Definition non_member_counted (O : oracles) (c : common) (step : N) (votes : list vote) : bool :=
  existsb (fun x => negb (is_member (snd x))) (counted_from O asis c step [] votes).

(* true iff the input falls into one of the four listed weaknesses of the
   unrepaired verifier: (a) a threshold written into the header (or into the
   certificate look-back header) differs from the protocol's, (b) the proposer
   or a counted voter is not an online chamber member, (c) the proposer claims
   zero seats, (d) the header signature does not recover to the signer of the
   consensus data (side-chain path, found by C11) *)
Definition finding_class (O : oracles) (cp : cparams) (vers : list (N * cparams))
           (seedH : header) (lb : lookback) (certH : header) (certlb : lookback) (h : header) : bool :=
  match h_cons seedH, h_cons h, h_val h with
  | Some seedCon, Some cd, Some uv =>
    negb (cd_pt cd =? cp_pt cp) || negb (cd_vt cd =? cp_vt cp)
    || (cd_sub cd =? 0)
    || negb (match cd_signer cd, o_recover O (h_hash h) (h_sig h) with Some a, Some b => b =? a | _, _ => false end)
    || match cd_signer cd with
       | Some pk => match find_by_main (lb_vals lb) pk with Some val => negb (is_member val) | None => false end
       | None => false end
    || non_member_counted O (mkCommon cp lb (h_hash h) (cd_seed seedCon) (cd_round cd) (uv_index uv) (cd_vt cd))
                          step_precommit (uv_commit uv)
    || (is_cert_round (h_number h) &&
        match h_cons certH, lookup_ver vers (h_version certH), h_cert h with
        | Some certCon, Some ycp, Some uc =>
          negb (cd_cvt certCon =? cp_cvt ycp)
          || non_member_counted O (mkCommon ycp certlb (h_hash h) (cd_seed certCon) (cd_round cd) (uv_index uv) (cd_cvt certCon))
                                step_certificate (uv_certs uc)
        | _, _, _ => false
        end)
  | _, _, _ => false
  end.

(* ---- correspondence runner ------------------------------------------------ *)

(* finite tables filled by the harness *)
Record tables := mkT {
  t_vrf    : list ((N * N * N * N * N) * N);      (* (pk, seed, role, index, proof) -> hash; absent = error *)
  t_seats  : list ((N * N * N * N) * option Z);   (* (hash, stake, threshold, total) -> j; None = panic *)
  t_prio   : list ((N * Z) * N);                  (* (hash, j) -> priority *)
  t_quorum : list ((N * bool) * N);
  t_sigs   : list (N * list (blskey * payload));  (* sig id -> the signatures it aggregates *)
  t_recover : list ((N * N) * key);               (* (header hash, header signature) -> recovered key; absent = error *)
  t_crash  : list N                               (* proofs on which ProofToHash panics *)
}.

Definition eq5 (a b : N * N * N * N * N) : bool :=
  match a, b with (a1, a2, a3, a4, a5), (b1, b2, b3, b4, b5) =>
    (a1 =? b1) && (a2 =? b2) && (a3 =? b3) && (a4 =? b4) && (a5 =? b5) end.
Definition eq4 (a b : N * N * N * N) : bool :=
  match a, b with (a1, a2, a3, a4), (b1, b2, b3, b4) =>
    (a1 =? b1) && (a2 =? b2) && (a3 =? b3) && (a4 =? b4) end.
Definition eq3 (a b : payload) : bool :=
  match a, b with (a1, a2, a3), (b1, b2, b3) => (a1 =? b1) && (a2 =? b2) && (a3 =? b3) end.

Fixpoint assoc {K V : Type} (eqb : K -> K -> bool) (l : list (K * V)) (k : K) : option V :=
  match l with
  | [] => None
  | (k', v) :: r => if eqb k' k then Some v else assoc eqb r k
  end.

(* a missing table entry is made visible: seats 2^40 (never equal to a uint32), priority / quorum 2^40 *)
Definition missing_seats : option Z := Some 1099511627776%Z.
Definition missing_n : N := 1099511627776.

(* ideal aggregate signature: accepted iff it aggregates exactly one signature
   over the payload per listed key (as multisets) *)
Fixpoint remove_one (x : blskey * payload) (l : list (blskey * payload)) : option (list (blskey * payload)) :=
  match l with
  | [] => None
  | y :: r => if (fst y =? fst x) && eq3 (snd y) (snd x) then Some r
              else match remove_one x r with Some r' => Some (y :: r') | None => None end
  end.
Fixpoint multiset_eq (a b : list (blskey * payload)) : bool :=
  match a with
  | [] => match b with [] => true | _ => false end
  | x :: r => match remove_one x b with Some b' => multiset_eq r b' | None => false end
  end.

Definition table_oracles (t : tables) : oracles :=
  mkO (fun pk seed role index proof => assoc eq5 (t_vrf t) (pk, seed, role, index, proof))
      (fun h stake thr total => match assoc eq4 (t_seats t) (h, stake, thr, total) with Some j => j | None => missing_seats end)
      (fun h j => match assoc (fun a b => (fst a =? fst b) && (snd a =? snd b)%Z) (t_prio t) (h, j) with Some p => p | None => missing_n end)
      (fun thr pos => match assoc (fun a b => (fst a =? fst b) && Bool.eqb (snd a) (snd b)) (t_quorum t) (thr, pos) with Some q => q | None => missing_n end)
      (fun proof => mem proof (t_crash t))
      (fun hh sg => assoc (fun a b => (fst a =? fst b) && (snd a =? snd b)) (t_recover t) (hh, sg))
      (fun pubs pl sig => match assoc N.eqb (t_sigs t) sig with
                          | Some comp =>
                            match pubs, comp with
                            | [], _ | _, [] => None     (* neutral element on either side: the pairing code panics *)
                            | _, _ => Some (multiset_eq (map (fun k => (k, pl)) pubs) comp)
                            end
                          | None => Some false end).

Definition verdict_code (v : verdict) : N :=
  match v with
  | Accept => 0 | ELookBackCons => 1 | EInvalidCD => 2 | EIllegalProposer => 3 | EAggSig => 4
  | ERecover => 5 | EBlsMismatch => 6 | EVersion => 7 | ENoParents => 8 | EUnknownAncestor => 10 | EPanic => 11
  | EConsFormat => 13 | EInvalidSealer => 14
  | Unmodelled => 99
  end.

Record case := mkCase {
  k_variant : variant;
  k_tables : tables;
  k_cp : cparams;
  k_vers : list (N * cparams);
  k_seedH : header; k_lb : lookback;
  k_certH : header; k_certlb : lookback;
  k_hdr : header; k_parent : option header;
  k_observed : N                  (* verdict code of the implementation *)
}.

Definition run_case (c : case) : verdict :=
  verify_side (table_oracles (k_tables c)) (k_variant c) (k_cp c) (k_vers c)
              (k_seedH c) (k_lb c) (k_certH c) (k_certlb c) (k_hdr c) (k_parent c).

Definition case_ok (c : case) : bool := verdict_code (run_case c) =? k_observed c.

Fixpoint mismatches_from (i : N) (l : list case) : list N :=
  match l with
  | [] => []
  | c :: r => if case_ok c then mismatches_from (i + 1) r else i :: mismatches_from (i + 1) r
  end.
Definition mismatches := mismatches_from 0.
