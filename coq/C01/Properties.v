(* C01 - property theorems only.  Each is closed by [exact] of a lemma of
   Proofs*.v / Bridge.v and followed by Print Assumptions.

   Reading guide.  [oracles] stands for cryptography and floating point: VRF
   verification, the seat count choose(hash, stake, T/total), computePriority,
   the float quorum uint32(float64(T)*f), the BLS aggregate check.  Every
   theorem quantifies over ALL oracles subject to two hypotheses:
     bls_sound    : the aggregate check accepting a key list for a payload
                    implies every listed key signed exactly that payload
                    (ideal multi-signature);
     seats_nonneg : choose never returns a negative number (C04);
     ecdsa_sound  : a header signature that recovers to key k over hash hh
                    was made by k over hh ([sealed k hh]).
   [variant]: [fixed] is /repo as it stands (after the repairs 360182b,
   ba51383, ea6644d, f562ba5 and 3eba51b) and is what the correspondence
   harness compares the implementation with; [asis] is the verifier before
   those repairs, kept only to state what was wrong.

   [seal_ok O sealed h]: the consensus data of h decodes, its signer pk is
   recoverable, and the header signature recovers over h's hash to that same
   pk - the key the proposer credential is checked against in
   [C01_statement] - hence pk sealed this header.  This is exactly what
   verifySignature guarantees; it does not by itself say that pk is a
   validator (that is [proposer_ok] inside [C01_statement]).

   [C01_statement O signed cp vers seedH lb certH certlb h] is C01 for one
   header h: the proposer is an online chamber member of the look-back set lb
   whose credential verifies for (seed of the seed look-back header, proposal
   step, its round index) with a positive recomputed seat count under the
   PROTOCOL's proposer threshold [cp_pt cp] equal to the claimed one, and its
   priority is the one of that hash and seat count; there is a list L of
   DISTINCT validators of lb, all online chamber members, taken from the
   header's vote list, each with a sortition proof valid under its own key
   for (seed, precommit step, container index), a positive seat count
   recomputed from the proof's hash, its stake, the PROTOCOL's validator
   threshold [cp_vt cp] and the committee statistic, equal to the claimed
   weight, whose BLS key signed exactly (header hash, round, index), and whose
   total weight is at least the quorum of the protocol's threshold; in
   certificate rounds the same for the certificate votes with the
   certificate look-back set, seed, step and the threshold of the version
   recorded on the certificate look-back header. *)
From VF.C01 Require Import Model ModelH Proofs ProofsB ProofsC ProofsD Bridge.
From VF.gen Require Import C01Tables.
Local Open Scope N_scope.

(* ---- the property for the verifier as it stands, full strength: acceptance by
        VerifySideChainHeader implies C01_statement and seal_ok -------------------------- *)
Theorem C01_repaired_quorum : C01_full_for fixed.
Proof. exact repaired_full. Qed.
Print Assumptions C01_repaired_quorum.

(* ---- the unrepaired verifier: full statement refuted, three independent witnesses -- *)
(* (a) thresholds are read from the header under verification *)
Theorem C01_refuted_header_threshold : ~ C01_full.
Proof. exact refuted_by_header_threshold. Qed.
Print Assumptions C01_refuted_header_threshold.
(* (b) a house (or offline) validator's vote is counted *)
Theorem C01_refuted_non_member_voter : ~ C01_full.
Proof. exact refuted_by_non_member_voter. Qed.
Print Assumptions C01_refuted_non_member_voter.
(* (c) a proposer whose credential won no seat is accepted *)
Theorem C01_refuted_zero_seat_proposer : ~ C01_full.
Proof. exact refuted_by_zero_seat_proposer. Qed.
Print Assumptions C01_refuted_zero_seat_proposer.
(* (d) the side-chain entry point did not check the header signature (found by C11) *)
Theorem C01_refuted_unsealed_header : ~ C01_full.
Proof. exact refuted_by_unsealed_header. Qed.
Print Assumptions C01_refuted_unsealed_header.

(* ---- the unrepaired verifier satisfies C01 on every input outside the four listed
        classes ([finding_class] is the decidable description in Model.v) ------------- *)
Theorem C01_holds_outside :
  forall (O : oracles) (signed : blskey -> payload -> Prop) (sealed : key -> N -> Prop),
    (forall pubs pl s, o_bls O pubs pl s = Some true -> forall k, In k pubs -> signed k pl) ->
    (forall h st t tot j, o_seats O h st t tot = Some j -> (0 <= j)%Z) ->
    (forall hh s k, o_recover O hh s = Some k -> sealed k hh) ->
    forall cp vers seedH lb certH certlb h parent,
      verify_side O asis cp vers seedH lb certH certlb h parent = Accept ->
      finding_class O cp vers seedH lb certH certlb h = false ->
      C01_statement O signed cp vers seedH lb certH certlb h /\ seal_ok O sealed h.
Proof. exact asis_outside. Qed.
Print Assumptions C01_holds_outside.

(* ---- one vote list, any variant, any thresholds: acceptance yields a quorum
        certificate made of exactly the votes the loop counted ------------------------ *)
Theorem C01_votes_quorum :
  forall (O : oracles) (signed : blskey -> payload -> Prop),
    (forall pubs pl s, o_bls O pubs pl s = Some true -> forall k, In k pubs -> signed k pl) ->
    forall V c votes asig step isPos,
      verify_votes O V c votes asig step isPos = Accept ->
      let L := counted_from O V c step [] votes in
      quorum_cert O signed (c_lb c) (c_seed c) (c_index c) step (c_thr c) isPos
                  (c_hash c, c_round c, c_index c) votes L
      /\ (check_member V = true -> all_members L).
Proof. exact votes_accept. Qed.
Print Assumptions C01_votes_quorum.

(* ---- junk contributes nothing ---------------------------------------------------------- *)
(* duplicated, non-member / offline (repaired code), replayed or foreign or
   truncated proof (VRF does not verify for this key and (seed, step, index)),
   zero recomputed seats, claimed weight different from the recomputed one:
   the step leaves the counted set and the count unchanged *)
Theorem C01_nothing_from_junk :
  forall O V c step st v, junk O V c step st v -> contributes_nothing O V c step st v.
Proof. exact junk_contributes_nothing. Qed.
Print Assumptions C01_nothing_from_junk.

(* ... and removing such a vote from anywhere in the list changes neither the
   counted validators nor the count nor an error stop *)
Theorem C01_junk_removable :
  forall O V c step l1 v l2 st0 st,
    vote_loop O V c step st0 l1 = inl st -> junk O V c step st v ->
    core_eq (vote_loop O V c step st0 (l1 ++ v :: l2)) (vote_loop O V c step st0 (l1 ++ l2)).
Proof. exact junk_removable. Qed.
Print Assumptions C01_junk_removable.

(* a voter index outside the look-back set (or a member with undecodable keys)
   makes the verifier reject the header *)
Theorem C01_bad_index_rejects :
  forall O V c step st v, recover_signer (c_lb c) v = None -> vote_step O V c step st v = inr ERecover.
Proof. exact bad_index_rejects. Qed.
Print Assumptions C01_bad_index_rejects.

(* wrong-block / wrong-round / wrong-index signatures: acceptance means every
   key the loop put on the aggregate's key list signed exactly this payload *)
Theorem C01_listed_keys_signed :
  forall (O : oracles) (signed : blskey -> payload -> Prop),
    (forall pubs pl s, o_bls O pubs pl s = Some true -> forall k, In k pubs -> signed k pl) ->
    forall V c votes sig step isPos,
      verify_votes O V c votes (Some sig) step isPos = Accept ->
      exists st, vote_loop O V c step vs0 votes = inl st /\
                 forall bk, In bk (st_pubs st) -> signed bk (c_hash c, c_round c, c_index c).
Proof. exact listed_keys_signed. Qed.
Print Assumptions C01_listed_keys_signed.


(* ---- composition with C04 (uniqueness of the VRF output) ------------------------------------- *)
(* hypothesis: for one key and one (seed, step, index) all accepted proofs yield the same VRF
   output - C04_vrf_output_unique, proved in coq/C04 for strict decoding under DLEQ soundness.
   Then a validator has ONE weight: any proof / claimed weight that passes the sortition check
   for the validator of a counted vote claims exactly the counted weight.  Grinding encodings or
   nonces cannot inflate a vote. *)
Theorem C01_weight_is_the_unique_sortition_weight :
  forall (O : oracles),
    (forall pk seed role index p p' h h',
        o_vrf O pk seed role index p = Some h -> o_vrf O pk seed role index p' = Some h' -> h = h') ->
    forall V c step votes x bk mk,
      In x (counted_from O V c step [] votes) ->
      recover_signer (c_lb c) (fst x) = Some (snd x, bk, mk) ->
      forall p' sub',
        verify_sortition O mk (c_seed c) (c_index c) step p' sub' (c_thr c) (v_stake (snd x)) (lb_total (c_lb c)) = Some true ->
        sub' = vt_votes (fst x).
Proof. exact counted_weight_unique. Qed.
Print Assumptions C01_weight_is_the_unique_sortition_weight.

(* ---- malformed credentials: crash or reject, never accept ------------------------------------- *)
(* [o_vrf_crash O proof = true]: ProofToHash panics on this proof (a scalar that is 0 or >= the
   group order).  The outcome type of the model has three kinds of values: Accept, the rejects,
   and EPanic (the verifier crashes).  A header whose proposer credential is such a proof is never
   accepted, by any variant; when all earlier checks pass the outcome is the crash. *)
Theorem C01_malformed_credential_not_accepted :
  forall O V cp vers seedH lb certH certlb h cd,
    h_cons h = Some cd -> o_vrf_crash O (cd_proof cd) = true ->
    verify_main O V cp vers seedH lb certH certlb h <> Accept.
Proof. exact malformed_credential_not_accepted. Qed.
Print Assumptions C01_malformed_credential_not_accepted.

Theorem C01_malformed_credential_crashes :
  forall O V cp vers seedH lb certH certlb h cd seedCon pk val,
    h_cons seedH = Some seedCon -> h_cons h = Some cd -> need_seat V && (cd_sub cd =? 0) = false ->
    cd_signer cd = Some pk -> find_by_main (lb_vals lb) pk = Some val ->
    check_member V && negb (is_member val) = false -> lb_total lb <> 0 ->
    o_vrf_crash O (cd_proof cd) = true ->
    verify_main O V cp vers seedH lb certH certlb h = EPanic.
Proof. exact malformed_credential_crashes. Qed.
Print Assumptions C01_malformed_credential_crashes.

(* a listed vote with such a proof that the loop reaches stops the verifier with the crash: the
   vote list is not accepted; and no counted vote has such a proof *)
Theorem C01_crashing_vote_not_accepted :
  forall O V c step l1 v l2 st sig isPos,
    cp_bls (c_cp c) = true ->
    vote_loop O V c step vs0 l1 = inl st -> vote_step O V c step st v = inr EPanic ->
    verify_votes O V c (l1 ++ v :: l2) (Some sig) step isPos = EPanic.
Proof. exact crashing_vote_not_accepted. Qed.
Print Assumptions C01_crashing_vote_not_accepted.

Theorem C01_crashing_vote_step :
  forall O V c step st v val bk mk,
    recover_signer (c_lb c) v = Some (val, bk, mk) ->
    check_member V && negb (is_member val) = false -> mem mk (st_sta st) = false ->
    lb_total (c_lb c) <> 0 -> o_vrf_crash O (vt_proof v) = true ->
    vote_step O V c step st v = inr EPanic.
Proof. exact crashing_vote_step. Qed.
Print Assumptions C01_crashing_vote_step.

Theorem C01_counted_votes_do_not_crash :
  forall O V c step votes x,
    In x (counted_from O V c step [] votes) -> o_vrf_crash O (vt_proof (fst x)) = false.
Proof. exact counted_votes_do_not_crash. Qed.
Print Assumptions C01_counted_votes_do_not_crash.

(* ---- the ordinary path: VerifyHeader / verifyHeader(parents) -------------------------------- *)
(* [selection yts c parents h yp seedH lb certH certlb]: yp is the version recorded on the
   header VersionForRoundWithParents finds for h's round (canonical chain first, then the
   batch prefix); seedH / lb / certH / certlb are the seed header, the reader of the stake
   look-back header's validator root and the certificate look-backs getLookBackHeader finds
   (batch prefix when the look-back lies inside it, else canonical chain).
   Acceptance of a non-genesis header with the seal flag on implies C01_statement for exactly
   these objects, the header signature by the proposer key, and the frame checks (time not in
   the future, mix digest, parent link, strictly later than the parent, no other canonical
   header at that height). *)
Theorem C01_header_path :
  forall (O : oracles) (signed : blskey -> payload -> Prop),
    (forall pubs pl s, o_bls O pubs pl s = Some true -> forall k, In k pubs -> signed k pl) ->
    (forall h st t tot j, o_seats O h st t tot = Some j -> (0 <= j)%Z) ->
    forall (sealed : key -> N -> Prop),
    (forall hh s k, o_recover O hh s = Some k -> sealed k hh) ->
    forall now yts c parents xh,
      verify_header O fixed now yts c parents xh true = HV Accept -> 0 < h_number (x_h xh) ->
      exists yp seedH lb certH certlb,
        selection yts c parents (x_h xh) yp seedH lb certH certlb /\
        frame_ok now c parents yp xh /\
        C01_statement O signed (yp_cp yp) (cp_table yts) seedH lb certH certlb (x_h xh) /\
        seal_ok O sealed (x_h xh).
Proof. exact header_accept. Qed.
Print Assumptions C01_header_path.

(* ... and with a batch prefix of consecutive numbers ending right below the header (what
   VerifyHeaders passes for a contiguous batch; [] for VerifyHeader) the selected objects are
   the version recorded on header n-8 (protocolRoundBack), header n-SeedLookBack, the
   validator root of header n-StakeLookBack and, in certificate rounds, header n-F and the
   validator root of header n-2F, F = ACoCHTFrequency (each clamped at 0), with SeedLookBack
   and StakeLookBack those of that version *)
Theorem C01_selection_numbers :
  forall yts c parents h yp seedH lb certH certlb,
    parents_consecutive parents (h_number h) ->
    selection yts c parents h yp seedH lb certH certlb ->
    let n := h_number h in
    (exists vh, version_header c parents n = inl (Some vh) /\ h_number (x_h vh) = lb_number n protocol_round_back /\
                lookup_yp yts (h_version (x_h vh)) = Some yp) /\
    h_number seedH = lb_number n (yp_seed_lb yp) /\
    (exists stakeX, h_number (x_h stakeX) = lb_number n (yp_stake_lb yp) /\
                    lookup_reader (ch_readers c) (x_valroot stakeX) = Some lb) /\
    (is_cert_round n = true ->
     h_number certH = lb_number n cht_frequency /\
     exists cstakeX, h_number (x_h cstakeX) = lb_number n (2 * cht_frequency) /\
                     lookup_reader (ch_readers c) (x_valroot cstakeX) = Some certlb).
Proof. exact selection_numbers. Qed.
Print Assumptions C01_selection_numbers.

(* ---- the certificate-only path: VerifyAcHeader ------------------------------------------------ *)
(* acceptance implies a quorum certificate over the header's certificate votes for: the seed
   and version of header n-F and the validator set of header n-2F (canonical chain, else the
   first header of that number in the trusted list), threshold CertValThreshold of that
   version, round index of the Certificate container.  Nothing about the proposer or the
   header signature: this entry point checks neither. *)
Theorem C01_ac_votes_quorum :
  forall (O : oracles) (signed : blskey -> payload -> Prop),
    (forall pubs pl s, o_bls O pubs pl s = Some true -> forall k, In k pubs -> signed k pl) ->
    forall V yts c trusted xh,
      verify_ac O V yts c trusted xh = HV Accept ->
      let h := x_h xh in
      let n := h_number h in
      exists uc cd seedX stakeX yp seedCon lb,
        x_cht xh = true /\ n mod cht_frequency = 0 /\
        h_cert h = Some uc /\ h_cons h = Some cd /\
        (match by_number c (lb_number n cht_frequency) with Some x => Some x
         | None => find_trusted trusted (lb_number n cht_frequency) end) = Some seedX /\
        h_number (x_h seedX) = lb_number n cht_frequency /\
        (match by_number c (lb_number n (2 * cht_frequency)) with Some x => Some x
         | None => find_trusted trusted (lb_number n (2 * cht_frequency)) end) = Some stakeX /\
        h_number (x_h stakeX) = lb_number n (2 * cht_frequency) /\
        lookup_yp yts (h_version (x_h seedX)) = Some yp /\ h_cons (x_h seedX) = Some seedCon /\
        lookup_reader (ch_readers c) (x_valroot stakeX) = Some lb /\
        let cm := mkCommon (yp_cp yp) lb (h_hash h) (cd_seed seedCon) (cd_round cd) (uv_index uc) (cp_cvt (yp_cp yp)) in
        let L := counted_from O V cm step_certificate [] (uv_certs uc) in
        quorum_cert O signed lb (cd_seed seedCon) (uv_index uc) step_certificate (cp_cvt (yp_cp yp)) false
                    (h_hash h, cd_round cd, uv_index uc) (uv_certs uc) L /\
        (check_member V = true -> all_members L).
Proof. exact ac_accept. Qed.
Print Assumptions C01_ac_votes_quorum.

(* ---- process history -------------------------------------------------------------------------- *)
(* In the model verification is a function of (tables, chain, header): whatever cases a process
   verified before ([pre]) and verifies afterwards ([post]), the verdict on case k is the verdict on
   k alone.  The implementation is tied to this by the harness: every 9th case and every
   history-dependent case (same main key, other BLS key at a later look-back height) is verified by
   the long-lived Server and again by a fresh one; a different verdict is an oracle hit. *)
Theorem C01_verdict_independent_of_process_history :
  forall pre k post,
    nth_error (history_verdicts (pre ++ k :: post)) (length pre) = Some (tcase_verdict k).
Proof. exact verdict_independent_of_history. Qed.
Print Assumptions C01_verdict_independent_of_process_history.

(* ---- bridge: real protocol tables -------------------------------------------------------- *)
(* for every version of every net: BLS on, thresholds positive, and the quorum
   computed by the Go float code equals floor(T*685/1000) resp. floor(T*585/1000) > 0 *)
Theorem C01_quorum_table : forall e, In e all_versions -> version_ok e = true.
Proof. exact real_versions_meet_guard. Qed.
Print Assumptions C01_quorum_table.

(* the version look-back constant of the model is core.protocolRoundBack; every protocol
   version reads the validator set at a strictly older height than the seed *)
Theorem C01_lookback_table :
  go_protocol_round_back = protocol_round_back /\ forall e, In e go_lookbacks -> lookback_ok e = true.
Proof. exact real_lookbacks. Qed.
Print Assumptions C01_lookback_table.

(* the caches on the vote verification path (the harness' large look-back sets exceed the largest) *)
Theorem C01_cache_inventory :
  length go_cache_sizes = 3%nat /\ forallb (fun c => 0 <? c) go_cache_sizes = true /\ 0 < max_cache_size.
Proof. exact real_cache_sizes. Qed.
Print Assumptions C01_cache_inventory.

Theorem C01_constants :
  go_cht_frequency = cht_frequency /\ go_steps = (step_proposal, step_precommit, step_certificate).
Proof. exact real_constants. Qed.
Print Assumptions C01_constants.

(* ---- non-vacuity ---------------------------------------------------------------------------- *)
(* oracles meeting both hypotheses exist, and an honest header is accepted by
   both variants (outside the finding class for the unrepaired one) *)
Example C01_nonvacuous_accept :
  (forall pubs pl s, o_bls w_O pubs pl s = Some true -> forall k, In k pubs -> signed_t w_tables k pl) /\
  (forall h st t tot j, o_seats w_O h st t tot = Some j -> (0 <= j)%Z) /\
  (forall hh s k, o_recover w_O hh s = Some k -> sealed_t w_tables k hh) /\
  verify_side w_O fixed w_cp [] w_seedH w_lb w_seedH w_lb (w_hdr w_cd_ok w_uv_ok) (Some w_parent) = Accept /\
  verify_side w_O asis w_cp [] w_seedH w_lb w_seedH w_lb (w_hdr w_cd_ok w_uv_ok) (Some w_parent) = Accept /\
  finding_class w_O w_cp [] w_seedH w_lb w_seedH w_lb (w_hdr w_cd_ok w_uv_ok) = false.
Proof.
  split; [exact w_bls_sound|]. split; [exact w_seats_nonneg|]. split; [exact (table_ecdsa_sound w_tables)|].
  split; [exact w_accept_fixed|]. exact w_accept_asis.
Qed.
Print Assumptions C01_nonvacuous_accept.

(* the four forged headers are accepted by the unrepaired model and rejected by the repaired one *)
Example C01_nonvacuous_forgeries :
  (verify_side w_O asis w_cp [] w_seedH w_lb w_seedH w_lb (w_hdr w_cd_thr w_uv_thr) (Some w_parent) = Accept
   /\ verify_side w_O fixed w_cp [] w_seedH w_lb w_seedH w_lb (w_hdr w_cd_thr w_uv_thr) (Some w_parent) = EInvalidCD) /\
  (verify_side w_O asis w_cp [] w_seedH w_lb w_seedH w_lb (w_hdr w_cd_ok w_uv_house) (Some w_parent) = Accept
   /\ verify_side w_O fixed w_cp [] w_seedH w_lb w_seedH w_lb (w_hdr w_cd_ok w_uv_house) (Some w_parent) = EInvalidCD) /\
  (verify_side w_O asis w_cp [] w_seedH w_lb w_seedH w_lb (w_hdr w_cd_zero w_uv_ok) (Some w_parent) = Accept
   /\ verify_side w_O fixed w_cp [] w_seedH w_lb w_seedH w_lb (w_hdr w_cd_zero w_uv_ok) (Some w_parent) = EInvalidCD) /\
  (verify_side w_O asis w_cp [] w_seedH w_lb w_seedH w_lb w_hdr_unsealed (Some w_parent) = Accept
   /\ verify_side w_O fixed w_cp [] w_seedH w_lb w_seedH w_lb w_hdr_unsealed (Some w_parent) = EInvalidSealer).
Proof.
  split; [exact w_thr_accepted|]. split; [exact w_house_accepted|]. split; [exact w_zero_accepted|exact w_unsealed_accepted].
Qed.
Print Assumptions C01_nonvacuous_forgeries.

(* a junk vote exists: after validator 0 was counted, a second vote of validator 0 is a duplicate *)
Example C01_nonvacuous_junk :
  let c := mkCommon w_cp w_lb 0 7 100 1 10 in
  exists st, vote_loop w_O asis c step_precommit vs0 [mkVote 0 4 12] = inl st /\ st_count st = 4 /\
             junk w_O asis c step_precommit st (mkVote 0 4 12).
Proof.
  cbv zeta. eexists. split; [vm_compute; reflexivity|]. split; [reflexivity|].
  eapply junk_duplicate; vm_compute; reflexivity.
Qed.
Print Assumptions C01_nonvacuous_junk.

(* the real tables are not empty *)
Example C01_nonvacuous_tables : all_versions <> [].
Proof. exact real_versions_nonempty. Qed.
Print Assumptions C01_nonvacuous_tables.

(* the ordinary path accepts an honest header, directly and behind a (consecutive) batch
   prefix; the certificate-only path accepts an honest certificate header *)
Example C01_nonvacuous_header_path :
  (verify_header w_O fixed 2000 w_yts w_chain [] w_target true = HV Accept /\
   verify_header w_O fixed 2000 w_yts w_chain_batch [w_x99] w_target true = HV Accept /\
   parents_consecutive [w_x99] (h_number (x_h w_target))) /\
  verify_ac w_O fixed w_yts w_ac_chain [w_x32768] w_ac_target = HV Accept.
Proof. split; [exact w_header_accept|exact w_ac_accept]. Qed.
Print Assumptions C01_nonvacuous_header_path.

(* C01_header_path quantifies over the whole chain, in particular over the canonical header
   at the height of the header under verification ([frame_ok]: if there is one it has the
   same hash).  Such a header being present changes nothing: the consensus field is still
   verified. *)
Example C01_nonvacuous_same_hash_canonical :
  by_number w_chain_known 100 = Some w_x100_stored /\ h_hash (x_h w_x100_stored) = h_hash (x_h w_target) /\
  verify_header w_O fixed 2000 w_yts w_chain_known [] w_target true = HV Accept /\
  verify_header w_O fixed 2000 w_yts w_chain_known [] (mkXH (w_hdr w_cd_ok w_uv_house) 1000 true 0 false) true = HV EInvalidCD.
Proof. exact w_same_hash_canonical. Qed.
Print Assumptions C01_nonvacuous_same_hash_canonical.

(* malformed proofs exist in the table world: as proposer credential and as a listed precommit
   of an entitled voter they make the (current) verifier crash - never accept *)
Example C01_nonvacuous_malformed :
  verify_side w_O fixed w_cp [] w_seedH w_lb w_seedH w_lb (w_hdr w_cd_crash w_uv_ok) (Some w_parent) = EPanic /\
  verify_side w_O fixed w_cp [] w_seedH w_lb w_seedH w_lb (w_hdr w_cd_ok w_uv_crash) (Some w_parent) = EPanic /\
  o_vrf_crash w_O (cd_proof w_cd_crash) = true.
Proof. exact w_malformed_crash. Qed.
Print Assumptions C01_nonvacuous_malformed.
