(* C01 - executable model of the ordinary header path and of the certificate-only
   path of consensus/ucon, on top of Model.v:
     verifyHeader, verifyCascadingFields, verifyConsensusField,
     getLookBackHeader, getLookBackValReader          (consensus.go:69-215)
     GetLookBackBlockNumber                           (sortition_verifier.go:214)
     HeaderChain.VersionForRoundWithParents           (core/protocol_version_processor.go:286)
     VerifyAcHeader, findHeaderFromTrustedParents     (consensus.go:610-700)
   i.e. WHICH header's protocol version, WHICH seed header and WHICH validator
   set the verifier consults.  No proofs in this file.

   A chain is what a consensus.ChainReader answers: canonical headers by number,
   stored headers by (hash, number), validator readers by ValRoot.  [parents]
   is the batch prefix VerifyHeaders passes (ascending).  time.Now() is the
   parameter [now]. *)
From VF.C01 Require Export Model.
Local Open Scope N_scope.

(* the header fields the ordinary path reads beyond those of Model.header *)
Record xheader := mkXH {
  x_h : header;
  x_time : N;          (* Time *)
  x_mix : bool;        (* MixDigest = UConMixHash *)
  x_valroot : N;       (* ValRoot *)
  x_cht : bool         (* len(ChtRoot) > 0 *)
}.

(* YouParams fields read on this path *)
Record yparams := mkYP { yp_cp : cparams; yp_stake_lb : N; yp_seed_lb : N; yp_future : N }.

Record chain := mkChain {
  ch_canon   : list xheader;            (* canonical chain (sparse): GetHeaderByNumber = first with that number *)
  ch_side    : list xheader;            (* other stored headers, reachable by GetHeader(hash, number) only *)
  ch_readers : list (N * lookback)      (* GetVldReader: ValRoot -> validator set; absent = error *)
}.

Definition protocol_round_back : N := 8.     (* core.protocolRoundBack *)

Fixpoint find_x (f : xheader -> bool) (l : list xheader) : option xheader :=
  match l with [] => None | x :: r => if f x then Some x else find_x f r end.

Definition by_number (c : chain) (n : N) : option xheader :=
  find_x (fun x => h_number (x_h x) =? n) (ch_canon c).
Definition get_header (c : chain) (hash n : N) : option xheader :=
  find_x (fun x => (h_hash (x_h x) =? hash) && (h_number (x_h x) =? n)) (ch_canon c ++ ch_side c).
Fixpoint lookup_reader (l : list (N * lookback)) (r : N) : option lookback :=
  match l with [] => None | (k, v) :: t => if k =? r then Some v else lookup_reader t r end.
Fixpoint lookup_yp (t : list (N * yparams)) (v : N) : option yparams :=
  match t with [] => None | (k, p) :: r => if k =? v then Some p else lookup_yp r v end.
Definition cp_table (t : list (N * yparams)) : list (N * cparams) := map (fun e => (fst e, yp_cp (snd e))) t.

Inductive hverdict :=
| HV (v : verdict)          (* a verdict of Model.v (signature / consensus field) *)
| HNoVersionHeader          (* "can't find header for number ..." *)
| HUnknownVersion           (* "protocol version ... not exist" *)
| HFuture                   (* consensus.ErrFutureBlock *)
| HMixDigest                (* errInvalidMixDigest *)
| HOlderTime                (* consensus.ErrOlderBlockTime *)
| HExistCanonical           (* consensus.ErrExistCanonical *)
| HUnknownLBValidators      (* consensus.ErrUnknownLookBackValidators *)
| HReaderError              (* the error GetVldReader returned (certificate set) *)
| HPanic                    (* index out of range in VersionForRoundWithParents *)
(* VerifyAcHeader *)
| ANoCht | ANotAc | ACertDecode | AConsDecode | ANoLookBack | AVersion | ASeedCons | AReader
| AVotes (v : verdict).     (* "verify cht certificates failed: ..." *)

(* HeaderChain.VersionForRoundWithParents: the header consulted for round r.
   inl None = no header found; inr tt = index out of range (panic) *)
Definition version_header (c : chain) (parents : list xheader) (r : N) : option xheader + unit :=
  let pr := if protocol_round_back <? r then r - protocol_round_back else 0 in
  match by_number c pr with
  | Some x => inl (Some x)
  | None =>
    match parents with
    | [] => inl None
    | p0 :: _ =>
      let first := h_number (x_h p0) in
      if first <=? pr then
        match nth_error parents (N.to_nat (pr - first)) with
        | Some x => inl (Some x)
        | None => inr tt
        end
      else inl None
    end
  end.

(* GetLookBackBlockNumber *)
Definition lb_number (n cfg : N) : N := if cfg <? n then n - cfg else 0.

(* getLookBackHeader for look-back number L of header number n *)
Definition get_lb (c : chain) (parents : list xheader) (n L : N) : option xheader :=
  let minLen := n - L in
  let len := N.of_nat (length parents) in
  if minLen <=? len then nth_error parents (N.to_nat (len - minLen))
  else by_number c L.

Definition last_x (l : list xheader) : option xheader := nth_error l (pred (length l)).

(* a stand-in for the nil certificate header of non-certificate rounds (never read) *)
Definition no_header : header := mkH 0 0 0 0 None None None 0.
Definition no_lb : lookback := mkLB [] 0.

(* verifyConsensusField *)
Definition verify_consensus_field (O : oracles) (V : variant) (yts : list (N * yparams)) (c : chain)
           (parents : list xheader) (yp : yparams) (h : header) : hverdict :=
  let n := h_number h in
  match get_lb c parents n (lb_number n (yp_seed_lb yp)) with
  | None => HV EUnknownAncestor
  | Some seedX =>
    match get_lb c parents n (lb_number n (yp_stake_lb yp)) with
    | None => HUnknownLBValidators
    | Some stakeX =>
      match lookup_reader (ch_readers c) (x_valroot stakeX) with
      | None => HUnknownLBValidators
      | Some lb =>
        if is_cert_round n then
          match get_lb c parents n (lb_number n cht_frequency) with
          | None => HV EUnknownAncestor
          | Some certX =>
            match get_lb c parents n (lb_number n (2 * cht_frequency)) with
            | None => HV EUnknownAncestor
            | Some cstakeX =>
              match lookup_reader (ch_readers c) (x_valroot cstakeX) with
              | None => HReaderError
              | Some certlb => HV (verify_main O V (yp_cp yp) (cp_table yts) (x_h seedX) lb (x_h certX) certlb h)
              end
            end
          end
        else HV (verify_main O V (yp_cp yp) (cp_table yts) (x_h seedX) lb no_header no_lb h)
      end
    end
  end.

(* verifyCascadingFields *)
Definition verify_cascading (O : oracles) (V : variant) (yts : list (N * yparams)) (c : chain)
           (parents : list xheader) (yp : yparams) (xh : xheader) (seal : bool) : hverdict :=
  let h := x_h xh in
  let n := h_number h in
  if n =? 0 then HV Accept else
  let parent := match parents with
                | [] => get_header c (h_parent h) (n - 1)
                | _ => last_x parents
                end in
  match parent with
  | None => HV EUnknownAncestor
  | Some p =>
    if negb ((h_number (x_h p) =? n - 1) && (h_hash (x_h p) =? h_parent h)) then HV EUnknownAncestor
    else if x_time xh <=? x_time p then HOlderTime
    else
      match by_number c n with
      | Some loc => if negb (h_hash (x_h loc) =? h_hash h) then HExistCanonical
                    else if seal then verify_consensus_field O V yts c parents yp h else HV Accept
      | None => if seal then verify_consensus_field O V yts c parents yp h else HV Accept
      end
  end.

(* verifyHeader *)
Definition verify_header (O : oracles) (V : variant) (now : N) (yts : list (N * yparams)) (c : chain)
           (parents : list xheader) (xh : xheader) (seal : bool) : hverdict :=
  match version_header c parents (h_number (x_h xh)) with
  | inr _ => HPanic
  | inl None => HNoVersionHeader
  | inl (Some vh) =>
    match lookup_yp yts (h_version (x_h vh)) with
    | None => HUnknownVersion
    | Some yp =>
      if now + yp_future yp <? x_time xh then HFuture
      else if negb (x_mix xh) then HMixDigest
      else match verify_signature O (x_h xh) with
           | Accept => verify_cascading O V yts c parents yp xh seal
           | e => HV e
           end
    end
  end.

(* findHeaderFromTrustedParents: the loop runs from the last element down and
   keeps overwriting, so the match with the smallest index wins *)
Definition find_trusted (parents : list xheader) (n : N) : option xheader :=
  find_x (fun x => h_number (x_h x) =? n) parents.

(* VerifyAcHeader *)
Definition verify_ac (O : oracles) (V : variant) (yts : list (N * yparams)) (c : chain)
           (trusted : list xheader) (xh : xheader) : hverdict :=
  let h := x_h xh in
  let n := h_number h in
  if negb (x_cht xh) then ANoCht
  else if negb (n mod cht_frequency =? 0) then ANotAc
  else match h_cert h with
  | None => ACertDecode
  | Some uc =>
    match h_cons h with
    | None => AConsDecode
    | Some cd =>
      let sl := lb_number n cht_frequency in
      let kl := lb_number n (2 * cht_frequency) in
      let seedO := match by_number c sl with Some x => Some x | None => find_trusted trusted sl end in
      let stakeO := match by_number c kl with Some x => Some x | None => find_trusted trusted kl end in
      match seedO, stakeO with
      | Some seedX, Some stakeX =>
        match lookup_yp yts (h_version (x_h seedX)) with
        | None => AVersion
        | Some yp =>
          match h_cons (x_h seedX) with
          | None => ASeedCons
          | Some seedCon =>
            match lookup_reader (ch_readers c) (x_valroot stakeX) with
            | None => AReader
            | Some lb =>
              let cm := mkCommon (yp_cp yp) lb (h_hash h) (cd_seed seedCon) (cd_round cd) (uv_index uc) (cp_cvt (yp_cp yp)) in
              match verify_votes O V cm (uv_certs uc) (uv_cc uc) step_certificate false with
              | Accept => HV Accept
              | EPanic => HPanic          (* a panic is not wrapped into an error *)
              | e => AVotes e
              end
            end
          end
        end
      | _, _ => ANoLookBack
      end
    end
  end.

(* ---- correspondence runner --------------------------------------------------- *)

Definition hverdict_code (v : hverdict) : N :=
  match v with
  | HV e => verdict_code e
  | HNoVersionHeader => 15 | HUnknownVersion => 16 | HFuture => 17 | HMixDigest => 18 | HOlderTime => 19
  | HExistCanonical => 20 | HUnknownLBValidators => 21 | HReaderError => 22 | HPanic => 11
  | ANoCht => 30 | ANotAc => 31 | ACertDecode => 32 | AConsDecode => 33 | ANoLookBack => 34
  | AVersion => 35 | ASeedCons => 36 | AReader => 37
  | AVotes e => 100 + verdict_code e
  end.

Record hcase := mkHCase {
  hk_variant : variant; hk_tables : tables; hk_now : N;
  hk_yts : list (N * yparams); hk_chain : chain; hk_parents : list xheader;
  hk_hdr : xheader; hk_seal : bool;
  hk_ac : bool;                  (* true: VerifyAcHeader(chain, hdr, parents) instead of verifyHeader *)
  hk_observed : N
}.

Definition run_hcase (k : hcase) : hverdict :=
  if hk_ac k then verify_ac (table_oracles (hk_tables k)) (hk_variant k) (hk_yts k) (hk_chain k) (hk_parents k) (hk_hdr k)
  else verify_header (table_oracles (hk_tables k)) (hk_variant k) (hk_now k) (hk_yts k) (hk_chain k)
                     (hk_parents k) (hk_hdr k) (hk_seal k).

Inductive tcase := TSide (k : case) | THdr (k : hcase).

(* the model's verdict on one case, and on a sequence of cases verified one after the other
   by the same process: verification has no state, the verdicts are those of the single cases *)
Definition tcase_verdict (t : tcase) : N :=
  match t with
  | TSide k => verdict_code (run_case k)
  | THdr k => hverdict_code (run_hcase k)
  end.
Definition history_verdicts (l : list tcase) : list N := map tcase_verdict l.

Definition tcase_ok (t : tcase) : bool :=
  match t with
  | TSide k => case_ok k
  | THdr k => hverdict_code (run_hcase k) =? hk_observed k
  end.

Fixpoint tmismatches_from (i : N) (l : list tcase) : list N :=
  match l with
  | [] => []
  | t :: r => if tcase_ok t then tmismatches_from (i + 1) r else i :: tmismatches_from (i + 1) r
  end.
Definition tmismatches := tmismatches_from 0.
