(* C01 - the table oracles of the correspondence runner meet the hypotheses of
   the theorems; concrete witnesses: an accepted honest header (non-vacuity)
   and one accepted forged header per listed weakness (refutations of the full
   statement for the unrepaired verifier). *)
From VF.C01 Require Import Model Proofs ProofsB.
From Coq Require Import Lia ZifyBool ZifyN ZifyNat.
Local Open Scope N_scope.

(* ---- the ideal aggregate check is sound --------------------------------------- *)

Definition signed_t (t : tables) (k : blskey) (pl : payload) : Prop :=
  exists id comp, In (id, comp) (t_sigs t) /\ In (k, pl) comp.

Lemma eq3_true : forall a b, eq3 a b = true -> a = b.
Proof.
  intros [[a1 a2] a3] [[b1 b2] b3] H. cbn in H.
  apply Bool.andb_true_iff in H as [H H3]. apply Bool.andb_true_iff in H as [H1 H2].
  apply N.eqb_eq in H1, H2, H3. subst. reflexivity.
Qed.

Lemma remove_one_spec : forall x l l', remove_one x l = Some l' ->
  In x l /\ forall z, In z l' -> In z l.
Proof.
  intros x l. induction l as [|y r IH]; intros l' H; cbn [remove_one] in H; [discriminate|].
  destruct ((fst y =? fst x) && eq3 (snd y) (snd x)) eqn:E.
  - inversion H; subst l'. apply Bool.andb_true_iff in E as [E1 E2].
    apply N.eqb_eq in E1. apply eq3_true in E2. split.
    + left. destruct x, y; cbn in *; subst; reflexivity.
    + intros z Hz. right. exact Hz.
  - destruct (remove_one x r) as [r'|] eqn:ER; [|discriminate]. inversion H; subst l'.
    destruct (IH r' eq_refl) as [I1 I2]. split; [right; exact I1|].
    intros z [Hz|Hz]; [left; exact Hz|right; apply I2; exact Hz].
Qed.

Lemma multiset_eq_incl : forall a b, multiset_eq a b = true -> forall x, In x a -> In x b.
Proof.
  induction a as [|y r IH]; intros b H x Hx; [destruct Hx|].
  cbn [multiset_eq] in H. destruct (remove_one y b) as [b'|] eqn:ER; [|discriminate].
  apply remove_one_spec in ER as [I1 I2]. destruct Hx as [->|Hx]; [exact I1|].
  apply I2. eapply IH; eauto.
Qed.

Lemma assoc_In : forall (l : list (N * list (blskey * payload))) k v, assoc N.eqb l k = Some v -> In (k, v) l.
Proof.
  induction l as [|[k' v'] r IH]; intros k v H; cbn [assoc] in H; [discriminate|].
  destruct (k' =? k) eqn:E.
  - inversion H; subst. apply N.eqb_eq in E. subst. left. reflexivity.
  - right. apply IH. exact H.
Qed.

Lemma table_bls_sound : forall t pubs pl s,
  o_bls (table_oracles t) pubs pl s = Some true -> forall k, In k pubs -> signed_t t k pl.
Proof.
  intros t pubs pl s H k Hk. cbn [table_oracles o_bls] in H.
  destruct (assoc N.eqb (t_sigs t) s) as [comp|] eqn:EA; [|discriminate].
  destruct pubs as [|p0 pr]; [discriminate|]. destruct comp as [|c0 cr]; [discriminate|].
  assert (HM : multiset_eq (map (fun k : blskey => (k, pl)) (p0 :: pr)) (c0 :: cr) = true) by congruence.
  exists s, (c0 :: cr). split; [apply assoc_In; exact EA|].
  eapply multiset_eq_incl; [exact HM|]. apply in_map_iff. exists k. split; [reflexivity|exact Hk].
Qed.

Definition seats_table_nonneg (t : tables) : bool :=
  forallb (fun e => match snd e with Some j => (0 <=? j)%Z | None => true end) (t_seats t).

Lemma assoc_In4 : forall (l : list ((N * N * N * N) * option Z)) k v, assoc eq4 l k = Some v -> exists k', In (k', v) l.
Proof.
  induction l as [|[k' v'] r IH]; intros k v H; cbn [assoc] in H; [discriminate|].
  destruct (eq4 k' k).
  - inversion H; subst. exists k'. left. reflexivity.
  - destruct (IH k v H) as [k2 H2]. exists k2. right. exact H2.
Qed.

Lemma table_seats_nonneg : forall t, seats_table_nonneg t = true ->
  forall h st th tot j, o_seats (table_oracles t) h st th tot = Some j -> (0 <= j)%Z.
Proof.
  intros t HT h st th tot j H. cbn [table_oracles o_seats] in H.
  destruct (assoc eq4 (t_seats t) (h, st, th, tot)) as [v|] eqn:EA.
  - subst v. apply assoc_In4 in EA as [k' Hin]. unfold seats_table_nonneg in HT.
    rewrite forallb_forall in HT. specialize (HT _ Hin). cbn in HT. lia.
  - unfold missing_seats in H. inversion H. lia.
Qed.

(* header signatures: "k sealed hh" in the table world = some signature recovers to k over hh *)
Definition sealed_t (t : tables) (k : key) (hh : N) : Prop :=
  exists s, o_recover (table_oracles t) hh s = Some k.
Lemma table_ecdsa_sound : forall t hh s k, o_recover (table_oracles t) hh s = Some k -> sealed_t t k hh.
Proof. intros t hh s k H. exists s. exact H. Qed.

(* ---- a small world ---------------------------------------------------------------- *)

(* three validators of stake 10: two online senators and one online house
   member; committee statistic 20; protocol thresholds 5 / 10 / 10 *)
Definition w_lb : lookback :=
  mkLB [mkVal (Some 1) (Some 1) 2 1 10; mkVal (Some 2) (Some 2) 2 1 10; mkVal (Some 3) (Some 3) 3 1 10] 20.
Definition w_cp : cparams := mkCP 5 10 10 true.
Definition w_pl : payload := (0, 100, 1).
Definition w_tables : tables := mkT
  (* vrf: proposer credential of key 1, precommit proofs of keys 1, 2, 3 for (seed 7, index 1) *)
  [((1, 7, 1, 1, 11), 21); ((1, 7, 3, 1, 12), 22); ((2, 7, 3, 1, 13), 23); ((3, 7, 3, 1, 14), 24);
   ((2, 7, 1, 1, 15), 25);
   (* certificate proofs of keys 1, 2 *)
   ((1, 7, 5, 1, 16), 26); ((2, 7, 5, 1, 17), 27)]
  (* seats *)
  [((21, 10, 5, 20), Some 2%Z); ((25, 10, 5, 20), Some 0%Z);
   ((22, 10, 10, 20), Some 4%Z); ((23, 10, 10, 20), Some 3%Z); ((24, 10, 10, 20), Some 7%Z);
   ((22, 10, 2, 20), Some 1%Z); ((26, 10, 10, 20), Some 4%Z); ((27, 10, 10, 20), Some 3%Z)]
  [((21, 2%Z), 31); ((25, 0%Z), 32)]
  [((10, true), 6); ((10, false), 5); ((2, true), 1); ((5, true), 3)]
  [(1, [(1, w_pl); (2, w_pl)]); (2, [(1, w_pl)]); (3, [(3, w_pl)])]
  (* header signatures over hash 0: signature k is the seal of key k *)
  [((0, 1), 1); ((0, 2), 2)]
  (* proof 99: a scalar out of range, ProofToHash panics on it *)
  [99].
Definition w_O := table_oracles w_tables.
Definition w_seedH : header := mkH 92 5 5 1 (Some (mkCD 92 1 7 0 0 0 None 0 0 10)) None None 0.
Definition w_parent : header := mkH 99 2 3 1 None None None 0.
(* sealed by the signer of the consensus data *)
Definition w_hdr (cd : consdata) (uv : uconvals) : header :=
  mkH 100 0 2 1 (Some cd) (Some uv) None (match cd_signer cd with Some k => k | None => 0 end).


(* honest: proposer key 1 with 2 seats, precommits of validators 0 and 1 (4 + 3 >= 6) *)
Definition w_cd_ok : consdata := mkCD 100 1 8 11 31 2 (Some 1) 5 10 10.
Definition w_uv_ok : uconvals := mkUV 1 [mkVote 0 4 12; mkVote 1 3 13] (Some 1) [] None.
(* (a) the header says ValidatorThreshold 2: one vote of weight 1 reaches its quorum of 1 *)
Definition w_cd_thr : consdata := mkCD 100 1 8 11 31 2 (Some 1) 5 2 10.
Definition w_uv_thr : uconvals := mkUV 1 [mkVote 0 1 12] (Some 2) [] None.
(* (b) the only voter is the house member (7 seats >= 6) *)
Definition w_uv_house : uconvals := mkUV 1 [mkVote 2 7 14] (Some 3) [] None.
(* (c) validator 2 proposes with a credential that won no seat (protocol thresholds in the header) *)
Definition w_cd_zero : consdata := mkCD 100 1 8 15 32 0 (Some 2) 5 10 10.

(* (d) the honest consensus data and votes under a header signature of key 2 *)
Definition w_hdr_unsealed : header := mkH 100 0 2 1 (Some w_cd_ok) (Some w_uv_ok) None 2.

(* (e) malformed proofs: the proposer credential is proof 99 / validator 1's precommit carries proof 99 *)
Definition w_cd_crash : consdata := mkCD 100 1 8 99 31 2 (Some 1) 5 10 10.
Definition w_uv_crash : uconvals := mkUV 1 [mkVote 0 4 12; mkVote 1 3 99] (Some 1) [] None.

Lemma w_bls_sound : forall pubs pl s, o_bls w_O pubs pl s = Some true -> forall k, In k pubs -> signed_t w_tables k pl.
Proof. apply table_bls_sound. Qed.
Lemma w_seats_nonneg : forall h st t tot j, o_seats w_O h st t tot = Some j -> (0 <= j)%Z.
Proof. apply table_seats_nonneg. vm_compute. reflexivity. Qed.

Lemma w_accept_fixed :
  verify_side w_O fixed w_cp [] w_seedH w_lb w_seedH w_lb (w_hdr w_cd_ok w_uv_ok) (Some w_parent) = Accept.
Proof. vm_compute. reflexivity. Qed.
Lemma w_accept_asis :
  verify_side w_O asis w_cp [] w_seedH w_lb w_seedH w_lb (w_hdr w_cd_ok w_uv_ok) (Some w_parent) = Accept
  /\ finding_class w_O w_cp [] w_seedH w_lb w_seedH w_lb (w_hdr w_cd_ok w_uv_ok) = false.
Proof. split; vm_compute; reflexivity. Qed.

(* the forged headers are accepted by the unrepaired verifier and rejected by the repaired one *)
Lemma w_thr_accepted :
  verify_side w_O asis w_cp [] w_seedH w_lb w_seedH w_lb (w_hdr w_cd_thr w_uv_thr) (Some w_parent) = Accept
  /\ verify_side w_O fixed w_cp [] w_seedH w_lb w_seedH w_lb (w_hdr w_cd_thr w_uv_thr) (Some w_parent) = EInvalidCD.
Proof. split; vm_compute; reflexivity. Qed.
Lemma w_house_accepted :
  verify_side w_O asis w_cp [] w_seedH w_lb w_seedH w_lb (w_hdr w_cd_ok w_uv_house) (Some w_parent) = Accept
  /\ verify_side w_O fixed w_cp [] w_seedH w_lb w_seedH w_lb (w_hdr w_cd_ok w_uv_house) (Some w_parent) = EInvalidCD.
Proof. split; vm_compute; reflexivity. Qed.
Lemma w_zero_accepted :
  verify_side w_O asis w_cp [] w_seedH w_lb w_seedH w_lb (w_hdr w_cd_zero w_uv_ok) (Some w_parent) = Accept
  /\ verify_side w_O fixed w_cp [] w_seedH w_lb w_seedH w_lb (w_hdr w_cd_zero w_uv_ok) (Some w_parent) = EInvalidCD.
Proof. split; vm_compute; reflexivity. Qed.

Lemma w_unsealed_accepted :
  verify_side w_O asis w_cp [] w_seedH w_lb w_seedH w_lb w_hdr_unsealed (Some w_parent) = Accept
  /\ verify_side w_O fixed w_cp [] w_seedH w_lb w_seedH w_lb w_hdr_unsealed (Some w_parent) = EInvalidSealer.
Proof. split; vm_compute; reflexivity. Qed.

Lemma w_malformed_crash :
  verify_side w_O fixed w_cp [] w_seedH w_lb w_seedH w_lb (w_hdr w_cd_crash w_uv_ok) (Some w_parent) = EPanic /\
  verify_side w_O fixed w_cp [] w_seedH w_lb w_seedH w_lb (w_hdr w_cd_ok w_uv_crash) (Some w_parent) = EPanic /\
  o_vrf_crash w_O (cd_proof w_cd_crash) = true.
Proof. repeat split; vm_compute; reflexivity. Qed.

(* ---- the full statement and its refutations --------------------------------------- *)

(* C01 at full strength for a verifier variant: for all oracles meeting the
   cryptographic hypotheses and all inputs *)
Definition C01_full_for (V : variant) : Prop :=
  forall (O : oracles) (signed : blskey -> payload -> Prop) (sealed : key -> N -> Prop),
    (forall pubs pl s, o_bls O pubs pl s = Some true -> forall k, In k pubs -> signed k pl) ->
    (forall h st t tot j, o_seats O h st t tot = Some j -> (0 <= j)%Z) ->
    (forall hh s k, o_recover O hh s = Some k -> sealed k hh) ->
    forall cp vers seedH lb certH certlb h parent,
      verify_side O V cp vers seedH lb certH certlb h parent = Accept ->
      C01_statement O signed cp vers seedH lb certH certlb h /\ seal_ok O sealed h.

Definition C01_full : Prop := C01_full_for asis.

Theorem repaired_full : C01_full_for fixed.
Proof.
  intros O signed sealed HB HS HE cp vers seedH lb certH certlb h parent HA.
  apply (side_accept O sealed HE) in HA as (p & _ & _ & _ & HM & HSeal).
  split; [eapply fixed_accept; eauto|]. apply HSeal. reflexivity.
Qed.

Theorem asis_outside : forall (O : oracles) (signed : blskey -> payload -> Prop) (sealed : key -> N -> Prop),
    (forall pubs pl s, o_bls O pubs pl s = Some true -> forall k, In k pubs -> signed k pl) ->
    (forall h st t tot j, o_seats O h st t tot = Some j -> (0 <= j)%Z) ->
    (forall hh s k, o_recover O hh s = Some k -> sealed k hh) ->
    forall cp vers seedH lb certH certlb h parent,
      verify_side O asis cp vers seedH lb certH certlb h parent = Accept ->
      finding_class O cp vers seedH lb certH certlb h = false ->
      C01_statement O signed cp vers seedH lb certH certlb h /\ seal_ok O sealed h.
Proof.
  intros O signed sealed HB HS HE cp vers seedH lb certH certlb h parent HA HF.
  apply (side_accept O sealed HE) in HA as (p & _ & _ & _ & HM & _). eapply asis_accept_outside; eauto.
Qed.

Ltac instantiate_full H hdr :=
  specialize (H w_O (signed_t w_tables) (sealed_t w_tables) w_bls_sound w_seats_nonneg (table_ecdsa_sound w_tables)
                w_cp [] w_seedH w_lb w_seedH w_lb hdr (Some w_parent)).

(* an entitled element of a certificate over [listed] in the small world is
   determined by its vote *)
Lemma w_entitled_shape : forall thr listed L x,
  quorum_cert w_O (signed_t w_tables) w_lb 7 1 step_precommit thr true w_pl listed L -> In x L ->
  In (fst x) listed /\ nth_error (lb_vals w_lb) (N.to_nat (vt_idx (fst x))) = Some (snd x) /\
  exists mk h j, v_main (snd x) = Some mk /\ o_vrf w_O mk 7 step_precommit 1 (vt_proof (fst x)) = Some h /\
                 o_seats w_O h (v_stake (snd x)) thr 20 = Some j /\ (0 < j)%Z /\ u32_of_Z j = vt_votes (fst x).
Proof.
  intros thr listed L x [_ HL HE _] Hx. split; [apply HL; exact Hx|].
  rewrite Forall_forall in HE. destruct (HE x Hx) as (Hn & mk & bk & h & j & H1 & H2 & H3 & H4 & H5 & H6 & _).
  split; [exact Hn|]. exists mk, h, j. auto.
Qed.

Theorem refuted_by_header_threshold : ~ C01_full.
Proof.
  intros H. instantiate_full H (w_hdr w_cd_thr w_uv_thr). specialize (H (proj1 w_thr_accepted)). destruct H as [H _].
  destruct H as (seedCon & cd & uv & H1 & H2 & H3 & _ & (L & HQ & _) & _).
  cbn in H1, H2, H3. inversion H1; inversion H2; inversion H3; subst seedCon cd uv. clear H1 H2 H3.
  cbn [cd_seed w_cd_thr uv_index w_uv_thr uv_commit h_hash w_hdr cd_round cp_vt w_cp] in HQ.
  destruct L as [|x L'].
  - destruct HQ as [_ _ _ HW]. vm_compute in HW. apply HW. reflexivity.
  - destruct (w_entitled_shape _ _ _ x HQ (or_introl eq_refl)) as (Hin & Hn & mk & h & j & M1 & M2 & M3 & M4 & M5).
    destruct x as [v val]. cbn [fst snd] in *. destruct Hin as [<-|[]].
    cbn in Hn. inversion Hn; subst val. cbn in M1. inversion M1; subst mk.
    vm_compute in M2. inversion M2; subst h. vm_compute in M3. inversion M3; subst j.
    vm_compute in M5. discriminate.
Qed.

Theorem refuted_by_non_member_voter : ~ C01_full.
Proof.
  intros H. instantiate_full H (w_hdr w_cd_ok w_uv_house). specialize (H (proj1 w_house_accepted)). destruct H as [H _].
  destruct H as (seedCon & cd & uv & H1 & H2 & H3 & _ & (L & HQ & HM) & _).
  cbn in H1, H2, H3. inversion H1; inversion H2; inversion H3; subst seedCon cd uv. clear H1 H2 H3.
  cbn [cd_seed w_cd_ok uv_index w_uv_house uv_commit h_hash w_hdr cd_round cp_vt w_cp] in HQ.
  destruct L as [|x L'].
  - destruct HQ as [_ _ _ HW]. vm_compute in HW. apply HW. reflexivity.
  - destruct (w_entitled_shape _ _ _ x HQ (or_introl eq_refl)) as (Hin & Hn & _).
    inversion HM as [|? ? Hmem _]; subst.
    destruct x as [v val]. cbn [fst snd] in *. destruct Hin as [<-|[]].
    cbn in Hn. inversion Hn; subst val. vm_compute in Hmem. discriminate.
Qed.

Theorem refuted_by_zero_seat_proposer : ~ C01_full.
Proof.
  intros H. instantiate_full H (w_hdr w_cd_zero w_uv_ok). specialize (H (proj1 w_zero_accepted)). destruct H as [H _].
  destruct H as (seedCon & cd & uv & H1 & H2 & H3 & HP & _).
  cbn in H1, H2, H3. inversion H1; inversion H2; inversion H3; subst seedCon cd uv. clear H1 H2 H3.
  destruct HP as (pk & val & h & j & P1 & P2 & _ & P4 & P5 & P6 & _).
  cbn in P1. inversion P1; subst pk. vm_compute in P2. inversion P2; subst val.
  vm_compute in P4. inversion P4; subst h.
  vm_compute in P5. inversion P5; subst j. discriminate.
Qed.

(* (d) the unrepaired side-chain verifier never looked at the header signature *)
Theorem refuted_by_unsealed_header : ~ C01_full.
Proof.
  intros H. instantiate_full H w_hdr_unsealed. specialize (H (proj1 w_unsealed_accepted)). destruct H as [_ H].
  destruct H as (cd & pk & H1 & H2 & H3 & _).
  cbn in H1. inversion H1; subst cd. cbn in H2. inversion H2; subst pk.
  vm_compute in H3. discriminate.
Qed.
