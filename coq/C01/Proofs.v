(* C01 - lemmas about the vote loop (verifyVotes) for every variant of the
   code and for all oracles. *)
From VF.C01 Require Import Model.
From Coq Require Import Lia ZifyBool ZifyN ZifyNat.
Local Open Scope N_scope.

Section Votes.
Variable O : oracles.
Variable V : variant.
Variable c : common.
Variable step : N.

Definition keyof (x : vote * validator) : option key := v_main (snd x).
Definition wsum (l : list (vote * validator)) : N := fold_right (fun x a => vt_votes (fst x) + a) 0 l.

Definition sortition_ok (v : vote) (val : validator) (mk : key) : Prop :=
  verify_sortition O mk (c_seed c) (c_index c) step (vt_proof v) (vt_votes v)
                   (c_thr c) (v_stake val) (lb_total (c_lb c)) = Some true.

(* what the loop established about a vote it counted *)
Definition counted_fact (sta : list key) (x : vote * validator) : Prop :=
  exists bk mk, recover_signer (c_lb c) (fst x) = Some (snd x, bk, mk)
                /\ mem mk sta = false
                /\ sortition_ok (fst x) (snd x) mk
                /\ (check_member V = true -> is_member (snd x) = true).

Lemma mem_In : forall k l, mem k l = true <-> In k l.
Proof.
  induction l as [|x r IH]; cbn [mem In].
  - split; [discriminate | tauto].
  - rewrite Bool.orb_true_iff, IH, N.eqb_eq. tauto.
Qed.

Lemma mem_cons_false : forall k x l, mem k (x :: l) = false -> x <> k /\ mem k l = false.
Proof.
  intros k x l H. cbn [mem] in H. apply Bool.orb_false_iff in H as [H1 H2].
  apply N.eqb_neq in H1. auto.
Qed.

Lemma mem_weaken : forall k x l, mem k (x :: l) = false -> mem k l = false.
Proof. intros k x l H. apply mem_cons_false in H. tauto. Qed.

Lemma recover_main : forall lb v val bk mk,
  recover_signer lb v = Some (val, bk, mk) ->
  nth_error (lb_vals lb) (N.to_nat (vt_idx v)) = Some val /\ v_bls val = Some bk /\ v_main val = Some mk.
Proof.
  intros lb v val bk mk H. unfold recover_signer in H.
  destruct (nth_error (lb_vals lb) (N.to_nat (vt_idx v))) as [val'|] eqn:E1; [|discriminate].
  destruct (v_bls val') as [bk'|] eqn:E2; [|discriminate].
  destruct (v_main val') as [mk'|] eqn:E3; [|discriminate].
  inversion H; subst. auto.
Qed.

(* ---- the counted list ---------------------------------------------------- *)

Lemma counted_facts : forall l sta,
  Forall (fun x => counted_fact sta x /\ In (fst x) l) (counted_from O V c step sta l).
Proof.
  induction l as [|v r IH]; intros sta; cbn [counted_from]; [constructor|].
  destruct (recover_signer (c_lb c) v) as [[[val bk] mk]|] eqn:ER; [|constructor].
  assert (W : forall s, Forall (fun x => counted_fact s x /\ In (fst x) r) (counted_from O V c step s r) ->
                        Forall (fun x => counted_fact s x /\ In (fst x) (v :: r)) (counted_from O V c step s r)).
  { intros s HF. eapply Forall_impl; [|exact HF]. cbn. intros a [Ha Hb]. split; [exact Ha | right; exact Hb]. }
  destruct (check_member V && negb (is_member val)) eqn:EM; [apply W, IH|].
  destruct (mem mk sta) eqn:ES; [apply W, IH|].
  destruct (verify_sortition O mk (c_seed c) (c_index c) step (vt_proof v) (vt_votes v)
                             (c_thr c) (v_stake val) (lb_total (c_lb c))) as [[|]|] eqn:EV.
  - constructor.
    + split; [|left; reflexivity]. exists bk, mk. cbn [fst snd]. repeat split; auto.
      intros HC. rewrite HC in EM. cbn in EM. destruct (is_member val); [reflexivity|discriminate].
    + specialize (IH (mk :: sta)). eapply Forall_impl; [|exact IH]. cbn.
      intros a [(bk' & mk' & H1 & H2 & H3 & H4) Hb]. split; [|right; exact Hb].
      exists bk', mk'. repeat split; auto. eapply mem_weaken; exact H2.
  - apply W, IH.
  - constructor.
Qed.

Lemma counted_keys_fresh : forall l sta x,
  In x (counted_from O V c step sta l) -> exists mk, keyof x = Some mk /\ mem mk sta = false.
Proof.
  intros l sta x HI. pose proof (counted_facts l sta) as HF.
  rewrite Forall_forall in HF. destruct (HF x HI) as [(bk & mk & H1 & H2 & _) _].
  exists mk. split; [|exact H2]. apply recover_main in H1. unfold keyof. tauto.
Qed.

Lemma counted_nodup : forall l sta, NoDup (map keyof (counted_from O V c step sta l)).
Proof.
  induction l as [|v r IH]; intros sta; cbn [counted_from]; [constructor|].
  destruct (recover_signer (c_lb c) v) as [[[val bk] mk]|] eqn:ER; [|constructor].
  destruct (check_member V && negb (is_member val)); [apply IH|].
  destruct (mem mk sta); [apply IH|].
  destruct (verify_sortition O mk (c_seed c) (c_index c) step (vt_proof v) (vt_votes v)
                             (c_thr c) (v_stake val) (lb_total (c_lb c))) as [[|]|]; [|apply IH|constructor].
  cbn [map]. constructor; [|apply IH].
  intros HI. apply in_map_iff in HI as (x & Hk & Hx).
  apply counted_keys_fresh in Hx as (mk' & Hk' & Hm).
  apply recover_main in ER as (_ & _ & Hmain).
  rewrite Hk' in Hk. unfold keyof in Hk. cbn [snd] in Hk. rewrite Hmain in Hk. inversion Hk; subst.
  apply mem_cons_false in Hm. tauto.
Qed.

(* ---- the loop against the counted list ------------------------------------ *)

Lemma add_mod_assoc : forall a v s, ((a + v) mod two32 + s) mod two32 = (a + (v + s)) mod two32.
Proof.
  intros. rewrite N.add_mod_idemp_l by (unfold two32; lia). f_equal. lia.
Qed.

Lemma loop_counted : forall l st st',
  vote_loop O V c step st l = inl st' ->
  st_sta st' = rev (fold_right (fun x a => match keyof x with Some k => k :: a | None => a end) []
                               (counted_from O V c step (st_sta st) l)) ++ st_sta st
  /\ st_count st' mod two32 = (st_count st + wsum (counted_from O V c step (st_sta st) l)) mod two32
  /\ incl (st_pubs st) (st_pubs st')
  /\ (forall x, In x (counted_from O V c step (st_sta st) l) ->
        exists bk, v_bls (snd x) = Some bk /\ In bk (st_pubs st')).
Proof.
  induction l as [|v r IH]; intros st st' HL; cbn [vote_loop counted_from] in *.
  - inversion HL; subst. cbn. repeat split; auto using incl_refl. rewrite N.add_0_r. reflexivity.
    intros x [].
  - unfold vote_step in HL.
    destruct (recover_signer (c_lb c) v) as [[[val bk] mk]|] eqn:ER; [|discriminate].
    destruct (check_member V && negb (is_member val)) eqn:EM; [apply IH; exact HL|].
    destruct (mem mk (st_sta st)) eqn:ES; [apply IH; exact HL|].
    destruct (verify_sortition O mk (c_seed c) (c_index c) step (vt_proof v) (vt_votes v)
                               (c_thr c) (v_stake val) (lb_total (c_lb c))) as [[|]|] eqn:EV; [| |discriminate].
    + apply IH in HL. cbn [st_sta st_count st_pubs] in HL. destruct HL as (H1 & H2 & H3 & H4).
      apply recover_main in ER as (_ & Hb & Hm).
      repeat split.
      * rewrite H1. cbn [fold_right]. unfold keyof at 2. cbn [snd]. rewrite Hm. cbn [rev].
        rewrite <- app_assoc. reflexivity.
      * rewrite H2. cbn [wsum fold_right fst]. apply add_mod_assoc.
      * intros a Ha. apply H3. apply in_or_app. left. exact Ha.
      * intros x [Hx|Hx].
        -- subst x. cbn [snd]. exists bk. split; [exact Hb|]. apply H3. apply in_or_app. right. left. reflexivity.
        -- apply H4. exact Hx.
    + apply IH in HL. cbn [st_sta st_count st_pubs] in HL. destruct HL as (H1 & H2 & H3 & H4).
      repeat split; auto.
      intros a Ha. apply H3. apply in_or_app. left. exact Ha.
Qed.

Lemma loop_err : forall l st e, vote_loop O V c step st l = inr e -> e = ERecover \/ e = EPanic.
Proof.
  induction l as [|v r IH]; intros st e HL; cbn [vote_loop] in HL; [discriminate|].
  destruct (vote_step O V c step st v) as [s1|e1] eqn:ES.
  - eapply IH; exact HL.
  - inversion HL; subst e1. unfold vote_step in ES.
    destruct (recover_signer (c_lb c) v) as [[[val bk] mk]|]; [|inversion ES; auto].
    destruct (check_member V && negb (is_member val)); [discriminate|].
    destruct (mem mk (st_sta st)); [discriminate|].
    destruct (verify_sortition O mk (c_seed c) (c_index c) step (vt_proof v) (vt_votes v) (c_thr c)
                               (v_stake val) (lb_total (c_lb c))) as [[|]|]; inversion ES; auto.
Qed.

End Votes.

(* ---- acceptance of a vote list ---------------------------------------------- *)

Section Accept.
Variable O : oracles.
Variable signed : blskey -> payload -> Prop.
Hypothesis bls_sound : forall pubs pl s, o_bls O pubs pl s = Some true -> forall k, In k pubs -> signed k pl.

(* a vote the property allows to be counted: the voter is the validator at the
   claimed index of the look-back set, its keys decode, the sortition proof
   verifies under its key for exactly (seed, step, index), the seat count
   recomputed from the proof's hash, its stake, the threshold and the total
   stake is positive and is the claimed weight, and its BLS key signed exactly
   this payload (header hash, round, index). *)
Definition entitled (lb : lookback) (seed index step thr : N) (pl : payload) (x : vote * validator) : Prop :=
  nth_error (lb_vals lb) (N.to_nat (vt_idx (fst x))) = Some (snd x) /\
  exists mk bk h j,
    v_main (snd x) = Some mk /\ v_bls (snd x) = Some bk /\
    o_vrf O mk seed step index (vt_proof (fst x)) = Some h /\
    o_seats O h (v_stake (snd x)) thr (lb_total lb) = Some j /\
    (0 < j)%Z /\ u32_of_Z j = vt_votes (fst x) /\
    signed bk pl.

(* a quorum certificate: distinct entitled voters, taken from the header's vote
   list, whose weight reaches the quorum of [thr] *)
Record quorum_cert (lb : lookback) (seed index step thr : N) (isPos : bool) (pl : payload)
       (listed : list vote) (L : list (vote * validator)) : Prop := mkQC {
  qc_distinct : NoDup (map keyof L);
  qc_listed   : forall x, In x L -> In (fst x) listed;
  qc_entitled : Forall (entitled lb seed index step thr pl) L;
  qc_weight   : o_quorum O thr isPos <= wsum L
}.

Definition all_members (L : list (vote * validator)) : Prop := Forall (fun x => is_member (snd x) = true) L.

Lemma sortition_ok_inv : forall mk seed index step proof sub thr stake total,
  verify_sortition O mk seed index step proof sub thr stake total = Some true ->
  exists h j, o_vrf O mk seed step index proof = Some h /\ o_seats O h stake thr total = Some j
              /\ (0 < j)%Z /\ u32_of_Z j = sub /\ o_vrf_crash O proof = false.
Proof.
  intros until total. unfold verify_sortition.
  destruct (total =? 0); [discriminate|].
  destruct (o_vrf_crash O proof) eqn:ECr; [discriminate|].
  destruct (o_vrf O mk seed step index proof) as [h|] eqn:EH; [|discriminate].
  destruct (o_seats O h stake thr total) as [j|] eqn:ES; [|discriminate].
  destruct (j <=? 0)%Z eqn:EJ; [discriminate|].
  destruct (u32_of_Z j =? sub) eqn:EU; cbn; [|discriminate].
  intros _. exists h, j. split; [reflexivity|]. split; [exact ES|]. split; [lia|]. split; [apply N.eqb_eq; exact EU|reflexivity].
Qed.

Theorem votes_accept : forall V c votes asig step isPos,
  verify_votes O V c votes asig step isPos = Accept ->
  let L := counted_from O V c step [] votes in
  quorum_cert (c_lb c) (c_seed c) (c_index c) step (c_thr c) isPos (c_hash c, c_round c, c_index c) votes L
  /\ (check_member V = true -> all_members L).
Proof.
  intros V c votes asig step isPos H L. unfold verify_votes in H.
  destruct (negb (cp_bls (c_cp c))); [discriminate|].
  destruct asig as [sig|]; [|discriminate].
  destruct (vote_loop O V c step vs0 votes) as [st|e] eqn:EL; [|].
  2:{ apply loop_err in EL as [-> | ->]; discriminate. }
  destruct (negb (o_quorum O (c_thr c) isPos <=? st_count st)) eqn:EQ; [discriminate|].
  destruct (o_bls O (st_pubs st) (c_hash c, c_round c, c_index c) sig) as [[|]|] eqn:EB;
    [| discriminate | destruct (bls_guard V); discriminate].
  pose proof (loop_counted O V c step votes vs0 st EL) as (H1 & H2 & H3 & H4).
  cbn [vs0 st_sta st_count st_pubs] in *. fold L in H1, H2, H4.
  pose proof (counted_facts O V c step votes []) as HF. fold L in HF. rewrite Forall_forall in HF.
  split.
  - constructor.
    + apply counted_nodup.
    + intros x Hx. apply (HF x Hx).
    + rewrite Forall_forall. intros x Hx.
      destruct (HF x Hx) as [(bk & mk & Hr & _ & Hs & _) _].
      apply recover_main in Hr as (Hn & Hb & Hm).
      apply sortition_ok_inv in Hs as (h & j & Hv & Hj & Hpos & Hu & _).
      split; [exact Hn|]. exists mk, bk, h, j. repeat split; auto.
      destruct (H4 x Hx) as (bk' & Hb' & Hin). rewrite Hb in Hb'. inversion Hb'; subst bk'.
      eapply bls_sound; eauto.
    + assert (Hle : st_count st mod two32 <= wsum L).
      { rewrite H2. rewrite N.add_0_l. apply N.mod_le. unfold two32. lia. }
      assert (Hq : o_quorum O (c_thr c) isPos <= st_count st) by lia.
      (* the count is a uint32: it never exceeds 2^32-1, so the reduced count is the count *)
      enough (Hlt : st_count st < two32) by (rewrite N.mod_small in Hle by assumption; lia).
      revert EL. clear. unfold vs0. intros EL.
      assert (G : forall l s s', st_count s < two32 -> vote_loop O V c step s l = inl s' -> st_count s' < two32).
      { induction l as [|v r IH]; intros s s' Hs HL; cbn [vote_loop] in HL.
        - inversion HL; subst; exact Hs.
        - destruct (vote_step O V c step s v) as [s1|] eqn:ES; [|discriminate].
          apply IH in HL; [exact HL|]. unfold vote_step in ES.
          destruct (recover_signer (c_lb c) v) as [[[val bk] mk]|]; [|discriminate].
          destruct (check_member V && negb (is_member val)); [inversion ES; subst; exact Hs|].
          destruct (mem mk (st_sta s)); [inversion ES; subst; exact Hs|].
          destruct (verify_sortition O mk (c_seed c) (c_index c) step (vt_proof v) (vt_votes v) (c_thr c)
                                     (v_stake val) (lb_total (c_lb c))) as [[|]|]; inversion ES; subst; cbn [st_count].
          + apply N.mod_lt. unfold two32. lia.
          + exact Hs. }
      eapply G; [|exact EL]. cbn. unfold two32. lia.
  - intros HC. unfold all_members. rewrite Forall_forall. intros x Hx.
    destruct (HF x Hx) as [(bk & mk & _ & _ & _ & Hmem) _]. auto.
Qed.

(* every key the loop put on the aggregate's key list signed the payload *)
Theorem listed_keys_signed : forall V c votes sig step isPos,
  verify_votes O V c votes (Some sig) step isPos = Accept ->
  exists st, vote_loop O V c step vs0 votes = inl st /\
             forall bk, In bk (st_pubs st) -> signed bk (c_hash c, c_round c, c_index c).
Proof.
  intros V c votes sig step isPos H. unfold verify_votes in H.
  destruct (negb (cp_bls (c_cp c))); [discriminate|].
  destruct (vote_loop O V c step vs0 votes) as [st|e] eqn:EL; [|apply loop_err in EL as [-> | ->]; discriminate].
  destruct (negb (o_quorum O (c_thr c) isPos <=? st_count st)); [discriminate|].
  destruct (o_bls O (st_pubs st) (c_hash c, c_round c, c_index c) sig) as [[|]|] eqn:EB;
    [| discriminate | destruct (bls_guard V); discriminate].
  exists st. split; [reflexivity|]. intros bk Hin. eapply bls_sound; eauto.
Qed.

End Accept.
