(* C01 - facts about the tables regenerated from /repo on every run
   (coq/gen/C01Tables.v: every protocol version of the three nets with the
   quorum the real OverThreshold computes for its thresholds). *)
From VF.C01 Require Import Model ModelH.
From VF.gen Require Import C01Tables.
Local Open Scope N_scope.

(* every protocol version: BLS enabled (the only path the model covers),
   thresholds positive, and the quorum Go computes with float64 arithmetic is
   exactly floor(T * 0.685) resp. floor(T * 0.585), and positive *)
Definition version_ok (e : N * cparams * N * N) : bool :=
  let '(_, cp, qv, qc) := e in
  cp_bls cp && (0 <? cp_pt cp) && (0 <? cp_vt cp) && (0 <? cp_cvt cp)
  && (qv =? quorum_frac (cp_vt cp) true) && (qc =? quorum_frac (cp_cvt cp) false)
  && (0 <? qv) && (0 <? qc).

Lemma real_versions_ok : forallb version_ok all_versions = true.
Proof. vm_compute. reflexivity. Qed.

Lemma real_versions_meet_guard : forall e, In e all_versions -> version_ok e = true.
Proof. apply forallb_forall. exact real_versions_ok. Qed.

Lemma real_versions_nonempty : all_versions <> [].
Proof. vm_compute. discriminate. Qed.

(* the constants the model hard-codes are the ones of the working tree *)
Lemma real_constants : go_cht_frequency = cht_frequency /\ go_steps = (step_proposal, step_precommit, step_certificate).
Proof. split; vm_compute; reflexivity. Qed.

(* look-back arithmetic: the constant the model uses for the version look-back is
   core.protocolRoundBack, and in every protocol version the validator set is read at a
   strictly older height than the seed (StakeLookBack > SeedLookBack > 0), so that the
   two look-backs of verifyConsensusField name different blocks *)
Definition lookback_ok (e : N * N * N) : bool :=
  let '(_, stake, seed) := e in (0 <? seed) && (seed <? stake).

Lemma real_lookbacks_ok : forallb lookback_ok go_lookbacks = true.
Proof. vm_compute. reflexivity. Qed.

Lemma real_lookbacks : go_protocol_round_back = protocol_round_back /\
                       forall e, In e go_lookbacks -> lookback_ok e = true.
Proof. split; [vm_compute; reflexivity|]. apply forallb_forall. exact real_lookbacks_ok. Qed.

(* inventory of the LRU caches the vote verification path goes through (decoded BLS keys,
   decoded BLS signatures, decoded main keys).  The model has no cache: a validator counts once
   per container whatever the caches hold.  The harness steers the distance between two copies
   of a vote around these capacities (capacity-1, capacity, capacity+1, 2*capacity) inside
   look-back sets with more validators than the largest capacity. *)
Definition max_cache_size : N := fold_right N.max 0 go_cache_sizes.
Lemma real_cache_sizes : length go_cache_sizes = 3%nat /\ forallb (fun c => 0 <? c) go_cache_sizes = true /\ 0 < max_cache_size.
Proof. repeat split; vm_compute; reflexivity. Qed.
