(* C01 - junk votes contribute nothing; acceptance of a whole header
   (verifyConsensusFieldMain / VerifySideChainHeader) for the repaired and the
   unrepaired variant. *)
From VF.C01 Require Import Model Proofs.
From Coq Require Import Lia ZifyBool ZifyN ZifyNat.
Local Open Scope N_scope.

(* ---- junk ------------------------------------------------------------------ *)

Section Junk.
Variable O : oracles.
Variable V : variant.
Variable c : common.
Variable step : N.

(* the part of the loop state that decides the weight: the addresses already
   counted and the count (the BLS key list only feeds the aggregate check) *)
Definition same_core (a b : vstate) : Prop := st_sta a = st_sta b /\ st_count a = st_count b.

Definition core_eq (r1 r2 : vstate + verdict) : Prop :=
  match r1, r2 with
  | inl a, inl b => same_core a b
  | inr e, inr e' => e = e'
  | _, _ => False
  end.

Definition contributes_nothing (st : vstate) (v : vote) : Prop :=
  exists st', vote_step O V c step st v = inl st' /\ same_core st st'.

(* the junk classes of the property, each stated on what the verifier sees *)
Inductive junk (st : vstate) (v : vote) : Prop :=
| junk_duplicate : forall val bk mk,       (* the same validator was already counted *)
    recover_signer (c_lb c) v = Some (val, bk, mk) -> mem mk (st_sta st) = true -> junk st v
| junk_non_member : forall val bk mk,      (* house / invalid role / offline (repaired code) *)
    recover_signer (c_lb c) v = Some (val, bk, mk) -> check_member V = true -> is_member val = false -> junk st v
| junk_no_stake : forall val bk mk,        (* empty committee statistic *)
    recover_signer (c_lb c) v = Some (val, bk, mk) -> lb_total (c_lb c) = 0 -> junk st v
| junk_proof : forall val bk mk,           (* proof not valid under this key for (seed, step, index):
                                              replayed from another round / index / step, another validator's, truncated *)
    recover_signer (c_lb c) v = Some (val, bk, mk) -> o_vrf_crash O (vt_proof v) = false ->
    o_vrf O mk (c_seed c) step (c_index c) (vt_proof v) = None -> junk st v
| junk_no_seat : forall val bk mk h j,     (* the recomputed seat count is zero *)
    recover_signer (c_lb c) v = Some (val, bk, mk) -> o_vrf_crash O (vt_proof v) = false ->
    o_vrf O mk (c_seed c) step (c_index c) (vt_proof v) = Some h ->
    o_seats O h (v_stake val) (c_thr c) (lb_total (c_lb c)) = Some j -> (j <= 0)%Z -> junk st v
| junk_weight : forall val bk mk h j,      (* claimed weight differs from the recomputed seat count *)
    recover_signer (c_lb c) v = Some (val, bk, mk) -> o_vrf_crash O (vt_proof v) = false ->
    o_vrf O mk (c_seed c) step (c_index c) (vt_proof v) = Some h ->
    o_seats O h (v_stake val) (c_thr c) (lb_total (c_lb c)) = Some j -> u32_of_Z j <> vt_votes v -> junk st v.

Lemma same_core_refl : forall s, same_core s s.
Proof. intros; split; reflexivity. Qed.

Theorem junk_contributes_nothing : forall st v, junk st v -> contributes_nothing st v.
Proof.
  intros st v HJ. unfold contributes_nothing, vote_step.
  destruct HJ as [val bk mk HR HM | val bk mk HR HC HM | val bk mk HR HT | val bk mk HR HCr HP
                  | val bk mk h j HR HCr HP HS HJ | val bk mk h j HR HCr HP HS HJ]; rewrite HR.
  - destruct (check_member V && negb (is_member val)); [eexists; split; [reflexivity|apply same_core_refl]|].
    rewrite HM. eexists; split; [reflexivity|apply same_core_refl].
  - rewrite HC, HM. cbn. eexists; split; [reflexivity|apply same_core_refl].
  - destruct (check_member V && negb (is_member val)); [eexists; split; [reflexivity|apply same_core_refl]|].
    destruct (mem mk (st_sta st)); [eexists; split; [reflexivity|apply same_core_refl]|].
    unfold verify_sortition. rewrite HT. cbn. eexists; split; [reflexivity|]. split; reflexivity.
  - destruct (check_member V && negb (is_member val)); [eexists; split; [reflexivity|apply same_core_refl]|].
    destruct (mem mk (st_sta st)); [eexists; split; [reflexivity|apply same_core_refl]|].
    unfold verify_sortition. destruct (lb_total (c_lb c) =? 0); [|rewrite HCr, HP];
      (eexists; split; [reflexivity|]; split; reflexivity).
  - destruct (check_member V && negb (is_member val)); [eexists; split; [reflexivity|apply same_core_refl]|].
    destruct (mem mk (st_sta st)); [eexists; split; [reflexivity|apply same_core_refl]|].
    unfold verify_sortition. destruct (lb_total (c_lb c) =? 0); [|rewrite HCr, HP, HS];
      [eexists; split; [reflexivity|]; split; reflexivity|].
    replace (j <=? 0)%Z with true by lia. eexists; split; [reflexivity|]; split; reflexivity.
  - destruct (check_member V && negb (is_member val)); [eexists; split; [reflexivity|apply same_core_refl]|].
    destruct (mem mk (st_sta st)); [eexists; split; [reflexivity|apply same_core_refl]|].
    unfold verify_sortition. destruct (lb_total (c_lb c) =? 0); [|rewrite HCr, HP, HS];
      [eexists; split; [reflexivity|]; split; reflexivity|].
    destruct (j <=? 0)%Z; [eexists; split; [reflexivity|]; split; reflexivity|].
    replace (u32_of_Z j =? vt_votes v) with false by lia. cbn.
    eexists; split; [reflexivity|]; split; reflexivity.
Qed.

(* a voter index outside the set, or a member whose keys do not decode, makes the
   verifier reject the whole header *)
Lemma bad_index_rejects : forall st v, recover_signer (c_lb c) v = None -> vote_step O V c step st v = inr ERecover.
Proof. intros st v H. unfold vote_step. rewrite H. reflexivity. Qed.

Lemma step_core : forall a b v, same_core a b -> core_eq (vote_step O V c step a v) (vote_step O V c step b v).
Proof.
  intros a b v [H1 H2]. unfold vote_step.
  destruct (recover_signer (c_lb c) v) as [[[val bk] mk]|]; [|reflexivity].
  destruct (check_member V && negb (is_member val)); [split; assumption|].
  rewrite H1. destruct (mem mk (st_sta b)); [split; assumption|].
  destruct (verify_sortition O mk (c_seed c) (c_index c) step (vt_proof v) (vt_votes v) (c_thr c)
                             (v_stake val) (lb_total (c_lb c))) as [[|]|]; cbn; try reflexivity.
  - split; cbn; congruence.
  - split; cbn; congruence.
Qed.

Lemma loop_core : forall l a b, same_core a b -> core_eq (vote_loop O V c step a l) (vote_loop O V c step b l).
Proof.
  induction l as [|v r IH]; intros a b H; cbn [vote_loop]; [exact H|].
  pose proof (step_core a b v H) as HS.
  destruct (vote_step O V c step a v) as [a'|ea], (vote_step O V c step b v) as [b'|eb]; cbn in HS; try contradiction.
  - apply IH. exact HS.
  - exact HS.
Qed.

Lemma loop_app : forall l1 l2 st,
  vote_loop O V c step st (l1 ++ l2) =
  match vote_loop O V c step st l1 with inl s => vote_loop O V c step s l2 | inr e => inr e end.
Proof.
  induction l1 as [|v r IH]; intros l2 st; cbn [app vote_loop]; [reflexivity|].
  destruct (vote_step O V c step st v); [apply IH|reflexivity].
Qed.

(* removing a junk vote from anywhere in the list changes neither the set of
   counted validators nor the count (nor whether the loop stops with an error) *)
Theorem junk_removable : forall l1 v l2 st0 st,
  vote_loop O V c step st0 l1 = inl st -> junk st v ->
  core_eq (vote_loop O V c step st0 (l1 ++ v :: l2)) (vote_loop O V c step st0 (l1 ++ l2)).
Proof.
  intros l1 v l2 st0 st HL HJ. rewrite !loop_app, HL. cbn [vote_loop].
  apply junk_contributes_nothing in HJ as (st' & HS & HC). rewrite HS.
  apply loop_core. destruct HC; split; congruence.
Qed.

(* ---- malformed proofs: crash or reject, never counted ------------------------------ *)

(* a vote whose proof makes ProofToHash panic, reached by the loop (the voter resolves, is
   not skipped as a non-member or duplicate, the committee statistic is not empty),
   stops the verifier with a panic *)
Lemma crashing_vote_step : forall st v val bk mk,
  recover_signer (c_lb c) v = Some (val, bk, mk) ->
  check_member V && negb (is_member val) = false -> mem mk (st_sta st) = false ->
  lb_total (c_lb c) <> 0 -> o_vrf_crash O (vt_proof v) = true ->
  vote_step O V c step st v = inr EPanic.
Proof.
  intros st v val bk mk HR HM HS HT HC. unfold vote_step. rewrite HR, HM, HS.
  unfold verify_sortition. replace (lb_total (c_lb c) =? 0) with false by lia. rewrite HC. reflexivity.
Qed.

Lemma loop_stop : forall l1 v l2 st0 st e,
  vote_loop O V c step st0 l1 = inl st -> vote_step O V c step st v = inr e ->
  vote_loop O V c step st0 (l1 ++ v :: l2) = inr e.
Proof. intros. rewrite loop_app, H. cbn [vote_loop]. rewrite H0. reflexivity. Qed.

(* ... so the vote list is not accepted: the outcome is the crash *)
Theorem crashing_vote_not_accepted : forall l1 v l2 st sig isPos,
  cp_bls (c_cp c) = true ->
  vote_loop O V c step vs0 l1 = inl st -> vote_step O V c step st v = inr EPanic ->
  verify_votes O V c (l1 ++ v :: l2) (Some sig) step isPos = EPanic.
Proof.
  intros l1 v l2 st sig isPos HB HL HS. unfold verify_votes. rewrite HB. cbn [negb].
  rewrite (loop_stop l1 v l2 vs0 st EPanic HL HS). reflexivity.
Qed.

End Junk.

Section Crash.
Variable O : oracles.

(* a header whose proposer credential makes ProofToHash panic is never accepted (whatever
   the variant): the outcome is a reject of an earlier check or the crash *)
Theorem malformed_credential_not_accepted : forall V cp vers seedH lb certH certlb h cd,
  h_cons h = Some cd -> o_vrf_crash O (cd_proof cd) = true ->
  verify_main O V cp vers seedH lb certH certlb h <> Accept.
Proof.
  intros V cp vers seedH lb certH certlb h cd HC HP H. unfold verify_main in H. rewrite HC in H.
  destruct (h_cons seedH) as [seedCon|]; [|discriminate].
  destruct (need_seat V && (cd_sub cd =? 0)); [discriminate|].
  destruct (cd_signer cd) as [pk|]; [|discriminate].
  destruct (find_by_main (lb_vals lb) pk) as [val|]; [|discriminate].
  destruct (check_member V && negb (is_member val)); [discriminate|].
  unfold verify_priority in H. destruct (lb_total lb =? 0); [discriminate|]. rewrite HP in H. discriminate.
Qed.

(* ... and when everything before the credential check passes, the outcome is the crash *)
Theorem malformed_credential_crashes : forall V cp vers seedH lb certH certlb h cd seedCon pk val,
  h_cons seedH = Some seedCon -> h_cons h = Some cd -> need_seat V && (cd_sub cd =? 0) = false ->
  cd_signer cd = Some pk -> find_by_main (lb_vals lb) pk = Some val ->
  check_member V && negb (is_member val) = false -> lb_total lb <> 0 ->
  o_vrf_crash O (cd_proof cd) = true ->
  verify_main O V cp vers seedH lb certH certlb h = EPanic.
Proof.
  intros until val. intros H1 H2 H3 H4 H5 H6 H7 H8. unfold verify_main. rewrite H1, H2, H3, H4, H5, H6.
  unfold verify_priority. replace (lb_total lb =? 0) with false by lia. rewrite H8. reflexivity.
Qed.

(* no counted vote has a crashing proof *)
Theorem counted_votes_do_not_crash : forall V c step votes x,
  In x (counted_from O V c step [] votes) -> o_vrf_crash O (vt_proof (fst x)) = false.
Proof.
  intros V c step votes x Hx. pose proof (counted_facts O V c step votes []) as HF.
  rewrite Forall_forall in HF. destruct (HF x Hx) as [(bk & mk & _ & _ & Hs & _) _].
  apply sortition_ok_inv in Hs as (h & j & _ & _ & _ & _ & Hc). exact Hc.
Qed.

End Crash.

(* ---- composition with C04: one weight per validator ------------------------------------- *)

Section Unique.
Variable O : oracles.
(* uniqueness of the VRF output per (key, message): every proof the verifier accepts for one key
   and one (seed, step, index) yields the same hash.  This is C04's theorem
   C04_vrf_output_unique (coq/C04/Properties.v), proved there for ProofToHash with strict
   decoding under the soundness of the discrete-log-equality check; here it is the hypothesis
   the C01 clause "weight-inflated votes contribute nothing" composes with. *)
Hypothesis vrf_unique : forall pk seed role index p p' h h',
  o_vrf O pk seed role index p = Some h -> o_vrf O pk seed role index p' = Some h' -> h = h'.

Theorem weight_unique : forall mk seed index step p p' sub sub' thr stake total,
  verify_sortition O mk seed index step p sub thr stake total = Some true ->
  verify_sortition O mk seed index step p' sub' thr stake total = Some true ->
  sub = sub'.
Proof.
  intros until total. intros H1 H2.
  apply sortition_ok_inv in H1 as (h & j & Hv & Hs & _ & Hu & _).
  apply sortition_ok_inv in H2 as (h' & j' & Hv' & Hs' & _ & Hu' & _).
  assert (h = h') by (eapply vrf_unique; eauto). subst h'.
  rewrite Hs in Hs'. inversion Hs'; subst j'. congruence.
Qed.

(* the weight counted for a validator is the one weight its key has for (seed, step, index):
   whatever other proof and claimed weight would pass the sortition check for that validator
   claims exactly the counted weight *)
Theorem counted_weight_unique : forall V c step votes x bk mk,
  In x (counted_from O V c step [] votes) ->
  recover_signer (c_lb c) (fst x) = Some (snd x, bk, mk) ->
  forall p' sub',
    verify_sortition O mk (c_seed c) (c_index c) step p' sub' (c_thr c) (v_stake (snd x)) (lb_total (c_lb c)) = Some true ->
    sub' = vt_votes (fst x).
Proof.
  intros V c step votes x bk mk Hx HR p' sub' H'.
  pose proof (counted_facts O V c step votes []) as HF. rewrite Forall_forall in HF.
  destruct (HF x Hx) as [(bk0 & mk0 & HR0 & _ & Hs & _) _].
  rewrite HR in HR0. inversion HR0; subst bk0 mk0.
  unfold sortition_ok in Hs. eapply weight_unique; eauto.
Qed.

End Unique.

(* ---- whole header ------------------------------------------------------------ *)

Section Main.
Variable O : oracles.
Variable signed : blskey -> payload -> Prop.
Hypothesis bls_sound : forall pubs pl s, o_bls O pubs pl s = Some true -> forall k, In k pubs -> signed k pl.
(* choose never returns a negative number (a fact about sortition.go's choose, C04) *)
Hypothesis seats_nonneg : forall h st t tot j, o_seats O h st t tot = Some j -> (0 <= j)%Z.
(* ECDSA: a signature that recovers to key k over hash hh was made by k over hh *)
Variable sealed : key -> N -> Prop.
Hypothesis ecdsa_sound : forall hh s k, o_recover O hh s = Some k -> sealed k hh.

(* the header signature recovers, over the header's hash, to the very key that
   signed the consensus data - the key the proposer credential is checked
   against (proposer_ok) - hence that key sealed this header *)
Definition seal_ok (h : header) : Prop :=
  exists cd pk, h_cons h = Some cd /\ cd_signer cd = Some pk /\
                o_recover O (h_hash h) (h_sig h) = Some pk /\ sealed pk (h_hash h).

Lemma signature_inv : forall h, verify_signature O h = Accept -> seal_ok h.
Proof.
  intros h H. unfold verify_signature in H.
  destruct (h_cons h) as [cd|] eqn:E1; [|discriminate].
  destruct (cd_signer cd) as [pk|] eqn:E2; [|discriminate].
  destruct (o_recover O (h_hash h) (h_sig h)) as [k|] eqn:E3; [|discriminate].
  destruct (k =? pk) eqn:E4; [|discriminate]. apply N.eqb_eq in E4. subst k.
  exists cd, pk. repeat split; auto. eapply ecdsa_sound; eauto.
Qed.

(* the proposer credential verifies under threshold [pt] *)
Definition proposer_ok (lb : lookback) (seed : N) (cd : consdata) (pt : N) : Prop :=
  exists pk val h j,
    cd_signer cd = Some pk /\ find_by_main (lb_vals lb) pk = Some val /\ is_member val = true /\
    o_vrf O pk seed step_proposal (cd_index cd) (cd_proof cd) = Some h /\
    o_seats O h (v_stake val) pt (lb_total lb) = Some j /\ (0 < j)%Z /\
    u32_of_Z j = cd_sub cd /\ o_prio O h j = cd_prio cd.

(* C01 for one header: thresholds are the protocol's ([cp] for the round, the
   version recorded on the certificate look-back header for certificates) *)
Definition C01_statement (cp : cparams) (vers : list (N * cparams))
           (seedH : header) (lb : lookback) (certH : header) (certlb : lookback) (h : header) : Prop :=
  exists seedCon cd uv,
    h_cons seedH = Some seedCon /\ h_cons h = Some cd /\ h_val h = Some uv /\
    proposer_ok lb (cd_seed seedCon) cd (cp_pt cp) /\
    (exists L, quorum_cert O signed lb (cd_seed seedCon) (uv_index uv) step_precommit (cp_vt cp) true
                           (h_hash h, cd_round cd, uv_index uv) (uv_commit uv) L /\ all_members L) /\
    (is_cert_round (h_number h) = true ->
     exists certCon ycp uc L,
       h_cons certH = Some certCon /\ lookup_ver vers (h_version certH) = Some ycp /\ h_cert h = Some uc /\
       quorum_cert O signed certlb (cd_seed certCon) (uv_index uv) step_certificate (cp_cvt ycp) false
                   (h_hash h, cd_round cd, uv_index uv) (uv_certs uc) L /\ all_members L).

(* what acceptance establishes for any variant: thresholds, membership and the
   seat requirement as that variant has them *)
Definition gstatement (V : variant) (cp : cparams) (vers : list (N * cparams))
           (seedH : header) (lb : lookback) (certH : header) (certlb : lookback) (h : header) : Prop :=
  exists seedCon cd uv,
    h_cons seedH = Some seedCon /\ h_cons h = Some cd /\ h_val h = Some uv /\
    (need_seat V = true -> cd_sub cd <> 0) /\
    (exists pk val hh j,
        cd_signer cd = Some pk /\ find_by_main (lb_vals lb) pk = Some val /\
        (check_member V = true -> is_member val = true) /\
        o_vrf O pk (cd_seed seedCon) step_proposal (cd_index cd) (cd_proof cd) = Some hh /\
        o_seats O hh (v_stake val) (if thr_from_params V then cp_pt cp else cd_pt cd) (lb_total lb) = Some j /\
        u32_of_Z j = cd_sub cd /\ o_prio O hh j = cd_prio cd) /\
    let vt := if thr_from_params V then cp_vt cp else cd_vt cd in
    let c1 := mkCommon cp lb (h_hash h) (cd_seed seedCon) (cd_round cd) (uv_index uv) vt in
    let L1 := counted_from O V c1 step_precommit [] (uv_commit uv) in
    quorum_cert O signed lb (cd_seed seedCon) (uv_index uv) step_precommit vt true
                (h_hash h, cd_round cd, uv_index uv) (uv_commit uv) L1 /\
    (check_member V = true -> all_members L1) /\
    (is_cert_round (h_number h) = true ->
     exists certCon ycp uc,
       h_cons certH = Some certCon /\ lookup_ver vers (h_version certH) = Some ycp /\ h_cert h = Some uc /\
       let cvt := if thr_from_params V then cp_cvt ycp else cd_cvt certCon in
       let c2 := mkCommon ycp certlb (h_hash h) (cd_seed certCon) (cd_round cd) (uv_index uv) cvt in
       let L2 := counted_from O V c2 step_certificate [] (uv_certs uc) in
       quorum_cert O signed certlb (cd_seed certCon) (uv_index uv) step_certificate cvt false
                   (h_hash h, cd_round cd, uv_index uv) (uv_certs uc) L2 /\
       (check_member V = true -> all_members L2)).

Lemma priority_inv : forall pk seed index proof prio sub thr stake total,
  verify_priority O pk seed index proof prio sub thr stake total = Some true ->
  exists h j, o_vrf O pk seed step_proposal index proof = Some h /\ o_seats O h stake thr total = Some j /\
              u32_of_Z j = sub /\ o_prio O h j = prio.
Proof.
  intros until total. unfold verify_priority.
  destruct (total =? 0); [discriminate|].
  destruct (o_vrf_crash O proof) eqn:ECr; [discriminate|].
  destruct (o_vrf O pk seed step_proposal index proof) as [h|] eqn:EH; [|discriminate].
  destruct (o_seats O h stake thr total) as [j|] eqn:ES; [|discriminate].
  destruct (u32_of_Z j =? sub) eqn:EU; cbn; [|discriminate].
  intros HP. inversion HP as [HP']. exists h, j. repeat split; auto; apply N.eqb_eq; assumption.
Qed.

Theorem main_accept : forall V cp vers seedH lb certH certlb h,
  verify_main O V cp vers seedH lb certH certlb h = Accept ->
  gstatement V cp vers seedH lb certH certlb h.
Proof.
  intros V cp vers seedH lb certH certlb h H. unfold verify_main in H.
  destruct (h_cons seedH) as [seedCon|] eqn:E1; [|discriminate].
  destruct (h_cons h) as [cd|] eqn:E2; [|discriminate].
  destruct (need_seat V && (cd_sub cd =? 0)) eqn:ESeat; [discriminate|].
  destruct (cd_signer cd) as [pk|] eqn:E3; [|discriminate].
  destruct (find_by_main (lb_vals lb) pk) as [val|] eqn:E4; [|discriminate].
  destruct (check_member V && negb (is_member val)) eqn:EM; [discriminate|].
  destruct (verify_priority O pk (cd_seed seedCon) (cd_index cd) (cd_proof cd) (cd_prio cd) (cd_sub cd)
                            (if thr_from_params V then cp_pt cp else cd_pt cd) (v_stake val) (lb_total lb))
    as [[|]|] eqn:EP; [|discriminate|discriminate].
  destruct (h_val h) as [uv|] eqn:E5; [|discriminate].
  set (vt := if thr_from_params V then cp_vt cp else cd_vt cd) in *.
  set (c1 := mkCommon cp lb (h_hash h) (cd_seed seedCon) (cd_round cd) (uv_index uv) vt) in *.
  destruct (verify_votes O V c1 (uv_commit uv) (uv_sc uv) step_precommit true) eqn:EV; try discriminate.
  apply (votes_accept O signed bls_sound) in EV as [HQ1 HM1]. cbn [c1 c_lb c_seed c_index c_thr c_hash c_round] in HQ1.
  apply priority_inv in EP as (hh & j & Hv & Hs & Hu & Hp).
  exists seedCon, cd, uv.
  split; [exact E1|]. split; [exact E2|]. split; [exact E5|].
  split. { intros HN. rewrite HN in ESeat. cbn in ESeat. lia. }
  split.
  { exists pk, val, hh, j. split; [exact E3|]. split; [exact E4|]. split; [|auto].
    intros HC. rewrite HC in EM. cbn in EM. destruct (is_member val); [reflexivity|discriminate]. }
  cbv zeta. split; [exact HQ1|]. split; [exact HM1|].
  intros HC.
  destruct (is_cert_round (h_number h)); [|discriminate].
  destruct (h_cons certH) as [certCon|] eqn:E6; [|discriminate].
  destruct (lookup_ver vers (h_version certH)) as [ycp|] eqn:E7; [|discriminate].
  destruct (h_cert h) as [uc|] eqn:E8; [|discriminate].
  exists certCon, ycp, uc.
  split; [reflexivity|]. split; [reflexivity|]. split; [reflexivity|].
  apply (votes_accept O signed bls_sound) in H as [HQ2 HM2]. split; [exact HQ2|exact HM2].
Qed.

Lemma u32_nonzero_pos : forall j, (0 <= j)%Z -> u32_of_Z j <> 0 -> (0 < j)%Z.
Proof.
  intros j Hj Hu. destruct (Z.eq_dec j 0) as [->|Hn]; [|lia].
  exfalso. apply Hu. reflexivity.
Qed.

Lemma gstatement_fixed : forall cp vers seedH lb certH certlb h,
  gstatement fixed cp vers seedH lb certH certlb h -> C01_statement cp vers seedH lb certH certlb h.
Proof.
  intros cp vers seedH lb certH certlb h (seedCon & cd & uv & H1 & H2 & H3 & HS & HP & HQ & HM & HC).
  cbn [fixed thr_from_params check_member need_seat] in *.
  exists seedCon, cd, uv.
  split; [exact H1|]. split; [exact H2|]. split; [exact H3|].
  split.
  { destruct HP as (pk & val & hh & j & P1 & P2 & P3 & P4 & P5 & P6 & P7).
    exists pk, val, hh, j. split; [exact P1|]. split; [exact P2|]. split; [auto|]. split; [exact P4|].
    split; [exact P5|]. split; [|auto].
    apply u32_nonzero_pos; [eapply seats_nonneg; eauto|]. rewrite P6. auto. }
  split. { eexists. split; [exact HQ|]. auto. }
  intros HR. destruct (HC HR) as (certCon & ycp & uc & C1 & C2 & C3 & C4 & C5).
  exists certCon, ycp, uc. eexists.
  split; [exact C1|]. split; [exact C2|]. split; [exact C3|]. split; [exact C4|]. auto.
Qed.

(* the repaired verifier *)
Theorem fixed_accept : forall cp vers seedH lb certH certlb h,
  verify_main O fixed cp vers seedH lb certH certlb h = Accept ->
  C01_statement cp vers seedH lb certH certlb h.
Proof. intros. apply gstatement_fixed, main_accept. assumption. Qed.

Lemma non_member_counted_false : forall c step votes,
  non_member_counted O c step votes = false -> all_members (counted_from O asis c step [] votes).
Proof.
  intros c step votes H. unfold non_member_counted in H. unfold all_members. rewrite Forall_forall.
  intros x Hx. destruct (is_member (snd x)) eqn:E; [reflexivity|].
  exfalso. assert (HE : existsb (fun x => negb (is_member (snd x))) (counted_from O asis c step [] votes) = true).
  { apply existsb_exists. exists x. split; [exact Hx|]. rewrite E. reflexivity. }
  congruence.
Qed.

(* the unrepaired verifier, outside the listed finding classes *)
Theorem asis_accept_outside : forall cp vers seedH lb certH certlb h,
  verify_main O asis cp vers seedH lb certH certlb h = Accept ->
  finding_class O cp vers seedH lb certH certlb h = false ->
  C01_statement cp vers seedH lb certH certlb h /\ seal_ok h.
Proof.
  intros cp vers seedH lb certH certlb h HA HF.
  apply main_accept in HA as (seedCon & cd & uv & H1 & H2 & H3 & _ & HP & HQ & _ & HC).
  cbn [asis thr_from_params check_member need_seat] in *.
  unfold finding_class in HF. rewrite H1, H2, H3 in HF.
  destruct HP as (pk & val & hh & j & P1 & P2 & _ & P4 & P5 & P6 & P7). rewrite P1, P2 in HF.
  repeat (apply Bool.orb_false_iff in HF; destruct HF as [HF ?]).
  assert (Ept : cd_pt cd = cp_pt cp) by lia.
  assert (Evt : cd_vt cd = cp_vt cp) by lia.
  assert (Esub : cd_sub cd <> 0) by lia.
  assert (Emem : is_member val = true) by (destruct (is_member val); [reflexivity|discriminate]).
  assert (Eseal : o_recover O (h_hash h) (h_sig h) = Some pk).
  { match goal with Hx : negb (match o_recover O (h_hash h) (h_sig h) with _ => _ end) = false |- _ =>
      destruct (o_recover O (h_hash h) (h_sig h)) as [b|]; [|discriminate Hx];
      apply Bool.negb_false_iff, N.eqb_eq in Hx; subst; reflexivity end. }
  split; [|exists cd, pk; repeat split; auto; eapply ecdsa_sound; eauto].
  exists seedCon, cd, uv.
  split; [exact H1|]. split; [exact H2|]. split; [exact H3|].
  split.
  { exists pk, val, hh, j. rewrite <- Ept. split; [exact P1|]. split; [exact P2|]. split; [exact Emem|].
    split; [exact P4|]. split; [exact P5|]. split; [|auto].
    apply u32_nonzero_pos; [eapply seats_nonneg; eauto|]. rewrite P6. exact Esub. }
  split. { eexists. rewrite <- Evt. split; [exact HQ|]. apply non_member_counted_false. assumption. }
  intros HR. destruct (HC HR) as (certCon & ycp & uc & C1 & C2 & C3 & C4 & _).
  match goal with Hx : (is_cert_round _ && _) = false |- _ => rewrite HR, C1, C2, C3 in Hx; cbn [andb] in Hx;
    apply Bool.orb_false_iff in Hx; destruct Hx as [Hx1 Hx2] end.
  assert (Ecvt : cd_cvt certCon = cp_cvt ycp) by lia.
  exists certCon, ycp, uc. eexists. rewrite <- Ecvt.
  split; [exact C1|]. split; [exact C2|]. split; [exact C3|]. split; [exact C4|].
  apply non_member_counted_false. assumption.
Qed.

(* the exported wrapper *)
Theorem side_accept : forall V cp vers seedH lb certH certlb h parent,
  verify_side O V cp vers seedH lb certH certlb h parent = Accept ->
  exists p, parent = Some p /\ h_number h = h_number p + 1 /\ h_parent h = h_hash p /\
            verify_main O V cp vers seedH lb certH certlb h = Accept /\
            (check_seal V = true -> seal_ok h).
Proof.
  intros until parent. unfold verify_side. destruct parent as [p|]; [|discriminate].
  destruct ((h_number h =? h_number p + 1) && (h_parent h =? h_hash p)) eqn:E; cbn [negb]; [|discriminate].
  intros H. exists p. split; [reflexivity|]. split; [lia|]. split; [lia|].
  destruct (check_seal V).
  - destruct (verify_signature O h) eqn:ES; try discriminate.
    split; [exact H|]. intros _. apply signature_inv. exact ES.
  - split; [exact H|]. discriminate.
Qed.

End Main.
