(* C01 - the ordinary header path (verifyHeader ... verifyConsensusField) and the
   certificate-only path (VerifyAcHeader): acceptance implies C01_statement for
   exactly the look-back objects the selection functions name, and those
   objects sit at the numbers the protocol says. *)
From VF.C01 Require Import Model ModelH Proofs ProofsB ProofsC.
From Coq Require Import Lia ZifyBool ZifyN ZifyNat.
Local Open Scope N_scope.

Section Header.
Variable O : oracles.
Variable signed : blskey -> payload -> Prop.
Hypothesis bls_sound : forall pubs pl s, o_bls O pubs pl s = Some true -> forall k, In k pubs -> signed k pl.
Hypothesis seats_nonneg : forall h st t tot j, o_seats O h st t tot = Some j -> (0 <= j)%Z.
Variable sealed : key -> N -> Prop.
Hypothesis ecdsa_sound : forall hh s k, o_recover O hh s = Some k -> sealed k hh.

(* which protocol parameters, seed header and validator sets the ordinary path
   consults for header h: the version recorded on the header that
   VersionForRoundWithParents finds for round n (canonical chain first, then
   the batch prefix), the seed header / stake header / certificate look-backs
   that getLookBackHeader finds (batch prefix first when the look-back lies
   inside it, else canonical chain), and the readers of their validator roots *)
Definition selection (yts : list (N * yparams)) (c : chain) (parents : list xheader) (h : header)
           (yp : yparams) (seedH : header) (lb : lookback) (certH : header) (certlb : lookback) : Prop :=
  let n := h_number h in
  (exists vh, version_header c parents n = inl (Some vh) /\ lookup_yp yts (h_version (x_h vh)) = Some yp) /\
  (exists seedX, get_lb c parents n (lb_number n (yp_seed_lb yp)) = Some seedX /\ x_h seedX = seedH) /\
  (exists stakeX, get_lb c parents n (lb_number n (yp_stake_lb yp)) = Some stakeX /\
                  lookup_reader (ch_readers c) (x_valroot stakeX) = Some lb) /\
  (is_cert_round n = true ->
   (exists certX, get_lb c parents n (lb_number n cht_frequency) = Some certX /\ x_h certX = certH) /\
   (exists cstakeX, get_lb c parents n (lb_number n (2 * cht_frequency)) = Some cstakeX /\
                    lookup_reader (ch_readers c) (x_valroot cstakeX) = Some certlb)).

(* the frame checks of verifyHeader / verifyCascadingFields *)
Definition frame_ok (now : N) (c : chain) (parents : list xheader) (yp : yparams) (xh : xheader) : Prop :=
  x_time xh <= now + yp_future yp /\ x_mix xh = true /\
  exists p, (match parents with [] => get_header c (h_parent (x_h xh)) (h_number (x_h xh) - 1) | _ => last_x parents end) = Some p /\
            h_number (x_h p) = h_number (x_h xh) - 1 /\ h_hash (x_h p) = h_parent (x_h xh) /\ x_time p < x_time xh /\
            (forall loc, by_number c (h_number (x_h xh)) = Some loc -> h_hash (x_h loc) = h_hash (x_h xh)).

Lemma consensus_field_accept : forall yts c parents yp h,
  verify_consensus_field O fixed yts c parents yp h = HV Accept ->
  exists seedH lb certH certlb,
    (let n := h_number h in
     (exists seedX, get_lb c parents n (lb_number n (yp_seed_lb yp)) = Some seedX /\ x_h seedX = seedH) /\
     (exists stakeX, get_lb c parents n (lb_number n (yp_stake_lb yp)) = Some stakeX /\
                     lookup_reader (ch_readers c) (x_valroot stakeX) = Some lb) /\
     (is_cert_round n = true ->
      (exists certX, get_lb c parents n (lb_number n cht_frequency) = Some certX /\ x_h certX = certH) /\
      (exists cstakeX, get_lb c parents n (lb_number n (2 * cht_frequency)) = Some cstakeX /\
                       lookup_reader (ch_readers c) (x_valroot cstakeX) = Some certlb))) /\
    verify_main O fixed (yp_cp yp) (cp_table yts) seedH lb certH certlb h = Accept.
Proof.
  intros yts c parents yp h H. unfold verify_consensus_field in H. cbv zeta in H.
  destruct (get_lb c parents (h_number h) (lb_number (h_number h) (yp_seed_lb yp))) as [seedX|] eqn:E1; [|discriminate].
  destruct (get_lb c parents (h_number h) (lb_number (h_number h) (yp_stake_lb yp))) as [stakeX|] eqn:E2; [|discriminate].
  destruct (lookup_reader (ch_readers c) (x_valroot stakeX)) as [lb|] eqn:E3; [|discriminate].
  destruct (is_cert_round (h_number h)) eqn:EC.
  - destruct (get_lb c parents (h_number h) (lb_number (h_number h) cht_frequency)) as [certX|] eqn:E4; [|discriminate].
    destruct (get_lb c parents (h_number h) (lb_number (h_number h) (2 * cht_frequency))) as [cstakeX|] eqn:E5; [|discriminate].
    destruct (lookup_reader (ch_readers c) (x_valroot cstakeX)) as [certlb|] eqn:E6; [|discriminate].
    exists (x_h seedX), lb, (x_h certX), certlb. split; [|congruence].
    cbv zeta. split; [exists seedX; auto|]. split; [exists stakeX; auto|].
    intros _. split; [exists certX; auto|exists cstakeX; auto].
  - exists (x_h seedX), lb, no_header, no_lb. split; [|congruence].
    cbv zeta. split; [exists seedX; auto|]. split; [exists stakeX; auto|]. intros HR. rewrite EC in HR. discriminate.
Qed.

(* acceptance through verifyHeader with the seal flag on, for a non-genesis header *)
Theorem header_accept : forall now yts c parents xh,
  verify_header O fixed now yts c parents xh true = HV Accept -> 0 < h_number (x_h xh) ->
  exists yp seedH lb certH certlb,
    selection yts c parents (x_h xh) yp seedH lb certH certlb /\
    frame_ok now c parents yp xh /\
    C01_statement O signed (yp_cp yp) (cp_table yts) seedH lb certH certlb (x_h xh) /\
    seal_ok O sealed (x_h xh).
Proof.
  intros now yts c parents xh H Hn. unfold verify_header in H.
  destruct (version_header c parents (h_number (x_h xh))) as [[vh|]|] eqn:EV; [| discriminate | discriminate].
  destruct (lookup_yp yts (h_version (x_h vh))) as [yp|] eqn:EY; [|discriminate].
  destruct (now + yp_future yp <? x_time xh) eqn:ET; [discriminate|].
  destruct (negb (x_mix xh)) eqn:EM; [discriminate|].
  destruct (verify_signature O (x_h xh)) eqn:ES; try (inversion H; discriminate).
  apply (signature_inv O sealed ecdsa_sound) in ES.
  unfold verify_cascading in H. cbv zeta in H.
  destruct (h_number (x_h xh) =? 0) eqn:E0; [lia|].
  set (par := match parents with [] => get_header c (h_parent (x_h xh)) (h_number (x_h xh) - 1) | _ => last_x parents end) in *.
  destruct par as [p|] eqn:EP; [|discriminate].
  destruct (negb ((h_number (x_h p) =? h_number (x_h xh) - 1) && (h_hash (x_h p) =? h_parent (x_h xh)))) eqn:EL; [discriminate|].
  destruct (x_time xh <=? x_time p) eqn:EO; [discriminate|].
  assert (HCF : verify_consensus_field O fixed yts c parents yp (x_h xh) = HV Accept /\
                (forall loc, by_number c (h_number (x_h xh)) = Some loc -> h_hash (x_h loc) = h_hash (x_h xh))).
  { destruct (by_number c (h_number (x_h xh))) as [loc|] eqn:EB.
    - destruct (negb (h_hash (x_h loc) =? h_hash (x_h xh))) eqn:EH; [discriminate|].
      split; [exact H|]. intros l Hl. inversion Hl; subst. lia.
    - split; [exact H|]. discriminate. }
  destruct HCF as [HCF HLoc].
  apply consensus_field_accept in HCF as (seedH & lb & certH & certlb & HSel & HMain).
  exists yp, seedH, lb, certH, certlb.
  split. { unfold selection. cbv zeta in *. split; [exists vh; auto|]. exact HSel. }
  split. { unfold frame_ok. split; [lia|]. split; [destruct (x_mix xh); [reflexivity|discriminate]|].
           exists p. fold par. rewrite EP. repeat split; auto; lia. }
  split; [|exact ES].
  eapply fixed_accept; eauto.
Qed.

End Header.

(* ---- the selected headers sit at the protocol's look-back numbers ------------------- *)

(* the batch prefix VerifyHeaders passes: consecutive numbers ending right below n *)
Definition parents_consecutive (parents : list xheader) (n : N) : Prop :=
  forall i x, nth_error parents i = Some x ->
              h_number (x_h x) + N.of_nat (length parents) = n + N.of_nat i.

Lemma find_x_spec : forall f l x, find_x f l = Some x -> f x = true.
Proof.
  induction l as [|y r IH]; intros x H; cbn in H; [discriminate|].
  destruct (f y) eqn:E; [inversion H; subst; exact E|apply IH; exact H].
Qed.

Lemma by_number_num : forall c k x, by_number c k = Some x -> h_number (x_h x) = k.
Proof. intros c k x H. apply find_x_spec in H. lia. Qed.

Lemma get_lb_number : forall c parents n L x,
  parents_consecutive parents n -> L <= n ->
  get_lb c parents n L = Some x -> h_number (x_h x) = L.
Proof.
  intros c parents n L x HP HL H. unfold get_lb in H.
  destruct (n - L <=? N.of_nat (length parents)) eqn:E.
  - apply HP in H. lia.
  - eapply by_number_num; eauto.
Qed.

Lemma version_header_number : forall c parents n x,
  parents_consecutive parents n ->
  version_header c parents n = inl (Some x) ->
  h_number (x_h x) = lb_number n protocol_round_back.
Proof.
  intros c parents n x HP H. unfold version_header in H. unfold lb_number.
  set (pr := if protocol_round_back <? n then n - protocol_round_back else 0) in *.
  destruct (by_number c pr) as [y|] eqn:EB.
  - inversion H; subst. eapply by_number_num; eauto.
  - destruct parents as [|p0 r]; [discriminate|].
    destruct (h_number (x_h p0) <=? pr) eqn:EF; [|discriminate].
    destruct (nth_error (p0 :: r) (N.to_nat (pr - h_number (x_h p0)))) as [y|] eqn:EN; [|discriminate].
    inversion H; subst y.
    pose proof (HP 0%nat p0 eq_refl) as H0. apply HP in EN. cbn [length] in *. lia.
Qed.

Lemma lb_number_le : forall n cfg, lb_number n cfg <= n.
Proof. intros. unfold lb_number. destruct (cfg <? n) eqn:E; lia. Qed.

(* with a well-formed batch prefix, the objects named by [selection] are: the
   version recorded on header n-8, the header n-SeedLookBack, the validator
   root of header n-StakeLookBack, and in certificate rounds header n-F and the
   validator root of header n-2F (each clamped at 0), F = ACoCHTFrequency *)
Theorem selection_numbers : forall yts c parents h yp seedH lb certH certlb,
  parents_consecutive parents (h_number h) ->
  selection yts c parents h yp seedH lb certH certlb ->
  let n := h_number h in
  (exists vh, version_header c parents n = inl (Some vh) /\ h_number (x_h vh) = lb_number n protocol_round_back /\
              lookup_yp yts (h_version (x_h vh)) = Some yp) /\
  h_number seedH = lb_number n (yp_seed_lb yp) /\
  (exists stakeX, h_number (x_h stakeX) = lb_number n (yp_stake_lb yp) /\
                  lookup_reader (ch_readers c) (x_valroot stakeX) = Some lb) /\
  (is_cert_round n = true ->
   h_number certH = lb_number n cht_frequency /\
   exists cstakeX, h_number (x_h cstakeX) = lb_number n (2 * cht_frequency) /\
                   lookup_reader (ch_readers c) (x_valroot cstakeX) = Some certlb).
Proof.
  intros yts c parents h yp seedH lb certH certlb HP (HV & HS & HK & HC). cbv zeta.
  split.
  { destruct HV as (vh & H1 & H2). exists vh. split; [exact H1|]. split; [|exact H2].
    eapply version_header_number; eauto. }
  split.
  { destruct HS as (seedX & H1 & H2). subst seedH. eapply get_lb_number; eauto using lb_number_le. }
  split.
  { destruct HK as (stakeX & H1 & H2). exists stakeX. split; [|exact H2]. eapply get_lb_number; eauto using lb_number_le. }
  intros HR. destruct (HC HR) as ((certX & C1 & C2) & (cstakeX & C3 & C4)). split.
  - subst certH. eapply get_lb_number; eauto using lb_number_le.
  - exists cstakeX. split; [|exact C4]. eapply get_lb_number; eauto using lb_number_le.
Qed.

(* ---- VerifyAcHeader ------------------------------------------------------------------ *)

Section Ac.
Variable O : oracles.
Variable signed : blskey -> payload -> Prop.
Hypothesis bls_sound : forall pubs pl s, o_bls O pubs pl s = Some true -> forall k, In k pubs -> signed k pl.


Theorem ac_accept : forall V yts c trusted xh,
  verify_ac O V yts c trusted xh = HV Accept ->
  let h := x_h xh in
  let n := h_number h in
  exists uc cd seedX stakeX yp seedCon lb,
    x_cht xh = true /\ n mod cht_frequency = 0 /\
    h_cert h = Some uc /\ h_cons h = Some cd /\
    (* the seed header: canonical header n-F, else the first trusted header with that number *)
    (match by_number c (lb_number n cht_frequency) with Some x => Some x
     | None => find_trusted trusted (lb_number n cht_frequency) end) = Some seedX /\
    h_number (x_h seedX) = lb_number n cht_frequency /\
    (match by_number c (lb_number n (2 * cht_frequency)) with Some x => Some x
     | None => find_trusted trusted (lb_number n (2 * cht_frequency)) end) = Some stakeX /\
    h_number (x_h stakeX) = lb_number n (2 * cht_frequency) /\
    lookup_yp yts (h_version (x_h seedX)) = Some yp /\ h_cons (x_h seedX) = Some seedCon /\
    lookup_reader (ch_readers c) (x_valroot stakeX) = Some lb /\
    let cm := mkCommon (yp_cp yp) lb (h_hash h) (cd_seed seedCon) (cd_round cd) (uv_index uc) (cp_cvt (yp_cp yp)) in
    let L := counted_from O V cm step_certificate [] (uv_certs uc) in
    quorum_cert O signed lb (cd_seed seedCon) (uv_index uc) step_certificate (cp_cvt (yp_cp yp)) false
                (h_hash h, cd_round cd, uv_index uc) (uv_certs uc) L /\
    (check_member V = true -> all_members L).
Proof.
  intros V yts c trusted xh H. cbv zeta. unfold verify_ac in H. cbv zeta in H.
  destruct (negb (x_cht xh)) eqn:E0; [discriminate|].
  destruct (negb (h_number (x_h xh) mod cht_frequency =? 0)) eqn:E1; [discriminate|].
  destruct (h_cert (x_h xh)) as [uc|] eqn:E2; [|discriminate].
  destruct (h_cons (x_h xh)) as [cd|] eqn:E3; [|discriminate].
  set (n := h_number (x_h xh)) in *.
  set (seedO := match by_number c (lb_number n cht_frequency) with Some x => Some x
                | None => find_trusted trusted (lb_number n cht_frequency) end) in *.
  set (stakeO := match by_number c (lb_number n (2 * cht_frequency)) with Some x => Some x
                 | None => find_trusted trusted (lb_number n (2 * cht_frequency)) end) in *.
  destruct seedO as [seedX|] eqn:ES; [|discriminate].
  destruct stakeO as [stakeX|] eqn:EK; [|discriminate].
  destruct (lookup_yp yts (h_version (x_h seedX))) as [yp|] eqn:EY; [|discriminate].
  destruct (h_cons (x_h seedX)) as [seedCon|] eqn:EC; [|discriminate].
  destruct (lookup_reader (ch_readers c) (x_valroot stakeX)) as [lb|] eqn:ER; [|discriminate].
  match type of H with context [verify_votes ?o ?v ?cm ?l ?a ?s ?p] => destruct (verify_votes o v cm l a s p) eqn:EVV end;
    try discriminate.
  apply (votes_accept O signed bls_sound) in EVV as [HQ HM].
  assert (NumOf : forall k o x, (match by_number c k with Some y => Some y | None => find_trusted trusted k end) = o ->
                                o = Some x -> h_number (x_h x) = k).
  { intros k o x Ho Hx. subst o. destruct (by_number c k) as [y|] eqn:EB.
    - inversion Hx; subst. eapply by_number_num; eauto.
    - unfold find_trusted in Hx. apply find_x_spec in Hx. lia. }
  exists uc, cd, seedX, stakeX, yp, seedCon, lb.
  split; [destruct (x_cht xh); [reflexivity|discriminate]|].
  split; [lia|]. split; [first [reflexivity | exact E2]|]. split; [first [reflexivity | exact E3]|].
  split; [first [reflexivity | exact ES]|]. split; [eapply (NumOf _ _ _ eq_refl); exact ES|].
  split; [first [reflexivity | exact EK]|]. split; [eapply (NumOf _ _ _ eq_refl); exact EK|].
  split; [first [reflexivity | exact EY]|]. split; [first [reflexivity | exact EC]|]. split; [first [reflexivity | exact ER]|].
  split; [exact HQ|exact HM].
Qed.

End Ac.

(* ---- verification is a function of its input --------------------------------------------- *)

Lemma verdict_independent_of_history : forall pre k post,
  nth_error (history_verdicts (pre ++ k :: post)) (length pre) = Some (tcase_verdict k).
Proof.
  intros pre k post. unfold history_verdicts. rewrite map_app. cbn [map].
  rewrite nth_error_app2 by (rewrite map_length; apply Nat.le_refl).
  rewrite map_length, Nat.sub_diag. reflexivity.
Qed.

(* ---- a concrete chain around the small world of ProofsC (non-vacuity) ------------------ *)

Definition w_yts : list (N * yparams) := [(1, mkYP w_cp 16 8 30)].
Definition w_x92 : xheader := mkXH w_seedH 920 true 500 false.                              (* version + seed look-back *)
Definition w_x84 : xheader := mkXH (mkH 84 6 0 1 None None None 0) 840 true 501 false.      (* stake look-back *)
Definition w_x99 : xheader := mkXH w_parent 990 true 0 false.
Definition w_x0  : xheader := mkXH (mkH 0 7 0 1 None None None 0) 1 true 501 false.
Definition w_chain : chain := mkChain [w_x0; w_x84; w_x92; w_x99] [] [(501, w_lb)].
Definition w_chain_nobatch : chain := w_chain.
Definition w_chain_batch : chain := mkChain [w_x0; w_x84; w_x92] [] [(501, w_lb)].          (* header 99 only in the batch *)
Definition w_target : xheader := mkXH (w_hdr w_cd_ok w_uv_ok) 1000 true 0 false.

Lemma w_header_accept :
  verify_header w_O fixed 2000 w_yts w_chain [] w_target true = HV Accept /\
  verify_header w_O fixed 2000 w_yts w_chain_batch [w_x99] w_target true = HV Accept /\
  parents_consecutive [w_x99] (h_number (x_h w_target)).
Proof.
  split; [vm_compute; reflexivity|]. split; [vm_compute; reflexivity|].
  intros i x H. destruct i as [|[|i]]; cbn in H; inversion H; subst. vm_compute. reflexivity.
Qed.

(* a certificate-round header 65536 carrying certificate votes of validators 0 and 1 *)
Definition w_ac_target : xheader :=
  mkXH (mkH 65536 0 2 1 (Some w_cd_ok) None (Some (mkUV 1 [] None [mkVote 0 4 16; mkVote 1 3 17] (Some 1))) 1) 1000 true 0 true.
Definition w_x32768 : xheader := mkXH (mkH 32768 8 0 1 (Some (mkCD 32768 1 7 0 0 0 None 0 0 10)) None None 0) 500 true 0 false.
Definition w_ac_chain : chain := mkChain [w_x0] [] [(501, w_lb)].

Lemma w_ac_accept : verify_ac w_O fixed w_yts w_ac_chain [w_x32768] w_ac_target = HV Accept.
Proof. vm_compute. reflexivity. Qed.

(* the header under verification (or any header with the same hash) is already canonical
   at its height - stored by an earlier pass that did not look at the votes: the honest
   header is still accepted, the same-hash header carrying only the house member's vote
   is still rejected *)
Definition w_x100_stored : xheader := mkXH (mkH 100 0 2 1 None None None 0) 1000 true 0 false.
Definition w_chain_known : chain := mkChain [w_x0; w_x84; w_x92; w_x99; w_x100_stored] [] [(501, w_lb)].
Lemma w_same_hash_canonical :
  by_number w_chain_known 100 = Some w_x100_stored /\ h_hash (x_h w_x100_stored) = h_hash (x_h w_target) /\
  verify_header w_O fixed 2000 w_yts w_chain_known [] w_target true = HV Accept /\
  verify_header w_O fixed 2000 w_yts w_chain_known [] (mkXH (w_hdr w_cd_ok w_uv_house) 1000 true 0 false) true = HV EInvalidCD.
Proof. repeat split; vm_compute; reflexivity. Qed.
