(* C17 - property theorems only.  Each is closed by [exact] of a lemma of the
   Proofs files / Bridge.v and followed by Print Assumptions.

   External behaviour is universally quantified: the hash H, ECDSA recovery
   [recover] (with its address derivation), the signing function, what the
   EVM interpreter does with a called account's code ([run], constrained only
   by "hands back no more gas than it got") and the staking handler's verdict
   (inside the message).  Account nonces are unbounded N (the uint64 wrap at
   2^64 is outside the model). *)
From VF.C17 Require Import Model ProofsRlp ProofsSig ProofsState ProofsWitness Bridge.
From VF.gen Require Import C17Params.
From Coq Require Import Lia ZifyBool ZifyN ZifyNat.
Local Open Scope N_scope.

(* ======================= authenticity ======================================= *)

(* 1. The bytes that are hashed and signed determine the six signed fields and
   the network id: no two different (fields, network) pairs share a payload. *)
Theorem C17_payload_injective : forall net net' t t',
  to_ok (t_to t) -> to_ok (t_to t') ->
  sign_payload net t = sign_payload net' t' ->
  same_signed_fields t t' /\ net = net'.
Proof. exact payload_injective. Qed.
Print Assumptions C17_payload_injective.

(* 2. A transaction signed with key k for network net <> 0 is attributed to the
   holder of k, for every key, transaction and network id (sign_sound is what
   secp256k1 signing promises: low-s, in range, recovers to the signer). *)
Theorem C17_signed_sender : forall H recover sign addr_of,
  (forall k h, let '(r, s, v) := sign k h in
      v <= 1 /\ 1 <= r /\ r < secpN /\ 1 <= s /\ s <= halfN /\
      recover h r s v = Some (addr_of k)) ->
  forall net k t, net <> 0 ->
  exists t', sign_tx H sign net k t = Some t' /\ same_signed_fields t t' /\
             sender H recover net t' = SOk (addr_of k).
Proof. exact signed_sender. Qed.
Print Assumptions C17_signed_sender.

(* 3. Whatever is accepted carries one of the two V values of its network, r
   and s inside [1, N) with s in the lower half, and is the address recovered
   from the hash of exactly its fields and this network id. *)
Theorem C17_accepted_sender_shape : forall H recover net t a,
  sender H recover net t = SOk a ->
  (t_v t = 35 + 2 * net \/ t_v t = 36 + 2 * net) /\
  sig_in_range t /\
  recover (H (sign_payload net t)) (t_r t) (t_s t) (vbit net t) = Some a.
Proof. exact sender_ok_inv. Qed.
Print Assumptions C17_accepted_sender_shape.

(* 4. Range: a high-s signature, r or s outside [1, N), or a V other than the
   two values of the signer's network is rejected (this covers V = 27/28, the
   uint64 wrap of deriveNetworkId for V < 35 and V beyond 64 bits). *)
Theorem C17_range_high_s : forall H recover net t a,
  halfN < t_s t -> sender H recover net t <> SOk a.
Proof. exact high_s_rejected. Qed.
Print Assumptions C17_range_high_s.

Theorem C17_range_r_s : forall H recover net t a,
  t_r t = 0 \/ t_s t = 0 \/ secpN <= t_r t \/ secpN <= t_s t ->
  sender H recover net t <> SOk a.
Proof. exact rs_out_of_range_rejected. Qed.
Print Assumptions C17_range_r_s.

Theorem C17_range_v : forall H recover net t a,
  t_v t <> 35 + 2 * net -> t_v t <> 36 + 2 * net -> sender H recover net t <> SOk a.
Proof. exact bad_v_rejected. Qed.
Print Assumptions C17_range_v.

(* V is unbounded in the model (any size, as on the wire); acceptance fixes it
   exactly, as an integer: every V' = V + d with d >= 2 (in particular
   d = k*2^64, k*2^65, ...) is rejected although its low 64 bits are a valid V. *)
Theorem C17_v_exact : forall H recover net t a,
  sender H recover net t = SOk a -> t_v t = 35 + 2 * net \/ t_v t = 36 + 2 * net.
Proof. exact v_exact. Qed.
Print Assumptions C17_v_exact.

Theorem C17_v_twin_rejected : forall H recover net t a d,
  d <> 0 -> (t_v t = 35 + 2 * net + d \/ t_v t = 36 + 2 * net + d) -> 2 <= d ->
  sender H recover net t <> SOk a.
Proof. exact v_twin_rejected. Qed.
Print Assumptions C17_v_twin_rejected.

(* 5. A transaction is accepted under at most one network id. *)
Theorem C17_one_network : forall H recover net net' t a a',
  sender H recover net t = SOk a -> sender H recover net' t = SOk a' -> net = net'.
Proof. exact one_network. Qed.
Print Assumptions C17_one_network.

(* 6. Mutation: keep the signature, change anything: if the result is still
   accepted with the same sender then nothing signed was changed - or two
   different byte strings with the same hash are in hand.  (recover_binding:
   one signature recovers a given key for one message hash only.) *)
Theorem C17_mutation_changes_sender : forall H recover,
  (forall h h' r s v a, recover h r s v = Some a -> recover h' r s v = Some a -> h = h') ->
  forall net net' t t' a,
  to_ok (t_to t) -> to_ok (t_to t') ->
  t_v t' = t_v t -> t_r t' = t_r t -> t_s t' = t_s t ->
  sender H recover net t = SOk a -> sender H recover net' t' = SOk a ->
  (same_signed_fields t t' /\ net = net') \/ collision H.
Proof. exact mutation_changes_sender. Qed.
Print Assumptions C17_mutation_changes_sender.

(* ======================= application ========================================== *)

(* 7. Refused up front (invalid signature, wrong nonce, cannot pay for its gas,
   block gas exhausted): state and gas pool are identical; and each reason is
   exactly the failed test.  The two errors raised AFTER buyGas (gas limit
   below the intrinsic gas, value above the balance) are not in this list:
   ApplyTransaction returns them with the debit in place and relies on the
   caller discarding the state (block_step models that). *)
Theorem C17_upfront_untouched : forall P ver run st gp m e st' gp',
  apply_message P ver run st gp m = (Rejected e, st', gp') ->
  upfront e -> st' = st /\ gp' = gp.
Proof. exact upfront_untouched. Qed.
Print Assumptions C17_upfront_untouched.

Theorem C17_upfront_reasons : forall P ver run st gp m e st' gp',
  apply_message P ver run st gp m = (Rejected e, st', gp') ->
  (e = ESender -> m_sigok m = false) /\
  (e = ENonceHigh -> nonce st (m_from m) < m_nonce m) /\
  (e = ENonceLow -> m_nonce m < nonce st (m_from m)) /\
  (e = EInsufGas -> bal st (m_from m) < m_gas m * m_price m) /\
  (e = EGasLimitReached -> gp < m_gas m).
Proof. exact upfront_reasons. Qed.
Print Assumptions C17_upfront_reasons.

(* 8. Accounting of an applied transaction, as the code is: it needed the next
   nonce, the funds for its gas limit and room in the pool; the nonce rises by
   one; gas used lies between the intrinsic gas and the limit; the sender's
   balance drops by what the transaction moves (value to another account /
   detained stake; nothing if it failed) plus (gas used - refund) * price, and
   the pool by gas used - refund, with refund <= gas used / 2.
   PARTIAL with respect to the property text: the property says "gas used
   times price"; the code credits the refund to the sender and the pool but
   reports the gas used before the refund (finding refund-not-in-gas-used). *)
Theorem C17_accounting_partial : forall P ver run st gp m g f st' gp',
  run_le run -> stake_sane P st m ->
  (is_staking P (m_to m) = true -> g_v4 P <= ver) ->
  apply_message P ver run st gp m = (Applied g f, st', gp') ->
  nonce st (m_from m) = m_nonce m /\
  m_gas m * m_price m <= bal st (m_from m) /\
  m_gas m <= gp /\
  nonce st' (m_from m) = m_nonce m + 1 /\
  exists ig refund,
    intrinsic P (base_gas P m) (m_data m) = Some ig /\
    ig <= g /\ g <= m_gas m /\ refund <= g / 2 /\
    bal st' (m_from m) + moved_of P m f + (g - refund) * m_price m = bal st (m_from m) /\
    gp' + (g - refund) = gp /\
    (no_refund run \/ is_staking P (m_to m) = true -> refund = 0).
Proof. exact accounting. Qed.
Print Assumptions C17_accounting_partial.

(* 9. The property's charging clause at full strength ... *)
Definition C17_full : Prop := charge_exact.
(* ... holds outside the finding class (no refund counter: every staking
   message, and every call/creation whose code earns no refund) ... *)
Theorem C17_accounting_holds_outside : forall P ver run st gp m g f st' gp',
  run_le run -> stake_sane P st m ->
  (is_staking P (m_to m) = true -> g_v4 P <= ver) ->
  no_refund run \/ is_staking P (m_to m) = true ->
  apply_message P ver run st gp m = (Applied g f, st', gp') ->
  nonce st (m_from m) = m_nonce m /\
  nonce st' (m_from m) = m_nonce m + 1 /\
  bal st' (m_from m) + moved_of P m f + g * m_price m = bal st (m_from m) /\
  gp' + g = gp /\
  exists ig, intrinsic P (base_gas P m) (m_data m) = Some ig /\ ig <= g /\ g <= m_gas m.
Proof. exact accounting_exact. Qed.
Print Assumptions C17_accounting_holds_outside.

(* ... and is refuted by a call that clears a storage slot: gas used 26006 is
   reported (and enters the gas rewards) while the sender pays for 13003. *)
Theorem C17_accounting_refuted : ~ C17_full.
Proof. exact charge_exact_refuted. Qed.
Print Assumptions C17_accounting_refuted.

(* 10. Applied at most once, over every history: once a message of sender a with
   nonce n was applied, any later message of a with nonce n - after any
   sequence ms of further transactions - is refused up front and leaves the
   block state, pool and counters exactly as they were. *)
Theorem C17_applied_at_most_once : forall P ver run b1 m g f ms m',
  run_le run ->
  snd (block_step P ver run b1 m) = Applied g f ->
  m_from m' = m_from m -> m_nonce m' = m_nonce m ->
  let b3 := run_block P ver run (fst (block_step P ver run b1 m)) ms in
  (snd (block_step P ver run b3 m') = Rejected ENonceLow \/
   snd (block_step P ver run b3 m') = Rejected ESender) /\
  fst (block_step P ver run b3 m') = b3.
Proof. exact applied_at_most_once. Qed.
Print Assumptions C17_applied_at_most_once.

(* 11. Over every sequence of transactions in a block: nonces never decrease and
   the gas pool never grows. *)
Theorem C17_nonces_and_pool_monotone : forall P ver run ms b,
  run_le run ->
  (forall a, nonce (bs_st b) a <= nonce (bs_st (run_block P ver run b ms)) a) /\
  bs_gp (run_block P ver run b ms) <= bs_gp b.
Proof. exact run_block_mono. Qed.
Print Assumptions C17_nonces_and_pool_monotone.

(* 12. A rejected transaction (any reason) leaves the block's state, used gas and
   gas rewards alone; for the up-front reasons the whole block state. *)
Theorem C17_block_rejected_untouched : forall P ver run b m e,
  snd (block_step P ver run b m) = Rejected e ->
  bs_st (fst (block_step P ver run b m)) = bs_st b /\
  bs_used (fst (block_step P ver run b m)) = bs_used b /\
  bs_rewards (fst (block_step P ver run b m)) = bs_rewards b /\
  (upfront e -> fst (block_step P ver run b m) = b).
Proof. exact block_rejected_untouched. Qed.
Print Assumptions C17_block_rejected_untouched.

(* 13. Block gas: outside the finding class the gas reported as used by any
   sequence of transactions never exceeds what left the pool; with refunds it
   does (same finding). *)
Theorem C17_block_gas_holds_outside : forall P ver run ms b,
  run_le run -> no_refund run -> g_v4 P <= ver ->
  bs_used (run_block P ver run b ms) + bs_gp (run_block P ver run b ms) <= bs_used b + bs_gp b.
Proof. exact block_gas_bound. Qed.
Print Assumptions C17_block_gas_holds_outside.

Theorem C17_block_gas_refuted : ~ block_gas_within_pool.
Proof. exact block_gas_within_pool_refuted. Qed.
Print Assumptions C17_block_gas_refuted.

(* 14. Intrinsic gas is base + 16 per non-zero byte + 4 per zero byte (with the
   constants of the tree) whenever that fits 64 bits. *)
Theorem C17_intrinsic_formula : forall P base d,
  params_ok P = true ->
  base + count_nz d * g_nonzero P + (len d - count_nz d) * g_zero P <= maxu64 ->
  intrinsic P base d = Some (base + count_nz d * g_nonzero P + (len d - count_nz d) * g_zero P).
Proof. exact intrinsic_formula. Qed.
Print Assumptions C17_intrinsic_formula.

(* bridge: the constants regenerated from the tree are the ones the witnesses
   use, they meet params_ok, and the interpreter model meets run_le *)
Theorem C17_real_params : real_params = ex_P /\ params_ok real_params = true /\ run_le (run_code real_params).
Proof. exact real_params_facts. Qed.
Print Assumptions C17_real_params.

(* ======================= non-vacuity ============================================ *)
Definition ex_tx : tx := mkTx 7 1000 21000 (Some 0xaa01) 5 [1; 0; 200] 0 0 0.

(* two transactions that differ in one field have different payloads; the
   payload of ex_tx for network 1 is the expected RLP list *)
Example C17_nonvacuous_payload :
  to_ok (t_to ex_tx) /\
  sign_payload 1 ex_tx =
    [228; 7; 130; 3; 232; 130; 82; 8; 148; 0;0;0;0;0;0;0;0;0;0;0;0;0;0;0;0;0;0; 170; 1;
     5; 131; 1; 0; 200; 1; 128; 128] /\
  sign_payload 1 ex_tx <> sign_payload 2 ex_tx.
Proof.
  split; [cbn; lia|]. split; [vm_compute; reflexivity|]. vm_compute. discriminate.
Qed.
Print Assumptions C17_nonvacuous_payload.

(* the hypotheses of 2 and 6 are satisfiable, and signing then recovering works *)
Example C17_nonvacuous_signing :
  (forall k h, let '(r, s, v) := toy_sign k (toy_H h) in
      v <= 1 /\ 1 <= r /\ r < secpN /\ 1 <= s /\ s <= halfN /\
      toy_recover (toy_H h) r s v = Some (toy_addr k)) /\
  (forall h h' r s v a, toy_recover h r s v = Some a -> toy_recover h' r s v = Some a -> h = h') /\
  (exists t', sign_tx toy_H toy_sign 3 41 ex_tx = Some t' /\
              sender toy_H toy_recover 3 t' = SOk (toy_addr 41) /\
              sender toy_H toy_recover 4 t' = SErr EInvalidNetId).
Proof.
  split; [exact toy_sign_sound|]. split; [exact toy_recover_binding|].
  eexists. split; [vm_compute; reflexivity|]. split; vm_compute; reflexivity.
Qed.
Print Assumptions C17_nonvacuous_signing.

(* an applied transfer, a failed-but-included staking message, a creation and
   each rejection reason are reachable *)
Definition ex_st : state := [(1, mkAcct 3 1000000000 0 0); (2, mkAcct 1 0 3 0)].
Definition ex_so : stake_oracle := mkSO true true (Some 400).
Definition ex_m (nonce gas : N) (to : option N) (v : N) : msg :=
  mkMsg 1 true nonce 10 gas to v [] 77 ex_so.

Example C17_nonvacuous_apply :
  fst (fst (apply_message ex_P 5 (run_code ex_P) ex_st 8000000 (ex_m 3 30000 (Some 9) 50))) = Applied 21000 false /\
  fst (fst (apply_message ex_P 5 (run_code ex_P) ex_st 8000000 (ex_m 3 30000 (Some 2) 50))) = Applied 21006 true /\
  fst (fst (apply_message ex_P 5 (run_code ex_P) ex_st 8000000 (ex_m 3 60000 None 50))) = Applied 53000 false /\
  fst (fst (apply_message ex_P 5 (run_code ex_P) ex_st 8000000
                          (ex_m 3 2000000 (Some (g_staking ex_P)) 0))) = Applied 1000000 false /\
  fst (fst (apply_message ex_P 5 (run_code ex_P) ex_st 8000000 (ex_m 2 30000 (Some 9) 50))) = Rejected ENonceLow /\
  fst (fst (apply_message ex_P 5 (run_code ex_P) ex_st 8000000 (ex_m 4 30000 (Some 9) 50))) = Rejected ENonceHigh /\
  fst (fst (apply_message ex_P 5 (run_code ex_P) ex_st 8000000 (ex_m 3 300000000 (Some 9) 50))) = Rejected EInsufGas /\
  fst (fst (apply_message ex_P 5 (run_code ex_P) ex_st 20000 (ex_m 3 30000 (Some 9) 50))) = Rejected EGasLimitReached /\
  stake_sane ex_P ex_st (ex_m 3 2000000 (Some (g_staking ex_P)) 0) /\
  run_le (run_code ex_P).
Proof.
  do 8 (split; [vm_compute; reflexivity|]).
  split.
  - intros _ d Hd. injection Hd as <-. vm_compute. discriminate.
  - apply run_code_le.
Qed.
Print Assumptions C17_nonvacuous_apply.

(* a block in which a transaction is applied, others follow, and its replay is
   then refused; and a refund-free block (calls to code-less accounts) *)
Example C17_nonvacuous_block :
  let b0 := mkBS ex_st 8000000 0 0 in
  let m := ex_m 3 30000 (Some 9) 50 in
  snd (block_step ex_P 5 (run_code ex_P) b0 m) = Applied 21000 false /\
  snd (block_step ex_P 5 (run_code ex_P)
         (run_block ex_P 5 (run_code ex_P) (fst (block_step ex_P 5 (run_code ex_P) b0 m))
                    [ex_m 4 30000 (Some 2) 1; ex_m 5 60000 None 0]) m) = Rejected ENonceLow /\
  bs_used (run_block ex_P 5 (run_code ex_P) b0 [m; ex_m 4 30000 (Some 2) 1; ex_m 5 60000 None 0]) = 95006.
Proof. repeat split; vm_compute; reflexivity. Qed.
Print Assumptions C17_nonvacuous_block.
