(* C17 - executable model of
     core/types/transaction_signing.go  (YouSigner.Hash / Sender / SignatureValues,
                                         recoverPlain, deriveNetworkId, isProtectedV)
     crypto.ValidateSignatureValues
     core/state_processor.go            (ApplyTransaction / ApplyMessageEntry / GetConverter)
     core/message_context.go            (preCheck / buyGas / UseGas / refundGas / GasUsed)
     core/state_transition.go           (IntrinsicGas, DefaultConverter, TransitionDb)
     core/gaspool.go                    (SubGas / AddGas)
     staking/tx_converter.go            (TxConverter.IntrinsicGas / ApplyMessage)
     miner/worker.go commitTransaction  (snapshot / revert around ApplyTransaction)
   No proofs in this file.

   External behaviour enters as function arguments:
     H        : the Keccak-256 of a byte string, as a number
     recover  : ECDSA public key recovery followed by the address derivation
     run      : what the EVM interpreter does with the code of the called
                account (status, gas left, new value of storage slot 0, refund)
     the staking handler's verdict travels inside the message ([m_stk]).
   Numbers are unbounded N; the uint64 limits of the Go code appear where the
   code tests them (intrinsic gas overflow, Uint64 wrap in deriveNetworkId /
   recoverPlain).  Account nonces are assumed to stay below 2^64. *)
From Coq Require Export List NArith ZArith Bool.
Export ListNotations.
Open Scope N_scope.

Definition bytes := list N.
Definition len {A} (l : list A) : N := N.of_nat (length l).

(* ---- the few lines of RLP the signing payload needs ---------------------- *)
(* little-endian digits base 256; fuel = bit size is always enough *)
Fixpoint le_bytes (fuel : nat) (n : N) : bytes :=
  match fuel with
  | O => []
  | S f => if n =? 0 then [] else (n mod 256) :: le_bytes f (n / 256)
  end.
(* minimal big-endian bytes (big.Int.Bytes / putint); 0 is the empty string *)
Definition to_be (n : N) : bytes := rev (le_bytes (N.to_nat (N.size n)) n).

Fixpoint le_fixed (w : nat) (n : N) : bytes :=
  match w with
  | O => []
  | S k => (n mod 256) :: le_fixed k (n / 256)
  end.
(* fixed width big-endian (common.Address is [20]byte) *)
Definition be_fixed (w : nat) (n : N) : bytes := rev (le_fixed w n).

Fixpoint of_be_acc (acc : N) (l : bytes) : N :=
  match l with [] => acc | b :: r => of_be_acc (acc * 256 + b) r end.
Definition of_be (l : bytes) : N := of_be_acc 0 l.

(* header of a payload of n bytes; base 128 = string, 192 = list *)
Definition enc_head (base n : N) : bytes :=
  if n <? 56 then [base + n]
  else let lb := to_be n in (base + 55 + len lb) :: lb.

Definition enc_str (b : bytes) : bytes :=
  match b with
  | [x] => if x <? 128 then [x] else enc_head 128 1 ++ b
  | _ => enc_head 128 (len b) ++ b
  end.

(* ---- transactions -------------------------------------------------------- *)
Record tx := mkTx {
  t_nonce : N;            (* AccountNonce uint64 *)
  t_price : N;            (* Price *big.Int *)
  t_gas   : N;            (* GasLimit uint64 *)
  t_to    : option N;     (* Recipient *common.Address, None = creation *)
  t_value : N;            (* Amount *)
  t_data  : bytes;        (* Payload *)
  t_v : N; t_r : N; t_s : N   (* signature values (RLP big integers: never negative) *)
}.

(* nil *common.Address encodes as the empty string *)
Definition enc_to (o : option N) : bytes :=
  match o with None => enc_str [] | Some a => enc_str (be_fixed 20 a) end.

(* YouSigner.Hash: rlp[nonce, price, gas, to, value, data, netid, 0, 0] *)
Definition sign_fields (net : N) (t : tx) : list bytes :=
  [ enc_str (to_be (t_nonce t)); enc_str (to_be (t_price t)); enc_str (to_be (t_gas t));
    enc_to (t_to t); enc_str (to_be (t_value t)); enc_str (t_data t);
    enc_str (to_be net); enc_str []; enc_str [] ].

Definition sign_payload (net : N) (t : tx) : bytes :=
  let p := concat (sign_fields net t) in enc_head 192 (len p) ++ p.

(* ---- signature checks ---------------------------------------------------- *)
Definition secpN : N :=
  115792089237316195423570985008687907852837564279074904382605163141518161494337.
Definition halfN : N := secpN / 2.
Definition two64 : N := 18446744073709551616.

Definition bitlen (n : N) : N := N.size n.       (* big.Int.BitLen *)

(* isProtectedV *)
Definition is_protected (v : N) : bool :=
  if bitlen v <=? 8 then negb (v =? 27) && negb (v =? 28) else true.

(* deriveNetworkId, including the uint64 wrap of (v - 35) for v < 35 *)
Definition derive_net (v : N) : N :=
  if bitlen v <=? 64 then
    if (v =? 27) || (v =? 28) then 0
    else ((v + two64 - 35) mod two64) / 2
  else (v - 35) / 2.

(* crypto.ValidateSignatureValues with homestead = true *)
Definition validate_sig (v r s : N) : bool :=
  if (r <? 1) || (s <? 1) then false
  else if halfN <? s then false
  else (r <? secpN) && (s <? secpN) && ((v =? 0) || (v =? 1)).

Inductive serr := ENotProtected | EInvalidNetId | EInvalidSig | ERecover.
Inductive sres := SOk (a : N) | SErr (e : serr).

(* recoverPlain; vb may be negative (V - 2*netid - 8): BitLen and Uint64 work
   on the absolute value, [Uint64() - 27] wraps, [byte()] truncates *)
Definition recover_plain (recover : N -> N -> N -> N -> option N)
           (h r s : N) (vb : Z) : sres :=
  let a := Z.abs_N vb in
  if 8 <? bitlen a then SErr EInvalidSig
  else
    let v := (((a mod two64) + two64 - 27) mod two64) mod 256 in
    if negb (validate_sig v r s) then SErr EInvalidSig
    else match recover h r s v with
         | None => SErr ERecover
         | Some ad => SOk ad
         end.

(* YouSigner.Sender *)
Definition sender (H : bytes -> N) (recover : N -> N -> N -> N -> option N)
           (net : N) (t : tx) : sres :=
  if negb (is_protected (t_v t)) then SErr ENotProtected
  else if negb (derive_net (t_v t) =? net) then SErr EInvalidNetId
  else recover_plain recover (H (sign_payload net t)) (t_r t) (t_s t)
         (Z.of_N (t_v t) - Z.of_N (2 * net) - 8)%Z.

(* SignTx = Hash, crypto.Sign, WithSignature/SignatureValues.  [sign k h]
   returns (r, s, recovery bit).  None = ErrInvalidNetworkId (network id 0). *)
Definition sign_tx (H : bytes -> N) (sign : N -> N -> N * N * N)
           (net k : N) (t : tx) : option tx :=
  if net =? 0 then None
  else
    let '(r, s, vbit) := sign k (H (sign_payload net t)) in
    Some (mkTx (t_nonce t) (t_price t) (t_gas t) (t_to t) (t_value t) (t_data t)
               (vbit + 35 + 2 * net) r s).

(* ---- accounts and state -------------------------------------------------- *)
Record acct := mkAcct {
  a_nonce : N;
  a_bal   : N;
  a_kind  : N;     (* which code the account carries, 0 = none (see run_code) *)
  a_slot  : N      (* storage slot 0 *)
}.
Definition empty_acct := mkAcct 0 0 0 0.
Definition state := list (N * acct).

Fixpoint get (st : state) (a : N) : acct :=
  match st with
  | [] => empty_acct
  | (k, v) :: r => if k =? a then v else get r a
  end.
Fixpoint set (st : state) (a : N) (v : acct) : state :=
  match st with
  | [] => [(a, v)]
  | (k, x) :: r => if k =? a then (k, v) :: r else (k, x) :: set r a v
  end.

Definition add_bal (st : state) (a x : N) : state :=
  let c := get st a in set st a (mkAcct (a_nonce c) (a_bal c + x) (a_kind c) (a_slot c)).
Definition sub_bal (st : state) (a x : N) : state :=
  let c := get st a in set st a (mkAcct (a_nonce c) (a_bal c - x) (a_kind c) (a_slot c)).
Definition bump_nonce (st : state) (a : N) : state :=
  let c := get st a in set st a (mkAcct (a_nonce c + 1) (a_bal c) (a_kind c) (a_slot c)).
Definition set_slot (st : state) (a x : N) : state :=
  let c := get st a in set st a (mkAcct (a_nonce c) (a_bal c) (a_kind c) x).
(* core.Transfer *)
Definition transfer (st : state) (from to x : N) : state := add_bal (sub_bal st from x) to x.

(* ---- protocol constants (regenerated from params, see gen/C17Params.v) ---- *)
Record gparams := mkGP {
  g_tx : N;            (* TxGas *)
  g_create : N;        (* TxGasContractCreation *)
  g_zero : N;          (* TxDataZeroGas *)
  g_nonzero : N;       (* TxDataNonZeroGas *)
  g_validator : N;     (* TxValidatorGas *)
  g_valcreate : N;     (* TxValCreationGas *)
  g_push : N;          (* GasFastestStep (PUSH1) *)
  g_sentry : N;        (* SstoreSentryGas *)
  g_noop : N;          (* SstoreNoopGas *)
  g_init : N;          (* SstoreInitGas *)
  g_clean : N;         (* SstoreCleanGas *)
  g_clear_refund : N;  (* SstoreClearRefund *)
  g_staking : N;       (* StakingModuleAddress *)
  g_v4 : N; g_v5 : N   (* YouV4, YouV5 *)
}.

Definition maxu64 : N := two64 - 1.

(* core.IntrinsicGas; None = vm.ErrOutOfGas (uint64 overflow guard) *)
Definition count_nz (d : bytes) : N := len (filter (fun b => negb (b =? 0)) d).
Definition intrinsic (P : gparams) (base : N) (d : bytes) : option N :=
  match d with
  | [] => Some base
  | _ =>
    let nz := count_nz d in
    if (maxu64 - base) / g_nonzero P <? nz then None
    else
      let gas := base + nz * g_nonzero P in
      let z := len d - nz in
      if (maxu64 - gas) / g_zero P <? z then None
      else Some (gas + z * g_zero P)
  end.

(* ---- the interpreter on the codes the harness deploys -------------------- *)
Inductive xstatus := XOk | XRevert | XFail.
Definition runfn := N -> N -> N -> xstatus * N * N * N.
      (* kind -> slot -> gas -> (status, gas left, slot', refund added) *)

(* SSTORE (EIP-2200) of [value] into a slot whose original = current = slot *)
Definition sstore (P : gparams) (slot value gas : N) : xstatus * N * N * N :=
  if gas <=? g_sentry P then (XFail, 0, slot, 0)
  else
    let '(cost, rf) :=
      if slot =? value then (g_noop P, 0)
      else if slot =? 0 then (g_init P, 0)
      else (g_clean P, if value =? 0 then g_clear_refund P else 0) in
    if gas <? cost then (XFail, 0, slot, 0) else (XOk, gas - cost, value, rf).

(* kinds: 0 no code; 1 "00" STOP; 2 "fe" INVALID; 3 "60006000fd" REVERT(0,0);
   4 "6000600055" slot0 := 0; 5 "6001600055" slot0 := 1; anything else is not
   produced by the generators and is treated like INVALID *)
Definition run_code (P : gparams) : runfn := fun kind slot gas =>
  if kind <=? 1 then (XOk, gas, slot, 0)
  else if kind =? 3 then
    if gas <? 2 * g_push P then (XFail, 0, slot, 0) else (XRevert, gas - 2 * g_push P, slot, 0)
  else if (kind =? 4) || (kind =? 5) then
    if gas <? 2 * g_push P then (XFail, 0, slot, 0)
    else sstore P slot (if kind =? 4 then 0 else 1) (gas - 2 * g_push P)
  else (XFail, 0, slot, 0).

(* init code of a creation -> kind *)
Definition bytes_eqb (a b : bytes) : bool :=
  (len a =? len b) && forallb (fun p => fst p =? snd p) (combine a b).
Definition code_kind (d : bytes) : N :=
  match d with
  | [] => 0
  | _ => if bytes_eqb d [0] then 1
         else if bytes_eqb d [254] then 2
         else if bytes_eqb d [96;0;96;0;253] then 3
         else if bytes_eqb d [96;0;96;0;85] then 4
         else if bytes_eqb d [96;1;96;0;85] then 5
         else 6
  end.

(* ---- messages ------------------------------------------------------------ *)
(* verdict of the staking handler (staking/handler.go is C07's domain):
   does the outer message decode, is the action ValidatorCreate, and the
   handler result: None = error, Some d = success detaining d from the sender *)
Record stake_oracle := mkSO { so_decodes : bool; so_create : bool; so_result : option N }.

Record msg := mkMsg {
  m_from   : N;            (* types.Sender result *)
  m_sigok  : bool;         (* false: AsMessage fails (invalid signature) *)
  m_nonce  : N;
  m_price  : N;
  m_gas    : N;
  m_to     : option N;
  m_value  : N;
  m_data   : bytes;
  m_newaddr : N;           (* crypto.CreateAddress(from, nonce) *)
  m_stk    : stake_oracle
}.

Inductive aerr :=
  ESender | ENonceHigh | ENonceLow | EInsufGas | EGasLimitReached   (* refused up front *)
| EIntrinsic | EInsufBalance.                                       (* after buyGas *)
Inductive outcome := Applied (gas_used : N) (failed : bool) | Rejected (e : aerr).

(* result of a converter: Some err = consensus error *)
Record cres := mkCR {
  cr_err : option aerr; cr_used : N; cr_failed : bool;
  cr_st : state; cr_avail : N; cr_refund : N
}.

(* evm.Call as TransitionDb uses it (depth 0, no precompile address) *)
Definition evm_call (run : runfn) (st : state) (from to value gas : N)
  : option (state * N * N * bool) :=         (* None = ErrInsufficientBalance *)
  if a_bal (get st from) <? value then None
  else
    let st1 := transfer st from to value in
    let ta := get st1 to in
    match run (a_kind ta) (a_slot ta) gas with
    | (XOk, g, slot', rf) => Some (set_slot st1 to slot', g, rf, false)
    | (XRevert, g, _, _) => Some (st, g, 0, true)
    | (XFail, _, _, _) => Some (st, 0, 0, true)
    end.

(* evm.Create with init code [d] (result code always empty for the modelled kinds) *)
Definition evm_create (run : runfn) (st : state) (from value gas newaddr : N) (d : bytes)
  : option (state * N * N * bool) :=
  if a_bal (get st from) <? value then None
  else
    let st1 := bump_nonce st from in
    let na := get st1 newaddr in
    if negb (a_nonce na =? 0) || negb (a_kind na =? 0) then Some (st1, 0, 0, true)   (* collision *)
    else
      let st2 := transfer (set st1 newaddr (mkAcct 1 (a_bal na) 0 0)) from newaddr value in
      match run (code_kind d) 0 gas with
      | (XOk, g, slot', rf) => Some (set_slot st2 newaddr slot', g, rf, false)
      | (XRevert, g, _, _) => Some (st1, g, 0, true)
      | (XFail, _, _, _) => Some (st1, 0, 0, true)
      end.

(* DefaultConverter.ApplyMessage / TransitionDb.  [avail] = gas after the
   intrinsic gas, [gas0] = InitialGas.  The used gas is read BEFORE refundGas. *)
Definition default_apply (run : runfn) (st : state) (m : msg) (gas0 avail : N) : cres :=
  match m_to m with
  | None =>
    match evm_create run st (m_from m) (m_value m) avail (m_newaddr m) (m_data m) with
    | None => mkCR (Some EInsufBalance) 0 false st avail 0
    | Some (st', g, rf, failed) => mkCR None (gas0 - g) failed st' g rf
    end
  | Some to =>
    let st0 := bump_nonce st (m_from m) in
    match evm_call run st0 (m_from m) to (m_value m) avail with
    | None => mkCR (Some EInsufBalance) 0 false st0 avail 0
    | Some (st', g, rf, failed) => mkCR None (gas0 - g) failed st' g rf
    end
  end.

(* staking TxConverter.ApplyMessage *)
Definition staking_apply (P : gparams) (ver : N) (st : state) (m : msg) (gas0 avail : N) : cres :=
  let st0 := bump_nonce st (m_from m) in
  let o := m_stk m in
  if negb (so_decodes o) then
    mkCR None gas0 true st0 (if g_v4 P <=? ver then 0 else avail) 0
  else
    let short := (g_v5 P <=? ver) && so_create o && (avail <? g_valcreate P) in
    if short then mkCR None (gas0 - avail) true st0 avail 0
    else
      let avail1 := if (g_v5 P <=? ver) && so_create o then avail - g_valcreate P else avail in
      match so_result o with
      | None => mkCR None gas0 true st0 (if g_v4 P <=? ver then 0 else avail1) 0
      | Some d => mkCR None (gas0 - avail1) false (sub_bal st0 (m_from m) d) avail1 0
      end.

Definition is_staking (P : gparams) (to : option N) : bool :=
  match to with Some a => a =? g_staking P | None => false end.

(* ApplyTransaction / ApplyMessageEntry: outcome, state and gas pool as the call
   leaves them (also when it returns an error) *)
Definition apply_message (P : gparams) (ver : N) (run : runfn)
           (st : state) (gp : N) (m : msg) : outcome * state * N :=
  if negb (m_sigok m) then (Rejected ESender, st, gp)
  else
    let fa := get st (m_from m) in
    (* preCheck *)
    if a_nonce fa <? m_nonce m then (Rejected ENonceHigh, st, gp)
    else if m_nonce m <? a_nonce fa then (Rejected ENonceLow, st, gp)
    else
      (* buyGas *)
      let mgval := m_gas m * m_price m in
      if a_bal fa <? mgval then (Rejected EInsufGas, st, gp)
      else if gp <? m_gas m then (Rejected EGasLimitReached, st, gp)
      else
        let gp1 := gp - m_gas m in
        let st1 := sub_bal st (m_from m) mgval in
        let stk := is_staking P (m_to m) in
        let base := if stk then g_validator P
                    else match m_to m with None => g_create P | Some _ => g_tx P end in
        match intrinsic P base (m_data m) with
        | None => (Rejected EIntrinsic, st1, gp1)
        | Some ig =>
          if m_gas m <? ig then (Rejected EIntrinsic, st1, gp1)
          else
            let avail := m_gas m - ig in
            let r := if stk then staking_apply P ver st1 m (m_gas m) avail
                     else default_apply run st1 m (m_gas m) avail in
            (* refundGas *)
            let used := m_gas m - cr_avail r in
            let refund := N.min (used / 2) (cr_refund r) in
            let avail' := cr_avail r + refund in
            let st3 := add_bal (cr_st r) (m_from m) (avail' * m_price m) in
            let gp2 := gp1 + avail' in
            match cr_err r with
            | Some e => (Rejected e, st3, gp2)
            | None => (Applied (cr_used r) (cr_failed r), st3, gp2)
            end
        end.

(* one transaction inside a block the way the miner / block processor treat
   it: an error discards the state changes (worker.commitTransaction reverts to
   its snapshot, Process abandons the block); the gas pool is left as is.
   [bs_used]/[bs_rewards] are *usedGas and gasRewards. *)
Record bstate := mkBS { bs_st : state; bs_gp : N; bs_used : N; bs_rewards : N }.

Definition block_step (P : gparams) (ver : N) (run : runfn) (b : bstate) (m : msg) : bstate * outcome :=
  match apply_message P ver run (bs_st b) (bs_gp b) m with
  | (Applied g f, st', gp') => (mkBS st' gp' (bs_used b + g) (bs_rewards b + m_price m * g), Applied g f)
  | (Rejected e, _, gp') => (mkBS (bs_st b) gp' (bs_used b) (bs_rewards b), Rejected e)
  end.

Definition run_block (P : gparams) (ver : N) (run : runfn) (b : bstate) (ms : list msg) : bstate :=
  fold_left (fun b m => fst (block_step P ver run b m)) ms b.

(* ---- correspondence runner ------------------------------------------------ *)
Definition aerr_code (e : aerr) : N :=
  match e with ESender => 1 | ENonceHigh => 2 | ENonceLow => 3 | EInsufGas => 4
             | EGasLimitReached => 5 | EIntrinsic => 6 | EInsufBalance => 7 end.
Definition serr_code (e : serr) : N :=
  match e with ENotProtected => 1 | EInvalidNetId => 2 | EInvalidSig => 3 | ERecover => 4 end.

(* observed account: address, nonce, balance, slot 0 *)
Definition obs := (N * N * N * N)%type.
Definition obs_ok (st : state) (o : obs) : bool :=
  let '(a, n, b, s) := o in
  let c := get st a in (a_nonce c =? n) && (a_bal c =? b) && (a_slot c =? s).

(* one observed step: message, result code (0 = applied, else aerr_code), gas
   used, failed, accounts right after the call (before any revert), gas pool *)
Record step := mkStep {
  s_msg : msg; s_code : N; s_used : N; s_failed : bool; s_obs : list obs; s_gp : N
}.

Definition step_ok (P : gparams) (ver : N) (b : bstate) (s : step) : bool :=
  let '(o, st', gp') := apply_message P ver (run_code P) (bs_st b) (bs_gp b) (s_msg s) in
  (match o with
   | Applied g f => (s_code s =? 0) && (s_used s =? g) && Bool.eqb (s_failed s) f
   | Rejected e => s_code s =? aerr_code e
   end) && forallb (obs_ok st') (s_obs s) && (gp' =? s_gp s).

Fixpoint steps_ok (P : gparams) (ver : N) (b : bstate) (l : list step) : bool * bstate :=
  match l with
  | [] => (true, b)
  | s :: r =>
    if step_ok P ver b s
    then steps_ok P ver (fst (block_step P ver (run_code P) b (s_msg s))) r
    else (false, b)
  end.

Inductive case :=
(* types.Sender: signer network id, transaction, observed signing hash, the
   independent recovery result for (hash, r, s, v) and the v it was asked for,
   observed result (0 = address in c_addr, else serr_code) *)
| CSender (net : N) (t : tx) (hash : N) (rec_v : N) (rec : option N) (code : N) (addr : N)
(* types.SignTx: network id, unsigned transaction, observed signing hash,
   (r, s, bit) from crypto.Sign on that hash, observed V R S (None = error) *)
| CSign (net : N) (t : tx) (hash : N) (sig : N * N * N) (res : option (N * N * N))
(* ApplyTransaction sequence in one gas pool *)
| CApply (P : gparams) (ver : N) (init : state) (pool : N) (steps : list step)
         (final : list obs) (used rewards : N).

Definition case_ok (keccak : bytes -> bytes) (c : case) : bool :=
  let H := fun b => of_be (keccak b) in
  match c with
  | CSender net t hash rec_v rec code addr =>
    (H (sign_payload net t) =? hash)
    && (let recover := fun h r s v =>
          if (h =? hash) && (r =? t_r t) && (s =? t_s t) && (v =? rec_v) then rec else None in
        match sender H recover net t with
        | SOk a => (code =? 0) && (a =? addr)
        | SErr e => code =? serr_code e
        end)
  | CSign net t hash sig res =>
    ((net =? 0) || (H (sign_payload net t) =? hash))
    && (match sign_tx H (fun _ _ => sig) net 0 t, res with
        | None, None => true
        | Some t', Some (v, r, s) => (t_v t' =? v) && (t_r t' =? r) && (t_s t' =? s)
        | _, _ => false
        end)
  | CApply P ver init pool steps final used rewards =>
    let '(ok, b) := steps_ok P ver (mkBS init pool 0 0) steps in
    ok && forallb (obs_ok (bs_st b)) final && (bs_used b =? used) && (bs_rewards b =? rewards)
  end.

Fixpoint mismatches_from (keccak : bytes -> bytes) (i : N) (l : list case) : list N :=
  match l with
  | [] => []
  | c :: r => if case_ok keccak c then mismatches_from keccak (i + 1) r
              else i :: mismatches_from keccak (i + 1) r
  end.
Definition mismatches (keccak : bytes -> bytes) := mismatches_from keccak 0.
