(* C17 - facts about the constants regenerated from /repo (gen/C17Params.v). *)
From VF.C17 Require Import Model ProofsState ProofsWitness.
From VF.gen Require Import C17Params.

Lemma real_params_facts :
  real_params = ex_P /\ params_ok real_params = true /\ run_le (run_code real_params).
Proof.
  split; [vm_compute; reflexivity|]. split; [vm_compute; reflexivity|]. apply run_code_le.
Qed.
