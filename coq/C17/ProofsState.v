(* C17 - state transition: rejected up front = untouched; accounting of an
   applied transaction; nonces only grow; applied at most once; block gas. *)
From VF.C17 Require Import Model.
From Coq Require Import Lia ZifyBool ZifyN ZifyNat.
Local Open Scope N_scope.

Definition nonce (st : state) (a : N) : N := a_nonce (get st a).
Definition bal (st : state) (a : N) : N := a_bal (get st a).

(* ---- association list ------------------------------------------------------ *)
Lemma get_set_same : forall st a v, get (set st a v) a = v.
Proof.
  induction st as [|[k x] r IH]; intros a v; cbn [set get].
  - rewrite N.eqb_refl. reflexivity.
  - destruct (k =? a) eqn:E; cbn [get]; rewrite E; [reflexivity | apply IH].
Qed.

Lemma get_set_other : forall st a b v, a <> b -> get (set st a v) b = get st b.
Proof.
  induction st as [|[k x] r IH]; intros a b v Hab; cbn [set get].
  - replace (a =? b) with false by lia. reflexivity.
  - destruct (k =? a) eqn:E; cbn [get].
    + apply N.eqb_eq in E. subst k. replace (a =? b) with false by lia. reflexivity.
    + destruct (k =? b); [reflexivity | apply IH; exact Hab].
Qed.

Lemma get_set : forall st a b v, get (set st a v) b = if a =? b then v else get st b.
Proof.
  intros. destruct (a =? b) eqn:E.
  - apply N.eqb_eq in E. subst. apply get_set_same.
  - apply get_set_other. lia.
Qed.

(* ---- effect of the primitive updates on nonce / balance --------------------- *)
Lemma nonce_add_bal : forall st a x b, nonce (add_bal st a x) b = nonce st b.
Proof.
  intros. unfold nonce, add_bal. rewrite get_set. destruct (a =? b) eqn:E; [|reflexivity].
  apply N.eqb_eq in E. subst. reflexivity.
Qed.
Lemma nonce_sub_bal : forall st a x b, nonce (sub_bal st a x) b = nonce st b.
Proof.
  intros. unfold nonce, sub_bal. rewrite get_set. destruct (a =? b) eqn:E; [|reflexivity].
  apply N.eqb_eq in E. subst. reflexivity.
Qed.
Lemma nonce_set_slot : forall st a x b, nonce (set_slot st a x) b = nonce st b.
Proof.
  intros. unfold nonce, set_slot. rewrite get_set. destruct (a =? b) eqn:E; [|reflexivity].
  apply N.eqb_eq in E. subst. reflexivity.
Qed.
Lemma nonce_bump : forall st a b, nonce (bump_nonce st a) b = if a =? b then nonce st b + 1 else nonce st b.
Proof.
  intros. unfold nonce, bump_nonce. rewrite get_set. destruct (a =? b) eqn:E; [|reflexivity].
  apply N.eqb_eq in E. subst. reflexivity.
Qed.
Lemma nonce_transfer : forall st a c x b, nonce (transfer st a c x) b = nonce st b.
Proof. intros. unfold transfer. rewrite nonce_add_bal, nonce_sub_bal. reflexivity. Qed.

Lemma bal_add_bal : forall st a x b, bal (add_bal st a x) b = if a =? b then bal st b + x else bal st b.
Proof.
  intros. unfold bal, add_bal. rewrite get_set. destruct (a =? b) eqn:E; [|reflexivity].
  apply N.eqb_eq in E. subst. reflexivity.
Qed.
Lemma bal_sub_bal : forall st a x b, bal (sub_bal st a x) b = if a =? b then bal st b - x else bal st b.
Proof.
  intros. unfold bal, sub_bal. rewrite get_set. destruct (a =? b) eqn:E; [|reflexivity].
  apply N.eqb_eq in E. subst. reflexivity.
Qed.
Lemma bal_set_slot : forall st a x b, bal (set_slot st a x) b = bal st b.
Proof.
  intros. unfold bal, set_slot. rewrite get_set. destruct (a =? b) eqn:E; [|reflexivity].
  apply N.eqb_eq in E. subst. reflexivity.
Qed.
Lemma bal_bump : forall st a b, bal (bump_nonce st a) b = bal st b.
Proof.
  intros. unfold bal, bump_nonce. rewrite get_set. destruct (a =? b) eqn:E; [|reflexivity].
  apply N.eqb_eq in E. subst. reflexivity.
Qed.

(* ---- hypotheses on the external parts --------------------------------------- *)
(* the interpreter never hands back more gas than it got *)
Definition run_le (run : runfn) : Prop :=
  forall k s g, snd (fst (fst (run k s g))) <= g.
(* no code ever earns a refund (the class outside the finding) *)
Definition no_refund (run : runfn) : Prop := forall k s g, snd (run k s g) = 0.

Definition base_gas (P : gparams) (m : msg) : N :=
  if is_staking P (m_to m) then g_validator P
  else match m_to m with None => g_create P | Some _ => g_tx P end.

(* the staking handler detains no more than the sender still owns after
   buying gas (handlers test core.CanTransfer before SubBalance) *)
Definition stake_sane (P : gparams) (st : state) (m : msg) : Prop :=
  is_staking P (m_to m) = true ->
  forall d, so_result (m_stk m) = Some d -> d + m_gas m * m_price m <= bal st (m_from m).

Definition dest (m : msg) : N := match m_to m with Some a => a | None => m_newaddr m end.

(* what an applied message takes out of the sender besides gas *)
Definition moved_of (P : gparams) (m : msg) (failed : bool) : N :=
  if failed then 0
  else if is_staking P (m_to m)
       then match so_result (m_stk m) with Some d => d | None => 0 end
       else if dest m =? m_from m then 0 else m_value m.

Definition upfront (e : aerr) : Prop :=
  e = ESender \/ e = ENonceHigh \/ e = ENonceLow \/ e = EInsufGas \/ e = EGasLimitReached.

(* ---- converters -------------------------------------------------------------- *)
Lemma evm_call_spec : forall run st from to value gas st' g rf failed,
  run_le run ->
  evm_call run st from to value gas = Some (st', g, rf, failed) ->
  g <= gas /\ value <= bal st from /\
  (forall b, nonce st' b = nonce st b) /\
  bal st' from + (if failed then 0 else if to =? from then 0 else value) = bal st from /\
  (no_refund run -> rf = 0).
Proof.
  intros run st from to value gas st' g rf failed RL E.
  unfold evm_call in E.
  destruct (a_bal (get st from) <? value) eqn:Eb; [discriminate|].
  assert (Hb : value <= bal st from) by (unfold bal; lia).
  pose proof (RL (a_kind (get (transfer st from to value) to))
                 (a_slot (get (transfer st from to value) to)) gas) as RLi.
  destruct (run (a_kind (get (transfer st from to value) to))
                (a_slot (get (transfer st from to value) to)) gas) as [[[xs g0] sl] rf0] eqn:Er.
  cbn [fst snd] in RLi.
  destruct xs; injection E as <- <- <- <-.
  - split; [exact RLi|]. split; [exact Hb|]. split.
    + intros b. rewrite nonce_set_slot, nonce_transfer. reflexivity.
    + split.
      * rewrite bal_set_slot. unfold transfer. rewrite bal_add_bal, bal_sub_bal.
        rewrite N.eqb_refl. destruct (to =? from) eqn:Et; lia.
      * intros NR. specialize (NR (a_kind (get (transfer st from to value) to))
                                  (a_slot (get (transfer st from to value) to)) gas).
        rewrite Er in NR. exact NR.
  - split; [exact RLi|]. split; [exact Hb|]. split; [reflexivity|]. split; [lia|reflexivity].
  - split; [lia|]. split; [exact Hb|]. split; [reflexivity|]. split; [lia|reflexivity].
Qed.

Lemma evm_create_spec : forall run st from value gas newaddr d st' g rf failed,
  run_le run ->
  evm_create run st from value gas newaddr d = Some (st', g, rf, failed) ->
  g <= gas /\ value <= bal st from /\
  (forall b, nonce st b <= nonce st' b) /\
  nonce st' from = nonce st from + 1 /\
  bal st' from + (if failed then 0 else if newaddr =? from then 0 else value) = bal st from /\
  (no_refund run -> rf = 0).
Proof.
  intros run st from value gas newaddr d st' g rf failed RL E.
  unfold evm_create in E.
  destruct (a_bal (get st from) <? value) eqn:Eb; [discriminate|].
  assert (Hb : value <= bal st from) by (unfold bal; lia).
  set (st1 := bump_nonce st from) in *.
  assert (N1 : forall b, nonce st b <= nonce st1 b).
  { intros b. unfold st1. rewrite nonce_bump. destruct (from =? b); lia. }
  assert (N1f : nonce st1 from = nonce st from + 1).
  { unfold st1. rewrite nonce_bump, N.eqb_refl. reflexivity. }
  assert (B1 : bal st1 from = bal st from) by (unfold st1; apply bal_bump).
  destruct (negb (a_nonce (get st1 newaddr) =? 0) || negb (a_kind (get st1 newaddr) =? 0)) eqn:Ec.
  - injection E as <- <- <- <-.
    split; [lia|]. split; [exact Hb|]. split; [exact N1|]. split; [exact N1f|]. split; [lia|reflexivity].
  - assert (Hn0 : nonce st1 newaddr = 0) by (unfold nonce; lia).
    assert (Hne : newaddr <> from) by (intros ->; lia).
    set (st2 := transfer (set st1 newaddr (mkAcct 1 (a_bal (get st1 newaddr)) 0 0)) from newaddr value) in *.
    assert (N2 : forall b, nonce st1 b <= nonce st2 b).
    { intros b. unfold st2. rewrite nonce_transfer. unfold nonce at 2. rewrite get_set.
      destruct (newaddr =? b) eqn:Enb; [|unfold nonce; lia].
      apply N.eqb_eq in Enb. subst b. cbn [a_nonce]. lia. }
    assert (N2f : nonce st2 from = nonce st1 from).
    { unfold st2. rewrite nonce_transfer. unfold nonce. rewrite get_set_other by exact Hne. reflexivity. }
    assert (B2 : bal st2 from + value = bal st1 from).
    { unfold st2, transfer. rewrite bal_add_bal, bal_sub_bal, N.eqb_refl.
      replace (newaddr =? from) with false by lia.
      unfold bal at 1. rewrite get_set_other by exact Hne. fold (bal st1 from). lia. }
    pose proof (RL (code_kind d) 0 gas) as RLi.
    destruct (run (code_kind d) 0 gas) as [[[xs g0] sl] rf0] eqn:Er.
    cbn [fst snd] in RLi.
    destruct xs; injection E as <- <- <- <-.
    + split; [exact RLi|]. split; [exact Hb|]. split.
      * intros b. rewrite nonce_set_slot. specialize (N1 b). specialize (N2 b). lia.
      * split; [rewrite nonce_set_slot; lia|]. split.
        -- rewrite bal_set_slot. replace (newaddr =? from) with false by lia. lia.
        -- intros NR. specialize (NR (code_kind d) 0 gas). rewrite Er in NR. exact NR.
    + split; [exact RLi|]. split; [exact Hb|]. split; [exact N1|]. split; [exact N1f|].
      split; [lia|reflexivity].
    + split; [lia|]. split; [exact Hb|]. split; [exact N1|]. split; [exact N1f|].
      split; [lia|reflexivity].
Qed.

(* what every converter result satisfies *)
Record conv_ok (P : gparams) (run : runfn) (exact : bool) (st : state) (m : msg)
       (gas0 avail : N) (r : cres) : Prop := mkConvOk {
  co_err : cr_err r = None \/ cr_err r = Some EInsufBalance;
  co_avail : cr_avail r <= avail;
  co_mono : forall b, nonce st b <= nonce (cr_st r) b;
  co_refund_used : cr_err r = None -> cr_refund r <= 0 \/ cr_used r = gas0 - cr_avail r;
  co_applied : cr_err r = None ->
     nonce (cr_st r) (m_from m) = nonce st (m_from m) + 1 /\
     bal (cr_st r) (m_from m) + moved_of P m (cr_failed r) = bal st (m_from m) /\
     cr_used r <= gas0 /\ gas0 - avail <= cr_used r /\
     (exact = true -> cr_used r = gas0 - cr_avail r);
  co_norefund : no_refund run \/ is_staking P (m_to m) = true -> cr_refund r = 0
}.

Lemma default_apply_ok : forall P run st m gas0 avail,
  run_le run -> avail <= gas0 -> is_staking P (m_to m) = false ->
  conv_ok P run true st m gas0 avail (default_apply run st m gas0 avail).
Proof.
  intros P run st m gas0 avail RL Hav Hstk.
  unfold default_apply. destruct (m_to m) as [to|] eqn:Eto.
  - (* call *)
    set (st0 := bump_nonce st (m_from m)).
    assert (N0 : forall b, nonce st b <= nonce st0 b).
    { intros b. unfold st0. rewrite nonce_bump. destruct (m_from m =? b); lia. }
    destruct (evm_call run st0 (m_from m) to (m_value m) avail) as [[[[st' g] rf] failed]|] eqn:Ec.
    + apply evm_call_spec in Ec; [|exact RL].
      destruct Ec as (Hg & Hv & Hn & Hb & Hrf).
      constructor; cbn [cr_err cr_avail cr_st cr_used cr_failed cr_refund].
      * left; reflexivity.
      * exact Hg.
      * intros b. rewrite Hn. apply N0.
      * intros _. right. reflexivity.
      * intros _. split.
        -- rewrite Hn. unfold st0. rewrite nonce_bump, N.eqb_refl. reflexivity.
        -- split.
           ++ unfold moved_of, dest. rewrite Eto, Hstk.
              unfold st0 in Hb. rewrite bal_bump in Hb.
              destruct failed; [lia|]. exact Hb.
           ++ split; [lia|]. split; [lia|]. intros _. reflexivity.
      * intros [NR|S]; [apply Hrf; exact NR | congruence].
    + constructor; cbn [cr_err cr_avail cr_st cr_used cr_failed cr_refund].
      * right; reflexivity.
      * lia.
      * exact N0.
      * discriminate.
      * discriminate.
      * reflexivity.
  - (* creation *)
    destruct (evm_create run st (m_from m) (m_value m) avail (m_newaddr m) (m_data m))
      as [[[[st' g] rf] failed]|] eqn:Ec.
    + apply evm_create_spec in Ec; [|exact RL].
      destruct Ec as (Hg & Hv & Hn & Hnf & Hb & Hrf).
      constructor; cbn [cr_err cr_avail cr_st cr_used cr_failed cr_refund].
      * left; reflexivity.
      * exact Hg.
      * exact Hn.
      * intros _. right. reflexivity.
      * intros _. split; [exact Hnf|]. split.
        -- unfold moved_of, dest. rewrite Eto, Hstk. destruct failed; [lia|]. exact Hb.
        -- split; [lia|]. split; [lia|]. intros _. reflexivity.
      * intros [NR|S]; [apply Hrf; exact NR | congruence].
    + constructor; cbn [cr_err cr_avail cr_st cr_used cr_failed cr_refund].
      * right; reflexivity.
      * lia.
      * intros b. lia.
      * discriminate.
      * discriminate.
      * reflexivity.
Qed.

Lemma staking_apply_ok : forall P run ver st m gas0 avail,
  avail <= gas0 -> is_staking P (m_to m) = true ->
  (forall d, so_result (m_stk m) = Some d -> d <= bal st (m_from m)) ->
  conv_ok P run (g_v4 P <=? ver) st m gas0 avail (staking_apply P ver st m gas0 avail).
Proof.
  intros P run ver st m gas0 avail Hav Hstk Hsane.
  unfold staking_apply.
  set (st0 := bump_nonce st (m_from m)).
  assert (N0 : forall b, nonce st b <= nonce st0 b).
  { intros b. unfold st0. rewrite nonce_bump. destruct (m_from m =? b); lia. }
  assert (N0f : nonce st0 (m_from m) = nonce st (m_from m) + 1).
  { unfold st0. rewrite nonce_bump, N.eqb_refl. reflexivity. }
  assert (B0 : bal st0 (m_from m) = bal st (m_from m)) by (unfold st0; apply bal_bump).
  assert (Mf : moved_of P m true = 0) by reflexivity.
  destruct (negb (so_decodes (m_stk m))) eqn:Ed.
  - constructor; cbn [cr_err cr_avail cr_st cr_used cr_failed cr_refund].
    + left; reflexivity.
    + destruct (g_v4 P <=? ver); lia.
    + exact N0.
    + intros _. left. lia.
    + intros _. split; [exact N0f|]. split; [rewrite Mf; lia|]. split; [lia|]. split; [lia|].
      intros ->. lia.
    + reflexivity.
  - destruct ((g_v5 P <=? ver) && so_create (m_stk m) && (avail <? g_valcreate P)) eqn:Es.
    + constructor; cbn [cr_err cr_avail cr_st cr_used cr_failed cr_refund].
      * left; reflexivity.
      * lia.
      * exact N0.
      * intros _. left. lia.
      * intros _. split; [exact N0f|]. split; [rewrite Mf; lia|]. split; [lia|]. split; [lia|].
        intros _. reflexivity.
      * reflexivity.
    + set (avail1 := if (g_v5 P <=? ver) && so_create (m_stk m) then avail - g_valcreate P else avail).
      assert (Ha1 : avail1 <= avail) by (unfold avail1; destruct ((g_v5 P <=? ver) && so_create (m_stk m)); lia).
      destruct (so_result (m_stk m)) as [d|] eqn:Er.
      * constructor; cbn [cr_err cr_avail cr_st cr_used cr_failed cr_refund].
        -- left; reflexivity.
        -- exact Ha1.
        -- intros b. rewrite nonce_sub_bal. apply N0.
        -- intros _. left. lia.
        -- intros _. split; [rewrite nonce_sub_bal; exact N0f|]. split.
           ++ unfold moved_of. rewrite Hstk, Er. rewrite bal_sub_bal, N.eqb_refl.
              specialize (Hsane d eq_refl). lia.
           ++ split; [lia|]. split; [lia|]. intros _. reflexivity.
        -- reflexivity.
      * constructor; cbn [cr_err cr_avail cr_st cr_used cr_failed cr_refund].
        -- left; reflexivity.
        -- destruct (g_v4 P <=? ver); lia.
        -- exact N0.
        -- intros _. left. lia.
        -- intros _. split; [exact N0f|]. split; [rewrite Mf; lia|]. split; [lia|]. split; [lia|].
           intros ->. lia.
        -- reflexivity.
Qed.

(* ---- apply_message ------------------------------------------------------------ *)
(* rejected for one of the listed up-front reasons: nothing changed *)
Theorem upfront_untouched : forall P ver run st gp m e st' gp',
  apply_message P ver run st gp m = (Rejected e, st', gp') ->
  upfront e -> st' = st /\ gp' = gp.
Proof.
  intros P ver run st gp m e st' gp' E U.
  unfold apply_message in E.
  destruct (negb (m_sigok m)); [injection E as _ <- <-; split; reflexivity|].
  destruct (a_nonce (get st (m_from m)) <? m_nonce m); [injection E as _ <- <-; split; reflexivity|].
  destruct (m_nonce m <? a_nonce (get st (m_from m))); [injection E as _ <- <-; split; reflexivity|].
  destruct (a_bal (get st (m_from m)) <? m_gas m * m_price m); [injection E as _ <- <-; split; reflexivity|].
  destruct (gp <? m_gas m); [injection E as _ <- <-; split; reflexivity|].
  exfalso.
  destruct (intrinsic P _ (m_data m)) as [ig|].
  - destruct (m_gas m <? ig).
    + injection E as <- _ _. unfold upfront in U. intuition discriminate.
    + cbv zeta in E.
      match type of E with context [cr_err ?r] => set (rr := r) in * end.
      assert (Herr : cr_err rr = None \/ cr_err rr = Some EInsufBalance).
      { unfold rr. destruct (is_staking P (m_to m)).
        - unfold staking_apply.
          repeat match goal with |- context [if ?c then _ else _] => destruct c end;
          try (destruct (so_result (m_stk m))); cbn; auto.
        - unfold default_apply. destruct (m_to m).
          + destruct (evm_call _ _ _ _ _ _) as [[[[? ?] ?] ?]|]; cbn; auto.
          + destruct (evm_create _ _ _ _ _ _ _) as [[[[? ?] ?] ?]|]; cbn; auto. }
      destruct Herr as [Hn|Hs]; rewrite ?Hn, ?Hs in E.
      * discriminate.
      * injection E as <- _ _. unfold upfront in U. intuition discriminate.
  - injection E as <- _ _. unfold upfront in U. intuition discriminate.
Qed.

(* which test refuses: the rejection reasons are exactly the failed tests *)
Theorem upfront_reasons : forall P ver run st gp m e st' gp',
  apply_message P ver run st gp m = (Rejected e, st', gp') ->
  (e = ESender -> m_sigok m = false) /\
  (e = ENonceHigh -> nonce st (m_from m) < m_nonce m) /\
  (e = ENonceLow -> m_nonce m < nonce st (m_from m)) /\
  (e = EInsufGas -> bal st (m_from m) < m_gas m * m_price m) /\
  (e = EGasLimitReached -> gp < m_gas m).
Proof.
  intros P ver run st gp m e st' gp' E.
  unfold apply_message in E. unfold nonce, bal.
  destruct (negb (m_sigok m)) eqn:E0.
  { injection E as <- _ _. apply negb_true_iff in E0. repeat split; intros; (discriminate || assumption). }
  destruct (a_nonce (get st (m_from m)) <? m_nonce m) eqn:E1.
  { injection E as <- _ _. repeat split; intros; (discriminate || lia). }
  destruct (m_nonce m <? a_nonce (get st (m_from m))) eqn:E2.
  { injection E as <- _ _. repeat split; intros; (discriminate || lia). }
  destruct (a_bal (get st (m_from m)) <? m_gas m * m_price m) eqn:E3.
  { injection E as <- _ _. repeat split; intros; (discriminate || lia). }
  destruct (gp <? m_gas m) eqn:E4.
  { injection E as <- _ _. repeat split; intros; (discriminate || lia). }
  assert (Hpost : e = EIntrinsic \/ e = EInsufBalance).
  { destruct (intrinsic P _ (m_data m)) as [ig|].
    - destruct (m_gas m <? ig).
      + injection E as <- _ _. auto.
      + cbv zeta in E.
        match type of E with context [cr_err ?r] => set (rr := r) in * end.
        assert (Herr : cr_err rr = None \/ cr_err rr = Some EInsufBalance).
        { unfold rr. destruct (is_staking P (m_to m)).
          - unfold staking_apply.
            repeat match goal with |- context [if ?c then _ else _] => destruct c end;
            try (destruct (so_result (m_stk m))); cbn; auto.
          - unfold default_apply. destruct (m_to m).
            + destruct (evm_call _ _ _ _ _ _) as [[[[? ?] ?] ?]|]; cbn; auto.
            + destruct (evm_create _ _ _ _ _ _ _) as [[[[? ?] ?] ?]|]; cbn; auto. }
        destruct Herr as [Hn|Hs]; rewrite ?Hn, ?Hs in E.
        * discriminate.
        * injection E as <- _ _. auto.
    - injection E as <- _ _. auto. }
  destruct Hpost as [-> | ->]; repeat split; intros; discriminate.
Qed.

(* common shape of everything past buyGas *)
Lemma apply_past_buygas : forall P ver run st gp m,
  run_le run -> stake_sane P st m ->
  m_sigok m = true -> nonce st (m_from m) = m_nonce m ->
  m_gas m * m_price m <= bal st (m_from m) -> m_gas m <= gp ->
  forall ig, intrinsic P (base_gas P m) (m_data m) = Some ig -> ig <= m_gas m ->
  let st1 := sub_bal st (m_from m) (m_gas m * m_price m) in
  let avail := m_gas m - ig in
  let r := if is_staking P (m_to m) then staking_apply P ver st1 m (m_gas m) avail
           else default_apply run st1 m (m_gas m) avail in
  let refund := N.min ((m_gas m - cr_avail r) / 2) (cr_refund r) in
  conv_ok P run (negb (is_staking P (m_to m)) || (g_v4 P <=? ver)) st1 m (m_gas m) avail r /\
  apply_message P ver run st gp m =
    (match cr_err r with Some e => Rejected e | None => Applied (cr_used r) (cr_failed r) end,
     add_bal (cr_st r) (m_from m) ((cr_avail r + refund) * m_price m),
     gp - m_gas m + (cr_avail r + refund)).
Proof.
  intros P ver run st gp m RL SS Hsig Hn Hb Hgp ig Hig Hle st1 avail r refund.
  split.
  - unfold r. destruct (is_staking P (m_to m)) eqn:Es; cbn [negb orb].
    + apply staking_apply_ok; [unfold avail; lia | exact Es |].
      intros d Hd. specialize (SS Es d Hd). unfold st1. rewrite bal_sub_bal, N.eqb_refl. lia.
    + apply default_apply_ok; [exact RL | unfold avail; lia | exact Es].
  - unfold apply_message. rewrite Hsig. cbn [negb].
    unfold nonce in Hn. unfold bal in Hb.
    replace (a_nonce (get st (m_from m)) <? m_nonce m) with false by lia.
    replace (m_nonce m <? a_nonce (get st (m_from m))) with false by lia.
    replace (a_bal (get st (m_from m)) <? m_gas m * m_price m) with false by lia.
    replace (gp <? m_gas m) with false by lia.
    unfold base_gas in Hig. rewrite Hig.
    replace (m_gas m <? ig) with false by lia.
    cbv zeta. fold st1. fold avail. fold r. fold refund.
    destruct (cr_err r); reflexivity.
Qed.

(* inversion of an applied message *)
Lemma applied_inv : forall P ver run st gp m g f st' gp',
  apply_message P ver run st gp m = (Applied g f, st', gp') ->
  m_sigok m = true /\ nonce st (m_from m) = m_nonce m /\
  m_gas m * m_price m <= bal st (m_from m) /\ m_gas m <= gp /\
  exists ig, intrinsic P (base_gas P m) (m_data m) = Some ig /\ ig <= m_gas m.
Proof.
  intros P ver run st gp m g f st' gp' E.
  unfold apply_message in E. unfold nonce, bal, base_gas.
  destruct (negb (m_sigok m)) eqn:E0; [discriminate|].
  destruct (a_nonce (get st (m_from m)) <? m_nonce m) eqn:E1; [discriminate|].
  destruct (m_nonce m <? a_nonce (get st (m_from m))) eqn:E2; [discriminate|].
  destruct (a_bal (get st (m_from m)) <? m_gas m * m_price m) eqn:E3; [discriminate|].
  destruct (gp <? m_gas m) eqn:E4; [discriminate|].
  destruct (intrinsic P _ (m_data m)) as [ig|] eqn:Ei; [|discriminate].
  destruct (m_gas m <? ig) eqn:E5; [discriminate|].
  apply negb_false_iff in E0.
  repeat split; try lia; try assumption.
  exists ig. split; [reflexivity | lia].
Qed.

Theorem accounting : forall P ver run st gp m g f st' gp',
  run_le run -> stake_sane P st m ->
  (is_staking P (m_to m) = true -> g_v4 P <= ver) ->
  apply_message P ver run st gp m = (Applied g f, st', gp') ->
  nonce st (m_from m) = m_nonce m /\
  m_gas m * m_price m <= bal st (m_from m) /\
  m_gas m <= gp /\
  nonce st' (m_from m) = m_nonce m + 1 /\
  exists ig refund,
    intrinsic P (base_gas P m) (m_data m) = Some ig /\
    ig <= g /\ g <= m_gas m /\ refund <= g / 2 /\
    bal st' (m_from m) + moved_of P m f + (g - refund) * m_price m = bal st (m_from m) /\
    gp' + (g - refund) = gp /\
    (no_refund run \/ is_staking P (m_to m) = true -> refund = 0).
Proof.
  intros P ver run st gp m g f st' gp' RL SS V4 E.
  pose proof (applied_inv _ _ _ _ _ _ _ _ _ _ E) as (Hsig & Hn & Hb & Hgp & ig & Hig & Hle).
  pose proof (apply_past_buygas P ver run st gp m RL SS Hsig Hn Hb Hgp ig Hig Hle) as Hp.
  cbv zeta in Hp. destruct Hp as [CO Eq].
  set (st1 := sub_bal st (m_from m) (m_gas m * m_price m)) in *.
  set (avail := m_gas m - ig) in *.
  set (r := if is_staking P (m_to m) then staking_apply P ver st1 m (m_gas m) avail
            else default_apply run st1 m (m_gas m) avail) in *.
  set (refund := N.min ((m_gas m - cr_avail r) / 2) (cr_refund r)) in *.
  rewrite Eq in E.
  destruct (cr_err r) as [e|] eqn:Ee; [discriminate|].
  injection E as <- <- <- <-.
  destruct CO as [_ Hav Hmono Hru Happ Hnr].
  specialize (Happ Ee). destruct Happ as (Hn1 & Hb1 & Hu1 & Hu2 & Hex).
  assert (Hexact : cr_used r = m_gas m - cr_avail r).
  { apply Hex. destruct (is_staking P (m_to m)) eqn:Es; cbn [negb orb]; [|reflexivity].
    specialize (V4 eq_refl). lia. }
  assert (Hav' : cr_avail r <= m_gas m) by (unfold avail in Hav; lia).
  assert (Hrf : refund <= cr_used r / 2).
  { unfold refund. rewrite Hexact. apply N.le_min_l. }
  assert (Hdiv : 2 * (cr_used r / 2) <= cr_used r) by (apply N.mul_div_le; lia).
  assert (B1 : bal st1 (m_from m) + m_gas m * m_price m = bal st (m_from m)).
  { unfold st1. rewrite bal_sub_bal, N.eqb_refl. lia. }
  assert (N1 : nonce st1 (m_from m) = nonce st (m_from m)) by (unfold st1; apply nonce_sub_bal).
  split; [exact Hn|]. split; [exact Hb|]. split; [exact Hgp|]. split.
  - rewrite nonce_add_bal. lia.
  - exists ig, refund. split; [exact Hig|]. split; [unfold avail in Hu2; lia|].
    split; [exact Hu1|]. split; [exact Hrf|]. split.
    + rewrite bal_add_bal, N.eqb_refl.
      assert (cr_used r - refund + (cr_avail r + refund) = m_gas m) by lia. nia.
    + split; [lia|].
      intros Hc. unfold refund. rewrite (Hnr Hc). apply N.min_0_r.
Qed.

(* outside the finding class (no refund counter): exact charge *)
Corollary accounting_exact : forall P ver run st gp m g f st' gp',
  run_le run -> stake_sane P st m ->
  (is_staking P (m_to m) = true -> g_v4 P <= ver) ->
  no_refund run \/ is_staking P (m_to m) = true ->
  apply_message P ver run st gp m = (Applied g f, st', gp') ->
  nonce st (m_from m) = m_nonce m /\
  nonce st' (m_from m) = m_nonce m + 1 /\
  bal st' (m_from m) + moved_of P m f + g * m_price m = bal st (m_from m) /\
  gp' + g = gp /\
  exists ig, intrinsic P (base_gas P m) (m_data m) = Some ig /\ ig <= g /\ g <= m_gas m.
Proof.
  intros P ver run st gp m g f st' gp' RL SS V4 NR E.
  destruct (accounting _ _ _ _ _ _ _ _ _ _ RL SS V4 E)
    as (Hn & _ & _ & Hn' & ig & refund & Hig & H1 & H2 & _ & Hb & Hg & Hz).
  rewrite (Hz NR), N.sub_0_r in *.
  repeat split; try assumption. exists ig. repeat split; assumption.
Qed.

(* ---- monotonicity of nonces and of the pool, any outcome ----------------------- *)
Lemma staking_apply_shape : forall P ver st m gas0 avail,
  cr_avail (staking_apply P ver st m gas0 avail) <= avail /\
  (forall b, nonce st b <= nonce (cr_st (staking_apply P ver st m gas0 avail)) b).
Proof.
  intros P ver st m gas0 avail. unfold staking_apply.
  set (st0 := bump_nonce st (m_from m)).
  assert (N0 : forall b, nonce st b <= nonce st0 b).
  { intros b. unfold st0. rewrite nonce_bump. destruct (m_from m =? b); lia. }
  destruct (negb (so_decodes (m_stk m))).
  - cbn [cr_avail cr_st]. split; [destruct (g_v4 P <=? ver); lia | exact N0].
  - destruct ((g_v5 P <=? ver) && so_create (m_stk m) && (avail <? g_valcreate P)).
    + cbn [cr_avail cr_st]. split; [lia | exact N0].
    + destruct (so_result (m_stk m)); cbn [cr_avail cr_st].
      * split; [destruct ((g_v5 P <=? ver) && so_create (m_stk m)); lia|].
        intros b. rewrite nonce_sub_bal. apply N0.
      * split; [|exact N0].
        destruct (g_v4 P <=? ver); [lia|].
        destruct ((g_v5 P <=? ver) && so_create (m_stk m)); lia.
Qed.

Lemma apply_mono : forall P ver run st gp m o st' gp',
  run_le run ->
  apply_message P ver run st gp m = (o, st', gp') ->
  (forall b, nonce st b <= nonce st' b) /\ gp' <= gp.
Proof.
  intros P ver run st gp m o st' gp' RL E.
  unfold apply_message in E.
  destruct (negb (m_sigok m)); [injection E as _ <- <-; split; [intros; lia | lia]|].
  destruct (a_nonce (get st (m_from m)) <? m_nonce m); [injection E as _ <- <-; split; [intros; lia | lia]|].
  destruct (m_nonce m <? a_nonce (get st (m_from m))); [injection E as _ <- <-; split; [intros; lia | lia]|].
  destruct (a_bal (get st (m_from m)) <? m_gas m * m_price m); [injection E as _ <- <-; split; [intros; lia | lia]|].
  destruct (gp <? m_gas m) eqn:Egp; [injection E as _ <- <-; split; [intros; lia | lia]|].
  set (st1 := sub_bal st (m_from m) (m_gas m * m_price m)) in *.
  assert (N1 : forall b, nonce st1 b = nonce st b) by (intros; unfold st1; apply nonce_sub_bal).
  destruct (intrinsic P _ (m_data m)) as [ig|].
  - destruct (m_gas m <? ig) eqn:Eig.
    + injection E as _ <- <-. split; [intros b; rewrite N1; lia | lia].
    + cbv zeta in E.
      match type of E with context [cr_err ?x] => set (r := x) in * end.
      assert (SH : cr_avail r <= m_gas m - ig /\ (forall b, nonce st1 b <= nonce (cr_st r) b)).
      { unfold r. destruct (is_staking P (m_to m)) eqn:Es.
        - apply staking_apply_shape.
        - destruct (default_apply_ok P run st1 m (m_gas m) (m_gas m - ig) RL ltac:(lia) Es)
            as [_ Hav Hmono _ _ _]. split; assumption. }
      destruct SH as [Hav Hmono].
      assert (Hdiv : 2 * ((m_gas m - cr_avail r) / 2) <= m_gas m - cr_avail r) by (apply N.mul_div_le; lia).
      assert (Hmin : N.min ((m_gas m - cr_avail r) / 2) (cr_refund r) <= (m_gas m - cr_avail r) / 2)
        by apply N.le_min_l.
      assert (R : st' = add_bal (cr_st r) (m_from m)
                     ((cr_avail r + N.min ((m_gas m - cr_avail r) / 2) (cr_refund r)) * m_price m)
                  /\ gp' = gp - m_gas m + (cr_avail r + N.min ((m_gas m - cr_avail r) / 2) (cr_refund r))).
      { destruct (cr_err r); injection E as _ <- <-; split; reflexivity. }
      destruct R as [-> ->]. split.
      * intros b. rewrite nonce_add_bal. specialize (Hmono b). rewrite N1 in Hmono. exact Hmono.
      * lia.
  - injection E as _ <- <-. split; [intros b; rewrite N1; lia | lia].
Qed.

(* ---- blocks -------------------------------------------------------------------- *)
Lemma block_step_mono : forall P ver run b m,
  run_le run ->
  (forall a, nonce (bs_st b) a <= nonce (bs_st (fst (block_step P ver run b m))) a) /\
  bs_gp (fst (block_step P ver run b m)) <= bs_gp b.
Proof.
  intros P ver run b m RL. unfold block_step.
  destruct (apply_message P ver run (bs_st b) (bs_gp b) m) as [[o st'] gp'] eqn:E.
  apply apply_mono in E; [|exact RL]. destruct E as [Hn Hg].
  destruct o; cbn [fst bs_st bs_gp]; split; try assumption. intros; lia.
Qed.

Lemma run_block_mono : forall P ver run ms b,
  run_le run ->
  (forall a, nonce (bs_st b) a <= nonce (bs_st (run_block P ver run b ms)) a) /\
  bs_gp (run_block P ver run b ms) <= bs_gp b.
Proof.
  intros P ver run ms. induction ms as [|m ms IH]; intros b RL.
  - cbn. split; [intros; lia | lia].
  - unfold run_block in *. cbn [fold_left].
    destruct (block_step_mono P ver run b m RL) as [H1 H2].
    destruct (IH (fst (block_step P ver run b m)) RL) as [H3 H4].
    split; [intros a; specialize (H1 a); specialize (H3 a); lia | lia].
Qed.

(* a rejected transaction leaves the block's state, used gas and rewards alone;
   for the up-front reasons also the pool *)
Theorem block_rejected_untouched : forall P ver run b m e,
  snd (block_step P ver run b m) = Rejected e ->
  bs_st (fst (block_step P ver run b m)) = bs_st b /\
  bs_used (fst (block_step P ver run b m)) = bs_used b /\
  bs_rewards (fst (block_step P ver run b m)) = bs_rewards b /\
  (upfront e -> fst (block_step P ver run b m) = b).
Proof.
  intros P ver run b m e E. unfold block_step in *.
  destruct (apply_message P ver run (bs_st b) (bs_gp b) m) as [[o st'] gp'] eqn:Ea.
  destruct o as [g f|e']; cbn [snd fst] in *; [discriminate|].
  injection E as ->. cbn [bs_st bs_used bs_rewards].
  repeat split; try reflexivity.
  intros U. destruct (upfront_untouched _ _ _ _ _ _ _ _ _ Ea U) as [_ ->].
  destruct b; reflexivity.
Qed.

(* applied at most once: after a message of sender a with nonce n was applied,
   every later message of a with nonce n, whatever else it says and whatever
   happened in between, is refused up front and changes nothing *)
Theorem applied_at_most_once : forall P ver run b1 m g f ms m',
  run_le run ->
  snd (block_step P ver run b1 m) = Applied g f ->
  m_from m' = m_from m -> m_nonce m' = m_nonce m ->
  let b3 := run_block P ver run (fst (block_step P ver run b1 m)) ms in
  (snd (block_step P ver run b3 m') = Rejected ENonceLow \/
   snd (block_step P ver run b3 m') = Rejected ESender) /\
  fst (block_step P ver run b3 m') = b3.
Proof.
  intros P ver run b1 m g f ms m' RL Happ Hf Hn b3.
  (* nonce of the sender right after the applied message *)
  assert (N2 : nonce (bs_st (fst (block_step P ver run b1 m))) (m_from m) = m_nonce m + 1).
  { unfold block_step in *.
    destruct (apply_message P ver run (bs_st b1) (bs_gp b1) m) as [[o st'] gp'] eqn:Ea.
    destruct o as [g0 f0|e]; cbn [snd fst bs_st] in *; [|discriminate].
    pose proof (applied_inv _ _ _ _ _ _ _ _ _ _ Ea) as (Hsig & Hnn & Hb & Hgp & ig & Hig & Hle).
    (* redo the nonce part without the balance hypotheses *)
    unfold apply_message in Ea. rewrite Hsig in Ea. cbn [negb] in Ea.
    unfold nonce in Hnn. unfold bal in Hb.
    replace (a_nonce (get (bs_st b1) (m_from m)) <? m_nonce m) with false in Ea by lia.
    replace (m_nonce m <? a_nonce (get (bs_st b1) (m_from m))) with false in Ea by lia.
    replace (a_bal (get (bs_st b1) (m_from m)) <? m_gas m * m_price m) with false in Ea by lia.
    replace (bs_gp b1 <? m_gas m) with false in Ea by lia.
    unfold base_gas in Hig. rewrite Hig in Ea.
    replace (m_gas m <? ig) with false in Ea by lia.
    cbv zeta in Ea.
    set (st1 := sub_bal (bs_st b1) (m_from m) (m_gas m * m_price m)) in *.
    match type of Ea with context [cr_err ?x] => set (r := x) in * end.
    destruct (cr_err r) eqn:Ee; [discriminate|].
    injection Ea as _ _ <- _.
    rewrite nonce_add_bal.
    assert (Hr : nonce (cr_st r) (m_from m) = nonce st1 (m_from m) + 1).
    { unfold r in *. destruct (is_staking P (m_to m)) eqn:Es.
      - unfold staking_apply.
        assert (N0f : nonce (bump_nonce st1 (m_from m)) (m_from m) = nonce st1 (m_from m) + 1)
          by (rewrite nonce_bump, N.eqb_refl; reflexivity).
        destruct (negb (so_decodes (m_stk m))); [exact N0f|].
        destruct ((g_v5 P <=? ver) && so_create (m_stk m) && (m_gas m - ig <? g_valcreate P)); [exact N0f|].
        destruct (so_result (m_stk m)); cbn [cr_st]; [rewrite nonce_sub_bal|]; exact N0f.
      - destruct (default_apply_ok P run st1 m (m_gas m) (m_gas m - ig) RL ltac:(lia) Es)
          as [_ _ _ _ Happ' _]. apply Happ'. exact Ee. }
    rewrite Hr. unfold st1. rewrite nonce_sub_bal. unfold nonce. lia. }
  destruct (run_block_mono P ver run ms (fst (block_step P ver run b1 m)) RL) as [Hmono _].
  specialize (Hmono (m_from m)). fold b3 in Hmono.
  assert (Hlow : m_nonce m' < nonce (bs_st b3) (m_from m')) by (rewrite Hf, Hn; lia).
  unfold block_step, apply_message. unfold nonce in Hlow.
  destruct (negb (m_sigok m')).
  - cbn [snd fst]. split; [right; reflexivity | destruct b3; reflexivity].
  - replace (a_nonce (get (bs_st b3) (m_from m')) <? m_nonce m') with false by lia.
    replace (m_nonce m' <? a_nonce (get (bs_st b3) (m_from m'))) with true by lia.
    cbn [snd fst]. split; [left; reflexivity | destruct b3; reflexivity].
Qed.

(* block gas: outside the finding class the gas reported as used never exceeds
   what left the pool, for every sequence of transactions *)
Lemma block_step_gas : forall P ver run b m,
  run_le run -> no_refund run -> g_v4 P <= ver ->
  bs_used (fst (block_step P ver run b m)) + bs_gp (fst (block_step P ver run b m))
  <= bs_used b + bs_gp b.
Proof.
  intros P ver run b m RL NR V4. unfold block_step.
  destruct (apply_message P ver run (bs_st b) (bs_gp b) m) as [[o st'] gp'] eqn:E.
  destruct o as [g f|e]; cbn [fst bs_used bs_gp].
  - (* applied: gp' + g = gp, shown without the balance hypotheses *)
    pose proof (applied_inv _ _ _ _ _ _ _ _ _ _ E) as (Hsig & Hnn & Hb & Hgp & ig & Hig & Hle).
    unfold apply_message in E. rewrite Hsig in E. cbn [negb] in E.
    unfold nonce in Hnn. unfold bal in Hb.
    replace (a_nonce (get (bs_st b) (m_from m)) <? m_nonce m) with false in E by lia.
    replace (m_nonce m <? a_nonce (get (bs_st b) (m_from m))) with false in E by lia.
    replace (a_bal (get (bs_st b) (m_from m)) <? m_gas m * m_price m) with false in E by lia.
    replace (bs_gp b <? m_gas m) with false in E by lia.
    unfold base_gas in Hig. rewrite Hig in E.
    replace (m_gas m <? ig) with false in E by lia.
    cbv zeta in E.
    set (st1 := sub_bal (bs_st b) (m_from m) (m_gas m * m_price m)) in *.
    match type of E with context [cr_err ?x] => set (r := x) in * end.
    destruct (cr_err r) eqn:Ee; [discriminate|].
    injection E as <- _ _ <-.
    assert (Hr : cr_avail r <= m_gas m - ig /\ cr_refund r = 0 /\ cr_used r = m_gas m - cr_avail r).
    { unfold r in *. destruct (is_staking P (m_to m)) eqn:Es.
      - unfold staking_apply. replace (g_v4 P <=? ver) with true by lia.
        destruct (negb (so_decodes (m_stk m))); [cbn; lia|].
        destruct ((g_v5 P <=? ver) && so_create (m_stk m) && (m_gas m - ig <? g_valcreate P)); [cbn; lia|].
        destruct (so_result (m_stk m)); cbn [cr_avail cr_refund cr_used];
          destruct ((g_v5 P <=? ver) && so_create (m_stk m)); lia.
      - destruct (default_apply_ok P run st1 m (m_gas m) (m_gas m - ig) RL ltac:(lia) Es)
          as [_ Hav _ _ Happ' Hnr]. specialize (Happ' Ee).
        destruct Happ' as (_ & _ & _ & _ & Hex).
        split; [exact Hav|]. split; [apply Hnr; left; exact NR | apply Hex; reflexivity]. }
    destruct Hr as (Hav & Hrf & Hu). rewrite Hrf, Hu, N.min_0_r. lia.
  - apply apply_mono in E; [|exact RL]. destruct E as [_ Hg]. lia.
Qed.

Theorem block_gas_bound : forall P ver run ms b,
  run_le run -> no_refund run -> g_v4 P <= ver ->
  bs_used (run_block P ver run b ms) + bs_gp (run_block P ver run b ms) <= bs_used b + bs_gp b.
Proof.
  intros P ver run ms. induction ms as [|m ms IH]; intros b RL NR V4.
  - cbn. lia.
  - unfold run_block in *. cbn [fold_left].
    pose proof (block_step_gas P ver run b m RL NR V4).
    pose proof (IH (fst (block_step P ver run b m)) RL NR V4). lia.
Qed.

(* ---- the concrete interpreter meets the hypotheses ------------------------------ *)
Lemma run_code_le : forall P, run_le (run_code P).
Proof.
  intros P k s g. unfold run_code.
  destruct (k <=? 1); [cbn; lia|].
  destruct (k =? 3).
  { destruct (g <? 2 * g_push P) eqn:E; cbn; lia. }
  destruct ((k =? 4) || (k =? 5)); [|cbn; lia].
  destruct (g <? 2 * g_push P) eqn:E; [cbn; lia|].
  unfold sstore.
  destruct (g - 2 * g_push P <=? g_sentry P); [cbn; lia|].
  destruct (s =? (if k =? 4 then 0 else 1)).
  - destruct (g - 2 * g_push P <? g_noop P) eqn:E2; cbn; lia.
  - destruct (s =? 0).
    + destruct (g - 2 * g_push P <? g_init P) eqn:E2; cbn; lia.
    + destruct (g - 2 * g_push P <? g_clean P) eqn:E2; cbn; lia.
Qed.

(* ---- intrinsic gas formula -------------------------------------------------------- *)
Definition params_ok (P : gparams) : bool :=
  (0 <? g_zero P) && (0 <? g_nonzero P) && (g_v4 P <? g_v5 P) && (g_staking P <? 2 ^ 160).

Theorem intrinsic_formula : forall P base d,
  params_ok P = true ->
  base + count_nz d * g_nonzero P + (len d - count_nz d) * g_zero P <= maxu64 ->
  intrinsic P base d = Some (base + count_nz d * g_nonzero P + (len d - count_nz d) * g_zero P).
Proof.
  intros P base d OK Hb. unfold params_ok in OK.
  assert (Hz : 0 < g_zero P) by lia. assert (Hnz : 0 < g_nonzero P) by lia.
  unfold intrinsic. destruct d as [|x d'].
  - cbn. f_equal. cbn in Hb. lia.
  - set (d := x :: d') in *.
    assert (E1 : ((maxu64 - base) / g_nonzero P <? count_nz d) = false).
    { apply N.ltb_ge. apply N.div_le_lower_bound; [lia|]. nia. }
    rewrite E1.
    assert (E2 : ((maxu64 - (base + count_nz d * g_nonzero P)) / g_zero P <? len d - count_nz d) = false).
    { apply N.ltb_ge. apply N.div_le_lower_bound; [lia|]. nia. }
    rewrite E2. reflexivity.
Qed.
