(* C17 - concrete witnesses: the finding (refund credited to the sender but not
   taken off the reported gas), the pre-YouV4 staking charge, and the toy
   instances used by the non-vacuity examples. *)
From VF.C17 Require Import Model ProofsRlp ProofsSig ProofsState.
From Coq Require Import Lia ZifyBool ZifyN ZifyNat.
Local Open Scope N_scope.

(* the protocol constants of the pinned tree (Bridge.v checks them against the
   regenerated gen/C17Params.v) *)
Definition ex_P : gparams :=
  mkGP 21000 53000 4 16 100000 900000 3 2300 800 20000 5000 15000
       0x56616c696461746f72734d616e61676572 4 5.

(* ---- the full-strength charging clause and its refutation ------------------- *)
Definition charge_exact : Prop :=
  forall P ver run st gp m g f st' gp',
    run_le run -> stake_sane P st m ->
    (is_staking P (m_to m) = true -> g_v4 P <= ver) ->
    apply_message P ver run st gp m = (Applied g f, st', gp') ->
    bal st' (m_from m) + moved_of P m f + g * m_price m = bal st (m_from m).

(* sender 1 calls contract 2 whose code clears its non-zero storage slot 0 *)
Definition w_st : state := [(1, mkAcct 0 1000000000000 0 0); (2, mkAcct 1 0 4 1)].
Definition w_msg : msg := mkMsg 1 true 0 1000 100000 (Some 2) 0 [] 99 (mkSO false false None).

Lemma w_run : apply_message ex_P 5 (run_code ex_P) w_st 8000000 w_msg
  = (Applied 26006 false,
     [(1, mkAcct 1 999986997000 0 0); (2, mkAcct 1 0 4 0)], 7986997).
Proof. vm_compute. reflexivity. Qed.

Theorem charge_exact_refuted : ~ charge_exact.
Proof.
  intros Hc.
  specialize (Hc ex_P 5 (run_code ex_P) w_st 8000000 w_msg 26006 false
                 [(1, mkAcct 1 999986997000 0 0); (2, mkAcct 1 0 4 0)] 7986997
                 (run_code_le ex_P)).
  assert (SS : stake_sane ex_P w_st w_msg) by (intros Hs; vm_compute in Hs; discriminate).
  specialize (Hc SS ltac:(intros Hs; vm_compute in Hs; discriminate) w_run).
  vm_compute in Hc. discriminate.
Qed.

Definition block_gas_within_pool : Prop :=
  forall P ver run ms b, run_le run -> g_v4 P <= ver ->
    bs_used (run_block P ver run b ms) + bs_gp (run_block P ver run b ms) <= bs_used b + bs_gp b.

Definition w_msg2 : msg := mkMsg 1 true 1 1000 21000 (Some 3) 5 [] 98 (mkSO false false None).

Theorem block_gas_within_pool_refuted : ~ block_gas_within_pool.
Proof.
  intros Hc.
  specialize (Hc ex_P 5 (run_code ex_P) [w_msg; w_msg2] (mkBS w_st 130000 0 0) (run_code_le ex_P)
                 ltac:(vm_compute; discriminate)).
  vm_compute in Hc. apply Hc. reflexivity.
Qed.

(* ---- toy cryptography for the non-vacuity examples ---------------------------- *)
Definition toy_H (b : bytes) : N := of_be b mod 1000003.
Definition toy_recover (h r s v : N) : option N := if r =? h + 1 then Some (s * 2 + v) else None.
Definition toy_sign (k h : N) : N * N * N := (h + 1, (k mod 1000) / 2 + 1, k mod 2).
Definition toy_addr (k : N) : N := ((k mod 1000) / 2 + 1) * 2 + k mod 2.

Lemma toy_sign_sound : forall k h,
  let '(r, s, v) := toy_sign k (toy_H h) in
  v <= 1 /\ 1 <= r /\ r < secpN /\ 1 <= s /\ s <= halfN /\
  toy_recover (toy_H h) r s v = Some (toy_addr k).
Proof.
  intros k h. unfold toy_sign, toy_recover, toy_addr.
  assert (toy_H h < 1000003) by (unfold toy_H; apply N.mod_lt; lia).
  assert (k mod 2 < 2) by (apply N.mod_lt; lia).
  assert (k mod 1000 < 1000) by (apply N.mod_lt; lia).
  assert ((k mod 1000) / 2 < 1000) by (apply N.div_lt_upper_bound; lia).
  rewrite N.eqb_refl. unfold halfN, secpN.
  repeat split; try lia.
Qed.

Lemma toy_recover_binding : forall h h' r s v a,
  toy_recover h r s v = Some a -> toy_recover h' r s v = Some a -> h = h'.
Proof.
  intros h h' r s v a. unfold toy_recover.
  destruct (r =? h + 1) eqn:E1; [|discriminate].
  destruct (r =? h' + 1) eqn:E2; [|discriminate]. lia.
Qed.
